/-
Tie by translation (C16): Permission.IsAllowed, Permission.IsValid, PermissionDesc.Compare, the wildcard containers,
Group.IsValid and Context.SyscallHandler are re-translated from /repo's Go source on every check run
(harness/cmd/extract/gofuncs.go + gofuncs_c16.go → Generated/GoFuncs.lean); the theorems below prove, for all
arguments, that the translated function is the function the hand-written models use. A change of the Go function
changes the generated definition and these proofs stop checking.
-/
import NeoModel.Generated.GoFuncs
import NeoModel.Proofs.FlagsManifest
import NeoModel.Model.Flags
namespace NeoModel.GoFuncsTie.C16
open NeoModel NeoModel.Generated NeoModel.Flags

/-- `PermissionDesc.Type` of a descriptor (PermissionWildcard/Hash/Group = 0/1/2, Generated.ManifestConsts). -/
def typeCode : MF.Desc → Int
  | .wildcard => 0
  | .hash _ => 1
  | .group _ => 2

/-- the translated `Permission.IsAllowed` IS the model's `Perm.isAllowed` on concrete hashes and keys: for every
permission, callee and method — leaves: `Hash().Equals(hash)` is equality of the 20 bytes, the ContainsFunc over
the callee's groups is `any (key = ·)`, `Methods.IsWildcard()` is `Value == nil`, `Methods.Contains(method)` is the
translated WildStrings.Contains on `slices.Contains`. The `default: panic` branch (`none`) is never taken. -/
theorem isAllowed_translated (p : MF.Perm) (hash : Bytes) (callee : MF.Man) (method : Bytes) (g : Int) :
    GoFuncs.permissionIsAllowed (typeCode p.contract) p.methods.isNone
      (GoFuncs.wildStringsContains p.methods.isNone ((p.methods.getD []).contains method))
      (match p.contract with | .hash h => h == hash | _ => false) g
      (match p.contract with | .group k => (callee.groups.getD []).any (fun x => k == x.key) | _ => false)
    = some (p.isAllowed hash callee method) := by
  obtain ⟨c, ms⟩ := p
  cases c <;> cases ms <;>
    simp [GoFuncs.permissionIsAllowed, GoFuncs.wildStringsContains, MF.Perm.isAllowed, typeCode] <;>
    (try (split <;> simp_all))

/-- the same for the abstract model (ids for hashes and keys, `Model/Flags.lean`). -/
theorem isAllowed_translated_abstract (p : Permission) (hash : Nat) (callee : Manifest) (method : String) (g : Int) :
    GoFuncs.permissionIsAllowed (match p.contract with | .wildcard => 0 | .hash _ => 1 | .group _ => 2) p.methods.isNone
      (GoFuncs.wildStringsContains p.methods.isNone ((p.methods.getD []).contains method))
      (match p.contract with | .hash h => h == hash | _ => false) g
      (match p.contract with | .group k => callee.groups.any (fun mg => k == mg) | _ => false)
    = some (p.isAllowed hash callee method) := by
  obtain ⟨c, ms⟩ := p
  cases c <;> cases ms <;>
    simp [GoFuncs.permissionIsAllowed, GoFuncs.wildStringsContains, Permission.isAllowed, wildContains] <;>
    (try (split <;> simp_all)) <;> (try (intro x hx heq; subst heq; contradiction))

/-- the translated `Permission.IsValid` fails exactly when the model's does (empty method name first, then
duplicates). -/
theorem permIsValid_translated (p : MF.Perm) :
    GoFuncs.manifestPermissionIsValid ((p.methods.getD []).contains [])
      (MF.hasDupBy (fun a b : Bytes => a == b) (p.methods.getD [])) = "ok" ↔ p.isValid = none := by
  obtain ⟨c, ms⟩ := p
  cases ms with
  | none => simp [GoFuncs.manifestPermissionIsValid, MF.Perm.isValid, MF.hasDupBy]
  | some ms =>
    simp only [GoFuncs.manifestPermissionIsValid, MF.Perm.isValid, Option.getD_some]
    by_cases h1 : ms.contains [] = true <;> by_cases h2 : MF.hasDupBy (fun a b : Bytes => a == b) ms = true <;>
      simp [h1, h2] <;> (try (split <;> simp))

/-- the translated `Group.IsValid` is the `verify` parameter of the model's `groupsValid`. -/
theorem groupIsValid_translated (v : Bool) : GoFuncs.manifestGroupIsValid v = "ok" ↔ v = true := by
  cases v <;> simp [GoFuncs.manifestGroupIsValid]

/-- `PermissionDesc.Compare(a, b) == 0` is equality of type and value, as the model's duplicate checks of
permissions and trusts use it — given that Uint160.Compare / PublicKey.Cmp return 0 exactly on equal values. -/
theorem descCompare_zero_iff (a b : MF.Desc) (hc gc : Int)
    (hh : ∀ x y, a = .hash x → b = .hash y → (hc = 0 ↔ x = y))
    (hg : ∀ x y, a = .group x → b = .group y → (gc = 0 ↔ x = y)) :
    GoFuncs.permissionDescCompare (typeCode a) (typeCode b) hc gc = 0 ↔ a = b := by
  cases a <;> cases b <;> simp [GoFuncs.permissionDescCompare, typeCode]
  · exact hh _ _ rfl rfl
  · exact hg _ _ rfl rfl

/-- an abstract comparison of values: a total order given by an injective rank (Uint160.Compare compares the
bytes, PublicKey.Cmp the coordinates). -/
def cmpRank (r : Bytes → Int) (x y : Bytes) : Int := if r x < r y then -1 else if r x > r y then 1 else 0

/-- the translated Compare with such leaves. -/
def descCompare (r : Bytes → Int) (a b : MF.Desc) : Int :=
  GoFuncs.permissionDescCompare (typeCode a) (typeCode b)
    (match a, b with | .hash x, .hash y => cmpRank r x y | _, _ => 0)
    (match a, b with | .group x, .group y => cmpRank r x y | _, _ => 0)

/-- … and the translated `PermissionDesc.Compare` is a total preorder whose equivalence is equality: the hypothesis
of `sliceHasDups_correct` holds for the comparison the code passes to sliceHasDups for permissions and trusts. -/
theorem descCompare_preorder (r : Bytes → Int) (hinj : ∀ x y, r x = r y → x = y) :
    MF.Preorder' (fun a b => descCompare r a b ≤ 0) (fun a b : MF.Desc => a == b) := by
  constructor
  · intro a b c
    cases a <;> cases b <;> cases c <;>
      simp [descCompare, GoFuncs.permissionDescCompare, typeCode, cmpRank] <;> (try split) <;> (try split) <;> omega
  · intro a b
    cases a <;> cases b <;>
      simp [descCompare, GoFuncs.permissionDescCompare, typeCode, cmpRank]
    all_goals
      constructor
      · rintro rfl; omega
      · intro h; apply hinj; split at h <;> split at h <;> omega

/-- hence the duplicate check of the trusts (and, through `contract`, of the permissions) — `sliceHasDups(x,
PermissionDesc.Compare)` with ANY correct sorting function — decides "two equal descriptors", the model's `hasDupBy`. -/
theorem desc_dup_check_correct (r : Bytes → Int) (hinj : ∀ x y, r x = r y → x = y)
    (sort : List MF.Desc → List MF.Desc) (hperm : ∀ l, (sort l).Perm l)
    (hsorted : ∀ l, (sort l).Pairwise (fun a b => descCompare r a b ≤ 0)) (x : List MF.Desc) :
    (if x.length < 2 then false else MF.adjDup (fun a b : MF.Desc => a == b) (if x.length > 2 then sort x else x))
      = MF.hasDupBy (fun a b : MF.Desc => a == b) x :=
  MF.sliceHasDups_spec (descCompare_preorder r hinj) sort hperm hsorted x

/-- `SyscallHandler`: the handler function of a system call is reached (`f.Func(ic)` decides the outcome) ONLY IF
`cf.Has(f.RequiredFlags)` held, and the flag check precedes the price computation and the gas charge — the
`Instr.prim` step of the machine (`if cur.flags.has p.req then … else halt`). -/
theorem syscallHandler_runs_only_with_flags (id fn : Int) (fnil : Bool) (cf : Int) (has : Bool) (price fee : Int)
    (gasErr funcErr : Bool) :
    (GoFuncs.interopSyscallHandler id fn fnil cf has price fee gasErr funcErr = "ok" ∨
     GoFuncs.interopSyscallHandler id fn fnil cf has price fee gasErr funcErr = "f_Func_ic_err") →
    has = true ∧ fnil = false := by
  cases fnil <;> cases has <;> cases gasErr <;> cases funcErr <;> simp [GoFuncs.interopSyscallHandler]

theorem syscallHandler_refuses_without_flags (id fn : Int) (cf : Int) (price fee : Int) (gasErr funcErr : Bool) :
    GoFuncs.interopSyscallHandler id fn false cf false price fee gasErr funcErr = "err" := by
  simp [GoFuncs.interopSyscallHandler]

-- non-vacuity: {group, methods [a]} against a callee of that group: a yes, b no (the defect fixed by d153840)
example : GoFuncs.permissionIsAllowed 2 false (GoFuncs.wildStringsContains false true) false 0 true = some true := by decide
example : GoFuncs.permissionIsAllowed 2 false (GoFuncs.wildStringsContains false false) false 0 true = some false := by decide
example : GoFuncs.permissionDescCompare 1 1 0 5 = 0 ∧ GoFuncs.permissionDescCompare 1 2 0 0 = -1 := by decide


section CallPath
open CallFlags

/-! ## translator v2: the call path (flags with bit operations) -/

/-- `CallFlag.Has` translated = the structured `has` on the 16 flag sets. -/
theorem callflagHas_translated :
    ∀ a ∈ List.range 16, ∀ b ∈ List.range 16, GoFuncs.callflagHas (b : Int) (a : Int) = (ofNat a).has (ofNat b) := by
  decide +kernel

/-- the flag arithmetic of callInternal: `f &^ (WriteStates|AllowNotify)` translated = `minus (ofNat 10)`. -/
theorem bandnot_translated :
    ∀ f ∈ List.range 16, GoFuncs.bandnot (f : Int) 10 = (((ofNat f).minus (ofNat 10)).toNat : Int) := by decide +kernel

/-- the flags callInternal hands on to callExFromNative, as the model has them (before the intersection with the
caller's flags, which callExFromNative does): the safe-method drop of `Params.real`. -/
def passedOn (requested : Nat) (safe : Bool) : Nat :=
  (if safe then (ofNat requested).minus Params.real.safeDrop else ofNat requested).toNat

/-- `callInternal_translated`: for every requested flag set, callee (safe or not), caller (deployed or not, any
manifest), hardfork side of Domovoi and stored manifest, the TRANSLATED callInternal reaches callExFromNative iff
the model's `permitted` holds, and then passes on exactly the model's flags. Leaves: `ctx != nil` true,
`ctx.IsDeployed()` = the frame has a manifest, `mfst != nil` = a manifest is consulted (`consulted`),
`GetContract` fails = nothing stored, `mfst.CanCall(…)` = canCall of the consulted manifest. -/
theorem callInternal_translated (P : Params) (requested : Nat) (hr : requested ∈ List.range 16)
    (cur : Frame) (t : Target) (stored : Option Manifest) (b1 b2 : Bool) (c1 c2 c3 c4 : Int) :
    GoFuncs.contractCallInternal (requested : Int) b1 b2 t.safe c1 true cur.manifest.isSome P.callerFromContext c2
      (consulted P cur t stored).isSome
      (((consulted P cur t stored).map (fun m => m.canCall t.hash t.manifest t.method)).getD false)
      c3 stored.isNone c4
    = if permitted P cur t stored then some [(passedOn requested t.safe : Int)] else Option.none := by
  have hb := bandnot_translated requested hr
  have h10 : Params.real.safeDrop = ofNat 10 := by decide
  have ht : (ofNat requested).toNat = requested := (by decide : ∀ r ∈ List.range 16, (ofNat r).toNat = r) requested hr
  obtain ⟨fl, man, vs, via, st, rq, hsh⟩ := cur
  cases hs : t.safe
  · cases man with
    | none => simp [GoFuncs.contractCallInternal, permitted, consulted, hs, passedOn, ht]
    | some m =>
      cases hd : P.callerFromContext
      · cases stored with
        | none => simp [GoFuncs.contractCallInternal, permitted, consulted, hs, hd, passedOn, ht]
        | some sm =>
          cases hc : sm.canCall t.hash t.manifest t.method <;>
            simp [GoFuncs.contractCallInternal, permitted, consulted, hs, hd, passedOn, hc, ht]
      · cases hc : m.canCall t.hash t.manifest t.method <;>
          simp [GoFuncs.contractCallInternal, permitted, consulted, hs, hd, passedOn, hc, ht]
  · simp [GoFuncs.contractCallInternal, permitted, consulted, hs, passedOn, h10, hb]

/-- the child flags of the machine's `.call` step are the caller's flags ∩ what the translated callInternal
passes on (callExFromNative: `f = ctx.GetCallFlags() & f`, `Interops.childIsAnd`). -/
theorem childFlags_eq_passedOn (viaToken : Bool) (cur : CallFlags) :
    ∀ requested ∈ List.range 16, ∀ safe : Bool,
      childFlags Params.real viaToken cur (ofNat requested) safe = cur.inter (ofNat (passedOn requested safe)) := by
  intro requested hr safe
  have : ∀ r ∈ List.range 16, ∀ s : Bool, ∀ tk : Bool,
      (if s then (ofNat r).minus (if tk then Params.real.safeDropToken else Params.real.safeDrop) else ofNat r)
        = ofNat (passedOn r s) := by decide +kernel
  unfold childFlags
  rw [this requested hr safe viaToken]

/-- `CallFromNative` translated passes `Params.real.fromNative` (All) to callExFromNative. -/
theorem callFromNative_translated (b : Bool) :
    GoFuncs.contractCallFromNative b = some [(Params.real.fromNative.toNat : Int)] := by
  simp [GoFuncs.contractCallFromNative]; decide

/-- `runtime.LoadScript` translated: refused if the requested flags have a bit outside All, otherwise the child's
flags are the machine's `(cur ∩ loadScriptMask) ∩ requested` — for all 16 context flag sets and requested bytes. -/
theorem loadScript_translated :
    ∀ cf ∈ List.range 16, ∀ rq ∈ List.range 64, ∀ c1 c2 : Int,
      GoFuncs.runtimeLoadScript c1 (rq : Int) c2 false (cf : Int) =
        if rq < 16 then some [((((ofNat cf).inter Params.real.loadScriptMask).inter (ofNat rq)).toNat : Int)] else Option.none := by
  intro cf hcf rq hrq c1 c2
  have : ∀ cf ∈ List.range 16, ∀ rq ∈ List.range 64,
      GoFuncs.runtimeLoadScript 0 (rq : Int) 0 false (cf : Int) =
        if rq < 16 then some [((((ofNat cf).inter Params.real.loadScriptMask).inter (ofNat rq)).toNat : Int)] else Option.none := by
    decide +kernel
  simpa [GoFuncs.runtimeLoadScript] using this cf hcf rq hrq


end CallPath

section IsValidFamily
open NeoModel.Flags.MF

/-! ## translator v2: the check order of the IsValid family -/

theorem orElse_some {α : Type} (a b : Option α) (e : α) : (a <|> b) = some e ↔ a = some e ∨ (a = none ∧ b = some e) := by
  cases a <;> simp

/-- the errors Parameters.AreValid can return. -/
def isParamErr : Err → Bool
  | .paramEmptyName | .paramVoid | .paramBadType | .dupParams => true
  | _ => false

theorem param_isValid_class (vt : List Nat) (p : Param) (e : Err) (h : p.isValid vt = some e) : isParamErr e = true := by
  unfold Param.isValid at h
  split at h
  · cases h; rfl
  · split at h
    · cases h; rfl
    · split at h
      · cases h; rfl
      · cases h

theorem paramsValid_class (vt : List Nat) (ps : List Param) (e : Err) (h : paramsValid vt ps = some e) : isParamErr e = true := by
  unfold paramsValid at h
  rcases (orElse_some _ _ _).1 h with h | ⟨_, h⟩
  · obtain ⟨p, _, hp⟩ := List.exists_of_findSome?_eq_some h
    exact param_isValid_class vt p e hp
  · split at h
    · cases h; rfl
    · cases h

/-- outcome labels of the translated Method.IsValid / Event.IsValid. -/
def methodLabel : Option Err → String
  | none => "ok"
  | some .methodBadReturn => "smartcontract_ConvertToParamType_int_m_ReturnType_1_err"
  | some e => if isParamErr e then "Parameters_m_Parameters_AreValid_err" else "err"

def eventLabel : Option Err → String
  | none => "ok"
  | some e => if isParamErr e then "Parameters_e_Parameters_AreValid_err" else "err"

/-- the translated `Method.IsValid` makes the decisions of the model's `Method.isValid`, in the same order, with the
same first failing check (name, offset, return type, parameters). -/
theorem methodIsValid_translated (vt : List Nat) (m : Method) :
    GoFuncs.manifestMethodIsValid m.name.isEmpty m.offset (!vt.contains m.ret) (paramsValid vt m.params).isSome
      = methodLabel (m.isValid vt) := by
  unfold GoFuncs.manifestMethodIsValid Method.isValid
  by_cases h1 : m.name.isEmpty = true
  · simp [h1, methodLabel, isParamErr]
  · by_cases h2 : m.offset < 0
    · simp [h1, h2, methodLabel, isParamErr]
    · by_cases h3 : vt.contains m.ret = true
      · have h3' : m.ret ∈ vt := by simpa using h3
        cases hp : paramsValid vt m.params with
        | none => simp [h1, h2, h3', methodLabel]
        | some e =>
          have hc := paramsValid_class vt m.params e hp
          simp only [h1, h2, h3, if_false, Bool.false_eq_true, Bool.not_true, Option.isSome_some, if_true, methodLabel]
          cases e <;> simp_all [isParamErr]
      · have h3' : ¬ m.ret ∈ vt := by simpa using h3
        simp [h1, h2, h3', methodLabel, isParamErr]

theorem eventIsValid_translated (vt : List Nat) (e : MF.Event) :
    GoFuncs.manifestEventIsValid e.name.isEmpty (paramsValid vt e.params).isSome = eventLabel (e.isValid vt) := by
  unfold GoFuncs.manifestEventIsValid Event.isValid
  by_cases h1 : e.name.isEmpty = true
  · simp [h1, eventLabel, isParamErr]
  · cases hp : paramsValid vt e.params with
    | none => simp [h1, eventLabel]
    | some x =>
      have := paramsValid_class vt e.params x hp
      simp [h1, eventLabel, this]

/-- outcome labels of the translated Parameter.IsValid. -/
def paramLabel : Option Err → String
  | none => "ok"
  | some .paramBadType => "smartcontract_ConvertToParamType_int_p_Type_1_err"
  | some _ => "err"

/-- the translated `Parameter.IsValid` makes the model's decisions, in the same order, with the same first failing
check: empty name, Void, then ConvertToParamType (translator v3 renders the final `return err` faithfully). -/
theorem parameterIsValid_translated (vt : List Nat) (p : Param) :
    GoFuncs.manifestParameterIsValid p.name.isEmpty (p.typ : Int) (!vt.contains p.typ) = paramLabel (p.isValid vt) := by
  unfold GoFuncs.manifestParameterIsValid Param.isValid voidType
  by_cases h1 : p.name.isEmpty = true
  · simp [h1, paramLabel]
  · by_cases h2 : p.typ = 255
    · simp [h1, h2, paramLabel]
    · have : ¬ ((p.typ : Int) = 255) := by omega
      by_cases h3 : p.typ ∈ vt <;> simp [h1, h2, h3, this, paramLabel]

/-- classes of errors by the sub-check of Manifest.IsValid that reports them. -/
def isGroupErr : Err → Bool
  | .nullGroups | .badGroupSignature | .dupGroups => true
  | _ => false
def isPermErr : Err → Bool
  | .permEmptyMethod | .permDupMethods | .dupPermissions => true
  | _ => false

def manLabel : Option Err → String
  | none => "ok"
  | some e => if isGroupErr e then "Groups_m_Groups_AreValid_hash_err"
              else if isPermErr e then "Permissions_m_Permissions_AreValid_err" else "err"

theorem groupsValid_class (verify : Bytes → Bytes → Bool) (ch : Bool) (gs : Option (List Group)) (e : Err)
    (h : groupsValid verify ch gs = some e) : isGroupErr e = true := by
  unfold groupsValid at h
  cases gs with
  | none => cases h; rfl
  | some gs =>
    simp only at h
    rcases (orElse_some _ _ _).1 h with h | ⟨_, h⟩
    · split at h
      · obtain ⟨g, _, hg⟩ := List.exists_of_findSome?_eq_some h
        split at hg
        · cases hg
        · cases hg; rfl
      · cases h
    · split at h
      · cases h; rfl
      · cases h

theorem permsValid_class (ps : List Perm) (e : Err) (h : permsValid ps = some e) : isPermErr e = true := by
  unfold permsValid at h
  rcases (orElse_some _ _ _).1 h with h | ⟨_, h⟩
  · obtain ⟨p, _, hp⟩ := List.exists_of_findSome?_eq_some h
    unfold Perm.isValid at hp
    cases hm : p.methods with
    | none => simp [hm] at hp
    | some ms =>
      simp only [hm] at hp
      split at hp
      · cases hp; rfl
      · split at hp
        · cases hp; rfl
        · cases hp
  · split at h
    · cases h; rfl
    · cases h

theorem method_isValid_class (vt : List Nat) (m : Method) (e : Err) (h : m.isValid vt = some e) :
    isGroupErr e = false ∧ isPermErr e = false := by
  unfold Method.isValid at h
  split at h
  · cases h; exact ⟨rfl, rfl⟩
  · split at h
    · cases h; exact ⟨rfl, rfl⟩
    · split at h
      · cases h; exact ⟨rfl, rfl⟩
      · have := paramsValid_class vt _ e h
        cases e <;> simp_all [isParamErr, isGroupErr, isPermErr]

theorem event_isValid_class (vt : List Nat) (m : MF.Event) (e : Err) (h : m.isValid vt = some e) :
    isGroupErr e = false ∧ isPermErr e = false := by
  unfold Event.isValid at h
  split at h
  · cases h; exact ⟨rfl, rfl⟩
  · have := paramsValid_class vt _ e h
    cases e <;> simp_all [isParamErr, isGroupErr, isPermErr]

theorem abiValid_class (vt : List Nat) (ms : List Method) (es : List MF.Event) (e : Err) (h : abiValid vt ms es = some e) :
    isGroupErr e = false ∧ isPermErr e = false := by
  unfold abiValid at h
  rcases (orElse_some _ _ _).1 h with h | ⟨_, h⟩
  · split at h
    · cases h; exact ⟨rfl, rfl⟩
    · cases h
  · rcases (orElse_some _ _ _).1 h with h | ⟨_, h⟩
    · obtain ⟨m, _, hm⟩ := List.exists_of_findSome?_eq_some h
      exact method_isValid_class vt m e hm
    · rcases (orElse_some _ _ _).1 h with h | ⟨_, h⟩
      · split at h
        · cases h; exact ⟨rfl, rfl⟩
        · cases h
      · rcases (orElse_some _ _ _).1 h with h | ⟨_, h⟩
        · obtain ⟨m, _, hm⟩ := List.exists_of_findSome?_eq_some h
          exact event_isValid_class vt m e hm
        · split at h
          · cases h; exact ⟨rfl, rfl⟩
          · cases h

theorem manifestIsValid_core (cs nameE stdE stdD featOk tnil twild tdup ser : Bool) (abi grp prm : Option Err) (c : Int)
    (habi : ∀ e, abi = some e → isGroupErr e = false ∧ isPermErr e = false)
    (hgrp : ∀ e, grp = some e → isGroupErr e = true)
    (hprm : ∀ e, prm = some e → isPermErr e = true ∧ isGroupErr e = false) :
    GoFuncs.manifestIsValid cs nameE stdE stdD abi.isSome featOk grp.isSome tnil twild tdup prm.isSome c false (!ser)
    = manLabel (((if nameE then some Err.noName else none) <|>
        (if stdE then some Err.emptyStandard else none) <|>
        (if stdD then some Err.dupStandards else none) <|>
        abi <|>
        (if featOk then none else some Err.badFeatures) <|>
        grp <|>
        ((if tnil && !twild then some Err.nullTrusts else none) <|> (if tdup then some Err.dupTrusts else none)) <|>
        prm) <|>
        (if cs && !ser then some Err.notSerializable else none)) := by
  unfold GoFuncs.manifestIsValid
  cases nameE
  case true => simp [manLabel, isGroupErr, isPermErr]
  cases stdE
  case true => simp [manLabel, isGroupErr, isPermErr]
  cases stdD
  case true => simp [manLabel, isGroupErr, isPermErr]
  cases abi
  case some e => have := habi e rfl; simp [manLabel, this.1, this.2]
  cases featOk
  case false => simp [manLabel, isGroupErr, isPermErr]
  cases grp
  case some e => have := hgrp e rfl; simp [manLabel, this]
  cases tnil <;> cases twild <;> cases tdup <;> (try (simp [manLabel, isGroupErr, isPermErr]; done)) <;>
  (cases prm
   case some e => have := hprm e rfl; simp [manLabel, this.1, this.2]
   cases cs <;> cases ser <;> simp [manLabel, isGroupErr, isPermErr])

/-- `manifestIsValid_translated`: the TRANSLATED Manifest.IsValid(hash, checkSize) makes the decisions of the model's
`isValidFull`, in the same order, with the same first failing check — name, empty / duplicate standards, ABI,
features, groups, null / duplicate trusts, permissions, serialisability — for every manifest, signature verifier
and both values of checkSize. Leaves = the model's sub-checks. -/
theorem manifestIsValid_translated (vt : List Nat) (verify : Bytes → Bytes → Bool) (checkHash checkSize : Bool)
    (compact : Bytes → Bytes) (m : Man) (c : Int) :
    GoFuncs.manifestIsValid checkSize m.name.isEmpty (m.standards.contains [])
      (hasDupBy (fun a b : Bytes => a == b) m.standards) (abiValid vt m.methods m.events).isSome
      (featuresOk m.features) (groupsValid verify checkHash m.groups).isSome
      m.trusts.value.isNone m.trusts.wildcard (hasDupBy (fun a b : Desc => a == b) (m.trusts.value.getD []))
      (permsValid m.perms).isSome c false (!m.serializable compact)
    = manLabel (m.isValidFull vt verify checkHash checkSize compact) := by
  unfold Man.isValidFull Man.isValid trustsValid
  exact manifestIsValid_core checkSize _ _ _ _ _ _ _ _ _ _ _ c
    (fun e h => abiValid_class vt _ _ e h) (fun e h => groupsValid_class verify checkHash _ e h)
    (fun e h => by
      have hp := permsValid_class _ e h
      exact ⟨hp, by cases e <;> simp_all [isPermErr, isGroupErr]⟩)


end IsValidFamily

end NeoModel.GoFuncsTie.C16
