/-
Tie by translation (C16): Permission.IsAllowed, Permission.IsValid, PermissionDesc.Compare, the wildcard containers,
Group.IsValid and Context.SyscallHandler are re-translated from /repo's Go source on every check run
(harness/cmd/extract/gofuncs.go + gofuncs_c16.go → Generated/GoFuncs.lean); the theorems below prove, for all
arguments, that the translated function is the function the hand-written models use. A change of the Go function
changes the generated definition and these proofs stop checking.
-/
import NeoModel.Generated.GoFuncs
import NeoModel.Proofs.FlagsManifest
import NeoModel.Model.Flags
namespace NeoModel.GoFuncsTie.C16
open NeoModel NeoModel.Generated NeoModel.Flags

/-- `PermissionDesc.Type` of a descriptor (PermissionWildcard/Hash/Group = 0/1/2, Generated.ManifestConsts). -/
def typeCode : MF.Desc → Int
  | .wildcard => 0
  | .hash _ => 1
  | .group _ => 2

/-- the translated `Permission.IsAllowed` IS the model's `Perm.isAllowed` on concrete hashes and keys: for every
permission, callee and method — leaves: `Hash().Equals(hash)` is equality of the 20 bytes, the ContainsFunc over
the callee's groups is `any (key = ·)`, `Methods.IsWildcard()` is `Value == nil`, `Methods.Contains(method)` is the
translated WildStrings.Contains on `slices.Contains`. The `default: panic` branch (`none`) is never taken. -/
theorem isAllowed_translated (p : MF.Perm) (hash : Bytes) (callee : MF.Man) (method : Bytes) (g : Int) :
    GoFuncs.permissionIsAllowed (typeCode p.contract) p.methods.isNone
      (GoFuncs.wildStringsContains p.methods.isNone ((p.methods.getD []).contains method))
      (match p.contract with | .hash h => h == hash | _ => false) g
      (match p.contract with | .group k => (callee.groups.getD []).any (fun x => k == x.key) | _ => false)
    = some (p.isAllowed hash callee method) := by
  obtain ⟨c, ms⟩ := p
  cases c <;> cases ms <;>
    simp [GoFuncs.permissionIsAllowed, GoFuncs.wildStringsContains, MF.Perm.isAllowed, typeCode] <;>
    (try (split <;> simp_all))

/-- the same for the abstract model (ids for hashes and keys, `Model/Flags.lean`). -/
theorem isAllowed_translated_abstract (p : Permission) (hash : Nat) (callee : Manifest) (method : String) (g : Int) :
    GoFuncs.permissionIsAllowed (match p.contract with | .wildcard => 0 | .hash _ => 1 | .group _ => 2) p.methods.isNone
      (GoFuncs.wildStringsContains p.methods.isNone ((p.methods.getD []).contains method))
      (match p.contract with | .hash h => h == hash | _ => false) g
      (match p.contract with | .group k => callee.groups.any (fun mg => k == mg) | _ => false)
    = some (p.isAllowed hash callee method) := by
  obtain ⟨c, ms⟩ := p
  cases c <;> cases ms <;>
    simp [GoFuncs.permissionIsAllowed, GoFuncs.wildStringsContains, Permission.isAllowed, wildContains] <;>
    (try (split <;> simp_all)) <;> (try (intro x hx heq; subst heq; contradiction))

/-- the translated `Permission.IsValid` fails exactly when the model's does (empty method name first, then
duplicates). -/
theorem permIsValid_translated (p : MF.Perm) :
    GoFuncs.manifestPermissionIsValid ((p.methods.getD []).contains [])
      (MF.hasDupBy (fun a b : Bytes => a == b) (p.methods.getD [])) = "ok" ↔ p.isValid = none := by
  obtain ⟨c, ms⟩ := p
  cases ms with
  | none => simp [GoFuncs.manifestPermissionIsValid, MF.Perm.isValid, MF.hasDupBy]
  | some ms =>
    simp only [GoFuncs.manifestPermissionIsValid, MF.Perm.isValid, Option.getD_some]
    by_cases h1 : ms.contains [] = true <;> by_cases h2 : MF.hasDupBy (fun a b : Bytes => a == b) ms = true <;>
      simp [h1, h2] <;> (try (split <;> simp))

/-- the translated `Group.IsValid` is the `verify` parameter of the model's `groupsValid`. -/
theorem groupIsValid_translated (v : Bool) : GoFuncs.manifestGroupIsValid v = "ok" ↔ v = true := by
  cases v <;> simp [GoFuncs.manifestGroupIsValid]

/-- `PermissionDesc.Compare(a, b) == 0` is equality of type and value, as the model's duplicate checks of
permissions and trusts use it — given that Uint160.Compare / PublicKey.Cmp return 0 exactly on equal values. -/
theorem descCompare_zero_iff (a b : MF.Desc) (hc gc : Int)
    (hh : ∀ x y, a = .hash x → b = .hash y → (hc = 0 ↔ x = y))
    (hg : ∀ x y, a = .group x → b = .group y → (gc = 0 ↔ x = y)) :
    GoFuncs.permissionDescCompare (typeCode a) (typeCode b) hc gc = 0 ↔ a = b := by
  cases a <;> cases b <;> simp [GoFuncs.permissionDescCompare, typeCode]
  · exact hh _ _ rfl rfl
  · exact hg _ _ rfl rfl

/-- an abstract comparison of values: a total order given by an injective rank (Uint160.Compare compares the
bytes, PublicKey.Cmp the coordinates). -/
def cmpRank (r : Bytes → Int) (x y : Bytes) : Int := if r x < r y then -1 else if r x > r y then 1 else 0

/-- the translated Compare with such leaves. -/
def descCompare (r : Bytes → Int) (a b : MF.Desc) : Int :=
  GoFuncs.permissionDescCompare (typeCode a) (typeCode b)
    (match a, b with | .hash x, .hash y => cmpRank r x y | _, _ => 0)
    (match a, b with | .group x, .group y => cmpRank r x y | _, _ => 0)

/-- … and the translated `PermissionDesc.Compare` is a total preorder whose equivalence is equality: the hypothesis
of `sliceHasDups_correct` holds for the comparison the code passes to sliceHasDups for permissions and trusts. -/
theorem descCompare_preorder (r : Bytes → Int) (hinj : ∀ x y, r x = r y → x = y) :
    MF.Preorder' (fun a b => descCompare r a b ≤ 0) (fun a b : MF.Desc => a == b) := by
  constructor
  · intro a b c
    cases a <;> cases b <;> cases c <;>
      simp [descCompare, GoFuncs.permissionDescCompare, typeCode, cmpRank] <;> (try split) <;> (try split) <;> omega
  · intro a b
    cases a <;> cases b <;>
      simp [descCompare, GoFuncs.permissionDescCompare, typeCode, cmpRank]
    all_goals
      constructor
      · rintro rfl; omega
      · intro h; apply hinj; split at h <;> split at h <;> omega

/-- hence the duplicate check of the trusts (and, through `contract`, of the permissions) — `sliceHasDups(x,
PermissionDesc.Compare)` with ANY correct sorting function — decides "two equal descriptors", the model's `hasDupBy`. -/
theorem desc_dup_check_correct (r : Bytes → Int) (hinj : ∀ x y, r x = r y → x = y)
    (sort : List MF.Desc → List MF.Desc) (hperm : ∀ l, (sort l).Perm l)
    (hsorted : ∀ l, (sort l).Pairwise (fun a b => descCompare r a b ≤ 0)) (x : List MF.Desc) :
    (if x.length < 2 then false else MF.adjDup (fun a b : MF.Desc => a == b) (if x.length > 2 then sort x else x))
      = MF.hasDupBy (fun a b : MF.Desc => a == b) x :=
  MF.sliceHasDups_spec (descCompare_preorder r hinj) sort hperm hsorted x

/-- `SyscallHandler`: the handler function of a system call is reached (`f.Func(ic)` decides the outcome) ONLY IF
`cf.Has(f.RequiredFlags)` held, and the flag check precedes the price computation and the gas charge — the
`Instr.prim` step of the machine (`if cur.flags.has p.req then … else halt`). -/
theorem syscallHandler_runs_only_with_flags (id fn : Int) (fnil : Bool) (cf : Int) (has : Bool) (price fee : Int)
    (gasErr funcErr : Bool) :
    (GoFuncs.interopSyscallHandler id fn fnil cf has price fee gasErr funcErr = "ok" ∨
     GoFuncs.interopSyscallHandler id fn fnil cf has price fee gasErr funcErr = "f_Func_ic_err") →
    has = true ∧ fnil = false := by
  cases fnil <;> cases has <;> cases gasErr <;> cases funcErr <;> simp [GoFuncs.interopSyscallHandler]

theorem syscallHandler_refuses_without_flags (id fn : Int) (cf : Int) (price fee : Int) (gasErr funcErr : Bool) :
    GoFuncs.interopSyscallHandler id fn false cf false price fee gasErr funcErr = "err" := by
  simp [GoFuncs.interopSyscallHandler]

-- non-vacuity: {group, methods [a]} against a callee of that group: a yes, b no (the defect fixed by d153840)
example : GoFuncs.permissionIsAllowed 2 false (GoFuncs.wildStringsContains false true) false 0 true = some true := by decide
example : GoFuncs.permissionIsAllowed 2 false (GoFuncs.wildStringsContains false false) false 0 true = some false := by decide
example : GoFuncs.permissionDescCompare 1 1 0 5 = 0 ∧ GoFuncs.permissionDescCompare 1 2 0 0 = -1 := by decide

end NeoModel.GoFuncsTie.C16
