/-
C13 — tie by translation: `stackitem.CheckIntegerSize` and `vm.toInt`, translated from the Go source on every
run (Generated/GoFuncs.lean), ARE the specification's range checks `inRange` / `toInt32`, for every integer.
The leaves of the translation are math/big accessors; their documented meaning is stated as hypotheses:
  BitLen             |n| < 2^bl, and bl = 0 or 2^(bl-1) ≤ |n|
  TrailingZeroBits   for n ≠ 0: 2^tz divides |n| and 2^(tz+1) does not
  Sign               Int.sign n;  IsInt64 / Int64: n fits 64 bits, and then Int64() = n.
-/
import NeoModel.Model.Vm
import NeoModel.Generated.GoFuncs
open NeoModel NeoModel.Vm
namespace NeoModel.Vm.GoTie

/-- **checkIntegerSize_eq_inRange.** The translated `CheckIntegerSize` accepts exactly the integers the
specification's `inRange` accepts: −2^255 ≤ n < 2^255 (in particular −2^255 yes, 2^255 no). -/
theorem checkIntegerSize_eq_inRange (n : Int) (bl tz : Nat)
    (hbl : n.natAbs < 2^bl ∧ (bl = 0 ∨ 2^(bl-1) ≤ n.natAbs))
    (htz : n ≠ 0 → 2^tz ∣ n.natAbs ∧ ¬ 2^(tz+1) ∣ n.natAbs) :
    (Generated.GoFuncs.vmCheckIntegerSize bl (Int.sign n) tz = "ok") ↔ inRange n = true := by
  have hr : inRange n = true ↔ (-(2:Int)^255 ≤ n ∧ n < (2:Int)^255) := by simp [inRange]
  rw [hr]
  have p255 : ((2:Nat)^255 : Int) = (2:Int)^255 := by norm_cast
  unfold Generated.GoFuncs.vmCheckIntegerSize
  simp only
  by_cases h1 : (bl : Int) < 256
  · simp only [h1, if_true, true_iff]
    have : (2:Nat)^bl ≤ 2^255 := Nat.pow_le_pow_right (by decide) (by omega)
    omega
  · simp only [h1, if_false]
    by_cases h2 : (bl : Int) > 256
    · simp only [h2, if_true]
      have hb : 2^(bl-1) ≤ n.natAbs := by
        rcases hbl.2 with h0 | h0
        · omega
        · exact h0
      have : (2:Nat)^256 ≤ 2^(bl-1) := Nat.pow_le_pow_right (by decide) (by omega)
      have p256 : (2:Nat)^256 = 2 * 2^255 := by decide
      constructor
      · intro h; exact absurd h (by decide)
      · intro h; omega
    · simp only [h2, if_false]
      have hbe : bl = 256 := by omega
      subst hbe
      have hlo : 2^255 ≤ n.natAbs := by
        rcases hbl.2 with h0 | h0
        · omega
        · exact h0
      have hhi : n.natAbs < 2^256 := hbl.1
      have p256 : (2:Nat)^256 = 2 * 2^255 := by decide
      have hn0 : n ≠ 0 := by intro h; subst h; simp at hlo
      obtain ⟨hd, hnd⟩ := htz hn0
      by_cases hs : Int.sign n = 1
      · have hpos : 0 < n := Int.sign_eq_one_iff_pos.mp hs
        simp only [hs, true_or, if_true]
        constructor
        · intro h; exact absurd h (by decide)
        · intro h; omega
      · have hneg : n < 0 := by
          rcases Int.lt_trichotomy n 0 with h | h | h
          · exact h
          · exact absurd h hn0
          · exact absurd (Int.sign_eq_one_iff_pos.mpr h) hs
        by_cases ht : tz = 255
        · subst ht
          have hsimp : ¬ (Int.sign n = 1 ∨ ((255:Nat):Int) ≠ 255) := by simp [hs]
          simp only [hsimp, if_false, true_iff]
          obtain ⟨k, hk⟩ := hd
          have : k = 1 := by
            rcases Nat.lt_or_ge k 2 with h | h
            · rcases Nat.lt_or_ge k 1 with h' | h'
              · have : k = 0 := by omega
                subst this; omega
              · omega
            · have : 2^255 * 2 ≤ 2^255 * k := Nat.mul_le_mul_left _ h
              omega
          subst this
          omega
        · have hsimp : (Int.sign n = 1 ∨ (tz:Int) ≠ 255) := Or.inr (by omega)
          simp only [hsimp, if_true]
          constructor
          · intro h; exact absurd h (by decide)
          · intro h
            exfalso
            have hna : n.natAbs = 2^255 := by omega
            rw [hna] at hd hnd
            have h1 : tz ≤ 255 := (Nat.pow_dvd_pow_iff_le_right (by decide)).mp hd
            have h2 : ¬ tz + 1 ≤ 255 := fun h => hnd (Nat.pow_dvd_pow 2 h)
            omega

-- non-vacuity: the hypotheses are met by −2^255 (BitLen 256, 255 trailing zeros) and by 2^255
example : Generated.GoFuncs.vmCheckIntegerSize 256 (Int.sign (-(2:Int)^255)) 255 = "ok" ∧
    Generated.GoFuncs.vmCheckIntegerSize 256 (Int.sign ((2:Int)^255)) 255 = "err" ∧
    Generated.GoFuncs.vmCheckIntegerSize 255 1 0 = "ok" := by decide

/-- **toInt_eq_toInt32.** The translated `toInt` (operand conversion of indexes, counts, shift amounts) is the
specification's `toInt32`: defined exactly on [−2^31, 2^31) and the identity there. -/
theorem toInt_eq_toInt32 (n i64 : Int) (h64 : (-(2:Int)^63 ≤ n ∧ n < (2:Int)^63) → i64 = n) :
    Generated.GoFuncs.vmToInt (decide (-(2:Int)^63 ≤ n ∧ n < (2:Int)^63)) i64 = toInt32 n := by
  unfold Generated.GoFuncs.vmToInt toInt32
  by_cases hin : -(2:Int)^63 ≤ n ∧ n < (2:Int)^63
  · have := h64 hin
    subst this
    rw [if_neg (by simp; omega)]
    by_cases h32 : -(2:Int)^31 ≤ i64 ∧ i64 < (2:Int)^31
    · rw [if_pos h32]
      show (if (i64 < -2147483648 ∨ i64 > 2147483647) then none else some i64) = some i64
      rw [if_neg (by omega)]
    · rw [if_neg h32]
      show (if (i64 < -2147483648 ∨ i64 > 2147483647) then none else some i64) = none
      rw [if_pos (by omega)]
  · have h32 : ¬ (-(2:Int)^31 ≤ n ∧ n < (2:Int)^31) := by omega
    rw [if_pos (by simp; omega), if_neg h32]

example : Generated.GoFuncs.vmToInt true 2147483647 = some 2147483647 ∧
    Generated.GoFuncs.vmToInt true 2147483648 = none ∧ Generated.GoFuncs.vmToInt false 0 = none := by decide

end NeoModel.Vm.GoTie
