/-
C13 — tie by translation: `stackitem.CheckIntegerSize` and `vm.toInt`, translated from the Go source on every
run (Generated/GoFuncs.lean), ARE the specification's range checks `inRange` / `toInt32`, for every integer.
The leaves of the translation are math/big accessors; their documented meaning is stated as hypotheses:
  BitLen             |n| < 2^bl, and bl = 0 or 2^(bl-1) ≤ |n|
  TrailingZeroBits   for n ≠ 0: 2^tz divides |n| and 2^(tz+1) does not
  Sign               Int.sign n;  IsInt64 / Int64: n fits 64 bits, and then Int64() = n.
-/
import NeoModel.Model.Vm
import NeoModel.Generated.GoFuncs
open NeoModel NeoModel.Vm NeoModel.Generated.GoFuncs
namespace NeoModel.Vm.GoTie

/-- **checkIntegerSize_eq_inRange.** The translated `CheckIntegerSize` accepts exactly the integers the
specification's `inRange` accepts: −2^255 ≤ n < 2^255 (in particular −2^255 yes, 2^255 no). -/
theorem checkIntegerSize_eq_inRange (n : Int) (bl tz : Nat)
    (hbl : n.natAbs < 2^bl ∧ (bl = 0 ∨ 2^(bl-1) ≤ n.natAbs))
    (htz : n ≠ 0 → 2^tz ∣ n.natAbs ∧ ¬ 2^(tz+1) ∣ n.natAbs) :
    (Generated.GoFuncs.vmCheckIntegerSize bl (Int.sign n) tz = "ok") ↔ inRange n = true := by
  have hr : inRange n = true ↔ (-(2:Int)^255 ≤ n ∧ n < (2:Int)^255) := by simp [inRange]
  rw [hr]
  have p255 : ((2:Nat)^255 : Int) = (2:Int)^255 := by norm_cast
  unfold Generated.GoFuncs.vmCheckIntegerSize
  simp only
  by_cases h1 : (bl : Int) < 256
  · simp only [h1, if_true, true_iff]
    have : (2:Nat)^bl ≤ 2^255 := Nat.pow_le_pow_right (by decide) (by omega)
    omega
  · simp only [h1, if_false]
    by_cases h2 : (bl : Int) > 256
    · simp only [h2, if_true]
      have hb : 2^(bl-1) ≤ n.natAbs := by
        rcases hbl.2 with h0 | h0
        · omega
        · exact h0
      have : (2:Nat)^256 ≤ 2^(bl-1) := Nat.pow_le_pow_right (by decide) (by omega)
      have p256 : (2:Nat)^256 = 2 * 2^255 := by decide
      constructor
      · intro h; exact absurd h (by decide)
      · intro h; omega
    · simp only [h2, if_false]
      have hbe : bl = 256 := by omega
      subst hbe
      have hlo : 2^255 ≤ n.natAbs := by
        rcases hbl.2 with h0 | h0
        · omega
        · exact h0
      have hhi : n.natAbs < 2^256 := hbl.1
      have p256 : (2:Nat)^256 = 2 * 2^255 := by decide
      have hn0 : n ≠ 0 := by intro h; subst h; simp at hlo
      obtain ⟨hd, hnd⟩ := htz hn0
      by_cases hs : Int.sign n = 1
      · have hpos : 0 < n := Int.sign_eq_one_iff_pos.mp hs
        simp only [hs, true_or, if_true]
        constructor
        · intro h; exact absurd h (by decide)
        · intro h; omega
      · have hneg : n < 0 := by
          rcases Int.lt_trichotomy n 0 with h | h | h
          · exact h
          · exact absurd h hn0
          · exact absurd (Int.sign_eq_one_iff_pos.mpr h) hs
        by_cases ht : tz = 255
        · subst ht
          have hsimp : ¬ (Int.sign n = 1 ∨ ((255:Nat):Int) ≠ 255) := by simp [hs]
          simp only [hsimp, if_false, true_iff]
          obtain ⟨k, hk⟩ := hd
          have : k = 1 := by
            rcases Nat.lt_or_ge k 2 with h | h
            · rcases Nat.lt_or_ge k 1 with h' | h'
              · have : k = 0 := by omega
                subst this; omega
              · omega
            · have : 2^255 * 2 ≤ 2^255 * k := Nat.mul_le_mul_left _ h
              omega
          subst this
          omega
        · have hsimp : (Int.sign n = 1 ∨ (tz:Int) ≠ 255) := Or.inr (by omega)
          simp only [hsimp, if_true]
          constructor
          · intro h; exact absurd h (by decide)
          · intro h
            exfalso
            have hna : n.natAbs = 2^255 := by omega
            rw [hna] at hd hnd
            have h1 : tz ≤ 255 := (Nat.pow_dvd_pow_iff_le_right (by decide)).mp hd
            have h2 : ¬ tz + 1 ≤ 255 := fun h => hnd (Nat.pow_dvd_pow 2 h)
            omega

-- non-vacuity: the hypotheses are met by −2^255 (BitLen 256, 255 trailing zeros) and by 2^255
example : Generated.GoFuncs.vmCheckIntegerSize 256 (Int.sign (-(2:Int)^255)) 255 = "ok" ∧
    Generated.GoFuncs.vmCheckIntegerSize 256 (Int.sign ((2:Int)^255)) 255 = "err" ∧
    Generated.GoFuncs.vmCheckIntegerSize 255 1 0 = "ok" := by decide

/-- **toInt_eq_toInt32.** The translated `toInt` (operand conversion of indexes, counts, shift amounts) is the
specification's `toInt32`: defined exactly on [−2^31, 2^31) and the identity there. -/
theorem toInt_eq_toInt32 (n i64 : Int) (h64 : (-(2:Int)^63 ≤ n ∧ n < (2:Int)^63) → i64 = n) :
    Generated.GoFuncs.vmToInt (decide (-(2:Int)^63 ≤ n ∧ n < (2:Int)^63)) i64 = toInt32 n := by
  unfold Generated.GoFuncs.vmToInt toInt32
  by_cases hin : -(2:Int)^63 ≤ n ∧ n < (2:Int)^63
  · have := h64 hin
    subst this
    rw [if_neg (by simp; omega)]
    by_cases h32 : -(2:Int)^31 ≤ i64 ∧ i64 < (2:Int)^31
    · rw [if_pos h32]
      show (if (i64 < -2147483648 ∨ i64 > 2147483647) then none else some i64) = some i64
      rw [if_neg (by omega)]
    · rw [if_neg h32]
      show (if (i64 < -2147483648 ∨ i64 > 2147483647) then none else some i64) = none
      rw [if_pos (by omega)]
  · have h32 : ¬ (-(2:Int)^31 ≤ n ∧ n < (2:Int)^31) := by omega
    rw [if_pos (by simp; omega), if_neg h32]

example : Generated.GoFuncs.vmToInt true 2147483647 = some 2147483647 ∧
    Generated.GoFuncs.vmToInt true 2147483648 = none ∧ Generated.GoFuncs.vmToInt false 0 = none := by decide

/-- **contextJump_eq_checkJump.** `scparser.Context.Jump` accepts exactly the targets the specification's
`checkJump` accepts (0 ≤ pos < len(prog)). -/
theorem contextJump_eq_checkJump (t size : Nat) (nip : Int) :
    vmContextJump t nip size = (match checkJump size t with | .ok r => some (r : Int) | .error _ => none) := by
  unfold vmContextJump checkJump
  by_cases h : t ≥ size
  · have : ((t:Int) < 0 ∨ (t:Int) ≥ size) := Or.inr (by omega)
    simp [h]
  · have : ¬ ((t:Int) < 0 ∨ (t:Int) ≥ size) := by omega
    simp [h]

theorem contextJump_negative (pos nip len : Int) (h : pos < 0) : vmContextJump pos nip len = none := by
  unfold vmContextJump; simp [h]

set_option maxRecDepth 20000 in
theorem typeIsValid_table : (List.range 256).all (fun n => vmTypeIsValid (n : Int) == typeValid (UInt8.ofNat n)) = true := by
  decide +kernel

/-- **typeIsValid_eq_typeValid.** `stackitem.Type.IsValid` is the specification's `typeValid`, for every byte. -/
theorem typeIsValid_eq_typeValid (b : UInt8) : vmTypeIsValid (b.toNat : Int) = typeValid b := by
  have h := List.all_eq_true.mp typeIsValid_table b.toNat (List.mem_range.mpr (UInt8.toNat_lt b))
  have hb : UInt8.ofNat b.toNat = b := by simp
  rw [hb] at h
  simpa using h

/-- `big.Int.Cmp`. -/
def cmpInt (a b : Int) : Int := if a < b then -1 else if a = b then 0 else 1

/-- the specification's `jmpTaken` on two Integer operands (a below b): the six relations. -/
theorem jmpTaken_int (ia ib : Int256) (st : List Item) :
    jmpTaken .eq (.int ib :: .int ia :: st) = .ok (ia.val == ib.val, st) ∧
    jmpTaken .ne (.int ib :: .int ia :: st) = .ok (ia.val != ib.val, st) ∧
    jmpTaken .gt (.int ib :: .int ia :: st) = .ok (decide (ia.val > ib.val), st) ∧
    jmpTaken .ge (.int ib :: .int ia :: st) = .ok (decide (ia.val ≥ ib.val), st) ∧
    jmpTaken .lt (.int ib :: .int ia :: st) = .ok (decide (ia.val < ib.val), st) ∧
    jmpTaken .le (.int ib :: .int ia :: st) = .ok (decide (ia.val ≤ ib.val), st) := by
  refine ⟨?_, ?_, ?_, ?_, ?_, ?_⟩ <;>
    simp [jmpTaken, popInt, popE, Item.toInteger, optE, bind, Except.bind, pure, Except.pure]

/-- the opcode bytes of the comparing jumps decode to these relations (short and long form). -/
theorem jmp_bytes :
    Op.ofByte 40 = some (.jmp .eq false) ∧ Op.ofByte 41 = some (.jmp .eq true) ∧
    Op.ofByte 42 = some (.jmp .ne false) ∧ Op.ofByte 43 = some (.jmp .ne true) ∧
    Op.ofByte 44 = some (.jmp .gt false) ∧ Op.ofByte 45 = some (.jmp .gt true) ∧
    Op.ofByte 46 = some (.jmp .ge false) ∧ Op.ofByte 47 = some (.jmp .ge true) ∧
    Op.ofByte 48 = some (.jmp .lt false) ∧ Op.ofByte 49 = some (.jmp .lt true) ∧
    Op.ofByte 50 = some (.jmp .le false) ∧ Op.ofByte 51 = some (.jmp .le true) := by decide

/-- **getJumpCondition_eq_jmpTaken.** For the twelve comparing jumps JMPEQ … JMPLE_L (bytes 40…51, `jmp_bytes`) the
translated `getJumpCondition`, applied to `a.Cmp(b)`, is the relation the specification's `jmpTaken` uses
(`jmpTaken_int`); any other opcode byte is rejected. -/
theorem getJumpCondition_eq_jmpTaken (a b : Int) :
    vmGetJumpCondition 40 (cmpInt a b) = some (a == b) ∧ vmGetJumpCondition 41 (cmpInt a b) = some (a == b) ∧
    vmGetJumpCondition 42 (cmpInt a b) = some (a != b) ∧ vmGetJumpCondition 43 (cmpInt a b) = some (a != b) ∧
    vmGetJumpCondition 44 (cmpInt a b) = some (decide (a > b)) ∧ vmGetJumpCondition 45 (cmpInt a b) = some (decide (a > b)) ∧
    vmGetJumpCondition 46 (cmpInt a b) = some (decide (a ≥ b)) ∧ vmGetJumpCondition 47 (cmpInt a b) = some (decide (a ≥ b)) ∧
    vmGetJumpCondition 48 (cmpInt a b) = some (decide (a < b)) ∧ vmGetJumpCondition 49 (cmpInt a b) = some (decide (a < b)) ∧
    vmGetJumpCondition 50 (cmpInt a b) = some (decide (a ≤ b)) ∧ vmGetJumpCondition 51 (cmpInt a b) = some (decide (a ≤ b)) ∧
    (∀ op c, (op < 40 ∨ op > 51) → vmGetJumpCondition op c = none) := by
  refine ⟨?_, ?_, ?_, ?_, ?_, ?_, ?_, ?_, ?_, ?_, ?_, ?_, ?_⟩
  all_goals first
    | (intro op c h; unfold vmGetJumpCondition
       rw [if_neg (by omega), if_neg (by omega), if_neg (by omega), if_neg (by omega), if_neg (by omega), if_neg (by omega)])
    | (simp only [vmGetJumpCondition, cmpInt]
       by_cases h1 : a < b <;> by_cases h2 : a = b <;> simp [h1, h2] <;> omega)


theorem wrapS8 (x : Int) (h : 0 ≤ x ∧ x < 256) : wrapS 32 (wrapS 8 x) = if x < 128 then x else x - 256 := by
  have e7 : (2:Int)^(8-1) = 128 := by decide
  have e8 : (2:Int)^8 = 256 := by decide
  have e31 : (2:Int)^(32-1) = 2147483648 := by decide
  have e32 : (2:Int)^32 = 4294967296 := by decide
  unfold wrapS
  rw [e7, e8, e31, e32]
  split <;> omega

theorem signedLE1 (p : UInt8) : signedLE [p] = if (p.toNat : Int) < 128 then (p.toNat : Int) else (p.toNat : Int) - 256 := by
  have e7 : (2:Int)^(8*1-1) = 128 := by decide
  have e8 : (2:Int)^(8*1) = 256 := by decide
  simp only [signedLE, leNat, List.length_singleton, e7, e8]
  simp

set_option maxRecDepth 20000 in
/-- **calcJumpOffset_short.** The 1-byte form of `Context.CalcJumpOffset` computes the specification's `jumpTarget`:
ip + the signed operand byte, accepted iff the result lies in [0, len]. -/
theorem calcJumpOffset_short (p : UInt8) (ip size : Nat) (u ci : Int) :
    (match jumpTarget size ip [p] with
     | .ok t => vmCalcJumpOffset 1 p.toNat ip size u ci = ((t : Int), signedLE [p], "ok")
     | .error _ => vmCalcJumpOffset 1 p.toNat ip size u ci = (0, 0, "err")) := by
  have hp : p.toNat < 256 := UInt8.toNat_lt p
  have hw : wrapS 32 (wrapS 8 (p.toNat : Int)) = signedLE [p] := by
    rw [wrapS8 _ (by omega), signedLE1]
  unfold jumpTarget vmCalcJumpOffset
  simp only [hw]
  generalize signedLE [p] = s
  by_cases hb : ((ip : Int) + s < 0 ∨ (ip : Int) + s > size)
  · simp [hb]
  · simp [hb]; omega


end NeoModel.Vm.GoTie
