/-
Tie by translation (C07): the definitions of NeoModel.Generated.GoFuncs are re-translated from /repo's Go source on
every check run (harness/cmd/extract/gofuncs.go, specs of C07 in gofuncs_c07.go); the theorems below prove, for all
arguments, that the translated function is the function the hand-written model uses. A change of the Go function
changes the generated definition and these proofs stop checking.
-/
import NeoModel.Generated.GoFuncs
import NeoModel.Model.Fees.Block
namespace NeoModel.GoFuncsTieC07
open NeoModel NeoModel.Generated NeoModel.Fees NeoModel.Admission NeoModel.Pack
open NeoModel.Generated.FeeConsts
open NeoModel.Wire (varUintSize)

/-- `Block.GetExpectedBlockSizeWithoutTransactions`, fed with the package's header size constant, the size of the
block witness and the size of the count, is the model's `expectedSizeWithoutTx`. -/
theorem expectedBlockSizeWithoutTransactions_eq (sre : Bool) (inv ver : Bytes) (txCount : Nat) :
    GoFuncs.expectedBlockSizeWithoutTransactions txCount expectedHeaderSizeWithEmptyWitness
        ((encodeWitness inv ver).length) (varUintSize txCount) sre
      = (expectedSizeWithoutTx sre inv ver txCount : Int) := by
  unfold GoFuncs.expectedBlockSizeWithoutTransactions expectedSizeWithoutTx overheadOf
  simp only [expectedHeaderSizeWithEmptyWitness, uint256Size]
  cases sre <;> simp <;> omega

/-- `smartcontract.GetDefaultHonestNodeCount` is the model's `honestCount` (for at least one validator). -/
theorem defaultHonestNodeCount_eq (n : Nat) (h : 1 ≤ n) : GoFuncs.defaultHonestNodeCount n = (honestCount n : Int) := by
  unfold GoFuncs.defaultHonestNodeCount honestCount
  have h1 : ((n : Int) - 1) = ((n - 1 : Nat) : Int) := by omega
  rw [h1, Int.tdiv_eq_ediv_of_nonneg (Int.natCast_nonneg _)]
  have : ((n - 1 : Nat) : Int) / 3 = (((n - 1) / 3 : Nat) : Int) := (Int.natCast_ediv _ _).symm
  rw [this]
  have : (n - 1) / 3 ≤ n := by omega
  omega

/-- `vm.PicoGasToDatoshiInt64` is the model's `picoToDatoshi` wherever it does not panic. -/
theorem picoGasToDatoshiInt64_eq (x : Nat) (h : x ≤ 9223372036854765808) :
    GoFuncs.picoGasToDatoshiInt64 x = some (picoToDatoshi x : Int) := by
  unfold GoFuncs.picoGasToDatoshiInt64 picoToDatoshi
  have a : ¬ (x : Int) > 9223372036854765808 := by omega
  simp only [a, if_false, execFeeFactorMultiplier]
  have h1 : ((x : Int) + 10000 - 1) = ((x + 10000 - 1 : Nat) : Int) := by omega
  rw [h1, Int.tdiv_eq_ediv_of_nonneg (Int.natCast_nonneg _)]
  congr 1

/-- `dao.isTraceableBlock` is the model's `isTraceable` as long as `index + MaxTraceableBlocks` fits a uint32. -/
theorem isTraceableBlock_eq (index height mtb : Nat) (h : index + mtb < 2 ^ 32) :
    GoFuncs.isTraceableBlock height mtb index = isTraceable index height mtb := by
  unfold GoFuncs.isTraceableBlock isTraceable
  have : ((index : Int) + mtb) % 4294967296 = ((index + mtb : Nat) : Int) := by
    simp only [Nat.reducePow] at h; omega
  simp only [this]
  by_cases a : index ≤ height <;> by_cases b : index + mtb > height <;> simp [a, b] <;> omega

/-- `scparser.IsStandardContract` is the disjunction the model's `Wit.isStandard` uses. -/
theorem isStandardContract_eq (hashOk : Bool) (inv ver : Bytes) :
    GoFuncs.isStandardContract (isSignatureContract ver) ((parseMultiSig ver).isSome) = Wit.isStandard (.std hashOk inv ver) := by
  unfold GoFuncs.isStandardContract
  simp only [Wit.isStandard]
  generalize isSignatureContract ver = a
  generalize (parseMultiSig ver).isSome = b
  cases a <;> cases b <;> decide

/-- the outcome label the translator gives an error class of the admission model. -/
def errLabel : Option Err → String
  | none => "ok"
  | some .invalidScript => "ErrInvalidScript"
  | some .expired => "ErrTxExpired"
  | some .notYetValid => "ErrTxNotYetValid"
  | some .policyBlocked => "ErrPolicy"
  | some .tooBig => "ErrTxTooBig"
  | some .smallNetFee => "ErrTxSmallNetworkFee"
  | some .alreadyExists => "ErrAlreadyExists"
  | some .hasConflicts => "ErrHasConflicts"
  | some .witness => "bc_verifyTxWitnesses_t_nil_isPartialTx_netFee_err"
  | some .invalidAttr => "bc_verifyTxAttributes_bc_dao_t_isPartialTx_err"
  | some .poolDup => "ErrAlreadyInPool"
  | some .poolConflictsAttr => "ErrHasConflicts"
  | some .insufficientFunds => "ErrInsufficientFunds"
  | some .poolConflict => "ErrMemPoolConflict"
  | some .poolOracle => "pool_Add_t_feer_data_err"
  | some .oom => "ErrOOM"
  | some .malformed => "malformed"
  | some .policySysFee => "ErrPolicy"

/-- the translated `verifyAndPoolTx` (not a partial transaction), its leaves read off the admission model, decides
exactly as the model's `admitInBlock`: same checks, same order, same error classes. `height + increment` must fit a
uint32 (the code adds them as uint32). -/
theorem verifyAndPoolTx_eq (c : Chain) (p : Pool) (t : Tx) (hh : c.height + c.maxVUBInc < 2 ^ 32) :
    GoFuncs.verifyAndPoolTx (!t.scriptOk) c.height false t.validUntil c.maxVUBInc
      (t.signers.any fun s => c.blocked s.account) t.size c.feePerByte (attrsFee c t.signers.length t.attrs) t.netFee
      (hasTransaction (c.lookup t.hash) (t.signers.map (·.account)) c.height c.mtb).isSome
      (hasTransaction (c.lookup t.hash) (t.signers.map (·.account)) c.height c.mtb == some .alreadyExists)
      (hasTransaction (c.lookup t.hash) (t.signers.map (·.account)) c.height c.mtb == some .hasConflicts)
      (verifyWitnesses c (t.netFee - (t.size * c.feePerByte + attrsFee c t.signers.length t.attrs)) (t.signers.map (·.wit))).isNone
      (!verifyAttrs c t)
      (poolAdd p t).isSome (poolAdd p t == some .poolConflict) (poolAdd p t == some .poolDup)
      (poolAdd p t == some .insufficientFunds) (poolAdd p t == some .oom) (poolAdd p t == some .poolConflictsAttr)
      = errLabel (admitInBlock c p t) := by
  unfold GoFuncs.verifyAndPoolTx admitInBlock
  simp only [Nat.reducePow] at hh
  by_cases h1n : t.scriptOk = false
  · simp [h1n, errLabel]
  have h1 : t.scriptOk = true := by simpa using h1n
  by_cases h2 : t.validUntil ≤ c.height
  · have : (t.validUntil : Int) ≤ c.height := by omega
    simp [h1, h2, this, errLabel]
  have h2' : ¬ (t.validUntil : Int) ≤ c.height := by omega
  have hm : ((c.height : Int) + c.maxVUBInc) % 4294967296 = (c.height : Int) + c.maxVUBInc := by omega
  by_cases h3 : t.validUntil > c.height + c.maxVUBInc
  · have h3i : ¬ (t.validUntil : Int) ≤ (c.height : Int) + c.maxVUBInc := by omega
    simp [h1, h2, h2', hm, h3, h3i, errLabel]
  have h3' : (t.validUntil : Int) ≤ (c.height : Int) + c.maxVUBInc := by omega
  by_cases h4 : (t.signers.any fun s => c.blocked s.account) = true
  · have h4' := h4
    simp only [List.any_eq_true] at h4'
    simp [h1, h2, h2', hm, h3, h3', h4, errLabel]
  have h4' : ¬ ∃ x, x ∈ t.signers ∧ c.blocked x.account = true := by
    simpa [List.any_eq_true] using h4
  by_cases h5 : t.size > maxTransactionSize
  · have h5i : (102400 : Int) < t.size := by simp only [maxTransactionSize] at h5; omega
    simp [h1, h2, h2', hm, h3, h3', h4, h5, h5i, errLabel]
  have h5' : ¬ (102400 : Int) < t.size := by simp only [maxTransactionSize] at h5; omega
  have hcast : ((t.size * c.feePerByte + attrsFee c t.signers.length t.attrs : Nat) : Int)
      = (t.size : Int) * c.feePerByte + attrsFee c t.signers.length t.attrs := by simp
  by_cases h6 : t.netFee < t.size * c.feePerByte + attrsFee c t.signers.length t.attrs
  · have h6i : (t.netFee : Int) - ((t.size : Int) * c.feePerByte + attrsFee c t.signers.length t.attrs) < 0 := by omega
    simp [h1, h2, h2', hm, h3, h3', h4, h5, h5', h6, h6i, errLabel]
  have h6' : ¬ (t.netFee : Int) - ((t.size : Int) * c.feePerByte + attrsFee c t.signers.length t.attrs) < 0 := by omega
  have n3 : ¬ c.height + c.maxVUBInc < t.validUntil := by omega
  have n5 : ¬ maxTransactionSize < t.size := by omega
  simp only [Int.not_lt.mpr h3', h1, h2, n3, n5, h6, h2', hm, h4, h5', h6', Bool.not_true, Bool.false_eq_true, if_false, decide_false, not_false_eq_true, if_true]
  cases hht : hasTransaction (c.lookup t.hash) (t.signers.map (·.account)) c.height c.mtb with
  | some e =>
    -- dao.HasTransaction only returns ErrAlreadyExists / ErrHasConflicts
    cases hr : c.lookup t.hash <;> simp [hasTransaction, hr] at hht
    · subst hht; simp [errLabel]
    · split at hht
      · simp at hht; subst hht; simp [errLabel]
      · split at hht
        · simp at hht
        · split at hht
          · simp at hht; subst hht; simp [errLabel]
          · simp at hht
  | none =>
    simp only [Option.isSome_none, Bool.false_eq_true, if_false]
    cases hw : verifyWitnesses c (t.netFee - (t.size * c.feePerByte + attrsFee c t.signers.length t.attrs)) (t.signers.map (·.wit)) with
    | none => simp [errLabel]
    | some g =>
      simp only [Option.isNone_some, Bool.false_eq_true, if_false]
      by_cases h7n : verifyAttrs c t = false
      · simp [h7n, errLabel]
      have h7 : verifyAttrs c t = true := by simpa using h7n
      simp only [h7, Bool.not_true, Bool.false_eq_true, if_false]
      cases hp : poolAdd p t with
      | none => simp [errLabel]
      | some e =>
        unfold poolAdd at hp
        repeat' split at hp
        all_goals (first | (simp at hp; subst hp; simp [errLabel]) | simp at hp)

/-- `uint256.Cmp`. -/
def cmpNat (a b : Nat) : Int := if a < b then -1 else if a = b then 0 else 1

/-- the names `mempool` gives the two balance errors (`verifyAndPoolTx` renames ErrConflict to ErrMemPoolConflict). -/
def poolLabel : Option Err → String
  | none => "ok"
  | some .insufficientFunds => "ErrInsufficientFunds"
  | some .poolConflict => "ErrConflict"
  | some _ => "other"

/-- the translated `mempool.checkBalance`, fed with the two comparisons it makes (balance against the transaction's
fees, then against fees + what the payer has pooled), orders and labels its outcomes like the balance part of the
model's `poolAdd`: "insufficient funds" first, then "conflict" (the pooled sum), else accepted. -/
theorem checkBalance_eq (p : Pool) (t : Tx) (h1 : p.has t.hash = false) (h2 : p.conflictsAttrErr = false)
    (h3 : p.oracleErr = false) (h4 : p.full = false) :
    (GoFuncs.mempoolCheckBalance (cmpNat p.balance (t.sysFee + t.netFee)) (cmpNat p.balance (t.sysFee + t.netFee + p.feeSum))).2.1
      = poolLabel (poolAdd p t) := by
  unfold GoFuncs.mempoolCheckBalance poolAdd cmpNat
  simp only [h1, h2, h3, h4, Bool.false_eq_true, if_false]
  by_cases a : p.balance < t.sysFee + t.netFee
  · simp [a, poolLabel]
  · have a' : ¬ ((if p.balance = t.sysFee + t.netFee then (0 : Int) else 1) < 0) := by split <;> omega
    simp only [a, if_false, a']
    by_cases b : p.balance < t.sysFee + t.netFee + p.feeSum
    · simp [b, poolLabel]
    · have b' : ¬ ((if p.balance = t.sysFee + t.netFee + p.feeSum then (0 : Int) else 1) < 0) := by split <;> omega
      simp only [b, if_false, b']
      rfl

end NeoModel.GoFuncsTieC07
