/-
Tie by translation (C11, Blockchain.tryRunGC — the garbage-collection target): the definitions of NeoModel.Generated.GoFuncs are re-translated from /repo's Go source on
every check run (harness/cmd/extract/gofuncs.go); the theorems below prove, for all arguments, that the
translated function is the function the hand-written model uses (or has the property stated). A change of the Go
function changes the generated definition and these proofs stop checking.
-/
import NeoModel.Generated.GoFuncs
namespace NeoModel.GoFuncsTie
open NeoModel NeoModel.Generated

theorem tdiv_mul_bounds (a g : Int) (hg : 0 < g) (hpos : g < (Int.tdiv a g) * g) :
    0 ≤ a ∧ (Int.tdiv a g) * g ≤ a ∧ ((Int.tdiv a g) * g) % g = 0 := by
  by_cases ha : 0 ≤ a
  · rw [Int.tdiv_eq_ediv_of_nonneg ha] at hpos ⊢
    exact ⟨ha, Int.ediv_mul_le a (by omega), Int.mul_emod_left _ _⟩
  · exfalso
    have h1 : Int.tdiv a g ≤ 0 := by
      have h0 := Int.tdiv_nonneg (a := -a) (b := g) (by omega) (by omega)
      have e : a.tdiv g = -((-a).tdiv g) := by rw [Int.neg_tdiv, Int.neg_neg]
      omega
    have : (Int.tdiv a g) * g ≤ 0 := Int.mul_nonpos_of_nonpos_of_nonneg h1 (by omega)
    omega

/-- **The state GC never reaches into the traceable window.** Whenever the translated `tryRunGC` calls
`stateRoot.GC(t, …)` — for every persisted height `h`, old height, MaxTraceableBlocks `mtb`, GC period `gcp > 0`,
with or without P2PStateExchangeExtensions (whatever uint32 wrap-around its sync-point arithmetic goes
through) — the target satisfies `t + mtb ≤ h`, is a positive multiple of the GC period and exceeds one period.
Together with C11's `gc_safe` (GC at index t deletes only nodes inactive since a height ≤ t) every root of the
last `mtb` heights stays fully readable. -/
theorem tryRunGC_within_window (old h mtb ssi gcp : Nat) (ext : Bool) (x t : Int)
    (hh : h < 2 ^ 32) (hg : 0 < gcp)
    (hr : GoFuncs.tryRunGC (old : Int) (h : Int) (mtb : Int) ext (ssi : Int) (gcp : Int) x = some [t]) :
    (gcp : Int) < t ∧ t + (mtb : Int) ≤ (h : Int) ∧ t % (gcp : Int) = 0 := by
  unfold GoFuncs.tryRunGC at hr
  simp only [] at hr
  have hgi : (0 : Int) < (gcp : Int) := by omega
  cases ext
  · simp only [Bool.false_eq_true, ↓reduceIte] at hr
    split at hr
    · rename_i hc
      obtain ⟨b1, b2, b3⟩ := tdiv_mul_bounds _ _ hgi hc.1
      simp only [Option.some.injEq, List.cons.injEq, and_true] at hr
      subst hr
      generalize hT : (Int.tdiv ((h : Int) - (mtb : Int)) (gcp : Int)) * (gcp : Int) = T at *
      have : T % 4294967296 = T := by omega
      rw [this]; omega
    · simp at hr
  · simp only [↓reduceIte] at hr
    split at hr
    · rename_i hc
      obtain ⟨b1, b2, b3⟩ := tdiv_mul_bounds _ _ hgi hc.1
      simp only [Option.some.injEq, List.cons.injEq, and_true] at hr
      subst hr
      generalize hA : min ((h : Int) - (mtb : Int)) _ = A at *
      have hA2 : A ≤ (h : Int) - (mtb : Int) := by rw [← hA]; exact Int.min_le_left _ _
      generalize hT : (Int.tdiv A (gcp : Int)) * (gcp : Int) = T at *
      have : T % 4294967296 = T := by omega
      rw [this]; omega
    · simp at hr

-- non-vacuity: height 30000, MTB 10000, period 1000: GC runs with target 20000 when a period boundary was crossed
example : GoFuncs.tryRunGC 29999 30000 10000 false 0 1000 0 = some [20000] := by decide
example : GoFuncs.tryRunGC 29998 29999 10000 false 0 1000 0 = none := by decide
-- with the extensions and a sync interval of 4000 the target is capped by the previous sync point minus MTB
example : GoFuncs.tryRunGC 29999 30000 10000 true 4000 1000 0 = some [14000] := by decide

end NeoModel.GoFuncsTie
