/-
Tie by translation (C05): the definitions of NeoModel.Generated.GoFuncs are re-translated from /repo's Go source on
every check run (harness/cmd/extract/gofuncs.go, gofuncs_c05.go); the theorems below prove, for all arguments, that
the translated NEO.setRegisterPrice, NEO.SetGASPerBlock, ProtocolConfiguration.ShouldUpdateCommitteeAt,
NEO.distributeGas, NEO.dropCandidateIfZero, NEO.calculateBonus and nep17TokenNative.transferDeferrable make the decisions
the hand-written token model makes. A change of the Go function changes the generated definition
and these proofs stop checking.
-/
import NeoModel.Generated.GoFuncs
import NeoModel.Model.Tokens
namespace NeoModel.GoFuncsTie
open NeoModel NeoModel.Generated NeoModel.Tokens

/-- `big.Int.Sign()`. -/
def sgn (x : Int) : Int := if x < 0 then -1 else if x = 0 then 0 else 1

/-- `big.Int.Cmp`. -/
def cmpInt (x y : Int) : Int := if x < y then -1 else if x = y then 0 else 1

/-- NEO.setRegisterPrice (native_neo.go:767-780): the translated function refuses (panics) exactly when the model
does — non-positive price, price outside int64, no committee witness — and otherwise stores exactly the price the
model records. Identifications: `price.Sign()`, `price.IsInt64()`, `price.Int64()` of a big integer `price`. -/
theorem neoSetRegisterPrice_eq (l : Ledger) (price : Int) (wit : Bool) (id : Int) :
    GoFuncs.neoSetRegisterPrice price (sgn price) (decide (-9223372036854775808 ≤ price ∧ price < 9223372036854775808)) wit id price
      = (setRegisterPrice l price wit).map (fun l' => [id, l'.regPrice]) := by
  unfold GoFuncs.neoSetRegisterPrice setRegisterPrice sgn
  by_cases h1 : price ≤ 0
  · have : (if price < 0 then (-1 : Int) else if price = 0 then 0 else 1) ≤ 0 := by
      by_cases hn : price < 0
      · rw [if_pos hn]; decide
      · rw [if_neg hn, if_pos (by omega)]; decide
    simp [h1, this]
  · by_cases h2 : price ≥ 9223372036854775808
    · have h3 : ¬ (-9223372036854775808 ≤ price ∧ price < 9223372036854775808) := by omega
      simp [h2, h3]
    · have h3 : (-9223372036854775808 ≤ price ∧ price < 9223372036854775808) := by omega
      have h4 : ¬ (if price < 0 then (-1 : Int) else if price = 0 then 0 else 1) ≤ 0 := by
        rw [if_neg (by omega), if_neg (by omega)]; omega
      cases wit <;> simp [h1, h2, h3, h4]

/-- NEO.SetGASPerBlock (native_neo.go:742-756): refused exactly when the model refuses (negative, above 10 GAS,
no committee witness); the record is stored under the index the model appends (the block after the current one).
Identification: `10 * GASFactor` = 1 000 000 000. -/
theorem neoSetGASPerBlock_eq (e : Env) (l : Ledger) (gas : Int) (wit : Bool) :
    (GoFuncs.neoSetGASPerBlock ((e.index : Int) + 1) (sgn gas) (cmpInt gas 1000000000) wit).map
        (fun xs => l.gpb ++ [((xs.headD 0).toNat, gas)])
      = (setGasPerBlock e l gas wit).map (·.gpb) := by
  unfold GoFuncs.neoSetGASPerBlock setGasPerBlock sgn cmpInt
  by_cases h1 : gas < 0
  · simp [h1]
  · by_cases h2 : gas > 1000000000
    · have h3 : ¬ gas < 1000000000 := by omega
      have h4 : ¬ gas = 1000000000 := by omega
      simp [h1, h2, h3, h4]
    · have h5 : ¬ ((if gas < 0 then (-1 : Int) else if gas = 0 then 0 else 1) = -1) := by
        rw [if_neg h1]; split <;> omega
      have h6 : ¬ ((if gas < 1000000000 then (-1 : Int) else if gas = 1000000000 then 0 else 1) = 1) := by
        split
        · omega
        · rw [if_pos (by omega)]; omega
      cases wit
      · simp [h1, h2, h6]
      · simp [h1, h2, h6]
        refine ⟨_, ⟨?_, rfl⟩, ?_⟩
        · split <;> omega
        · simp

/-- ProtocolConfiguration.ShouldUpdateCommitteeAt (config/protocol_config.go:226-228) is the epoch test of the model
(`neoOnPersist`, `neoPostPersistAll`: `csize ≠ 0 ∧ index % csize = 0`) for every committee size that is not zero
(a zero size panics in Go: integer division by zero) and fits 32 bits. -/
theorem shouldUpdateCommitteeAt_eq (index csize : Nat) (hc : csize ≠ 0) (hs : csize < 2 ^ 32) :
    GoFuncs.shouldUpdateCommitteeAt (index : Int) (csize : Int) = decide (csize ≠ 0 ∧ index % csize = 0) := by
  unfold GoFuncs.shouldUpdateCommitteeAt
  have h1 : ((csize : Int) % 4294967296) = (csize : Int) := by omega
  rw [h1]
  have h2 : ((index : Int) % (csize : Int)) = ((index % csize : Nat) : Int) := by simp
  rw [h2]
  simp [hc]
  omega

/-- NEO.distributeGas (native_neo.go:642-657), translated with its writes to `acc.BalanceHeight` and
`acc.LastGasPerVote` as result components: it is the model's `distributeGas` — same guard (block 0 or already
distributed in this block: nothing, account untouched), same error propagation, the height set to the block index,
LastGasPerVote refreshed only for a voting account, the computed bonus returned — for every account and ledger.
Identifications: `n.calculateBonus` is the model's `calcBonus` (value 0 and error flag when it fails),
`getLatestGASPerVote` of the account's candidate is `latestGpv`; `ic.Block` is never nil while a block is persisted. -/
theorem neoDistributeGas_eq (e : Env) (l : Ledger) (acc : NeoAcc) :
    GoFuncs.neoDistributeGas (acc.height : Int) acc.lgpv false (e.index : Int)
        ((calcBonus l acc e.index).getD 0) (calcBonus l acc e.index).isNone acc.vote.isSome
        (match acc.vote with | some c => latestGpv l c | none => 0)
      = (match distributeGas e l acc with
         | none => (0, "n_calculateBonus_ic_DAO_acc_ic_Block_Index_1_err", (acc.height : Int), acc.lgpv)
         | some (acc', g) => (g.getD 0, "ok", (acc'.height : Int), acc'.lgpv)) := by
  unfold GoFuncs.neoDistributeGas distributeGas
  by_cases h0 : e.index = 0 ∨ e.index = acc.height
  · have : ((false = true ∨ (e.index : Int) = 0) ∨ (e.index : Int) = (acc.height : Int)) := by
      rcases h0 with h | h
      · exact Or.inl (Or.inr (by omega))
      · exact Or.inr (by omega)
    rw [if_pos this, if_pos h0]; rfl
  · have : ¬ ((false = true ∨ (e.index : Int) = 0) ∨ (e.index : Int) = (acc.height : Int)) := by
      rintro ((h | h) | h)
      · cases h
      · exact h0 (Or.inl (by omega))
      · exact h0 (Or.inr (by omega))
    rw [if_neg this, if_neg h0]
    cases hb : calcBonus l acc e.index with
    | none => simp
    | some gen =>
      cases hv : acc.vote with
      | none => simp
      | some c => simp

/-- NEO.dropCandidateIfZero (782-793): the translated function deletes (the candidate record, the voter-reward
record, the cached GAS-per-vote value: three effects) exactly when the model's `dropIfZero` does — the candidate is
not registered and has no votes. -/
theorem neoDropCandidateIfZero_eq (l : Ledger) (c : Nat) (cd : Cand) (k : Int) :
    (GoFuncs.neoDropCandidateIfZero cd.reg (sgn cd.votes) k).1 = (dropIfZero l c cd).isSome ∧
    ((GoFuncs.neoDropCandidateIfZero cd.reg (sgn cd.votes) k).1 = true →
      (GoFuncs.neoDropCandidateIfZero cd.reg (sgn cd.votes) k).2 = ["d.DeleteStorageItem", "d.DeleteStorageItem", "delete"]) := by
  unfold GoFuncs.neoDropCandidateIfZero dropIfZero sgn
  by_cases hr : cd.reg = true
  · simp [hr]
  · by_cases hv : cd.votes = 0
    · simp [hr, hv]
    · have : ¬ (if cd.votes < 0 then (-1 : Int) else 1) = 0 := by split <;> omega
      simp [hr, hv, this]

/-- NEO.calculateBonus (828-841): the holder reward is returned as it is exactly when it failed or the account does
not vote (the model's `calcBonus` adds the voter part only for a voting account); otherwise the three big-integer
steps (multiply by the balance, divide by the factor, add the holder reward) follow. -/
theorem neoCalculateBonus_branch (end_ r key reward tmp : Int) (err noVote : Bool) :
    (GoFuncs.neoCalculateBonus end_ r err noVote key reward tmp).1 = (if err ∨ noVote then r else tmp) ∧
    ((GoFuncs.neoCalculateBonus end_ r err noVote key reward tmp).2.1 = "ok" ↔ err = false) ∧
    (GoFuncs.neoCalculateBonus end_ r err noVote key reward tmp).2.2 =
      (if err ∨ noVote then [] else ["tmp.Mul", "tmp.Div", "tmp.Add"]) := by
  unfold GoFuncs.neoCalculateBonus
  cases err <;> cases noVote <;> simp

theorem sgn_eq_zero (x : Int) : sgn x = 0 ↔ x = 0 := by unfold sgn; split <;> (try split) <;> omega
theorem sgn_eq_neg (x : Int) : sgn x = -1 ↔ x < 0 := by unfold sgn; split <;> (try split) <;> omega
theorem cmpInt_lt (a b : Int) : cmpInt a b < 0 ↔ a < b := by unfold cmpInt; split <;> (try split) <;> omega
theorem cmpInt_eq_neg (a b : Int) : cmpInt a b = -1 ↔ a < b := by unfold cmpInt; split <;> (try split) <;> omega

/-- GAS.increaseBalance (native_gas.go:51-72), translated with its write to `*si` as a result component: it is the
model's `gasInc` for every stored item, amount and required balance — a zero amount only checks the required balance
(self-transfer of more than the balance fails) and leaves the item alone; a debit larger than the balance fails; else
the balance is added to and the item rewritten, or set to nil when the balance becomes zero.  `code` is any encoding of
storage items as integers; identifications: `acc.Balance` of the decoded item is `si.getD 0` (an empty item decodes to
balance 0, decoding never fails), `Cmp` / `CmpAbs` / `Sign` of big integers. -/
theorem gasIncreaseBalance_eq (l : Ledger) (si : Option Int) (amt : Int) (cb : Option Int) (code : Option Int → Int) :
    GoFuncs.gasIncreaseBalance (code si) (si.getD 0) false (sgn amt) cb.isSome (cmpInt (si.getD 0) (cb.getD 0))
        (cmpInt ((si.getD 0).natAbs : Int) (amt.natAbs : Int)) (sgn (si.getD 0 + amt)) (code (some (si.getD 0 + amt))) (code none)
      = (0, (if (gasInc l si amt cb).ok then "ok" else "err"), code (gasInc l si amt cb).si,
          if (gasInc l si amt cb).ok ∧ amt ≠ 0 then ["acc.Balance.Add"] else []) := by
  unfold GoFuncs.gasIncreaseBalance gasInc
  simp only [ne_eq, sgn_eq_zero, sgn_eq_neg, cmpInt_lt, cmpInt_eq_neg, Bool.false_eq_true, if_false]
  by_cases h0 : amt = 0
  · subst h0
    cases cb with
    | none => simp [belowOpt]
    | some c =>
      by_cases hb : si.getD 0 < c <;> simp [belowOpt, hb]
  · by_cases hf : amt < 0 ∧ (si.getD 0).natAbs < amt.natAbs
    · have h2 : ((si.getD 0).natAbs : Int) < (amt.natAbs : Int) := by omega
      simp [h0, hf, h2]
    · have h3 : ¬ (amt < 0 ∧ ((si.getD 0).natAbs : Int) < (amt.natAbs : Int)) := by
        rintro ⟨a, b⟩; exact hf ⟨a, by omega⟩
      by_cases hz0 : si.getD 0 + amt = 0 <;> simp [h0, hf, h3, hz0]

/-- how `transfer` ends: a panic, `false` pushed, or the Transfer notification (postTransfer). -/
def tpreOutcome : TPre → Option (List String)
  | .thr => none
  | .ret _ _ => some ["popArgsPushRes"]
  | .posted _ _ _ => some ["c.postTransfer"]

/-- nep17TokenNative.transferDeferrable (native_nep17.go:134-176), translated with its calls as effects: for every
token, ledger, accounts and amount it ends the way the model's `transferPre` ends, with the checks in the same order —
negative amount panics first; then the witness (skipped exactly when the calling contract is `from`); then the debit
of `from` (amount 0 for a self- or zero-transfer), whose failure returns false; then, unless the transfer is empty,
the credit of `to`, whose failure returns false; then postTransfer.  Identifications: the witness bit of the model
is "the caller is `from`, or CheckHashedWitness succeeds"; the two `updateAccBalance` error leaves are the model's `upd`
results on the ledger before / after the debit. -/
theorem nep17Transfer_eq (t : Tok) (e : Env) (l : Ledger) (src dst : Nat) (amt : Int) (callerZero fromEqCaller witOk : Bool)
    (data callerHash zero neg d1 d2 : Int) :
    GoFuncs.nep17Transfer (src : Int) (dst : Int) amt data (sgn amt) callerHash callerZero fromEqCaller witOk false
        (decide (src = dst)) zero d1
        (!(upd t e l src (if src = dst ∨ amt = 0 then 0 else -amt) (some amt)).2.1) d2
        (!(upd t e (upd t e l src (if src = dst ∨ amt = 0 then 0 else -amt) (some amt)).1 dst amt none).2.1) neg
      = tpreOutcome (transferPre t e l src dst amt ((!(callerZero || !fromEqCaller)) || witOk)) := by
  unfold GoFuncs.nep17Transfer transferPre sgn
  by_cases hneg : amt < 0
  · simp [hneg, tpreOutcome]
  · simp only [if_neg hneg]
    have hs : ¬ (if amt = 0 then (0 : Int) else 1) = -1 := by split <;> omega
    have hz : ((if amt = 0 then (0 : Int) else 1) = 0) ↔ amt = 0 := by
      constructor
      · intro h; by_cases h0 : amt = 0
        · exact h0
        · rw [if_neg h0] at h; omega
      · intro h; rw [if_pos h]
    simp only [hs, if_false]
    cases hu : upd t e l src (if src = dst ∨ amt = 0 then 0 else -amt) (some amt) with
    | mk l1 r1 =>
      obtain ⟨b1, x1⟩ := r1
      cases hu2 : upd t e l1 dst amt none with
      | mk l2 r2 =>
        obtain ⟨b2, x2⟩ := r2
        by_cases he : src = dst ∨ amt = 0
        · have he' : (decide (src = dst) = true ∨ (if amt = 0 then (0 : Int) else 1) = 0) := by
            rcases he with h | h
            · exact Or.inl (by simp [h])
            · exact Or.inr (hz.mpr h)
          cases callerZero <;> cases fromEqCaller <;> cases witOk <;> cases b1 <;>
            simp [he, he', tpreOutcome, hu]
        · have he' : ¬ (decide (src = dst) = true ∨ (if amt = 0 then (0 : Int) else 1) = 0) := by
            intro h; apply he
            rcases h with h | h
            · exact Or.inl (by simpa using h)
            · exact Or.inr (hz.mp h)
          cases callerZero <;> cases fromEqCaller <;> cases witOk <;> cases b1 <;> cases b2 <;>
            simp [he, he', tpreOutcome, hu, hu2]

/-- ProtocolConfiguration.GetCommitteeSize / GetNumOfCNs (config/protocol_config.go:196-201, 217-222) for a
configuration without CommitteeHistory / ValidatorsHistory (the static sizes of the model's `Env`): the committee
size is the number of standby keys and the validators count is `ValidatorsCount`, at every height.  With the lines
131-136 of ProtocolConfiguration.Validate (StandbyCommittee not empty, at least ValidatorsCount keys) this gives
`csize ≠ 0`, `csize ≤ standby.length` and `vcount ≤ csize` of `EnvOK`; Validate does NOT check that the standby keys
are pairwise different. -/
theorem cfgCommitteeSize_static (height nStandby best : Int) :
    GoFuncs.cfgGetCommitteeSize height 0 nStandby best = nStandby := by
  unfold GoFuncs.cfgGetCommitteeSize; simp

theorem cfgNumOfCNs_static (height vcount best : Int) :
    GoFuncs.cfgGetNumOfCNs height 0 vcount best = vcount := by
  unfold GoFuncs.cfgGetNumOfCNs; simp

-- non-vacuity: with a history the getters follow the history instead
example : GoFuncs.cfgGetCommitteeSize 7 0 21 4 = 21 ∧ GoFuncs.cfgGetCommitteeSize 7 2 21 4 = 4 ∧
    GoFuncs.cfgGetNumOfCNs 7 0 7 3 = 7 := by decide

-- non-vacuity: a debit of 7 from a balance of 5 fails; a debit of exactly 5 sets the item to nil; a zero amount with a
-- required balance above the balance fails
example : (GoFuncs.gasIncreaseBalance 50 5 false (-1) false 0 (-1) (-1) 99 0).2.1 = "err" ∧
    GoFuncs.gasIncreaseBalance 50 5 false (-1) false 0 0 0 99 0 = (0, "ok", 0, ["acc.Balance.Add"]) ∧
    (GoFuncs.gasIncreaseBalance 50 5 false 0 true (-1) 0 0 99 0).2.1 = "err" ∧
    GoFuncs.gasIncreaseBalance 50 5 false 0 true 0 0 0 99 0 = (0, "ok", 50, []) := by decide
-- non-vacuity: negative amount panics; no witness: false; debit fails: false; empty transfer skips the credit
example : GoFuncs.nep17Transfer 1 2 (-5) 0 (-1) 0 true false true false false 0 0 false 0 false 0 = none ∧
    GoFuncs.nep17Transfer 1 2 5 0 1 0 true false false false false 0 0 false 0 false 0 = some ["popArgsPushRes"] ∧
    GoFuncs.nep17Transfer 1 2 5 0 1 0 true false true false false 0 0 true 0 false 0 = some ["popArgsPushRes"] ∧
    GoFuncs.nep17Transfer 1 1 5 0 1 0 true false true false true 0 0 false 0 true 0 = some ["c.postTransfer"] ∧
    GoFuncs.nep17Transfer 1 2 5 0 1 7 false true false false false 0 0 false 0 false 0 = some ["c.postTransfer"] := by decide
example : GoFuncs.neoDistributeGas 3 7 false 5 11 false true 9 = (11, "ok", 5, 9) ∧
    GoFuncs.neoDistributeGas 5 7 false 5 11 false true 9 = (0, "ok", 5, 7) ∧
    GoFuncs.neoDistributeGas 3 7 false 5 11 false false 9 = (11, "ok", 5, 7) := by decide
example : (GoFuncs.neoDropCandidateIfZero false 0 1).1 = true ∧ (GoFuncs.neoDropCandidateIfZero true 0 1).1 = false ∧
    (GoFuncs.neoDropCandidateIfZero false 1 1).1 = false := by decide
example : GoFuncs.neoSetRegisterPrice 0 0 true true 5 0 = none ∧ GoFuncs.neoSetRegisterPrice 7 1 true true 5 7 = some [5, 7] := by decide
example : GoFuncs.neoSetGASPerBlock 9 1 1 true = none ∧ GoFuncs.neoSetGASPerBlock 9 1 0 true = some [9] ∧
    GoFuncs.neoSetGASPerBlock 9 1 0 false = none := by decide
example : GoFuncs.shouldUpdateCommitteeAt 10 5 = true ∧ GoFuncs.shouldUpdateCommitteeAt 11 5 = false := by decide

end NeoModel.GoFuncsTie
