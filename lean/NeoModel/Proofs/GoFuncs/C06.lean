/-
Tie by translation (C06, Blockchain.verifyHeader): the definitions of NeoModel.Generated.GoFuncs are re-translated from /repo's Go source on
every check run (harness/cmd/extract/gofuncs.go); the theorems below prove, for all arguments, that the
translated function is the function the hand-written model uses (or has the property stated). A change of the Go
function changes the generated definition and these proofs stop checking.
-/
import NeoModel.Generated.GoFuncs
import NeoModel.Model.AddBlock
namespace NeoModel.GoFuncsTie
open NeoModel NeoModel.Generated NeoModel.AddBlock

/-- outcome labels of the translation: "ok", the sentinel error named in the `return`, or the name of the
error-valued leaf that decided (`bc.verifyHeaderWitnesses(currHeader, prevHeader)`). -/
def hdrLabel : Option Err → String
  | none => "ok"
  | some .stateRoot => "ErrHdrInvalidStateRoot"
  | some .prevHash => "ErrHdrHashMismatch"
  | some .hdrIndex => "ErrHdrIndexMismatch"
  | some .timestamp => "ErrHdrInvalidTimestamp"
  | some .witness => "bc_verifyHeaderWitnesses_currHeader_prevHeader_err"
  | some _ => "?"

/-- The translated `verifyHeader` makes the decisions of the model's `verifyHeader`, in the same order, with
the same first failing check — for every node, header pair and witness outcome. Identifications: the state
module's local height is the node's block height; 32-byte values are opaque codes compared for equality;
`prev.index + 1` does not wrap (indices are far below 2^32). -/
theorem verifyHeader_eq {L : Type} (env : Env L) (s : Node L) (cur prev : Header) (hi : prev.index + 1 < 2 ^ 32) :
    GoFuncs.verifyHeader s.cfg.sr (s.blockHeight : Int) (prev.index : Int) (env.rootOf s.ledger : Int) (cur.prevStateRoot : Int)
      (prev.hash : Int) (cur.prevHash : Int) (cur.index : Int) (prev.ts : Int) (cur.ts : Int)
      (!env.signedBy cur.wit cur.hash prev.nextConsensus)
    = hdrLabel (AddBlock.verifyHeader env s cur prev) := by
  have hw : (((prev.index : Int) + 1) % 4294967296) = ((prev.index + 1 : Nat) : Int) := by omega
  unfold GoFuncs.verifyHeader AddBlock.verifyHeader
  simp only [hw]
  cases s.cfg.sr <;> simp [hdrLabel] <;> grind

-- non-vacuity: equal timestamps are refused, a correct successor passes
example : GoFuncs.verifyHeader false 0 4 0 0 77 77 5 1000 1000 false = "ErrHdrInvalidTimestamp" := by decide
example : GoFuncs.verifyHeader true 4 4 9 9 77 77 5 1000 1001 false = "ok" := by decide
example : GoFuncs.verifyHeader true 4 4 9 8 77 77 5 1000 1001 false = "ErrHdrInvalidStateRoot" := by decide

end NeoModel.GoFuncsTie
