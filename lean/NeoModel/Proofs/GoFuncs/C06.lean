/-
Tie by translation (C06, Blockchain.verifyHeader): the definitions of NeoModel.Generated.GoFuncs are re-translated from /repo's Go source on
every check run (harness/cmd/extract/gofuncs.go); the theorems below prove, for all arguments, that the
translated function is the function the hand-written model uses (or has the property stated). A change of the Go
function changes the generated definition and these proofs stop checking.
-/
import NeoModel.Generated.GoFuncs
import NeoModel.Model.AddBlock
namespace NeoModel.GoFuncsTie
open NeoModel NeoModel.Generated NeoModel.AddBlock

/-- outcome labels of the translation: "ok", the sentinel error named in the `return`, or the name of the
error-valued leaf that decided (`bc.verifyHeaderWitnesses(currHeader, prevHeader)`). -/
def hdrLabel : Option Err → String
  | none => "ok"
  | some .stateRoot => "ErrHdrInvalidStateRoot"
  | some .prevHash => "ErrHdrHashMismatch"
  | some .hdrIndex => "ErrHdrIndexMismatch"
  | some .timestamp => "ErrHdrInvalidTimestamp"
  | some .witness => "bc_verifyHeaderWitnesses_currHeader_prevHeader_err"
  | some _ => "?"

/-- The translated `verifyHeader` makes the decisions of the model's `verifyHeader`, in the same order, with
the same first failing check — for every node, header pair and witness outcome. Identifications: the state
module's local height is the node's block height; 32-byte values are opaque codes compared for equality;
`prev.index + 1` does not wrap (indices are far below 2^32). -/
theorem verifyHeader_eq {L : Type} (env : Env L) (s : Node L) (cur prev : Header) (hi : prev.index + 1 < 2 ^ 32) :
    GoFuncs.verifyHeader s.cfg.sr (s.blockHeight : Int) (prev.index : Int) (env.rootOf s.ledger : Int) (cur.prevStateRoot : Int)
      (prev.hash : Int) (cur.prevHash : Int) (cur.index : Int) (prev.ts : Int) (cur.ts : Int)
      (!env.signedBy cur.wit cur.hash prev.nextConsensus)
    = hdrLabel (AddBlock.verifyHeader env s cur prev) := by
  have hw : (((prev.index : Int) + 1) % 4294967296) = ((prev.index + 1 : Nat) : Int) := by omega
  unfold GoFuncs.verifyHeader AddBlock.verifyHeader
  simp only [hw]
  cases s.cfg.sr <;> simp [hdrLabel] <;> grind

-- non-vacuity: equal timestamps are refused, a correct successor passes
example : GoFuncs.verifyHeader false 0 4 0 0 77 77 5 1000 1000 false = "ErrHdrInvalidTimestamp" := by decide
example : GoFuncs.verifyHeader true 4 4 9 9 77 77 5 1000 1001 false = "ok" := by decide
example : GoFuncs.verifyHeader true 4 4 9 8 77 77 5 1000 1001 false = "ErrHdrInvalidStateRoot" := by decide

/-! ### verifyAndPoolTx — the admission decision of a stand-alone transaction

The translated function takes the outcome of every sub-check as an argument (the leaves: script validity,
policy, on-chain conflict lookup, witnesses, attributes, mempool insertion are opaque error flags; heights, sizes
and fees are integers) and returns the error class. -/

theorem ite_eq_ok (c : Prop) [Decidable c] (a b : String) : (if c then a else b) = "ok" ↔ (c ∧ a = "ok") ∨ (¬ c ∧ b = "ok") := by
  split <;> simp_all

/-- `verifyAndPoolTx` answers "ok" exactly when every conjunct holds. -/
theorem verifyAndPoolTx_ok_iff
    (scriptErr : Bool) (height : Int) (partialTx : Bool) (vub inc : Int) (policyErr : Bool) (size fpb attrFee netFee : Int)
    (chainErr isExists isConfl witErr attrErr poolErr pConf pDup pFunds pOOM pCAttr : Bool) :
    GoFuncs.verifyAndPoolTx scriptErr height partialTx vub inc policyErr size fpb attrFee netFee
        chainErr isExists isConfl witErr attrErr poolErr pConf pDup pFunds pOOM pCAttr = "ok"
    ↔ (scriptErr = false ∧ height < vub ∧ (partialTx = true ∨ vub ≤ (height + inc) % 4294967296) ∧ policyErr = false
        ∧ size ≤ 102400 ∧ size * fpb + attrFee ≤ netFee ∧ chainErr = false ∧ witErr = false ∧ attrErr = false ∧ poolErr = false) := by
  unfold GoFuncs.verifyAndPoolTx
  simp only [ite_eq_ok]
  simp only [String.reduceEq, and_false, or_false, false_or, and_true]
  grind

def firstLabel : List (Bool × String) → String
  | [] => "ok"
  | (c, l) :: r => if c then l else firstLabel r

/-- the checks of `verifyAndPoolTx` in the order the code applies them, each with the error class it yields -/
def txChecks (scriptErr : Bool) (height : Int) (partialTx : Bool) (vub inc : Int) (policyErr : Bool) (size fpb attrFee netFee : Int)
    (chainErr isExists isConfl witErr attrErr poolErr pConf pDup pFunds pOOM pCAttr : Bool) : List (Bool × String) :=
  [ (scriptErr, "ErrInvalidScript"),
    (decide (vub ≤ height), "ErrTxExpired"),
    (!partialTx && decide (vub > (height + inc) % 4294967296), "ErrTxNotYetValid"),
    (policyErr, "ErrPolicy"),
    (decide (size > 102400), "ErrTxTooBig"),
    (decide (netFee < size * fpb + attrFee), "ErrTxSmallNetworkFee"),
    (chainErr && isExists, "ErrAlreadyExists"),
    (chainErr && isConfl, "ErrHasConflicts"),
    (chainErr, "bc_dao_HasTransaction_t_Hash_t_Signers_height_bc_GetMaxTraceableBlocks_err"),
    (witErr, "bc_verifyTxWitnesses_t_nil_isPartialTx_netFee_err"),
    (attrErr, "bc_verifyTxAttributes_bc_dao_t_isPartialTx_err"),
    (poolErr && pConf, "ErrMemPoolConflict"),
    (poolErr && pDup, "ErrAlreadyInPool"),
    (poolErr && pFunds, "ErrInsufficientFunds"),
    (poolErr && pOOM, "ErrOOM"),
    (poolErr && pCAttr, "ErrHasConflicts"),
    (poolErr, "pool_Add_t_feer_data_err") ]

theorem verifyAndPoolTx_is_first_failing
    (scriptErr : Bool) (height : Int) (partialTx : Bool) (vub inc : Int) (policyErr : Bool) (size fpb attrFee netFee : Int)
    (chainErr isExists isConfl witErr attrErr poolErr pConf pDup pFunds pOOM pCAttr : Bool) :
    GoFuncs.verifyAndPoolTx scriptErr height partialTx vub inc policyErr size fpb attrFee netFee
        chainErr isExists isConfl witErr attrErr poolErr pConf pDup pFunds pOOM pCAttr
    = firstLabel (txChecks scriptErr height partialTx vub inc policyErr size fpb attrFee netFee
        chainErr isExists isConfl witErr attrErr poolErr pConf pDup pFunds pOOM pCAttr) := by
  unfold GoFuncs.verifyAndPoolTx txChecks
  simp only [firstLabel]
  by_cases h1 : scriptErr = true
  · simp [h1]
  by_cases h2 : vub ≤ height
  · simp [h1, h2]
  cases partialTx
  · by_cases h3 : vub > (height + inc) % 4294967296
    · simp [h1, h2, h3]
    have h3' : ¬ ((height + inc) % 4294967296 < vub) := by omega
    by_cases h4 : policyErr = true
    · simp [h1, h2, h3, h3', h4]
    by_cases h5 : size > 102400
    · simp [h1, h2, h3, h3', h4, h5]
    by_cases h6 : netFee < size * fpb + attrFee
    · have : netFee - (size * fpb + attrFee) < 0 := by omega
      simp [h1, h2, h3, h3', h4, h5, h6, this]
    have h6' : ¬ (netFee - (size * fpb + attrFee) < 0) := by omega
    cases chainErr <;> cases isExists <;> cases isConfl <;> cases witErr <;> cases attrErr <;>
      simp [h1, h2, h3, h3', h4, h5, h6, h6'] <;>
      (cases poolErr <;> cases pConf <;> cases pDup <;> cases pFunds <;> cases pOOM <;> cases pCAttr <;> simp)
  · by_cases h4 : policyErr = true
    · simp [h1, h2, h4]
    by_cases h5 : size > 102400
    · simp [h1, h2, h4, h5]
    by_cases h6 : netFee < size * fpb + attrFee
    · have : netFee - (size * fpb + attrFee) < 0 := by omega
      simp [h1, h2, h4, h5, h6, this]
    have h6' : ¬ (netFee - (size * fpb + attrFee) < 0) := by omega
    cases chainErr <;> cases isExists <;> cases isConfl <;> cases witErr <;> cases attrErr <;>
      simp [h1, h2, h4, h5, h6, h6'] <;>
      (cases poolErr <;> cases pConf <;> cases pDup <;> cases pFunds <;> cases pOOM <;> cases pCAttr <;> simp)

-- non-vacuity: a fee one unit short is refused as ErrTxSmallNetworkFee; the exact fee passes
example : GoFuncs.verifyAndPoolTx false 10 false 20 5760 false 250 1000 0 249999 false false false false false false false false false false false = "ErrTxSmallNetworkFee" := by decide
example : GoFuncs.verifyAndPoolTx false 10 false 20 5760 false 250 1000 0 250000 false false false false false false false false false false false = "ok" := by decide
example : GoFuncs.verifyAndPoolTx false 10 false 10 5760 false 250 1000 0 250000 false false false false false false false false false false false = "ErrTxExpired" := by decide

end NeoModel.GoFuncsTie
