/-
C15 — tie by translation: decision functions of the witness check and of the script-context wiring,
translated from the Go source on every run (Generated/GoFuncs.lean), ARE the model's functions.

  vm.Context.IsCalledByEntry            = SC.isCalledByEntry   (on the two nil tests of the callingContext chain)
  runtime.scopeContext.IsCalledByEntry  = the executing context's IsCalledByEntry (what rule conditions see)
  vm.VM.checkInvocationStackSize        = the limit test of VM.load / VM.call
  keys.PublicKey.sizeSerialized         = 33 for a compressed key (the PUSHDATA1 length of `sigContract`)
  callflag.CallFlag.Has                 = Flags.has
  transaction.ScopesFromByte            = validScopes (all 256 bytes)
  runtime.getContractGroups             = getContractGroups (ReadStates first, missing contract is no error)
  runtime.LoadScript                    = the flags of the `.runtimeLoadScript` step (range check, cur & ReadOnly & fs)
  contract.callInternal                 = safeMask for Safe methods
  Signer.DecodeBinary / WitnessRule.DecodeBinary = the scope-byte / action-byte tests and the read order of decodeSigner / decodeRule
-/
import NeoModel.Model.Witness.Arg
import NeoModel.Proofs.WitnessFrames
import NeoModel.Generated.GoFuncs
open NeoModel
namespace NeoModel.Witness.GoTie

/-- `c.sc.callingContext == nil`. -/
def leafCallingNil (s : SC) : Bool := s.calling?.isNone
/-- `c.sc.callingContext.callingContext == nil` — only evaluated when the first test is false (`||`); `b` is
whatever it would be otherwise. -/
def leafCallingCallingNil (s : SC) (b : Bool) : Bool :=
  match s.calling? with
  | some p => p.calling?.isNone
  | none => b

/-- **go_isCalledByEntry_eq_model.** The translated `Context.IsCalledByEntry` is the model's
`SC.isCalledByEntry` on every script-context chain. -/
theorem go_isCalledByEntry_eq_model (s : SC) (b : Bool) :
    Generated.GoFuncs.c15ContextIsCalledByEntry (leafCallingNil s) (leafCallingCallingNil s b) = s.isCalledByEntry := by
  unfold Generated.GoFuncs.c15ContextIsCalledByEntry leafCallingNil leafCallingCallingNil
  cases s with
  | root f => simp [SC.calling?, SC.isCalledByEntry]
  | child f p =>
    cases p with
    | root g => simp [SC.calling?, SC.isCalledByEntry]
    | child g q => simp [SC.calling?, SC.isCalledByEntry]

/-- **go_scopeContext_isCalledByEntry.** What a rule condition (and the CalledByEntry scope) asks,
`scopeContext.IsCalledByEntry`, is exactly `sc.VM.Context().IsCalledByEntry()` — the script-context chain of
the executing context, not a comparison of script hashes. -/
theorem go_scopeContext_isCalledByEntry (x : Bool) :
    Generated.GoFuncs.c15ScopeContextIsCalledByEntry x = x := rfl

/-- **go_stackCheck_eq_model.** The translated `checkInvocationStackSize` panics exactly when the model's
loaders fault with `stackTooBig`. -/
theorem go_stackCheck_eq_model (v : VM) (h160 caller hash : Hash) (f : Flags) :
    (Generated.GoFuncs.c15CheckInvocationStackSize v.istack.length = none ↔
      v.load h160 caller hash f = .error .stackTooBig) ∧
    (v.istack ≠ [] → (Generated.GoFuncs.c15CheckInvocationStackSize v.istack.length = none ↔
      v.call = .error .stackTooBig)) := by
  unfold Generated.GoFuncs.c15CheckInvocationStackSize VM.load VM.call maxInvocationStackSize
  constructor
  · by_cases h : v.istack.length ≥ 1024
    · have : (v.istack.length : Int) ≥ 1024 := by omega
      simp [h, this]
    · have : ¬ (v.istack.length : Int) ≥ 1024 := by omega
      simp only [h, this, if_false]
      cases v.istack <;> simp
  · intro hne
    cases hv : v.istack with
    | nil => exact absurd hv hne
    | cons s rest =>
      simp only [List.length_cons, ge_iff_le]
      by_cases h : 1024 ≤ rest.length + 1
      · simp [h]; omega
      · simp [h]; omega

/-- **go_keySize_is_sigContract_push.** The translated `sizeSerialized(true)` of a key that is not the point
at infinity is 33 — the length byte of the model's `sigContract` — and the contract has 40 bytes. -/
theorem go_keySize_is_sigContract_push (key33 : Bytes) (h : key33.length = 33) :
    Generated.GoFuncs.c15KeySizeSerialized true false = 33 ∧
    (sigContract key33).take 2 = [opPUSHDATA1, 0x21] ∧ (sigContract key33).length = 40 := by
  refine ⟨rfl, rfl, ?_⟩
  simp [sigContract, checkSigId, h]

open Generated.GoFuncs

theorem band_nat (a b : Nat) : band (a : Int) (b : Int) = ((a &&& b : Nat) : Int) := by simp [band]

/-- **go_callFlagHas_eq_model.** `CallFlag.Has` translated from the Go source is the model's `Flags.has`. -/
theorem go_callFlagHas_eq_model (f need : Nat) : c15CallFlagHas (need : Int) (f : Int) = Flags.has f need := by
  unfold c15CallFlagHas Flags.has
  rw [band_nat]
  by_cases h : f &&& need = need
  · simp [h]
  · have : ¬ (((f &&& need : Nat) : Int) = (need : Int)) := by exact_mod_cast h
    simp [h, this]

set_option maxRecDepth 100000 in
/-- **go_scopesFromByte_eq_validScopes.** `ScopesFromByte` translated from the Go source accepts exactly the
bytes the model's `validScopes` accepts (no unknown bit, Global only alone), and returns the byte. -/
theorem go_scopesFromByte_eq_validScopes (b : Fin 256) :
    ((c15ScopesFromByte (b.val : Int)).2 = "ok" ↔ validScopes b.val = true) ∧
    ((c15ScopesFromByte (b.val : Int)).2 = "ok" → (c15ScopesFromByte (b.val : Int)).1 = b.val) := by
  revert b; decide

/-- **go_getContractGroups_eq_model.** `getContractGroups` translated from the Go source: the ReadStates test
comes first and is the only error; a missing contract is no error and has no groups; otherwise the
manifest's groups — as in the model. -/
theorem go_getContractGroups_eq_model (e : Env) (h : Hash) (cs groups : Int) :
    let r := c15GetContractGroups e.cur.readStates cs (e.contracts h).isNone groups
    (r.2 = "err" ↔ getContractGroups e h = .error .noReadStates) ∧
    (r.2 = "ok" → (e.contracts h = none → r.1 = 0 ∧ getContractGroups e h = .ok []) ∧
      (∀ gs, e.contracts h = some gs → r.1 = groups ∧ getContractGroups e h = .ok gs)) := by
  unfold c15GetContractGroups getContractGroups
  cases hrs : e.cur.readStates <;> cases hc : e.contracts h <;> simp

/-- **go_runtimeLoadScript_flags_eq_model.** The flags `System.Runtime.LoadScript` hands to
`LoadDynamicScript`, translated from the Go source (range check first, then `cur & ReadOnly & fs`), are those
of the model's `.runtimeLoadScript` step. -/
theorem go_runtimeLoadScript_flags_eq_model (cf fs : Nat) (hfs : fs < 256) (script args : Int) (bad : Bool) :
    c15RuntimeLoadScript script (fs : Int) args bad (cf : Int) =
      (if fs &&& fAll != fs then none else if bad then none else some [((cf &&& fReadOnly &&& fs : Nat) : Int)]) := by
  unfold c15RuntimeLoadScript
  have hw : ((wrapS 32 (fs : Int)) % 256) = (fs : Int) := by
    unfold wrapS; omega
  have e15 : band (fs : Int) 15 = ((fs &&& 15 : Nat) : Int) := by exact_mod_cast band_nat fs 15
  have e5 : band (band (cf : Int) 5) (fs : Int) = ((cf &&& 5 &&& fs : Nat) : Int) := by
    have : band (cf : Int) 5 = ((cf &&& 5 : Nat) : Int) := by exact_mod_cast band_nat cf 5
    rw [this, band_nat]
  simp only [hw, bandnot, e15, e5, fAll, fReadOnly]
  have key : ((fs : Int) - ((fs &&& 15 : Nat) : Int) ≠ 0) ↔ (fs &&& 15 != fs) = true := by
    constructor
    · intro h; simp only [bne_iff_ne, ne_eq]; intro he; rw [he] at h; simp at h
    · intro h; simp only [bne_iff_ne, ne_eq] at h
      intro he; apply h; have : ((fs &&& 15 : Nat) : Int) = (fs : Int) := by omega
      exact_mod_cast this
  by_cases h1 : (fs &&& 15 != fs) = true
  · simp [h1, key.mpr h1]
  · have h1' : ¬ ((fs : Int) - ((fs &&& 15 : Nat) : Int) ≠ 0) := fun hh => h1 (key.mp hh)
    cases bad <;> simp [h1, h1']

set_option maxRecDepth 100000 in
/-- **go_callInternal_safe_mask_eq_model.** For a Safe method `callInternal`, translated from the Go source,
passes `f &^ (WriteStates|AllowNotify)` on — the model's `safeMask` (on flag bytes) —, and `f` itself for a
method that is not Safe and is allowed. -/
theorem go_callInternal_safe_mask_eq_model (f : Nat) (hf : f < 256) (hasReturn isDynamic : Bool)
    (a1 : Int) (b1 b2 b3 : Bool) (a2 : Int) (b4 b5 : Bool) (a3 : Int) (b6 : Bool) (a4 : Int) :
    c15CallInternal (f : Int) hasReturn isDynamic true a1 b1 b2 b3 a2 b4 b5 a3 b6 a4 = some [((safeMask true f : Nat) : Int)] := by
  unfold c15CallInternal safeMask
  have e10 : band (f : Int) 10 = ((f &&& 10 : Nat) : Int) := by exact_mod_cast band_nat f 10
  simp only [if_true, bandnot, e10, fWriteStates, fAllowNotify]
  have : ∀ f : Fin 256, ((f.val : Int) - ((f.val &&& 10 : Nat) : Int)) = ((f.val &&& (255 ^^^ (2 ||| 8)) : Nat) : Int) := by decide
  have := this ⟨f, hf⟩
  simp only at this
  rw [this]


set_option maxRecDepth 100000 in
/-- **go_signerDecodeBinary_scope_eq_model.** `Signer.DecodeBinary` translated from the Go source: for every
scope byte the reader's error is set exactly when the model's `validScopes` refuses the byte, and otherwise
the lists are read in the order contracts, groups, rules, each exactly when its bit is set. -/
theorem go_signerDecodeBinary_scope_eq_model (b : Fin 256) (old : Int) :
    let r := c15SignerDecodeBinary old false (b.val : Int) true true
    r.1 = b.val ∧ (r.2.1 = true ↔ validScopes b.val = false) ∧
    (r.2.1 = false → r.2.2 = ["br.ReadBytes"] ++
      (if hasScope b.val scCustomContracts then ["br.ReadArray"] else []) ++
      (if hasScope b.val scCustomGroups then ["br.ReadArray"] else []) ++
      (if hasScope b.val scRules then ["br.ReadArray"] else [])) := by
  have : c15SignerDecodeBinary old false (b.val : Int) true true = c15SignerDecodeBinary 0 false (b.val : Int) true true := rfl
  rw [this]
  clear this
  revert b; decide

/-- **go_ruleDecodeBinary_action_eq_model.** `WitnessRule.DecodeBinary` translated from the Go source sets the
reader's error (and does not decode a condition) exactly for an action byte other than Deny / Allow — the
test of the model's `decodeRule`. -/
theorem go_ruleDecodeBinary_action_eq_model (a : Fin 256) (oldA oldC cond : Int) :
    let r := c15RuleDecodeBinary oldA false oldC (a.val : Int) true cond
    r.1 = a.val ∧ (r.2.1 = true ↔ (a.val != 0 && a.val != actAllow) = true) ∧ (r.2.1 = false → r.2.2 = cond) := by
  have h : ((a.val : Int) % 256) = (a.val : Int) := by have := a.isLt; omega
  unfold c15RuleDecodeBinary
  simp only [h, actAllow]
  by_cases h0 : a.val = 0
  · simp [h0]
  · by_cases h1 : a.val = 1
    · simp [h1]
    · have e1 : ¬ ((a.val : Int) = 1) := by exact_mod_cast h1
      simp [h0, h1, e1]


end NeoModel.Witness.GoTie
