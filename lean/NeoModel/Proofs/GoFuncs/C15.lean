/-
C15 — tie by translation: decision functions of the witness check and of the script-context wiring,
translated from the Go source on every run (Generated/GoFuncs.lean), ARE the model's functions.

  vm.Context.IsCalledByEntry            = SC.isCalledByEntry   (on the two nil tests of the callingContext chain)
  runtime.scopeContext.IsCalledByEntry  = the executing context's IsCalledByEntry (what rule conditions see)
  vm.VM.checkInvocationStackSize        = the limit test of VM.load / VM.call
  keys.PublicKey.sizeSerialized         = 33 for a compressed key (the PUSHDATA1 length of `sigContract`)
-/
import NeoModel.Model.Witness.Arg
import NeoModel.Generated.GoFuncs
open NeoModel
namespace NeoModel.Witness.GoTie

/-- `c.sc.callingContext == nil`. -/
def leafCallingNil (s : SC) : Bool := s.calling?.isNone
/-- `c.sc.callingContext.callingContext == nil` — only evaluated when the first test is false (`||`); `b` is
whatever it would be otherwise. -/
def leafCallingCallingNil (s : SC) (b : Bool) : Bool :=
  match s.calling? with
  | some p => p.calling?.isNone
  | none => b

/-- **go_isCalledByEntry_eq_model.** The translated `Context.IsCalledByEntry` is the model's
`SC.isCalledByEntry` on every script-context chain. -/
theorem go_isCalledByEntry_eq_model (s : SC) (b : Bool) :
    Generated.GoFuncs.c15ContextIsCalledByEntry (leafCallingNil s) (leafCallingCallingNil s b) = s.isCalledByEntry := by
  unfold Generated.GoFuncs.c15ContextIsCalledByEntry leafCallingNil leafCallingCallingNil
  cases s with
  | root f => simp [SC.calling?, SC.isCalledByEntry]
  | child f p =>
    cases p with
    | root g => simp [SC.calling?, SC.isCalledByEntry]
    | child g q => simp [SC.calling?, SC.isCalledByEntry]

/-- **go_scopeContext_isCalledByEntry.** What a rule condition (and the CalledByEntry scope) asks,
`scopeContext.IsCalledByEntry`, is exactly `sc.VM.Context().IsCalledByEntry()` — the script-context chain of
the executing context, not a comparison of script hashes. -/
theorem go_scopeContext_isCalledByEntry (x : Bool) :
    Generated.GoFuncs.c15ScopeContextIsCalledByEntry x = x := rfl

/-- **go_stackCheck_eq_model.** The translated `checkInvocationStackSize` panics exactly when the model's
loaders fault with `stackTooBig`. -/
theorem go_stackCheck_eq_model (v : VM) (h160 caller hash : Hash) (f : Flags) :
    (Generated.GoFuncs.c15CheckInvocationStackSize v.istack.length = none ↔
      v.load h160 caller hash f = .error .stackTooBig) ∧
    (v.istack ≠ [] → (Generated.GoFuncs.c15CheckInvocationStackSize v.istack.length = none ↔
      v.call = .error .stackTooBig)) := by
  unfold Generated.GoFuncs.c15CheckInvocationStackSize VM.load VM.call maxInvocationStackSize
  constructor
  · by_cases h : v.istack.length ≥ 1024
    · have : (v.istack.length : Int) ≥ 1024 := by omega
      simp [h, this]
    · have : ¬ (v.istack.length : Int) ≥ 1024 := by omega
      simp only [h, this, if_false]
      cases v.istack <;> simp
  · intro hne
    cases hv : v.istack with
    | nil => exact absurd hv hne
    | cons s rest =>
      simp only [List.length_cons, ge_iff_le]
      by_cases h : 1024 ≤ rest.length + 1
      · simp [h]; omega
      · simp [h]; omega

/-- **go_keySize_is_sigContract_push.** The translated `sizeSerialized(true)` of a key that is not the point
at infinity is 33 — the length byte of the model's `sigContract` — and the contract has 40 bytes. -/
theorem go_keySize_is_sigContract_push (key33 : Bytes) (h : key33.length = 33) :
    Generated.GoFuncs.c15KeySizeSerialized true false = 33 ∧
    (sigContract key33).take 2 = [opPUSHDATA1, 0x21] ∧ (sigContract key33).length = 40 := by
  refine ⟨rfl, rfl, ?_⟩
  simp [sigContract, checkSigId, h]

end NeoModel.Witness.GoTie
