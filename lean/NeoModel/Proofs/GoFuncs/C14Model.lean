/-
Tie by translation, C14 model side: the compiler functions `negateJmp` and `toShortForm` (pkg/compiler/codegen.go),
re-translated into Lean from /repo's Go source on every check run (NeoModel.Generated.GoFuncs), ARE the functions the
hand-written reference compiler uses: `Compile.negCmp` on the long conditional-jump opcodes (emitBinaryExpr negates the
fused compare-and-jump when the branch is taken on `false`), and the long/short opcode pairs of `MiniVm.Byte.encode`
(writeJumps replaces a long jump by `toShortForm op`).  A change of either Go function changes the generated
definition and these proofs stop checking.  Likewise emit.smallInt / emit.isInstructionJmp (pkg/vm/emit/emit.go, spec in
harness/cmd/extract/gofuncs_c14.go) against the model's PUSHINT encoder and jump encodings.
-/
import NeoModel.Generated.GoFuncs
import NeoModel.Model.Compile
namespace NeoModel.GoFuncsTie
open NeoModel NeoModel.Generated NeoModel.MiniVm NeoModel.Compile

/-- the opcode byte of an encoded instruction. -/
def opByte (bs : Bytes) : Int := match bs with | b :: _ => (b.toNat : Int) | [] => -1

/-- model = generated, negateJmp: for every comparison kind, negating the long fused jump of the model's encoding with
    the Go function gives the long fused jump of `negCmp`. -/
theorem negCmp_is_negateJmp (c : Cmp) (t : Int) :
    GoFuncs.compilerNegateJmp (opByte (Byte.encode true (.jmpCmp c t))) = some (opByte (Byte.encode true (.jmpCmp (negCmp c) t))) := by
  cases c <;> simp [Byte.encode, Byte.Cmp.code, negCmp, opByte, GoFuncs.compilerNegateJmp]

/-- … and JMPIF / JMPIFNOT (emitJumpOnCondition's pair) are each other's negation. -/
theorem jmpIf_negate (t : Int) :
    GoFuncs.compilerNegateJmp (opByte (Byte.encode true (.jmpIf t))) = some (opByte (Byte.encode true (.jmpIfNot t))) ∧
    GoFuncs.compilerNegateJmp (opByte (Byte.encode true (.jmpIfNot t))) = some (opByte (Byte.encode true (.jmpIf t))) := by
  constructor <;> simp [Byte.encode, opByte, GoFuncs.compilerNegateJmp]

/-- the instructions writeJumps shortens. -/
def IsJump : Op Int → Prop
  | .jmp _ | .jmpIf _ | .jmpIfNot _ | .jmpCmp _ _ | .call _ => True
  | _ => False

/-- model = generated, toShortForm: the short encoding of every jump / call of the model carries the opcode that the Go
    function assigns to the opcode of its long encoding. -/
theorem short_is_toShortForm (op : Op Int) (h : IsJump op) :
    GoFuncs.compilerToShortForm (opByte (Byte.encode true op)) = some (opByte (Byte.encode false op)) := by
  cases op <;> simp only [IsJump] at h <;> try (simp [Byte.encode, opByte, GoFuncs.compilerToShortForm])
  case jmpCmp c t => cases c <;> simp [Byte.encode, Byte.Cmp.code, opByte, GoFuncs.compilerToShortForm]

example : GoFuncs.compilerNegateJmp (opByte (Byte.encode true (.jmpCmp .lt 7))) = some 0x2F := by
  rw [negCmp_is_negateJmp]; decide

/-- model = generated, emit.smallInt: the model's PUSHINT encoder takes its one-byte forms (PUSHM1, PUSH0..PUSH15)
    exactly when emit.smallInt (re-translated from emit.go) reports that it has emitted the integer, and otherwise
    writes an opcode followed by at least one operand byte (emit.bigInt's path). -/
theorem encPushInt_small_is_smallInt (n : Int) :
    ((GoFuncs.emitSmallInt n).1 = true ↔ (Byte.encPushInt n).length = 1) ∧
    ((GoFuncs.emitSmallInt n).1 = true → (GoFuncs.emitSmallInt n).2 = ["Opcodes"]) := by
  unfold GoFuncs.emitSmallInt Byte.encPushInt
  by_cases h1 : n = -1
  · simp [h1]
  · by_cases h2 : 0 ≤ n ∧ n < 16
    · have : ¬ (n == -1) = true := by simpa using h1
      simp [h1, h2]
    · have h2' : ¬ (n ≥ 0 ∧ n < 16) := h2
      simp only [h1, h2, h2', if_false, beq_iff_eq]
      simp only [Bool.false_eq_true, false_iff, false_implies, and_true, List.length_cons, Byte.leBytes, List.length_map, List.length_range]
      repeat' split
      all_goals omega

/-- every jump / call opcode the model's encoder writes (short and long form) is accepted by emit.Jmp's guard
    `isInstructionJmp` (re-translated from emit.go). -/
theorem jump_is_instructionJmp (long : Bool) (op : Op Int) (h : IsJump op) :
    GoFuncs.emitIsInstructionJmp (opByte (Byte.encode long op)) = true := by
  cases op <;> simp only [IsJump] at h
  case jmpCmp c t => cases long <;> cases c <;> simp [Byte.encode, Byte.Cmp.code, opByte, GoFuncs.emitIsInstructionJmp]
  all_goals cases long <;> simp [Byte.encode, opByte, GoFuncs.emitIsInstructionJmp]

example : (GoFuncs.emitSmallInt 15).1 = true ∧ (GoFuncs.emitSmallInt 16).1 = false ∧ (Byte.encPushInt 16).length = 2 ∧
    GoFuncs.emitIsInstructionJmp 0x35 = true ∧ GoFuncs.emitIsInstructionJmp 0x40 = false := by decide

end NeoModel.GoFuncsTie
