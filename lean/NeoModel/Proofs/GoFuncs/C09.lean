/-
Tie by translation (C09, statesync.TemporaryPrefix): the definition in NeoModel.Generated.GoFuncs is re-translated from
/repo's Go source on every check run (harness/cmd/extract/gofuncs.go, spec in gofuncs_c09.go); the theorem proves,
for all arguments, that it is the function the hand-written model uses.
-/
import NeoModel.Generated.GoFuncs
import NeoModel.Model.Store.Dao
namespace NeoModel.GoFuncsTie
open NeoModel NeoModel.Store

/-- the Go function `statesync.TemporaryPrefix` (module.go:296-305), re-translated from /repo on every check
run, is the model's `temporaryPrefix` for every prefix byte (`none` = the `panic` of the default branch). -/
theorem temporaryPrefix_translated (p : UInt8) :
    Generated.GoFuncs.temporaryPrefix (p.toNat : Int) = (Store.temporaryPrefix p).map (fun q => (q.toNat : Int)) := by
  unfold Generated.GoFuncs.temporaryPrefix Store.temporaryPrefix
  by_cases h1 : p = 0x70
  · subst h1; decide
  · by_cases h2 : p = 0x71
    · subst h2; decide
    · have n1 : ¬ ((p.toNat : Int) = 112) := by
        intro h; apply h1; apply UInt8.toNat_inj.mp; simp; omega
      have n2 : ¬ ((p.toNat : Int) = 113) := by
        intro h; apply h2; apply UInt8.toNat_inj.mp; simp; omega
      have b1 : (p == 0x70) = false := by simpa using h1
      have b2 : (p == 0x71) = false := by simpa using h2
      simp [n1, n2, b1, b2]
theorem memoryStoreGet_aux (e : Option (Option Val)) (c v : Int) :
    (Generated.GoFuncs.memoryStoreGet c v e.isSome (match e with | some (some _) => true | _ => false)).2 =
      (if (match e with | some (some w) => some w | _ => none : Option Val).isSome then "ok" else "ErrKeyNotFound") := by
  unfold Generated.GoFuncs.memoryStoreGet
  cases e with
  | none => simp
  | some ov => cases ov <;> simp

/-- the Go function `MemoryStore.Get` (memory_store.go:29-37), re-translated from /repo on every check run,
finds a key exactly when the model's MemoryStore does: the entry exists AND its value is not nil (a nil value
is a deletion; an EMPTY value is a value). Leaves: `ok` = the key is in the chosen map, `val_nil` = its value
is non-nil; `c`, `v` stand for the chosen map and the value. -/
theorem memoryStoreGet_translated (m s : GoMap) (k : Key) (c v : Int) :
    (Generated.GoFuncs.memoryStoreGet c v (mapGet (if isStor k then s else m) k).isSome
        (match mapGet (if isStor k then s else m) k with | some (some _) => true | _ => false)).2 =
      (if ((Store.memB m s).get k).isSome then "ok" else "ErrKeyNotFound") :=
  memoryStoreGet_aux _ c v

end NeoModel.GoFuncsTie
