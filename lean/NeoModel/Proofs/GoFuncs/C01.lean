/-
Tie by translation (C01, native Policy setters: range and committee guards): the definitions of NeoModel.Generated.GoFuncs are re-translated from /repo's Go source on
every check run (harness/cmd/extract/gofuncs.go); the theorems below prove, for all arguments, that the
translated function is the function the hand-written model uses (or has the property stated). A change of the Go
function changes the generated definition and these proofs stop checking.
-/
import NeoModel.Generated.GoFuncs
namespace NeoModel.GoFuncsTie
open NeoModel NeoModel.Generated

/-! Each translated setter returns `some [contract id, value]` exactly when it reaches its storage write
(`setIntWithKey`), `none` when it panics before (the invocation FAULTs and, by C04, changes nothing).
The theorems give the exact guard, for every argument, hardfork flag and witness outcome. -/

theorem policySetExecFeeFactor_spec (v : Int) (faun committee : Bool) (id : Int) :
    GoFuncs.policySetExecFeeFactor v faun committee id
      = if 1 ≤ v ∧ v ≤ (if faun then 1000000 else 100) ∧ committee = true then some [id, v] else none := by
  unfold GoFuncs.policySetExecFeeFactor
  cases faun <;> cases committee <;> simp <;> split <;> simp_all <;> omega

theorem policySetStoragePrice_spec (v : Int) (committee : Bool) (id : Int) :
    GoFuncs.policySetStoragePrice v committee id
      = if 1 ≤ v ∧ v ≤ 10000000 ∧ committee = true then some [id, v] else none := by
  unfold GoFuncs.policySetStoragePrice
  cases committee <;> simp <;> split <;> simp_all <;> omega

theorem policySetFeePerByte_spec (v : Int) (committee : Bool) (id : Int) :
    GoFuncs.policySetFeePerByte v committee id
      = if 0 ≤ v ∧ v ≤ 100000000 ∧ committee = true then some [id, v] else none := by
  unfold GoFuncs.policySetFeePerByte
  cases committee <;> simp <;> split <;> simp_all <;> omega

theorem policySetMillisecondsPerBlock_spec (v : Int) (committee : Bool) (id : Int) :
    GoFuncs.policySetMillisecondsPerBlock v committee id
      = if 1 ≤ v ∧ v ≤ 30000 ∧ committee = true then some [id, v] else none := by
  unfold GoFuncs.policySetMillisecondsPerBlock
  cases committee <;> simp <;> split <;> simp_all <;> omega

theorem policySetMaxVUBIncrement_spec (v mtb : Int) (committee : Bool) (id : Int) :
    GoFuncs.policySetMaxVUBIncrement v mtb committee id
      = if 1 ≤ v ∧ v ≤ 86400 ∧ v < mtb ∧ committee = true then some [id, v] else none := by
  unfold GoFuncs.policySetMaxVUBIncrement
  grind

theorem policySetMaxTraceableBlocks_spec (v old vubInc : Int) (committee : Bool) (id : Int) :
    GoFuncs.policySetMaxTraceableBlocks v old vubInc committee id
      = if 1 ≤ v ∧ v ≤ 2102400 ∧ v ≤ old ∧ vubInc < v ∧ committee = true then some [id, v] else none := by
  unfold GoFuncs.policySetMaxTraceableBlocks
  grind

theorem policySetAttributeFee_spec (allowNA : Bool) (t v : Int) (validType committee : Bool) (id : Int) :
    GoFuncs.policySetAttributeFee allowNA t v validType committee id
      = if validType = true ∧ (allowNA = true ∨ t % 256 ≠ 34) ∧ v ≤ 1000000000 ∧ committee = true then some [id, v] else none := by
  unfold GoFuncs.policySetAttributeFee
  grind
-- non-vacuity
example : GoFuncs.policySetExecFeeFactor 100 false true (-7) = some [-7, 100] ∧ GoFuncs.policySetExecFeeFactor 101 false true (-7) = none
    ∧ GoFuncs.policySetExecFeeFactor 101 true true (-7) = some [-7, 101] ∧ GoFuncs.policySetExecFeeFactor 0 true true (-7) = none
    ∧ GoFuncs.policySetExecFeeFactor 5 true false (-7) = none := by decide
example : GoFuncs.policySetMaxTraceableBlocks 100 200 99 true (-7) = some [-7, 100] ∧ GoFuncs.policySetMaxTraceableBlocks 100 200 100 true (-7) = none := by decide

end NeoModel.GoFuncsTie
