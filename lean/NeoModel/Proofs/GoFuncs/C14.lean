/-
Tie by translation (C14, compiler jump shortening tables toShortForm / negateJmp against the regenerated opcode table): the definitions of NeoModel.Generated.GoFuncs are re-translated from /repo's Go source on
every check run (harness/cmd/extract/gofuncs.go); the theorems below prove, for all arguments, that the
translated function is the function the hand-written model uses (or has the property stated). A change of the Go
function changes the generated definition and these proofs stop checking.
-/
import NeoModel.Generated.GoFuncs
import NeoModel.Generated.Opcodes
namespace NeoModel.GoFuncsTie
open NeoModel NeoModel.Generated

/-- every opcode the compiler shortens is a long jump/call of the opcode table (4-byte operand, name ending in _L)
whose short partner is the opcode one below it with a 1-byte operand and the same name without the _L -/
def shortFormSound : Bool :=
  Opcodes.table.all fun r =>
    match GoFuncs.compilerToShortForm (r.1 : Int) with
    | none => true
    | some s => Opcodes.table.any fun r' =>
        ((r'.1 : Int) == s) && (r'.1 + 1 == r.1) && (r'.2.1 ++ "_L" == r.2.1) && (r.2.2.2.1 == 4) && (r'.2.2.2.1 == 1)

theorem toShortForm_sound : shortFormSound = true := by decide +kernel

/-- conversely every long/short pair of the table with one 4-byte / 1-byte offset is shortened -/
def shortFormComplete : Bool :=
  Opcodes.table.all fun r =>
    Opcodes.table.all fun r' =>
      if (r'.2.1 ++ "_L" == r.2.1) && (r.2.2.2.1 == 4) && (r'.2.2.2.1 == 1) then
        GoFuncs.compilerToShortForm (r.1 : Int) == some (r'.1 : Int) else true

theorem toShortForm_complete : shortFormComplete = true := by decide +kernel

theorem toShortForm_is_pred (op s : Int) (h : GoFuncs.compilerToShortForm op = some s) : op = s + 1 := by
  unfold GoFuncs.compilerToShortForm at h
  repeat' split at h
  all_goals first | (simp at h; omega) | (simp at h)

/-- negating a conditional jump is an involution on the long conditional jumps and defined on nothing else -/
theorem negateJmp_involutive (op n : Int) (h : GoFuncs.compilerNegateJmp op = some n) :
    GoFuncs.compilerNegateJmp n = some op := by
  unfold GoFuncs.compilerNegateJmp at h ⊢
  repeat' split at h
  all_goals first | (simp at h; subst h; simp_all) | (simp at h)

example : GoFuncs.compilerToShortForm 0x23 = some 0x22 ∧ GoFuncs.compilerToShortForm 0x3c = none ∧ GoFuncs.compilerNegateJmp 0x25 = some 0x27 := by decide

end NeoModel.GoFuncsTie
