/-
Tie by translation (C08, mempool item.Compare and Transaction.FeePerByte): the definitions of NeoModel.Generated.GoFuncs are re-translated from /repo's Go source on
every check run (harness/cmd/extract/gofuncs.go); the theorems below prove, for all arguments, that the
translated function is the function the hand-written model uses (or has the property stated). A change of the Go
function changes the generated definition and these proofs stop checking.
-/
import NeoModel.Generated.GoFuncs
import NeoModel.Model.Mempool
namespace NeoModel.GoFuncsTie
open NeoModel NeoModel.Generated

/-- `Transaction.FeePerByte` = NetworkFee / Size (truncating; both non-negative). -/
theorem txFeePerByte_eq (t : Mempool.Tx) :
    GoFuncs.txFeePerByte (t.netFee : Int) (t.size : Int) = (t.feePerByte : Int) := by
  unfold GoFuncs.txFeePerByte Mempool.Tx.feePerByte
  rw [Int.tdiv_eq_ediv_of_nonneg (Int.natCast_nonneg _)]
  exact (Int.natCast_ediv _ _).symm

/-- the translated `item.Compare` is the model's `compare` (priority, then fee per byte, then network fee). -/
theorem mempoolItemCompare_eq (a b : Mempool.Tx) :
    GoFuncs.mempoolItemCompare a.high b.high (a.feePerByte : Int) (b.feePerByte : Int) (a.netFee : Int) (b.netFee : Int)
      = Mempool.compare a b := by
  unfold GoFuncs.mempoolItemCompare Mempool.compare
  cases a.high <;> cases b.high <;> simp

example : GoFuncs.mempoolItemCompare true false 1 100 1 100 = 1 ∧ GoFuncs.mempoolItemCompare false false 5 5 7 9 = -2 := by decide

end NeoModel.GoFuncsTie
