/-
Tie by translation (C19, second file): decision functions of pkg/consensus, pkg/config and the dbft library that the
epoch model (Model/DbftEpoch.lean) and the machine model (Model/DbftMach.lean) re-state by hand. The definitions of
NeoModel.Generated.GoFuncs are re-translated from the Go source on every check run; the theorems prove, for all
arguments, that the hand-written function is the translated one with the leaves instantiated by the model's state.
-/
import NeoModel.Generated.GoFuncs
import NeoModel.Model.DbftEpoch
import NeoModel.Model.DbftMach

namespace NeoModel.GoFuncsTie
open NeoModel NeoModel.Generated NeoModel.Generated.GoFuncs

/-- `config.ShouldUpdateCommitteeAt` is the epoch model's boundary test. -/
theorem shouldUpdateCommitteeAt_eq (committee h : Nat) (hc : committee < 2 ^ 32) :
    c19ShouldUpdateCommitteeAt (h : Int) (committee : Int) = Dbft.Epoch.shouldUpdate committee h := by
  unfold c19ShouldUpdateCommitteeAt Dbft.Epoch.shouldUpdate
  have h1 : ((committee : Int) % 4294967296) = (committee : Int) := by omega
  rw [h1, ← Int.natCast_emod]
  generalize h % committee = r
  cases r with
  | zero => simp
  | succ k =>
    have : ¬ (((k + 1 : Nat) : Int) = 0) := by omega
    simp only [this, decide_false]
    rfl

/-- `service.validatePayload`: the payload's validator index is looked up in the list `getValidators()` returns NOW
(the ledger's current `GetNextBlockValidators`), and the sender must be that key's account. -/
theorem validatePayload_eq (vals idx len key acct sender : Int) :
    c19ValidatePayload vals idx len key acct sender = (decide (idx < len) && decide (sender = acct)) := by
  unfold c19ValidatePayload
  by_cases h : idx ≥ len
  · have : ¬ idx < len := by omega
    simp [h, this]
  · have : idx < len := by omega
    simp [this]

open Dbft.Mach in
/-- `Context.ViewChanging` (validator, not watch-only) is the machine's `viewChanging`: the own ChangeView slot holds a
request for a view above the current one (a ChangeView sent in view v asks for v+1). -/
theorem viewChanging_eq (nd : Node) (code : Int) :
    c19ViewChanging false code (slot nd.cv nd.my).isSome
      (match slot nd.cv nd.my with | some p => ((p.hd.v + 1 : Nat) : Int) | none => 0) (nd.view : Int) = nd.viewChanging := by
  unfold c19ViewChanging Node.viewChanging
  cases h : slot nd.cv nd.my with
  | none => simp
  | some p =>
    simp only [Option.isSome_some, true_and, Bool.false_eq_true, if_false]
    by_cases hv : p.hd.v + 1 > nd.view
    · have : (nd.view : Int) < (p.hd.v : Int) + 1 := by omega
      simp [hv, this]
    · have : ¬ (nd.view : Int) < (p.hd.v : Int) + 1 := by omega
      simp [hv, this]

open Dbft.Mach in
/-- `DBFT.onRecoveryRequest`: who answers a RecoveryRequest — a validator that has sent its Commit, or one of the f+1
validators following the requester. The machine's guard is the translated one (N3: no PreCommits). -/
theorem onRecoveryRequest_eq (e : Env) (w : W) (x : Hd) (hx : x.frm < e.n) :
    onRecoveryRequest e w x =
      (if c19OnRecoveryRequest false w.nd.commitSent false false (w.nd.my : Int) (x.frm : Int) (e.n : Int) (e.f : Int)
          = [] then w else sendRecoveryMessage w) := by
  unfold onRecoveryRequest c19OnRecoveryRequest
  dsimp only
  have harg : (((w.nd.my : Int) - (x.frm : Int)) + (e.n : Int)) - 1 = ((w.nd.my + e.n - 1 - x.frm : Nat) : Int) := by omega
  have hmod : Int.tmod ((((w.nd.my : Int) - (x.frm : Int)) + (e.n : Int)) - 1) (e.n : Int)
      = (((w.nd.my + e.n - 1 - x.frm) % e.n : Nat) : Int) := by
    rw [harg, Int.tmod_eq_emod_of_nonneg (by omega), Int.natCast_emod]
  rw [hmod]
  generalize (w.nd.my + e.n - 1 - x.frm) % e.n = q
  generalize w.nd.commitSent = cs
  cases cs
  · by_cases hg : q > e.f
    · have : (q : Int) > (e.f : Int) := by omega
      simp [hg, this]
    · have : ¬ (q : Int) > (e.f : Int) := by omega
      simp [hg, this]
  · simp

open Dbft.Mach in
/-- `DBFT.extendTimer`: the timer is extended unless the Commit is out or a view change is under way. -/
theorem extendTimer_eq (e : Env) (w : W) (count : Nat) :
    extendTimer e w count =
      (if c19ExtendTimer (count : Int) w.nd.commitSent false false w.nd.viewChanging = [] then w
       else (w.upd fun nd => { nd with timer := { nd.timer with dur := nd.timer.dur + extension e.tpb e.m count } }).emit
              (.extend (extension e.tpb e.m count))) := by
  unfold extendTimer c19ExtendTimer
  cases w.nd.commitSent <;> cases w.nd.viewChanging <;> simp

open Dbft.Mach in
/-- `DBFT.onChangeView`: a request for a view not above the current one is treated as a RecoveryRequest; after the own
Commit a RecoveryMessage answers; an older request than the stored one is dropped; otherwise the slot is overwritten
(second component of the translation: the written slot) and the count is checked. The machine follows the translated
order of the checks. -/
theorem onChangeView_eq (k : W → Pl → W) (e : Env) (w : W) (msg : Pl) (old new cv : Int) :
    let g := c19OnChangeView old cv ((msg.hd.v + 1 : Nat) : Int) (w.nd.view : Int) w.nd.commitSent false
      (slot w.nd.cv msg.hd.frm).isSome
      (match slot w.nd.cv msg.hd.frm with | some m => ((m.hd.v + 1 : Nat) : Int) | none => 0) new
    onChangeView k e w msg =
      (if g.2.contains "d.onRecoveryRequest" then onRecoveryRequest e w msg.hd
       else if g.2.contains "d.sendRecoveryMessage" then sendRecoveryMessage w
       else if g.2.contains "d.checkChangeView" then
         checkChangeView k e (w.upd fun nd => { nd with cv := nd.cv.set msg.hd.frm (some msg) }) (msg.hd.v + 1)
       else w) ∧
    (g.1 = if g.2.contains "d.checkChangeView" then new else old) := by
  intro g
  unfold onChangeView
  simp only [g, c19OnChangeView]
  by_cases h1 : msg.hd.v + 1 ≤ w.nd.view
  · have : (msg.hd.v : Int) + 1 ≤ (w.nd.view : Int) := by omega
    simp [h1, this]
  · have h1' : ¬ (msg.hd.v : Int) + 1 ≤ (w.nd.view : Int) := by omega
    simp only [h1, h1', if_false, Int.natCast_add, Int.cast_ofNat_Int, Int.natCast_one]
    cases w.nd.commitSent
    · cases hs : slot w.nd.cv msg.hd.frm with
      | none => simp
      | some m =>
        by_cases h2 : msg.hd.v + 1 < m.hd.v + 1
        · have : (msg.hd.v : Int) + 1 < (m.hd.v : Int) + 1 := by omega
          simp [h2, this]
        · have : ¬ (msg.hd.v : Int) + 1 < (m.hd.v : Int) + 1 := by omega
          simp [h2, this]
    · simp

open Dbft.Mach in
/-- `DBFT.onTimeout` (validator, N3, no MaxTimePerBlock): the machine's reaction to a timer tick follows the translated
decision — after the block or for another (height, view): nothing; primary without a request: propose; Commit sent:
RecoveryMessage and the timer re-armed; otherwise ask for the next view. -/
theorem onTimeout_eq (e : Env) (w : W) (h v : Nat) :
    let g := c19OnTimeout (h : Int) (v : Int) false false w.nd.blockProcessed (w.nd.bi : Int) (w.nd.view : Int)
      w.nd.isPrimary w.nd.requestSOR (!w.nd.isPrimary) w.nd.commitSent false (w.nd.view : Int) false (e.tpb : Int) false 0 0 (e.tpb : Int)
    onTimeout e w h v =
      (if g.contains "d.sendPrepareRequest" then sendPrepareRequest e w
       else if g.contains "d.sendRecoveryMessage" then changeTimer (sendRecoveryMessage w) (e.tpb <<< 1)
       else if g.contains "d.sendChangeView" then sendChangeView (onReceive e fuel) e w 0
       else w) := by
  intro g
  unfold onTimeout
  simp only [g, c19OnTimeout]
  cases w.nd.blockProcessed
  · by_cases hh : h = w.nd.bi <;> by_cases hv : v = w.nd.view
    · subst hh; subst hv
      cases w.nd.isPrimary <;> cases w.nd.requestSOR <;> cases w.nd.commitSent <;> simp
    all_goals
      have hhi : ((h : Int) = (w.nd.bi : Int)) ↔ h = w.nd.bi := by omega
      have hvi : ((v : Int) = (w.nd.view : Int)) ↔ v = w.nd.view := by omega
      simp [hh, hv, hhi, hvi]
  · simp

end NeoModel.GoFuncsTie
