/-
Tie by translation (C03): the definitions of NeoModel.Generated.GoFuncs are re-translated from /repo's Go
source on every check run (harness/cmd/extract/gofuncs.go, specs in gofuncs_c03.go); the theorems below hold
for all arguments. A change of the Go function changes the generated definition and these proofs stop checking.
-/
import NeoModel.Generated.GoFuncs
import NeoModel.Model.StateCommit.Roots
import NeoModel.Model.StateCommit.Rpc
namespace NeoModel.GoFuncsTie
open NeoModel NeoModel.Generated NeoModel.StateCommit

/-- stateroot/module.go:129-131: `GetStateRoot(height)` reads the record under `makeStateRootKey` of exactly
the requested height (the model: `Roots.getStateRoot m h` reads `rootKey h`). -/
theorem c03_getStateRoot_key (h : Int) : GoFuncs.moduleGetStateRoot h = some [h] := rfl

/-- stateroot/store.go:24-26: `addLocalStateRoot` stores a record under the key of its own index
(the model: `Roots.addLocalStateRoot` puts at `rootKey sr.index`). -/
theorem c03_addLocalStateRoot_key (i : Int) : GoFuncs.moduleAddLocalStateRoot i = some [i] := rfl

theorem leBytes_mod (n k : Nat) : Wire.leBytes n (k % 256 ^ n) = Wire.leBytes n k := by
  induction n generalizing k with
  | zero => rfl
  | succ n ih =>
    simp only [Wire.leBytes]
    have h1 : k % 256 ^ (n + 1) % 256 = k % 256 := by
      rw [Nat.pow_succ, Nat.mul_comm]; exact Nat.mod_mul_right_mod k 256 (256 ^ n)
    have h2 : k % 256 ^ (n + 1) / 256 = (k / 256) % 256 ^ n := by
      rw [Nat.pow_succ, Nat.mul_comm]; exact Nat.mod_mul_right_div_self k 256 (256 ^ n)
    rw [h1, h2, ih]

/-- rpcsrv/server.go:1599-1604 `makeStorageKey`: the integer written little-endian in front of the key is
`uint32(id)`; the model's `Rpc.makeStorageKey` starts with `le32` of that number (and `le32` only depends
on its argument modulo 2^32, so passing the id or `uint32(id)` is the same). -/
theorem c03_rpcStorageKey_id (id len : Int) (key : Bytes) :
    GoFuncs.rpcStorageKeyID id len = some [id % 4294967296] ∧
    Rpc.makeStorageKey (id % 4294967296).toNat key = Find.le32 (id % 4294967296).toNat ++ key ∧
    ∀ n : Nat, Find.le32 (n % 4294967296) = Find.le32 n :=
  ⟨rfl, rfl, fun n => leBytes_mod 4 n⟩

end NeoModel.GoFuncsTie
