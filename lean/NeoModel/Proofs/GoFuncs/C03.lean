/-
Tie by translation (C03): the definitions of NeoModel.Generated.GoFuncs are re-translated from /repo's Go
source on every check run (harness/cmd/extract/gofuncs.go, specs in gofuncs_c03.go); the theorems below hold
for all arguments. A change of the Go function changes the generated definition and these proofs stop checking.
-/
import NeoModel.Generated.GoFuncs
import NeoModel.Model.StateCommit.Roots
import NeoModel.Model.StateCommit.Rpc
import NeoModel.Model.StateCommit.Get
namespace NeoModel.GoFuncsTie
open NeoModel NeoModel.Generated NeoModel.StateCommit

/-- stateroot/module.go:129-131: `GetStateRoot(height)` reads the record under `makeStateRootKey` of exactly
the requested height (the model: `Roots.getStateRoot m h` reads `rootKey h`). -/
theorem c03_getStateRoot_key (h : Int) : GoFuncs.moduleGetStateRoot h = some [h] := rfl

/-- stateroot/store.go:24-26: `addLocalStateRoot` stores a record under the key of its own index
(the model: `Roots.addLocalStateRoot` puts at `rootKey sr.index`). -/
theorem c03_addLocalStateRoot_key (i : Int) : GoFuncs.moduleAddLocalStateRoot i = some [i] := rfl

theorem leBytes_mod (n k : Nat) : Wire.leBytes n (k % 256 ^ n) = Wire.leBytes n k := by
  induction n generalizing k with
  | zero => rfl
  | succ n ih =>
    simp only [Wire.leBytes]
    have h1 : k % 256 ^ (n + 1) % 256 = k % 256 := by
      rw [Nat.pow_succ, Nat.mul_comm]; exact Nat.mod_mul_right_mod k 256 (256 ^ n)
    have h2 : k % 256 ^ (n + 1) / 256 = (k / 256) % 256 ^ n := by
      rw [Nat.pow_succ, Nat.mul_comm]; exact Nat.mod_mul_right_div_self k 256 (256 ^ n)
    rw [h1, h2, ih]

/-- rpcsrv/server.go:1599-1604 `makeStorageKey`: the integer written little-endian in front of the key is
`uint32(id)`; the model's `Rpc.makeStorageKey` starts with `le32` of that number (and `le32` only depends
on its argument modulo 2^32, so passing the id or `uint32(id)` is the same). -/
theorem c03_rpcStorageKey_id (id len : Int) (key : Bytes) :
    GoFuncs.rpcStorageKeyID id len = some [id % 4294967296] ∧
    Rpc.makeStorageKey (id % 4294967296).toNat key = Find.le32 (id % 4294967296).toNat ++ key ∧
    ∀ n : Nat, Find.le32 (n % 4294967296) = Find.le32 n :=
  ⟨rfl, rfl, fun n => leBytes_mod 4 n⟩

/-! ### which state root a historic invocation is bound to (blockchain.go GetTestHistoricVM) -/

/-- the requests GetTestHistoricVM refuses before it fetches a state root. -/
def historicRefused (kols fakeErr rub : Bool) (mtb height bIndex : Int) : Prop :=
  kols = true ∨ fakeErr = true ∨
    (rub = true ∧ height > mtb ∧ bIndex < (height - mtb) % 4294967296) ∨
    bIndex < 1 ∨ bIndex > (height + 1) % 4294967296

instance (kols fakeErr rub : Bool) (mtb height bIndex : Int) : Decidable (historicRefused kols fakeErr rub mtb height bIndex) := by
  unfold historicRefused; infer_instance

/-- **C03.T1 (translated code)**: for every configuration and every request, `GetTestHistoricVM` either
refuses before touching the state module, or the FIRST thing it asks the state module for is the state
root of height `b.Index - 1` — for the tip (`b.Index = BlockHeight()+1`) exactly as for older heights:
there is no path that serves an accepted request from anything but that root. -/
theorem c03_historicVM_binds_root (t next : Int) (kols : Bool) (fake : Int) (fakeErr rub : Bool) (mtb height bIndex : Int) :
    GoFuncs.historicVMStateHeight t next kols fake fakeErr rub mtb height bIndex =
      if historicRefused kols fakeErr rub mtb height bIndex then none else some [(bIndex - 1) % 4294967296] := by
  unfold GoFuncs.historicVMStateHeight historicRefused
  by_cases hA : (height > mtb ∧ bIndex < (height - mtb) % 4294967296) <;>
  by_cases hB : (bIndex < 1 ∨ bIndex > (height + 1) % 4294967296) <;>
  cases kols <;> cases fakeErr <;> cases rub <;> simp [hA, hB]

/-- … and the context it returns on success is the one built over `NewTrieStore(sr.Root, …)` of that
fetch: outcome "ok" needs the state root fetch and the native cache initialisation over the trie-backed DAO
to succeed, and returns `newInteropContext(t, dTrie, b, tx)` with `dTrie.Version = bc.dao.Version`. -/
theorem c03_historicVM_ok (t next ver : Int) (kols : Bool) (fake : Int) (fakeErr rub : Bool) (mtb height bIndex sr : Int)
    (srErr : Bool) (store dtrie daoVer : Int) (initErr : Bool) (ctx spawn : Int) :
    GoFuncs.historicVM t next ver kols fake fakeErr rub mtb height bIndex sr srErr store dtrie daoVer initErr ctx spawn =
      if historicRefused kols fakeErr rub mtb height bIndex ∨ srErr = true then (0, "err", ver)
      else if initErr = true then (0, "err", daoVer) else (ctx, "ok", daoVer) := by
  unfold GoFuncs.historicVM historicRefused
  by_cases hA : (height > mtb ∧ bIndex < (height - mtb) % 4294967296) <;>
  by_cases hB : (bIndex < 1 ∨ bIndex > (height + 1) % 4294967296) <;>
  cases kols <;> cases fakeErr <;> cases rub <;> cases srErr <;> cases initErr <;> simp [hA, hB]

/-- C03.T2: `getHistoricParams` (rpcsrv): whichever way the height was given — a number, a block hash, a
state root hash — the invocation is run for `nextBlockHeight = height + 1` (mod 2^32), so that by T1 it is
bound to the root of `height`. -/
theorem c03_rpcHistoricParams_next (kols : Bool) (eUns : Int) (n eInv h1 : Int) (r1 : Int) (respErr : Bool) (hash : Int)
    (hashErr : Bool) (eHash blk : Int) (blkErr : Bool) (stH : Int) (stErr : Bool) (eUnk bIdx : Int)
    (hk : kols = false) (hn : ¬ n < 1) :
    GoFuncs.rpcHistoricParams kols eUns n eInv h1 r1 respErr hash hashErr eHash blk blkErr stH stErr eUnk bIdx =
      if respErr = false then ((h1 + 1) % 4294967296, 0)
      else if hashErr = true then (0, eHash)
      else if blkErr = false then ((bIdx + 1) % 4294967296, 0)
      else if stErr = true then (0, eUnk) else ((stH + 1) % 4294967296, 0) := by
  unfold GoFuncs.rpcHistoricParams
  subst hk
  cases respErr <;> cases hashErr <;> cases blkErr <;> cases stErr <;> simp [hn]

/-! ### TrieStore.Get / Trie.Get: the guards -/

/-- C03.T3: `TrieStore.Get` has no length guard of its own: for a non-empty key under a storage prefix it
returns exactly what `Trie.Get(key[1:])` returns (value and error), mapping only ErrNotFound to
ErrKeyNotFound; other keys are refused. (Model: `Find.trieStoreGet`.) -/
theorem c03_trieStoreGet (len k0 res : Int) (err nf : Bool) :
    GoFuncs.trieStoreGet len k0 res err nf =
      if len = 0 then (0, "ErrUnsupported")
      else if k0 % 256 = 112 ∨ k0 % 256 = 113 then
        (if err = true ∧ nf = true then (0, "ErrKeyNotFound")
         else (res, if err = true then "m_trie_Get_key_1_1_err" else "ok"))
      else (0, "ErrUnsupported") := by
  unfold GoFuncs.trieStoreGet
  rfl

/-- C03.T4: the only length guard on the way is `Trie.Get`'s, `len(key) > MaxKeyLength` on the key WITHOUT
the storage prefix byte, and `MaxKeyLength` is the model's `Find.maxKeyLength` (68 = 4 + MaxStorageKeyLen):
a key of exactly the limit is looked up. -/
theorem c03_trieGet_guard (root len nib r leaf : Int) (err : Bool) (v : Int) :
    GoFuncs.trieGet root len nib r leaf err v =
      if len > (Find.maxKeyLength : Int) then (0, "err", root)
      else if err = true then (0, "t_getWithPath_t_root_path_true_3_err", root) else (v, "ok", r) := by
  unfold GoFuncs.trieGet Find.maxKeyLength
  rfl

/-! ### stateroot.Module: what the entry points write -/

/-- C03.T5: `UpdateCurrentLocal` installs the new trie and stores BOTH the current local root and the local
height (model: `Roots.storeBlock` sets `mpt`, `currentLocal`, `localHeight`). -/
theorem c03_updateCurrentLocal (old new : Int) (srInHead : Bool) :
    (GoFuncs.moduleUpdateCurrentLocal old new srInHead).1 = new ∧
    ["s.currentLocal.Store", "s.localHeight.Store"] <+: (GoFuncs.moduleUpdateCurrentLocal old new srInHead).2 := by
  unfold GoFuncs.moduleUpdateCurrentLocal
  cases srInHead <;> simp

/-- C03.T6: `Init(height)` (restart): if the record of `height` is found, the current local root and the local
height are stored and the trie is re-opened from the record's root; if not, only height 0 is accepted and
only the current local root is reset (model: `Roots.init`). -/
theorem c03_init (height old v : Int) (vErr : Bool) (vh : Int) (nil1 : Bool) (e1 rec : Int) (recErr : Bool)
    (t3 : Int) (nil2 : Bool) (e2 t2 : Int) :
    let r := GoFuncs.moduleInit height old v vErr vh nil1 e1 rec recErr t3 nil2 e2 t2
    (recErr = false → r.1 = "ok" ∧ (r.2.1 = t3 ∨ r.2.1 = t2) ∧
        "s.currentLocal.Store" ∈ r.2.2 ∧ "s.localHeight.Store" ∈ r.2.2) ∧
    (recErr = true → height ≠ 0 → r.1 = "s_getStateRoot_makeStateRootKey_height_1_err") ∧
    (recErr = true → height = 0 → r.1 = "ok" ∧ "s.localHeight.Store" ∉ r.2.2) := by
  unfold GoFuncs.moduleInit
  cases vErr <;> cases nil1 <;> cases nil2 <;> cases recErr <;> simp <;> (try (split <;> simp_all))

/-- C03.T7: `JumpToState` stores the local record, the validated height, the current local root and height, and
re-opens the trie from `sr.Root`. -/
theorem c03_jumpToState (old d t : Int) :
    GoFuncs.moduleJumpToState old d t =
      (t, ["s.addLocalStateRoot", "binary.LittleEndian.PutUint32", "s.Store.Put", "s.validatedHeight.Store",
           "s.currentLocal.Store", "s.localHeight.Store"]) := rfl

end NeoModel.GoFuncsTie
