/-
Tie by translation (C19, dbft Context.F / M / GetPrimaryIndex and smartcontract honest-node counts): the definitions of NeoModel.Generated.GoFuncs are re-translated from /repo's Go source on
every check run (harness/cmd/extract/gofuncs.go); the theorems below prove, for all arguments, that the
translated function is the function the hand-written model uses (or has the property stated). A change of the Go
function changes the generated definition and these proofs stop checking.
-/
import NeoModel.Generated.GoFuncs
import NeoModel.Model.Dbft
namespace NeoModel.GoFuncsTie
open NeoModel NeoModel.Generated

theorem dbftF_eq (c : Dbft.Cfg) (h : 0 < c.n) : GoFuncs.dbftF (c.n : Int) = (c.f : Int) := by
  unfold GoFuncs.dbftF Dbft.Cfg.f
  rw [Int.tdiv_eq_ediv_of_nonneg (by omega)]
  omega

theorem dbftM_eq (c : Dbft.Cfg) (h : 0 < c.n) :
    GoFuncs.dbftM (c.n : Int) (GoFuncs.dbftF (c.n : Int)) = (c.m : Int) := by
  rw [dbftF_eq c h]
  unfold GoFuncs.dbftM Dbft.Cfg.m Dbft.Cfg.f
  omega

/-- the library's `GetPrimaryIndex` ((height − view) mod n made non-negative, Go's `%` truncates) is the model's
`primary` for every height, view and validator count. -/
theorem dbftPrimaryIndex_eq (c : Dbft.Cfg) (h v : Nat) (hn : 0 < c.n) (hn2 : c.n < 2 ^ 63) :
    GoFuncs.dbftPrimaryIndex (v : Int) (h : Int) (c.n : Int) = (c.primary h v : Int) := by
  unfold GoFuncs.dbftPrimaryIndex Dbft.Cfg.primary
  simp only []
  have key : ((h + (c.n - 1) * v : Nat) : Int) % (c.n : Int) = ((h : Int) - (v : Int)) % (c.n : Int) := by
    have : ((h + (c.n - 1) * v : Nat) : Int) = ((h : Int) - v) + (c.n : Int) * v := by
      have : ((c.n - 1 : Nat) : Int) = (c.n : Int) - 1 := by omega
      rw [Int.natCast_add, Int.natCast_mul, this, Int.sub_mul, Int.one_mul]; omega
    rw [this, Int.add_mul_emod_self_left]
  rw [Int.natCast_emod, key]
  have hpos : (0 : Int) < (c.n : Int) := by omega
  have hlt := Int.emod_lt_of_pos ((h : Int) - v) hpos
  have hge := Int.emod_nonneg ((h : Int) - v) (by omega : (c.n : Int) ≠ 0)
  rw [Int.tmod_eq_emod]
  split
  · simp only [Int.natCast_zero, Int.sub_zero]
    split <;> omega
  · simp only [Int.natAbs_natCast]
    split <;> omega

/-- neo-go's own m-of-n threshold for the validators' multisignature (`GetDefaultHonestNodeCount`, used for
NextConsensus and the block witness) is dBFT's commit quorum M. -/
theorem defaultHonestNodeCount_eq_M (c : Dbft.Cfg) (h : 0 < c.n) :
    GoFuncs.defaultHonestNodeCount (c.n : Int) = (c.m : Int) := by
  unfold GoFuncs.defaultHonestNodeCount Dbft.Cfg.m Dbft.Cfg.f
  rw [Int.tdiv_eq_ediv_of_nonneg (by omega)]
  omega

/-- two commit quorums intersect in more than f validators, for every n ≥ 1 (on the translated arithmetic). -/
theorem translated_quorums_intersect (n : Nat) (h : 0 < n) :
    2 * GoFuncs.dbftM (n : Int) (GoFuncs.dbftF (n : Int)) - (n : Int) > GoFuncs.dbftF (n : Int) := by
  unfold GoFuncs.dbftM GoFuncs.dbftF
  rw [Int.tdiv_eq_ediv_of_nonneg (by omega)]
  omega

/-- the committee's majority threshold is a strict majority and at most n. -/
theorem majorityHonestNodeCount_strict (n : Nat) (h : 0 < n) :
    (n : Int) < 2 * GoFuncs.majorityHonestNodeCount (n : Int) ∧ GoFuncs.majorityHonestNodeCount (n : Int) ≤ (n : Int) := by
  unfold GoFuncs.majorityHonestNodeCount
  rw [Int.tdiv_eq_ediv_of_nonneg (by omega)]
  omega

example : GoFuncs.dbftPrimaryIndex 3 1 7 = 5 ∧ GoFuncs.dbftM 7 (GoFuncs.dbftF 7) = 5 ∧ GoFuncs.defaultHonestNodeCount 4 = 3 := by decide

end NeoModel.GoFuncsTie
