/-
C12: theorems over the Go->Lean translation (Generated/GoFuncs.lean, regenerated from /repo on every run).
`vmCheckInvocationStackSize` is vm.go `checkInvocationStackSize` translated statement by statement; the
depth check of the accounting machine (Model/VmAcct/Machine.lean, `exec` cases `.call` / `.load`) and of
the specification machine's limit are the same function of the depth, for all depths.
-/
import NeoModel.Generated.GoFuncs
import NeoModel.Proofs.VmAcctDepth
import NeoModel.Model.VmAcct.GasMachine
namespace NeoModel.VmAcct
open NeoModel.Generated.GoFuncs

/-- the translated check panics exactly from MaxInvocationStackSize on -/
theorem checkInvocationStackSize_spec (n : Nat) :
    (vmCheckInvocationStackSize n = none ↔ maxInvocationStackSize ≤ n) ∧ (vmCheckInvocationStackSize n = some () ↔ n < maxInvocationStackSize) := by
  unfold vmCheckInvocationStackSize
  simp only [maxInvocationStackSize]
  constructor
  · constructor
    · intro h; split at h
      · omega
      · cases h
    · intro h; have : ((n : Int) ≥ 1024) := by omega
      simp [this]
  · constructor
    · intro h; split at h
      · cases h
      · omega
    · intro h; have : ¬ ((n : Int) ≥ 1024) := by omega
      simp [this]

/-- generated = model, CALL*: the accounting machine executes a call exactly when the translated
`checkInvocationStackSize` passes on the depth before the push (and the other operands are there) -/
theorem call_check_eq_generated (s : St) (pops : Nat) :
    (exec (.call pops) s).isSome = ((W.popN pops s.w).isSome && !s.frames.isEmpty && (vmCheckInvocationStackSize s.frames.length).isSome) := by
  simp only [exec]
  cases hp : W.popN pops s.w with
  | none => simp
  | some w =>
    have hl : (s.setW w).frames.length = s.frames.length := by simp
    have he : (s.setW w).frames.isEmpty = s.frames.isEmpty := by
      cases hf : s.frames <;> cases hg : (s.setW w).frames <;> simp_all
    simp only [Option.isSome_some, Bool.true_and, he, hl]
    by_cases h1 : s.frames.isEmpty = true
    · simp [h1]
    · by_cases h2 : s.frames.length ≥ maxInvocationStackSize
      · have := ((checkInvocationStackSize_spec s.frames.length).1).2 h2
        simp [h1, h2, this, ok]
      · have := ((checkInvocationStackSize_spec s.frames.length).2).2 (by omega)
        simp [h1, h2, this, ok]

/-- generated = model, script loading (loadScriptWithCallingHash calls the same check first) -/
theorem load_check_generated (s : St) (mode nargs : Nat) (r : Res) (h : exec (.load mode nargs) s = some r) :
    vmCheckInvocationStackSize s.frames.length = some () := by
  rw [(checkInvocationStackSize_spec _).2]
  simp only [exec] at h
  split at h
  · cases h
  · split at h
    · cases h
    · split at h
      · cases h
      · rename_i hc
        simp only [frames_setW_length, ge_iff_le, decide_eq_true_eq, Nat.not_le] at hc
        exact hc

end NeoModel.VmAcct

namespace NeoModel.VmAcct
open NeoModel.Generated.GoFuncs

/-- `v.gasLimit` as the Go integer: negative = unlimited -/
def limitInt : Option Nat → Int
  | some l => l
  | none => -1

/-- generated = model, a SYSCALL handler's charge: `addPicoGasInternal` (vm.go:262, translated from the
source on every run) for a context that is not whitelisted first performs the addition
(`v.gasConsumed.Add`, the only effect) and then reports ErrGASLimitExceeded exactly when the model's
`overLimit` holds for the NEW total — the leaf `GtUint64` read as `new total > limit` -/
theorem addPicoGas_eq_generated (limit : Option Nat) (gas burn : Nat) (ctx : Int) (ctxNil : Bool) (l0 : Int) (g0 : Bool) :
    vmAddPicoGasInternal ctx ctxNil false (limitInt limit) (decide ((gas + burn : Nat) > (limitInt limit).toNat)) l0 g0 =
      (if overLimit limit (gas + burn) then "ErrGASLimitExceeded" else "ok", ["v.gasConsumed.Add"]) := by
  unfold vmAddPicoGasInternal
  cases limit with
  | none => simp [limitInt, overLimit]
  | some l =>
    have h0 : ¬ ((l : Int) < 0) := by omega
    by_cases h : gas + burn > l
    · simp [limitInt, overLimit, h, h0]
    · simp [limitInt, overLimit, h, h0]

/-- … and a whitelisted context is not charged (no effect), the comparison uses the old total -/
theorem addPicoGas_whitelisted (ctx : Int) (l1 : Int) (g1 : Bool) (l0 : Int) (g0 : Bool) :
    (vmAddPicoGasInternal ctx false true l1 g1 l0 g0).2 = [] := by
  unfold vmAddPicoGasInternal
  simp
  split <;> rfl

end NeoModel.VmAcct
