/-
C18: theorems about the Go functions translated into Generated/GoFuncs.lean on every run
(harness/cmd/extract/gofuncs_c18.go): each translated definition equals the corresponding function of the
hand-written Codec model for all arguments, so a change of the Go function breaks the proof.
-/
import NeoModel.Generated.GoFuncs
import NeoModel.Model.Codec.KeysMisc
import NeoModel.Proofs.CodecPubKey
import NeoModel.Proofs.CodecNep2
import NeoModel.Proofs.CodecMsSort
import NeoModel.Proofs.CodecScript
namespace NeoModel.Codec
open NeoModel.Generated

/-- `big.Int.Cmp` on magnitudes. -/
def natCmp (a b : Nat) : Int := if a < b then -1 else if b < a then 1 else 0

def ordInt : Ordering → Int
  | .lt => -1 | .eq => 0 | .gt => 1

/-- the translated `(*PublicKey).Cmp` is the model's `pkCmp` (its leaves being the two `IsInfinity()`
answers and the two `big.Int.Cmp` results). -/
theorem go_publicKeyCmp_eq (a b : PubKey) (cx cy : Int)
    (hx : ∀ x1 y1 x2 y2, a = some (x1, y1) → b = some (x2, y2) → cx = natCmp x1 x2 ∧ cy = natCmp y1 y2) :
    GoFuncs.publicKeyCmp a.isNone b.isNone cx cy = ordInt (pkCmp a b) := by
  rcases a with _ | ⟨x1, y1⟩ <;> rcases b with _ | ⟨x2, y2⟩ <;>
    simp [GoFuncs.publicKeyCmp, pkCmp, ordInt]
  obtain ⟨rfl, rfl⟩ := hx x1 y1 x2 y2 rfl rfl
  unfold natCmp
  by_cases h1 : x1 < x2
  · simp [h1]
  · by_cases h2 : x2 < x1
    · simp [h1, h2]
    · by_cases h3 : y1 < y2
      · simp [h1, h2, h3]
      · by_cases h4 : y2 < y1 <;> simp [h1, h2, h3, h4]

/-- the translated `sizeSerialized` is the length of what `Bytes()` / `UncompressedBytes()` return in the model. -/
theorem go_sizeSerialized_eq (k : PubKey) (compressed : Bool) :
    GoFuncs.publicKeySizeSerialized compressed k.isNone
      = (((if compressed then pkBytes k else pkBytesU k).length : Nat) : Int) := by
  rcases k with _ | ⟨x, y⟩ <;> cases compressed <;>
    simp [GoFuncs.publicKeySizeSerialized, pkBytes, pkBytesU, beBytes_length]

theorem go_isInfinity_eq (xnil ynil : Bool) : GoFuncs.publicKeyIsInfinity xnil ynil = (xnil && ynil) := by
  cases xnil <;> cases ynil <;> simp [GoFuncs.publicKeyIsInfinity]

/-- the translated `Verify` is `verifyLayout`: false unless the signature has exactly 64 bytes, and then
`ecdsa.Verify` on `(SetBytes(sig[0:32]), SetBytes(sig[32:64]))`. -/
theorem go_publicKeyVerify_eq (k : PubKey) (sig : Bytes) (ecdsa : Nat → Nat → Bool) :
    GoFuncs.publicKeyVerify k.isNone k.isNone (sig.length : Int)
        (beVal (sig.take 32) : Int) (beVal ((sig.drop 32).take 32) : Int)
        (ecdsa (beVal (sig.take 32)) (beVal ((sig.drop 32).take 32)))
      = verifyLayout k sig ecdsa := by
  rcases k with _ | ⟨x, y⟩
  · simp [GoFuncs.publicKeyVerify, verifyLayout]
  · by_cases hl : sig.length = 64
    · have ht : (sig.drop 32).take 32 = sig.drop 32 := by
        apply List.take_of_length_le; rw [List.length_drop]; omega
      simp [GoFuncs.publicKeyVerify, verifyLayout, sigSplit, hl, ht]
    · have : ¬ ((sig.length : Int) = 64) := by omega
      simp [GoFuncs.publicKeyVerify, verifyLayout, sigSplit, hl, this]

/-- the header test of `NEP2Decrypt`, as the model performs it. -/
def fmtOk (l : Nat) (x0 x1 x2 : UInt8) : Bool :=
  !(l != 39) && !(x0 != 0x01) && !(x1 != 0x42) && !(x2 != 0xe0)

def nep2FormatOk (b : Bytes) : Bool := fmtOk b.length (b.getD 0 0) (b.getD 1 0) (b.getD 2 0)

theorem u8_int_eq (x : UInt8) (n : Nat) (hn : n < 256) : ((x.toNat : Int) = (n : Int)) ↔ x = UInt8.ofNat n := by
  constructor
  · intro h
    apply UInt8.toNat_inj.mp
    have : x.toNat = n := by omega
    rw [this]; simp [UInt8.toNat_ofNat']; omega
  · intro h; subst h; simp [UInt8.toNat_ofNat']; omega

theorem go_validateNEP2Format_aux (l : Nat) (x0 x1 x2 : UInt8) :
    (GoFuncs.validateNEP2Format (l : Int) (x0.toNat : Int) (x1.toNat : Int) (x2.toNat : Int) = "ok") ↔
      (l = 39 ∧ x0 = 0x01 ∧ x1 = 0x42 ∧ x2 = 0xe0) := by
  have e0 : ((x0.toNat : Int) = 1) ↔ x0 = 0x01 := u8_int_eq x0 1 (by omega)
  have e1 : ((x1.toNat : Int) = 66) ↔ x1 = 0x42 := u8_int_eq x1 66 (by omega)
  have e2 : ((x2.toNat : Int) = 224) ↔ x2 = 0xe0 := u8_int_eq x2 224 (by omega)
  unfold GoFuncs.validateNEP2Format
  by_cases h39 : l = 39
  · have h39' : ((l : Int) = 39) := by omega
    by_cases h0 : x0 = 0x01
    · have h0' := e0.mpr h0
      by_cases h1 : x1 = 0x42
      · have h1' := e1.mpr h1
        by_cases h2 : x2 = 0xe0
        · have h2' := e2.mpr h2
          simp only [h39', h0', h1', h2', ne_eq, not_true_eq_false, if_false]
          simp [h39, h0, h1, h2]
        · have h2' : ¬ ((x2.toNat : Int) = 224) := fun hh => h2 (e2.mp hh)
          simp only [h39', h0', h1', ne_eq, not_true_eq_false, if_false, h2', not_false_eq_true, if_true]
          simp [h2]
      · have h1' : ¬ ((x1.toNat : Int) = 66) := fun hh => h1 (e1.mp hh)
        simp only [h39', h0', ne_eq, not_true_eq_false, if_false, h1', not_false_eq_true, if_true]
        simp [h1]
    · have h0' : ¬ ((x0.toNat : Int) = 1) := fun hh => h0 (e0.mp hh)
      simp only [h39', ne_eq, not_true_eq_false, if_false, h0', not_false_eq_true, if_true]
      simp [h0]
  · have h39' : ¬ ((l : Int) = 39) := by omega
    simp only [ne_eq, h39', not_false_eq_true, if_true]
    simp [h39]

/-- the translated `validateNEP2Format` accepts exactly when the model's header test does. -/
theorem go_validateNEP2Format_eq (b : Bytes) :
    (GoFuncs.validateNEP2Format (b.length : Int) ((b.getD 0 0).toNat : Int) ((b.getD 1 0).toNat : Int)
        ((b.getD 2 0).toNat : Int) = "ok") ↔ nep2FormatOk b = true := by
  rw [go_validateNEP2Format_aux]
  unfold nep2FormatOk
  generalize b.getD 0 0 = x0
  generalize b.getD 1 0 = x1
  generalize b.getD 2 0 = x2
  generalize b.length = l
  simp [fmtOk, and_assoc]

/-- … and `NEP2Decrypt` fails whenever that test fails. -/
theorem nep2Decrypt_format (Q : Nep2Prims) (H : Bytes → Bytes) (s pass b : Bytes) (hd : checkDecode H s = some b)
    (hf : nep2FormatOk b = false) : nep2Decrypt Q H s pass = none := by
  unfold nep2Decrypt
  rw [hd]
  simp only
  unfold nep2FormatOk fmtOk at hf
  generalize b.getD 0 0 = x0 at hf ⊢
  generalize b.getD 1 0 = x1 at hf ⊢
  generalize b.getD 2 0 = x2 at hf ⊢
  generalize hl : b.length = l at hf ⊢
  cases c39 : (l != 39)
  · cases c0 : (x0 != 0x01)
    · cases c1 : (x1 != 0x42)
      · cases c2 : (x2 != 0xe0)
        · simp [c39, c0, c1, c2] at hf
        · simp
      · simp
    · simp
  · simp

/-- `big.Int.TrailingZeroBits` of a magnitude (0 for 0), with fuel. -/
def tzBits : Nat → Nat → Nat
  | 0, _ => 0
  | f + 1, n => if n % 2 = 1 ∨ n = 0 then 0 else 1 + tzBits f (n / 2)

theorem tzBits_ge_iff : ∀ (f k n : Nat), k ≤ f → 0 < n → (k ≤ tzBits f n ↔ n % 2 ^ k = 0) := by
  intro f
  induction f with
  | zero => intro k n hk _; have : k = 0 := by omega
            subst this; simp [tzBits, Nat.mod_one]
  | succ f ih =>
    intro k n hk hn
    unfold tzBits
    by_cases hodd : n % 2 = 1 ∨ n = 0
    · have hodd' : n % 2 = 1 := by omega
      simp only [hodd, if_true]
      cases k with
      | zero => simp [Nat.mod_one]
      | succ k' =>
        constructor
        · intro h; omega
        · intro h
          have : n % (2 * 2 ^ k') % 2 = n % 2 := Nat.mod_mul_right_mod n 2 (2 ^ k')
          rw [Nat.pow_succ, Nat.mul_comm] at h
          rw [h] at this
          omega
    · simp only [hodd, if_false]
      have heven : n % 2 = 0 := by omega
      cases k with
      | zero => simp [Nat.mod_one]
      | succ k' =>
        have hq : 0 < n / 2 := by omega
        have := ih k' (n / 2) (by omega) hq
        have e : n % 2 ^ (k' + 1) = 2 * ((n / 2) % 2 ^ k') := by
          have hn2 : n = 2 * (n / 2) := by omega
          conv => lhs; rw [hn2, Nat.pow_succ, Nat.mul_comm (2 ^ k') 2, Nat.mul_mod_mul_left]
        rw [e]
        constructor
        · intro h; have := this.mp (by omega); omega
        · intro h; have := this.mpr (by omega); omega

/-- the translated `stackitem.CheckIntegerSize` (leaves: `BitLen()`, `Sign()`, `TrailingZeroBits()`)
accepts exactly when the model's `checkIntegerSize` does. -/
theorem go_checkIntegerSize_eq (v : Int) :
    (GoFuncs.stackitemCheckIntegerSize (bitLen v.natAbs : Int) v.sign (tzBits 256 v.natAbs : Int) = "ok")
      ↔ checkIntegerSize v = true := by
  unfold GoFuncs.stackitemCheckIntegerSize checkIntegerSize
  simp only
  by_cases h1 : bitLen v.natAbs < 256
  · have : ((bitLen v.natAbs : Int) < 256) := by omega
    simp [h1, this]
  · have h1' : ¬ ((bitLen v.natAbs : Int) < 256) := by omega
    by_cases h2 : 256 < bitLen v.natAbs
    · have : ((bitLen v.natAbs : Int) > 256) := by omega
      simp [h1, h1', h2, this]
    · have h2' : ¬ ((bitLen v.natAbs : Int) > 256) := by omega
      have hb : bitLen v.natAbs = 256 := by omega
      have hlt : v.natAbs < 2 ^ 256 := (bitLen_le_iff _ 256).mp (by omega)
      have hge : ¬ (v.natAbs < 2 ^ 255) := fun h => by have := (bitLen_le_iff _ 255).mpr h; omega
      have hpos : 0 < v.natAbs := by
        have : (0:Nat) < 2 ^ 255 := Nat.pow_pos (by omega)
        omega
      have htz : (tzBits 256 v.natAbs = 255) ↔ v.natAbs % 2 ^ 255 = 0 := by
        have a := tzBits_ge_iff 256 255 v.natAbs (by omega) hpos
        have b := tzBits_ge_iff 256 256 v.natAbs (by omega) hpos
        have hn : v.natAbs % 2 ^ 256 ≠ 0 := by rw [Nat.mod_eq_of_lt hlt]; omega
        constructor
        · intro h; exact a.mp (by omega)
        · intro h
          have h255 := a.mpr h
          have h256 : ¬ (256 ≤ tzBits 256 v.natAbs) := fun hh => hn (b.mp hh)
          omega
      have hsign : (v.sign = 1) ↔ 0 < v := by
        constructor
        · intro h; exact Int.sign_eq_one_iff_pos.mp h
        · intro h; exact Int.sign_eq_one_iff_pos.mpr h
      simp only [h1, h1', h2, h2', if_false]
      by_cases hp : 0 < v
      · simp [hp, hsign.mpr hp]
      · have hs : ¬ (v.sign = 1) := fun h => hp (hsign.mp h)
        by_cases hz : v.natAbs % 2 ^ 255 = 0
        · have : tzBits 256 v.natAbs = 255 := htz.mpr hz
          simp [hp, hs, hz, this]
        · have : ¬ (tzBits 256 v.natAbs = 255) := fun h => hz (htz.mp h)
          have this' : ¬ ((tzBits 256 v.natAbs : Int) = 255) := by omega
          simp [hp, hs, hz, this']

theorem go_honestNodeCount_eq (n : Nat) :
    GoFuncs.defaultHonestNodeCount (n : Int) = defaultHonest n ∧ GoFuncs.majorityHonestNodeCount (n : Int) = majorityHonest n :=
  ⟨rfl, rfl⟩

end NeoModel.Codec
