/-
C18: theorems about the Go functions translated into Generated/GoFuncs.lean on every run
(harness/cmd/extract/gofuncs_c18.go): each translated definition equals the corresponding function of the
hand-written Codec model for all arguments, so a change of the Go function breaks the proof.
-/
import NeoModel.Generated.GoFuncs
import NeoModel.Model.Codec.KeysMisc
import NeoModel.Proofs.CodecPubKey
import NeoModel.Proofs.CodecNep2
import NeoModel.Proofs.CodecMsSort
import NeoModel.Proofs.CodecScript
import NeoModel.Proofs.CodecMsCanon
import NeoModel.Proofs.CodecMsDecode
import NeoModel.Proofs.CodecKeysMisc
import NeoModel.Proofs.CodecFixedInv
import NeoModel.Proofs.CodecUint
namespace NeoModel.Codec
open NeoModel.Generated

/-- `big.Int.Cmp` on magnitudes. -/
def natCmp (a b : Nat) : Int := if a < b then -1 else if b < a then 1 else 0

def ordInt : Ordering → Int
  | .lt => -1 | .eq => 0 | .gt => 1

/-- the translated `(*PublicKey).Cmp` is the model's `pkCmp` (its leaves being the two `IsInfinity()`
answers and the two `big.Int.Cmp` results). -/
theorem go_publicKeyCmp_eq (a b : PubKey) (cx cy : Int)
    (hx : ∀ x1 y1 x2 y2, a = some (x1, y1) → b = some (x2, y2) → cx = natCmp x1 x2 ∧ cy = natCmp y1 y2) :
    GoFuncs.publicKeyCmp a.isNone b.isNone cx cy = ordInt (pkCmp a b) := by
  rcases a with _ | ⟨x1, y1⟩ <;> rcases b with _ | ⟨x2, y2⟩ <;>
    simp [GoFuncs.publicKeyCmp, pkCmp, ordInt]
  obtain ⟨rfl, rfl⟩ := hx x1 y1 x2 y2 rfl rfl
  unfold natCmp
  by_cases h1 : x1 < x2
  · simp [h1]
  · by_cases h2 : x2 < x1
    · simp [h1, h2]
    · by_cases h3 : y1 < y2
      · simp [h1, h2, h3]
      · by_cases h4 : y2 < y1 <;> simp [h1, h2, h3, h4]

/-- the translated `sizeSerialized` is the length of what `Bytes()` / `UncompressedBytes()` return in the model. -/
theorem go_sizeSerialized_eq (k : PubKey) (compressed : Bool) :
    GoFuncs.publicKeySizeSerialized compressed k.isNone
      = (((if compressed then pkBytes k else pkBytesU k).length : Nat) : Int) := by
  rcases k with _ | ⟨x, y⟩ <;> cases compressed <;>
    simp [GoFuncs.publicKeySizeSerialized, pkBytes, pkBytesU, beBytes_length]

theorem go_isInfinity_eq (xnil ynil : Bool) : GoFuncs.publicKeyIsInfinity xnil ynil = (xnil && ynil) := by
  cases xnil <;> cases ynil <;> simp [GoFuncs.publicKeyIsInfinity]

/-- the translated `Verify` is `verifyLayout`: false unless the signature has exactly 64 bytes, and then
`ecdsa.Verify` on `(SetBytes(sig[0:32]), SetBytes(sig[32:64]))`. -/
theorem go_publicKeyVerify_eq (k : PubKey) (sig : Bytes) (ecdsa : Nat → Nat → Bool) :
    GoFuncs.publicKeyVerify k.isNone k.isNone (sig.length : Int)
        (beVal (sig.take 32) : Int) (beVal ((sig.drop 32).take 32) : Int)
        (ecdsa (beVal (sig.take 32)) (beVal ((sig.drop 32).take 32)))
      = verifyLayout k sig ecdsa := by
  rcases k with _ | ⟨x, y⟩
  · simp [GoFuncs.publicKeyVerify, verifyLayout]
  · by_cases hl : sig.length = 64
    · have ht : (sig.drop 32).take 32 = sig.drop 32 := by
        apply List.take_of_length_le; rw [List.length_drop]; omega
      simp [GoFuncs.publicKeyVerify, verifyLayout, sigSplit, hl, ht]
    · have : ¬ ((sig.length : Int) = 64) := by omega
      simp [GoFuncs.publicKeyVerify, verifyLayout, sigSplit, hl, this]

/-- the header test of `NEP2Decrypt`, as the model performs it. -/
def fmtOk (l : Nat) (x0 x1 x2 : UInt8) : Bool :=
  !(l != 39) && !(x0 != 0x01) && !(x1 != 0x42) && !(x2 != 0xe0)

def nep2FormatOk (b : Bytes) : Bool := fmtOk b.length (b.getD 0 0) (b.getD 1 0) (b.getD 2 0)

theorem u8_int_eq (x : UInt8) (n : Nat) (hn : n < 256) : ((x.toNat : Int) = (n : Int)) ↔ x = UInt8.ofNat n := by
  constructor
  · intro h
    apply UInt8.toNat_inj.mp
    have : x.toNat = n := by omega
    rw [this]; simp [UInt8.toNat_ofNat']; omega
  · intro h; subst h; simp [UInt8.toNat_ofNat']; omega

theorem go_validateNEP2Format_aux (l : Nat) (x0 x1 x2 : UInt8) :
    (GoFuncs.validateNEP2Format (l : Int) (x0.toNat : Int) (x1.toNat : Int) (x2.toNat : Int) = "ok") ↔
      (l = 39 ∧ x0 = 0x01 ∧ x1 = 0x42 ∧ x2 = 0xe0) := by
  have e0 : ((x0.toNat : Int) = 1) ↔ x0 = 0x01 := u8_int_eq x0 1 (by omega)
  have e1 : ((x1.toNat : Int) = 66) ↔ x1 = 0x42 := u8_int_eq x1 66 (by omega)
  have e2 : ((x2.toNat : Int) = 224) ↔ x2 = 0xe0 := u8_int_eq x2 224 (by omega)
  unfold GoFuncs.validateNEP2Format
  by_cases h39 : l = 39
  · have h39' : ((l : Int) = 39) := by omega
    by_cases h0 : x0 = 0x01
    · have h0' := e0.mpr h0
      by_cases h1 : x1 = 0x42
      · have h1' := e1.mpr h1
        by_cases h2 : x2 = 0xe0
        · have h2' := e2.mpr h2
          simp only [h39', h0', h1', h2', ne_eq, not_true_eq_false, if_false]
          simp [h39, h0, h1, h2]
        · have h2' : ¬ ((x2.toNat : Int) = 224) := fun hh => h2 (e2.mp hh)
          simp only [h39', h0', h1', ne_eq, not_true_eq_false, if_false, h2', not_false_eq_true, if_true]
          simp [h2]
      · have h1' : ¬ ((x1.toNat : Int) = 66) := fun hh => h1 (e1.mp hh)
        simp only [h39', h0', ne_eq, not_true_eq_false, if_false, h1', not_false_eq_true, if_true]
        simp [h1]
    · have h0' : ¬ ((x0.toNat : Int) = 1) := fun hh => h0 (e0.mp hh)
      simp only [h39', ne_eq, not_true_eq_false, if_false, h0', not_false_eq_true, if_true]
      simp [h0]
  · have h39' : ¬ ((l : Int) = 39) := by omega
    simp only [ne_eq, h39', not_false_eq_true, if_true]
    simp [h39]

/-- the translated `validateNEP2Format` accepts exactly when the model's header test does. -/
theorem go_validateNEP2Format_eq (b : Bytes) :
    (GoFuncs.validateNEP2Format (b.length : Int) ((b.getD 0 0).toNat : Int) ((b.getD 1 0).toNat : Int)
        ((b.getD 2 0).toNat : Int) = "ok") ↔ nep2FormatOk b = true := by
  rw [go_validateNEP2Format_aux]
  unfold nep2FormatOk
  generalize b.getD 0 0 = x0
  generalize b.getD 1 0 = x1
  generalize b.getD 2 0 = x2
  generalize b.length = l
  simp [fmtOk, and_assoc]

/-- … and `NEP2Decrypt` fails whenever that test fails. -/
theorem nep2Decrypt_format (Q : Nep2Prims) (H : Bytes → Bytes) (s pass b : Bytes) (hd : checkDecode H s = some b)
    (hf : nep2FormatOk b = false) : nep2Decrypt Q H s pass = none := by
  unfold nep2Decrypt
  rw [hd]
  simp only
  unfold nep2FormatOk fmtOk at hf
  generalize b.getD 0 0 = x0 at hf ⊢
  generalize b.getD 1 0 = x1 at hf ⊢
  generalize b.getD 2 0 = x2 at hf ⊢
  generalize hl : b.length = l at hf ⊢
  cases c39 : (l != 39)
  · cases c0 : (x0 != 0x01)
    · cases c1 : (x1 != 0x42)
      · cases c2 : (x2 != 0xe0)
        · simp [c39, c0, c1, c2] at hf
        · simp
      · simp
    · simp
  · simp

/-- `big.Int.TrailingZeroBits` of a magnitude (0 for 0), with fuel. -/
def tzBits : Nat → Nat → Nat
  | 0, _ => 0
  | f + 1, n => if n % 2 = 1 ∨ n = 0 then 0 else 1 + tzBits f (n / 2)

theorem tzBits_ge_iff : ∀ (f k n : Nat), k ≤ f → 0 < n → (k ≤ tzBits f n ↔ n % 2 ^ k = 0) := by
  intro f
  induction f with
  | zero => intro k n hk _; have : k = 0 := by omega
            subst this; simp [tzBits, Nat.mod_one]
  | succ f ih =>
    intro k n hk hn
    unfold tzBits
    by_cases hodd : n % 2 = 1 ∨ n = 0
    · have hodd' : n % 2 = 1 := by omega
      simp only [hodd, if_true]
      cases k with
      | zero => simp [Nat.mod_one]
      | succ k' =>
        constructor
        · intro h; omega
        · intro h
          have : n % (2 * 2 ^ k') % 2 = n % 2 := Nat.mod_mul_right_mod n 2 (2 ^ k')
          rw [Nat.pow_succ, Nat.mul_comm] at h
          rw [h] at this
          omega
    · simp only [hodd, if_false]
      have heven : n % 2 = 0 := by omega
      cases k with
      | zero => simp [Nat.mod_one]
      | succ k' =>
        have hq : 0 < n / 2 := by omega
        have := ih k' (n / 2) (by omega) hq
        have e : n % 2 ^ (k' + 1) = 2 * ((n / 2) % 2 ^ k') := by
          have hn2 : n = 2 * (n / 2) := by omega
          conv => lhs; rw [hn2, Nat.pow_succ, Nat.mul_comm (2 ^ k') 2, Nat.mul_mod_mul_left]
        rw [e]
        constructor
        · intro h; have := this.mp (by omega); omega
        · intro h; have := this.mpr (by omega); omega

/-- the translated `stackitem.CheckIntegerSize` (leaves: `BitLen()`, `Sign()`, `TrailingZeroBits()`)
accepts exactly when the model's `checkIntegerSize` does. -/
theorem go_checkIntegerSize_eq (v : Int) :
    (GoFuncs.stackitemCheckIntegerSize (bitLen v.natAbs : Int) v.sign (tzBits 256 v.natAbs : Int) = "ok")
      ↔ checkIntegerSize v = true := by
  unfold GoFuncs.stackitemCheckIntegerSize checkIntegerSize
  simp only
  by_cases h1 : bitLen v.natAbs < 256
  · have : ((bitLen v.natAbs : Int) < 256) := by omega
    simp [h1, this]
  · have h1' : ¬ ((bitLen v.natAbs : Int) < 256) := by omega
    by_cases h2 : 256 < bitLen v.natAbs
    · have : ((bitLen v.natAbs : Int) > 256) := by omega
      simp [h1, h1', h2, this]
    · have h2' : ¬ ((bitLen v.natAbs : Int) > 256) := by omega
      have hb : bitLen v.natAbs = 256 := by omega
      have hlt : v.natAbs < 2 ^ 256 := (bitLen_le_iff _ 256).mp (by omega)
      have hge : ¬ (v.natAbs < 2 ^ 255) := fun h => by have := (bitLen_le_iff _ 255).mpr h; omega
      have hpos : 0 < v.natAbs := by
        have : (0:Nat) < 2 ^ 255 := Nat.pow_pos (by omega)
        omega
      have htz : (tzBits 256 v.natAbs = 255) ↔ v.natAbs % 2 ^ 255 = 0 := by
        have a := tzBits_ge_iff 256 255 v.natAbs (by omega) hpos
        have b := tzBits_ge_iff 256 256 v.natAbs (by omega) hpos
        have hn : v.natAbs % 2 ^ 256 ≠ 0 := by rw [Nat.mod_eq_of_lt hlt]; omega
        constructor
        · intro h; exact a.mp (by omega)
        · intro h
          have h255 := a.mpr h
          have h256 : ¬ (256 ≤ tzBits 256 v.natAbs) := fun hh => hn (b.mp hh)
          omega
      have hsign : (v.sign = 1) ↔ 0 < v := by
        constructor
        · intro h; exact Int.sign_eq_one_iff_pos.mp h
        · intro h; exact Int.sign_eq_one_iff_pos.mpr h
      simp only [h1, h1', h2, h2', if_false]
      by_cases hp : 0 < v
      · simp [hp, hsign.mpr hp]
      · have hs : ¬ (v.sign = 1) := fun h => hp (hsign.mp h)
        by_cases hz : v.natAbs % 2 ^ 255 = 0
        · have : tzBits 256 v.natAbs = 255 := htz.mpr hz
          simp [hp, hs, hz, this]
        · have : ¬ (tzBits 256 v.natAbs = 255) := fun h => hz (htz.mp h)
          have this' : ¬ ((tzBits 256 v.natAbs : Int) = 255) := by omega
          simp [hp, hs, hz, this']

theorem go_honestNodeCount_eq (n : Nat) :
    GoFuncs.defaultHonestNodeCount (n : Int) = defaultHonest n ∧ GoFuncs.majorityHonestNodeCount (n : Int) = majorityHonest n :=
  ⟨rfl, rfl⟩


/-! ### third round: functions with several results (translator v2) -/

/-- the translated `getNumOfThingsFromInstr` (leaves: the two results of `GetInt64FromInstr`) is the
model's `getNumOfThings`: error first, then the range 1..1024. -/
theorem go_getNumOfThings_eq (op : UInt8) (param : Bytes) (instr : Int) :
    GoFuncs.getNumOfThingsFromInstr instr ((getInt64FromInstr op param).getD 0) (getInt64FromInstr op param).isNone
      = match getNumOfThings op param with
        | some n => ((n : Int), true)
        | none => (0, false) := by
  unfold GoFuncs.getNumOfThingsFromInstr getNumOfThings
  cases h : getInt64FromInstr op param with
  | none => simp
  | some n =>
    simp only [Option.getD_some, Option.isNone_some, Bool.false_eq_true, if_false]
    by_cases c : n < 1 ∨ 1024 < n
    · have c' : n < 1 ∨ n > 1024 := by omega
      simp [c, c']
    · have c' : ¬ (n < 1 ∨ n > 1024) := by omega
      simp only [c, c', if_false]
      congr 1
      omega

/-- the translated `GetBigIntFromInstr` chooses its branch exactly as the model's `getBigIntFromInstr`. -/
theorem go_getBigIntFromInstr_eq (op : UInt8) (param : Bytes) :
    GoFuncs.getBigIntFromInstr (op.toNat : Int) ((op.toNat : Int) - 16) (fromBytes param)
      = match getBigIntFromInstr op param with
        | some v => (v, "ok")
        | none => (0, "err") := by
  unfold GoFuncs.getBigIntFromInstr getBigIntFromInstr
  have h15 : opPUSHM1.toNat = 15 := rfl
  have h32 : opPUSH16.toNat = 32 := rfl
  have h5 : opPUSHINT256.toNat = 5 := rfl
  simp only [h15, h32, h5]
  by_cases c1 : 15 ≤ op.toNat ∧ op.toNat ≤ 32
  · have c1' : (15 : Int) ≤ (op.toNat : Int) ∧ (op.toNat : Int) ≤ 32 := by omega
    simp [c1, c1']
  · have c1' : ¬ ((15 : Int) ≤ (op.toNat : Int) ∧ (op.toNat : Int) ≤ 32) := by omega
    by_cases c2 : op.toNat ≤ 5
    · have c2' : (op.toNat : Int) ≤ 5 := by omega
      simp [c1, c1', c2, c2']
    · have c2' : ¬ ((op.toNat : Int) ≤ 5) := by omega
      simp [c1, c1', c2, c2']

/-- the translated `smallInt` writes an opcode exactly when the model's `smallInt` does (−1 and 0..15). -/
theorem go_smallInt_eq (i : Int) :
    (GoFuncs.emitSmallInt i).1 = (smallInt i).isSome ∧
    ((GoFuncs.emitSmallInt i).2 = if (smallInt i).isSome then ["Opcodes"] else []) := by
  unfold GoFuncs.emitSmallInt smallInt
  by_cases c1 : i = -1
  · simp [c1]
  · by_cases c2 : 0 ≤ i ∧ i < 16
    · have c2' : i ≥ 0 ∧ i < 16 := by omega
      simp [c1, c2, c2']
    · have c2' : ¬ (i ≥ 0 ∧ i < 16) := by omega
      simp [c1, c2, c2']

/-- the translated `emit.Bytes` takes the PUSHDATA1 / PUSHDATA2 / PUSHDATA4 branch exactly where the
model's `emitBytes` does (length below 256, below 65536, otherwise). -/
theorem go_emitBytes_eq (b : Bytes) (m2 m4 : Int) :
    GoFuncs.emitBytes (b.length : Int) m2 m4 =
      (if b.length < 0x100 then ["Instruction", "w.WriteBytes"]
       else if b.length < 0x10000 then ["binary.LittleEndian.PutUint16", "Instruction", "w.WriteBytes"]
       else ["binary.LittleEndian.PutUint32", "Instruction", "w.WriteBytes"]) ∧
    (emitBytes b).head? = some (if b.length < 0x100 then opPUSHDATA1 else if b.length < 0x10000 then opPUSHDATA2 else opPUSHDATA4) := by
  unfold GoFuncs.emitBytes emitBytes
  by_cases c1 : b.length < 0x100
  · have : ((b.length : Int) < 256) := by omega
    simp [c1, this]
  · have c1' : ¬ ((b.length : Int) < 256) := by omega
    by_cases c2 : b.length < 0x10000
    · have : ((b.length : Int) < 65536) := by omega
      simp [c1, c1', c2, this]
    · have : ¬ ((b.length : Int) < 65536) := by omega
      simp [c1, c1', c2, this]

/-- the translated `DecodeBytes`: an error of `DecodeBinary` first, then "extra data". -/
theorem go_decodeBytes_eq (rdr : Int) (err : Bool) (left : Nat) :
    (GoFuncs.publicKeyDecodeBytes rdr err (left : Int)).1 = (if err || left != 0 then "err" else "ok") := by
  unfold GoFuncs.publicKeyDecodeBytes
  cases err
  · by_cases h : left = 0
    · subst h; simp
    · have : ¬ ((left : Int) = 0) := by omega
      simp [h, this]
  · simp

/-- the translated `NewPublicKeyFromBytes`: the cached key is returned only if it was decoded for the
requested curve; otherwise the bytes are decoded for that curve and (on success only) cached. -/
theorem go_newPublicKeyFromBytes_eq (cachedCurve cached : Int) (hit : Bool) (curve fresh : Int) (decErr : Bool) :
    GoFuncs.newPublicKeyFromBytes cachedCurve cached hit curve fresh decErr =
      if hit = true ∧ cachedCurve = curve then (cached, "ok", cachedCurve, [])
      else if decErr = true then (0, "pubKey_DecodeBytes_b_err", curve, [])
      else (fresh, "ok", curve, ["keycache.Add"]) := by
  unfold GoFuncs.newPublicKeyFromBytes
  by_cases c1 : hit = true ∧ cachedCurve = curve
  · simp [c1]
  · simp only [c1, if_false]
    cases decErr <;> simp

/-- the translated `NewPrivateKeyFromBytes` fails exactly when the model's `privFromBytes` does. -/
theorem go_newPrivateKeyFromBytes_eq (b : Bytes) (c d x y k : Int) :
    (GoFuncs.newPrivateKeyFromBytes (b.length : Int) c d x y k).2 = (if (privFromBytes b).isSome then "ok" else "err") := by
  unfold GoFuncs.newPrivateKeyFromBytes privFromBytes
  by_cases h : b.length = 32
  · simp [h]
  · have : ¬ ((b.length : Int) = 32) := by omega
    simp [h, this]

theorem go_uint160DecodeBytesBE_eq (b : Bytes) (u v : Int) :
    (GoFuncs.uint160DecodeBytesBE (b.length : Int) u v).2 = (if (uDecodeBytesBE 20 b).isSome then "ok" else "err") := by
  unfold GoFuncs.uint160DecodeBytesBE uDecodeBytesBE
  by_cases h : b.length = 20
  · simp [h]
  · have : ¬ ((b.length : Int) = 20) := by omega
    simp [h, this]

/-- the translated `fixedn.FromString` succeeds exactly when the model's `decFromString` does: the
check order (integer part, one part only, fraction length against the precision, fraction text) with
the leaves taken from the model's own pieces. -/
theorem go_fromString_eq (s p0 : Bytes) (p1? : Option Bytes) (hsp : splitDot s = (p0, p1?)) (p : Nat)
    (parts bi fp sub add : Int) :
    (GoFuncs.fixednFromString (p : Int) parts bi (parseInt10 p0).isSome (if p1?.isSome then 2 else 1)
        (((p1?.getD []).length : Nat) : Int) fp (parseInt10 (p1?.getD [])).isSome (p0.head? == some chMinus) sub add).2.1
      = (if (decFromString s p).isSome then "ok" else "ErrInvalidFormat") := by
  unfold GoFuncs.fixednFromString decFromString
  rw [hsp]
  simp only
  cases hz : parseInt10 p0 with
  | none => simp
  | some z =>
    cases p1? with
    | none => simp
    | some p1 =>
      simp only [Option.isSome_some, if_true, Option.getD_some, Bool.not_eq_true, Bool.true_eq_false, if_false]
      by_cases hl : p < p1.length
      · have : ((p1.length : Int) > (p : Int)) := by omega
        simp [hl, this]
      · have : ¬ ((p1.length : Int) > (p : Int)) := by omega
        simp only [hl, this, if_false]
        cases hf : parseInt10 p1 with
        | none => simp
        | some f =>
          simp only [Option.isSome_some, Bool.true_eq_false, if_false]
          simp only [not_true_eq_false, if_false]
          split <;> split <;> simp_all

theorem natCmp_ge (a b : Nat) : (natCmp a b ≥ 0) ↔ b ≤ a := by
  unfold natCmp; split <;> (try split) <;> omega

theorem u8_toNat_eq (p : UInt8) (n : Nat) (hn : n < 256) : ((p.toNat : Int) % 256 = (n : Int)) ↔ p = UInt8.ofNat n := by
  have := p.toNat_lt
  constructor
  · intro h
    apply UInt8.toNat_inj.mp
    have : p.toNat = n := by omega
    rw [this]; simp [UInt8.toNat_ofNat']; omega
  · intro h; subst h; simp [UInt8.toNat_ofNat']; omega

/-- the translated `DecodeBinary` on a compressed-length input (prefix byte + 32 bytes, all reads succeed):
same prefix switch, same order (square root, then the range test `Cmp(P) >= 0` on X and Y) and same
result as the model's `decodePub`. The leaves are instantiated with the model's own pieces. -/
theorem go_decodeBinary_compressed (C : CurveP) (pfx : UInt8) (rest : Bytes) (hl : rest.length = 32) (h4 : pfx ≠ 4)
    (curveId p256 params mk pX pY yb : Int) (oc : Bool) (x : Nat) (dy : Option Nat)
    (hx : x = beVal rest) (hdy : dy = decodeCompressedY C (beVal rest) (pfx.toNat % 2)) :
    decodePub C (pfx :: rest) =
      (let r := GoFuncs.publicKeyDecodeBinary curveId false pX pY (pfx.toNat : Int) false p256 params true mk (x : Int)
        ((dy.getD 0 : Nat) : Int) dy.isNone (natCmp x C.P) (natCmp (dy.getD 0) C.P) true yb oc true true
       if r.2.1 then none else some (r.2.2.1.toNat, r.2.2.2.1.toNat)) := by
  subst hx
  have ht : rest.take 32 = rest := by rw [← hl, List.take_length]
  have e0 := u8_toNat_eq pfx 0 (by omega)
  have e2 := u8_toNat_eq pfx 2 (by omega)
  have e3 := u8_toNat_eq pfx 3 (by omega)
  have e4 := u8_toNat_eq pfx 4 (by omega)
  have f0 : UInt8.ofNat 0 = (0 : UInt8) := rfl
  have f2 : UInt8.ofNat 2 = (2 : UInt8) := rfl
  have f3 : UInt8.ofNat 3 = (3 : UInt8) := rfl
  have f4 : UInt8.ofNat 4 = (4 : UInt8) := rfl
  rw [f0] at e0; rw [f2] at e2; rw [f3] at e3; rw [f4] at e4
  simp only [GoFuncs.publicKeyDecodeBinary, decodePub, Bool.false_eq_true, if_false, hl, ht, Nat.lt_irrefl,
    bne_self_eq_false]
  by_cases c0 : pfx = 0
  · subst c0; simp
  · have c0' : ¬ ((pfx.toNat : Int) % 256 = 0) := fun h => c0 (e0.mp h)
    have c0b : (pfx == 0x00) = false := by simpa using c0
    by_cases c23 : pfx = 2 ∨ pfx = 3
    · have c23' : ((pfx.toNat : Int) % 256 = 2) ∨ ((pfx.toNat : Int) % 256 = 3) := by
        rcases c23 with h | h
        · exact Or.inl (e2.mpr h)
        · exact Or.inr (e3.mpr h)
      have c23b : (pfx == 0x02 || pfx == 0x03) = true := by
        rcases c23 with h | h <;> simp [h]
      simp only [c0', if_false, c23', if_true, c0b, Bool.false_eq_true, c23b]
      rw [← hdy]
      cases dy with
      | none => simp
      | some y =>
        simp only [Option.isNone_some, Bool.false_eq_true, if_false, Option.getD_some, natCmp_ge]
        by_cases cr : C.P ≤ beVal rest ∨ C.P ≤ y
        · simp [cr]
        · simp [cr]
    · have c2' : ¬ ((pfx.toNat : Int) % 256 = 2) := fun h => c23 (Or.inl (e2.mp h))
      have c3' : ¬ ((pfx.toNat : Int) % 256 = 3) := fun h => c23 (Or.inr (e3.mp h))
      have c4' : ¬ ((pfx.toNat : Int) % 256 = 4) := fun h => h4 (e4.mp h)
      have c23b : (pfx == 0x02 || pfx == 0x03) = false := by
        have : ¬ pfx = 2 ∧ ¬ pfx = 3 := by
          constructor <;> intro h <;> exact c23 (by simp [h])
        simp [this.1, this.2]
      have c4b : (pfx == 0x04) = false := by simpa using h4
      simp [c0', c2', c3', c4', c0b, c23b, c4b]

/-- … and on an uncompressed-length input (prefix byte + 64 bytes): `IsOnCurve` first, then the range test. -/
theorem go_decodeBinary_uncompressed (C : CurveP) (pfx : UInt8) (rest : Bytes) (hl : rest.length = 64)
    (h2 : pfx ≠ 2) (h3 : pfx ≠ 3) (curveId p256 params mk pX pY : Int) (dy0 : Int) (dyErr : Bool) :
    decodePub C (pfx :: rest) =
      (let x := beVal (rest.take 32)
       let y := beVal ((rest.drop 32).take 32)
       let r := GoFuncs.publicKeyDecodeBinary curveId false pX pY (pfx.toNat : Int) false p256 params true mk (x : Int)
        dy0 dyErr (natCmp x C.P) (natCmp y C.P) true (y : Int) (onCurve C x y) true true
       if r.2.1 then none else some (r.2.2.1.toNat, r.2.2.2.1.toNat)) := by
  have e0 := u8_toNat_eq pfx 0 (by omega)
  have e2 := u8_toNat_eq pfx 2 (by omega)
  have e3 := u8_toNat_eq pfx 3 (by omega)
  have e4 := u8_toNat_eq pfx 4 (by omega)
  have f0 : UInt8.ofNat 0 = (0 : UInt8) := rfl
  have f2 : UInt8.ofNat 2 = (2 : UInt8) := rfl
  have f3 : UInt8.ofNat 3 = (3 : UInt8) := rfl
  have f4 : UInt8.ofNat 4 = (4 : UInt8) := rfl
  rw [f0] at e0; rw [f2] at e2; rw [f3] at e3; rw [f4] at e4
  have c2' : ¬ ((pfx.toNat : Int) % 256 = 2) := fun h => h2 (e2.mp h)
  have c3' : ¬ ((pfx.toNat : Int) % 256 = 3) := fun h => h3 (e3.mp h)
  have c23b : (pfx == 0x02 || pfx == 0x03) = false := by simp [h2, h3]
  simp only [GoFuncs.publicKeyDecodeBinary, decodePub, Bool.false_eq_true, if_false, hl, Nat.lt_irrefl,
    bne_self_eq_false, c2', c3', c23b, or_self]
  by_cases c0 : pfx = 0
  · subst c0; simp
  · have c0' : ¬ ((pfx.toNat : Int) % 256 = 0) := fun h => c0 (e0.mp h)
    have c0b : (pfx == 0x00) = false := by simpa using c0
    by_cases c4 : pfx = 4
    · have c4' : ((pfx.toNat : Int) % 256 = 4) := e4.mpr c4
      have c4b : (pfx == 0x04) = true := by simp [c4]
      simp only [c0', if_false, c4', if_true, c0b, Bool.false_eq_true, c4b, natCmp_ge]
      cases hoc : onCurve C (beVal (rest.take 32)) (beVal ((rest.drop 32).take 32))
      · simp
      · simp only [Bool.not_true, Bool.false_eq_true, if_false, not_true_eq_false]
        by_cases cr : C.P ≤ beVal (rest.take 32) ∨ C.P ≤ beVal ((rest.drop 32).take 32)
        · simp [cr]
        · simp [cr]
    · have c4' : ¬ ((pfx.toNat : Int) % 256 = 4) := fun h => c4 (e4.mp h)
      have c4b : (pfx == 0x04) = false := by simpa using c4
      simp [c0', c4', c0b, c4b]


/-! ### fourth round -/

/-- the translated `emit.Int`: `bigInt` is called exactly when `smallInt` wrote nothing — the model's `emitInt`. -/
theorem go_emitInt_eq (i : Int) :
    GoFuncs.emitInt i (smallInt i).isSome = (if (smallInt i).isSome then [] else ["bigInt"]) ∧
    emitInt i = (if (smallInt i).isSome then smallInt i else emitBigIntAux i false) := by
  unfold GoFuncs.emitInt emitInt
  cases h : smallInt i <;> simp

/-- the translated `emit.bigInt` (no earlier writer error): it fails exactly when the model's
`emitBigIntAux` does, with the same check order (small path, `CheckIntegerSize`, empty encoding = PUSH0,
otherwise opcode + padded bytes). -/
theorem go_emitBigInt_eq (n : Int) (ts : Bool) (buf lz : Int) :
    GoFuncs.emitBigInt ts false (isInt64 n) (smallInt n).isSome (!checkIntegerSize n) buf ((toBytes n).length : Int) lz
      = ((emitBigIntAux n ts).isNone,
         if ts && isInt64 n && (smallInt n).isSome then []
         else if !checkIntegerSize n then []
         else if (toBytes n).isEmpty then ["Opcodes"] else ["Opcodes", "w.WriteBytes"]) := by
  unfold GoFuncs.emitBigInt emitBigIntAux
  by_cases c1 : (ts && isInt64 n && (smallInt n).isSome) = true
  · have c1' : (ts = true ∧ isInt64 n = true) ∧ (smallInt n).isSome = true := by
      simp only [Bool.and_eq_true] at c1; exact c1
    simp only [Bool.false_eq_true, if_false, c1', and_self, if_true, c1]
    cases h : smallInt n with
    | none => rw [h] at c1'; simp at c1'
    | some b => simp
  · have c1' : ¬ ((ts = true ∧ isInt64 n = true) ∧ (smallInt n).isSome = true) := by
      intro h; apply c1; simp only [Bool.and_eq_true]; exact h
    simp only [Bool.false_eq_true, if_false, c1', c1]
    cases hc : checkIntegerSize n
    · simp
    · simp only [Bool.not_true, Bool.false_eq_true, if_false]
      cases hb : toBytes n with
      | nil => simp
      | cons x t =>
        have : ¬ ((t.length : Int) + 1 = 0) := by omega
        simp [this]

/-- the translated `Fixed8FromString`: the parser's error first, otherwise `num.Int64()` — the model's
`fixed8FromString` (the decimal wrapped to int64). -/
theorem go_fixed8FromString_eq (s : Bytes) :
    GoFuncs.fixed8FromString ((decFromString s 8).getD 0) (decFromString s 8).isNone (wrapInt64 ((decFromString s 8).getD 0))
      = match fixed8FromString s with
        | some w => (w, "ok")
        | none => (0, "FromString_s_precision_1_err") := by
  unfold GoFuncs.fixed8FromString fixed8FromString
  cases decFromString s 8 <;> simp

/-! ### the arithmetic of the fee repair c9cbbdc: where the n-push of a multisig script is -/

theorem keysCode_length (ks : List Bytes) : (keysCode ks).length = (ks.map fun k => 2 + k.length).sum := by
  induction ks with
  | nil => rfl
  | cons k t ih =>
    simp only [keysCode, List.map_cons, List.flatten_cons, List.length_append, List.sum_cons] at ih ⊢
    rw [ih]; simp [pd1]; omega

/-- the translated `fee.pushIntSize` is the length of every instruction the parser reads as a count. -/
theorem go_pushIntSize_eq (v : Nat) (hv : 1 ≤ v) (a : Bytes) (ha : a ∈ countEncodings v) :
    ∃ o, a.head? = some o ∧ GoFuncs.feePushIntSize (o.toNat : Int) = (a.length : Int) := by
  obtain ⟨o, ho, he⟩ := countEnc_by_head v a ha hv
  refine ⟨o, ho, ?_⟩
  rw [he]
  unfold GoFuncs.feePushIntSize encOfHead
  by_cases c : o.toNat ≤ 5
  · have c' : ((o.toNat : Int) ≤ 5) := by omega
    simp only [c, c', if_true, countEnc, List.length_cons, leBytes_length, Int.toNat_natCast]
    push_cast
    omega
  · have c' : ¬ ((o.toNat : Int) ≤ 5) := by omega
    simp [c, c']

/-- in every script `ParseMultiSigContract` accepts, `fee.Calculate`'s offset
`pushIntSize(script[0]) + Σ (2 + len(pub))` is exactly the position of the n-push: the first byte is the
opcode of one of the listed encodings of `m`, and the byte at that offset is the opcode of one of the
listed encodings of `n`. -/
theorem multisig_fee_offset (s : Bytes) (m : Nat) (pubs : List Bytes) (h : parseMultiSig s = some (m, pubs)) :
    ∃ mOp nOp a c, a ∈ countEncodings m ∧ c ∈ countEncodings pubs.length ∧ s = msScript a pubs c ∧
      a.head? = some mOp ∧ c.head? = some nOp ∧ s.head? = some mOp ∧
      s[(GoFuncs.feePushIntSize (mOp.toNat : Int)).toNat + (pubs.map fun k => 2 + k.length).sum]? = some nOp ∧
      GoFuncs.feePushIntSize (nOp.toNat : Int) = (c.length : Int) := by
  obtain ⟨h1, h2, h3, hk, a, ha, c, hc, hs⟩ := (parseMultiSig_iff' s m pubs).mp h
  obtain ⟨mOp, hma, hml⟩ := go_pushIntSize_eq m h1 a ha
  obtain ⟨nOp, hnc, hnl⟩ := go_pushIntSize_eq pubs.length (by omega) c hc
  refine ⟨mOp, nOp, a, c, ha, hc, by unfold msScript; exact hs, hma, hnc, ?_, ?_, hnl⟩
  · rw [hs]
    cases a with
    | nil => simp at hma
    | cons x t => simpa using hma
  · rw [hml, Int.toNat_natCast, ← keysCode_length, hs]
    have : a ++ keysCode pubs ++ c ++ opSYSCALL :: multisigID = (a ++ keysCode pubs) ++ (c ++ opSYSCALL :: multisigID) := by
      simp [List.append_assoc]
    rw [this, ← List.length_append, List.getElem?_append_right (Nat.le_refl _), Nat.sub_self]
    cases c with
    | nil => simp at hnc
    | cons x t => simpa using hnc

end NeoModel.Codec
