/-
Tie by translation (C10, pkg/core/mpt): the definitions of NeoModel.Generated.GoFuncs are re-translated
from /repo's Go source on every check run (harness/cmd/extract/gofuncs.go, specs in gofuncs_c10.go); the
theorems below prove, for all arguments, that the translated API functions apply exactly the guards of
the hand-written model (Model/Mpt/Guards.lean, the size limits of `decode`), in which order, and what
they do to `t.root` on each path. A change of the Go function changes the generated definition and these
proofs stop checking.
-/
import NeoModel.Generated.GoFuncs
import NeoModel.Model.Mpt.Guards
set_option linter.unusedSimpArgs false
namespace NeoModel.GoFuncsTie
open NeoModel NeoModel.Generated NeoModel.Mpt

/-- `Trie.Put` (trie.go:146-165): the argument checks are the model's `putGuard` (plus `value == nil`,
which the line protocol cannot express); on every error path `t.root` keeps its value, on success it
becomes what `putIntoNode` returned. -/
theorem mptPut_eq (root r nib leaf : Int) (klen vlen : Nat) (e : Bool) :
    GoFuncs.mptPut root klen vlen false nib leaf r e =
      if putGuard klen vlen then ("err", root)
      else if e then ("t_putIntoNode_t_root_path_n_1_err", root) else ("ok", r) := by
  unfold GoFuncs.mptPut putGuard maxKeyLength maxValueLength
  by_cases h1 : klen = 0
  · simp [h1]
  · have h1' : ¬ ((klen : Int) = 0) := by omega
    by_cases h2 : klen > 68
    · have : (klen : Int) > 68 := by omega
      simp [h1, h1', h2, this]
    · have h2' : ¬ ((klen : Int) > 68) := by omega
      by_cases h3 : vlen > 131074
      · have : (vlen : Int) > 131074 := by omega
        simp [h1, h1', h2, h2', h3, this]
      · have h3' : ¬ ((vlen : Int) > 131074) := by omega
        cases e <;> simp [h1, h1', h2, h2', h3, h3']

theorem mptPut_nil (root r nib leaf : Int) (klen vlen : Nat) (e : Bool) :
    (GoFuncs.mptPut root klen vlen true nib leaf r e) = ("err", root) := by
  unfold GoFuncs.mptPut
  split <;> (try split) <;> (try split) <;> simp

/-- `Trie.Get` / `Trie.Delete` / `Trie.GetProof` (trie.go:77-88, 284-295; proof.go:14-26): the one
argument check is the model's `keyGuard`; `t.root` is assigned only when no error is returned. -/
theorem mptGet_eq (root nib r leaf v : Int) (klen : Nat) (e : Bool) :
    GoFuncs.mptGet root klen nib r leaf e v =
      if keyGuard klen then (0, "err", root)
      else if e then (0, "t_getWithPath_t_root_path_true_3_err", root) else (v, "ok", r) := by
  unfold GoFuncs.mptGet keyGuard maxKeyLength
  by_cases h : klen > 68
  · have : (klen : Int) > 68 := by omega
    simp [h, this]
  · have h' : ¬ ((klen : Int) > 68) := by omega
    cases e <;> simp [h, h']

theorem mptDelete_eq (root nib r : Int) (klen : Nat) (e : Bool) :
    GoFuncs.mptDelete root klen nib r e =
      if keyGuard klen then ("err", root)
      else if e then ("t_deleteFromNode_t_root_path_1_err", root) else ("ok", r) := by
  unfold GoFuncs.mptDelete keyGuard maxKeyLength
  by_cases h : klen > 68
  · have : (klen : Int) > 68 := by omega
    simp [h, this]
  · have h' : ¬ ((klen : Int) > 68) := by omega
    cases e <;> simp [h, h']

theorem mptGetProof_eq (root nib r : Int) (klen : Nat) (e : Bool) :
    GoFuncs.mptGetProof root klen nib r e =
      if keyGuard klen then (0, "err", root)
      else if e then (0, "t_getProof_t_root_path_proof_1_err", root) else (0, "ok", r) := by
  unfold GoFuncs.mptGetProof keyGuard maxKeyLength
  by_cases h : klen > 68
  · have : (klen : Int) > 68 := by omega
    simp [h, this]
  · have h' : ¬ ((klen : Int) > 68) := by omega
    cases e <;> simp [h, h']

/-- `Trie.PutBatch` (batch.go:41-48): an empty batch changes nothing; otherwise `t.root` becomes what
`putBatch` returned WHETHER OR NOT it returned an error (the model's `lputBatch` / `lstep`), and the
count and the error are passed on. -/
theorem mptPutBatch_eq (root r cnt : Int) (n : Nat) (e : Bool) :
    GoFuncs.mptPutBatch root n r cnt e =
      if n = 0 then (0, "ok", root)
      else (cnt, (if e then "t_putBatch_b_kv_2_err" else "ok"), r) := by
  unfold GoFuncs.mptPutBatch
  by_cases h : n = 0
  · simp [h]
  · have : ¬ ((n : Int) = 0) := by omega
    cases e <;> simp [h, this]

/-- the decoders' size checks (extension.go:55-60, leaf.go:43-48) are those of the model's `decode`:
an extension key longer than `maxPathLength` / a value longer than `maxValueLength` sets the reader's
error and leaves the node untouched; otherwise the fields are filled. -/
theorem mptDecode_limits (depth key next val mk no nn : Int) (rerr ferr : Bool) (sz : Nat) :
    GoFuncs.mptExtDecode depth rerr key next sz ferr mk no nn =
      (if sz > maxPathLength then (ferr, key, next, [])
       else (rerr, mk, nn, ["r.ReadBytes", "no.decodeBinaryWithDepth", "e.invalidateCache"])) ∧
    GoFuncs.mptLeafDecode depth rerr val sz ferr mk =
      (if sz > maxValueLength then (ferr, val, [])
       else (rerr, mk, ["r.ReadBytes", "n.invalidateCache"])) := by
  unfold GoFuncs.mptExtDecode GoFuncs.mptLeafDecode maxPathLength maxValueLength
  constructor
  · by_cases h : sz > 136
    · have : (sz : Int) > 136 := by omega
      simp [h, this]
    · have : ¬ ((sz : Int) > 136) := by omega
      simp [h, this]
  · by_cases h : sz > 131074
    · have : (sz : Int) > 131074 := by omega
      simp [h, this]
    · have : ¬ ((sz : Int) > 131074) := by omega
      simp [h, this]

/-- `encodeBinaryAsChild` (base.go:81-90): an empty child is one byte, any other child a type byte and
the hash bytes — the two shapes of the model's `childRef`. -/
theorem mptEncodeAsChild_eq (e : Bool) :
    GoFuncs.mptEncodeAsChild e = if e then ["w.WriteB"] else ["w.WriteB", "w.WriteBytes"] := by
  cases e <;> rfl

example : GoFuncs.mptPut 7 68 131074 false 0 0 9 false = ("ok", 9) ∧ GoFuncs.mptPut 7 69 0 false 0 0 9 false = ("err", 7) ∧
    GoFuncs.mptPut 7 0 0 false 0 0 9 false = ("err", 7) ∧ GoFuncs.mptPut 7 1 131075 false 0 0 9 false = ("err", 7) := by decide

end NeoModel.GoFuncsTie
