/-
Tie by translation (C20, bqueue Queue.indexToPosition): the definitions of NeoModel.Generated.GoFuncs are re-translated from /repo's Go source on
every check run (harness/cmd/extract/gofuncs.go); the theorems below prove, for all arguments, that the
translated function is the function the hand-written model uses (or has the property stated). A change of the Go
function changes the generated definition and these proofs stop checking.
-/
import NeoModel.Generated.GoFuncs
import NeoModel.Model.Queue
namespace NeoModel.GoFuncsTie
open NeoModel NeoModel.Generated

/-- the ring slot of an index is `index % cacheSize`. -/
theorem queueIndexToPosition_eq (cap i : Nat) :
    GoFuncs.queueIndexToPosition (i : Int) (cap : Int) = (Queue.posOf cap i : Int) := by
  unfold GoFuncs.queueIndexToPosition Queue.posOf
  rw [Int.tmod_eq_emod_of_nonneg (Int.natCast_nonneg _)]
  exact (Int.natCast_emod _ _).symm

example : GoFuncs.queueIndexToPosition 2005 2000 = 5 := by decide

end NeoModel.GoFuncsTie
