/-
C06 helper lemmas: what the transaction loop of AddBlock guarantees about the transactions of an
accepted block taken together (no duplicate, no Conflicts reference between two of them, every
sender can pay all of its transactions).
-/
import NeoModel.Proofs.AddBlockInv
namespace NeoModel.AddBlock
variable {L : Type}

/-- neither transaction names the other in a Conflicts attribute -/
def NoRef (u t : Tx) : Prop := t.id ∉ u.conflicts ∧ u.id ∉ t.conflicts

/-- fees (system + network) of the transactions of `l` sent by `a` -/
def sumFee (l : List Tx) (a : Nat) : Nat := sumBy (·.fee) (l.filter (fun q => q.sender == a))

/-- mutually compatible: no repeated hash, no Conflicts reference between two transactions of the
list, every sender's balance covers the fees of all of its transactions in the list. -/
def Compatible (bal : Nat → Nat) (txs : List Tx) : Prop :=
  (txs.map (·.id)).Nodup ∧ txs.Pairwise NoRef ∧ ∀ a, (∃ t ∈ txs, t.sender = a) → sumFee txs a ≤ bal a

theorem hasDup_false_nodup (l : List Nat) (h : hasDup l = false) : l.Nodup := by
  induction l with
  | nil => exact List.nodup_nil
  | cons x rest ih =>
    simp only [hasDup, Bool.or_eq_false_iff] at h
    rw [List.nodup_cons]
    refine ⟨?_, ih h.2⟩
    intro hm
    have := h.1
    simp [hm] at this

theorem filter_length_eq (l : List Tx) (f : Tx → Bool) (h : (l.filter f).length = l.length) :
    ∀ q ∈ l, f q = true := by
  induction l with
  | nil => intro q hq; cases hq
  | cons x rest ih =>
    intro q hq
    by_cases hx : f x = true
    · have h' : (rest.filter f).length = rest.length := by
        simp only [List.filter, hx, List.length_cons] at h
        omega
      rcases List.mem_cons.mp hq with rfl | hq
      · exact hx
      · exact ih h' q hq
    · have hle := List.length_filter_le f rest
      have hx' : f x = false := by simpa using hx
      simp only [List.filter, hx', List.length_cons] at h
      omega

theorem sumFee_append (p : List Tx) (t : Tx) (a : Nat) :
    sumFee (p ++ [t]) a = sumFee p a + (if t.sender == a then t.fee else 0) := by
  unfold sumFee sumBy
  by_cases h : (t.sender == a) = true
  · simp [List.filter_append, h, List.filter]
  · simp [List.filter_append, h, List.filter]

theorem sumFee_cons (t : Tx) (rest : List Tx) (a : Nat) :
    sumFee (t :: rest) a = (if t.sender == a then t.fee else 0) + sumFee rest a := by
  unfold sumFee sumBy
  by_cases h : (t.sender == a) = true
  · simp [List.filter, h]
  · simp [List.filter, h]

theorem sumFee_none (rest : List Tx) (a : Nat) (h : ¬ ∃ x ∈ rest, x.sender = a) : sumFee rest a = 0 := by
  unfold sumFee sumBy
  have : rest.filter (fun q => q.sender == a) = [] := by
    rw [List.filter_eq_nil_iff]
    intro x hx hc
    exact h ⟨x, hx, by simpa using hc⟩
  rw [this]; rfl

/-- an addition to the scratch pool that evicts nothing: the pool grows by exactly this
transaction, no pooled transaction and the new one name each other, and the sender can pay it
on top of its pooled transactions. -/
theorem poolAdd_noevict (bal : Nat → Nat) (p p' : List Tx) (t : Tx)
    (h : poolAdd bal p t = some p') (hl : p'.length = p.length + 1) :
    p' = p ++ [t] ∧ (∀ u ∈ p, NoRef u t) ∧ t.fee + sumFee p t.sender ≤ bal t.sender := by
  unfold poolAdd at h
  split at h; · cases h
  split at h; · cases h
  split at h; · cases h
  split at h; · cases h
  split at h; · cases h
  rename_i _ _ _ hb1 hb2
  simp only [Option.some.injEq] at h
  subst h
  simp only [List.length_append, List.length_cons, List.length_nil] at hl
  have hlen : (p.filter (fun q => !((evicted p t).any (fun x => x.id == q.id)))).length = p.length := by omega
  have hall := filter_length_eq p _ hlen
  have hc1 : namedBy p t = [] := by
    unfold namedBy
    rw [List.filter_eq_nil_iff]
    intro q hq hc
    have := hall q hq
    simp only [Bool.not_eq_true', List.any_eq_false] at this
    have hm : q ∈ evicted p t := by
      unfold evicted namedBy
      rw [List.mem_append]; left
      rw [List.mem_filter]; exact ⟨hq, hc⟩
    have := this q hm
    simp at this
  have hc2 : namesOf p t = [] := by
    unfold namesOf
    rw [List.filter_eq_nil_iff]
    intro q hq hc
    have := hall q hq
    simp only [Bool.not_eq_true', List.any_eq_false] at this
    have hm : q ∈ evicted p t := by
      unfold evicted namesOf
      rw [List.mem_append]; right
      rw [List.mem_filter]; exact ⟨hq, hc⟩
    have := this q hm
    simp at this
  refine ⟨?_, ?_, ?_⟩
  · congr 1
    rw [List.filter_eq_self]
    exact hall
  · intro u hu
    constructor
    · intro hm
      have : u ∈ namedBy p t := by
        unfold namedBy
        rw [List.mem_filter]; exact ⟨hu, by simpa using hm⟩
      rw [hc1] at this; cases this
    · intro hm
      have : u ∈ namesOf p t := by
        unfold namesOf
        rw [List.mem_filter]; exact ⟨hu, by simpa using hm⟩
      rw [hc2] at this; cases this
  · have hfz : freedFee p t = 0 := by
      unfold freedFee evicted
      rw [hc1, hc2]; rfl
    rw [hfz] at hb2
    unfold pooledFee at hb2
    unfold sumFee
    omega

/-- the loop invariant behind `accepted_txs_compatible` -/
theorem txLoop_compatible (env : Env L) (s : Node L) (hv : s.cfg.verifyTx = true) (p ts : List Tx)
    (h : txLoop env s p ts = true) :
    ts.Pairwise NoRef ∧ (∀ u ∈ p, ∀ t ∈ ts, NoRef u t) ∧
      ∀ a, (∃ t ∈ ts, t.sender = a) → sumFee p a + sumFee ts a ≤ env.balance s.ledger a := by
  induction ts generalizing p with
  | nil =>
    refine ⟨List.Pairwise.nil, ?_, ?_⟩
    · intro u _ t ht; cases ht
    · intro a ⟨t, ht, _⟩; cases ht
  | cons t rest ih =>
    simp only [txLoop] at h
    split at h
    · rename_i p' hp
      have hadd : poolAdd (env.balance s.ledger) p t = some p' := by
        by_cases hc : pooledSame s t = true
        · simpa [hc] using hp
        · simp only [hc] at hp
          by_cases hvld : env.txValid s.ledger s.blockHeight t = true
          · simpa [hvld] using hp
          · simp [hvld] at hp
      split at h
      · rename_i hlen
        have hlen' : p'.length = p.length + 1 := by simpa using hlen
        obtain ⟨hp', hnr, hfee⟩ := poolAdd_noevict _ p p' t hadd hlen'
        subst hp'
        obtain ⟨i1, i2, i3⟩ := ih (p ++ [t]) h
        refine ⟨?_, ?_, ?_⟩
        · rw [List.pairwise_cons]
          exact ⟨fun x hx => i2 t (by simp) x hx, i1⟩
        · intro u hu x hx
          rcases List.mem_cons.mp hx with rfl | hx
          · exact hnr u hu
          · exact i2 u (by simp [hu]) x hx
        · intro a _
          rw [sumFee_cons]
          by_cases hex : ∃ x ∈ rest, x.sender = a
          · have := i3 a hex
            rw [sumFee_append] at this
            omega
          · have hz := sumFee_none rest a hex
            rename_i hsome
            obtain ⟨x, hx, hxa⟩ := hsome
            rcases List.mem_cons.mp hx with rfl | hx
            · subst hxa
              simp [hz]
              omega
            · exact absurd ⟨x, hx, hxa⟩ hex
      · simp at h
    · simp [hv] at h

end NeoModel.AddBlock
