import NeoModel.Model.Mpt.FindExact
import NeoModel.Proofs.MptSeek
namespace NeoModel.Mpt

/-- the leaves among the visited nodes. -/
def leavesOf (vs : List (Path × Option Val)) : List (Path × Val) :=
  vs.filterMap fun e => e.2.map fun v => (e.1, v)

theorem leavesOf_append (a b : List (Path × Option Val)) : leavesOf (a ++ b) = leavesOf a ++ leavesOf b := by
  simp [leavesOf, List.filterMap_append]

theorem leavesOf_flatMap {α} (l : List α) (f : α → List (Path × Option Val)) :
    leavesOf (l.flatMap f) = l.flatMap fun a => leavesOf (f a) := by
  induction l with
  | nil => rfl
  | cons a l ih => simp [List.flatMap_cons, leavesOf_append, ih]

/-- the leaves the traversal visits are what `traverse` reports. -/
theorem leavesOf_visits (n : Node) : ∀ (path frm : Path), leavesOf (visits n path frm) = traverse false n path frm := by
  induction n with
  | empty => intro path frm; simp [visits, traverse, leavesOf]
  | leaf v =>
    intro path frm
    simp only [visits, traverse]
    by_cases h : frm = [] <;> simp [h, leavesOf]
  | ext k n ih =>
    intro path frm
    cases frm with
    | nil => simp [visits, traverse, leavesOf, ← ih]
    | cons a f =>
      simp only [visits, traverse]
      cases hs : stripPre k (a :: f) with
      | some r => simp [ih]
      | none =>
        simp only [bne_iff_ne, ne_eq, Bool.not_eq_false]
        split
        · exact ih _ _
        · simp [leavesOf]
  | branch cs v ih =>
    intro path frm
    cases frm with
    | nil =>
      have hk : leavesOf ((List.finRange 16).flatMap fun i => visits (cs i) (path ++ [i]) []) =
          (List.finRange 16).flatMap fun i => traverse false (cs i) (path ++ [i]) [] := by
        rw [leavesOf_flatMap]; congr 1; funext i; exact ih i _ _
      cases v with
      | none =>
        simp only [visits, traverse, vslot, List.nil_append]
        rw [← hk]; simp [leavesOf]
      | some w =>
        simp only [visits, traverse, vslot]
        rw [← hk]; simp [leavesOf]
    | cons s f =>
      simp only [visits, traverse]
      rw [leavesOf_flatMap]
      congr 1; funext i; exact ih i _ _

/-- with `maxNum ≥ 1` the stop condition cuts after the `maxNum`-th reported leaf. -/
theorem collect_pos (m : Nat) (frm : Option Path) : ∀ (vs : List (Path × Option Val)) (c : Nat), c < m →
    collect m frm vs c = ((leavesOf vs).filter fun e => notFrom frm e.1).take (m - c) := by
  intro vs
  induction vs with
  | nil => intro c _; simp [collect, leavesOf]
  | cons e vs ih =>
    intro c hc
    obtain ⟨p, ov⟩ := e
    cases ov with
    | none =>
      have : ¬ c ≥ m := by omega
      simp only [collect, this, if_false, ih c hc]
      simp [leavesOf]
    | some v =>
      simp only [collect]
      have hl : leavesOf ((p, some v) :: vs) = (p, v) :: leavesOf vs := by simp [leavesOf]
      rw [hl]
      by_cases hn : notFrom frm p = true
      · simp only [hn, if_true, List.filter_cons_of_pos]
        have hm : m - c = (m - (c + 1)) + 1 := by omega
        rw [hm, List.take_succ_cons]
        congr 1
        by_cases h1 : c + 1 ≥ m
        · have : m - (c + 1) = 0 := by omega
          simp [h1, this]
        · simp only [h1, if_false]
          exact ih (c + 1) (by omega)
      · have : ¬ c ≥ m := by omega
        simp only [hn, this, if_false, Bool.false_eq_true]
        rw [ih c hc]
        simp [hn]

/-- with `maxNum = 0` the traversal stops after the first node: nothing, or that node if it is a
leaf — in any case a prefix of length ≤ 1 of the leaves in range. -/
theorem collect_zero (frm : Option Path) (vs : List (Path × Option Val)) :
    ∃ k, k ≤ 1 ∧ collect 0 frm vs 0 = ((leavesOf vs).filter fun e => notFrom frm e.1).take k := by
  cases vs with
  | nil => exact ⟨0, by omega, by simp [collect]⟩
  | cons e vs =>
    obtain ⟨p, ov⟩ := e
    cases ov with
    | none => exact ⟨0, by omega, by simp [collect]⟩
    | some v =>
      have hl : leavesOf ((p, some v) :: vs) = (p, v) :: leavesOf vs := by simp [leavesOf]
      by_cases hn : notFrom frm p = true
      · exact ⟨1, by omega, by simp [collect, hl, hn]⟩
      · exact ⟨0, by omega, by simp [collect, hn]⟩

theorem find_eq_findGen (t : Node) (pre : Path) (frm : Option Path) (m : Nat) :
    find t pre frm m =
      findGen (fun start path f => some (((traverse false start path f).filter fun e => notFrom frm e.1).take m)) t pre frm := rfl

/-- `maxNum ≥ 1`: the stop condition as written is the truncation to `maxNum` results. -/
theorem findX_eq_find (t : Node) (pre : Path) (frm : Option Path) (m : Nat) (hm : 1 ≤ m) :
    findX t pre frm m = find t pre frm m := by
  rw [find_eq_findGen]
  unfold findX
  congr 1
  funext start path f
  rw [collect_pos m frm _ 0 (by omega), leavesOf_visits]
  rfl

/-- `maxNum = 0`: what `Find` returns is what it would return for `maxNum = k` with some `k ≤ 1`. -/
theorem findX_zero (t : Node) (pre : Path) (frm : Option Path) :
    ∃ k, k ≤ 1 ∧ findX t pre frm 0 = find t pre frm k := by
  rw [show findX t pre frm 0 = findGen (fun start path f => some (collect 0 frm (visits start path f) 0)) t pre frm from rfl]
  have key : ∀ start path f, ∃ k, k ≤ 1 ∧ some (collect 0 frm (visits start path f) 0) =
      some (((traverse false start path f).filter fun e => notFrom frm e.1).take k) := by
    intro start path f
    obtain ⟨k, hk, h⟩ := collect_zero frm (visits start path f)
    exact ⟨k, hk, by rw [h, leavesOf_visits]⟩
  unfold findGen
  cases hg : getWithPathNS t pre with
  | none => exact ⟨0, by omega, by simp [find, hg]⟩
  | some x =>
    obtain ⟨start, full⟩ := x
    simp only [find, hg]
    split
    · obtain ⟨k, hk, h⟩ := key start (full.drop pre.length) []; exact ⟨k, hk, h⟩
    · split
      · obtain ⟨k, hk, h⟩ := key start (full.drop pre.length) ((frm.getD []).drop (full.drop pre.length).length)
        exact ⟨k, hk, h⟩
      · split
        · obtain ⟨k, hk, h⟩ := key start (full.drop pre.length) []; exact ⟨k, hk, h⟩
        · split
          · exact ⟨0, by omega, rfl⟩
          · obtain ⟨k, hk, h⟩ := key start (full.drop pre.length) []; exact ⟨k, hk, h⟩

end NeoModel.Mpt
