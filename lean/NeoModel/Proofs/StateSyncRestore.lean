/-
C20 (b) helper lemmas: restoreNode / AddMPTNodes preserve the invariant; completion.
-/
import NeoModel.Proofs.StateSyncInv
namespace NeoModel.StateSync

variable (db : Hash → Option SNode) (root : Hash)

theorem restoreNode_succ (fuel : Nat) (s : MS) (h : Hash) (n : SNode) :
    restoreNode db (fuel + 1) s h n =
      if (pathsOf s.pool h).isEmpty then s
      else ((pathsOf s.pool h).flatMap (fun p => childrenPaths p n)).foldl
        (fun s k => restoreStored db (restoreNode db fuel) s k.1) (restoreStep s h n) := rfl

/-- A node whose hash is not asked for changes nothing. -/
theorem restoreNode_unrequested (fuel : Nat) (s : MS) (h : Hash) (n : SNode)
    (hu : ∀ q, (h, q) ∉ s.pool) : restoreNode db fuel s h n = s := by
  cases fuel with
  | zero => rfl
  | succ f =>
    rw [restoreNode_succ]
    have : pathsOf s.pool h = [] := by
      apply List.eq_nil_iff_forall_not_mem.2
      intro q hq; exact hu q ((mem_pathsOf _ _ _).1 hq)
    simp [this]

theorem inv_restoreNode (wf : WF db root) (fuel : Nat) (s : MS) (h : Hash) (n : SNode)
    (hi : Inv db root s) (hc : ∀ m, db h = some m → n = m) : Inv db root (restoreNode db fuel s h n) := by
  induction fuel generalizing s h n with
  | zero => exact hi
  | succ f ih =>
    rw [restoreNode_succ]
    split
    · exact hi
    · rename_i hne
      -- some path is pending for `h`, so `h` is a trie node and `n` is that node
      have hn : db h = some n := by
        cases hp : pathsOf s.pool h with
        | nil => simp [hp] at hne
        | cons q r =>
          have hq : (h, q) ∈ s.pool := (mem_pathsOf _ _ _).1 (by rw [hp]; simp)
          obtain ⟨m, hm⟩ := wf.closed h q (hi.poolPos _ hq)
          rw [hc m hm]; exact hm
      have hstep := inv_restoreStep db root wf s h n hi hn
      generalize restoreStep s h n = s2 at hstep
      generalize (pathsOf s.pool h).flatMap (fun p => childrenPaths p n) = kids
      induction kids generalizing s2 with
      | nil => exact hstep
      | cons k r ihk =>
        simp only [List.foldl_cons]
        apply ihk
        unfold restoreStored
        split
        · split
          · rename_i cn hcn
            exact ih s2 k.1 cn hstep (fun m hm => by rw [hcn] at hm; cases hm; rfl)
          · exact hstep
        · exact hstep

/-- An item is honest w.r.t. the table: if its hash is the hash of a trie node, it is that node
(what collision-freeness of the hash function gives). Garbage is always "honest". -/
def ItemOk : Item → Prop
  | .node h n => ∀ m, db h = some m → n = m
  | .garbage => True

theorem inv_deliver (wf : WF db root) (fuel : Nat) (s : MS) (items : List Item)
    (hi : Inv db root s) (hok : ∀ it ∈ items, ItemOk db it) : Inv db root (deliver db fuel s items).1 := by
  induction items generalizing s with
  | nil => exact hi
  | cons it r ih =>
    cases it with
    | garbage => exact hi
    | node h n =>
      simp only [deliver]
      apply ih
      · exact inv_restoreNode db root wf fuel s h n hi (hok (.node h n) (by simp))
      · intro it hit; exact hok it (by simp [hit])

theorem inv_batches (wf : WF db root) (fuel : Nat) (s : MS) (bs : List (List Item))
    (hi : Inv db root s) (hok : ∀ b ∈ bs, ∀ it ∈ b, ItemOk db it) : Inv db root (batches db fuel s bs) := by
  unfold batches
  induction bs generalizing s with
  | nil => exact hi
  | cons b r ih =>
    simp only [List.foldl_cons]
    apply ih
    · exact inv_deliver db root wf fuel s b hi (hok b (by simp))
    · intro b' hb'; exact hok b' (by simp [hb'])

/-- With an empty pool every position of the trie has been restored. -/
theorem complete (s : MS) (hi : Inv db root s) (he : s.pool = []) (h : Hash) (p : Path)
    (hp : Pos db root h p) : (h, p) ∈ s.done := by
  induction hp with
  | root =>
    rcases hi.rootIn with hr | hr
    · rw [he] at hr; cases hr
    · exact hr
  | kid hpar hn hk ih =>
    rename_i h' p' n' k'
    rcases hi.closed _ ih (k'.2, p' ++ k'.1) ⟨n', k', hn, hk, rfl⟩ with hr | hr
    · rw [he] at hr; cases hr
    · exact hr

end NeoModel.StateSync
