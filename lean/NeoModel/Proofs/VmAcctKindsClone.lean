/-
C12 proofs, part 8b: Struct.Clone and cpValues keep the Map shape invariant (every new cell is a
Struct).
-/
import NeoModel.Proofs.VmAcctKinds
namespace NeoModel.VmAcct

/-- `K` calls no id beyond the heap a Map -/
def FB (K : Nat → Bool) (n : Nat) : Prop := ∀ j, n ≤ j → K j = false

theorem FB.mono {K : Nat → Bool} {n n' : Nat} (f : FB K n) (h : n ≤ n') : FB K n' := fun j hj => f j (Nat.le_trans h hj)

theorem fb_extK (km : Nat → Bool) (n : Nat) : FB (extK km n false) n := by
  intro j hj; simp [extK, Nat.not_lt.2 hj]

theorem extK_self {K : Nat → Bool} {n : Nat} (f : FB K n) : extK K n false = K := by
  funext j
  by_cases h : j < n
  · simp [extK, h]
  · simp [extK, h, f j (Nat.le_of_not_lt h)]

/-- allocation of an Array/Struct cell -/
theorem goodH_alloc_false {K : Nat → Bool} {h : Heap} (g : GoodH K h) (f : FB K h.length) (rc : Nat) {ch : List Item}
    (hx : GoodL K (h.length + 1) ch) : GoodH K (h ++ [{ rc := rc, ch := ch }]) := by
  have := goodH_alloc g false rc (ch := ch) (by rw [extK_self f]; exact hx) (by intro h; cases h)
  rwa [extK_self f] at this

theorem good_fresh_str {K : Nat → Bool} {n : Nat} (f : FB K n) : Good K (n + 1) (.str n) := ⟨Nat.lt_succ_self _, f n (Nat.le_refl _)⟩
theorem good_fresh_arr {K : Nat → Bool} {n : Nat} (f : FB K n) : Good K (n + 1) (.arr n) := ⟨Nat.lt_succ_self _, f n (Nat.le_refl _)⟩

theorem GoodL.le {K : Nat → Bool} {n n' : Nat} {xs : List Item} (g : GoodL K n xs) (h : n ≤ n') : GoodL K n' xs :=
  g.mono (fun _ _ => rfl) h
theorem Good.le {K : Nat → Bool} {n n' : Nat} {x : Item} (g : Good K n x) (h : n ≤ n') : Good K n' x :=
  g.mono (fun _ _ => rfl) h

theorem clone_good (K : Nat → Bool) : ∀ (f : Nat),
    (∀ h id h' id', cloneStruct f h id = some (h', id') → GoodH K h → FB K h.length →
      GoodH K h' ∧ h.length ≤ h'.length ∧ Good K h'.length (.str id')) ∧
    (∀ h xs h' xs', cloneList f h xs = some (h', xs') → GoodH K h → FB K h.length → GoodL K h.length xs →
      GoodH K h' ∧ h.length ≤ h'.length ∧ GoodL K h'.length xs') := by
  intro f
  induction f with
  | zero => exact ⟨fun h id h' id' hc => by simp [cloneStruct] at hc, fun h xs h' xs' hc => by simp [cloneList] at hc⟩
  | succ f ih =>
    obtain ⟨ihS, ihL⟩ := ih
    constructor
    · intro h id h' id' hc g fb
      simp only [cloneStruct] at hc
      cases hl : cloneList f h (chOf h id) with
      | none => simp [hl] at hc
      | some p =>
        obtain ⟨h1, ch'⟩ := p
        simp only [hl, Option.some.injEq, Prod.mk.injEq] at hc
        obtain ⟨rfl, rfl⟩ := hc
        obtain ⟨g1, l1, gl1⟩ := ihL h _ h1 ch' hl g fb (g.ch id)
        have fb1 := fb.mono l1
        refine ⟨goodH_alloc_false g1 fb1 0 (gl1.le (Nat.le_succ _)), by simp; omega, ?_⟩
        simpa using good_fresh_str fb1
    · intro h xs h' xs' hc g fb gx
      cases xs with
      | nil =>
        simp only [cloneList, Option.some.injEq, Prod.mk.injEq] at hc
        obtain ⟨rfl, rfl⟩ := hc
        exact ⟨g, Nat.le_refl _, GoodL.nil _ _⟩
      | cons x t =>
        have plain : (match cloneList f h t with
            | none => none
            | some (h2, xs') => some (h2, x :: xs')) = some (h', xs') →
            GoodH K h' ∧ h.length ≤ h'.length ∧ GoodL K h'.length xs' := by
          intro hc
          cases hl : cloneList f h t with
          | none => simp [hl] at hc
          | some p =>
            obtain ⟨h2, t'⟩ := p
            simp only [hl, Option.some.injEq, Prod.mk.injEq] at hc
            obtain ⟨rfl, rfl⟩ := hc
            obtain ⟨g2, l2, gl2⟩ := ihL h t h2 t' hl g fb gx.tail
            exact ⟨g2, l2, GoodL.cons (gx.head.le l2) gl2⟩
        cases x with
        | prim => simp only [cloneList] at hc; exact plain hc
        | arr a => simp only [cloneList] at hc; exact plain hc
        | map a => simp only [cloneList] at hc; exact plain hc
        | str d =>
          simp only [cloneList] at hc
          cases hs : cloneStruct f h d with
          | none => simp [hs] at hc
          | some p =>
            obtain ⟨h1, d'⟩ := p
            simp only [hs] at hc
            obtain ⟨g1, l1, gd⟩ := ihS h d h1 d' hs g fb
            cases hl : cloneList f h1 t with
            | none => simp [hl] at hc
            | some q =>
              obtain ⟨h2, t'⟩ := q
              simp only [hl, Option.some.injEq, Prod.mk.injEq] at hc
              obtain ⟨rfl, rfl⟩ := hc
              obtain ⟨g2, l2, gl2⟩ := ihL h1 t h2 t' hl g1 (fb.mono l1) (gx.tail.le l1)
              exact ⟨g2, Nat.le_trans l1 l2, GoodL.cons (gd.le l2) gl2⟩

theorem cloneIfStruct_good {K : Nat → Bool} {w w' : W} {x x' : Item} {isS : Bool} (h : w.cloneIfStruct x = some (x', isS, w'))
    (g : GoodW K w) (fb : FB K w.c.heap.length) (gx : Good K w.c.heap.length x) :
    GoodW K w' ∧ w.c.heap.length ≤ w'.c.heap.length ∧ Good K w'.c.heap.length x' ∧ w'.st = w.st := by
  unfold W.cloneIfStruct at h
  cases x with
  | str id =>
    simp only at h
    cases hc : cloneStruct cloneFuel w.c.heap id with
    | none => simp [hc] at h
    | some p =>
      obtain ⟨h1, id'⟩ := p
      simp only [hc, Option.some.injEq, Prod.mk.injEq] at h
      obtain ⟨rfl, _, rfl⟩ := h
      obtain ⟨g1, l1, gd⟩ := (clone_good K cloneFuel).1 _ _ _ _ hc g.h fb
      exact ⟨⟨g1, g.st.le l1⟩, l1, gd, rfl⟩
  | prim => simp only [Option.some.injEq, Prod.mk.injEq] at h; obtain ⟨rfl, _, rfl⟩ := h; exact ⟨g, Nat.le_refl _, gx, rfl⟩
  | arr a => simp only [Option.some.injEq, Prod.mk.injEq] at h; obtain ⟨rfl, _, rfl⟩ := h; exact ⟨g, Nat.le_refl _, gx, rfl⟩
  | map a => simp only [Option.some.injEq, Prod.mk.injEq] at h; obtain ⟨rfl, _, rfl⟩ := h; exact ⟨g, Nat.le_refl _, gx, rfl⟩

/-- a change of the counter part only -/
theorem GoodW.ctr {K : Nat → Bool} {w : W} (g : GoodW K w) (c' : Ctr) (hl : c'.heap.length = w.c.heap.length)
    (hc : ∀ j, chOf c'.heap j = chOf w.c.heap j) : GoodW K { w with c := c' } :=
  ⟨(goodH_congr hl hc).2 g.h, by simpa [hl] using g.st⟩

theorem cpValues_good {K : Nat → Bool} : ∀ (xs : List Item) (b : Bool) (w : W) (arr : List Item) (w' : W),
    cpValues xs b w = some (arr, w') → GoodW K w → FB K w.c.heap.length → GoodL K w.c.heap.length xs →
    GoodW K w' ∧ w.c.heap.length ≤ w'.c.heap.length ∧ GoodL K w'.c.heap.length arr ∧ w'.st = w.st := by
  intro xs
  induction xs with
  | nil =>
    intro b w arr w' h g _ _
    cases b <;>
      · simp only [cpValues, Option.some.injEq, Prod.mk.injEq] at h
        obtain ⟨rfl, rfl⟩ := h
        exact ⟨g, Nat.le_refl _, GoodL.nil _ _, rfl⟩
  | cons x t ih =>
    intro b w arr w' h g fb gx
    cases b with
    | true =>
      simp only [cpValues] at h
      cases hc : w.cloneIfStruct x with
      | none => simp [hc] at h
      | some p =>
        obtain ⟨cl, isS, w1⟩ := p
        simp only [hc] at h
        obtain ⟨g1, l1, gcl, st1⟩ := cloneIfStruct_good hc g fb gx.head
        cases hr : cpValues t true { w1 with c := w1.c.add cl } with
        | none => simp [hr] at h
        | some q =>
          obtain ⟨r, w2⟩ := q
          simp only [hr, Option.some.injEq, Prod.mk.injEq] at h
          obtain ⟨rfl, rfl⟩ := h
          have g1' : GoodW K { w1 with c := w1.c.add cl } := g1.ctr _ (by simp) (by simp)
          obtain ⟨g2, l2, gr, st2⟩ := ih true _ r w2 hr g1' (by simpa using fb.mono l1) (by simpa using gx.tail.le l1)
          simp only [length_add] at l2
          exact ⟨g2, Nat.le_trans l1 l2, GoodL.cons (gcl.le l2) gr, by rw [st2]; exact st1⟩
    | false =>
      simp only [cpValues] at h
      cases hc : w.cloneIfStruct x with
      | none => simp [hc] at h
      | some p =>
        obtain ⟨cl, isS, w1⟩ := p
        simp only [hc] at h
        obtain ⟨g1, l1, gcl, st1⟩ := cloneIfStruct_good hc g fb gx.head
        cases hr : cpValues t false (if isS = true then ({ w1 with c := (w1.c.rem x).add cl } : W) else w1) with
        | none => simp [hr] at h
        | some q =>
          obtain ⟨r, w2⟩ := q
          simp only [hr, Option.some.injEq, Prod.mk.injEq] at h
          obtain ⟨rfl, rfl⟩ := h
          have g1' : GoodW K (if isS = true then ({ w1 with c := (w1.c.rem x).add cl } : W) else w1) := by
            split
            · exact g1.ctr _ (by simp) (by simp)
            · exact g1
          have e1 : (if isS = true then ({ w1 with c := (w1.c.rem x).add cl } : W) else w1).c.heap.length = w1.c.heap.length := by
            split <;> simp
          have e2 : (if isS = true then ({ w1 with c := (w1.c.rem x).add cl } : W) else w1).st = w1.st := by
            split <;> rfl
          obtain ⟨g2, l2, gr, st2⟩ := ih false _ r w2 hr g1' (by rw [e1]; exact fb.mono l1) (by rw [e1]; exact gx.tail.le l1)
          rw [e1] at l2
          exact ⟨g2, Nat.le_trans l1 l2, GoodL.cons (gcl.le l2) gr, by rw [st2, e2]; exact st1⟩

end NeoModel.VmAcct
