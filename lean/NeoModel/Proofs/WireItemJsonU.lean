/-
C17 — the untyped JSON decoder of stack items is bounded by `maxCount` (Model/Wire/ItemJsonU.lean).
-/
import NeoModel.Model.Wire.ItemJsonU
import NeoModel.Proofs.WireItem
namespace NeoModel.Wire
open NeoModel.Generated

theorem countPairs_append_single (acc : List (Item × Item)) (k v : Item) :
    Item.countPairs (acc ++ [(k, v)]) = Item.countPairs acc + Item.count k + Item.count v := by
  induction acc with
  | nil => simp [Item.countPairs]
  | cons q qs ih => obtain ⟨qk, qv⟩ := q; simp only [List.cons_append, Item.countPairs, ih]; omega

/-- the item-count rule of `FromJSON`: what the converter returns has used exactly as many units of `maxCount` as the
item has items (every value one, every map key one), and never more than were left. -/
theorem convU_count : ∀ fuel,
    (∀ v cnt depth it c, convU fuel v cnt depth = some (some (it, c)) → c ≤ cnt ∧ Item.count it = cnt - c)
    ∧ (∀ l cnt depth xs c, convUList fuel l cnt depth = some (some (xs, c)) → c ≤ cnt ∧ Item.countList xs = cnt - c)
    ∧ (∀ m acc cnt depth kv c, convUPairs fuel m acc cnt depth = some (some (kv, c)) →
        c ≤ cnt ∧ Item.countPairs kv = Item.countPairs acc + (cnt - c)) := by
  intro fuel
  induction fuel with
  | zero =>
    refine ⟨?_, ?_, ?_⟩
    · intro v cnt depth it c h; simp [convU] at h
    · intro l cnt depth xs c h; simp [convUList] at h
    · intro m acc cnt depth kv c h; simp [convUPairs] at h
  | succ fuel ih =>
    obtain ⟨ihV, ihL, ihP⟩ := ih
    refine ⟨?_, ?_, ?_⟩
    · intro v cnt depth it c h
      simp only [convU] at h
      split at h
      · simp at h
      · rename_i hc0
        cases v with
        | null => simp at h; obtain ⟨rfl, rfl⟩ := h; simp [Item.count]; omega
        | bool b => simp at h; obtain ⟨rfl, rfl⟩ := h; simp [Item.count]; omega
        | str s => simp at h; obtain ⟨rfl, rfl⟩ := h; simp [Item.count]; omega
        | num t =>
          simp only at h
          split at h
          · simp at h; obtain ⟨rfl, rfl⟩ := h; simp [Item.count]; omega
          · simp at h
        | arr l =>
          simp only at h
          split at h
          · simp at h
          · split at h
            · simp at h
            · simp at h
            · rename_i xs c' hl
              simp at h; obtain ⟨rfl, rfl⟩ := h
              obtain ⟨a1, a2⟩ := ihL _ _ _ _ _ hl
              simp only [Item.count]; omega
        | obj m =>
          simp only at h
          split at h
          · simp at h
          · split at h
            · simp at h
            · simp at h
            · rename_i kv c' hl
              simp at h; obtain ⟨rfl, rfl⟩ := h
              obtain ⟨a1, a2⟩ := ihP _ _ _ _ _ _ hl
              simp only [Item.count, Item.countPairs] at a2 ⊢; omega
    · intro l cnt depth xs c h
      cases l with
      | nil => simp [convUList] at h; obtain ⟨rfl, rfl⟩ := h; simp [Item.countList]
      | cons x rest =>
        simp only [convUList] at h
        split at h
        · simp at h
        · simp at h
        · rename_i v c1 hv
          split at h
          · simp at h
          · simp at h
          · rename_i vs c2 hvs
            simp at h; obtain ⟨rfl, rfl⟩ := h
            obtain ⟨a1, a2⟩ := ihV _ _ _ _ _ hv
            obtain ⟨b1, b2⟩ := ihL _ _ _ _ _ hvs
            simp only [Item.countList]; omega
    · intro m acc cnt depth kv c h
      cases m with
      | nil => simp [convUPairs] at h; obtain ⟨rfl, rfl⟩ := h; simp
      | cons p rest =>
        obtain ⟨k, x⟩ := p
        simp only [convUPairs] at h
        split at h
        · simp at h
        · split at h
          · simp at h
          · split at h
            · simp at h
            · rename_i hc0
              split at h
              · simp at h
              · simp at h
              · rename_i v c1 hv
                obtain ⟨a1, a2⟩ := ihV _ _ _ _ _ hv
                obtain ⟨b1, b2⟩ := ihP _ _ _ _ _ _ h
                refine ⟨by omega, ?_⟩
                rw [b2]
                have : Item.countPairs (acc ++ [(Item.byteArray k, v)]) = Item.countPairs acc + 1 + Item.count v := by
                  rw [countPairs_append_single]; simp [Item.count]
                rw [this]; omega

/-- C17 (untyped JSON decoder is bounded): an item `FromJSON` returns has at most `maxCount` items — map keys
included — whatever the text. -/
theorem fromJSONU_bounded (maxCount : Nat) (b : Bytes) (v : Item) (h : fromJSONU maxCount b = some (some v)) :
    Item.count v ≤ maxCount := by
  unfold fromJSONU at h
  split at h
  · simp at h
  · simp at h
  · split at h
    · simp at h
    · simp at h
    · rename_i it c hc
      simp at h; subst h
      have := ((convU_count _).1 _ _ _ _ _ hc)
      omega

end NeoModel.Wire
