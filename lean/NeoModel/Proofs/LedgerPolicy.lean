/-
C01 — Policy side of the modelled natives (Model/Ledger/Natives.lean): frame lemmas for the NEO helpers and
`cache = InitializeCache(storage)` for the Policy cache over every operation, transaction and block.
-/
import NeoModel.Model.Ledger.NativeSys
namespace NeoModel.Ledger.Natives

/-- frame: what the NEO-side helpers leave alone. -/
structure Frame (v v' : TxView) : Prop where
  pol : v'.pol = v.pol
  ip : initPolicy v'.st = initPolicy v.st
  cm : v'.committee = v.committee
  scm : v'.st.committee = v.st.committee
  dep : v'.st.deployed = v.st.deployed

theorem Frame.refl (v : TxView) : Frame v v := ⟨rfl, rfl, rfl, rfl, rfl⟩
theorem Frame.trans {a b c : TxView} (h1 : Frame a b) (h2 : Frame b c) : Frame a c :=
  ⟨h2.pol.trans h1.pol, h2.ip.trans h1.ip, h2.cm.trans h1.cm, h2.scm.trans h1.scm, h2.dep.trans h1.dep⟩

theorem modifyAccountVotes_frame {v v' : TxView} {vt d n} (h : modifyAccountVotes v vt d n = some v') : Frame v v' := by
  unfold modifyAccountVotes at h
  cases vt with
  | none => simp [setVotesChanged] at h; subst h; exact ⟨rfl, rfl, rfl, rfl, rfl⟩
  | some k =>
    simp only [setVotesChanged, Option.map_eq_some_iff] at h
    obtain ⟨cs, _, rfl⟩ := h
    exact ⟨rfl, rfl, rfl, rfl, rfl⟩

theorem applyDelta_frame {v v' : TxView} {a b d} (h : applyDelta v a b d = some v') : Frame v v' := by
  simp only [applyDelta, Option.map_eq_some_iff] at h
  obtain ⟨w, hw, rfl⟩ := h
  have f := modifyAccountVotes_frame hw
  exact ⟨f.pol, f.ip, f.cm, f.scm, f.dep⟩

theorem incBalance_frame {v v' : TxView} {a d r} (h : incBalance v a d r = some v') : Frame v v' := by
  unfold incBalance at h
  split at h
  · split at h; · simp at h
    split at h; · simp at h
    split at h
    · simp at h; subst h; exact Frame.refl _
    · exact applyDelta_frame h
  · split at h; · simp at h
    split at h
    · simp at h; subst h; exact Frame.refl _
    · exact applyDelta_frame h

theorem voteInternal_frame {v v' : TxView} {a to} (h : voteInternal v a to = some v') : Frame v v' := by
  simp only [voteInternal, Option.bind_eq_some_iff] at h
  obtain ⟨b, _, h⟩ := h
  split at h; · simp at h
  simp only [Option.bind_eq_some_iff, Option.map_eq_some_iff] at h
  obtain ⟨w1, h1, w2, h2, rfl⟩ := h
  have f1 := modifyAccountVotes_frame h1
  have f2 := modifyAccountVotes_frame h2
  exact ⟨f2.pol.trans f1.pol, f2.ip.trans f1.ip, f2.cm.trans f1.cm, f2.scm.trans f1.scm, f2.dep.trans f1.dep⟩

def PolCoh (v : TxView) : Prop := v.pol = initPolicy v.st

theorem polcoh_of_frame {v v' : TxView} (f : Frame v v') (h : PolCoh v) : PolCoh v' := by
  unfold PolCoh at *; rw [f.pol, f.ip, h]

theorem revokeVotes_frame (v : TxView) (a : Acct) : Frame v (revokeVotes v a) := by
  unfold revokeVotes
  cases h : voteInternal v a none with
  | none => exact Frame.refl _
  | some w => exact voteInternal_frame h

theorem blockInternal_polcoh (v : TxView) (a : Acct) (h : PolCoh v) : PolCoh (blockInternal v a).1 := by
  unfold blockInternal
  split
  · exact h
  · have hw := polcoh_of_frame (revokeVotes_frame v a) h
    unfold PolCoh at *
    simp only [initPolicy] at *
    rw [hw]

/-- cache_coherent for the Policy cache: every operation keeps `cache = InitializeCache(storage)`. -/
theorem execOp_polcoh (v : TxView) (tx : Tx) (h : PolCoh v) : PolCoh (execOp v tx).1 := by
  unfold execOp
  split
  · -- transfer
    split; · exact h
    split; · exact h
    dsimp only
    split
    · exact h
    · rename_i w1 hw1
      have h1 := polcoh_of_frame (incBalance_frame hw1) h
      split; · exact h1
      split
      · exact h1
      · rename_i w2 hw2; exact polcoh_of_frame (incBalance_frame hw2) h1
  · split; · exact h
    split
    · exact h
    · rename_i w' hw'; exact polcoh_of_frame (voteInternal_frame hw') h
  · split
    · exact h
    · split
      · exact h
      · exact h
  · split; · exact h
    split
    · exact h
    · exact h
  · split; · exact h
    split; · exact h
    unfold PolCoh at *; simp [initPolicy] at *; simp [h]
  · split; · exact h
    split; · exact h
    unfold PolCoh at *; simp [initPolicy] at *; simp [h]
  · split; · exact h
    split; · exact h
    unfold PolCoh at *; simp [initPolicy] at *; simp [h]
  · split; · exact h
    exact blockInternal_polcoh v _ h
  · split; · exact h
    split; · exact h
    unfold PolCoh at *; simp [initPolicy] at *; simp [h]
  · split
    · exact h
    · exact h
  · split; · exact h
    rename_i c _ _
    have := blockInternal_polcoh v c h
    unfold PolCoh at *; simpa [initPolicy] using this
  · split; · exact h
    split
    · exact h
    · split; · exact h
      split
      · exact h
      · rename_i w1 hw1
        have h1 := polcoh_of_frame (incBalance_frame hw1) h
        split
        · exact h
        · rename_i w2 hw2; exact polcoh_of_frame (incBalance_frame hw2) h1
  · split; · exact h
    split
    · exact h
    · exact h
  · exact h
  · exact h

end NeoModel.Ledger.Natives

namespace NeoModel.Ledger.Natives

/-- policy coherence at the level of node states. -/
def PolCohW (w : World) : Prop := w.c.policy = initPolicy w.st

theorem execTx_polcoh (w : World) (tx : Tx) (h : PolCohW w) : PolCohW (execTx w tx).1 := by
  unfold execTx
  split; · exact h
  have hv : PolCoh (viewOf w) := h
  have := execOp_polcoh (viewOf w) tx hv
  revert this
  generalize execOp (viewOf w) tx = p
  obtain ⟨v, r⟩ := p
  intro this
  dsimp only
  split
  · exact h
  · exact this

theorem execTxs_polcoh (txs : List Tx) : ∀ (w : World), PolCohW w → PolCohW (execTxs w txs).1 := by
  induction txs with
  | nil => intro w h; exact h
  | cons tx rest ih =>
    intro w h
    simp only [execTxs]
    exact ih _ (execTx_polcoh w tx h)

theorem onPersist_polcoh (cfg : Cfg) (w : World) (h : Nat) (hc : PolCohW w) : PolCohW (onPersist cfg w h) := by
  unfold onPersist
  split
  · exact hc
  · exact hc

theorem postPersist_polcoh (cfg : Cfg) (w : World) (h : Nat) (hc : PolCohW w) : PolCohW (postPersist cfg w h) := by
  unfold postPersist
  split
  · dsimp only
    split
    · exact hc
    · exact hc
  · exact hc

/-- cache_coherent (Policy): after every block the Policy cache equals InitializeCache of the storage. -/
theorem applyBlock_polcoh (cfg : Cfg) (st : Storage) (c : Caches) (h : Nat) (txs : List Tx)
    (hc : c.policy = initPolicy st) :
    (applyBlock cfg st c h txs).2.1.policy = initPolicy (applyBlock cfg st c h txs).1 := by
  have h0 : PolCohW (onPersist cfg { st := st, c := c } h) := onPersist_polcoh cfg _ h hc
  have h1 := execTxs_polcoh txs _ h0
  have h2 := postPersist_polcoh cfg _ h h1
  exact h2

end NeoModel.Ledger.Natives
