/-
C17 — lawfulness of the P2P payload codecs, the notary request and the message frame.
-/
import NeoModel.Model.Wire.P2P
import NeoModel.Proofs.WireTx
import NeoModel.Proofs.WireCons
namespace NeoModel.Wire
open Codec
open NeoModel.Generated

/-! ### P2P payloads (pkg/network/payload, pkg/network/capability) -/

theorem pingC_lawful : pingC.Lawful :=
  map_lawful (seq_lawful (uintLE_lawful 4) (seq_lawful (uintLE_lawful 4) (uintLE_lawful 4))) (fun _ _ => rfl)

theorem getBlocksC_lawful : getBlocksC.Lawful :=
  map_lawful (seq_lawful (fixed_lawful 32) (refine_lawful (uintLE_lawful 2))) (fun _ _ => rfl)

theorem getBlockByIndexC_lawful : getBlockByIndexC.Lawful :=
  map_lawful (seq_lawful (uintLE_lawful 4) (refine_lawful (uintLE_lawful 2))) (fun _ _ => rfl)

theorem hashListC_lawful (max : Nat) : (hashListC max).Lawful := array_lawful (fixed_lawful 32) (fixed_strict 32 (by decide))

theorem inventoryC_lawful : inventoryC.Lawful := map_lawful (seq_lawful byte_lawful (hashListC_lawful _)) (fun _ _ => rfl)

theorem mptInventoryC_lawful : mptInventoryC.Lawful := hashListC_lawful _

theorem mptDataC_lawful : mptDataC.Lawful := refine_lawful (array_lawful (varBytes_lawful _) (varBytes_strict _))

theorem headersC_lawful (sr : Bool) : (headersC sr).Lawful := refine_lawful (array_lawful (headerC_lawful sr) (headerC_strict sr))

/-! capabilities -/

theorem capBody_facts (t : UInt8) : (capBody t).Lawful ∧ (capBody t).allocK ≤ 1 ∧ (capBody t).allocC ≤ WireLimits.maxArraySize := by
  unfold capBody
  split
  · exact ⟨map_lawful (uintLE_lawful 2) (fun _ _ => rfl), by simp [map, uintLE], by simp [map, uintLE]⟩
  · split
    · exact ⟨map_lawful (uintLE_lawful 4) (fun _ _ => rfl), by simp [map, uintLE], by simp [map, uintLE]⟩
    · split
      · refine ⟨map_lawful (refine_lawful byte_lawful) ?_, by simp [map, refine, byte], by simp [map, refine, byte]⟩
        intro a hw
        have := hw.2
        simp only [beq_iff_eq] at this
        exact this.symm
      · exact ⟨map_lawful (varBytes_lawful _) (fun _ _ => rfl), by simp [map, varBytes], by simp [map, varBytes]⟩

theorem capabilityC_lawful : capabilityC.Lawful :=
  tagged_lawful (fun t => map_lawful (capBody_facts t).1 (fun _ _ => rfl)) (fun t => (capBody_facts t).2.1)
    (fun t => (capBody_facts t).2.2)

theorem capabilityC_strict : capabilityC.Strict :=
  tagged_strict (fun t => map_lawful (capBody_facts t).1 (fun _ _ => rfl))

theorem capabilitiesC_lawful : capabilitiesC.Lawful := refine_lawful (array_lawful capabilityC_lawful capabilityC_strict)
theorem capabilitiesC_strict : capabilitiesC.Strict := refine_strict (array_strict capabilityC_lawful)

theorem versionC_lawful : versionC.Lawful :=
  map_lawful (seq_lawful (uintLE_lawful 4) (seq_lawful (uintLE_lawful 4) (seq_lawful (uintLE_lawful 4)
    (seq_lawful (uintLE_lawful 4) (seq_lawful (varBytes_lawful _) capabilitiesC_lawful))))) (fun _ _ => rfl)

theorem addressAndTimeC_lawful : addressAndTimeC.Lawful :=
  map_lawful (seq_lawful (uintLE_lawful 4) (seq_lawful (fixed_lawful 16) capabilitiesC_lawful)) (fun _ _ => rfl)
theorem addressAndTimeC_strict : addressAndTimeC.Strict :=
  map_strict (seq_strict_left (uintLE_strict 4 (by decide)) (seq_lawful (fixed_lawful 16) capabilitiesC_lawful))

theorem addressListC_lawful : addressListC.Lawful := refine_lawful (array_lawful addressAndTimeC_lawful addressAndTimeC_strict)

theorem merkleTail_facts (n : Nat) :
    (merkleTailC n).Lawful ∧ (merkleTailC n).allocK ≤ merkleK ∧ (merkleTailC n).allocC ≤ merkleCap := by
  have hm : Nat.min n WireLimits.maxTransactionsPerBlock ≤ WireLimits.maxTransactionsPerBlock := Nat.min_le_right _ _
  refine ⟨seq_lawful (refine_lawful (hashListC_lawful _)) (varBytes_lawful _), ?_, ?_⟩
  · simp [merkleTailC, merkleK, seq_allocK, refine, hashListC, array, fixed, varBytes]
  · simp only [merkleTailC, merkleCap, seq_allocC, refine, hashListC, array, fixed, varBytes, Nat.add_zero]
    have h1 := Nat.mul_le_mul_right WireLimits.slotUint256 hm
    have h2 : (Nat.min n WireLimits.maxTransactionsPerBlock + 7) / 8 ≤ (WireLimits.maxTransactionsPerBlock + 7) / 8 :=
      Nat.div_le_div_right (by omega)
    simp only [Nat.max_def]; split <;> split <;> omega

theorem merkleBlockC_lawful : merkleBlockC.Lawful :=
  map_lawful (bind_lawful (seq_lawful (headerC_lawful false) (refine_lawful varUint_lawful))
    (fun p => (merkleTail_facts p.2).1) (fun p => (merkleTail_facts p.2).2.1) (fun p => (merkleTail_facts p.2).2.2))
    (by
      intro a hw
      obtain ⟨⟨h, n⟩, ⟨hs, fl⟩⟩ := a
      obtain ⟨_, ⟨⟨_, hlen⟩, _⟩⟩ := hw
      simp only [beq_iff_eq] at hlen
      simp only at hlen ⊢
      rw [hlen])


/-! ### P2P notary request (pkg/network/payload/notary_request.go) -/

theorem notaryRequestC_lawful (H : Bytes → Bytes) (cv : Curve) (hs : cv.Sound) : (notaryRequestC H cv).Lawful :=
  map_lawful (seq_lawful (refine_lawful (seq_lawful (txC_lawful cv hs) (txC_lawful cv hs))) witnessC_lawful)
    (fun _ _ => rfl)

theorem notaryRequestC_strict (H : Bytes → Bytes) (cv : Curve) (hs : cv.Sound) : (notaryRequestC H cv).Strict :=
  map_strict (seq_strict_left (refine_strict (seq_strict_left (txC_strict cv hs) (txC_lawful cv hs))) witnessC_lawful)

/-! ### message framing (pkg/network/message.go) -/

theorem frameC_lawful : frameC.Lawful :=
  map_lawful (refine_lawful (seq_lawful byte_lawful (seq_lawful byte_lawful (varBytes_lawful _)))) (fun _ _ => rfl)

theorem frameC_strict : frameC.Strict :=
  map_strict (refine_strict (seq_strict_left byte_strict (seq_lawful byte_lawful (varBytes_lawful _))))

theorem run_rt {α : Type} {c : Codec α} (h : c.Lawful) (v : α) (hw : c.wf v) :
    ∃ x, c.dec (c.enc v) = some (v, x) := by
  have := h.roundtrip v [] hw
  simp only [List.append_nil] at this
  exact ⟨[], this⟩

/-- the payload decoder selected by the command reads back the canonical payload bytes. -/
theorem payloadDec_enc (H : Bytes → Bytes) (cv : Curve) (hs : cv.Sound) (sr : Bool) (cmd : UInt8) (p : P2PPayload)
    (hc : cmdOk cmd p) (hw : payloadWf H cv sr p) (hn : payloadEnc H cv sr p ≠ []) :
    payloadDec H cv sr cmd (payloadEnc H cv sr p) = some p := by
  cases p with
  | null => simp [payloadEnc] at hn
  | version v => simp only [cmdOk] at hc; subst hc; simp [payloadDec, payloadEnc, isNullCmd]; exact run_rt versionC_lawful v hw
  | addr l => simp only [cmdOk] at hc; subst hc; simp [payloadDec, payloadEnc, isNullCmd]; exact run_rt addressListC_lawful l hw
  | ping q =>
    simp only [cmdOk] at hc
    rcases hc with hc | hc <;> subst hc <;> simp [payloadDec, payloadEnc, isNullCmd] <;> exact run_rt pingC_lawful q hw
  | getBlockByIndex g =>
    simp only [cmdOk] at hc
    rcases hc with hc | hc <;> subst hc <;> simp [payloadDec, payloadEnc, isNullCmd] <;> exact run_rt getBlockByIndexC_lawful g hw
  | headers l => simp only [cmdOk] at hc; subst hc; simp [payloadDec, payloadEnc, isNullCmd]; exact run_rt (headersC_lawful sr) l hw
  | getBlocks g => simp only [cmdOk] at hc; subst hc; simp [payloadDec, payloadEnc, isNullCmd]; exact run_rt getBlocksC_lawful g hw
  | inventory i =>
    simp only [cmdOk] at hc
    rcases hc with hc | hc | hc <;> subst hc <;> simp [payloadDec, payloadEnc, isNullCmd] <;> exact run_rt inventoryC_lawful i hw
  | tx t =>
    simp only [cmdOk] at hc; subst hc
    have := (txC_lawful cv hs).roundtrip t [] hw
    simp only [List.append_nil] at this
    simp [payloadDec, payloadEnc, isNullCmd, this]
  | block b => simp only [cmdOk] at hc; subst hc; simp [payloadDec, payloadEnc, isNullCmd]; exact run_rt (blockC_lawful cv hs sr) b hw
  | extensible e => simp only [cmdOk] at hc; subst hc; simp [payloadDec, payloadEnc, isNullCmd]; exact run_rt extensibleC_lawful e hw
  | notary r => simp only [cmdOk] at hc; subst hc; simp [payloadDec, payloadEnc, isNullCmd]; exact run_rt (notaryRequestC_lawful H cv hs) r hw
  | mptInventory l => simp only [cmdOk] at hc; subst hc; simp [payloadDec, payloadEnc, isNullCmd]; exact run_rt mptInventoryC_lawful l hw
  | mptData l => simp only [cmdOk] at hc; subst hc; simp [payloadDec, payloadEnc, isNullCmd]; exact run_rt mptDataC_lawful l hw
  | merkleBlock m => simp only [cmdOk] at hc; subst hc; simp [payloadDec, payloadEnc, isNullCmd]; exact run_rt merkleBlockC_lawful m hw


/-- C17 (P2P message) round trip of a fresh message through the frame, the (abstract) compression and the payload
decoder selected by the command. Hypotheses about the compression pair: `decompress ∘ compress = id` (the real LZ4
pair violates it on amd64: known finding message-lz4-roundtrip) and a non-empty output within payload.MaxSize. -/
theorem message_roundtrip (compress : Bytes → Bytes) (decompress : Bytes → Option Bytes) (compressible : UInt8 → Bool)
    (hinv : ∀ x, decompress (compress x) = some x) (H : Bytes → Bytes) (cv : Curve) (hs : cv.Sound) (sr : Bool)
    (cmd : UInt8) (p : P2PPayload) (r : Bytes) (hc : cmdOk cmd p) (hw : payloadWf H cv sr p)
    (hnull : payloadEnc H cv sr p = [] → p = .null)
    (hsz : (payloadEnc H cv sr p).length ≤ WireLimits.payloadMaxSize)
    (hcz : (compress (payloadEnc H cv sr p)).length ≤ WireLimits.payloadMaxSize ∧ compress (payloadEnc H cv sr p) ≠ []) :
    messageDec decompress H cv sr (messageEnc compress compressible H cv sr cmd p ++ r) = some (cmd, p, r) := by
  have hmax : WireLimits.payloadMaxSize < 2 ^ 64 := by decide
  simp only [messageEnc]
  split
  · -- compressed
    have hfw : frameC.wf ⟨1, cmd, compress (payloadEnc H cv sr p)⟩ := by
      refine ⟨⟨⟨trivial, trivial, hcz.1, Nat.lt_of_le_of_lt hcz.1 hmax⟩, ?_⟩, rfl⟩
      have : (compress (payloadEnc H cv sr p)).isEmpty = false := by
        cases hx : compress (payloadEnc H cv sr p) with
        | nil => exact absurd hx hcz.2
        | cons _ _ => rfl
      simp [this]
    have hne : (compress (payloadEnc H cv sr p)).isEmpty = false := by
      cases hx : compress (payloadEnc H cv sr p) with
      | nil => exact absurd hx hcz.2
      | cons _ _ => rfl
    have hbody : payloadEnc H cv sr p ≠ [] := by
      rename_i hcond
      simp only [Bool.and_eq_true, decide_eq_true_eq] at hcond
      intro he; rw [he] at hcond; simp at hcond
    simp only [messageDec, frameC_lawful.roundtrip _ r hfw, hne, Bool.false_eq_true, if_false]
    have h1 : ((1 : UInt8) &&& 1 != 0) = true := by decide
    simp only [h1, if_true, hinv, payloadDec_enc H cv hs sr cmd p hc hw hbody, Option.map_some]
  · -- not compressed
    by_cases he : payloadEnc H cv sr p = []
    · have hp := hnull he
      subst hp
      have hfw : frameC.wf ⟨0, cmd, payloadEnc H cv sr .null⟩ := by
        refine ⟨⟨⟨trivial, trivial, by rw [he]; simp, by rw [he]; simp⟩, ?_⟩, rfl⟩
        simp only [cmdOk] at hc
        simp [he, hc]
      simp only [messageDec, frameC_lawful.roundtrip _ r hfw]
      simp [he]
    · have hne : (payloadEnc H cv sr p).isEmpty = false := by
        cases hx : payloadEnc H cv sr p with
        | nil => exact absurd hx he
        | cons _ _ => rfl
      have hfw : frameC.wf ⟨0, cmd, payloadEnc H cv sr p⟩ := by
        refine ⟨⟨⟨trivial, trivial, hsz, Nat.lt_of_le_of_lt hsz hmax⟩, ?_⟩, rfl⟩
        simp [hne]
      simp only [messageDec, frameC_lawful.roundtrip _ r hfw, hne, Bool.false_eq_true, if_false]
      have h0 : ((0 : UInt8) &&& 1 != 0) = false := by decide
      simp only [h0, Bool.false_eq_true, if_false, payloadDec_enc H cv hs sr cmd p hc hw he, Option.map_some]

end NeoModel.Wire
