/-
C11 helper lemmas: occurrences vs. recorded events for PutBatch (batch.go).
-/
import NeoModel.Model.MptRc
import NeoModel.Proofs.MptRcOcc
import NeoModel.Proofs.MptBatch
set_option linter.unusedSimpArgs false
set_option linter.unusedVariables false
namespace NeoModel.MptRc
open NeoModel.Mpt

theorem mergeExt_nil (n : Node) : mergeExt [] n = n := by
  cases n <;> simp [mergeExt, newSub]

theorem occ_mergeExt (P : Node → Bool) (pre : Path) (n : Node) :
    (occ P (mergeExt pre n) : Int) = occ P n + net P (mergeExtEv pre n) := by
  cases n with
  | empty => simp [mergeExt, mergeExtEv, net_nil]
  | ext k m => simp only [mergeExt, mergeExtEv, occ_ext, net_cons_rm, net_single_add]; omega
  | leaf w =>
    cases pre with
    | nil => simp [mergeExt, mergeExtEv, newSub, net_nil]
    | cons a pre => simp only [mergeExt, mergeExtEv, newSub, occ_ext, net_single_add]; omega
  | branch cs v =>
    cases pre with
    | nil => simp [mergeExt, mergeExtEv, newSub, net_nil]
    | cons a pre => simp only [mergeExt, mergeExtEv, newSub, occ_ext, net_single_add]; omega

theorem occ_stripBranch (P : Node → Bool) (cs : Nib → Node) (v : Option Val) :
    (occ P (stripBranch cs v) : Int) = ksum P cs + occSlot P v + net P (stripBranchEv cs v) := by
  have hk := ksum_kids P cs
  rcases hkk : kids cs with _ | ⟨i, _ | ⟨j, r⟩⟩
  · rw [hkk] at hk
    cases v with
    | none => simp [stripBranch, stripBranchEv, hkk, hk, occ_empty, occSlot, net_nil]
    | some w => simp [stripBranch, stripBranchEv, hkk, hk, occ_leaf, occSlot, net_nil]
  · rw [hkk] at hk
    simp only [List.map_cons, List.map_nil, List.sum_cons, List.sum_nil, Nat.add_zero] at hk
    cases v with
    | none =>
      simp only [stripBranch, stripBranchEv, hkk, occSlot]
      rw [occ_mergeExt, hk]; omega
    | some w =>
      simp only [stripBranch, stripBranchEv, hkk, net_single_add, occ_branch]
      omega
  · cases v <;> simp only [stripBranch, stripBranchEv, hkk, net_single_add, occ_branch] <;> omega

theorem occSlot_slot (P : Node → Bool) (kv : Batch) (old : Option Val) :
    (occSlot P (slot kv old) : Int) = occSlot P old + net P (slotEv old kv) := by
  simp only [slot, slotEv]
  cases List.lookup [] kv with
  | none => simp [net_nil]
  | some ov =>
    cases old <;> cases ov <;> simp [occSlot, net_append, net_addL, net_rmL, net_nil] <;> omega

theorem net_optAddL (P : Node → Bool) (v : Option Val) : net P (optAddL v) = occSlot P v := by
  cases v <;> simp [optAddL, occSlot, net_addL, net_nil]

/-- children sums: if every child satisfies `occ = base + net`, so does the sum. -/
theorem ksum_flatMap (P : Node → Bool) (cs' : Nib → Node) (base : Nib → Nat) (f : Nib → Evs)
    (h : ∀ c, (occ P (cs' c) : Int) = base c + net P (f c)) :
    (ksum P cs' : Int) = (((List.finRange 16).map base).sum : Nat) + net P ((List.finRange 16).flatMap f) := by
  simp only [ksum]
  induction (List.finRange 16) with
  | nil => simp [net_nil]
  | cons a l ih =>
    simp only [List.map_cons, List.sum_cons, List.flatMap_cons, net_append, Int.natCast_add]
    have := h a
    omega

theorem sum_zero (l : List Nib) : (l.map fun (_ : Nib) => (0 : Nat)).sum = 0 := by
  induction l with
  | nil => rfl
  | cons a l ih => simpa using ih

theorem sum_indicator (c0 : Nib) (x : Nat) :
    ((List.finRange 16).map fun c => if c = c0 then x else 0).sum = x := by
  have := sum_map_upd (List.finRange 16) (List.nodup_finRange 16) (fun _ => 0) c0 x
  simpa [sum_zero] using this

/-- `value = kv[0].value` when the first key is empty (batch.go:253). -/
def firstVal (e : KV) (value : Option Val) : Option Val :=
  match e with
  | ([], some w) => some w
  | _ => value

/-- the general case of `manyEv` under the side conditions `fun_induction many` provides. -/
theorem manyEv_general (pre : Path) (value : Option Val) (e : KV) (rest : List KV)
    (h1 : e = ([], none) → rest = [] → False)
    (h2 : ∀ (e_1 : KV) (rest_1 : List KV), e = ([], none) → rest = e_1 :: rest_1 → False)
    (h3 : ∀ (w : Val), e = ([], some w) → rest = [] → False) :
    manyEv pre (e :: rest) value =
      (let kv := e :: rest
       let value' : Option Val := firstVal e value
       let cs' : Nib → Node := fun c =>
         if h : sub c kv = [] then .empty
         else many (lcpMany (sub c kv)) (stripN (lcpMany (sub c kv)).length (sub c kv)) none
       optAddL value' ++ slotEv value' kv ++
         (List.finRange 16).flatMap (fun c =>
           if h : sub c kv = [] then []
           else manyEv (lcpMany (sub c kv)) (stripN (lcpMany (sub c kv)).length (sub c kv)) none) ++
         stripBranchEv cs' (slot kv value') ++ mergeExtEv pre (stripBranch cs' (slot kv value'))) := by
  rw [manyEv.eq_def]
  split
  · rename_i heq; cases heq
  · rename_i heq; cases heq; exact absurd rfl (fun h => h1 h rfl)
  · rename_i heq; cases heq; exact (h2 _ _ rfl rfl).elim
  · rename_i heq; cases heq; exact (h3 _ rfl rfl).elim
  · rename_i heq; cases heq
    obtain ⟨k, ov⟩ := e
    cases k <;> cases ov <;> rfl

/-- batch.go:241-269: a sub-trie built from nothing holds exactly what the events add. -/
theorem occ_many (P : Node → Bool) (pre : Path) (kv : Batch) (value : Option Val) :
    (occ P (many pre kv value) : Int) = net P (manyEv pre kv value) := by
  fun_induction many pre kv value with
  | case1 pre value => simp [manyEv, net_nil, occ_empty]
  | case2 pre value => simp [manyEv, net_nil, occ_empty]
  | case3 pre value e rest ih => rw [manyEv]; exact ih
  | case4 pre value w =>
    rw [manyEv]
    have := occ_newSub P pre (.leaf w) true
    simp only [occ_leaf, if_true] at this
    omega
  | case5 pre value e rest h1 h2 h3 kv value' ih =>
    have hv : firstVal e value = value' := by
      obtain ⟨k, ov⟩ := e
      cases k <;> cases ov <;> rfl
    have hkv : e :: rest = kv := rfl
    rw [manyEv_general _ _ _ _ h1 h2 h3]
    simp only [net_append, net_optAddL]
    rw [hv, hkv]
    rw [occ_mergeExt, occ_stripBranch, occSlot_slot]
    have hs := ksum_flatMap P
      (fun c => if h : sub c kv = [] then Node.empty
        else many (lcpMany (sub c kv)) (stripN (lcpMany (sub c kv)).length (sub c kv)) none)
      (fun _ => 0)
      (fun c => if h : sub c kv = [] then []
        else manyEv (lcpMany (sub c kv)) (stripN (lcpMany (sub c kv)).length (sub c kv)) none)
      (by
        intro c
        by_cases hg : sub c kv = []
        · simp [hg, net_nil, occ_empty]
        · simp only [hg, dite_false]
          have := ih c hg
          omega)
    rw [sum_zero] at hs
    omega

theorem occ_intoEmpty (P : Node → Bool) (kv : Batch) :
    (occ P (intoEmpty kv) : Int) = net P (intoEmptyEv kv) := occ_many P _ _ _

/-- batch.go:106-140 with the events: `putBatchIntoExtension` on `newSubTrie(k, next)`. -/
theorem occ_extBatch (P : Node → Bool) (next : Node) (rnextEv : Batch → Evs) (rnext : Batch → Node)
    (hr : ∀ kv, (occ P (rnext kv) : Int) = occ P next + net P (rnextEv kv))
    (k : Path) (kv : Batch) :
    (occ P (extBatch next rnext k kv) : Int) =
      occ P (newSub k next) + net P (extBatchEv next rnextEv rnext k kv) := by
  fun_induction extBatch next rnext k kv with
  | case1 kv => rw [extBatchEv]; simpa [newSub] using hr kv
  | case2 kv kh kt pref hlen =>
    rw [extBatchEv]
    simp only [net_cons_rm]
    have hl : (lcp (lcpMany kv) (kh :: kt)).length = (kh :: kt).length := hlen
    have hpref : lcp (lcpMany kv) (kh :: kt) = pref := rfl
    simp only [hpref]
    simp only [hlen, if_true, net_append]
    rw [occ_mergeExt, hr]
    simp only [newSub, occ_ext]
    omega
  | case3 kv kh kt pref hlen hdrop =>
    exfalso
    have := prefix_drop (lcp_prefix_right (lcpMany kv) (kh :: kt))
    have hl := congrArg List.length this
    rw [hdrop] at hl
    simp at hl
    exact hlen (by simpa using hl.symm)
  | case4 kv kh kt pref hlen kv' c0 rest hdrop ih =>
    rw [extBatchEv]
    simp only [net_cons_rm]
    have hl : ¬ (lcp (lcpMany kv) (kh :: kt)).length = (kh :: kt).length := hlen
    have hpref : lcp (lcpMany kv) (kh :: kt) = pref := rfl
    have hkv' : stripN pref.length kv = kv' := rfl
    simp only [hpref]
    simp only [hlen, if_false, hkv']
    split
    · rename_i heq; rw [hdrop] at heq; cases heq
    · rename_i c0' rest' heq
      have heq' : c0 :: rest = c0' :: rest' := by rw [← hdrop]; exact heq
      cases heq'
      simp only [net_append]
      have hsum := ksum_flatMap P
        (fun c =>
          if c = c0 then
            (if sub c kv' = [] then newSub rest next else extBatch next rnext rest (sub c kv'))
          else
            (if sub c kv' = [] then Node.empty else intoEmpty (sub c kv')))
        (fun c => if c = c0 then occ P (newSub rest next) else 0)
        (fun c =>
          if sub c kv' = [] then []
          else if c = c0 then extBatchEv next rnextEv rnext rest (sub c kv')
          else intoEmptyEv (sub c kv'))
        (by
          intro c
          by_cases hc : c = c0
          · subst hc
            by_cases hg : sub c kv' = []
            · simp [hg, net_nil]
            · simp only [hg, if_false, if_true]
              exact ih c
          · by_cases hg : sub c kv' = []
            · simp [hc, hg, net_nil, occ_empty]
            · simp only [hc, hg, if_false]
              rw [occ_intoEmpty]; simp)
      rw [sum_indicator] at hsum
      have hns := occ_newSub P rest next false
      simp only [Bool.false_eq_true, if_false] at hns
      have hslot := occSlot_slot P kv' none
      have h0 : occSlot P none = 0 := rfl
      rw [h0] at hslot
      have hme : ∀ x, (occ P (mergeExt pref x) : Int) = occ P x + net P (mergeExtEvNE pref x) := by
        intro x
        cases hp : pref with
        | nil => simp [mergeExt_nil, mergeExtEvNE, net_nil]
        | cons a pr => simp only [mergeExtEvNE]; exact occ_mergeExt P _ x
      rw [hme, occ_stripBranch]
      have hk : occ P (newSub (kh :: kt) next) = b2n (P (.ext (kh :: kt) next)) + occ P next := rfl
      omega

/-- C11.1 (PutBatch, one node): batch.go:54-69. -/
theorem occ_putBatchNode (P : Node → Bool) (t : Node) : ∀ (kv : Batch),
    (occ P (putBatchNode t kv) : Int) = occ P t + net P (putBatchEv t kv) := by
  induction t with
  | empty => intro kv; simp only [putBatchNode, putBatchEv, occ_empty]; rw [occ_intoEmpty]; simp
  | leaf w =>
    intro kv
    simp only [putBatchNode, putBatchEv, net_append, net_rmL, occ_leaf]
    rw [occ_many]; omega
  | ext k n ih =>
    intro kv
    cases k with
    | nil =>
      simp only [putBatchNode, putBatchEv, net_cons_rm, net_append]
      rw [extBatch]
      have h := ih kv
      have hm := occ_mergeExt P [] (putBatchNode n kv)
      rw [mergeExt_nil] at hm
      simp only [occ_ext]
      omega
    | cons kh kt =>
      simp only [putBatchNode, putBatchEv]
      rw [occ_extBatch P n (fun kv' => putBatchEv n kv') (fun kv' => putBatchNode n kv') (fun kv' => ih kv')]
      rfl
  | branch cs v ih =>
    intro kv
    simp only [putBatchNode, putBatchEv, net_cons_rm, net_append]
    rw [occ_stripBranch, occSlot_slot]
    have hsum := ksum_flatMap P
      (fun c => if sub c kv = [] then cs c else putBatchNode (cs c) (sub c kv))
      (fun c => occ P (cs c))
      (fun c => if sub c kv = [] then [] else putBatchEv (cs c) (sub c kv))
      (by
        intro c
        by_cases hg : sub c kv = []
        · simp [hg, net_nil]
        · simp only [hg, if_false]; exact ih c _)
    have hk : ((List.finRange 16).map fun c => occ P (cs c)).sum = ksum P cs := rfl
    rw [hk] at hsum
    simp only [occ_branch]
    omega

/-- C11.1 (PutBatch): batch.go:41-48. -/
theorem occ_putBatch (P : Node → Bool) (t : Node) (kv : Batch) :
    (occ P (putBatch t kv) : Int) = occ P t + net P (putBatchTopEv t kv) := by
  cases kv with
  | nil => simp [putBatch, putBatchTopEv, net_nil]
  | cons e r => simp only [putBatch, putBatchTopEv]; exact occ_putBatchNode P t _

end NeoModel.MptRc
