/- C19 simulation, part C4: sendCommit. -/
import NeoModel.Proofs.DbftSimC3
namespace NeoModel.Dbft.Mach
open NeoModel.Dbft

theorem slot_set_self {α : Type} (l : List (Option α)) (j : Nat) (v : Option α) (hj : j < l.length) :
    slot (l.set j v) j = v := by
  unfold slot; simp [hj]

theorem slot_set_other {α : Type} (l : List (Option α)) (j k : Nat) (v : Option α) (h : k ≠ j) :
    slot (l.set j v) k = slot l k := by
  unfold slot; rw [List.getElem?_set_ne (Ne.symm h)]

/-- the request a machine holds, and what the relation says about it -/
theorem header_request {e : Env} {as : State} {i : Nat} {nd : Node} (h : RN e as i nd) (b : Block)
    (hh : nd.header = some b) :
    ∃ x p, slot nd.prep nd.pidx = some (.prepReq x p) ∧ b = ⟨nd.bi, nd.view, p⟩ ∧
      b ∈ (as.nodes nd.pidx).myPreps ∧ nd.pidx = e.primary nd.bi nd.view := by
  unfold Node.header Node.curProp at hh
  cases hs : slot nd.prep nd.pidx with
  | none => simp [hs] at hh
  | some m =>
    cases m with
    | prepReq x p =>
      simp only [hs, Option.map_some, Option.some.injEq] at hh
      obtain ⟨hd, hc, _, _⟩ := h.prep _ _ hs
      simp only [Pl.hd] at hd
      subst hd
      obtain ⟨c1, c2, c3⟩ := hc
      exact ⟨_, p, rfl, hh.symm, by rw [← hh]; exact c2, h.pidx⟩
    | _ => simp [hs] at hh

/-- every validator with something in a Prepare slot prepared the block of the request held -/
theorem slots_prepared {e : Env} {as : State} {i : Nat} {nd : Node} (h : RN e as i nd) (g : G e as) (b : Block)
    (hh : nd.header = some b) (j : Nat) (m : Pl) (hj : slot nd.prep j = some m) :
    b ∈ (as.nodes j).myPreps := by
  obtain ⟨x, p, _, rfl, hb, hp⟩ := header_request h b hh
  rw [hp] at hb
  apply prepared_is_request g hb
  obtain ⟨hd, hc, hpz, _⟩ := h.prep j m hj
  cases m with
  | prepReq y q => simp only [Pl.hd] at hd; subst hd; exact ⟨_, hc.2.1, rfl, rfl⟩
  | prepResp y q => simp only [Pl.hd] at hd; subst hd; exact hc
  | _ => simp [isPrep] at hpz

theorem prepared_of_prepItem (c : Cfg) (known : List Item) (b : Block) (j : Nat) (h : prepItem c j b ∈ known) :
    prepared known b j = true := by
  unfold prepItem at h
  unfold prepared
  split at h <;> simp [h]

/-- send.go:143-184 on the machine, when checkPrepare found M preparations and the request -/
theorem prog_sendCommit {e : Env} {as : State} {i : Nat} {w : W} (h : Good e as i w)
    (hbp : w.nd.blockProcessed = false)
    (hcnt : e.m ≤ (w.nd.prep.filter fun s => match s with | some m => m.hd.v == w.nd.view | none => false).length) :
    Prog e i as (sendCommit w) := by
  unfold sendCommit
  simp only
  cases hown : slot w.nd.commit w.nd.my with
  | some msg =>
    simp only
    obtain ⟨x, sb, rfl, hf, hxh, hm⟩ := h.rn.commit _ _ hown
    exact Prog.of_good (good_bcast h _ (by show sb ∈ _ ∧ _ ∧ _; rw [hf, hxh]; exact hm))
  | none =>
    simp only
    cases hh : w.nd.header with
    | none => exact Prog.of_good h
    | some b =>
      simp only
      have hmy := h.rn.my
      obtain ⟨hbi, hview, hgp, hgc⟩ := h.synced hbp
      obtain ⟨x, p, hslot, hbeq, hbprim, hpidx⟩ := header_request h.rn b hh
      -- everything needed is true, hence known or deliverable
      let S : List Item := ((List.range e.n).filter fun j => (slot w.nd.prep j).isSome).map fun j => prepItem (cfgOf e) j b
      have hS : ∀ it ∈ S, it ∈ (as.nodes i).known ∨ (i, Msg.item it) ∈ as.net := by
        intro it hit
        simp only [S, List.mem_map, List.mem_filter, List.mem_range] at hit
        obtain ⟨j, ⟨hjn, hjs⟩, rfl⟩ := hit
        obtain ⟨m, hm⟩ := Option.isSome_iff_exists.mp hjs
        have hbj := slots_prepared h.rn h.g b hh j m hm
        obtain ⟨hb1, hb2⟩ := h.g.2.1 j b hbj
        by_cases hji : j = i
        · subst hji; exact Or.inl hb2
        · exact Or.inr (hb1 i h.lt (Ne.symm hji))
      obtain ⟨as1, x1, k1, h1, v1, c1, p1, m1⟩ := ext_get_all (cfgOf e) i S as hS
      have g1 := h.ext_same x1 h1 v1 c1 p1 m1
      -- the guard of sendCommit
      have hcount : (cfgOf e).m ≤ countP (cfgOf e).n (prepared (as1.nodes i).known b) := by
        have hle := filter_le_countP w.nd.prep
          (fun s => match s with | some m => m.hd.v == w.nd.view | none => false)
          (fun j => (slot w.nd.prep j).isSome) rfl (by intro j m hj _; simp [hj])
        rw [h.rn.lens.1] at hle
        refine Nat.le_trans hcnt (Nat.le_trans hle (countP_mono _ _ _ ?_))
        intro j hj hs
        apply prepared_of_prepItem (cfgOf e)
        apply k1
        simp only [S, List.mem_map, List.mem_filter, List.mem_range]
        exact ⟨j, ⟨hj, hs⟩, rfl⟩
      have hreqk : Item.prepReq ((cfgOf e).primary b.h b.v) b ∈ (as1.nodes i).known := by
        have hpl : w.nd.pidx < e.n := by rw [← h.rn.lens.1]; exact slot_lt hslot
        have : prepItem (cfgOf e) w.nd.pidx b ∈ (as1.nodes i).known := by
          apply k1
          simp only [S, List.mem_map, List.mem_filter, List.mem_range]
          exact ⟨w.nd.pidx, ⟨hpl, by simp [hslot]⟩, rfl⟩
        have hprim : (cfgOf e).primary b.h b.v = w.nd.pidx := by rw [hbeq, hpidx]; rfl
        unfold prepItem at this
        rw [hprim]
        rw [if_pos hprim.symm] at this
        exact this
      have hen : Enabled (cfgOf e) as1 (.sendCommit i b) := by
        refine ⟨h.lt, by rw [h1, hbeq]; exact hbi, by rw [v1, hbeq]; exact hview, hreqk, hcount, ?_⟩
        intro b' hb' hbh
        rw [m1] at hb'
        have := hgc ⟨b', hb', by rw [hbh, h1]; exact hbi.symm⟩
        unfold Node.commitSent at this
        rw [hown] at this
        cases this
      obtain ⟨x2, hbc, hmc, hmp, hh2, hv2, hc2⟩ := ext_sendCommit (cfgOf e) as1 i b hen
      refine ⟨_, x1.trans x2, ?_⟩
      have hlen : w.nd.my < w.nd.commit.length := by rw [h.rn.lens.2.1, hmy]; exact h.lt
      have hbin : b ∈ ((apply (cfgOf e) as1 (.sendCommit i b)).nodes i).myCommits := by rw [hmc]; simp
      have rn1 := g1.rn
      refine ⟨g1.g.ext x2, ?_, ?_, fun b' s hp => g1.blk b' s (by simpa [bcast, W.emit, W.upd] using hp), h.st, h.lt⟩
      · refine ⟨rn1.my, by simpa [bcast, W.emit, W.upd] using rn1.lens, by rw [hc2]; exact rn1.chain, by rw [hh2]; exact rn1.height, ?_, rn1.pidx,
          ?_, ?_, ?_, ?_, ?_, ?_⟩
        · -- phase
          left
          refine ⟨by rw [hh2, h1]; exact hbi, by rw [hv2, v1]; exact hview, ?_, ?_⟩
          · intro hx; rw [hmp, p1] at hx; exact hgp hx
          · intro _
            show Node.commitSent _ = true
            simp only [bcast, W.emit, W.upd, Node.commitSent, slot_set_self _ _ _ hlen, Option.isSome_some]
        · intro j m hj
          obtain ⟨a1, a2, a3, a4⟩ := rn1.prep j m hj
          exact ⟨a1, a2.ext x2, a3, a4⟩
        · intro j m hj
          by_cases hjm : j = w.nd.my
          · subst hjm
            simp only [bcast, W.emit, W.upd, slot_set_self _ _ _ hlen, Option.some.injEq] at hj
            subst hj
            exact ⟨_, b, rfl, rfl, rfl, by rw [hmy]; exact hbin, by rw [hbeq]; rfl, by rw [hbeq]⟩
          · simp only [bcast, W.emit, W.upd, slot_set_other _ _ _ _ hjm] at hj
            obtain ⟨y, sb, a1, a2, a3, a4⟩ := rn1.commit j m hj
            exact ⟨y, sb, a1, a2, a3, x2.grows.commits _ _ a4.1, a4.2⟩
        · intro j m hj
          obtain ⟨y, r, a1, a2, a3, a4⟩ := rn1.cv j m hj
          exact ⟨y, r, a1, a2, a3, a4.ext x2⟩
        · intro j m hj
          obtain ⟨y, r, a1, a2, a3, a4⟩ := rn1.lastCv j m hj
          exact ⟨y, r, a1, a2, a3, a4.ext x2⟩
        · intro hh' box hb km hkm
          exact (rn1.cache hh' box hb km hkm).ext x2
        · intro y sb hj
          rw [← hmy] at hj
          simp only [bcast, W.emit, W.upd, slot_set_self _ _ _ hlen, Option.some.injEq, Pl.commit.injEq] at hj
          obtain ⟨rfl, rfl⟩ := hj
          exact ⟨rfl, hh⟩
      · intro pl hpl
        simp only [bcast, W.emit, W.upd, List.mem_cons, Out.bcast.injEq] at hpl
        rcases hpl with rfl | hpl
        · show b ∈ _ ∧ _ ∧ _; rw [hmy]; exact ⟨hbin, by rw [hbeq], by rw [hbeq]⟩
        · exact (g1.outs pl hpl).ext x2

end NeoModel.Dbft.Mach
