/-
C12 proofs, part 12: try stacks inside the accounting machine.

`tstep` (Model/VmAcct/TryMachine.lean) keeps one try stack per context and computes the unwinding
outcome itself (`findHandler`, compared with the real VM's on every raising instruction). Proved here:
  * `try_depth`: in every reachable state no try stack of the model has more than MaxTryNestingDepth
    (16) entries — TRY checks before it pushes, the handler search and everything else only shrink;
  * `tstep_refines`: a `tstep` is a `gasStep` (hence a `step`) with some unwinding outcome, so every
    theorem about `Run` / `GRun` holds for the states the try machine reaches.
-/
import NeoModel.Model.VmAcct.TryMachine
import NeoModel.Proofs.VmAcctGasSim
namespace NeoModel.VmAcct

def TriesOk (tr : List (List TryE)) : Prop := ∀ st ∈ tr, st.length ≤ maxTryNestingDepth

theorem dropFin_len (st : List TryE) : (dropFin st).length ≤ st.length := by
  induction st with
  | nil => simp [dropFin]
  | cons e es ih => simp only [dropFin]; split <;> simp <;> omega

theorem findHandler_ok : ∀ (tr : List (List TryE)) (k k' : Nat) (c : Bool) (tr' : List (List TryE)),
    findHandler tr k = some (k', c, tr') → TriesOk tr → TriesOk tr' := by
  intro tr
  induction tr with
  | nil => intro k k' c tr' h; simp [findHandler] at h
  | cons t ts ih =>
    intro k k' c tr' h hok
    have ht : t.length ≤ maxTryNestingDepth := hok t (List.mem_cons_self ..)
    have hts : TriesOk ts := fun st hst => hok st (List.mem_cons_of_mem _ hst)
    simp only [findHandler] at h
    split at h
    · exact ih _ _ _ _ h hts
    · rename_i e es hd
      have hl := dropFin_len t
      rw [hd] at hl
      have hes : (e :: es).length ≤ maxTryNestingDepth := Nat.le_trans hl ht
      split at h <;> (simp only [Option.some.injEq, Prod.mk.injEq] at h; obtain ⟨_, _, rfl⟩ := h)
      · intro st hst
        rcases List.mem_cons.1 hst with rfl | hst
        · simpa using hes
        · exact hts st hst
      · intro st hst
        rcases List.mem_cons.1 hst with rfl | hst
        · simpa using hes
        · exact hts st hst

theorem triesOk_modifyHead {tr : List (List TryE)} (f : List TryE → List TryE) (hok : TriesOk tr)
    (hf : ∀ st, st ∈ tr → (f st).length ≤ maxTryNestingDepth) : TriesOk (modifyHead f tr) := by
  cases tr with
  | nil => simpa [modifyHead] using hok
  | cons t ts =>
    intro st hst
    simp only [modifyHead] at hst
    rcases List.mem_cons.1 hst with rfl | hst
    · exact hf t (List.mem_cons_self ..)
    · exact hok st (List.mem_cons_of_mem _ hst)

theorem triesAfter_ok {t : TSt} {op : Op} {top : TOp} (hbad : tryBad t op top = false) (hok : TriesOk t.tries) :
    TriesOk (triesAfter t.tries op top) := by
  unfold triesAfter
  split
  · -- TRY: the check passed, the current stack has < 16 entries
    rename_i c f
    cases htr : t.tries with
    | nil => simp [modifyHead]; intro st hst; cases hst
    | cons t0 ts =>
      simp only [tryBad, htr, List.headD_cons, ge_iff_le, decide_eq_false_iff_not, Nat.not_le] at hbad
      rw [htr] at hok
      intro st hst
      simp only [modifyHead] at hst
      rcases List.mem_cons.1 hst with rfl | hst
      · simp only [List.length_cons]; omega
      · exact hok st (List.mem_cons_of_mem _ hst)
  · apply triesOk_modifyHead _ hok
    intro st hst
    have := hok st hst
    split
    · split
      · simpa using this
      · simp only [List.length_cons] at this; omega
    · simp
  · apply triesOk_modifyHead _ hok
    intro st hst
    have := hok st hst
    simp only [List.length_drop]; omega
  · intro st hst
    rcases List.mem_cons.1 hst with rfl | hst
    · simp
    · exact hok st hst
  · intro st hst
    rcases List.mem_cons.1 hst with rfl | hst
    · simp
    · exact hok st hst
  · exact fun st hst => hok st (List.mem_of_mem_drop hst)
  · exact hok

/-- one step keeps every try stack within the limit -/
theorem tstep_triesOk {t t' : TSt} {b burn : Nat} {op : Op} {top : TOp} {ext : Bool} {u : Option (Nat × Bool)}
    (h : tstep t b op top burn ext = some (t', u)) (hok : TriesOk t.tries) : TriesOk t'.tries := by
  unfold tstep at h
  split at h
  · cases h
  · rename_i hbad
    split at h
    · split at h
      · cases h
      · rename_i k c tr' hf
        split at h
        · cases h
        · simp only [Option.some.injEq, Prod.mk.injEq] at h
          rw [← h.1]
          exact findHandler_ok _ _ _ _ _ hf hok
    · split at h
      · cases h
      · simp only [Option.some.injEq, Prod.mk.injEq] at h
        rw [← h.1]
        simp only [Bool.or_eq_true, not_or, Bool.not_eq_true] at hbad
        exact triesAfter_ok hbad.2 hok

/-- a step of the try machine is a step of the gas machine with some unwinding outcome (the computed one) -/
theorem tstep_refines {t t' : TSt} {b burn : Nat} {op : Op} {top : TOp} {ext : Bool} {u : Option (Nat × Bool)}
    (h : tstep t b op top burn ext = some (t', u)) : gasStep t.g b op burn u ext = some t'.g := by
  unfold tstep at h
  split at h
  · cases h
  · split at h
    · split at h
      · cases h
      · split at h
        · cases h
        · rename_i g' hg
          simp only [Option.some.injEq, Prod.mk.injEq] at h
          rw [← h.1, ← h.2]; exact hg
    · split at h
      · cases h
      · rename_i g' hg
        simp only [Option.some.injEq, Prod.mk.injEq] at h
        rw [← h.1, ← h.2]; exact hg

/-- runs of the try machine -/
inductive TRun : TSt → Prop where
  | init (limit : Option Nat) (base : Nat) : TRun { g := { limit := limit, base := base } }
  | step {t t' : TSt} (b : Nat) (op : Op) (top : TOp) (burn : Nat) (ext : Bool) (u : Option (Nat × Bool)) :
      TRun t → tstep t b op top burn ext = some (t', u) → TRun t'

/-- **try_depth**: in every state the try machine reaches, every try stack has at most
MaxTryNestingDepth entries, and the accounting state is a reachable state of `Run` (so refs_sound,
map_shape, acct_depth … apply to it) -/
theorem try_depth {t : TSt} (h : TRun t) : TriesOk t.tries ∧ Run t.g.s := by
  induction h with
  | init limit base => exact ⟨by intro st hst; simp at hst; subst hst; simp, Run.init⟩
  | step b op top burn ext u _ hs ih =>
    refine ⟨tstep_triesOk hs ih.1, ?_⟩
    obtain ⟨_, _, s', hst, _, hg⟩ := gasStep_some (tstep_refines hs)
    rw [hg]
    exact Run.step op u ext ih.2 hst

end NeoModel.VmAcct
