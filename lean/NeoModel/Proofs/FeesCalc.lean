/- C07 helper lemmas (see Props/C07.lean for the property theorems). -/
import NeoModel.Proofs.FeesShape
namespace NeoModel.Fees
open NeoModel.Generated.FeeConsts
open NeoModel.Wire (leBytes leVal putVarUint varUintSize)

/-! ### scparser on the builders' output, fee.Calculate -/

theorem parseCount_pushint (p i : Nat) (rest : Bytes) (hp : p ≤ 3) (hi : i < 2 ^ (8 * 2 ^ p - 1)) (h1 : 1 ≤ i) (h2 : i ≤ 1024) :
    parseCount (UInt8.ofNat (opPUSHINT8 + p) :: (leBytes (2 ^ p) i ++ rest)) = some (i, rest) := by
  have hop : (UInt8.ofNat (opPUSHINT8 + p)).toNat = p := by
    rw [toNat_ofNat_lt _ (by simp [opPUSHINT8]; omega)]; simp [opPUSHINT8]
  have h5 : p ≤ opPUSHINT256 := by simp [opPUSHINT256]; omega
  have h64 : p ≤ opPUSHINT64 := by simp [opPUSHINT64]; omega
  have hlen : ¬ ((leBytes (2 ^ p) i ++ rest).length < 2 ^ p) := by simp [leBytes_length']
  have htake : (leBytes (2 ^ p) i ++ rest).take (2 ^ p) = leBytes (2 ^ p) i := by
    rw [List.take_append_of_le_length (by simp [leBytes_length'])]
    rw [List.take_of_length_le (by simp [leBytes_length'])]
  have hdrop : (leBytes (2 ^ p) i ++ rest).drop (2 ^ p) = rest := by
    have := List.drop_left' (l₁ := leBytes (2 ^ p) i) (l₂ := rest) (leBytes_length' _ _)
    exact this
  simp only [parseCount, hop, h5, if_true, hlen, if_false, htake, h64, hdrop,
    signedLE_leBytes _ _ Nat.one_le_two_pow hi]
  have : ¬ ((i : Int) < 1 ∨ (i : Int) > (maxMultisigKeys : Int)) := by simp [maxMultisigKeys]; omega
  simp only [this, if_false, Int.toNat_natCast]

theorem parseCount_emitInt (i : Nat) (rest : Bytes) (h1 : 1 ≤ i) (h2 : i ≤ 1024) :
    parseCount (emitInt i ++ rest) = some (i, rest) := by
  unfold emitInt
  by_cases h16 : i < 16
  · have hop : (UInt8.ofNat (opPUSH0 + i)).toNat = opPUSH0 + i := by
      apply toNat_ofNat_lt; simp [opPUSH0]; omega
    have e1 : ¬ opPUSH0 + i ≤ opPUSHINT256 := by simp [opPUSH0, opPUSHINT256]; omega
    have e5 : opPUSHM1 ≤ opPUSH0 + i ∧ opPUSH0 + i ≤ opPUSH16 := by simp [opPUSH0, opPUSHM1, opPUSH16]; omega
    simp only [h16, if_true, List.cons_append, List.nil_append, parseCount, hop, e1, if_false, e5, and_self]
    have : ¬ (((opPUSH0 + i : Nat) : Int) - (opPUSH0 : Int) < 1 ∨ ((opPUSH0 + i : Nat) : Int) - (opPUSH0 : Int) > (maxMultisigKeys : Int)) := by
      simp [maxMultisigKeys]; omega
    simp only [this, if_false]
    congr 2
    omega
  · simp only [h16, if_false, List.cons_append]
    have hp : padSizeOf (posByteLen i) ≤ 3 := by
      unfold padSizeOf; split <;> (try split) <;> (try split) <;> omega
    have hi' : i < 2 ^ (8 * 2 ^ padSizeOf (posByteLen i) - 1) := by
      unfold padSizeOf posByteLen
      repeat' split
      all_goals (simp at *; try omega)
    exact parseCount_pushint _ i rest hp hi' h1 h2

theorem emitInt_head_ne (i : Nat) (h2 : i ≤ 1024) : ∃ b t, emitInt i = b :: t ∧ b.toNat ≠ opPUSHDATA1 := by
  unfold emitInt
  by_cases h16 : i < 16
  · refine ⟨UInt8.ofNat (opPUSH0 + i), [], by simp only [h16, if_true], ?_⟩
    rw [toNat_ofNat_lt _ (by simp [opPUSH0]; omega)]; simp [opPUSH0, opPUSHDATA1]; omega
  · refine ⟨UInt8.ofNat (opPUSHINT8 + padSizeOf (posByteLen i)), leBytes (2 ^ padSizeOf (posByteLen i)) i, by simp only [h16, if_false], ?_⟩
    have hp : padSizeOf (posByteLen i) ≤ 3 := by
      unfold padSizeOf; split <;> (try split) <;> (try split) <;> omega
    rw [toNat_ofNat_lt _ (by simp [opPUSHINT8]; omega)]; simp [opPUSHINT8, opPUSHDATA1]; omega

theorem parsePubs_keys : ∀ (keys : List Bytes) (fuel : Nat) (acc : List Bytes) (b : UInt8) (tail : Bytes),
    (∀ k ∈ keys, k.length = 33) → acc.length + keys.length ≤ maxMultisigKeys → keys.length < fuel → b.toNat ≠ opPUSHDATA1 →
    parsePubs fuel (keys.flatMap emitBytes ++ b :: tail) acc = some (acc ++ keys, b :: tail) := by
  intro keys
  induction keys with
  | nil =>
    intro fuel acc b tail _ _ hf hb
    cases fuel with
    | zero => simp at hf
    | succ f => simp [parsePubs, hb]
  | cons k ks ih =>
    intro fuel acc b tail hk hlen hf hb
    cases fuel with
    | zero => simp at hf
    | succ f =>
      have hk33 : k.length = 33 := hk k (by simp)
      have hlt : k.length < 0x100 := by omega
      have hop : (UInt8.ofNat opPUSHDATA1).toNat = opPUSHDATA1 := by decide
      have hl : (UInt8.ofNat k.length).toNat = 33 := by rw [hk33]; decide
      simp only [List.flatMap_cons, emitBytes, hlt, if_true, List.cons_append, List.append_assoc, parsePubs, hop, hl]
      have h1 : ¬ ((k ++ (List.flatMap emitBytes ks ++ b :: tail)).length < 33) := by simp [hk33]
      have h2 : ¬ (acc.length + 1 > maxMultisigKeys) := by simp at hlen; omega
      have htake : (k ++ (List.flatMap emitBytes ks ++ b :: tail)).take 33 = k := by
        rw [List.take_append_of_le_length (by omega), List.take_of_length_le (by omega)]
      have hdrop : (k ++ (List.flatMap emitBytes ks ++ b :: tail)).drop 33 = List.flatMap emitBytes ks ++ b :: tail :=
        List.drop_left' hk33
      simp only [h1, if_false, h2, htake, hdrop, Nat.lt_irrefl]
      rw [ih f (acc ++ [k]) b tail (fun x hx => hk x (by simp [hx])) (by simp at hlen ⊢; omega) (by simp at hf; omega) hb]
      simp

end NeoModel.Fees

namespace NeoModel.Fees
open NeoModel.Generated.FeeConsts
open NeoModel.Wire (leBytes leVal putVarUint varUintSize)

/-- the script the multisig builder emits. -/
def builtMultisig (m : Nat) (keys : List Bytes) : Bytes :=
  emitInt m ++ (keys.flatMap emitBytes ++ (emitInt keys.length ++ emitSyscall checkMultisigId))

theorem multisigScript_some (m : Nat) (keys : List Bytes) (h1 : 1 ≤ m) (hmn : m ≤ keys.length) (hm : m ≤ 1024) :
    multisigScript m keys = some (builtMultisig m keys) := by
  have a : ¬ m < 1 := by omega
  have b : ¬ m > keys.length := by omega
  have c : ¬ m > 1024 := by omega
  simp [multisigScript, a, b, c, builtMultisig]

theorem emitInt_length_pos (i : Nat) : 1 ≤ (emitInt i).length := by
  unfold emitInt; split <;> simp

theorem emitInt_length_le (i : Nat) : (emitInt i).length ≤ 9 := by
  unfold emitInt
  split
  · simp
  · simp only [List.length_cons, leBytes_length']
    unfold padSizeOf
    repeat' split
    all_goals simp

theorem flatMap_keys_length (keys : List Bytes) (hk : ∀ k ∈ keys, k.length = 33) :
    (keys.flatMap emitBytes).length = 35 * keys.length := by
  induction keys with
  | nil => rfl
  | cons k ks ih =>
    have hk33 : k.length = 33 := hk k (by simp)
    have hlt : k.length < 0x100 := by omega
    have he : (emitBytes k).length = 35 := by simp [emitBytes, hk33]
    simp only [List.flatMap_cons, List.length_append, ih (fun x hx => hk x (by simp [hx])), he, List.length_cons]
    omega

theorem builtMultisig_length (m : Nat) (keys : List Bytes) (hk : ∀ k ∈ keys, k.length = 33) :
    (builtMultisig m keys).length = (emitInt m).length + 35 * keys.length + (emitInt keys.length).length + 5 := by
  have : checkMultisigId.length = 4 := by decide
  simp [builtMultisig, flatMap_keys_length keys hk, emitSyscall, this]; omega

theorem parseMultiSig_built (m : Nat) (keys : List Bytes) (h1 : 1 ≤ m) (hmn : m ≤ keys.length) (hn : keys.length ≤ 1024)
    (hk : ∀ k ∈ keys, k.length = 33) :
    parseMultiSig (builtMultisig m keys) = some (m, keys) := by
  have hlen := builtMultisig_length m keys hk
  have hl42 : ¬ (builtMultisig m keys).length < 42 := by
    have := emitInt_length_pos m; have := emitInt_length_pos keys.length; omega
  obtain ⟨b, t, hbt, hb⟩ := emitInt_head_ne keys.length hn
  unfold parseMultiSig
  simp only [hl42, if_false]
  rw [show builtMultisig m keys = emitInt m ++ (keys.flatMap emitBytes ++ (emitInt keys.length ++ emitSyscall checkMultisigId)) from rfl]
  rw [parseCount_emitInt m _ h1 (by omega)]
  simp only
  rw [hbt, List.cons_append]
  rw [parsePubs_keys keys _ [] b _ hk (by simp [maxMultisigKeys]; omega) (by simp [flatMap_keys_length keys hk]; omega) hb]
  simp only [List.nil_append]
  have : ¬ keys.length < m := by omega
  simp only [this, if_false]
  rw [← List.cons_append, ← hbt, parseCount_emitInt keys.length _ (by omega) hn]
  simp

theorem isSignatureContract_built (m : Nat) (keys : List Bytes) (h1 : 1 ≤ keys.length) (hk : ∀ k ∈ keys, k.length = 33) :
    isSignatureContract (builtMultisig m keys) = false := by
  have hlen := builtMultisig_length m keys hk
  have : (builtMultisig m keys).length ≠ 40 := by
    have := emitInt_length_pos m; have := emitInt_length_pos keys.length; omega
  simp [isSignatureContract, this]

/-- `fee.Calculate` on a built m-of-n script. -/
theorem calculate_built (base m : Nat) (keys : List Bytes) (h1 : 1 ≤ m) (hmn : m ≤ keys.length) (hn : keys.length ≤ 1024)
    (hk : ∀ k ∈ keys, k.length = 33) :
    calculate base (builtMultisig m keys)
      = (picoToDatoshi (multisigPico base m keys.length),
         varUintSize (66 * m) + 66 * m + (varUintSize (builtMultisig m keys).length + (builtMultisig m keys).length)) := by
  have hshape : builtMultisig m keys = msShape (emitInt m) keys (emitInt keys.length) := rfl
  have hops := shape_ops (emitInt m) (emitInt keys.length) keys m keys.length
    (pushInt_emitInt m (by omega)) (pushInt_emitInt keys.length (by omega)) (fun k hk' => by rw [hk k hk']; decide)
  unfold calculate
  rw [isSignatureContract_built m keys (by omega) hk, parseMultiSig_built m keys h1 hmn hn hk]
  simp only [Bool.false_eq_true, if_false]
  rw [hshape, hops.1, hops.2]
  simp only [multisigPico, calculateMultisig, opOf, Nat.mul_add, Nat.add_mul]
  congr 2
  omega

end NeoModel.Fees

namespace NeoModel.Fees
open NeoModel.Generated.FeeConsts
open NeoModel.Wire (leBytes leVal putVarUint varUintSize)

theorem putVarUint_length (v : Nat) (h : v ≤ 0xFFFFFFFF) : (putVarUint v).length = varUintSize v := by
  unfold putVarUint varUintSize
  split <;> (try split) <;> (try split) <;> simp [leBytes_length'] <;> omega

theorem encodeWitness_length (inv ver : Bytes) (hi : inv.length ≤ 0xFFFFFFFF) (hv : ver.length ≤ 0xFFFFFFFF) :
    (encodeWitness inv ver).length = varUintSize inv.length + inv.length + (varUintSize ver.length + ver.length) := by
  simp [encodeWitness, putVarUint_length _ hi, putVarUint_length _ hv]; omega

theorem sigScript_length (key : Bytes) : (sigScript key).length = key.length + 7 := by
  have : checkSigId.length = 4 := by decide
  simp [sigScript, emitSyscall, this]

theorem isSignatureContract_sigScript (key : Bytes) (hk : key.length = 33) : isSignatureContract (sigScript key) = true := by
  have hl : (sigScript key).length = 40 := by rw [sigScript_length, hk]
  have h0 : ((sigScript key).getD 0 0).toNat = opPUSHDATA1 := by simp [sigScript]; decide
  have h1 : ((sigScript key).getD 1 0).toNat = 33 := by simp [sigScript, hk]
  have h35 : ((sigScript key).getD 35 0).toNat = opSYSCALL := by
    simp [sigScript, emitSyscall, List.getD_eq_getElem?_getD, hk]; decide
  have hd : (sigScript key).drop 36 = checkSigId := by
    simp [sigScript, emitSyscall, List.drop_append, hk]
  simp only [isSignatureContract, hl, h0, h1, h35, hd]
  decide

/-- `fee.Calculate` on a signature contract. -/
theorem calculate_sig (base : Nat) (key : Bytes) (hk : key.length = 33) :
    calculate base (sigScript key) = (picoToDatoshi (sigPico base), 67 + (varUintSize 40 + 40)) := by
  unfold calculate
  rw [isSignatureContract_sigScript key hk]
  simp [sigPico, sigScript_length, hk]

theorem invScript_length (sigs : List Bytes) (hs : ∀ sg ∈ sigs, sg.length = 64) : (invScript sigs).length = 66 * sigs.length := by
  induction sigs with
  | nil => rfl
  | cons k ks ih =>
    have h64 : k.length = 64 := hs k (by simp)
    have hlt : k.length < 0x100 := by omega
    have he : (emitBytes k).length = 66 := by simp [emitBytes, h64]
    simp only [invScript, List.flatMap_cons, List.length_append, he, List.length_cons] at ih ⊢
    rw [ih (fun x hx => hs x (by simp [hx]))]
    omega

end NeoModel.Fees
