/-
Helper lemmas for C10: Billet.traverse reports exactly the entries in range, in order (`traverse_spec`).
-/
import NeoModel.Proofs.MptOrder
set_option linter.unusedSimpArgs false
namespace NeoModel.Mpt

/-- a result relative to the node at `path`. -/
def rel (path : Path) (e : Path × Val) : Path × Val := (path ++ e.1, e.2)

theorem flatMap_congr' {α β} {l : List α} {g h : α → List β} (hh : ∀ i ∈ l, g i = h i) :
    l.flatMap g = l.flatMap h := by
  induction l with
  | nil => rfl
  | cons a l ih =>
    simp only [List.flatMap_cons]
    rw [hh a (by simp), ih (fun i hi => hh i (by simp [hi]))]

theorem flatMap_filter_of_nil {α β} (l : List α) (p : α → Bool) (g : α → List β)
    (h : ∀ i, p i = false → g i = []) : l.flatMap g = (l.filter p).flatMap g := by
  induction l with
  | nil => rfl
  | cons a l ih =>
    simp only [List.flatMap_cons, List.filter]
    cases hp : p a with
    | true => simp [ih]
    | false => simp [h a hp, ih]

/-- the part of `entries` below a prefix `k`, filtered and made relative. -/
theorem shift_entries (l : List (Path × Val)) (k path : Path) (P : Path → Bool) :
    ((l.map fun e => (k ++ e.1, e.2)).filter (fun e => P e.1)).map (rel path) =
      (l.filter (fun e => P (k ++ e.1))).map (rel (path ++ k)) := by
  induction l with
  | nil => rfl
  | cons e l ih =>
    simp only [List.map_cons, List.filter_cons]
    split <;> simp [rel, ih]

theorem shift_entries_cons (l : List (Path × Val)) (i : Nib) (path : Path) (P : Path → Bool) :
    ((l.map fun e => (i :: e.1, e.2)).filter (fun e => P e.1)).map (rel path) =
      (l.filter (fun e => P (i :: e.1))).map (rel (path ++ [i])) := by
  induction l with
  | nil => rfl
  | cons e l ih =>
    simp only [List.map_cons, List.filter_cons]
    split <;> simp [rel, ih]

/-- what an extension whose key is not a prefix of the start position selects. -/
theorem ext_range (back : Bool) (k frm : Path) (hs : stripPre k frm = none) (q : Path) :
    inRange back frm (k ++ q) = (isPre frm k || (pathLt frm k != back)) := by
  cases hp : isPre frm k with
  | true =>
    obtain ⟨r, rfl⟩ := isPre_iff.mp hp
    rw [List.append_assoc]
    have hpre : isPre frm (frm ++ (r ++ q)) = true := isPre_iff.mpr ⟨r ++ q, rfl⟩
    cases back
    · simp [inRange, pathLt_of_isPre hpre]
    · simp [inRange, hpre]
  | false =>
    have hp2 : isPre k frm = false := by simp [isPre, hs]
    obtain ⟨c, x, y, s, t, e1, e2, hne⟩ := diverge hp hp2
    subst e1; subst e2
    have e3 : c ++ y :: t ++ q = c ++ y :: (t ++ q) := by simp
    have hne' : y ≠ x := fun e => hne e.symm
    rw [e3]
    cases back
    · by_cases h : x < y
      · simp [inRange, pathLt_diverge c hne' (t ++ q) s, pathLt_diverge c hne s t, h, fin_not_lt h]
      · simp [inRange, pathLt_diverge c hne' (t ++ q) s, pathLt_diverge c hne s t, h, fin_lt_of_ne hne h]
    · by_cases h : x < y <;>
        simp [inRange, pathLt_diverge c hne s (t ++ q), isPre_diverge c hne s (t ++ q), pathLt_diverge c hne s t, h]

theorem vslot_some (back : Bool) (w : Val) (path frm : Path) :
    vslot back (some w) path frm =
      List.map (rel path) (List.filter (fun e => inRange back frm e.fst) [([], w)]) := by
  simp only [vslot, List.filter, inRange_nil_right]
  by_cases h : frm = [] <;> cases back <;> simp [h, rel]

theorem inRange_cons_nil (back : Bool) (i : Nib) (q : Path) : inRange back [] (i :: q) = inRange back [] q := by
  simp [inRange_nil]

theorem traverse_branch (back : Bool) (cs : Nib → Node) (v : Option Val)
    (ih : ∀ (a : Nib) (path frm : Path), traverse back (cs a) path frm =
      dir back (List.map (rel path) (List.filter (fun e => inRange back frm e.fst) (entries (cs a)))))
    (path frm : Path) :
    traverse back (.branch cs v) path frm =
      dir back (vslot back v path frm ++ List.flatMap (fun a =>
        List.map (rel (path ++ [a])) (List.filter (fun e => inRange back frm (a :: e.fst)) (entries (cs a))))
        (List.finRange 16)) := by
  have hV0 : ∀ f', back = true → vslot back v path f' = vslot back v path frm := by
    intro f' hb; subst hb; cases v <;> simp [vslot]
  cases frm with
  | nil =>
    cases back with
    | false =>
      simp only [traverse, dir, Bool.false_eq_true, if_false, ih, inRange_cons_nil]
    | true =>
      simp only [traverse, dir, if_true, ih, List.reverse_append, List.reverse_flatMap, inRange_cons_nil]
      congr 1
      cases v <;> simp [vslot]
  | cons s f =>
    cases back with
    | false =>
      simp only [traverse, dir, Bool.false_eq_true, if_false]
      have hv : vslot false v path (s :: f) = [] := by cases v <;> simp [vslot]
      rw [hv, List.nil_append]
      rw [flatMap_filter_of_nil (List.finRange 16) (fun i => decide (s ≤ i))]
      · apply flatMap_congr'
        intro i hi
        rw [ih]
        simp only [dir, Bool.false_eq_true, if_false]
        congr 1
        apply List.filter_congr
        intro e _
        rw [inRange_cons]
        by_cases his : i = s
        · simp [his]
        · have hle : s ≤ i := by simpa using (List.mem_filter.mp hi).2
          have : s < i := by
            have : s.val ≠ i.val := fun e => his (Fin.ext e.symm)
            simp only [Fin.lt_def, Fin.le_def] at *; omega
          simp [his, inRange_nil, this]
      · intro i hi
        have hlt : i < s := by simp only [decide_eq_false_iff_not, Fin.le_def, Fin.lt_def] at *; omega
        have his : i ≠ s := by intro e; subst e; simp [Fin.lt_def] at hlt
        have : ¬ s < i := fin_not_lt hlt
        simp [inRange_cons, his, this]
    | true =>
      simp only [traverse, dir, if_true, List.reverse_append, List.reverse_flatMap]
      congr 1
      · rw [flatMap_filter_of_nil (List.finRange 16).reverse (fun i => decide (i ≤ s)), List.filter_reverse]
        · apply flatMap_congr'
          intro i hi
          rw [ih]
          simp only [dir, if_true, Function.comp]
          congr 2
          apply List.filter_congr
          intro e _
          rw [inRange_cons]
          by_cases his : i = s
          · simp [his]
          · have hle : i ≤ s := by simpa using (List.mem_filter.mp (List.mem_reverse.mp hi)).2
            have : i < s := by
              have : s.val ≠ i.val := fun e => his (Fin.ext e.symm)
              simp only [Fin.lt_def, Fin.le_def] at *; omega
            simp [his, inRange_nil, this]
        · intro i hi
          have hlt : s < i := by simp only [decide_eq_false_iff_not, Fin.le_def, Fin.lt_def] at *; omega
          have his : i ≠ s := by intro e; subst e; simp [Fin.lt_def] at hlt
          have : ¬ i < s := fin_not_lt hlt
          simp [inRange_cons, his, this]
      · rw [hV0 _ rfl]
        cases v <;> simp [vslot]


/-- C10.5: `Billet.traverse` reports exactly the entries in range, in key order (reversed when
going backwards). -/
theorem traverse_spec (back : Bool) (n : Node) : ∀ (path frm : Path),
    traverse back n path frm =
      dir back (((entries n).filter (fun e => inRange back frm e.1)).map (rel path)) := by
  induction n with
  | empty => intro path frm; cases back <;> simp [traverse, entries, dir]
  | leaf v =>
    intro path frm
    simp only [traverse, entries, List.filter, inRange_nil_right]
    by_cases h : frm = [] <;> cases back <;> simp [h, dir, rel]
  | ext k n ih =>
    intro path frm
    simp only [entries]
    rw [shift_entries (entries n) k path (fun q => inRange back frm q)]
    cases frm with
    | nil =>
      simp only [traverse, ih, inRange_nil]
    | cons s f =>
      simp only [traverse]
      cases hs : stripPre k (s :: f) with
      | some r =>
        have := stripPre_eq_some.mp hs
        simp only [ih]
        rw [this]
        simp only [inRange_append]
      | none =>
        simp only [ext_range back k (s :: f) hs]
        split
        · rename_i hc
          have : (isPre (s :: f) k || (pathLt (s :: f) k != back)) = true := by
            cases hc with
            | inl h => simp [h]
            | inr h => simp [h]
          simp only [ih, inRange_nil, this]
        · rename_i hc
          have : (isPre (s :: f) k || (pathLt (s :: f) k != back)) = false := by
            cases h1 : isPre (s :: f) k with
            | true => exact absurd (Or.inl h1) hc
            | false =>
              cases h2 : (pathLt (s :: f) k != back) with
              | true => exact absurd (Or.inr h2) hc
              | false => rfl
          simp only [this]
          cases back <;> simp [dir]
  | branch cs v ih =>
    intro path frm
    rw [traverse_branch back cs v ih path frm]
    congr 1
    simp only [entries, List.filter_append, List.map_append, List.filter_flatMap, List.map_flatMap,
      shift_entries_cons]
    congr 1
    cases v with
    | none => simp [vslot]
    | some w => exact vslot_some back w path frm


/-- `entries` lists exactly the contents. -/
theorem mem_entries (n : Node) : ∀ (p : Path) (v : Val), (p, v) ∈ entries n ↔ lookup n p = some v := by
  induction n with
  | empty => intro p v; simp [entries, lookup]
  | leaf w =>
    intro p v
    cases p with
    | nil => simp [entries, lookup, eq_comm]
    | cons a p => simp [entries, lookup]
  | ext k n ih =>
    intro p v
    simp only [entries, List.mem_map, lookup_ext]
    constructor
    · rintro ⟨⟨q, x⟩, hm, he⟩
      simp only [Prod.mk.injEq] at he
      obtain ⟨rfl, rfl⟩ := he
      simp [stripPre_append, (ih q x).mp hm]
    · intro h
      cases hs : stripPre k p with
      | none => simp [hs] at h
      | some r =>
        have := stripPre_eq_some.mp hs
        subst this
        simp only [hs, Option.bind_some] at h
        exact ⟨(r, v), (ih r v).mpr h, rfl⟩
  | branch cs w ih =>
    intro p v
    simp only [entries, List.mem_append, List.mem_flatMap, List.mem_map]
    cases p with
    | nil =>
      simp only [lookup]
      constructor
      · rintro (h | ⟨i, _, ⟨q, x⟩, _, he⟩)
        · cases w with
          | none => simp at h
          | some w' => simp at h; rw [h]
        · simp at he
      · intro h; left; rw [h]; simp
    | cons i q =>
      simp only [lookup]
      constructor
      · rintro (h | ⟨j, _, ⟨q', x⟩, hm, he⟩)
        · cases w <;> simp at h
        · simp only [Prod.mk.injEq, List.cons.injEq] at he
          obtain ⟨⟨rfl, rfl⟩, rfl⟩ := he
          exact (ih j q' x).mp hm
      · intro h
        right
        exact ⟨i, List.mem_finRange i, (q, v), (ih i q v).mpr h, rfl⟩

/-- `entries` is strictly ascending in the key order (bytes.Compare on nibble paths). -/
theorem entries_sorted (n : Node) : (entries n).Pairwise (fun a b => pathLt a.1 b.1 = true) := by
  induction n with
  | empty => simp [entries]
  | leaf w => simp [entries]
  | ext k n ih =>
    simp only [entries, List.pairwise_map, pathLt_append_left]
    exact ih
  | branch cs w ih =>
    simp only [entries]
    rw [List.pairwise_append]
    refine ⟨by cases w <;> simp, ?_, ?_⟩
    · rw [List.pairwise_flatMap]
      refine ⟨fun i _ => ?_, ?_⟩
      · simp only [List.pairwise_map, pathLt_cons_same]; exact ih i
      · apply List.Pairwise.imp _ (List.pairwise_lt_finRange 16)
        intro i j hij x hx y hy
        simp only [List.mem_map] at hx hy
        obtain ⟨e1, _, rfl⟩ := hx
        obtain ⟨e2, _, rfl⟩ := hy
        exact pathLt_cons_lt hij _ _
    · intro a ha b hb
      simp only [List.mem_flatMap, List.mem_map] at hb
      obtain ⟨i, _, e, _, rfl⟩ := hb
      cases w with
      | none => simp at ha
      | some w' => simp at ha; subst ha; rfl


theorem filter_eq_single (i : Nib) : (List.finRange 16).filter (fun j => decide (j = i)) = [i] := by
  revert i; decide

theorem flatMap_single {β} (h : Nib → List β) (i : Nib) (hh : ∀ j, j ≠ i → h j = []) :
    (List.finRange 16).flatMap h = h i := by
  rw [flatMap_filter_of_nil (List.finRange 16) (fun j => decide (j = i)) h
    (fun j hj => hh j (by simpa using hj)), filter_eq_single]
  simp

/-- if `pre` is a prefix of `k ++ q` then `pre` and `k` are comparable. -/
theorem comparable_of_prefix {pre k q r : Path} (h : k ++ q = pre ++ r) : isPre pre k = true ∨ isPre k pre = true := by
  induction pre generalizing k with
  | nil => left; exact isPre_nil k
  | cons a pre ih =>
    cases k with
    | nil => right; exact isPre_nil _
    | cons b k =>
      simp only [List.cons_append, List.cons.injEq] at h
      obtain ⟨rfl, h⟩ := h
      rcases ih h with h1 | h1
      · left; simp [isPre_cons, h1]
      · right; simp [isPre_cons, h1]


/-- relative key: drop the prefix `pre` (or drop the entry). -/
def strip (pre : Path) (e : Path × Val) : Option (Path × Val) := (stripPre pre e.1).map fun r => (r, e.2)

theorem strip_L1 (l : List (Path × Val)) (i : Nib) (p : Path) :
    (l.map fun e => (i :: e.1, e.2)).filterMap (strip (i :: p)) = l.filterMap (strip p) := by
  induction l with
  | nil => rfl
  | cons e l ih => simp [List.filterMap_cons, strip, stripPre, ih]

theorem strip_L2 (l : List (Path × Val)) (i j : Nib) (p : Path) (h : j ≠ i) :
    (l.map fun e => (j :: e.1, e.2)).filterMap (strip (i :: p)) = [] := by
  have : ¬ i = j := fun e => h e.symm
  induction l with
  | nil => rfl
  | cons e l ih => simp [List.filterMap_cons, strip, stripPre, this, ih]

theorem strip_L4 (l : List (Path × Val)) (pre path : Path) :
    (l.map fun e => (pre ++ path ++ e.1, e.2)).filterMap (strip pre) = l.map (rel path) := by
  induction l with
  | nil => rfl
  | cons e l ih =>
    simp only [List.map_cons, List.filterMap_cons, strip, List.append_assoc, stripPre_append, Option.map_some]
    rw [← ih]; simp [rel, strip]

theorem strip_L5 (l : List (Path × Val)) : l.filterMap (strip []) = l := by
  induction l with
  | nil => rfl
  | cons e l ih => simp [List.filterMap_cons, strip, stripPre, ih]

theorem map_rel_nil (l : List (Path × Val)) : l.map (rel []) = l := by
  induction l with
  | nil => rfl
  | cons e l ih => simp [rel, ih]

theorem under_eq (t : Node) (pre : Path) : under t pre = (entries t).filterMap (strip pre) := rfl

theorem under_branch_cons (cs : Nib → Node) (v : Option Val) (i : Nib) (p : Path) :
    under (.branch cs v) (i :: p) = under (cs i) p := by
  simp only [under_eq, entries, List.filterMap_append, List.filterMap_flatMap]
  have h1 : List.filterMap (strip (i :: p)) (match v with | some w => [([], w)] | none => []) = [] := by
    cases v <;> simp [strip, stripPre]
  have h2 : (List.finRange 16).flatMap (fun a => List.filterMap (strip (i :: p))
      (List.map (fun e => (a :: e.1, e.2)) (entries (cs a)))) = List.filterMap (strip p) (entries (cs i)) := by
    rw [flatMap_single _ i (fun j hj => strip_L2 _ i j p hj), strip_L1]
  cases v with
  | none => rw [List.filterMap_nil, List.nil_append]; exact h2
  | some w =>
    have : List.filterMap (strip (i :: p)) [(([] : Path), w)] = [] := by simp [strip, stripPre]
    rw [this, List.nil_append]; exact h2


theorem filterMap_shift (l : List (Path × Val)) (k r : Path) :
    (l.map fun e => (k ++ e.1, e.2)).filterMap (strip (k ++ r)) = l.filterMap (strip r) := by
  induction l with
  | nil => rfl
  | cons e l ih => simp [List.filterMap_cons, strip, stripPre_append_left, ih]

/-- where the non-strict `getWithPath` lands: the subtree holding exactly the keys under `pre`. -/
theorem getWithPathNS_spec (t : Node) : ∀ (pre : Path),
    (∀ start full, getWithPathNS t pre = some (start, full) →
      ∃ path, full = pre ++ path ∧ under t pre = (entries start).map (rel path)) ∧
    (getWithPathNS t pre = none → under t pre = []) := by
  induction t with
  | empty => intro pre; simp [getWithPathNS, under, entries]
  | leaf v =>
    intro pre
    cases pre with
    | nil =>
      refine ⟨?_, by simp [getWithPathNS]⟩
      intro start full h
      simp only [getWithPathNS, Option.some.injEq, Prod.mk.injEq] at h
      obtain ⟨rfl, rfl⟩ := h
      exact ⟨[], rfl, by rw [under_eq, strip_L5, map_rel_nil]⟩
    | cons a p => simp [getWithPathNS, under, entries, stripPre]
  | branch cs v ih =>
    intro pre
    cases pre with
    | nil =>
      refine ⟨?_, by simp [getWithPathNS]⟩
      intro start full h
      simp only [getWithPathNS, Option.some.injEq, Prod.mk.injEq] at h
      obtain ⟨rfl, rfl⟩ := h
      refine ⟨[], by simp, ?_⟩
      rw [under_eq, strip_L5, map_rel_nil]
    | cons i p =>
      have hu := under_branch_cons cs v i p
      obtain ⟨ih1, ih2⟩ := ih i p
      refine ⟨?_, ?_⟩
      · intro start full h
        simp only [getWithPathNS] at h
        cases hg : getWithPathNS (cs i) p with
        | none => simp [hg] at h
        | some r =>
          obtain ⟨st, fl⟩ := r
          simp only [hg, Option.map_some, Option.some.injEq, Prod.mk.injEq] at h
          obtain ⟨rfl, rfl⟩ := h
          obtain ⟨path, hf, hu'⟩ := ih1 st fl hg
          exact ⟨path, by simp [hf], by rw [hu, hu']⟩
      · intro h
        simp only [getWithPathNS] at h
        cases hg : getWithPathNS (cs i) p with
        | none => rw [hu]; exact ih2 hg
        | some r => simp [hg] at h
  | ext k n ih =>
    intro pre
    cases pre with
    | nil =>
      refine ⟨?_, by simp [getWithPathNS]⟩
      intro start full h
      simp only [getWithPathNS, Option.some.injEq, Prod.mk.injEq] at h
      obtain ⟨rfl, rfl⟩ := h
      refine ⟨k, rfl, ?_⟩
      rw [under_eq, strip_L5]; simp [entries, rel]
    | cons a p =>
      simp only [getWithPathNS]
      cases hs : stripPre k (a :: p) with
      | some r =>
        have hpre := stripPre_eq_some.mp hs
        have hu : under (.ext k n) (a :: p) = under n r := by
          rw [hpre]; simp only [under_eq, entries]; exact filterMap_shift _ _ _
        obtain ⟨ih1, ih2⟩ := ih r
        refine ⟨?_, ?_⟩
        · intro start full h
          cases hg : getWithPathNS n r with
          | none => simp [hg] at h
          | some x =>
            obtain ⟨st, fl⟩ := x
            simp only [hg, Option.map_some, Option.some.injEq, Prod.mk.injEq] at h
            obtain ⟨rfl, rfl⟩ := h
            obtain ⟨path, hf, hu'⟩ := ih1 st fl hg
            exact ⟨path, by rw [hf, hpre]; simp, by rw [hu, hu']⟩
        · intro h
          cases hg : getWithPathNS n r with
          | none => rw [hu]; exact ih2 hg
          | some x => simp [hg] at h
      | none =>
        simp only
        cases hp : (stripPre (a :: p) k).isSome with
        | true =>
          simp only [if_true]
          refine ⟨?_, by simp⟩
          intro start full h
          simp only [Option.some.injEq, Prod.mk.injEq] at h
          obtain ⟨rfl, rfl⟩ := h
          obtain ⟨path, hk⟩ := isPre_iff.mp (show isPre (a :: p) k = true from hp)
          refine ⟨path, hk, ?_⟩
          simp only [under_eq, entries]
          rw [hk]
          exact strip_L4 _ _ _
        | false =>
          simp only [Bool.false_eq_true, if_false]
          refine ⟨by simp, ?_⟩
          intro _
          simp only [under_eq, entries]
          apply List.filterMap_eq_nil_iff.mpr
          intro e he
          simp only [List.mem_map] at he
          obtain ⟨e0, _, rfl⟩ := he
          simp only [strip]
          cases hs2 : stripPre (a :: p) (k ++ e0.1) with
          | none => rfl
          | some r =>
            exfalso
            have := stripPre_eq_some.mp hs2
            rcases comparable_of_prefix this with h1 | h1
            · simp [isPre, hp] at h1
            · simp [isPre, hs] at h1

end NeoModel.Mpt
