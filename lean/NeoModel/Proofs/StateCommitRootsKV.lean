import NeoModel.Model.StateCommit.Roots
import NeoModel.Proofs.StoreOrder
namespace NeoModel.StateCommit.Roots
open NeoModel.Store (lexLt lexLe)

theorem kvGet_kvDel (s : KVs) (k q : Bytes) : kvGet (kvDel s k) q = if q = k then none else kvGet s q := by
  unfold kvGet kvDel
  induction s with
  | nil => simp
  | cons e s ih =>
    obtain ⟨ek, ev⟩ := e
    simp only [List.filter_cons]
    by_cases hek : ek = k
    · subst hek
      simp only [bne_self_eq_false, Bool.false_eq_true, if_false, ih, List.lookup_cons]
      by_cases hq : q = ek
      · simp [hq]
      · have : (q == ek) = false := by simpa using hq
        simp [hq, this]
    · have hne : (ek != k) = true := by simpa using hek
      simp only [hne, if_true, List.lookup_cons, ih]
      by_cases hq : q = k
      · subst hq
        have : (q == ek) = false := by simpa using (fun h => hek h.symm)
        simp [this]
      · simp [hq]

theorem kvGet_kvPut (s : KVs) (k v q : Bytes) : kvGet (kvPut s k v) q = if q = k then some v else kvGet s q := by
  unfold kvPut
  show List.lookup q ((k, v) :: kvDel s k) = _
  rw [List.lookup_cons]
  by_cases hq : q = k
  · simp [hq]
  · have : (q == k) = false := by simpa using hq
    simp only [this, hq, if_false]
    have := kvGet_kvDel s k q
    simp only [hq, if_false] at this
    exact this

theorem leVal_leBytes4 (n : Nat) (h : n < 2 ^ 32) : Wire.leVal (Wire.leBytes 4 n) = n := by
  simp only [Wire.leBytes, Wire.leVal, UInt8.toNat_ofNat']
  omega

theorem decRec_encRec (r : Rec) (h1 : r.index < 2 ^ 32) (h2 : r.root.length = 32) : decRec (encRec r) = some r := by
  unfold encRec decRec le32
  have hl : (Wire.leBytes 4 r.index).length = 4 := rfl
  simp only [List.length_append, hl, h2]
  have : ¬ (4 + (32 + r.wit.length) < 36) := by omega
  simp only [this, if_false, Option.some.injEq]
  have e1 : (Wire.leBytes 4 r.index ++ (r.root ++ r.wit)).take 4 = Wire.leBytes 4 r.index := by
    rw [List.take_append_of_le_length (by simp [hl])]; simp [hl, List.take_of_length_le]
  have e2 : (Wire.leBytes 4 r.index ++ (r.root ++ r.wit)).drop 4 = r.root ++ r.wit := by
    rw [List.drop_append_of_le_length (by simp [hl])]; simp [hl, List.drop_of_length_le]
  have e3 : (Wire.leBytes 4 r.index ++ (r.root ++ r.wit)).drop 36 = r.wit := by
    have : (36 : Nat) = 4 + 32 := rfl
    rw [this, ← List.drop_drop, e2, List.drop_append_of_le_length (by omega)]; simp [h2, List.drop_of_length_le]
  rw [e1, e2, e3, leVal_leBytes4 _ h1, List.take_append_of_le_length (by omega)]
  simp [h2, List.take_of_length_le]

theorem u8lt (a b : Nat) (ha : a < 256) (hb : b < 256) : (UInt8.ofNat a < UInt8.ofNat b) ↔ a < b := by
  rw [UInt8.lt_iff_toNat_lt, UInt8.toNat_ofNat', UInt8.toNat_ofNat', Nat.mod_eq_of_lt ha, Nat.mod_eq_of_lt hb]

theorem lexLt_be32 (a b : Nat) (ha : a < 2 ^ 32) (hb : b < 2 ^ 32) : lexLt (be32 a) (be32 b) = decide (a < b) := by
  unfold be32
  simp only [lexLt]
  have m : ∀ x : Nat, x % 256 < 256 := fun x => Nat.mod_lt _ (by decide)
  simp only [u8lt _ _ (m _) (m _)]
  by_cases hab : a < b
  · simp only [hab, decide_true]
    repeat' split
    all_goals first | rfl | omega
  · simp only [hab, decide_false]
    repeat' split
    all_goals first | rfl | omega


theorem lexLt_rootKey (a b : Nat) (ha : a < 2 ^ 32) (hb : b < 2 ^ 32) : lexLt (rootKey a) (rootKey b) = decide (a < b) := by
  have := Store.lexLt_append_left [dataMPTAux] (be32 a) (be32 b)
  simp only [List.singleton_append] at this
  unfold rootKey
  rw [this, lexLt_be32 a b ha hb]

theorem rootKey_ne (a b : Nat) (ha : a < 2 ^ 32) (hb : b < 2 ^ 32) (h : a ≠ b) : rootKey a ≠ rootKey b := by
  intro e
  rcases Nat.lt_or_gt_of_ne h with hlt | hgt
  · have := lexLt_rootKey a b ha hb
    rw [e, Store.lexLt_irrefl] at this
    simp [hlt] at this
  · have := lexLt_rootKey b a hb ha
    rw [e, Store.lexLt_irrefl] at this
    simp [hgt] at this

theorem rootKey_length (h : Nat) : (rootKey h).length = 5 := rfl
theorem rootKey_ne_local (h : Nat) : rootKey h ≠ localKey := by
  intro e; have := congrArg List.length e; simp [rootKey, be32, localKey] at this
theorem rootKey_ne_validated (h : Nat) : rootKey h ≠ validatedKey := by
  intro e; have := congrArg List.length e; simp [rootKey, be32, validatedKey] at this
theorem local_ne_validated : localKey ≠ validatedKey := by decide

/-! ### key-unique stores, sorting -/

def KeysNodup (s : KVs) : Prop := (s.map (·.1)).Nodup

theorem keysNodup_kvDel (s : KVs) (k : Bytes) (h : KeysNodup s) : KeysNodup (kvDel s k) := by
  unfold KeysNodup kvDel at *
  exact h.sublist (List.Sublist.map _ List.filter_sublist)

theorem keysNodup_kvPut (s : KVs) (k v : Bytes) (h : KeysNodup s) : KeysNodup (kvPut s k v) := by
  unfold kvPut
  have h1 := keysNodup_kvDel s k h
  unfold KeysNodup at *
  simp only [List.map_cons, List.nodup_cons]
  refine ⟨?_, h1⟩
  simp only [kvDel, List.mem_map, List.mem_filter]
  rintro ⟨e, ⟨_, hne⟩, rfl⟩
  simp at hne

theorem mem_of_kvGet (s : KVs) (k v : Bytes) (h : kvGet s k = some v) : (k, v) ∈ s := by
  unfold kvGet at h
  obtain ⟨l1, l2, heq, _⟩ := List.lookup_eq_some_iff.mp h
  rw [heq]; simp

theorem kvGet_of_mem (s : KVs) (hn : KeysNodup s) (k v : Bytes) (h : (k, v) ∈ s) : kvGet s k = some v := by
  unfold kvGet
  induction s with
  | nil => cases h
  | cons e s ih =>
    obtain ⟨ek, ev⟩ := e
    rw [List.lookup_cons]
    unfold KeysNodup at hn
    simp only [List.map_cons, List.nodup_cons] at hn
    rcases List.mem_cons.mp h with he | he
    · simp only [Prod.mk.injEq] at he
      simp [he.1, he.2]
    · have hne : k ≠ ek := by
        intro e'; subst e'
        exact hn.1 (List.mem_map.mpr ⟨(k, v), he, rfl⟩)
      have : (k == ek) = false := by simpa using hne
      rw [this]
      exact ih hn.2 he

def SortedK (l : KVs) : Prop := l.Pairwise (fun a b => lexLt a.1 b.1 = true)

theorem mem_insertK (e x : Bytes × Bytes) (l : KVs) : x ∈ insertK e l ↔ x = e ∨ x ∈ l := by
  induction l with
  | nil => simp [insertK]
  | cons y ys ih =>
    unfold insertK
    split
    · simp
    · simp only [List.mem_cons, ih]
      constructor
      · rintro (h | h | h)
        · exact Or.inr (Or.inl h)
        · exact Or.inl h
        · exact Or.inr (Or.inr h)
      · rintro (h | h | h)
        · exact Or.inr (Or.inl h)
        · exact Or.inl h
        · exact Or.inr (Or.inr h)

theorem mem_sortK (l : KVs) (x : Bytes × Bytes) : x ∈ sortK l ↔ x ∈ l := by
  unfold sortK
  induction l with
  | nil => simp
  | cons e l ih => simp only [List.foldr_cons, mem_insertK, ih, List.mem_cons]

theorem sorted_insertK (e : Bytes × Bytes) (l : KVs) (hs : SortedK l) (hne : ∀ x ∈ l, x.1 ≠ e.1) :
    SortedK (insertK e l) := by
  unfold SortedK at *
  induction l with
  | nil => simp [insertK]
  | cons y ys ih =>
    unfold insertK
    rw [List.pairwise_cons] at hs
    split
    · rename_i hlt
      rw [List.pairwise_cons]
      refine ⟨?_, List.pairwise_cons.mpr hs⟩
      intro x hx
      rcases List.mem_cons.mp hx with rfl | hx
      · exact hlt
      · exact Store.lexLt_trans hlt (hs.1 x hx)
    · rename_i hnlt
      rw [List.pairwise_cons]
      have hye : lexLt y.1 e.1 = true := by
        rcases Store.lexLt_tri y.1 e.1 with h | h | h
        · exact h
        · exact absurd h (hne y (by simp))
        · exact absurd h hnlt
      refine ⟨?_, ih hs.2 (fun x hx => hne x (by simp [hx]))⟩
      intro x hx
      rcases (mem_insertK e x ys).mp hx with rfl | hx
      · exact hye
      · exact hs.1 x hx

theorem sorted_sortK (l : KVs) (hn : KeysNodup l) : SortedK (sortK l) := by
  unfold sortK
  induction l with
  | nil => exact List.Pairwise.nil
  | cons e l ih =>
    unfold KeysNodup at hn
    simp only [List.map_cons, List.nodup_cons] at hn
    simp only [List.foldr_cons]
    apply sorted_insertK e _ (ih hn.2)
    intro x hx
    have hx' := (mem_sortK l x).mp hx
    intro e'
    exact hn.1 (List.mem_map.mpr ⟨x, hx', e'⟩)

/-! ### the reset loop -/

def delAll (st : KVs) (rest : KVs) : KVs :=
  rest.foldl (fun st e => if e.1.length = 5 then kvDel st e.1 else st) st

theorem loop_seen (srKey : Bytes) (rest st : KVs) :
    rest.foldl (resetStep srKey) (true, st) = (true, delAll st rest) := by
  unfold delAll
  induction rest generalizing st with
  | nil => rfl
  | cons e rest ih =>
    simp only [List.foldl_cons, resetStep]
    split
    · simp only [if_true]; exact ih _
    · exact ih _

theorem kvGet_delAll (st rest : KVs) (q : Bytes) :
    kvGet (delAll st rest) q = if q.length = 5 ∧ q ∈ rest.map (·.1) then none else kvGet st q := by
  unfold delAll
  induction rest generalizing st with
  | nil => simp
  | cons e rest ih =>
    simp only [List.foldl_cons, List.map_cons, List.mem_cons]
    rw [ih]
    by_cases hq : q.length = 5 ∧ q ∈ rest.map (·.1)
    · simp [hq]
    · simp only [hq, if_false]
      by_cases he : e.1.length = 5
      · simp only [he, if_true, kvGet_kvDel]
        by_cases hqe : q = e.1
        · subst hqe; simp [he]
        · simp only [hqe, if_false]
          have : ¬ (q.length = 5 ∧ (q = e.1 ∨ q ∈ rest.map (·.1))) := by
            rintro ⟨h5, h | h⟩
            · exact hqe h
            · exact hq ⟨h5, h⟩
          simp only [false_or, hq, if_false]
      · simp only [he, if_false]
        have : ¬ (q.length = 5 ∧ (q = e.1 ∨ q ∈ rest.map (·.1))) := by
          rintro ⟨h5, h | h⟩
          · subst h; exact he h5
          · exact hq ⟨h5, h⟩
        rw [if_neg this]

theorem keysNodup_delAll (st rest : KVs) (h : KeysNodup st) : KeysNodup (delAll st rest) := by
  unfold delAll
  induction rest generalizing st with
  | nil => exact h
  | cons e rest ih =>
    simp only [List.foldl_cons]
    split
    · exact ih _ (keysNodup_kvDel _ _ h)
    · exact ih _ h

/-- a strictly ascending list all of whose keys are ≥ `k` and which contains `k` starts with `k`. -/
theorem head_of_sorted (L : KVs) (k v : Bytes) (hs : SortedK L) (hge : ∀ e ∈ L, lexLe k e.1 = true)
    (hm : (k, v) ∈ L) : ∃ rest, L = (k, v) :: rest ∧ ∀ e ∈ rest, lexLt k e.1 = true := by
  cases L with
  | nil => cases hm
  | cons x xs =>
    unfold SortedK at hs
    rw [List.pairwise_cons] at hs
    rcases List.mem_cons.mp hm with he | he
    · subst he; exact ⟨xs, rfl, fun e h => hs.1 e h⟩
    · have h1 := hs.1 _ he            -- x.1 < k
      have h2 := hge x (by simp)       -- k ≤ x.1
      unfold lexLe at h2
      simp only [h1, Bool.not_true] at h2
      exact absurd h2 (by decide)

end NeoModel.StateCommit.Roots
