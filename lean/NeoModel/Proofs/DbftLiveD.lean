/- C19 helper lemmas: one synchronous round from a clean state, for every n. -/
import NeoModel.Proofs.DbftLiveC
namespace NeoModel.Dbft

/-- Everybody is about to start height `h` in view 0 and has neither prepared nor signed anything for it. -/
def Clean (c : Cfg) (s : State) (h : Nat) : Prop :=
  ∀ i, i < c.n → (s.nodes i).height = h ∧ (s.nodes i).view = 0 ∧
    (∀ x, x ∈ (s.nodes i).myPreps → x.h < h) ∧ (∀ x, x ∈ (s.nodes i).myCommits → x.h < h)

theorem mem_range_lt {n i : Nat} : i ∈ List.range n ↔ i < n := List.mem_range

/-- One synchronous round from a clean state: every step of `fairRound` is enabled, afterwards every
ledger has the proposed block on top, the network is as before and the state is clean for `h+1`. -/
theorem sync_round (c : Cfg) (hn : 0 < c.n) (s : State) (h p : Nat) (hc : Clean c s h)
    (hprop : c.propose (c.primary h 0) ⟨h, 0, p⟩ = true) (hver : ∀ j, c.verify j ⟨h, 0, p⟩ = true) :
    ∃ s', run c s (fairRound c h p) = some s' ∧ Clean c s' (h + 1) ∧ s'.net = s.net ∧
      ∀ i, i < c.n → (s'.nodes i).chain = ⟨h, 0, p⟩ :: (s.nodes i).chain := by
  -- names
  generalize hb : (⟨h, 0, p⟩ : Block) = b at *
  have hbh : b.h = h := by rw [← hb]
  have hbv : b.v = 0 := by rw [← hb]
  generalize hpr : c.primary h 0 = pr at *
  have hprn : pr < c.n := by rw [← hpr]; exact primary_lt c hn h 0
  obtain ⟨hph, hpv, hpf, _⟩ := hc pr hprn
  -- Phase A
  have enT : Enabled c s (.timeout pr) := hprn
  have hb' : (⟨(s.nodes pr).height, (s.nodes pr).view, p⟩ : Block) = b := by rw [hph, hpv, hb]
  have enA : Enabled c s (.sendPrepReq pr p) := by
    refine ⟨hprn, by rw [hph, hpv, hpr], ?_, by rw [hb']; exact hprop⟩
    intro x hx hcx; have := hpf x hx; omega
  let ndp : Node := { s.nodes pr with known := addKnown (s.nodes pr).known (.prepReq pr b), myPreps := b :: (s.nodes pr).myPreps }
  let sA : State := ⟨learnL (upd s.nodes pr ndp) [.prepReq pr b] (others c pr), s.net⟩
  have hapA : apply c s (.sendPrepReq pr p) = ⟨upd s.nodes pr ndp, bcast c pr (.item (.prepReq pr b)) ++ s.net⟩ := by
    simp only [apply]; rw [hb']
  have hrunA : run c s ([.timeout pr, .sendPrepReq pr p] ++ deliverAll c pr (.item (.prepReq pr b))) = some sA := by
    show run c s (.timeout pr :: (.sendPrepReq pr p :: deliverAll c pr (.item (.prepReq pr b)))) = some sA
    rw [run_cons_enabled _ enT]
    exact run_macro c s _ pr _ _ enA hapA
  have hcoreA : ∀ i, SameCore (sA.nodes i) (upd s.nodes pr ndp i) := fun i => learnL_core _ _ _ i
  obtain ⟨hknA, hallA⟩ := macro_known c s.nodes pr ndp [.prepReq pr b]
    (fun it hit => mem_addKnown.mpr (Or.inr hit))
    (fun it hit => by simp at hit; subst hit; exact mem_addKnown.mpr (Or.inl rfl))
  have hupdA : ∀ i, i ≠ pr → upd s.nodes pr ndp i = s.nodes i := fun i hi => upd_other _ _ _ hi
  have hextA : Ext s sA := by
    refine ⟨fun i => ?_, fun i => ?_, fun i => ?_, hknA, rfl⟩
    · rw [(hcoreA i).1]; by_cases hi : i = pr
      · subst hi; rw [upd_same]
      · rw [hupdA i hi]
    · rw [(hcoreA i).2.1]; by_cases hi : i = pr
      · subst hi; rw [upd_same]
      · rw [hupdA i hi]
    · rw [(hcoreA i).2.2.1]; by_cases hi : i = pr
      · subst hi; rw [upd_same]
      · rw [hupdA i hi]
  have hcmA : ∀ i, (sA.nodes i).myCommits = (s.nodes i).myCommits := by
    intro i; rw [(hcoreA i).2.2.2.2]; by_cases hi : i = pr
    · subst hi; rw [upd_same]
    · rw [hupdA i hi]
  have hppA : ∀ i x, x ∈ (sA.nodes i).myPreps → x ∈ (s.nodes i).myPreps ∨ x = b := by
    intro i x hx; rw [(hcoreA i).2.2.2.1] at hx
    by_cases hi : i = pr
    · subst hi; rw [upd_same] at hx
      rcases List.mem_cons.mp hx with e | m
      · exact Or.inr e
      · exact Or.inl m
    · rw [hupdA i hi] at hx; exact Or.inl hx
  have hppA' : ∀ i, i ≠ pr → (sA.nodes i).myPreps = (s.nodes i).myPreps := by
    intro i hi; rw [(hcoreA i).2.2.2.1, hupdA i hi]
  -- Phase B
  have hmidA : ∀ i, i < c.n → (sA.nodes i).height = h ∧ (sA.nodes i).view = 0 ∧
      Item.prepReq (c.primary h 0) b ∈ (sA.nodes i).known := by
    intro i hi
    obtain ⟨a1, a2, _, _⟩ := hc i hi
    exact ⟨by rw [hextA.hgt]; exact a1, by rw [hextA.vw]; exact a2, by rw [hpr]; exact hallA i hi _ (by simp)⟩
  have hfreshA : ∀ j, j ∈ others c pr → j < c.n ∧ j ≠ c.primary h 0 ∧ ∀ x, x ∈ (sA.nodes j).myPreps → x.h < h := by
    intro j hj
    obtain ⟨hjn, hjp⟩ := mem_others.mp hj
    refine ⟨hjn, by rw [hpr]; exact hjp, ?_⟩
    rw [hppA' j hjp]; exact (hc j hjn).2.2.1
  obtain ⟨sB, hrunB, hextB, hcmB, _, hppB, hrespB⟩ :=
    phaseB c h b hbh hbv hver (others c pr) (others_nodup c pr) sA hmidA hfreshA
  -- Phase C
  have hmidB : ∀ i, i < c.n → (sB.nodes i).height = h ∧ (sB.nodes i).view = 0 ∧
      Item.prepReq (c.primary h 0) b ∈ (sB.nodes i).known ∧
      ∀ j, j < c.n → prepared (sB.nodes i).known b j = true := by
    intro i hi
    obtain ⟨a1, a2, a3⟩ := hmidA i hi
    refine ⟨by rw [hextB.hgt]; exact a1, by rw [hextB.vw]; exact a2, hextB.kn i _ a3, ?_⟩
    intro j hj
    simp only [prepared, Bool.or_eq_true, decide_eq_true_eq]
    by_cases hjp : j = pr
    · subst hjp; left; have := hextB.kn i _ a3; rw [hpr] at this; exact this
    · right; exact hrespB j (mem_others.mpr ⟨hj, hjp⟩) i hi
  have hfreshB : ∀ j, j ∈ List.range c.n → j < c.n ∧ ∀ x, x ∈ (sB.nodes j).myCommits → x.h < h := by
    intro j hj
    have hjn := mem_range_lt.mp hj
    exact ⟨hjn, by rw [hcmB j, hcmA j]; exact (hc j hjn).2.2.2⟩
  obtain ⟨sC, hrunC, hextC, hppC, _, hcmC, hrespC⟩ :=
    phaseC c h b hbh hbv (List.range c.n) List.nodup_range sB hmidB hfreshB
  -- Phase D
  have hpreC : ∀ i, i ∈ List.range c.n → i < c.n ∧ (sC.nodes i).height = h ∧ (sC.nodes i).view = 0 ∧
      Item.prepReq (c.primary h 0) b ∈ (sC.nodes i).known ∧
      ∀ j, j < c.n → committed (sC.nodes i).known b j = true := by
    intro i hi
    have hin := mem_range_lt.mp hi
    obtain ⟨a1, a2, a3, _⟩ := hmidB i hin
    refine ⟨hin, by rw [hextC.hgt]; exact a1, by rw [hextC.vw]; exact a2, hextC.kn i _ a3, ?_⟩
    intro j hj
    simp only [committed, decide_eq_true_eq]
    exact hrespC j (mem_range_lt.mpr hj) i hin
  obtain ⟨sD, hrunD, hnetD, hinD, _⟩ := phaseD c h b hbh hbv (List.range c.n) List.nodup_range sC hpreC
  -- assemble
  refine ⟨sD, ?_, ?_, ?_, ?_⟩
  · unfold fairRound
    simp only [hpr, hb]
    rw [run_append, run_append, run_append, hrunA]
    simp only [Option.bind_some]
    rw [hrunB]
    simp only [Option.bind_some]
    rw [hrunC]
    simp only [Option.bind_some]
    exact hrunD
  · intro i hi
    have hD := hinD i (mem_range_lt.mpr hi)
    obtain ⟨a1, _, a3, a4⟩ := hc i hi
    rw [hD]
    refine ⟨?_, rfl, ?_, ?_⟩
    · show (sC.nodes i).height + 1 = h + 1
      rw [hextC.hgt, hextB.hgt, hextA.hgt, a1]
    · intro x hx
      have hx : x ∈ (sC.nodes i).myPreps := hx
      rw [hppC i] at hx
      rcases hppB i x hx with t | t
      · rcases hppA i x t with u | u
        · have := a3 x u; omega
        · rw [u, hbh]; omega
      · rw [t, hbh]; omega
    · intro x hx
      have hx : x ∈ (sC.nodes i).myCommits := hx
      rcases hcmC i x hx with t | t
      · rw [hcmB i, hcmA i] at t; have := a4 x t; omega
      · rw [t, hbh]; omega
  · rw [hnetD, hextC.net, hextB.net, hextA.net]
  · intro i hi
    rw [hinD i (mem_range_lt.mpr hi)]
    show b :: (sC.nodes i).chain = b :: (s.nodes i).chain
    rw [hextC.chn, hextB.chn, hextA.chn]

end NeoModel.Dbft
