/-
C20 (a): which Puts wake `Run`, and what a wake-up achieves in EVERY reachable state (external writers included).
-/
import NeoModel.Proofs.QueueReach
namespace NeoModel.Queue

/-- queue.go:153-204: every Put that passes the two window tests signals `checkBlocks` — whether the element is
stored, replaces a stale one, or is thrown away as a duplicate of what is queued already. -/
theorem put_signals (s : State) (e : Elem) (hr : Nat) (hd : s.discarded = false) (h1 : hr < e.idx)
    (h2 : e.idx ≤ hr + s.cap) : (put s e hr).signal = true := by
  unfold put
  simp only [hd, Bool.false_eq_true, if_false]
  have n1 : ¬ e.idx ≤ hr := by omega
  have n2 : ¬ hr + s.cap < e.idx := by omega
  simp only [n1, n2, if_false]
  split
  · rfl
  · simp [insert]

/-- … and no other Put does (the state is untouched). -/
theorem put_silent (s : State) (e : Elem) (hr : Nat) (h : s.discarded = true ∨ e.idx ≤ hr ∨ hr + s.cap < e.idx) :
    put s e hr = s := by
  unfold put
  rcases h with h | h | h
  · simp [h]
  · split
    · rfl
    · simp [h]
  · split
    · rfl
    · split
      · rfl
      · simp [h]

/-- From ANY state that satisfies the all-schedule invariants (`Inv`, `Offer`: reachable with external additions at
any moment), with `(height, m]` queued and a signal pending, `Run` alone reaches `m`. -/
theorem reaches_of_signal (s : State) (m : Nat) (hi : Inv s) (ho : Offer s) (hnd : s.discarded = false)
    (hfill : Filled s m) (hsig : s.signal = true) (hpc : s.pc ≠ .done) : ∃ n, m ≤ (runN n s).height := by
  by_cases hstale : ∃ h, s.pc = .haveH h ∧ h ≠ s.height
  · -- `Run` holds a stale height: its lock section runs with it, then `Run` is on fresh ground
    obtain ⟨h, hp, hne⟩ := hstale
    have hle := hi.pcH h hp
    have hs1 : runStep s = lockSection s h := by simp [runStep, hp]
    have hi1 : Inv (runStep s) := inv_run s hi
    have ho1 : Offer (runStep s) := offer_apply s .run hi ho
    have hh1 : (runStep s).height = s.height := by rw [hs1]; rfl
    have hc1 : (runStep s).cap = s.cap := by rw [hs1]; rfl
    have hsg1 : (runStep s).signal = true := by rw [hs1]; exact hsig
    have hnd1 : (runStep s).discarded = false := by rw [hs1]; exact hnd
    have hpc1 : ∀ h', (runStep s).pc ≠ .haveH h' := by
      intro h' e
      rw [hs1] at e
      simp only [lockSection] at e
      split at e
      · cases e
      · split at e <;> cases e
    have hpcd : (runStep s).pc ≠ .done := by
      intro e
      rw [hs1] at e
      simp only [lockSection] at e
      split at e
      · cases e
      · split at e <;> cases e
    have hfill1 : Filled (runStep s) m := by
      intro i hi1' hi2
      rw [hh1] at hi1'
      obtain ⟨x, hx1, hx2, hx3⟩ := hfill i hi1' hi2
      refine ⟨x, ?_, hx2, hx3⟩
      rw [hc1, hs1]
      show (cleanup s.cap (h - s.lastHeight) s.lastHeight s.ring s.len).1 (posOf s.cap i) = some x
      by_cases hn : h - s.lastHeight = 0
      · rw [hn]; exact hx1
      · exact cleanup_keeps _ _ _ _ _ _ _ hx1 (by omega)
    have g : Good (runStep s) m :=
      ⟨hi1, ⟨fun h' e => absurd e (hpc1 h'), ho1.holding, ho1.added⟩, hnd1,
       fun _ => ⟨hfill1, .inl ⟨hsg1, hpcd⟩⟩⟩
    obtain ⟨n, hn⟩ := reaches (runStep s) m g
    exact ⟨n + 1, by simpa [runN] using hn⟩
  · have hfresh : Fresh s :=
      ⟨fun h e => by
        by_cases e' : h = s.height
        · exact e'
        · exact absurd ⟨h, e, e'⟩ hstale, ho.holding, ho.added⟩
    exact reaches s m ⟨hi, hfresh, hnd, fun _ => ⟨hfill, .inl ⟨hsig, hpc⟩⟩⟩

/-- `Run` ends only after Discard. -/
theorem done_apply (s : State) (a : Act) (h : s.pc = .done → s.discarded = true) :
    (apply s a).pc = .done → (apply s a).discarded = true := by
  cases a with
  | put e hr =>
    obtain ⟨h1, _, _, h4⟩ := put_frame s e (min hr s.height)
    simp only [apply, h1, h4]; exact h
  | adv => exact h
  | notify => simp only [apply, notify]; split <;> exact h
  | disc =>
    simp only [apply, discard]
    split
    · rename_i hd; intro _; exact hd
    · intro _; rfl
  | run =>
    simp only [apply, runStep]
    split
    · intro e; simp [start] at e
    · unfold wake
      split
      · intro e; simp at e
      · split
        · rename_i hd; intro _; exact hd
        · exact h
    · intro e; simp [readH] at e
    · intro e
      simp only [lockSection] at e
      split at e
      · cases e
      · split at e <;> cases e
    · intro e; simp [addItem] at e
    · intro e; simp [finish] at e
    · exact h

theorem done_exec (s : State) (as : List Act) (h : s.pc = .done → s.discarded = true) :
    (exec s as).pc = .done → (exec s as).discarded = true := by
  induction as generalizing s with
  | nil => exact h
  | cons a r ih => exact ih _ (done_apply s a h)

theorem nd_exec (s : State) (as : List Act) (hnd : ∀ a ∈ as, a ≠ .disc) (h : s.discarded = false) :
    (exec s as).discarded = false := by
  induction as generalizing s with
  | nil => exact h
  | cons a r ih => exact ih _ (fun b hb => hnd b (by simp [hb])) (nd_apply s a (hnd a (by simp)) h)

end NeoModel.Queue
