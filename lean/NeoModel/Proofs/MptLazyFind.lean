/-
Trie.Find on the in-memory representation (Model/Mpt/LazyFind.lean) refines `findX` on the expanded trie.
-/
import NeoModel.Model.Mpt.LazyFind
import NeoModel.Proofs.MptLazy
import NeoModel.Proofs.MptFind
namespace NeoModel.Mpt

variable {H : Bytes → Bytes} {S : LStore}

theorem runProc_status (m : Nat) (frm : Option Path) : ∀ (vs : List Vis) (c : Nat),
    (runProc m frm vs c).2.2 = 0 ∨ (runProc m frm vs c).2.2 = 1 := by
  intro vs
  induction vs with
  | nil => intro c; left; rfl
  | cons e vs ih =>
    intro c
    simp only [runProc]
    split
    · right; rfl
    · exact ih _

theorem runProc_append (m : Nat) (frm : Option Path) : ∀ (a b : List Vis) (c : Nat),
    runProc m frm (a ++ b) c =
      if (runProc m frm a c).2.2 ≠ 0 then runProc m frm a c
      else ((runProc m frm a c).1 ++ (runProc m frm b (runProc m frm a c).2.1).1,
            (runProc m frm b (runProc m frm a c).2.1).2.1, (runProc m frm b (runProc m frm a c).2.1).2.2) := by
  intro a
  induction a with
  | nil => intro b c; simp [runProc]
  | cons e a ih =>
    intro b c
    simp only [List.cons_append, runProc]
    split
    · simp
    · rw [ih]
      split <;> simp_all

/-- the loop over the children: each child's traversal is the pure one on the sub-trie it
represents, so the loop is the pure traversal of the concatenation. -/
theorem loopKids_rep (m : Nat) (frm : Option Path) (rec : Nib → LNode → Nat → LNode × TR)
    (cs : Nib → Node) (vis : Nib → List Vis)
    (hrec : ∀ i l c, LRep H S l (cs i) → (rec i l c).2 = runProc m frm (vis i) c ∧ LRep H S (rec i l c).1 (cs i)) :
    ∀ (idx : List Nib) (ls : Nib → LNode) (c : Nat), (∀ j, LRep H S (ls j) (cs j)) →
      (loopKids rec idx ls c).2 = runProc m frm (idx.flatMap vis) c ∧
      ∀ j, LRep H S ((loopKids rec idx ls c).1 j) (cs j) := by
  intro idx
  induction idx with
  | nil => intro ls c hl; exact ⟨rfl, hl⟩
  | cons i rest ih =>
    intro ls c hl
    obtain ⟨h1, h2⟩ := hrec i (ls i) c (hl i)
    have hupd : ∀ j, LRep H S (lupd ls i (rec i (ls i) c).1 j) (cs j) := by
      intro j; unfold lupd; split
      · next e => subst e; exact h2
      · exact hl j
    obtain ⟨g1, g2⟩ := ih (lupd ls i (rec i (ls i) c).1) (rec i (ls i) c).2.2.1 hupd
    simp only [loopKids, List.flatMap_cons]
    rw [runProc_append, ← h1]
    by_cases hs : (rec i (ls i) c).2.2.2 ≠ 0
    · rw [if_pos hs, if_pos hs]; exact ⟨rfl, hupd⟩
    · rw [if_neg hs, if_neg hs]
      refine ⟨?_, g2⟩
      rw [← g1]

theorem visits_branch_nil (cs : Nib → Node) (v : Option Val) (path : Path) :
    visits (.branch cs v) path [] =
      (path, none) :: (visits (slotNode v) path [] ++ (List.finRange 16).flatMap fun i => visits (cs i) (path ++ [i]) []) := by
  cases v <;> simp [slotNode, visits]

theorem runProc_cons_none (m : Nat) (frm : Option Path) (path : Path) (rest : List Vis) (c : Nat) (hc : ¬ c ≥ m) :
    runProc m frm ((path, none) :: rest) c =
      ((path, none) :: (runProc m frm rest c).1, (runProc m frm rest c).2.1, (runProc m frm rest c).2.2) := by
  simp [runProc, procCount, hc]

/-- the traversal through HashNodes visits what the traversal of the represented trie visits, stops
where it stops, meets no storage error, and leaves a node that represents the same trie. -/
theorem ltravF_rep (m : Nat) (frm : Option Path) : ∀ (f : Nat) (l : LNode) (t : Node) (path fr : Path) (c : Nat),
    LRep H S l t → need l t ≤ f →
    (ltravF S m frm f l path fr c).2 = runProc m frm (visits t path fr) c ∧
    LRep H S (ltravF S m frm f l path fr c).1 t := by
  intro f
  induction f with
  | zero => intro l t _ _ _ _ hf; have := need_pos l t; omega
  | succ f ih =>
    intro l t path fr c hr hf
    cases l with
    | empty => simp [LRep] at hr; subst hr; exact ⟨rfl, by simp [ltravF, LRep]⟩
    | hash h =>
      obtain ⟨hres, hr'⟩ := rep_hash hr
      obtain ⟨h1, h2⟩ := ih _ t path fr c hr' (need_hash hf)
      simp only [ltravF, hres]
      have hne : ¬ (ltravF S m frm f (lshallow H t) path fr c).2.2.2 = 2 := by
        rw [h1]; rcases runProc_status m frm (visits t path fr) c with h0 | h0 <;> rw [h0] <;> decide
      rw [if_neg hne]; exact ⟨h1, h2⟩
    | leaf w =>
      simp [LRep] at hr; subst hr
      simp only [ltravF, visits]
      by_cases hfr : fr = []
      · simp only [hfr, if_true, runProc]
        refine ⟨?_, by simp [LRep]⟩
        split <;> rfl
      · simp [hfr, runProc, LRep]
    | ext k n =>
      obtain ⟨mm, rfl, hm⟩ := hr
      have hn := fun p fr' c' => ih n mm p fr' c' hm (need_ext hf)
      cases fr with
      | nil =>
        simp only [ltravF, visits]
        by_cases hc : c ≥ m
        · rw [if_pos hc]
          exact ⟨by simp [runProc, procCount, hc], ⟨mm, rfl, hm⟩⟩
        · rw [if_neg hc, runProc_cons_none m frm path _ c hc]
          obtain ⟨h1, h2⟩ := hn (path ++ k) [] c
          exact ⟨by rw [← h1], ⟨mm, rfl, h2⟩⟩
      | cons a fr' =>
        simp only [ltravF, visits]
        cases hs : stripPre k (a :: fr') with
        | some rest =>
          obtain ⟨h1, h2⟩ := hn (path ++ k) rest c
          exact ⟨h1, ⟨mm, rfl, h2⟩⟩
        | none =>
          simp only
          split
          · obtain ⟨h1, h2⟩ := hn (path ++ k) [] c
            exact ⟨h1, ⟨mm, rfl, h2⟩⟩
          · exact ⟨rfl, ⟨mm, rfl, hm⟩⟩
    | branch ls lv =>
      obtain ⟨cs, v, rfl, hc, hv⟩ := hr
      have hk : ∀ (frk : Nib → Path) i l c', LRep H S l (cs i) →
          (ltravF S m frm f l (path ++ [i]) (frk i) c').2 = runProc m frm (visits (cs i) (path ++ [i]) (frk i)) c' ∧
            LRep H S (ltravF S m frm f l (path ++ [i]) (frk i) c').1 (cs i) := by
        intro frk i l c' hl
        have : need l (cs i) ≤ f := by
          have := need_le l (cs i)
          have := height_kid cs v i
          simp [need, LNode.isHash] at hf; omega
        exact ih l (cs i) _ _ c' hl this
      cases fr with
      | nil =>
        rw [visits_branch_nil]
        simp only [ltravF]
        by_cases hcm : c ≥ m
        · rw [if_pos hcm]
          exact ⟨by simp [runProc, procCount, hcm], ⟨cs, v, rfl, hc, hv⟩⟩
        · obtain ⟨h1, h2⟩ := ih lv (slotNode v) path [] c hv (need_slot hf)
          rw [if_neg hcm, runProc_cons_none m frm path _ c hcm, runProc_append, ← h1]
          by_cases hs : (ltravF S m frm f lv path [] c).2.2.2 ≠ 0
          · rw [if_pos hs, if_pos hs]
            exact ⟨rfl, ⟨cs, v, rfl, hc, h2⟩⟩
          · rw [if_neg hs, if_neg hs]
            obtain ⟨g1, g2⟩ := loopKids_rep (H := H) (S := S) m frm
              (fun i l c => ltravF S m frm f l (path ++ [i]) [] c) cs
              (fun i => visits (cs i) (path ++ [i]) []) (fun i l c' hl => hk (fun _ => []) i l c' hl)
              (List.finRange 16) ls (ltravF S m frm f lv path [] c).2.2.1 hc
            exact ⟨by rw [← g1], ⟨cs, v, rfl, g2, h2⟩⟩
      | cons s fr' =>
        simp only [ltravF, visits]
        obtain ⟨g1, g2⟩ := loopKids_rep (H := H) (S := S) m frm
          (fun i l c => ltravF S m frm f l (path ++ [i]) (if i = s then fr' else []) c) cs
          (fun i => visits (cs i) (path ++ [i]) (if i = s then fr' else []))
          (fun i l c' hl => hk (fun i => if i = s then fr' else []) i l c' hl)
          ((List.finRange 16).filter (fun i => s ≤ i)) ls c hc
        exact ⟨g1, ⟨cs, v, rfl, g2, hv⟩⟩

theorem findX_eq_findK (t : Node) (pre : Path) (frm : Option Path) (m : Nat) :
    findX t pre frm m = (getWithPathNS t pre).bind fun x => findK m pre frm x.1 x.2 := by
  unfold findX findGen findK
  cases getWithPathNS t pre with
  | none => rfl
  | some x => rfl

theorem collect_runProc (m : Nat) (frm : Option Path) : ∀ (vs : List Vis) (c : Nat),
    collect m frm vs c = (leavesV (runProc m frm vs c).1).filter fun e => notFrom frm e.1 := by
  intro vs
  induction vs with
  | nil => intro c; simp [collect, runProc, leavesV]
  | cons e vs ih =>
    intro c
    obtain ⟨p, ov⟩ := e
    cases ov with
    | none =>
      simp only [collect, runProc, procCount]
      by_cases h : c ≥ m
      · simp [h, leavesV]
      · simp only [h, if_false, ih]; simp [leavesV]
    | some v =>
      simp only [collect, runProc, procCount]
      by_cases hn : notFrom frm p = true
      · simp only [hn, if_true]
        by_cases h : c + 1 ≥ m
        · simp [h, leavesV, hn]
        · simp only [h, if_false, ih]; simp [leavesV, hn]
      · simp only [hn, Bool.false_eq_true, if_false]
        by_cases h : c ≥ m
        · simp [h, leavesV, hn]
        · simp only [h, if_false, ih]; simp [leavesV, hn]

theorem lfindK_rep (F m : Nat) (pre : Path) (frm : Option Path) (ls : LNode) (start : Node) (full : Path)
    (hr : LRep H S ls start) (hF : 2 * height start + 3 ≤ F) :
    (lfindK S F m pre frm ls full).2 = findK m pre frm start full ∧ LRep H S (lfindK S F m pre frm ls full).1 start := by
  have hgo : ∀ f, ((ltravF S m frm F ls (full.drop pre.length) f 0).1,
      if (ltravF S m frm F ls (full.drop pre.length) f 0).2.2.2 = 2 then none
      else some ((leavesV (ltravF S m frm F ls (full.drop pre.length) f 0).2.1).filter fun e => notFrom frm e.1)).2 =
        some (collect m frm (visits start (full.drop pre.length) f) 0) ∧
      LRep H S (ltravF S m frm F ls (full.drop pre.length) f 0).1 start := by
    intro f
    obtain ⟨h1, h2⟩ := ltravF_rep (H := H) (S := S) m frm F ls start (full.drop pre.length) f 0 hr
      (Nat.le_trans (need_le ls start) hF)
    refine ⟨?_, h2⟩
    have hne : ¬ (ltravF S m frm F ls (full.drop pre.length) f 0).2.2.2 = 2 := by
      rw [h1]; rcases runProc_status m frm (visits start (full.drop pre.length) f) 0 with h0 | h0 <;> rw [h0] <;> decide
    rw [if_neg hne, h1, collect_runProc]
  unfold lfindK findK
  simp only []
  split
  · exact hgo _
  · split
    · exact hgo _
    · split
      · exact hgo _
      · split
        · exact ⟨rfl, hr⟩
        · exact hgo _

theorem rep_keepHash {old new : LNode} {t : Node} (ho : LRep H S old t) (hn : LRep H S new t) :
    LRep H S (keepHash old new) t := by
  unfold keepHash; split <;> assumption

/-- looking for the start node through HashNodes, loading the path in place, then `k` on the start
node: the result is `kp` on the start node of the expanded trie, and the root still represents it. -/
theorem ldescend_rep (B : Nat) : ∀ (f : Nat) (k : LNode → Path → LNode × Option (List (Path × Val)))
    (kp : Node → Path → Option (List (Path × Val))) (l : LNode) (t : Node) (p : Path),
    LRep H S l t → need l t ≤ f → height t ≤ B →
    (∀ ls start full, LRep H S ls start → height start ≤ B →
      (k ls full).2 = kp start full ∧ LRep H S (k ls full).1 start) →
    (∀ start full, getWithPathNS t p = some (start, full) →
      (ldescend S k f l p).2 = some (kp start full) ∧ LRep H S (ldescend S k f l p).1 t) ∧
    (getWithPathNS t p = none → ldescend S k f l p = (l, none)) := by
  intro f
  induction f with
  | zero => intro _ _ l t _ _ hf; have := need_pos l t; omega
  | succ f ih =>
    intro k kp l t p hr hf hB hk
    cases l with
    | empty => simp [LRep] at hr; subst hr; simp [getWithPathNS, ldescend]
    | hash h =>
      obtain ⟨hres, hr'⟩ := rep_hash hr
      obtain ⟨h1, h2⟩ := ih k kp _ t p hr' (need_hash hf) hB hk
      simp only [ldescend, hres]
      refine ⟨fun start full hg => ?_, fun hg => ?_⟩
      · obtain ⟨g1, g2⟩ := h1 start full hg
        simp only [g1, Option.isNone_some, Bool.false_eq_true, if_false]
        exact ⟨trivial, g2⟩
      · simp [h2 hg]
    | leaf w =>
      simp [LRep] at hr; subst hr
      cases p with
      | nil =>
        refine ⟨fun start full hg => ?_, fun hg => by simp [getWithPathNS] at hg⟩
        simp [getWithPathNS] at hg
        obtain ⟨rfl, rfl⟩ := hg
        obtain ⟨g1, g2⟩ := hk (.leaf w) (.leaf w) [] (by simp [LRep]) hB
        simp only [ldescend]
        exact ⟨by rw [g1], g2⟩
      | cons a p => simp [getWithPathNS, ldescend]
    | ext key n =>
      obtain ⟨mm, rfl, hm⟩ := hr
      have hle : height mm ≤ B := by simp [height] at hB; omega
      have hstart : (k n key).2 = kp mm key ∧ LRep H S (k n key).1 mm := hk n mm key hm hle
      cases p with
      | nil =>
        refine ⟨fun start full hg => ?_, fun hg => by simp [getWithPathNS] at hg⟩
        simp [getWithPathNS] at hg
        obtain ⟨rfl, rfl⟩ := hg
        simp only [ldescend]
        exact ⟨by rw [hstart.1], ⟨_, rfl, rep_keepHash hm hstart.2⟩⟩
      | cons a p =>
        simp only [getWithPathNS, ldescend]
        cases hs : stripPre key (a :: p) with
        | some rest =>
          obtain ⟨h1, h2⟩ := ih (fun s full => k s (key ++ full)) (fun s full => kp s (key ++ full)) n mm rest hm
            (need_ext hf) hle (fun ls start full hl hh => hk ls start (key ++ full) hl hh)
          refine ⟨fun start full hg => ?_, fun hg => ?_⟩
          · cases hgg : getWithPathNS mm rest with
            | none => simp [hgg] at hg
            | some x =>
              simp [hgg] at hg
              obtain ⟨rfl, rfl⟩ := hg
              obtain ⟨g1, g2⟩ := h1 x.1 x.2 (by rw [hgg])
              simp only [g1, Option.isNone_some, Bool.false_eq_true, if_false]
              exact ⟨trivial, ⟨mm, rfl, g2⟩⟩
          · cases hgg : getWithPathNS mm rest with
            | none => simp [h2 hgg]
            | some x => simp [hgg] at hg
        | none =>
          by_cases hp : (stripPre (a :: p) key).isSome = true
          · simp only [hp, if_true]
            refine ⟨fun start full hg => ?_, fun hg => by cases hg⟩
            injection hg with hg
            obtain ⟨rfl, rfl⟩ := Prod.mk.inj hg
            exact ⟨by rw [hstart.1], ⟨_, rfl, rep_keepHash hm hstart.2⟩⟩
          · simp [hp]
    | branch ls lv =>
      obtain ⟨cs, v, rfl, hc, hv⟩ := hr
      cases p with
      | nil =>
        refine ⟨fun start full hg => ?_, fun hg => by simp [getWithPathNS] at hg⟩
        simp [getWithPathNS] at hg
        obtain ⟨rfl, rfl⟩ := hg
        obtain ⟨g1, g2⟩ := hk (.branch ls lv) (.branch cs v) [] ⟨cs, v, rfl, hc, hv⟩ hB
        simp only [ldescend]
        exact ⟨by rw [g1], g2⟩
      | cons i r =>
        have hle : height (cs i) ≤ B := Nat.le_trans (Nat.le_of_lt (height_kid cs v i)) hB
        obtain ⟨h1, h2⟩ := ih (fun s full => k s (i :: full)) (fun s full => kp s (i :: full)) (ls i) (cs i) r (hc i)
          (need_kid hf i) hle (fun ls' start full hl hh => hk ls' start (i :: full) hl hh)
        simp only [getWithPathNS, ldescend]
        refine ⟨fun start full hg => ?_, fun hg => ?_⟩
        · cases hgg : getWithPathNS (cs i) r with
          | none => simp [hgg] at hg
          | some x =>
            simp [hgg] at hg
            obtain ⟨rfl, rfl⟩ := hg
            obtain ⟨g1, g2⟩ := h1 x.1 x.2 (by rw [hgg])
            simp only [g1, Option.isNone_some, Bool.false_eq_true, if_false]
            refine ⟨trivial, ⟨cs, v, rfl, fun j => ?_, hv⟩⟩
            unfold lupd; split
            · next e => subst e; exact g2
            · exact hc j
        · cases hgg : getWithPathNS (cs i) r with
          | none => simp [h2 hgg]
          | some x => simp [hgg] at hg

/-- `Trie.Find` on the in-memory representation: the result of `findX` on the represented trie (no
storage error), and the root it leaves behind — with the nodes it loaded in place — represents the
same trie. -/
theorem lfind_rep (F : Nat) (l : LNode) (t : Node) (pre : Path) (frm : Option Path) (m : Nat)
    (hr : LRep H S l t) (hF : 2 * height t + 3 ≤ F) :
    (lfind S F l pre frm m).2 = findX t pre frm m ∧ LRep H S (lfind S F l pre frm m).1 t := by
  obtain ⟨h1, h2⟩ := ldescend_rep (H := H) (S := S) (height t) F (lfindK S F m pre frm) (findK m pre frm) l t pre hr
    (Nat.le_trans (need_le l t) hF) (Nat.le_refl _)
    (fun ls start full hl hh => lfindK_rep F m pre frm ls start full hl (by omega))
  unfold lfind
  rw [findX_eq_findK]
  cases hg : getWithPathNS t pre with
  | none =>
    rw [h2 hg]
    exact ⟨rfl, rep_keepHash hr hr⟩
  | some x =>
    obtain ⟨g1, g2⟩ := h1 x.1 x.2 (by rw [hg])
    simp only [g1, Option.join, Option.bind]
    exact ⟨rfl, rep_keepHash hr g2⟩

end NeoModel.Mpt
