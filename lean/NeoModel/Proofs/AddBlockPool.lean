/-
C06 helper lemmas: the verdict of AddBlock does not depend on the content of the mempool as long as the
mempool shortcut of the transaction loop is sound.
-/
import NeoModel.Proofs.AddBlockHist
import NeoModel.Proofs.AddBlockTxLoop
namespace NeoModel.AddBlock
variable {L : Type}

/-- the same node with another mempool -/
def withPool (s : Node L) (q : List Tx) : Node L := { s with pool := q }

theorem addHeaders_withPool (env : Env L) (s : Node L) (q : List Tx) (v : Bool) (hs : List Header) :
    addHeaders env (withPool s q) v hs = (withPool (addHeaders env s v hs).1 q, (addHeaders env s v hs).2) := by
  unfold addHeaders
  have hvc : ∀ last l, verifyChain env (withPool s q) last l = verifyChain env s last l :=
    fun last l => verifyChain_congr env (withPool s q) s rfl rfl rfl last l
  have hlk : ∀ x, (withPool s q).lookup x = s.lookup x := fun _ => rfl
  have hhh : (withPool s q).headerHeight = s.headerHeight := rfl
  simp only [hhh]
  cases List.dropWhile (fun h => decide (h.index ≤ s.headerHeight)) hs with
  | nil => rfl
  | cons h0 rest =>
    simp only [hlk, hvc]
    cases v with
    | false => rfl
    | true =>
      simp only [if_true]
      cases s.lookup h0.prevHash with
      | none => rfl
      | some last =>
        simp only
        cases verifyChain env s last (h0 :: rest) <;> rfl

theorem headerStep_withPool (env : Env L) (s : Node L) (q : List Tx) (b : Block) :
    headerStep env (withPool s q) b = (withPool (headerStep env s b).1 q, (headerStep env s b).2) := by
  unfold headerStep
  have hhh : (withPool s q).headerHeight = s.headerHeight := rfl
  have hhd : (withPool s q).headers = s.headers := rfl
  have hcf : (withPool s q).cfg = s.cfg := rfl
  have hlk : ∀ x, (withPool s q).lookup x = s.lookup x := fun _ => rfl
  simp only [hhh, hhd, hcf, hlk, addHeaders_withPool]
  split
  · rfl
  · split
    · rfl
    · split
      · rfl
      · split
        · rfl
        · split
          · rfl
          · split <;> rfl

theorem storeBlock_withPool_verdict (env : Env L) (s : Node L) (q : List Tx) (b : Block) :
    (storeBlock env (withPool s q) b).2 = (storeBlock env s b).2 := by
  unfold storeBlock
  have hl : (withPool s q).ledger = s.ledger := rfl
  have hn : ∀ i l', nextHeaderOK env (withPool s q) i l' = nextHeaderOK env s i l' := fun _ _ => rfl
  simp only [hl, hn]
  split
  · rfl
  cases env.apply s.ledger b with
  | none => rfl
  | some l' =>
    simp only
    split <;> rfl

theorem addHeaders_onlyHeaders (env : Env L) (s : Node L) (v : Bool) (hs : List Header) :
    ∃ hh, (addHeaders env s v hs).1 = { s with headers := hh } := by
  unfold addHeaders
  cases List.dropWhile (fun h => decide (h.index ≤ s.headerHeight)) hs with
  | nil => exact ⟨s.headers, rfl⟩
  | cons h0 rest =>
    simp only
    split
    · exact ⟨s.headers, rfl⟩
    · exact ⟨_, rfl⟩

theorem headerStep_onlyHeaders (env : Env L) (s : Node L) (b : Block) :
    ∃ hh, (headerStep env s b).1 = { s with headers := hh } := by
  unfold headerStep
  split
  · exact addHeaders_onlyHeaders env s _ _
  · split
    · exact ⟨s.headers, rfl⟩
    · split
      · exact ⟨s.headers, rfl⟩
      · split
        · exact ⟨s.headers, rfl⟩
        · split
          · exact ⟨s.headers, rfl⟩
          · split <;> exact ⟨s.headers, rfl⟩

/-- the mempool shortcut is sound for this block at this node: a block transaction found in the pool with
the same hash and witnesses passes the stand-alone verification -/
def ShortcutSound (env : Env L) (s : Node L) (b : Block) : Prop :=
  ∀ t ∈ b.txs, pooledSame s t = true → env.txValid s.ledger s.blockHeight t = true

theorem bodyStep_withPool_verdict (env : Env L) (s : Node L) (q : List Tx) (b : Block)
    (h1 : ShortcutSound env s b) (h2 : ShortcutSound env (withPool s q) b) :
    (bodyStep env (withPool s q) b).2 = (bodyStep env s b).2 := by
  have hloop : txLoop env (withPool s q) [] b.txs = txLoop env s [] b.txs := by
    rw [txLoop_pool_irrelevant env s [] b.txs h1, txLoop_pool_irrelevant env (withPool s q) [] b.txs h2]
    rfl
  unfold bodyStep
  have hcf : (withPool s q).cfg = s.cfg := rfl
  simp only [hcf, hloop]
  split
  · rfl
  · split
    · rfl
    · split
      · rfl
      · exact storeBlock_withPool_verdict env s q b

/-- C06: whether AddBlock accepts a block, and the error class if not, do not depend on the content of
the mempool — as long as the mempool shortcut is sound (the pooled transactions that the block carries
are valid, C07's subject). The mempool only decides what is left in it afterwards. -/
theorem addBlock_verdict_pool_irrelevant (env : Env L) (s : Node L) (q : List Tx) (b : Block)
    (h1 : ShortcutSound env s b) (h2 : ShortcutSound env (withPool s q) b) :
    (addBlock env (withPool s q) b).2 = (addBlock env s b).2 := by
  unfold addBlock
  have hbh : (withPool s q).blockHeight = s.blockHeight := rfl
  have hcf : (withPool s q).cfg = s.cfg := rfl
  simp only [hbh, hcf, headerStep_withPool]
  split
  · rfl
  · split
    · rfl
    · cases hh : headerStep env s b with
      | mk s1 r1 =>
        cases r1 with
        | some e => rfl
        | none =>
          simp only
          have hs1 : s1.ledger = s.ledger ∧ s1.blockHeight = s.blockHeight ∧ s1.pool = s.pool := by
            obtain ⟨hl, hx⟩ := headerStep_onlyHeaders env s b
            rw [hh] at hx
            simp only at hx
            subst hx
            exact ⟨rfl, rfl, rfl⟩
          apply bodyStep_withPool_verdict
          · intro t ht hp
            have := h1 t ht (by simpa [pooledSame, hs1.2.2] using hp)
            rw [hs1.1, hs1.2.1]; exact this
          · intro t ht hp
            have := h2 t ht (by simpa [pooledSame, withPool] using hp)
            simpa [withPool, hs1.1, hs1.2.1] using this

/-! ### no step before the transaction loop answers with the transaction error -/

theorem verifyHeader_ne_tx (env : Env L) (s : Node L) (cur prev : Header) : verifyHeader env s cur prev ≠ some .tx := by
  unfold verifyHeader
  repeat' split
  all_goals simp

theorem verifyChain_ne_tx (env : Env L) (s : Node L) (last : Header) (hs : List Header) :
    verifyChain env s last hs ≠ some .tx := by
  induction hs generalizing last with
  | nil => simp [verifyChain]
  | cons h rest ih =>
    simp only [verifyChain]
    cases hv : verifyHeader env s h last with
    | none => exact ih h
    | some e =>
      intro hc
      simp only at hc
      rw [hc] at hv
      exact verifyHeader_ne_tx env s h last hv

theorem addHeaders_ne_tx (env : Env L) (s : Node L) (v : Bool) (hs : List Header) :
    (addHeaders env s v hs).2 ≠ some .tx := by
  unfold addHeaders
  cases List.dropWhile (fun h => decide (h.index ≤ s.headerHeight)) hs with
  | nil => simp
  | cons h0 rest =>
    simp only
    cases v with
    | false => simp
    | true =>
      simp only [if_true]
      cases s.lookup h0.prevHash with
      | none => simp
      | some last =>
        simp only
        cases hv : verifyChain env s last (h0 :: rest) with
        | none => simp
        | some e =>
          simp only
          intro hc
          have : e = .tx := by simpa using hc
          rw [this] at hv
          exact verifyChain_ne_tx env s last _ hv

theorem headerStep_ne_tx (env : Env L) (s : Node L) (b : Block) : (headerStep env s b).2 ≠ some .tx := by
  unfold headerStep
  split
  · exact addHeaders_ne_tx env s _ _
  · repeat' split
    all_goals simp

end NeoModel.AddBlock
