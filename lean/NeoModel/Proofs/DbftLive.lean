/- C19 helper lemmas: k synchronous rounds. -/
import NeoModel.Proofs.DbftLiveD
namespace NeoModel.Dbft

/-- the blocks decided by `k` synchronous rounds starting at height `h`, newest first -/
def decided (h : Nat) (props : Nat → Nat) : Nat → List Block
  | 0 => []
  | k + 1 => decided (h + 1) (fun r => props (r + 1)) k ++ [⟨h, 0, props 0⟩]

theorem clean_init (c : Cfg) : Clean c init 1 := by
  intro i _; simp [init]

/-- `k` synchronous rounds from a clean state decide `k` heights. -/
theorem sync_rounds (c : Cfg) (hn : 0 < c.n) (hprop : ∀ i b, c.propose i b = true) (hver : ∀ i b, c.verify i b = true)
    (k : Nat) : ∀ (s : State) (h : Nat) (props : Nat → Nat), Clean c s h →
    ∃ s', run c s (fairRounds c h props k) = some s' ∧ Clean c s' (h + k) ∧ s'.net = s.net ∧
      ∀ i, i < c.n → (s'.nodes i).chain = decided h props k ++ (s.nodes i).chain := by
  induction k with
  | zero => intro s h props hc; exact ⟨s, by simp [fairRounds, run], hc, rfl, fun _ _ => by simp [decided]⟩
  | succ k ih =>
    intro s h props hc
    obtain ⟨s1, hrun1, hc1, hnet1, hch1⟩ := sync_round c hn s h (props 0) hc (hprop _ _) (fun j => hver j _)
    obtain ⟨s2, hrun2, hc2, hnet2, hch2⟩ := ih s1 (h + 1) (fun r => props (r + 1)) hc1
    refine ⟨s2, ?_, ?_, hnet2.trans hnet1, ?_⟩
    · simp only [fairRounds]; rw [run_append, hrun1]; exact hrun2
    · have : h + (k + 1) = h + 1 + k := by omega
      rw [this]; exact hc2
    · intro i hi
      rw [hch2 i hi, hch1 i hi]; simp [decided]

end NeoModel.Dbft
