/-
C08 helper: the stages of `Add` after `checkTxConflicts` — oracle-response replacement, insertion index,
eviction at capacity, registration in the index maps, fee bookkeeping — preserve the invariant.
-/
import NeoModel.Proofs.MempoolCheck
namespace NeoModel.Mempool

/-! ### registering a new transaction in the index maps -/

theorem count_one_of_nodup (hs : List Nat) (x : Nat) (hnd : hs.Nodup) (hin : x ∈ hs) : hs.count x = 1 := by
  induction hs with
  | nil => cases hin
  | cons a l ih =>
    rw [List.nodup_cons] at hnd
    rw [List.count_cons]
    by_cases e : a = x
    · subst e
      have : l.count a = 0 := List.count_eq_zero_of_not_mem hnd.1
      simp [this]
    · have hx : x ∈ l := by
        rcases List.mem_cons.mp hin with h | h
        · exact absurd h.symm e
        · exact h
      have := ih hnd.2 hx
      simp [e, this]

theorem addConflictEntries_spec (id : Nat) (hs : List Nat) (c : Nat → Option (List Nat)) (h' : Nat) (hnd : hs.Nodup) :
    addConflictEntries c id hs h' = if h' ∈ hs then some ((c h').getD [] ++ [id]) else c h' := by
  unfold addConflictEntries
  by_cases hin : h' ∈ hs
  · have : hs.count h' = 1 := count_one_of_nodup hs h' hnd hin
    simp [this, hin]
  · have : hs.count h' = 0 := List.count_eq_zero_of_not_mem hin
    simp [this, hin]

theorem vmapOk_insert {L L' : List Tx} {m : Nat → Option Tx} (t : Tx) (hv : VmapOk L m)
    (hfresh : ∀ e ∈ L, e.id ≠ t.id) (hmem : ∀ x, x ∈ L' ↔ x = t ∨ x ∈ L) :
    VmapOk L' (upd m t.id (some t)) := by
  intro h x
  rw [hmem x]
  by_cases e : h = t.id
  · subst e; rw [upd_same]
    constructor
    · intro hx; cases hx; exact ⟨Or.inl rfl, rfl⟩
    · intro ⟨h1, h2⟩
      rcases h1 with rfl | h1
      · rfl
      · exact absurd h2 (hfresh x h1)
  · rw [upd_other _ _ e, hv h x]
    constructor
    · intro ⟨h1, h2⟩; exact ⟨Or.inr h1, h2⟩
    · intro ⟨h1, h2⟩
      rcases h1 with rfl | h1
      · exact absurd h2.symm e
      · exact ⟨h1, h2⟩

theorem orcOk_insert {L L' : List Tx} {o : Nat → Option Nat} (t : Tx) (ho : OrcOk L o)
    (hmem : ∀ x, x ∈ L' ↔ x = t ∨ x ∈ L)
    (hnone : ∀ i, t.oracle = some i → ∀ e ∈ L, e.oracle ≠ some i) :
    OrcOk L' (match t.oracle with
      | some id => upd o id (some t.id)
      | none => o) := by
  intro i h
  cases hor : t.oracle with
  | none =>
    simp only; rw [ho i h]
    constructor
    · intro ⟨x, hx, h1, h2⟩; exact ⟨x, (hmem x).mpr (Or.inr hx), h1, h2⟩
    · intro ⟨x, hx, h1, h2⟩
      rcases (hmem x).mp hx with rfl | hx
      · rw [hor] at h2; cases h2
      · exact ⟨x, hx, h1, h2⟩
  | some id =>
    simp only
    by_cases e : i = id
    · subst e; rw [upd_same]
      constructor
      · intro hx
        have : t.id = h := Option.some.inj hx
        exact ⟨t, (hmem t).mpr (Or.inl rfl), this, hor⟩
      · intro ⟨x, hx, h1, h2⟩
        rcases (hmem x).mp hx with rfl | hx
        · rw [h1]
        · exact absurd h2 (hnone i hor x hx)
    · rw [upd_other _ _ e, ho i h]
      constructor
      · intro ⟨x, hx, h1, h2⟩; exact ⟨x, (hmem x).mpr (Or.inr hx), h1, h2⟩
      · intro ⟨x, hx, h1, h2⟩
        rcases (hmem x).mp hx with rfl | hx
        · rw [hor] at h2; exact absurd (Option.some.inj h2).symm e
        · exact ⟨x, hx, h1, h2⟩

theorem confOk_insert {L L' : List Tx} {c : Nat → Option (List Nat)} (t : Tx) (hc : ConfOk L c)
    (hmem : ∀ x, x ∈ L' ↔ x = t ∨ x ∈ L) (hnd : t.conflicts.Nodup) (hfresh : ∀ e ∈ L, e.id ≠ t.id) :
    ConfOk L' (addConflictEntries c t.id t.conflicts) := by
  intro h
  rw [addConflictEntries_spec _ _ _ _ hnd]
  have hch := hc h
  by_cases hin : h ∈ t.conflicts
  · simp only [hin, if_true, ConfEntry]
    cases hl : c h with
    | none =>
      rw [hl] at hch; simp only [ConfEntry] at hch
      simp only [Option.getD_none, List.nil_append]
      refine ⟨by simp, by simp, ?_⟩
      intro z
      simp only [List.mem_singleton]
      constructor
      · intro hz; exact ⟨t, (hmem t).mpr (Or.inl rfl), hz.symm, hin⟩
      · intro ⟨x, hx, h1, h2⟩
        rcases (hmem x).mp hx with rfl | hx
        · exact h1.symm
        · exact absurd h2 (hch x hx)
    | some l =>
      rw [hl] at hch; simp only [ConfEntry] at hch
      obtain ⟨_, hlnd, hlmem⟩ := hch
      simp only [Option.getD_some]
      have hnot : t.id ∉ l := by
        intro hx
        obtain ⟨x, hx, h1, _⟩ := (hlmem t.id).mp hx
        exact hfresh x hx h1
      refine ⟨by simp, ?_, ?_⟩
      · rw [List.nodup_append]
        refine ⟨hlnd, by simp, ?_⟩
        intro a ha b hb
        simp only [List.mem_singleton] at hb
        subst hb; intro e; subst e; exact hnot ha
      · intro z
        rw [List.mem_append, hlmem z, List.mem_singleton]
        constructor
        · intro hz
          rcases hz with ⟨x, hx, h1, h2⟩ | hz
          · exact ⟨x, (hmem x).mpr (Or.inr hx), h1, h2⟩
          · exact ⟨t, (hmem t).mpr (Or.inl rfl), hz.symm, hin⟩
        · intro ⟨x, hx, h1, h2⟩
          rcases (hmem x).mp hx with rfl | hx
          · exact Or.inr h1.symm
          · exact Or.inl ⟨x, hx, h1, h2⟩
  · simp only [hin, if_false]
    cases hl : c h with
    | none =>
      rw [hl] at hch; simp only [ConfEntry] at *
      intro x hx
      rcases (hmem x).mp hx with rfl | hx
      · exact hin
      · exact hch x hx
    | some l =>
      rw [hl] at hch; simp only [ConfEntry] at *
      refine ⟨hch.1, hch.2.1, ?_⟩
      intro z; rw [hch.2.2 z]
      constructor
      · intro ⟨x, hx, h1, h2⟩; exact ⟨x, (hmem x).mpr (Or.inr hx), h1, h2⟩
      · intro ⟨x, hx, h1, h2⟩
        rcases (hmem x).mp hx with rfl | hx
        · exact absurd h2 hin
        · exact ⟨x, hx, h1, h2⟩

theorem feesOk_insert {L L' : List Tx} {f : Payer → Option Fee} (t : Tx) (hf : FeesOk L f) (fe : Fee)
    (hfe : f (payerOf t) = some fe) (hle : fe.feeSum + t.fee ≤ fe.balance)
    (hsum : ∀ q, sumFees q L' = (if payerOf t = q then t.fee else 0) + sumFees q L) :
    FeesOk L' (upd f (payerOf t) (some { fe with feeSum := fe.feeSum + t.fee })) := by
  intro q
  have hq := hf q
  by_cases e : q = payerOf t
  · subst e
    rw [upd_same]; rw [hfe] at hq
    simp only [FeeEntry] at *
    rw [hsum]; simp only [if_true]
    exact ⟨by omega, hle, hq.2.2⟩
  · rw [upd_other _ _ e]
    have hne : ¬ payerOf t = q := fun x => e x.symm
    have := hsum q
    simp only [hne, if_false, Nat.zero_add] at this
    cases hfq : f q with
    | none => rw [hfq] at hq; simp only [FeeEntry] at *; omega
    | some fe' => rw [hfq] at hq; simp only [FeeEntry] at *; rw [this]; exact hq

theorem tryAddSendersFee_nocheck (mp : Pool) (t : Tx) (feer : Feer) (fe : Fee) (hfe : mp.fees (payerOf t) = some fe) :
    (tryAddSendersFee mp t feer false).1 =
      { mp with fees := upd mp.fees (payerOf t) (some { fe with feeSum := addW fe.feeSum t.fee }) } := by
  unfold tryAddSendersFee getPayerFee
  simp [hfe]

/-! ### the cached balance of a payer survives removals -/

def BalKeep (f f' : Payer → Option Fee) (q : Payer) : Prop :=
  ∀ fe, f q = some fe → ∃ fe', f' q = some fe' ∧ fe'.balance = fe.balance

theorem BalKeep.refl (f : Payer → Option Fee) (q : Payer) : BalKeep f f q := fun fe h => ⟨fe, h, rfl⟩

theorem BalKeep.trans {f f' f'' : Payer → Option Fee} {q : Payer} (h1 : BalKeep f f' q) (h2 : BalKeep f' f'' q) :
    BalKeep f f'' q := by
  intro fe hfe
  obtain ⟨fe', h3, h4⟩ := h1 fe hfe
  obtain ⟨fe'', h5, h6⟩ := h2 fe' h3
  exact ⟨fe'', h5, by rw [h6, h4]⟩

theorem balKeep_removeFromMap (mp : Pool) (itm : Tx) (q : Payer) : BalKeep mp.fees (removeFromMap mp itm).fees q := by
  intro fe hfe
  unfold removeFromMap
  simp only
  by_cases e : q = payerOf itm
  · subst e; rw [upd_same, hfe]; exact ⟨_, rfl, rfl⟩
  · rw [upd_other _ _ e]; exact ⟨fe, hfe, rfl⟩

theorem balKeep_removeInternal (mp : Pool) (h : Nat) (q : Payer) : BalKeep mp.fees (removeInternal mp h).fees q := by
  unfold removeInternal
  split
  · exact BalKeep.refl _ _
  · simp only
    split
    · exact BalKeep.refl _ _
    · exact balKeep_removeFromMap { mp with txs := _ } _ q

theorem balKeep_removeAll (q : Payer) : ∀ (rm : List Tx) (mp : Pool), BalKeep mp.fees (removeAll mp rm).fees q := by
  intro rm
  induction rm with
  | nil => intro mp; exact BalKeep.refl _ _
  | cons c cs ih =>
    intro mp
    simp only [removeAll]
    exact (balKeep_removeInternal mp c.id q).trans (ih _)

/-! ### the stages of `Add` -/

theorem inv_fees_upd {U : Tx → Prop} {mp : Pool} (hi : Inv U mp) (p : Payer) (f : Fee)
    (h : FeeEntry mp.txs p (some f)) : Inv U { mp with fees := upd mp.fees p (some f) } :=
  ⟨hi.noPanic, hi.cap, hi.list, hi.vmap, hi.conf, hi.orc, feesOk_upd hi.fees p f h⟩

/-- what the oracle-response stage of `Add` guarantees -/
def OraclePost (U : Tx → Prop) (mp : Pool) (t : Tx) (r : Pool × Bool) : Prop :=
  r.1.panicked = false ∧
  (r.2 = false → r.1 = mp) ∧
  (r.2 = true →
    Inv U r.1 ∧ r.1.capacity = mp.capacity ∧ r.1.feePerByte = mp.feePerByte ∧
    r.1.txs.Sublist mp.txs ∧
    (r.1 = mp ∨ r.1.txs.length < mp.txs.length) ∧
    (∀ x ∈ mp.txs, x ∉ r.1.txs → x.oracle = t.oracle ∧ t.oracle ≠ none ∧ x.netFee < t.netFee) ∧
    (∀ i, t.oracle = some i → ∀ e ∈ r.1.txs, e.oracle ≠ some i) ∧
    ∀ q, BalKeep mp.fees r.1.fees q)

theorem oraclePost_same {U : Tx → Prop} {mp : Pool} (hi : Inv U mp) (t : Tx)
    (h : ∀ i, t.oracle = some i → ∀ e ∈ mp.txs, e.oracle ≠ some i) : OraclePost U mp t (mp, true) :=
  ⟨hi.noPanic, fun x => Bool.noConfusion x, fun _ => ⟨hi, rfl, rfl, List.Sublist.refl _, Or.inl rfl,
    fun _ hx hn => absurd hx hn, h, fun _ => BalKeep.refl _ _⟩⟩

theorem oraclePost_refuse {U : Tx → Prop} {mp : Pool} (hi : Inv U mp) (t : Tx) : OraclePost U mp t (mp, false) :=
  ⟨hi.noPanic, fun _ => rfl, fun x => Bool.noConfusion x⟩

theorem length_filter_ne_lt (l : List Tx) (x : Tx) (hx : x ∈ l) :
    (l.filter (fun t => t.id != x.id)).length < l.length := by
  induction l with
  | nil => cases hx
  | cons a l ih =>
    rw [List.filter_cons]
    by_cases ea : a.id = x.id
    · simp only [ea, bne_self_eq_false, Bool.false_eq_true, if_false, List.length_cons]
      exact Nat.lt_succ_of_le (List.length_filter_le _ _)
    · have hxl : x ∈ l := by
        rcases List.mem_cons.mp hx with rfl | h'
        · exact absurd rfl ea
        · exact h'
      have : (a.id != x.id) = true := by simpa using ea
      simp only [this, if_true, List.length_cons]
      exact Nat.succ_lt_succ (ih hxl)

theorem oraclePost_replace {U : Tx → Prop} (hw : WF U) {mp : Pool} (hi : Inv U mp) (t : Tx) (id : Nat) (e : Tx)
    (hor : t.oracle = some id) (he : e ∈ mp.txs) (heo : e.oracle = some id) (hfee : ¬ e.netFee ≥ t.netFee) :
    OraclePost U mp t (removeInternal mp e.id, true) := by
  obtain ⟨g1, g2, g3, g4⟩ := inv_removeInternal hw hi e.id
  refine ⟨g1.noPanic, fun x => Bool.noConfusion x, fun _ => ⟨g1, g3, g4, ?_, Or.inr ?_, ?_, ?_, fun q => balKeep_removeInternal mp e.id q⟩⟩
  · show (removeInternal mp e.id).txs.Sublist mp.txs
    rw [g2]; exact List.filter_sublist
  · show (removeInternal mp e.id).txs.length < mp.txs.length
    rw [g2]; exact length_filter_ne_lt mp.txs e he
  · intro x hx hn
    have hn : x ∉ (removeInternal mp e.id).txs := hn
    rw [g2] at hn
    have hid : x.id = e.id := by
      apply Classical.byContradiction
      intro hne; exact hn (mem_filter_ne.mpr ⟨hx, hne⟩)
    have : x = e := hi.list.idEq hw hx he hid
    subst this
    rw [hor]
    exact ⟨heo, by simp, by omega⟩
  · intro i hi' e' he' heo'
    have he' : e' ∈ (removeInternal mp e.id).txs := he'
    rw [hor] at hi'
    have hid : i = id := (Option.some.inj hi').symm
    subst hid
    rw [g2] at he'
    obtain ⟨he1, he2⟩ := mem_filter_ne.mp he'
    have := hi.list.orcUniq e' he1 e he i heo' heo
    subst this; exact he2 rfl

theorem oracleStage_spec {U : Tx → Prop} (hw : WF U) {mp : Pool} (hi : Inv U mp) (t : Tx) :
    OraclePost U mp t (oracleStage mp t) := by
  unfold oracleStage
  cases hor : t.oracle with
  | none =>
    simp only
    exact oraclePost_same hi t (by intro i h; rw [hor] at h; cases h)
  | some id =>
    simp only
    cases hresp : mp.oracleResp id with
    | none =>
      simp only
      apply oraclePost_same hi t
      intro i hi' e' he' heo
      rw [hor] at hi'
      have hid : i = id := (Option.some.inj hi').symm
      subst hid
      have := (hi.orc i e'.id).mpr ⟨e', he', rfl, heo⟩
      rw [hresp] at this; cases this
    | some h =>
      simp only
      obtain ⟨e, he, heid, heo⟩ := (hi.orc id h).mp hresp
      have hve : mp.vmap h = some e := (hi.vmap h e).mpr ⟨he, heid⟩
      simp only [hve]
      by_cases hfee : e.netFee ≥ t.netFee
      · simp only [hfee, if_true]
        exact oraclePost_refuse hi t
      · simp only [hfee, if_false]
        rw [← heid]
        exact oraclePost_replace hw hi t id e hor he heo hfee

theorem shiftInsert_spec (base : List Tx) (t : Tx) (n : Nat) (hn : n ≤ base.length) :
    shiftInsert (base ++ [t]) n t = base.take n ++ [t] ++ base.drop n := by
  unfold shiftInsert
  have hlen : (base ++ [t]).length - 1 = base.length := by simp
  rw [hlen]
  by_cases e : n = base.length
  · subst e; simp
  · simp only [ne_eq, e, not_false_eq_true, if_true]
    rw [List.take_append_of_le_length hn, List.drop_append_of_le_length hn, List.dropLast_concat]

theorem sumFees_insert (q : Payer) (base : List Tx) (t : Tx) (n : Nat) :
    sumFees q (base.take n ++ [t] ++ base.drop n) = (if payerOf t = q then t.fee else 0) + sumFees q base := by
  rw [sumFees_append, sumFees_append]
  have : sumFees q base = sumFees q (base.take n) + sumFees q (base.drop n) := by
    rw [← sumFees_append, List.take_append_drop]
  rw [this]; simp only [sumFees]; omega

theorem finish_insert {U : Tx → Prop} (hw : WF U) {mp1 : Pool} {base : List Tx} {t : Tx} (feer : Feer) (d : Nat) (n : Nat)
    (htx : mp1.txs = base ++ [t]) (hnp : mp1.panicked = false) (hcap : base.length + 1 ≤ mp1.capacity)
    (hL : ListOk U base) (ht : U t)
    (hv : VmapOk base mp1.vmap) (hc : ConfOk base mp1.conflicts) (ho : OrcOk base mp1.oracleResp)
    (hf : FeesOk base mp1.fees)
    (hn : n ≤ base.length) (h2 : ∀ e ∈ base.take n, ge e t) (h3 : ∀ e ∈ base.drop n, 0 < compare t e)
    (hfresh : ∀ e ∈ base, e.id ≠ t.id) (hnoc1 : ∀ e ∈ base, t.id ∉ e.conflicts)
    (hnoc2 : ∀ e ∈ base, e.id ∉ t.conflicts) (horc : ∀ i, t.oracle = some i → ∀ e ∈ base, e.oracle ≠ some i)
    (fe : Fee) (hfe : mp1.fees (payerOf t) = some fe) (hle : fe.feeSum + t.fee ≤ fe.balance) :
    Inv U (tryAddSendersFee (register { mp1 with txs := shiftInsert mp1.txs n t } t feer.height d) t feer false).1 ∧
    (tryAddSendersFee (register { mp1 with txs := shiftInsert mp1.txs n t } t feer.height d) t feer false).1.txs
      = base.take n ++ [t] ++ base.drop n ∧
    (tryAddSendersFee (register { mp1 with txs := shiftInsert mp1.txs n t } t feer.height d) t feer false).1.capacity = mp1.capacity ∧
    (tryAddSendersFee (register { mp1 with txs := shiftInsert mp1.txs n t } t feer.height d) t feer false).1.feePerByte = mp1.feePerByte := by
  have hreg : (register { mp1 with txs := shiftInsert mp1.txs n t } t feer.height d).fees (payerOf t) = some fe := hfe
  rw [tryAddSendersFee_nocheck _ t feer fe hreg]
  have hadd : addW fe.feeSum t.fee = fe.feeSum + t.fee := by
    apply addW_eq
    have := hf (payerOf t); rw [hfe] at this; simp only [FeeEntry] at this
    have := two_H256; omega
  simp only [register, htx, shiftInsert_spec base t n hn, hadd]
  have hmem : ∀ x, x ∈ base.take n ++ [t] ++ base.drop n ↔ x = t ∨ x ∈ base := by
    intro x
    have : x ∈ base ↔ x ∈ base.take n ∨ x ∈ base.drop n := by
      rw [← List.mem_append, List.take_append_drop]
    rw [List.mem_append, List.mem_append, List.mem_singleton, this]
    constructor
    · rintro ((h | h) | h)
      · exact Or.inr (Or.inl h)
      · exact Or.inl h
      · exact Or.inr (Or.inr h)
    · rintro (h | h | h)
      · exact Or.inl (Or.inr h)
      · exact Or.inl (Or.inl h)
      · exact Or.inr h
  refine ⟨⟨hnp, ?_, ?_, ?_, ?_, ?_, ?_⟩, trivial, trivial, trivial⟩
  · simp only [List.length_append, List.length_take, List.length_drop, List.length_singleton]
    omega
  · -- ListOk
    have hsplit : base = base.take n ++ base.drop n := (List.take_append_drop _ _).symm
    refine ⟨?_, ?_, ?_, ?_, ?_⟩
    · intro x hx
      rcases (hmem x).mp hx with rfl | hx
      · exact ht
      · exact hL.inU x hx
    · have hp : (base.take n ++ [t] ++ base.drop n).Perm (t :: base) := by
        rw [List.append_assoc, List.singleton_append]
        have := @List.perm_middle _ t (base.take n) (base.drop n)
        rw [List.take_append_drop] at this
        exact this
      rw [(hp.map _).nodup_iff, List.map_cons, List.nodup_cons]
      refine ⟨?_, hL.nodup⟩
      intro hin
      obtain ⟨e, he, hid⟩ := List.mem_map.mp hin
      exact hfresh e he hid
    · have hs := hL.sorted
      unfold Sorted at *
      rw [hsplit, List.pairwise_append] at hs
      obtain ⟨ha, hb, hab⟩ := hs
      rw [List.append_assoc, List.pairwise_append]
      refine ⟨ha, ?_, ?_⟩
      · rw [List.singleton_append, List.pairwise_cons]
        refine ⟨?_, hb⟩
        intro e he
        have := h3 e he
        unfold ge; omega
      · intro a haa b hbb
        rw [List.singleton_append, List.mem_cons] at hbb
        rcases hbb with rfl | hbb
        · exact h2 a haa
        · exact hab a haa b hbb
    · intro a ha b hb
      rcases (hmem a).mp ha with ha' | ha' <;> rcases (hmem b).mp hb with hb' | hb'
      · rw [ha', hb']; exact fun h => hw.acyclic t t ht ht h h
      · rw [ha']; exact hnoc1 b hb'
      · rw [hb']; exact hnoc2 a ha'
      · exact hL.noConf a ha' b hb'
    · intro a ha b hb i hai hbi
      rcases (hmem a).mp ha with ha' | ha' <;> rcases (hmem b).mp hb with hb' | hb'
      · rw [ha', hb']
      · rw [ha'] at hai; exact absurd hbi (horc i hai b hb')
      · rw [hb'] at hbi; exact absurd hai (horc i hbi a ha')
      · exact hL.orcUniq a ha' b hb' i hai hbi
  · exact vmapOk_insert t hv hfresh hmem
  · exact confOk_insert t hc hmem (hw.confNodup t ht) hfresh
  · exact orcOk_insert t ho hmem horc
  · exact feesOk_insert t hf fe hfe hle (fun q => sumFees_insert q base t n)

theorem filter_last_ne (base : List Tx) (u : Tx) (hnd : ((base ++ [u]).map (·.id)).Nodup) :
    (base ++ [u]).filter (fun t => t.id != u.id) = base := by
  rw [List.map_append, List.nodup_append] at hnd
  obtain ⟨_, _, hdis⟩ := hnd
  rw [List.filter_append]
  have h1 : base.filter (fun t => t.id != u.id) = base := by
    apply filter_ne_id_of_not_mem
    intro hin
    exact hdis u.id hin u.id (by simp) rfl
  have h2 : [u].filter (fun t => t.id != u.id) = [] := by simp
  rw [h1, h2, List.append_nil]

/-- what a successful insertion stage guarantees -/
def InsertPost (U : Tx → Prop) (mp : Pool) (t : Tx) (mp' : Pool) : Prop :=
  Inv U mp' ∧ mp'.capacity = mp.capacity ∧ mp'.feePerByte = mp.feePerByte ∧ t ∈ mp'.txs ∧
  (∀ x ∈ mp'.txs, x = t ∨ x ∈ mp.txs) ∧
  (∀ x ∈ mp.txs, x ∉ mp'.txs →
    mp'.txs.length = mp'.capacity ∧ (∀ y ∈ mp.txs, ge y x) ∧ 0 < compare t x) ∧
  -- the new list: the old one (without its last item when the pool was full) with `t` at the computed index
  mp'.txs = (if mp.txs.length = mp.capacity then mp.txs.dropLast else mp.txs).take (insertIdx mp.txs t) ++ [t] ++
    (if mp.txs.length = mp.capacity then mp.txs.dropLast else mp.txs).drop (insertIdx mp.txs t)

theorem inv_setEvents {U : Tx → Prop} {mp : Pool} (h : Inv U mp) (ev : List Event) : Inv U { mp with events := ev } :=
  ⟨h.noPanic, h.cap, h.list, h.vmap, h.conf, h.orc, h.fees⟩

theorem insertPost_setEvents {U : Tx → Prop} {mp mp3 : Pool} {t : Tx} (ev : List Event)
    (h : InsertPost U mp t mp3) : InsertPost U mp t { mp3 with events := ev } := by
  obtain ⟨a, b, c, d, e, f, g⟩ := h
  exact ⟨inv_setEvents a ev, b, c, d, e, f, g⟩

theorem insertStage_spec {U : Tx → Prop} (hw : WF U) {mp : Pool} (hi : Inv U mp) {t : Tx} (ht : U t) (feer : Feer) (d : Nat)
    (hfresh : ∀ e ∈ mp.txs, e.id ≠ t.id) (hnoc1 : ∀ e ∈ mp.txs, t.id ∉ e.conflicts)
    (hnoc2 : ∀ e ∈ mp.txs, e.id ∉ t.conflicts) (horc : ∀ i, t.oracle = some i → ∀ e ∈ mp.txs, e.oracle ≠ some i)
    (fe : Fee) (hfe : mp.fees (payerOf t) = some fe) (hle : t.fee + sumFees (payerOf t) mp.txs ≤ fe.balance) :
    (∀ mp' e, insertStage mp t feer d = (mp', some e) →
      e = .oom ∧ mp' = mp ∧ mp.txs.length = mp.capacity ∧ ∀ x ∈ mp.txs, ge x t) ∧
    (∀ mp', insertStage mp t feer d = (mp', none) → InsertPost U mp t mp') := by
  obtain ⟨hn, h2, h3⟩ := insertIdx_spec mp.txs t hi.list.sorted
  unfold insertStage
  simp only
  generalize hnn : insertIdx mp.txs t = n at *
  by_cases hoom : mp.txs.length = mp.capacity ∧ n = mp.txs.length
  · rw [if_pos hoom]
    constructor
    · intro mp' e h
      obtain ⟨h1, h2'⟩ := Prod.mk.inj h
      refine ⟨(Option.some.inj h2').symm, h1.symm, hoom.1, ?_⟩
      intro x hx
      apply h2 x
      rw [hoom.2, List.take_length]; exact hx
    · intro mp' h; cases (Prod.mk.inj h).2
  · rw [if_neg hoom]
    constructor
    · intro mp' e h; cases (Prod.mk.inj h).2
    · intro mp' h
      have hmp' := (Prod.mk.inj h).1
      subst hmp'
      apply insertPost_setEvents
      unfold InsertPost
      by_cases hfull : mp.txs.length = mp.capacity
      · -- eviction of the last item
        have hnlt : n < mp.txs.length := by
          have : n ≠ mp.txs.length := fun e => hoom ⟨hfull, e⟩
          omega
        have hne : mp.txs ≠ [] := by intro e; rw [e] at hnlt; simp at hnlt
        obtain ⟨u, hu⟩ : ∃ u, mp.txs.getLast? = some u := by
          cases hg : mp.txs.getLast? with
          | none => exact absurd (List.getLast?_eq_none_iff.mp hg) hne
          | some u => exact ⟨u, rfl⟩
        obtain ⟨base, hbase⟩ := List.getLast?_eq_some_iff.mp hu
        have hdl : mp.txs.dropLast = base := by rw [hbase, List.dropLast_concat]
        have hpl : placeLast mp t = removeFromMap { mp with txs := base ++ [t] } u := by
          unfold placeLast; simp only [hfull, if_true, hu, hdl]
        rw [hpl]
        have hum : u ∈ mp.txs := by rw [hbase]; simp
        obtain ⟨a1, a2, a3, a4, a5, a6, a7, a8⟩ :=
          removeFromMap_ok hw hi.list { mp with txs := base ++ [t] } hi.vmap hi.conf hi.orc hi.fees u hum
        have hfl : mp.txs.filter (fun x => x.id != u.id) = base := by
          have := hi.list.nodup; rw [hbase] at this
          rw [hbase]; exact filter_last_ne base u this
        rw [hfl] at a1 a2 a3 a4
        have hsub : base.Sublist mp.txs := by rw [hbase]; exact List.sublist_append_left _ _
        have hnb : n ≤ base.length := by
          have : mp.txs.length = base.length + 1 := by rw [hbase]; simp
          omega
        obtain ⟨fe', hfe', hbal⟩ := balKeep_removeFromMap { mp with txs := base ++ [t] } u (payerOf t) fe hfe
        have hfe'sum : fe'.feeSum = sumFees (payerOf t) base := by
          have := a4 (payerOf t); rw [hfe'] at this; exact this.1
        have hsumle := sumFees_sublist (payerOf t) hsub
        obtain ⟨r1, r2, r3, r4⟩ := finish_insert hw (mp1 := removeFromMap { mp with txs := base ++ [t] } u) (base := base)
          (t := t) feer d (n) a5 (by rw [a7]; exact hi.noPanic)
          (by rw [a6]; have : mp.txs.length = base.length + 1 := by rw [hbase]; simp
              show base.length + 1 ≤ mp.capacity
              omega)
          (hi.list.sublist hsub) ht a1 a2 a3 a4 hnb
          (by intro e he; apply h2 e; rw [hbase, List.take_append_of_le_length hnb]; exact he)
          (by intro e he; apply h3 e; rw [hbase, List.drop_append_of_le_length hnb]
              exact List.mem_append.mpr (Or.inl he))
          (fun e he => hfresh e (hsub.subset he)) (fun e he => hnoc1 e (hsub.subset he))
          (fun e he => hnoc2 e (hsub.subset he)) (fun i hi' e he => horc i hi' e (hsub.subset he))
          fe' hfe' (by omega)
        refine ⟨r1, by rw [r3, a6], by rw [r4, a8], by rw [r2]; simp, ?_, ?_, by rw [r2, if_pos hfull, hdl, hnn]⟩
        · intro x hx
          rw [r2] at hx
          rcases List.mem_append.mp hx with hx | hx
          · rcases List.mem_append.mp hx with hx | hx
            · exact Or.inr (hsub.subset (List.mem_of_mem_take hx))
            · exact Or.inl (List.mem_singleton.mp hx)
          · exact Or.inr (hsub.subset (List.mem_of_mem_drop hx))
        · intro x hx hnx
          rw [r2] at hnx
          have hxu : x = u := by
            rw [hbase] at hx
            rcases List.mem_append.mp hx with hx | hx
            · exfalso; apply hnx
              have : x ∈ base.take (n) ++ base.drop (n) := by
                rw [List.take_append_drop]; exact hx
              rcases List.mem_append.mp this with h' | h'
              · exact List.mem_append.mpr (Or.inl (List.mem_append.mpr (Or.inl h')))
              · exact List.mem_append.mpr (Or.inr h')
            · exact List.mem_singleton.mp hx
          subst hxu
          refine ⟨?_, ?_, ?_⟩
          · rw [r2, r3, a6]
            have : mp.txs.length = base.length + 1 := by rw [hbase]; simp
            show (base.take n ++ [t] ++ base.drop n).length = mp.capacity
            simp only [List.length_append, List.length_take, List.length_drop, List.length_singleton]
            omega
          · intro y hy
            have hs := hi.list.sorted
            unfold Sorted at hs
            rw [hbase, List.pairwise_append] at hs
            rw [hbase] at hy
            rcases List.mem_append.mp hy with hy | hy
            · exact hs.2.2 y hy x (by simp)
            · rw [List.mem_singleton.mp hy]; exact ge_refl _
          · apply h3 x
            rw [hbase, List.drop_append_of_le_length hnb]
            exact List.mem_append.mpr (Or.inr (by simp))
      · -- room left: append
        have hpl : placeLast mp t = { mp with txs := mp.txs ++ [t] } := by
          unfold placeLast; simp only [hfull, if_false]
        rw [hpl]
        have hfesum : fe.feeSum = sumFees (payerOf t) mp.txs := by
          have := hi.fees (payerOf t); rw [hfe] at this; exact this.1
        obtain ⟨r1, r2, r3, r4⟩ := finish_insert hw (mp1 := { mp with txs := mp.txs ++ [t] }) (base := mp.txs)
          (t := t) feer d (n) rfl hi.noPanic
          (by have := hi.cap
              show mp.txs.length + 1 ≤ mp.capacity
              omega)
          hi.list ht hi.vmap hi.conf hi.orc hi.fees hn h2 h3 hfresh hnoc1 hnoc2 horc fe hfe (by omega)
        refine ⟨r1, r3, r4, by rw [r2]; simp, ?_, ?_, by rw [r2, if_neg hfull, hnn]⟩
        · intro x hx
          rw [r2] at hx
          rcases List.mem_append.mp hx with hx | hx
          · rcases List.mem_append.mp hx with hx | hx
            · exact Or.inr (List.mem_of_mem_take hx)
            · exact Or.inl (List.mem_singleton.mp hx)
          · exact Or.inr (List.mem_of_mem_drop hx)
        · intro x hx hnx
          exfalso; apply hnx
          rw [r2]
          have : x ∈ mp.txs.take (n) ++ mp.txs.drop (n) := by
            rw [List.take_append_drop]; exact hx
          rcases List.mem_append.mp this with h' | h'
          · exact List.mem_append.mpr (Or.inl (List.mem_append.mpr (Or.inl h')))
          · exact List.mem_append.mpr (Or.inr h')

end NeoModel.Mempool
