/-
C15 — the JSON decoder of conditions and rules (on JSON values): what it accepts is within the limits, and it inverts MarshalJSON.
Core Lean only (helpers of Props/C15Decode.lean).
-/
import NeoModel.Model.Witness.Json
import NeoModel.Proofs.WitnessDecode
namespace NeoModel.Witness

theorem jsMapM_spec (dec : J → Option Cond) : ∀ (items : List J) (cs : List Cond),
    jsMapM dec items = some cs → cs.length = items.length ∧ ∀ c ∈ cs, ∃ x ∈ items, dec x = some c
  | [], cs, h => by simp [jsMapM] at h; subst h; simp
  | x :: xs, cs, h => by
    simp only [jsMapM] at h
    split at h
    · cases h
    · rename_i c hc
      split at h
      · cases h
      · rename_i cs' hcs
        cases h
        have ih := jsMapM_spec dec xs cs' hcs
        refine ⟨by simp [ih.1], ?_⟩
        intro c' hc'
        rcases List.mem_cons.mp hc' with rfl | hm
        · exact ⟨x, by simp, hc⟩
        · obtain ⟨y, hy, hd⟩ := ih.2 c' hm
          exact ⟨y, by simp [hy], hd⟩

theorem condListJ_bounded (dec : J → Option Cond) (d : Nat)
    (hdec : ∀ x c, dec x = some c → c.depth ≤ d ∧ c.widthOk = true) (xs : Option (List J)) (cs : List Cond)
    (h : condListJ dec xs = some cs) :
    depthList cs ≤ d ∧ widthOkList cs = true ∧ cs.length ≠ 0 ∧ cs.length ≤ maxSubitems := by
  unfold condListJ at h
  simp only at h
  split at h
  · cases h
  · rename_i hl0
    split at h
    · cases h
    · rename_i hl
      have hs := jsMapM_spec dec _ cs h
      have hall : ∀ c ∈ cs, c.depth ≤ d ∧ c.widthOk = true := by
        intro c hc
        obtain ⟨x, _, hx⟩ := hs.2 c hc
        exact hdec x c hx
      refine ⟨depthList_le (fun c hc => (hall c hc).1), widthOkList_of (fun c hc => (hall c hc).2), ?_, ?_⟩
      · rw [hs.1]; exact hl0
      · rw [hs.1]; omega

theorem condOfAux_bounded (dec : J → Option Cond) (d : Nat)
    (hdec : ∀ x c, dec x = some c → c.depth ≤ d ∧ c.widthOk = true) (a : Aux) (c : Cond)
    (h : condOfAux dec a = some c) : c.depth ≤ d + 1 ∧ c.widthOk = true := by
  unfold condOfAux at h
  split at h
  · split at h <;> cases h <;> simp [Cond.depth, Cond.widthOk]
  split at h
  · split at h
    · cases h
    · simp only [Option.map_eq_some_iff] at h
      obtain ⟨c', hc', rfl⟩ := h
      have := hdec _ c' hc'
      simp only [Cond.depth, Cond.widthOk]; exact ⟨by omega, this.2⟩
  split at h
  · simp only [Option.map_eq_some_iff] at h
    obtain ⟨cs, hcs, rfl⟩ := h
    have := condListJ_bounded dec d hdec _ cs hcs
    simp [Cond.depth, Cond.widthOk, this.1, this.2.1, this.2.2.1, this.2.2.2]
  split at h
  · simp only [Option.map_eq_some_iff] at h
    obtain ⟨cs, hcs, rfl⟩ := h
    have := condListJ_bounded dec d hdec _ cs hcs
    simp [Cond.depth, Cond.widthOk, this.1, this.2.1, this.2.2.1, this.2.2.2]
  split at h
  · simp only [Option.map_eq_some_iff] at h; obtain ⟨b, _, rfl⟩ := h; simp [Cond.depth, Cond.widthOk]
  split at h
  · simp only [Option.map_eq_some_iff] at h; obtain ⟨b, _, rfl⟩ := h; simp [Cond.depth, Cond.widthOk]
  split at h
  · cases h; simp [Cond.depth, Cond.widthOk]
  split at h
  · simp only [Option.map_eq_some_iff] at h; obtain ⟨b, _, rfl⟩ := h; simp [Cond.depth, Cond.widthOk]
  split at h
  · simp only [Option.map_eq_some_iff] at h; obtain ⟨b, _, rfl⟩ := h; simp [Cond.depth, Cond.widthOk]
  · cases h

/-- Whatever `UnmarshalConditionJSON` accepts — for any JSON value: any kinds, missing, extra, repeated,
differently-cased or null members — is within the nesting bound and every And/Or has 1..16 operands. -/
theorem condFromJ_bounded (dk : Bytes → Option Key) : ∀ (d : Nat) (v : J) (c : Cond),
    condFromJ dk d v = some c → c.depth ≤ d ∧ c.widthOk = true
  | 0, v, c, h => by simp [condFromJ] at h
  | d+1, v, c, h => by
    simp only [condFromJ] at h
    split at h
    · cases h
    · exact condOfAux_bounded _ d (condFromJ_bounded dk d) _ c h

/-! ### round trip -/

theorem hex_val_digit (n : Nat) (h : n < 16) : Hex.val (Hex.digit n) = some n := by
  have : n = 0 ∨ n = 1 ∨ n = 2 ∨ n = 3 ∨ n = 4 ∨ n = 5 ∨ n = 6 ∨ n = 7 ∨ n = 8 ∨ n = 9 ∨ n = 10 ∨ n = 11 ∨
      n = 12 ∨ n = 13 ∨ n = 14 ∨ n = 15 := by omega
  rcases this with rfl | rfl | rfl | rfl | rfl | rfl | rfl | rfl | rfl | rfl | rfl | rfl | rfl | rfl | rfl | rfl <;> decide

theorem decodeChars_hexChars : ∀ bs : Bytes, Hex.decodeChars (hexChars bs) = some bs
  | [] => rfl
  | b :: bs => by
    have h1 := hex_val_digit (b.toNat / 16) (by have := b.toNat_lt; omega)
    have h2 := hex_val_digit (b.toNat % 16) (by omega)
    simp only [hexChars, Hex.decodeChars, h1, h2, decodeChars_hexChars bs, bind, Option.bind, pure]
    congr 2
    have : b.toNat / 16 * 16 + b.toNat % 16 = b.toNat := by omega
    rw [this]; simp

theorem hexChars_length : ∀ bs : Bytes, (hexChars bs).length = 2 * bs.length
  | [] => rfl
  | b :: bs => by simp [hexChars, hexChars_length bs]; omega

theorem parseHashLE_show (h : Hash) (hh : h < 2 ^ 160) : parseHashLE (showHashLE h) = some h := by
  unfold parseHashLE showHashLE
  simp only [trim0x, hexChars_length, List.length_reverse, beBytes_length]
  simp only [ne_eq, not_true_eq_false, if_false, decodeChars_hexChars, Option.map_some, List.reverse_reverse,
    beVal_beBytes]
  congr 1
  exact Nat.mod_eq_of_lt (by simpa using hh)


/-! what json.Unmarshal stores for the objects MarshalJSON produces -/

theorem aux_expression (dk : Bytes → Option Key) (v : J) (n : List Char) :
    unmarshalAux dk (.obj [("expression".toList, v), ("type".toList, .str n)])
      = some { expression := some v, type := n } := by
  have e1 : lowerChars "expression".toList = "expression".toList := by decide
  have e2 : lowerChars "type".toList = "type".toList := by decide
  have n1 : ¬ ("type".toList = "expression".toList) := by decide
  have n2 : ¬ ("type".toList = "expressions".toList) := by decide
  have n3 : ¬ ("type".toList = "group".toList) := by decide
  have n4 : ¬ ("type".toList = "hash".toList) := by decide
  simp only [unmarshalAux, auxFields, auxField, setType, e1, e2, n1, n2, n3, n4, if_true, if_false]

theorem aux_expressions (dk : Bytes → Option Key) (xs : List J) (n : List Char) :
    unmarshalAux dk (.obj [("expressions".toList, .arr xs), ("type".toList, .str n)])
      = some { expressions := some xs, type := n } := by
  have e1 : lowerChars "expressions".toList = "expressions".toList := by decide
  have e2 : lowerChars "type".toList = "type".toList := by decide
  have m1 : ¬ ("expressions".toList = "expression".toList) := by decide
  have n1 : ¬ ("type".toList = "expression".toList) := by decide
  have n2 : ¬ ("type".toList = "expressions".toList) := by decide
  have n3 : ¬ ("type".toList = "group".toList) := by decide
  have n4 : ¬ ("type".toList = "hash".toList) := by decide
  simp only [unmarshalAux, auxFields, auxField, setType, setExpressions, e1, e2, m1, n1, n2, n3, n4, if_true, if_false]

theorem aux_hash (dk : Bytes → Option Key) (s : List Char) (h : Hash) (hs : parseHashLE s = some h) (n : List Char) :
    unmarshalAux dk (.obj [("hash".toList, .str s), ("type".toList, .str n)])
      = some { hash := some h, type := n } := by
  have e1 : lowerChars "hash".toList = "hash".toList := by decide
  have e2 : lowerChars "type".toList = "type".toList := by decide
  have m1 : ¬ ("hash".toList = "expression".toList) := by decide
  have m2 : ¬ ("hash".toList = "expressions".toList) := by decide
  have m3 : ¬ ("hash".toList = "group".toList) := by decide
  have n1 : ¬ ("type".toList = "expression".toList) := by decide
  have n2 : ¬ ("type".toList = "expressions".toList) := by decide
  have n3 : ¬ ("type".toList = "group".toList) := by decide
  have n4 : ¬ ("type".toList = "hash".toList) := by decide
  simp only [unmarshalAux, auxFields, auxField, setType, setHash, e1, e2, m1, m2, m3, n1, n2, n3, n4, if_true, if_false, hs,
    Option.map_some]

theorem aux_group (dk : Bytes → Option Key) (s : List Char) (k : Key) (hs : parseKey dk s = some k) (n : List Char) :
    unmarshalAux dk (.obj [("group".toList, .str s), ("type".toList, .str n)])
      = some { group := some k, type := n } := by
  have e1 : lowerChars "group".toList = "group".toList := by decide
  have e2 : lowerChars "type".toList = "type".toList := by decide
  have m1 : ¬ ("group".toList = "expression".toList) := by decide
  have m2 : ¬ ("group".toList = "expressions".toList) := by decide
  have n1 : ¬ ("type".toList = "expression".toList) := by decide
  have n2 : ¬ ("type".toList = "expressions".toList) := by decide
  have n3 : ¬ ("type".toList = "group".toList) := by decide
  have n4 : ¬ ("type".toList = "hash".toList) := by decide
  simp only [unmarshalAux, auxFields, auxField, setType, setGroup, e1, e2, m1, m2, n1, n2, n3, n4, if_true, if_false, hs,
    Option.map_some]

theorem aux_type (dk : Bytes → Option Key) (n : List Char) :
    unmarshalAux dk (.obj [("type".toList, .str n)]) = some { type := n } := by
  have e2 : lowerChars "type".toList = "type".toList := by decide
  have n1 : ¬ ("type".toList = "expression".toList) := by decide
  have n2 : ¬ ("type".toList = "expressions".toList) := by decide
  have n3 : ¬ ("type".toList = "group".toList) := by decide
  have n4 : ¬ ("type".toList = "hash".toList) := by decide
  simp only [unmarshalAux, auxFields, auxField, setType, e2, n1, n2, n3, n4, if_true, if_false]

theorem condsToJ_length (ek : Key → Bytes) : ∀ cs : List Cond, (condsToJ ek cs).length = cs.length
  | [] => rfl
  | c :: cs => by simp [condsToJ, condsToJ_length ek cs]

theorem jsMapM_condsToJ (dec : J → Option Cond) (ek : Key → Bytes) : ∀ cs : List Cond,
    (∀ c ∈ cs, dec (condToJ ek c) = some c) → jsMapM dec (condsToJ ek cs) = some cs
  | [], _ => rfl
  | c :: cs, h => by
    simp only [condsToJ, jsMapM, h c (by simp), jsMapM_condsToJ dec ek cs (fun x hx => h x (by simp [hx]))]

theorem condListJ_condsToJ (dec : J → Option Cond) (ek : Key → Bytes) (cs : List Cond)
    (hl0 : cs.length ≠ 0) (hl : cs.length ≤ maxSubitems) (h : ∀ c ∈ cs, dec (condToJ ek c) = some c) :
    condListJ dec (some (condsToJ ek cs)) = some cs := by
  unfold condListJ
  simp only [Option.getD_some, condsToJ_length]
  rw [if_neg hl0, if_neg (by omega)]
  exact jsMapM_condsToJ dec ek cs h

theorem parseKey_hex (dk : Bytes → Option Key) (ek : Key → Bytes) (hk : ∀ k, dk (ek k) = some k) (k : Key) :
    parseKey dk (hexChars (ek k)) = some k := by
  simp [parseKey, decodeChars_hexChars, hk k]

/-- Every tree within the permitted nesting and width (20-byte hashes, a key codec that round-trips) is
decoded back from the JSON value `MarshalJSON` produces: `UnmarshalConditionJSON ∘ MarshalJSON = id`. -/
theorem condFromJ_toJ (dk : Bytes → Option Key) (ek : Key → Bytes) (hk : ∀ k, dk (ek k) = some k) :
    ∀ (c : Cond) (d : Nat), c.depth ≤ d → c.widthOk = true → c.hashesOk →
      condFromJ dk d (condToJ ek c) = some c
  | c, 0, hd, _, _ => by have := depth_pos c; omega
  | .boolean b, d+1, _, _, _ => by
      simp only [condToJ, condFromJ, aux_expression, condOfAux, if_true]
  | .not c, d+1, hd, hw, hh => by
      simp only [Cond.depth] at hd
      simp only [Cond.widthOk] at hw
      simp only [Cond.hashesOk] at hh
      have ih := condFromJ_toJ dk ek hk c d (by omega) hw hh
      have n1 : ¬ (nNot = nBoolean) := by decide
      simp only [condToJ, condFromJ, aux_expression, condOfAux, n1, if_false, if_true, ih, Option.map_some]
  | .and cs, d+1, hd, hw, hh => by
      simp only [Cond.depth] at hd
      simp only [Cond.widthOk, Bool.and_eq_true] at hw
      simp only [Cond.hashesOk] at hh
      have hdl := (depthList_le_iff cs d).mp (by omega)
      have hwl := (widthOkList_iff cs).mp hw.2
      have hhl := (hashesOkList_iff cs).mp hh
      have ih : ∀ c ∈ cs, condFromJ dk d (condToJ ek c) = some c :=
        fun c hc => condFromJ_toJ dk ek hk c d (hdl c hc) (hwl c hc) (hhl c hc)
      have := condListJ_condsToJ (condFromJ dk d) ek cs (by simpa using hw.1.1) (by simpa using hw.1.2) ih
      have n1 : ¬ (nAnd = nBoolean) := by decide
      have n2 : ¬ (nAnd = nNot) := by decide
      simp only [condToJ, condFromJ, aux_expressions, condOfAux, n1, n2, if_false, if_true, this, Option.map_some]
  | .or cs, d+1, hd, hw, hh => by
      simp only [Cond.depth] at hd
      simp only [Cond.widthOk, Bool.and_eq_true] at hw
      simp only [Cond.hashesOk] at hh
      have hdl := (depthList_le_iff cs d).mp (by omega)
      have hwl := (widthOkList_iff cs).mp hw.2
      have hhl := (hashesOkList_iff cs).mp hh
      have ih : ∀ c ∈ cs, condFromJ dk d (condToJ ek c) = some c :=
        fun c hc => condFromJ_toJ dk ek hk c d (hdl c hc) (hwl c hc) (hhl c hc)
      have := condListJ_condsToJ (condFromJ dk d) ek cs (by simpa using hw.1.1) (by simpa using hw.1.2) ih
      have n1 : ¬ (nOr = nBoolean) := by decide
      have n2 : ¬ (nOr = nNot) := by decide
      have n3 : ¬ (nOr = nAnd) := by decide
      simp only [condToJ, condFromJ, aux_expressions, condOfAux, n1, n2, n3, if_false, if_true, this, Option.map_some]
  | .scriptHash h, d+1, _, _, hh => by
      simp only [Cond.hashesOk] at hh
      have n1 : ¬ (nScriptHash = nBoolean) := by decide
      have n2 : ¬ (nScriptHash = nNot) := by decide
      have n3 : ¬ (nScriptHash = nAnd) := by decide
      have n4 : ¬ (nScriptHash = nOr) := by decide
      simp only [condToJ, condFromJ, aux_hash dk _ h (parseHashLE_show h hh), condOfAux, n1, n2, n3, n4, if_false,
        if_true, Option.map_some]
  | .group k, d+1, _, _, _ => by
      have n1 : ¬ (nGroup = nBoolean) := by decide
      have n2 : ¬ (nGroup = nNot) := by decide
      have n3 : ¬ (nGroup = nAnd) := by decide
      have n4 : ¬ (nGroup = nOr) := by decide
      have n5 : ¬ (nGroup = nScriptHash) := by decide
      simp only [condToJ, condFromJ, aux_group dk _ k (parseKey_hex dk ek hk k), condOfAux, n1, n2, n3, n4, n5,
        if_false, if_true, Option.map_some]
  | .calledByEntry, d+1, _, _, _ => by
      have n1 : ¬ (nCalledByEntry = nBoolean) := by decide
      have n2 : ¬ (nCalledByEntry = nNot) := by decide
      have n3 : ¬ (nCalledByEntry = nAnd) := by decide
      have n4 : ¬ (nCalledByEntry = nOr) := by decide
      have n5 : ¬ (nCalledByEntry = nScriptHash) := by decide
      have n6 : ¬ (nCalledByEntry = nGroup) := by decide
      simp only [condToJ, condFromJ, aux_type, condOfAux, n1, n2, n3, n4, n5, n6, if_false, if_true]
  | .calledByContract h, d+1, _, _, hh => by
      simp only [Cond.hashesOk] at hh
      have n1 : ¬ (nCalledByContract = nBoolean) := by decide
      have n2 : ¬ (nCalledByContract = nNot) := by decide
      have n3 : ¬ (nCalledByContract = nAnd) := by decide
      have n4 : ¬ (nCalledByContract = nOr) := by decide
      have n5 : ¬ (nCalledByContract = nScriptHash) := by decide
      have n6 : ¬ (nCalledByContract = nGroup) := by decide
      have n7 : ¬ (nCalledByContract = nCalledByEntry) := by decide
      simp only [condToJ, condFromJ, aux_hash dk _ h (parseHashLE_show h hh), condOfAux, n1, n2, n3, n4, n5, n6, n7,
        if_false, if_true, Option.map_some]
  | .calledByGroup k, d+1, _, _, _ => by
      have n1 : ¬ (nCalledByGroup = nBoolean) := by decide
      have n2 : ¬ (nCalledByGroup = nNot) := by decide
      have n3 : ¬ (nCalledByGroup = nAnd) := by decide
      have n4 : ¬ (nCalledByGroup = nOr) := by decide
      have n5 : ¬ (nCalledByGroup = nScriptHash) := by decide
      have n6 : ¬ (nCalledByGroup = nGroup) := by decide
      have n7 : ¬ (nCalledByGroup = nCalledByEntry) := by decide
      have n8 : ¬ (nCalledByGroup = nCalledByContract) := by decide
      simp only [condToJ, condFromJ, aux_group dk _ k (parseKey_hex dk ek hk k), condOfAux, n1, n2, n3, n4, n5, n6,
        n7, n8, if_false, if_true, Option.map_some]


/-- `WitnessRule.UnmarshalJSON` accepts only Deny / Allow rules whose condition is within the limits. -/
theorem ruleFromJ_wellformed (dk : Bytes → Option Key) (v : J) (r : Rule) (h : ruleFromJ dk v = some r) :
    r.wellFormed := by
  unfold ruleFromJ at h
  simp only at h
  split at h
  · cases h
  · rename_i act cond _
    split at h
    · cases h
    · split at h
      · cases h
      · rename_i c
        simp only [Option.map_eq_some_iff] at h
        obtain ⟨cc, hc, rfl⟩ := h
        have hb := condFromJ_bounded dk _ _ _ hc
        refine ⟨?_, hb.1, hb.2⟩
        by_cases ha : act.getD [] = nAllow
        · right; simp [ha]
        · left; simp [ha]

theorem ruleAux_obj (a : List Char) (c : J) :
    ruleAuxFields (none, none) [("action".toList, .str a), ("condition".toList, c)] = some (some a, some c) := by
  have e1 : lowerChars "action".toList = "action".toList := by decide
  have e2 : lowerChars "condition".toList = "condition".toList := by decide
  have n1 : ¬ ("condition".toList = "action".toList) := by decide
  simp only [ruleAuxFields, e1, e2, n1, if_true, if_false]

/-- ... and every such rule is decoded back from the JSON value `MarshalJSON` produces. -/
theorem ruleFromJ_toJ (dk : Bytes → Option Key) (ek : Key → Bytes) (hk : ∀ k, dk (ek k) = some k)
    (r : Rule) (hw : r.wellFormed) (hh : r.cond.hashesOk) : ruleFromJ dk (ruleToJ ek r) = some r := by
  obtain ⟨ha, hd, hwd⟩ := hw
  have hc := condFromJ_toJ dk ek hk r.cond maxConditionNesting hd hwd hh
  have nda : ¬ (nDeny = nAllow) := by decide
  rcases ha with h0 | h1
  · have hne : ¬ (r.action = actAllow) := by rw [h0]; decide
    simp only [ruleFromJ, ruleToJ, ruleAux_obj, hne, if_false, Option.getD_some, ne_eq, not_true_eq_false, false_and,
      hc, Option.map_some, nda]
    cases r; simp_all
  · simp only [ruleFromJ, ruleToJ, ruleAux_obj, h1, if_true, Option.getD_some, ne_eq, not_true_eq_false, and_false,
      if_false, hc, Option.map_some]
    cases r; simp_all

end NeoModel.Witness
