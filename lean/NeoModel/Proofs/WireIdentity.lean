/-
C17 — identity depends only on content: for every hashed type the hash is `H` of the encoding of the hashed fields,
that encoding is the wire encoding minus the witnesses, and (H collision-free) equal hashes mean equal hashed fields.
The arrival-path exception of transactions, stated exactly (iff canonical).
-/
import NeoModel.Proofs.WireTight
import NeoModel.Proofs.WireP2P
import NeoModel.Model.Wire.Identity
namespace NeoModel.Wire
open Codec
open NeoModel.Generated


/-- identity is a function of the hashed content, and only of it: for a lawful codec of the hashed part and a
collision-free `H`, two well-formed values have the same hash iff they have the same hashed fields. -/
theorem identity_iff {β : Type} {hc : Codec β} (hl : hc.Lawful) (H : Bytes → Bytes) (hinj : ∀ x y, H x = H y → x = y)
    (x y : β) (hx : hc.wf x) (hy : hc.wf y) : H (hc.enc x) = H (hc.enc y) ↔ x = y :=
  ⟨fun h => hl.enc_inj hx hy (hinj _ _ h), fun h => by rw [h]⟩

theorem stateRootHashableC_lawful : stateRootHashableC.Lawful :=
  seq_lawful byte_lawful (seq_lawful (uintLE_lawful 4) (fixed_lawful 32))

theorem extensibleHashableC_lawful : extensibleHashableC.Lawful :=
  seq_lawful (varBytes_lawful _) (seq_lawful (uintLE_lawful 4) (seq_lawful (uintLE_lawful 4) (seq_lawful (fixed_lawful 20)
    (varBytes_lawful _))))

/-- the wire encoding of a transaction is its hashed part followed by its witnesses, and nothing else. -/
theorem tx_enc_split (cv : Curve) (t : Tx) :
    (txC cv).enc t = (txBodyC cv).enc t.body ++ (txWitnessesC t.body.signers.length).enc t.witnesses := rfl

theorem header_enc_split (sr : Bool) (h : Header) :
    (headerC sr).enc h = (headerHashableC sr).enc (headerHashed h) ++ ([1] ++ witnessC.enc h.witness) := rfl

theorem stateRoot_enc_split (s : StateRoot) :
    stateRootC.enc s = stateRootHashableC.enc (s.version, s.index, s.root)
      ++ (array 1 WireLimits.slotWitness witnessC).enc s.witnesses := by
  simp [stateRootC, stateRootHashableC, map, seq, Codec.bind]

theorem extensible_enc_split (e : Extensible) :
    extensibleC.enc e = extensibleHashableC.enc (e.category, e.validStart, e.validEnd, e.sender, e.data)
      ++ ([1] ++ witnessC.enc e.witness) := by
  simp [extensibleC, extensibleHashableC, map, seq, Codec.bind, refine, byte]

theorem notary_enc_split (H : Bytes → Bytes) (cv : Curve) (r : NotaryRequest) :
    (notaryRequestC H cv).enc r = (notaryHashableC cv).enc (r.main, r.fallback) ++ witnessC.enc r.witness := rfl

theorem tx_identity (H : Bytes → Bytes) (hinj : ∀ x y, H x = H y → x = y) (cv : Curve) (hs : cv.Sound) (t₁ t₂ : Tx)
    (h₁ : (txC cv).wf t₁) (h₂ : (txC cv).wf t₂) : txHash H cv t₁ = txHash H cv t₂ ↔ t₁.body = t₂.body :=
  identity_iff (txBodyC_lawful cv hs) H hinj _ _ h₁.1.1 h₂.1.1

theorem header_identity (H : Bytes → Bytes) (hinj : ∀ x y, H x = H y → x = y) (sr : Bool) (a b : Header)
    (ha : (headerC sr).wf a) (hb : (headerC sr).wf b) :
    headerHash H sr a = headerHash H sr b ↔ headerHashed a = headerHashed b :=
  identity_iff (headerHashableC_lawful sr) H hinj _ _ ha.1.1 hb.1.1

theorem block_identity (H : Bytes → Bytes) (hinj : ∀ x y, H x = H y → x = y) (cv : Curve) (sr : Bool) (a b : Block)
    (ha : (blockC cv sr).wf a) (hb : (blockC cv sr).wf b) :
    blockHash H sr a = blockHash H sr b ↔ headerHashed a.header = headerHashed b.header :=
  header_identity H hinj sr _ _ ha.1.1 hb.1.1

theorem stateRoot_identity (H : Bytes → Bytes) (hinj : ∀ x y, H x = H y → x = y) (a b : StateRoot)
    (ha : stateRootC.wf a) (hb : stateRootC.wf b) :
    stateRootHash H a = stateRootHash H b ↔ (a.version, a.index, a.root) = (b.version, b.index, b.root) :=
  identity_iff stateRootHashableC_lawful H hinj _ _ ⟨ha.1.1, ha.1.2.1, ha.1.2.2.1⟩ ⟨hb.1.1, hb.1.2.1, hb.1.2.2.1⟩

theorem extensible_identity (H : Bytes → Bytes) (hinj : ∀ x y, H x = H y → x = y) (a b : Extensible)
    (ha : extensibleC.wf a) (hb : extensibleC.wf b) :
    extensibleHash H a = extensibleHash H b
      ↔ (a.category, a.validStart, a.validEnd, a.sender, a.data) = (b.category, b.validStart, b.validEnd, b.sender, b.data) :=
  identity_iff extensibleHashableC_lawful H hinj _ _
    ⟨ha.1.1, ha.1.2.1, ha.1.2.2.1, ha.1.2.2.2.1, ha.1.2.2.2.2.1⟩ ⟨hb.1.1, hb.1.2.1, hb.1.2.2.1, hb.1.2.2.2.1, hb.1.2.2.2.2.1⟩

theorem notary_identity (H H' : Bytes → Bytes) (hinj : ∀ x y, H x = H y → x = y) (cv : Curve) (hs : cv.Sound)
    (a b : NotaryRequest) (ha : (notaryRequestC H' cv).wf a) (hb : (notaryRequestC H' cv).wf b) :
    notaryHash H cv a = notaryHash H cv b ↔ (a.main, a.fallback) = (b.main, b.fallback) :=
  identity_iff (seq_lawful (txC_lawful cv hs) (txC_lawful cv hs)) H hinj _ _ ha.1.1.1 hb.1.1.1

/-! ### the arrival-path exception, exactly -/

theorem txC_dec_parts (cv : Curve) (b : Bytes) (t : Tx) (r : Bytes) (h : (txC cv).dec b = some (t, r)) :
    ∃ r₁, (txBodyC cv).dec b = some (t.body, r₁) ∧ (txWitnessesC t.body.signers.length).dec r₁ = some (t.witnesses, r) := by
  simp only [txC, map, Option.map_eq_some_iff] at h
  obtain ⟨⟨⟨body, ws⟩, r'⟩, hd, he⟩ := h
  simp at he
  obtain ⟨rfl, rfl⟩ := he
  simp only [Codec.bind] at hd
  split at hd
  · simp at hd
  · rename_i a r1 h1
    split at hd
    · simp at hd
    · rename_i x r2 h2
      simp at hd
      obtain ⟨⟨rfl, rfl⟩, rfl⟩ := hd
      exact ⟨r1, h1, h2⟩

/-- C17 (transaction) the arrival-path exception, exactly: for bytes `b` both paths accept, the identity AND size
reported by `NewTransactionFromBytes` equal those reported by `DecodeBinary` if and only if `b` is the canonical
encoding of the transaction. -/
theorem tx_paths_agree_iff_canonical (H : Bytes → Bytes) (hinj : ∀ x y, H x = H y → x = y) (cv : Curve) (hs : cv.Sound)
    (b : Bytes) (t : Tx) (h₁ h₂ : Bytes) (n₁ n₂ : Nat)
    (hb : txFromBytes H cv b = some (t, h₁, n₁)) (hst : txFromStream H cv b = some (t, h₂, n₂, [])) :
    (h₁ = h₂ ∧ n₁ = n₂) ↔ b = (txC cv).enc t := by
  have hdec : (txC cv).dec b = some (t, []) := by
    unfold txFromStream at hst
    split at hst
    · rename_i t' r' hd; simp at hst; obtain ⟨rfl, _, _, rfl⟩ := hst; exact hd
    · simp at hst
  obtain ⟨r₁, hbody, hwit⟩ := txC_dec_parts cv b t [] hdec
  have hwf := (txC_lawful cv hs).dec_wf _ _ _ hdec
  have hsz := (txC_lawful cv hs).size_eq t hwf
  have e2 : h₂ = H ((txBodyC cv).enc t.body) ∧ n₂ = ((txC cv).enc t).length := by
    simp only [txFromStream, hdec] at hst; simp at hst; rw [← hsz]; exact ⟨hst.1.symm, hst.2.symm⟩
  have e1 : h₁ = H (b.take (b.length - r₁.length)) ∧ n₁ = b.length := by
    simp only [txFromBytes, hdec, hbody] at hb; simp at hb; exact ⟨hb.1.symm, hb.2.symm⟩
  obtain ⟨p, hp⟩ := (txBodyC_lawful cv hs).dec_suffix _ _ _ hbody
  have htake : b.take (b.length - r₁.length) = p := by subst hp; simp
  rw [e1.1, e1.2, e2.1, e2.2, htake]
  constructor
  · rintro ⟨hh, hn⟩
    have hpe : p = (txBodyC cv).enc t.body := hinj _ _ hh
    rw [tx_enc_split] at hn ⊢
    subst hp
    simp only [List.length_append] at hn
    have ht := (txWitnessesC_tight t.body.signers.length) _ _ _ hwit
    have := ht.2 (by simp; rw [hpe] at hn; omega)
    rw [hpe, this]; simp
  · intro he
    have hr := (txBodyC_lawful cv hs).roundtrip t.body ((txWitnessesC t.body.signers.length).enc t.witnesses) hwf.1.1
    rw [← tx_enc_split, ← he, hbody] at hr
    simp at hr
    subst hp
    rw [tx_enc_split] at he
    have : p = (txBodyC cv).enc t.body := by
      rw [hr] at he; exact List.append_cancel_right he
    rw [this]
    refine ⟨rfl, ?_⟩
    rw [hr]; rfl

/-- … and for the identity alone: the two hashes agree iff the HASHED part of `b` (everything before the witnesses)
is the canonical encoding of the hashed fields. -/
theorem tx_hash_agrees_iff_canonical_prefix (H : Bytes → Bytes) (hinj : ∀ x y, H x = H y → x = y) (cv : Curve)
    (hs : cv.Sound) (b : Bytes) (t : Tx) (h₁ h₂ : Bytes) (n₁ n₂ : Nat)
    (hb : txFromBytes H cv b = some (t, h₁, n₁)) (hst : txFromStream H cv b = some (t, h₂, n₂, [])) :
    ∃ r, (txBodyC cv).dec b = some (t.body, r) ∧ (h₁ = h₂ ↔ b = (txBodyC cv).enc t.body ++ r) := by
  have hdec : (txC cv).dec b = some (t, []) := by
    unfold txFromStream at hst
    split at hst
    · rename_i t' r' hd; simp at hst; obtain ⟨rfl, _, _, rfl⟩ := hst; exact hd
    · simp at hst
  obtain ⟨r₁, hbody, hwit⟩ := txC_dec_parts cv b t [] hdec
  refine ⟨r₁, hbody, ?_⟩
  have e2 : h₂ = H ((txBodyC cv).enc t.body) := by
    simp only [txFromStream, hdec] at hst; simp at hst; exact hst.1.symm
  have e1 : h₁ = H (b.take (b.length - r₁.length)) := by
    simp only [txFromBytes, hdec, hbody] at hb; simp at hb; exact hb.1.symm
  obtain ⟨p, hp⟩ := (txBodyC_lawful cv hs).dec_suffix _ _ _ hbody
  have htake : b.take (b.length - r₁.length) = p := by subst hp; simp
  rw [e1, e2, htake]
  subst hp
  constructor
  · intro hh; rw [hinj _ _ hh]
  · intro he; rw [List.append_cancel_right he]

end NeoModel.Wire
