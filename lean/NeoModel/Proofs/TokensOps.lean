/-
Preservation of the invariant by the remaining operations: mints with callback, candidate registration,
vote, Notary deposit handling, fee burning and rewards.
-/
import NeoModel.Proofs.TokensStep
namespace NeoModel.Tokens

/-! ### mints with payment callback -/

theorem InvG.mintGasCb {nt : Nat} {dn dg k : Int} {e : Env} {l l' : Ledger} {h : Nat} {amt : Int}
    (hi : InvG nt dn dg k l) (hnt : e.notary = nt) (hr : mintGasCb e l h amt = some l') : InvG nt dn dg k l' := by
  unfold Tokens.mintGasCb at hr
  split at hr
  · simp at hr
  · rename_i hc
    have := hi.mintGas hr
    by_cases h0 : amt = 0
    · subst h0; simpa using this
    · have hne : h ≠ nt := by
        intro hh; apply hc; exact ⟨h0, Or.inl (by rw [hnt]; exact hh)⟩
      simpa [hne] using this

theorem InvG.mintDists {nt : Nat} {dn dg k : Int} {e : Env} {l l' : Ledger} {d1 d2 : Option (Nat × Int)}
    (hi : InvG nt dn dg k l) (hnt : e.notary = nt) (hr : mintDists e l d1 d2 = some l') : InvG nt dn dg k l' := by
  cases d1 with
  | none =>
    cases d2 with
    | none => simp [Tokens.mintDists] at hr; subst hr; exact hi
    | some p => obtain ⟨h, g⟩ := p; simp [Tokens.mintDists] at hr; exact hi.mintGasCb hnt hr
  | some p1 =>
    obtain ⟨h1, g1⟩ := p1
    cases hm : Tokens.mintGasCb e l h1 g1 with
    | none => simp [Tokens.mintDists, hm] at hr
    | some l1 =>
      have hi1 := hi.mintGasCb hnt hm
      cases d2 with
      | none => simp [Tokens.mintDists, hm] at hr; subst hr; exact hi1
      | some p => obtain ⟨h, g⟩ := p; simp [Tokens.mintDists, hm] at hr; exact hi1.mintGasCb hnt hr

/-! ### candidates -/

theorem VotesOK.register {neo : AL NeoAcc} {cands : AL Cand} {voters : Int} (hv : VotesOK neo cands voters)
    (pub : Nat) (cd : Cand)
    (hc : (get cands pub = none ∧ cd.votes = 0) ∨ (∃ c, get cands pub = some c ∧ cd.votes = c.votes))
    (hz : cd.reg = true ∨ cd.votes ≠ 0) :
    VotesOK neo (put cands pub cd) voters := by
  refine ⟨hv.neoNodup, nodup_put _ _ _ hv.candNodup, hv.neoPos, ?_, hv.voters, ?_⟩
  · intro c
    rw [at0_votes_put, ← hv.votes c]
    by_cases h : c = pub
    · subst h
      rcases hc with ⟨h1, h2⟩ | ⟨c0, h1, h2⟩
      · simp [at0, h1, h2]
      · simp [at0, h1, h2]
    · simp [h]
  · intro p hp
    rcases mem_put _ _ _ _ hp with h | h
    · exact hv.nozombie p h
    · subst h; exact hz

theorem InvG.registerInternal {nt : Nat} {dn dg k : Int} {l : Ledger} (hi : InvG nt dn dg k l) (pub : Nat) :
    InvG nt dn dg k (registerInternal l pub) := by
  unfold Tokens.registerInternal
  cases hg : get l.cands pub with
  | none =>
    simp only []
    exact ⟨hi.votes.register pub ⟨true, 0⟩ (Or.inl ⟨hg, rfl⟩) (Or.inl rfl), hi.neoSupply, hi.neoSum, hi.gas, hi.notary⟩
  | some c =>
    simp only []
    have hv := hi.votes.register pub { c with reg := true } (Or.inr ⟨c, hg, rfl⟩) (Or.inl rfl)
    split
    · exact ⟨hv, hi.neoSupply, hi.neoSum, hi.gas, hi.notary⟩
    · exact ⟨hv, hi.neoSupply, hi.neoSum, hi.gas, hi.notary⟩

theorem InvG.unregister {nt : Nat} {dn dg k : Int} {l : Ledger} (hi : InvG nt dn dg k l) (pub : Nat) (wit : Bool) :
    InvG nt dn dg k (unregister l pub wit).1 := by
  unfold Tokens.unregister
  split
  · exact hi
  · cases hg : get l.cands pub with
    | none => exact hi
    | some c =>
      simp only []
      cases hd : dropIfZero { l with votesChanged := true } pub { c with reg := false } with
      | none =>
        simp only []
        unfold dropIfZero at hd
        split at hd
        · rename_i hk
          simp at hk
          exact ⟨hi.votes.register pub { c with reg := false } (Or.inr ⟨c, hg, rfl⟩) (Or.inr hk), hi.neoSupply, hi.neoSum, hi.gas, hi.notary⟩
        · simp at hd
      | some l' =>
        simp only []
        unfold dropIfZero at hd
        split at hd
        · simp at hd
        · rename_i hk
          simp at hk
          injection hd with hd; subst hd
          refine ⟨?_, hi.neoSupply, hi.neoSum, hi.gas, hi.notary⟩
          show VotesOK l.neo (del l.cands pub) l.voters
          refine ⟨hi.votes.neoNodup, nodup_del _ _ hi.votes.candNodup, hi.votes.neoPos, ?_, hi.votes.voters, ?_⟩
          · intro c'
            rw [← hi.votes.votes c']
            unfold at0
            by_cases h : c' = pub
            · subst h; rw [get_del_eq _ _ hi.votes.candNodup, hg]; simp; omega
            · rw [get_del_ne _ _ _ h]
          · intro p hp
            exact hi.votes.nozombie p (mem_del _ _ _ hp)

/-! ### Notary deposits -/

theorem amount_put (deps : AL Dep) (a : Nat) (d : Dep) :
    sumBy (·.amount) (put deps a d) = sumBy (·.amount) deps - at0 (·.amount) deps a + d.amount := sumBy_put _ _ _ _

theorem NotaryOK.put {nt : Nat} {gas : AL Int} {deps : AL Dep} {k : Int} (hn : NotaryOK nt gas deps k) (a : Nat) (d : Dep)
    (hd : 0 ≤ d.amount) : NotaryOK nt gas (put deps a d) (k - (d.amount - at0 (·.amount) deps a)) := by
  refine ⟨nodup_put _ _ _ hn.nodup, ?_, ?_⟩
  · intro p hp
    rcases mem_put _ _ _ _ hp with h | h
    · exact hn.nonneg p h
    · subst h; exact hd
  · rw [amount_put, hn.eq]; omega

theorem NotaryOK.del {nt : Nat} {gas : AL Int} {deps : AL Dep} {k : Int} (hn : NotaryOK nt gas deps k) (a : Nat) :
    NotaryOK nt gas (del deps a) (k + at0 (·.amount) deps a) := by
  refine ⟨nodup_del _ _ hn.nodup, fun p hp => hn.nonneg p (mem_del _ _ _ hp), ?_⟩
  rw [sumBy_del, hn.eq]; omega

theorem InvG.notaryOnPayment {nt : Nat} {dn dg k : Int} {e : Env} {l l' : Ledger} {src : Nat} {amt : Int}
    {dto : Option Nat} {till : Nat} (hi : InvG nt dn dg k l) (ha : 0 ≤ amt)
    (h : notaryOnPayment e l src amt dto till = some l') : InvG nt dn dg (k - amt) l' := by
  unfold Tokens.notaryOnPayment at h
  simp only [] at h
  cases hg : get l.deps (dto.getD src) with
  | none =>
    simp only [hg] at h
    split at h
    · simp at h
    · split at h
      · simp at h
      · split at h
        · simp at h
        · injection h with h; subst h
          have := hi.notary.put (dto.getD src) ⟨amt, if e.sender = dto.getD src then till else e.index - 1 + 5760⟩ ha
          simp [at0, hg] at this
          exact ⟨hi.votes, hi.neoSupply, hi.neoSum, hi.gas, this⟩
  | some d =>
    simp only [hg] at h
    split at h
    · simp at h
    · split at h
      · simp at h
      · injection h with h; subst h
        have hd := hi.notary.nonneg _ (get_mem _ _ _ hg)
        have := hi.notary.put (dto.getD src) ⟨d.amount + amt, if e.sender = dto.getD src then till else d.till⟩ (by simp at hd ⊢; omega)
        simp [at0, hg] at this
        have e1 : k - (d.amount + amt - d.amount) = k - amt := by omega
        rw [e1] at this
        exact ⟨hi.votes, hi.neoSupply, hi.neoSum, hi.gas, this⟩

theorem InvG.lockDeposit {nt : Nat} {dn dg k : Int} {e : Env} {l : Ledger} (hi : InvG nt dn dg k l) (a till : Nat) (wit : Bool) :
    InvG nt dn dg k (lockDeposit e l a till wit).1 := by
  unfold Tokens.lockDeposit
  split
  · exact hi
  · split
    · exact hi
    · cases hg : get l.deps a with
      | none => exact hi
      | some d =>
        simp only []
        split
        · exact hi
        · have hd := hi.notary.nonneg _ (get_mem _ _ _ hg)
          have := hi.notary.put a { d with till := till } hd
          simp [at0, hg] at this
          exact ⟨hi.votes, hi.neoSupply, hi.neoSum, hi.gas, this⟩

theorem InvG.withdrawPre {nt : Nat} {dn dg k : Int} {e : Env} {l l' : Ledger} {src : Nat} {wit : Bool} {amt : Int}
    (hi : InvG nt dn dg k l) (h : withdrawPre e l src wit = some (l', amt)) : InvG nt dn dg (k + amt) l' ∧ 0 ≤ amt := by
  unfold Tokens.withdrawPre at h
  split at h
  · simp at h
  · cases hg : get l.deps src with
    | none => simp [hg] at h
    | some d =>
      simp only [hg] at h
      split at h
      · simp at h
      · injection h with h; injection h with h1 h2; subst h1; subst h2
        have hd := hi.notary.nonneg _ (get_mem _ _ _ hg)
        have := hi.notary.del src
        simp [at0, hg] at this
        exact ⟨⟨hi.votes, hi.neoSupply, hi.neoSum, hi.gas, this⟩, hd⟩

end NeoModel.Tokens
