/-
C17 — cached size/hash fields of the Transaction and Extensible objects (Model/Wire/Obj.lean): when the caches
agree with the encoding (`Coherent`) and that every method keeps them so (the two stale-cache defects found by this
check are fixed in /repo: 67279e2, 264f88d; the old rules are kept as `decodeOld` for the regression examples).
-/
import NeoModel.Model.Wire.Obj
import NeoModel.Proofs.WireIdentity
namespace NeoModel.Wire
open Codec

/-- the caches say nothing wrong: an unset cache, or the value the current content encodes to. -/
def TxObj.Coherent (H : Bytes → Bytes) (cv : Curve) (o : TxObj) : Prop :=
  (o.size = 0 ∨ o.size = ((txC cv).enc o.v).length) ∧ (o.hashed = false ∨ o.hash = txHash H cv o.v)

theorem TxObj.new_coherent (H : Bytes → Bytes) (cv : Curve) : TxObj.new.Coherent H cv := ⟨Or.inl rfl, Or.inl rfl⟩

theorem TxObj.copy_coherent (H : Bytes → Bytes) (cv : Curve) (o : TxObj) : o.copy.Coherent H cv :=
  ⟨Or.inl rfl, Or.inl rfl⟩

/-- an edit of a freshly made copy keeps the caches unset, whatever the edit. -/
theorem TxObj.copy_edit_coherent (H : Bytes → Bytes) (cv : Curve) (o : TxObj) (f : Tx → Tx) :
    (o.copy.edit f).Coherent H cv := ⟨Or.inl rfl, Or.inl rfl⟩

/-- on a coherent object `Size()` and `Hash()` report the length of the encoding and the hash of the hashed fields,
and leave the object coherent. -/
theorem TxObj.coherent_queries (H : Bytes → Bytes) (cv : Curve) (o : TxObj) (h : o.Coherent H cv) :
    (o.sizeOf cv).2 = ((txC cv).enc o.v).length ∧ (o.sizeOf cv).1.Coherent H cv
      ∧ (o.hashOf H cv).2 = txHash H cv o.v ∧ (o.hashOf H cv).1.Coherent H cv := by
  obtain ⟨h1, h2⟩ := h
  refine ⟨?_, ?_, ?_, ?_⟩
  · unfold TxObj.sizeOf
    split
    · rfl
    · rename_i hz; rcases h1 with h1 | h1
      · exact absurd h1 hz
      · exact h1
  · unfold TxObj.sizeOf
    split
    · exact ⟨Or.inr rfl, h2⟩
    · exact ⟨h1, h2⟩
  · unfold TxObj.hashOf
    split
    · rename_i hh; rcases h2 with h2 | h2
      · rw [hh] at h2; simp at h2
      · exact h2
    · rfl
  · unfold TxObj.hashOf
    split
    · exact ⟨h1, h2⟩
    · exact ⟨h1, Or.inr rfl⟩

/-- decoding into ANY object — fresh, copied or used — gives a coherent object with both caches filled: size = length
of the encoding, hash = hash of the hashed fields. -/
theorem TxObj.decode_fills (H : Bytes → Bytes) (cv : Curve) (o o' : TxObj) (b : Bytes)
    (hd : o.decode H cv b = some o') :
    o'.size = ((txC cv).enc o'.v).length ∧ o'.hashed = true ∧ o'.hash = txHash H cv o'.v ∧ o'.Coherent H cv := by
  unfold TxObj.decode at hd
  split at hd
  · simp at hd
  · simp at hd; subst hd
    simp [TxObj.Coherent]

/-- an Extensible decoded into — used or not — answers `Hash()` with the hash of its new content. -/
theorem ExtObj.decode_hash (H : Bytes → Bytes) (o o' : ExtObj) (b : Bytes) (hd : o.decode b = some o') :
    (o'.hashOf H).2 = extensibleHash H o'.v := by
  unfold ExtObj.decode at hd
  split at hd
  · simp at hd
  · simp at hd; subst hd
    rfl

/-- `NewTransactionFromBytes` on the canonical encoding of a well-formed transaction gives a coherent object. -/
theorem TxObj.fromBytes_canonical (H : Bytes → Bytes) (cv : Curve) (hs : cv.Sound) (t : Tx) (hw : (txC cv).wf t) :
    ∃ o, TxObj.fromBytes H cv ((txC cv).enc t) = some o ∧ o.v = t ∧ o.Coherent H cv := by
  have hr := (txC_lawful cv hs).roundtrip t [] hw
  simp only [List.append_nil] at hr
  have henc : (txC cv).enc t = (txBodyC cv).enc t.body ++ (txWitnessesC t.body.signers.length).enc t.witnesses := rfl
  have hb : (txBodyC cv).dec ((txC cv).enc t)
      = some (t.body, (txWitnessesC t.body.signers.length).enc t.witnesses) := by
    rw [henc]; exact (txBodyC_lawful cv hs).roundtrip _ _ hw.1.1
  refine ⟨⟨t, ((txC cv).enc t).length, true, H (((txC cv).enc t).take (((txC cv).enc t).length
    - ((txWitnessesC t.body.signers.length).enc t.witnesses).length))⟩, ?_, rfl, Or.inr rfl, Or.inr ?_⟩
  · simp only [TxObj.fromBytes, txFromBytes, hr, hb]
  · simp only [txHash]
    congr 1
    rw [henc]; simp

end NeoModel.Wire
