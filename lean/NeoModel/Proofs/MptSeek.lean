/-
Helper lemmas for C10: TrieStore.Seek and Trie.Find against their specification.
-/
import NeoModel.Proofs.MptTraverse
set_option linter.unusedSimpArgs false
namespace NeoModel.Mpt

theorem pathLt_asymm : ∀ {a b : Path}, pathLt a b = true → pathLt b a = false
  | [], [], h => by simp [pathLt] at h
  | [], _ :: _, _ => rfl
  | _ :: _, [], h => by simp [pathLt] at h
  | x :: a, y :: b, h => by
    simp only [pathLt] at h ⊢
    by_cases h1 : x < y
    · have := fin_not_lt h1
      simp [h1, this]
    · by_cases h2 : y < x
      · simp [h1, h2] at h
      · simp only [h1, h2, if_false] at h ⊢
        exact pathLt_asymm h

theorem pathLt_total : ∀ (a b : Path), pathLt a b = true ∨ a = b ∨ pathLt b a = true
  | [], [] => Or.inr (Or.inl rfl)
  | [], _ :: _ => Or.inl rfl
  | _ :: _, [] => Or.inr (Or.inr rfl)
  | x :: a, y :: b => by
    simp only [pathLt]
    by_cases h1 : x < y
    · simp [h1]
    · by_cases h2 : y < x
      · simp [h1, h2]
      · have : x = y := by
          apply Fin.ext; simp only [Fin.lt_def] at h1 h2; omega
        subst this
        simp only [h1, if_false]
        rcases pathLt_total a b with h | h | h
        · simp [h]
        · simp [h]
        · simp [h]

/-- strictly above `f`  =  not below `f` and different from `f`. -/
theorem above_iff (f q : Path) : (!pathLt q f && (q != f)) = pathLt f q := by
  rcases pathLt_total f q with h | h | h
  · have h2 := pathLt_asymm h
    have : q ≠ f := by intro e; subst e; simp [pathLt_irrefl] at h
    simp [h, h2, this]
  · subst h; simp [pathLt_irrefl]
  · have h2 := pathLt_asymm h
    simp [h, h2]

theorem isPre_length {a b : Path} (h : isPre a b = true) : a.length ≤ b.length := by
  obtain ⟨r, rfl⟩ := isPre_iff.mp h; simp

theorem isPre_antisymm {a b : Path} (h1 : isPre a b = true) (h2 : b.length ≤ a.length) : a = b := by
  obtain ⟨r, rfl⟩ := isPre_iff.mp h1
  simp at h2
  have : r = [] := by
    cases r with
    | nil => rfl
    | cons x r => simp at h2; omega
  simp [this]

theorem filter_rel (l : List (Path × Val)) (path : Path) (P : Path → Bool) :
    (l.map (rel path)).filter (fun e => P e.1) = (l.filter (fun e => P (path ++ e.1))).map (rel path) := by
  induction l with
  | nil => rfl
  | cons e l ih =>
    simp only [List.map_cons, List.filter_cons, rel]
    split <;> simp [rel, ih]

theorem filter_true' {α} (l : List α) (p : α → Bool) (h : ∀ a, p a = true) : l.filter p = l := by
  apply List.filter_eq_self.mpr; intro a _; exact h a

theorem filter_false' {α} (l : List α) (p : α → Bool) (h : ∀ a, p a = false) : l.filter p = [] := by
  apply List.filter_eq_nil_iff.mpr; intro a _; simp [h a]

/-- C10.5: `TrieStore.Seek` = the keys under the prefix, in range of the start position, in order. -/
theorem seek_spec (t : Node) (pre fromP : Path) (back : Bool) :
    seek t pre fromP back = dir back ((under t pre).filter (fun e => inRange back fromP e.1)) := by
  obtain ⟨h1, h2⟩ := getWithPathNS_spec t pre
  unfold seek
  cases hg : getWithPathNS t pre with
  | none => simp [h2 hg, dir]
  | some x =>
    obtain ⟨start, full⟩ := x
    obtain ⟨path, hf, hu⟩ := h1 start full hg
    subst hf
    simp only [List.drop_left, hu, filter_rel, traverse_spec]
    by_cases hfe : fromP = []
    · subst hfe; simp [inRange_nil]
    · simp only [hfe, if_false]
      by_cases hc1 : path.length ≤ fromP.length ∧ isPre path fromP = true
      · obtain ⟨r, hr⟩ := isPre_iff.mp hc1.2
        subst hr
        simp [hc1, inRange_append]
      · have hnp : isPre path fromP = false := by
          cases hp : isPre path fromP with
          | false => rfl
          | true => exact absurd ⟨isPre_length hp, hp⟩ hc1
        have hs : stripPre path fromP = none := by
          cases hs : stripPre path fromP with
          | none => rfl
          | some r => simp [isPre, hs] at hnp
        simp only [hc1, if_false, ext_range back path fromP hs]
        by_cases hc2 : path.length > fromP.length ∧ isPre fromP path = true
        · simp [hc2, inRange_nil]
        · have hnp2 : isPre fromP path = false := by
            cases hp : isPre fromP path with
            | false => rfl
            | true =>
              exfalso
              apply hc2
              refine ⟨?_, hp⟩
              have := isPre_length hp
              by_cases hl : path.length ≤ fromP.length
              · have := isPre_antisymm hp hl
                subst this
                simp [isPre, stripPre_self] at hnp
              · omega
          simp only [hc2, if_false, hnp2, Bool.false_or]
          by_cases hc3 : (pathLt fromP path == back) = true
          · have : (pathLt fromP path != back) = false := by simpa [bne] using hc3
            simp only [hc3, if_true, this]
            cases back <;> simp [dir]
          · have : (pathLt fromP path != back) = true := by simpa [bne] using hc3
            simp [hc3, this, inRange_nil]


theorem find_none (t : Node) (pre : Path) (frm : Option Path) (maxNum : Nat)
    (h : find t pre frm maxNum = none) : under t pre = [] := by
  obtain ⟨_, h2⟩ := getWithPathNS_spec t pre
  unfold find at h
  cases hg : getWithPathNS t pre with
  | none => exact h2 hg
  | some x =>
    obtain ⟨start, full⟩ := x
    simp only [hg] at h
    split at h <;> (try split at h) <;> (try split at h) <;> (try split at h) <;> simp at h

/-- C10.5: `Trie.Find` = the first `maxNum` keys under the prefix that come strictly after `from`. -/
theorem find_some (t : Node) (pre : Path) (frm : Option Path) (maxNum : Nat) (l : List (Path × Val))
    (h : find t pre frm maxNum = some l) :
    l = ((under t pre).filter (fun e => after frm e.1)).take maxNum := by
  obtain ⟨h1, _⟩ := getWithPathNS_spec t pre
  unfold find at h
  cases hg : getWithPathNS t pre with
  | none => simp [hg] at h
  | some x =>
    obtain ⟨start, full⟩ := x
    obtain ⟨path, hf, hu⟩ := h1 start full hg
    subst hf
    simp only [hg, List.drop_left, traverse_spec, dir, Bool.false_eq_true, if_false] at h
    rw [hu, filter_rel]
    -- the selection made by `go f`
    have key : ∀ (f : Path), (∀ q, (inRange false f q && notFrom frm (path ++ q))
          = after frm (path ++ q)) →
        List.take maxNum (List.filter (fun e => notFrom frm e.1)
          (List.map (rel path) (List.filter (fun e => inRange false f e.1) (entries start)))) =
        List.take maxNum (List.map (rel path) (List.filter (fun e => after frm (path ++ e.1)) (entries start))) := by
      intro f hq
      congr 1
      have := filter_rel (List.filter (fun e => inRange false f e.1) (entries start)) path
        (fun q => notFrom frm q)
      rw [this, List.filter_filter]
      congr 1
      apply List.filter_congr
      intro e _
      rw [Bool.and_comm]; exact hq e.1
    cases frm with
    | none =>
      simp only [Option.getD_none, if_true, Option.some.injEq] at h
      rw [← h]
      exact key [] (fun q => by simp [inRange_nil, after, notFrom])
    | some fr =>
      simp only [Option.getD_some] at h
      by_cases hfe : fr = []
      · subst hfe
        simp only [if_true, Option.some.injEq] at h
        rw [← h]
        exact key [] (fun q => by simp [inRange_nil, after, notFrom, pathLt_nil_left, bne, List.isEmpty_iff])
      · simp only [hfe, if_false] at h
        by_cases hc1 : path.length ≤ fr.length ∧ isPre path fr = true
        · obtain ⟨r, hr⟩ := isPre_iff.mp hc1.2
          subst hr
          simp only [hc1, and_self, if_true, List.drop_left, Option.some.injEq] at h
          rw [← h]
          apply key
          intro q
          simp only [after, notFrom]
          rw [← above_iff (path ++ r) (path ++ q)]
          simp [inRange, pathLt_append_left]
        · have hnp : isPre path fr = false := by
            cases hp : isPre path fr with
            | false => rfl
            | true => exact absurd ⟨isPre_length hp, hp⟩ hc1
          have hs : stripPre path fr = none := by
            cases hs : stripPre path fr with
            | none => rfl
            | some r => simp [isPre, hs] at hnp
          simp only [hc1, if_false] at h
          have hrange := ext_range false path fr hs
          by_cases hc2 : path.length > fr.length ∧ isPre fr path = true
          · simp only [hc2, and_self, if_true, Option.some.injEq] at h
            rw [← h]
            apply key
            intro q
            simp only [after, notFrom, inRange_nil, Bool.true_and]
            have hr := hrange q
            simp only [hc2.2, Bool.true_or] at hr
            rw [← above_iff fr (path ++ q)]
            simp only [inRange, Bool.false_eq_true, if_false] at hr
            simp [hr]
          · have hnp2 : isPre fr path = false := by
              cases hp : isPre fr path with
              | false => rfl
              | true =>
                exfalso
                apply hc2
                refine ⟨?_, hp⟩
                have := isPre_length hp
                by_cases hl : path.length ≤ fr.length
                · have := isPre_antisymm hp hl
                  subst this
                  simp [isPre, stripPre_self] at hnp
                · omega
            simp only [hc2, if_false] at h
            obtain ⟨c, x, y, s', t', e1, e2, hne⟩ := diverge hnp hnp2
            have hlt : pathLt path fr = !pathLt fr path := by
              rw [e1, e2, pathLt_diverge c hne, pathLt_diverge c (fun e => hne e.symm)]
              by_cases hxy : x < y
              · simp [hxy, fin_not_lt hxy]
              · simp [hxy, fin_lt_of_ne hne hxy]
            by_cases hc3 : pathLt path fr = true
            · simp only [hc3, if_true, Option.some.injEq] at h
              rw [← h]
              have : pathLt fr path = false := by rw [hc3] at hlt; simpa using hlt.symm
              have hall : ∀ q, after (some fr) (path ++ q) = false := by
                intro q
                have hr := hrange q
                simp only [hnp2, this, Bool.false_or, bne_self_eq_false] at hr
                simp only [after]
                rw [← above_iff fr (path ++ q)]
                simp only [inRange, Bool.false_eq_true, if_false] at hr
                simp [hr]
              have hnil : List.filter (fun e : Path × Val => after (some fr) (path ++ e.fst)) (entries start) = [] :=
                filter_false' _ _ (fun e => hall e.1)
              rw [hnil]; simp
            · have hc3' : pathLt path fr = false := by simpa using hc3
              simp only [hc3', Bool.false_eq_true, if_false, Option.some.injEq] at h
              rw [← h]
              apply key
              intro q
              have hfp : pathLt fr path = true := by
                cases hx : pathLt fr path with
                | true => rfl
                | false => rw [hx] at hlt; simp at hlt; exact absurd hlt hc3
              have hr := hrange q
              simp only [hnp2, hfp, Bool.false_or] at hr
              simp only [after, notFrom, inRange_nil, Bool.true_and]
              rw [← above_iff fr (path ++ q)]
              simp only [inRange, Bool.false_eq_true, if_false] at hr
              have hr' : pathLt (path ++ q) fr = false := by simpa using hr
              simp [hr']

end NeoModel.Mpt
