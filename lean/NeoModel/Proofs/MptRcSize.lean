/-
C11 helper lemmas: the size limits of keys and values (the `Bounded` hypothesis of the read theorems) as
an invariant of histories whose inputs respect the limits.
-/
import NeoModel.Model.MptRc
import NeoModel.Proofs.MptRcLazy
import NeoModel.Proofs.MptProofs
import NeoModel.Proofs.MptWF
import NeoModel.Proofs.MptBatch
import NeoModel.Proofs.MptBatchList
namespace NeoModel.MptRc
open NeoModel.Mpt

/-! ### the size limits of keys and values as an invariant of histories -/

/-- every key/value of the trie is within the limits of `Put` (extension.go:18-22, leaf.go:13). -/
def Limits (t : Node) : Prop :=
  ∀ p v, lookup t p = some v → p.length ≤ maxPathLength ∧ v.length ≤ maxValueLength

/-- the INPUT of one sub-operation respects the limits (trie.go Put rejects anything else; a batch
comes from a Go map of contract storage items: distinct keys, limits.MaxStorageKeyLen/ValueLen). -/
def SubOK : SubOp → Prop
  | .put k v => k.length ≤ maxPathLength ∧ v.length ≤ maxValueLength
  | .del _ => True
  | .batch m => DistinctKeys m ∧ ∀ k v, (k, some v) ∈ m → k.length ≤ maxPathLength ∧ v.length ≤ maxValueLength

def OpOK : Op → Prop
  | .block _ ops => ∀ o ∈ ops, SubOK o
  | .blockL _ ops _ => ∀ o ∈ ops, SubOK o
  | .jump _ t => WF t ∧ Limits t            -- the sync point's trie is some node's trie
  | _ => True

theorem lookup_some_mem {m : List KV} {q : Path} {ov : Option Val} (h : m.lookup q = some ov) : (q, ov) ∈ m := by
  induction m with
  | nil => simp [List.lookup] at h
  | cons e r ih =>
    obtain ⟨k, w⟩ := e
    simp only [List.lookup] at h
    by_cases hk : q == k
    · simp only [hk] at h
      have : q = k := by simpa using hk
      subst this; cases h; exact List.mem_cons_self
    · simp only [hk] at h
      exact List.mem_cons_of_mem _ (ih h)

theorem sub_ok (t : Node) (o : SubOp) (hw : WF t) (hl : Limits t) (ho : SubOK o) :
    WF (subTrie t o) ∧ Limits (subTrie t o) := by
  cases o with
  | put k v =>
    refine ⟨wf_put t k v hw, fun p w hp => ?_⟩
    simp only [subTrie, Mpt.lookup_put] at hp
    by_cases hq : p = k
    · subst hq; simp only [if_true, Option.some.injEq] at hp; subst hp; exact ho
    · rw [if_neg hq] at hp; exact hl p w hp
  | del k =>
    refine ⟨wf_delete t k hw, fun p w hp => ?_⟩
    simp only [subTrie, Mpt.lookup_delete] at hp
    by_cases hq : p = k
    · simp [hq] at hp
    · rw [if_neg hq] at hp; exact hl p w hp
  | batch m =>
    refine ⟨wf_putBatch t _ hw, fun p w hp => ?_⟩
    simp only [subTrie, Mpt.lookup_putBatch_map t m ho.1, applyBatch] at hp
    cases hm : m.lookup p with
    | none => rw [hm] at hp; exact hl p w hp
    | some ov =>
      rw [hm] at hp
      simp only at hp; subst hp
      exact ho.2 p w (lookup_some_mem hm)

theorem trieAfter_ok (ops : List SubOp) : ∀ (t : Node), WF t → Limits t → (∀ o ∈ ops, SubOK o) →
    WF (trieAfter t ops) ∧ Limits (trieAfter t ops) := by
  induction ops with
  | nil => intro t hw hl _; exact ⟨hw, hl⟩
  | cons o r ih =>
    intro t hw hl ho
    rw [trieAfter_cons]
    obtain ⟨h1, h2⟩ := sub_ok t o hw hl (ho o List.mem_cons_self)
    exact ih _ h1 h2 (fun o' ho' => ho o' (List.mem_cons_of_mem _ ho'))

/-- the live trie and every retained trie are well-formed and within the limits. -/
structure SizeInv (s : St) : Prop where
  wf : WF s.root
  lim : Limits s.root
  hist : ∀ e ∈ s.hist, WF e.2 ∧ Limits e.2

theorem sizeInv_init (mode : Mode) : SizeInv { mode := mode } :=
  ⟨by simp [WF], fun p v h => by simp [lookup] at h, fun e he => by simp at he⟩

theorem sizeInv_block {s s' : St} {idx : Nat} {ops : List SubOp} (hs : SizeInv s) (ho : ∀ o ∈ ops, SubOK o)
    (hroot : s'.root = trieAfter s.root ops) (hhist : s'.hist = (idx, trieAfter s.root ops) :: s.hist) : SizeInv s' := by
  obtain ⟨h1, h2⟩ := trieAfter_ok ops s.root hs.wf hs.lim ho
  refine ⟨by rw [hroot]; exact h1, by rw [hroot]; exact h2, fun e he => ?_⟩
  rw [hhist] at he
  simp only [List.mem_cons] at he
  rcases he with rfl | he
  · exact ⟨h1, h2⟩
  · exact hs.hist e he

/-- C11: the size bound of every retained trie is an invariant of histories whose INPUTS respect the
limits — it need not be assumed of the reached states. -/
theorem run_sizeInv (H : Bytes → Bytes) (mode : Mode) (hrc : mode.rc = true) (ops : List Op) :
    ∀ (top : Option Nat) (s : St), Inv H mode top s → SizeInv s → Heights top ops → (∀ o ∈ ops, OpOK o) →
      ∀ s', runOps H s ops = some s' → SizeInv s' := by
  induction ops with
  | nil => intro top s _ hs _ _ s' hr; simp only [runOps, Option.some.injEq] at hr; subst hr; exact hs
  | cons o r ih =>
    intro top s hinv hs hh hok s' hr
    have hor : ∀ o' ∈ r, OpOK o' := fun o' ho' => hok o' (List.mem_cons_of_mem _ ho')
    have ho := hok o List.mem_cons_self
    cases o with
    | block idx bops =>
      simp only [Heights] at hh
      obtain ⟨s1, hc, hinv1, hroot, hhist, _⟩ := commit_inv H mode hrc top s idx bops hinv hh.1
      simp only [runOps, stepOp, hc] at hr
      exact ih (some idx) s1 hinv1 (sizeInv_block hs ho hroot hhist) hh.2 hor s' hr
    | blockL idx bops ld =>
      simp only [Heights] at hh
      obtain ⟨s1, hc, hinv1, hroot, hhist, _⟩ := commitL_inv H mode hrc top s idx bops ld hinv hh.1
      simp only [runOps, stepOp, hc] at hr
      exact ih (some idx) s1 hinv1 (sizeInv_block hs ho hroot hhist) hh.2 hor s' hr
    | gc g =>
      simp only [Heights] at hh
      simp only [runOps, stepOp] at hr
      exact ih top (gcSt s g) (gc_inv H mode top s g hinv) ⟨hs.wf, hs.lim, hs.hist⟩ hh hor s' hr
    | reset =>
      simp only [Heights] at hh
      simp only [runOps, stepOp] at hr
      exact ih top (reset s) (reset_inv H mode top s hinv) ⟨hs.wf, hs.lim, hs.hist⟩ hh hor s' hr
    | jump idx t =>
      simp only [Heights] at hh
      simp only [runOps, stepOp] at hr
      refine ih (some idx) (jumpSt H s idx t) (jump_inv H mode hrc top s hinv idx t) ⟨ho.1, ho.2, fun e he => ?_⟩ hh hor s' hr
      simp only [jumpSt, List.mem_singleton] at he
      subst he; exact ho

theorem hist_bounded {s : St} (hs : SizeInv s) (e : Nat × Node) (he : e ∈ s.hist) : Bounded e.2 :=
  bounded_of_contents e.2 (hs.hist e he).1 (hs.hist e he).2

end NeoModel.MptRc
