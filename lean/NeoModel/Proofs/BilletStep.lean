/-
C20 (b): what a billet represents (`Rep`) and the walk of `putIntoNode`: a pending position with its node is
accepted and the result represents the extended set; only pending positions are accepted.
-/
import NeoModel.Proofs.BilletBasic
namespace NeoModel.StateSync

variable (db : Hash → Option SNode) (root : Hash)

mutual
/-- The billet node `t` standing at position `(h, p)` represents the set `D` of restored positions: a HashNode
that is not collapsed stands for a position that is not restored, a collapsed one for a subtree that is
restored completely, an in-memory node for a restored position whose subtree is not complete. -/
def Rep (D : List (Hash × Path)) : BN → Hash → Path → Prop
  | .hash h' c, h, p => h' = h ∧ (if c then ∀ y, Below db (h, p) y → y ∈ D else (h, p) ∉ D)
  | .node h' kind kids, h, p => h' = h ∧ (h, p) ∈ D ∧ ∃ n, db h = some n ∧ n.val = none ∧ kind = kindOf n ∧
      RepKids D kids n.kids p ∧ kids.all (fun k => k.2.isCollapsed) = false
def RepKids (D : List (Hash × Path)) : List (Path × BN) → List (Path × Hash) → Path → Prop
  | [], [], _ => True
  | (r, c) :: more, k :: more', p => r = k.1 ∧ Rep D c k.2 (p ++ r) ∧ RepKids D more more' p
  | [], _ :: _, _ => False
  | _ :: _, [], _ => False
end

theorem repKids_nil (D : List (Hash × Path)) (p : Path) : RepKids db D [] [] p := by simp [RepKids]

theorem repKids_cons (D : List (Hash × Path)) (r : Path) (c : BN) (more : List (Path × BN)) (k : Path × Hash)
    (more' : List (Path × Hash)) (p : Path) :
    RepKids db D ((r, c) :: more) (k :: more') p ↔ r = k.1 ∧ Rep db D c k.2 (p ++ r) ∧ RepKids db D more more' p := by
  simp [RepKids]

theorem repKids_append (D : List (Hash × Path)) (p : Path) :
    ∀ (a : List (Path × BN)) (a' : List (Path × Hash)) (b : List (Path × BN)) (b' : List (Path × Hash)),
    RepKids db D a a' p → RepKids db D b b' p → RepKids db D (a ++ b) (a' ++ b') p := by
  intro a
  induction a with
  | nil => intro a' b b' h1 h2; cases a' with
    | nil => simpa using h2
    | cons _ _ => simp [RepKids] at h1
  | cons e r ih => intro a' b b' h1 h2; cases a' with
    | nil => simp [RepKids] at h1
    | cons k r' =>
      obtain ⟨e1, e2⟩ := e
      rw [repKids_cons] at h1
      simp only [List.cons_append]
      rw [repKids_cons]
      exact ⟨h1.1, h1.2.1, ih r' b b' h1.2.2 h2⟩

/-- Splitting at a child of the node. -/
theorem repKids_split (D : List (Hash × Path)) (p : Path) (k : Path × Hash) :
    ∀ (kids : List (Path × BN)) (npre npost : List (Path × Hash)), RepKids db D kids (npre ++ k :: npost) p →
    ∃ pre c post, kids = pre ++ (k.1, c) :: post ∧ pre.map (·.1) = npre.map (·.1) ∧ post.map (·.1) = npost.map (·.1) ∧
      Rep db D c k.2 (p ++ k.1) ∧ RepKids db D pre npre p ∧ RepKids db D post npost p := by
  intro kids npre
  induction npre generalizing kids with
  | nil =>
    intro npost h
    cases kids with
    | nil => simp [RepKids] at h
    | cons e more =>
      obtain ⟨r, c⟩ := e
      simp only [List.nil_append] at h
      rw [repKids_cons] at h
      obtain ⟨rfl, h2, h3⟩ := h
      refine ⟨[], c, more, rfl, rfl, ?_, h2, repKids_nil db D p, h3⟩
      clear h2
      induction more generalizing npost with
      | nil => cases npost with
        | nil => rfl
        | cons _ _ => simp [RepKids] at h3
      | cons e r ih => cases npost with
        | nil => simp [RepKids] at h3
        | cons k' r' =>
          obtain ⟨e1, e2⟩ := e
          rw [repKids_cons] at h3
          simp only [List.map_cons, h3.1, ih r' h3.2.2]
  | cons k0 r0 ih =>
    intro npost h
    cases kids with
    | nil => simp [RepKids] at h
    | cons e more =>
      obtain ⟨r, c⟩ := e
      simp only [List.cons_append] at h
      rw [repKids_cons] at h
      obtain ⟨rfl, h2, h3⟩ := h
      obtain ⟨pre, c', post, e1, e2, e3, e4, e5, e6⟩ := ih more npost h3
      refine ⟨(k0.1, c) :: pre, c', post, by rw [e1]; rfl, by simp [e2], e3, e4, ?_, e6⟩
      rw [repKids_cons]; exact ⟨rfl, h2, e5⟩

theorem repKids_mem (D : List (Hash × Path)) (p : Path) (kids : List (Path × BN)) (nk : List (Path × Hash))
    (h : RepKids db D kids nk p) (k : Path × Hash) (hk : k ∈ nk) :
    ∃ c, (k.1, c) ∈ kids ∧ Rep db D c k.2 (p ++ k.1) := by
  obtain ⟨npre, npost, rfl⟩ := List.append_of_mem hk
  obtain ⟨pre, c, post, e1, _, _, e4, _, _⟩ := repKids_split db D p k kids npre npost h
  exact ⟨c, by rw [e1]; simp, e4⟩

theorem repKids_mem' (D : List (Hash × Path)) (p : Path) (kids : List (Path × BN)) (nk : List (Path × Hash))
    (h : RepKids db D kids nk p) (e : Path × BN) (he : e ∈ kids) :
    ∃ k ∈ nk, k.1 = e.1 ∧ Rep db D e.2 k.2 (p ++ k.1) := by
  induction kids generalizing nk with
  | nil => cases he
  | cons e0 more ih =>
    cases nk with
    | nil => simp [RepKids] at h
    | cons k r' =>
      obtain ⟨r, c⟩ := e0
      rw [repKids_cons] at h
      rcases List.mem_cons.1 he with rfl | he
      · exact ⟨k, by simp, h.1.symm, by rw [← h.1]; exact h.2.1⟩
      · obtain ⟨k', hk', e1, e2⟩ := ih r' h.2.2 he
        exact ⟨k', by simp [hk'], e1, e2⟩

mutual
theorem rep_mono (D : List (Hash × Path)) (x : Hash × Path) :
    ∀ (t : BN) (h : Hash) (p : Path), Rep db D t h p → ¬ Below db (h, p) x → Rep db (D ++ [x]) t h p
  | .hash h' c, h, p, hr, hb => by
    simp only [Rep] at hr ⊢
    refine ⟨hr.1, ?_⟩
    cases c with
    | true => simp only [if_true] at hr ⊢; intro y hy; exact List.mem_append.2 (.inl (hr.2 y hy))
    | false =>
      simp only [Bool.false_eq_true, if_false] at hr ⊢
      intro hin
      rcases List.mem_append.1 hin with h1 | h1
      · exact hr.2 h1
      · simp at h1; exact hb (h1 ▸ .refl _)
  | .node h' kind kids, h, p, hr, hb => by
    simp only [Rep] at hr ⊢
    obtain ⟨e, hin, n, hn, hv, hk, hks, hc⟩ := hr
    refine ⟨e, List.mem_append.2 (.inl hin), n, hn, hv, hk, ?_, hc⟩
    exact repKids_mono D x kids n.kids p hks (fun k hkm hbel => hb (Below.head db ⟨n, k, hn, hkm, rfl⟩ hbel))
theorem repKids_mono (D : List (Hash × Path)) (x : Hash × Path) :
    ∀ (kids : List (Path × BN)) (nk : List (Path × Hash)) (p : Path), RepKids db D kids nk p →
      (∀ k ∈ nk, ¬ Below db (k.2, p ++ k.1) x) → RepKids db (D ++ [x]) kids nk p
  | [], [], _, _, _ => by simp [RepKids]
  | [], _ :: _, _, h, _ => by simp [RepKids] at h
  | _ :: _, [], _, h, _ => by simp [RepKids] at h
  | (r, c) :: more, k :: more', p, h, hb => by
    rw [repKids_cons] at h ⊢
    obtain ⟨rfl, h2, h3⟩ := h
    exact ⟨rfl, rep_mono D x c k.2 (p ++ k.1) h2 (hb k (by simp)),
      repKids_mono D x more more' p h3 (fun k' hk' => hb k' (by simp [hk']))⟩
end

/-- tryCollapse keeps the representation. -/
theorem rep_collapse (D : List (Hash × Path)) (h : Hash) (p : Path) (n : SNode) (kids : List (Path × BN))
    (hin : (h, p) ∈ D) (hn : db h = some n) (hv : n.val = none) (hks : RepKids db D kids n.kids p) :
    Rep db D (tryCollapse h (kindOf n) kids) h p := by
  unfold tryCollapse
  split
  · rename_i hall
    simp only [Rep, if_true, true_and]
    intro y hy
    rcases Below.cases_head db hy with rfl | ⟨k, ⟨n', k', hn', hk', rfl⟩, hb⟩
    · exact hin
    · rw [hn] at hn'; cases hn'
      obtain ⟨c, hc, hrep⟩ := repKids_mem db D p kids n.kids hks k' hk'
      have hcol := List.all_eq_true.1 hall _ hc
      cases c with
      | node _ _ _ => simp [BN.isCollapsed] at hcol
      | hash h'' cc =>
        simp only [BN.isCollapsed] at hcol
        subst hcol
        simp only [Rep, if_true] at hrep
        exact hrep.2 y hb
  · rename_i hall
    simp only [Rep, true_and]
    exact ⟨hin, n, hn, hv, rfl, hks, by simpa using hall⟩

/-- The child under `sel` when no earlier child has this relative path. -/
theorem putIntoKids_split (refs : Hash → Nat) (sel rest : Path) (hv : Hash) (nv : SNode) (c : BN)
    (post : List (Path × BN)) :
    ∀ pre : List (Path × BN), (∀ e ∈ pre, e.1 ≠ sel) →
    putIntoKids refs (pre ++ (sel, c) :: post) sel rest hv nv =
      match putIntoNode refs c rest hv nv with
      | .ok (c', refs') => .ok (pre ++ (sel, c') :: post, refs')
      | .err e => .err e
      | .panic => .panic := by
  intro pre
  induction pre with
  | nil =>
    intro _
    simp only [List.nil_append, putIntoKids, if_true]
    cases putIntoNode refs c rest hv nv with
    | ok a => rfl
    | err e => rfl
    | panic => rfl
  | cons e r ih =>
    intro hne
    obtain ⟨e1, e2⟩ := e
    have h1 : e1 ≠ sel := hne (e1, e2) (by simp)
    simp only [List.cons_append, putIntoKids, if_neg h1]
    rw [ih (fun e he => hne e (by simp [he]))]
    cases putIntoNode refs c rest hv nv with
    | ok a => rfl
    | err e => rfl
    | panic => rfl

end NeoModel.StateSync

namespace NeoModel.StateSync
variable (db : Hash → Option SNode) (root : Hash)

theorem kindOf_ext (n : SNode) (h : kindOf n = .ext) : ∃ key ch, n.kids = [(key, ch)] ∧ key ≠ [] := by
  unfold kindOf at h
  split at h
  · rename_i k c hk
    split at h
    · cases h
    · rename_i hne
      exact ⟨k, c, hk, by intro e; apply hne; simp [e]⟩
  · cases h

theorem splitPath_rel (r rest : Path) (h1 : r.length ≤ 1) (h2 : r = [] → rest = []) :
    splitPath (r ++ rest) = (r, rest) := by
  match r, h1 with
  | [], _ => rw [h2 rfl]; rfl
  | [i], _ => rfl
  | _ :: _ :: _, h => simp at h

theorem reach_leaf {D : List (Hash × Path)} {c : Hash} {q rest : Path} {x : Hash × Path}
    (h : Reach db D (c, q) rest x) (hl : ∀ m, db c = some m → m.kids = []) : rest = [] := by
  cases h with
  | here => rfl
  | down _ hn hk _ => rw [hl _ hn] at hk; cases hk

theorem expand_rep (D : List (Hash × Path)) (p : Path) (nk : List (Path × Hash))
    (hf : ∀ k ∈ nk, (k.2, p ++ k.1) ∉ D) :
    RepKids db D (nk.map (fun k => (k.1, BN.hash k.2 false))) nk p := by
  induction nk with
  | nil => simp [RepKids]
  | cons k r ih =>
    simp only [List.map_cons]
    rw [repKids_cons]
    refine ⟨rfl, ?_, ih (fun k' hk' => hf k' (by simp [hk']))⟩
    simp only [Rep, Bool.false_eq_true, if_false, true_and]
    exact hf k (by simp)

/-- A pending position is accepted with its node; the result represents the extended set. -/
theorem put_pending (wf : WF db root) (rk : Hash → Nat) (hrk : Ranked db rk) (sh : Shaped db)
    (D : List (Hash × Path)) (hd : DOK db root D) (refs : Hash → Nat) {a : Hash × Path} {path : Path}
    {x : Hash × Path} (hr : Reach db D a path x) :
    ∀ t, Pos db root a.1 a.2 → Rep db D t a.1 a.2 → x ∉ D → ∀ nv, db x.1 = some nv →
      ∃ t', putIntoNode refs t path x.1 nv = .ok (t', bump refs x.1) ∧ Rep db (D ++ [x]) t' a.1 a.2 := by
  induction hr with
  | here x =>
    obtain ⟨h, p⟩ := x
    intro t hp hrep hx nv hnv
    cases t with
    | node h' kind kids =>
      simp only [Rep] at hrep
      exact absurd hrep.2.1 hx
    | hash h' c =>
      simp only [Rep] at hrep
      obtain ⟨rfl, h2⟩ := hrep
      cases c with
      | true => simp only [if_true] at h2; exact absurd (h2 _ (.refl _)) hx
      | false =>
        by_cases hl : nv.val.isSome = true
        · refine ⟨.hash h' true, by simp [putIntoNode, hl], ?_⟩
          simp only [Rep, if_true, true_and]
          intro y hy
          rcases Below.cases_head db hy with rfl | ⟨k, ⟨n', k', hn', hk', _⟩, _⟩
          · simp
          · simp only at hn' hnv
            rw [hnv] at hn'; cases hn'
            rw [sh.leaf _ _ hnv hl] at hk'; cases hk'
        · refine ⟨expand h' nv, by simp [putIntoNode, hl], ?_⟩
          have hval : nv.val = none := by
            cases hv : nv.val with
            | none => rfl
            | some v => simp [hv] at hl
          simp only [expand, Rep, true_and]
          refine ⟨by simp, nv, hnv, hval, rfl, ?_, ?_⟩
          · apply expand_rep
            intro k hk hin
            rcases List.mem_append.1 hin with h1 | h1
            · exact kid_fresh db root wf hd hp hnv hk hx h1
            · simp only [List.mem_singleton, Prod.mk.injEq] at h1
              have := hrk h' nv k hnv hk
              rw [h1.1] at this; omega
          · have hne := sh.inner _ _ hnv hval
            cases hk : nv.kids with
            | nil => exact absurd hk hne
            | cons k r => simp [BN.isCollapsed]
  | @down h p n k rest x hin hn hk hrest ih =>
    intro t hp hrep hx nv hnv
    have hbel : Below db (h, p) x := (Reach.down hin hn hk hrest).toBelow db
    have hxne : x.1 ≠ h := by
      rcases hbel.rank db rk hrk with e | e
      · exact absurd (e ▸ hin) hx
      · intro e'; rw [e'] at e; simp at e
    cases t with
    | hash h' c =>
      simp only [Rep] at hrep
      cases c with
      | true => simp only [if_true] at hrep; exact absurd (hrep.2 _ hbel) hx
      | false => simp only [Bool.false_eq_true, if_false] at hrep; exact absurd hin hrep.2
    | node h' kind kids =>
      simp only [Rep] at hrep
      obtain ⟨rfl, _, n', hn', hval, rfl, hks, _⟩ := hrep
      rw [hn] at hn'; cases hn'
      obtain ⟨npre, npost, hsplit⟩ := List.append_of_mem hk
      rw [hsplit] at hks
      obtain ⟨pre, c, post, e1, e2, e3, e4, e5, e6⟩ := repKids_split db D p k kids npre npost hks
      have hpk : Pos db root k.2 (p ++ k.1) := Pos.kid hp hn hk
      obtain ⟨c', hput, hrep'⟩ := ih c hpk e4 hx nv hnv
      -- the other children are untouched and still represent the extended set
      have hother : ∀ k0 ∈ n.kids, k0.1 ≠ k.1 → ¬ Below db (k0.2, p ++ k0.1) x := by
        intro k0 hk0 hne hb
        refine siblings_disjoint db root wf rk hrk hp hn hk0 hk ?_ hb (hrest.toBelow db)
        intro e
        simp only [Prod.mk.injEq, List.append_cancel_left_eq] at e
        exact hne e.2
      have hkids' : ∀ (nd : (n.kids.map (·.1)).Nodup),
          RepKids db (D ++ [x]) (pre ++ (k.1, c') :: post) n.kids p := by
        intro nd
        rw [hsplit]
        rw [hsplit, List.map_append, List.map_cons] at nd
        have nd' := List.nodup_append.1 nd
        have hmid := (List.nodup_cons.1 nd'.2.1)
        refine repKids_append db _ p pre npre _ _ ?_ ?_
        · refine repKids_mono db D x pre npre p e5 (fun k0 hk0 => hother k0 (by rw [hsplit]; simp [hk0]) ?_)
          intro e
          exact nd'.2.2 k0.1 (List.mem_map.2 ⟨k0, hk0, rfl⟩) k.1 (by simp) e
        · rw [repKids_cons]
          refine ⟨rfl, hrep', ?_⟩
          refine repKids_mono db D x post npost p e6 (fun k0 hk0 => hother k0 (by rw [hsplit]; simp [hk0]) ?_)
          intro e
          exact hmid.1 (e ▸ List.mem_map.2 ⟨k0, hk0, rfl⟩)
      have hpre : ∀ (nd : (n.kids.map (·.1)).Nodup), ∀ e ∈ pre, e.1 ≠ k.1 := by
        intro nd e he e'
        rw [hsplit, List.map_append, List.map_cons] at nd
        have nd' := List.nodup_append.1 nd
        have : e.1 ∈ npre.map (·.1) := by rw [← e2]; exact List.mem_map.2 ⟨e, he, rfl⟩
        exact nd'.2.2 e.1 this k.1 (by simp) e'
      have hinx : (h', p) ∈ D ++ [x] := List.mem_append.2 (.inl hin)
      cases hkind : kindOf n with
      | branch =>
        obtain ⟨nd, hlen⟩ := sh.rels _ _ hn hkind
        have hsp : splitPath (k.1 ++ rest) = (k.1, rest) := by
          apply splitPath_rel _ _ (hlen k hk)
          intro e
          apply reach_leaf db hrest
          intro m hm
          exact sh.valueKid _ _ k m hn hkind hk e hm
        refine ⟨tryCollapse h' .branch (pre ++ (k.1, c') :: post), ?_, ?_⟩
        · rw [e1]
          simp only [putIntoNode, hsp]
          rw [putIntoKids_split refs k.1 rest x.1 nv c post pre (hpre nd), hput]
          simp [Ne.symm hxne]
        · rw [← hkind]
          exact rep_collapse db _ h' p n _ hinx hn hval (hkids' nd)
      | ext =>
        obtain ⟨key, ch, hkids, hkey⟩ := kindOf_ext n hkind
        have hkeq : k = (key, ch) := by rw [hkids] at hk; simpa using hk
        subst hkeq
        have nd : (n.kids.map (·.1)).Nodup := by rw [hkids]; simp
        have hpre0 : pre = [] ∧ post = [] := by
          rw [hkids] at hsplit
          cases npre with
          | nil =>
            simp only [List.nil_append, List.cons.injEq, true_and] at hsplit
            subst hsplit
            simp only [List.map_nil, List.map_eq_nil_iff] at e2 e3
            exact ⟨e2, e3⟩
          | cons a b =>
            simp only [List.cons_append, List.cons.injEq] at hsplit
            have := hsplit.2
            cases b <;> simp at this
        obtain ⟨rfl, rfl⟩ := hpre0
        refine ⟨tryCollapse h' .ext ([] ++ (key, c') :: []), ?_, ?_⟩
        · rw [e1]
          have hne : key ++ rest ≠ [] := by simp [hkey]
          simp only [List.nil_append, putIntoNode, hne, if_false]
          have hpref : key.isPrefixOf (key ++ rest) = true := by simp
          simp only [hpref, if_true, List.drop_left']
          have := putIntoKids_split refs key rest x.1 nv c [] [] (by simp)
          simp only [List.nil_append] at this
          rw [this, hput]
        · rw [← hkind]
          exact rep_collapse db _ h' p n _ hinx hn hval (hkids' nd)

end NeoModel.StateSync

namespace NeoModel.StateSync
variable (db : Hash → Option SNode) (root : Hash)

theorem splitPath_append (path : Path) : (splitPath path).1 ++ (splitPath path).2 = path := by
  cases path <;> rfl

mutual
/-- Only a position that is not restored and is reached through restored nodes is accepted, and only with
the hash the billet holds there; the store gets exactly one more reference to that hash. -/
theorem put_sound (D : List (Hash × Path)) (refs : Hash → Nat) (hv : Hash) (nv : SNode) :
    ∀ (t : BN) (h : Hash) (p path : Path) (t' : BN) (refs' : Hash → Nat), Rep db D t h p →
      putIntoNode refs t path hv nv = .ok (t', refs') →
      Reach db D (h, p) path (hv, p ++ path) ∧ (hv, p ++ path) ∉ D ∧ refs' = bump refs hv
  | .hash h' c, h, p, path, t', refs', hr, hp => by
    simp only [Rep] at hr
    obtain ⟨rfl, h2⟩ := hr
    simp only [putIntoNode] at hp
    split at hp
    · cases hp
    · rename_i hpath
      have hpath : path = [] := by simpa using hpath
      subst hpath
      split at hp
      · cases hp
      · rename_i hh
        have hh : hv = h' := by simpa using hh
        subst hh
        cases c with
        | true => simp at hp
        | false =>
          simp only [Bool.false_eq_true, if_false] at h2 hp
          refine ⟨by simpa using Reach.here (db := db) (D := D) (hv, p), by simpa using h2, ?_⟩
          split at hp <;> (cases hp; rfl)
  | .node h' .branch kids, h, p, path, t', refs', hr, hp => by
    simp only [Rep] at hr
    obtain ⟨rfl, hin, n, hn, _, _, hks, _⟩ := hr
    simp only [putIntoNode] at hp
    split at hp
    · cases hp
    · cases hk : putIntoKids refs kids (splitPath path).1 (splitPath path).2 hv nv with
      | err e => rw [hk] at hp; cases hp
      | panic => rw [hk] at hp; cases hp
      | ok a =>
        obtain ⟨kids', r'⟩ := a
        rw [hk] at hp
        simp only [BRes.ok.injEq, Prod.mk.injEq] at hp
        obtain ⟨k, hkm, hsel, hreach, hfresh, hrefs⟩ := putKids_sound D refs hv nv kids n.kids p _ _ kids' r' hks hk
        have hpath : p ++ path = (p ++ (splitPath path).1) ++ (splitPath path).2 := by
          rw [List.append_assoc, splitPath_append]
        refine ⟨?_, by rw [hpath]; exact hfresh, by rw [← hp.2]; exact hrefs⟩
        have := Reach.down hin hn hkm (by rw [hsel]; exact hreach)
        rw [hsel, splitPath_append, ← hpath] at this
        exact this
  | .node h' .ext kids, h, p, path, t', refs', hr, hp => by
    simp only [Rep] at hr
    obtain ⟨rfl, hin, n, hn, _, _, hks, _⟩ := hr
    simp only [putIntoNode] at hp
    split at hp
    · split at hp <;> cases hp
    · split at hp
      · rename_i key c0 _
        split at hp
        · rename_i hpre
          have hpath : path = key ++ path.drop key.length := by
            have := List.prefix_iff_eq_append.1 (List.isPrefixOf_iff_prefix.1 hpre)
            exact this.symm
          cases hk : putIntoKids refs [(key, c0)] key (path.drop key.length) hv nv with
          | err e => rw [hk] at hp; cases hp
          | panic => rw [hk] at hp; cases hp
          | ok a =>
            obtain ⟨kids', r'⟩ := a
            rw [hk] at hp
            simp only [BRes.ok.injEq, Prod.mk.injEq] at hp
            obtain ⟨k, hkm, hsel, hreach, hfresh, hrefs⟩ :=
              putKids_sound D refs hv nv [(key, c0)] n.kids p _ _ kids' r' hks hk
            have hpath' : p ++ path = (p ++ key) ++ path.drop key.length := by
              rw [List.append_assoc, ← hpath]
            refine ⟨?_, by rw [hpath']; exact hfresh, by rw [← hp.2]; exact hrefs⟩
            have := Reach.down hin hn hkm (by rw [hsel]; exact hreach)
            rw [hsel, ← hpath, ← hpath'] at this
            exact this
        · cases hp
      · cases hp
theorem putKids_sound (D : List (Hash × Path)) (refs : Hash → Nat) (hv : Hash) (nv : SNode) :
    ∀ (kids : List (Path × BN)) (nk : List (Path × Hash)) (p sel rest : Path) (kids' : List (Path × BN))
      (refs' : Hash → Nat), RepKids db D kids nk p →
      putIntoKids refs kids sel rest hv nv = .ok (kids', refs') →
      ∃ k ∈ nk, k.1 = sel ∧ Reach db D (k.2, p ++ sel) rest (hv, (p ++ sel) ++ rest) ∧
        (hv, (p ++ sel) ++ rest) ∉ D ∧ refs' = bump refs hv
  | [], _, _, _, _, _, _, _, hp => by simp [putIntoKids] at hp
  | _ :: _, [], _, _, _, _, _, hr, _ => by simp [RepKids] at hr
  | (r, c) :: more, k :: more', p, sel, rest, kids', refs', hr, hp => by
    rw [repKids_cons] at hr
    obtain ⟨rfl, h2, h3⟩ := hr
    simp only [putIntoKids] at hp
    split at hp
    · rename_i hsel
      cases hc : putIntoNode refs c rest hv nv with
      | err e => rw [hc] at hp; cases hp
      | panic => rw [hc] at hp; cases hp
      | ok a =>
        obtain ⟨c', r'⟩ := a
        rw [hc] at hp
        simp only [BRes.ok.injEq, Prod.mk.injEq] at hp
        obtain ⟨g1, g2, g3⟩ := put_sound D refs hv nv c k.2 (p ++ k.1) rest c' r' h2 hc
        subst hsel
        exact ⟨k, by simp, rfl, g1, g2, by rw [← hp.2]; exact g3⟩
    · cases hm : putIntoKids refs more sel rest hv nv with
      | err e => rw [hm] at hp; cases hp
      | panic => rw [hm] at hp; cases hp
      | ok a =>
        obtain ⟨m', r'⟩ := a
        rw [hm] at hp
        simp only [BRes.ok.injEq, Prod.mk.injEq] at hp
        obtain ⟨k', hk', g⟩ := putKids_sound D refs hv nv more more' p sel rest m' r' h3 hm
        exact ⟨k', by simp [hk'], by rw [← hp.2]; exact g⟩
end

end NeoModel.StateSync
