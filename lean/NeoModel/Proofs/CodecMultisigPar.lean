/-
Helper lemmas for C18 / parallel multi-signature check: symmetry of matching under reversal, list
windows, the invariant of the result loop of CheckMultisigPar and its preservation by every
scheduler choice (`step_good`), termination within the fuel, the initial state.
-/
import NeoModel.Proofs.CodecMultisig
namespace NeoModel.Codec
variable {Sig Key : Type}

/-! ### seqMatch facts -/

theorem pairwiseOk_length (ok : Sig → Key → Bool) : ∀ (ss : List Sig) (ks : List Key), pairwiseOk ok ss ks → ss.length = ks.length
  | [], [], _ => rfl
  | _ :: ss, _ :: ks, h => by simp only [pairwiseOk] at h; simp [pairwiseOk_length ok ss ks h.2]
  | [], _ :: _, h => by simp [pairwiseOk] at h
  | _ :: _, [], h => by simp [pairwiseOk] at h

theorem pairwiseOk_reverse_aux (ok : Sig → Key → Bool) :
    ∀ (ss : List Sig) (ks : List Key) (s : Sig) (k : Key), pairwiseOk ok ss ks → ok s k = true →
      pairwiseOk ok (ss ++ [s]) (ks ++ [k])
  | [], [], s, k, _, h => by simp [pairwiseOk, h]
  | a :: ss, b :: ks, s, k, h, h' => by
      simp only [pairwiseOk] at h
      simp only [List.cons_append, pairwiseOk]
      exact ⟨h.1, pairwiseOk_reverse_aux ok ss ks s k h.2 h'⟩
  | [], _ :: _, _, _, h, _ => by simp [pairwiseOk] at h
  | _ :: _, [], _, _, h, _ => by simp [pairwiseOk] at h

theorem pairwiseOk_reverse (ok : Sig → Key → Bool) :
    ∀ (ss : List Sig) (ks : List Key), pairwiseOk ok ss ks → pairwiseOk ok ss.reverse ks.reverse
  | [], [], _ => by simp [pairwiseOk]
  | a :: ss, b :: ks, h => by
      simp only [pairwiseOk] at h
      simp only [List.reverse_cons]
      exact pairwiseOk_reverse_aux ok _ _ a b (pairwiseOk_reverse ok ss ks h.2) h.1
  | [], _ :: _, h => by simp [pairwiseOk] at h
  | _ :: _, [], h => by simp [pairwiseOk] at h

/-- matching is symmetric under reversing both lists. -/
theorem seqMatch_reverse (ok : Sig → Key → Bool) (sigs : List Sig) (keys : List Key) :
    seqMatch ok sigs.reverse keys.reverse = seqMatch ok sigs keys := by
  have key : ∀ (ss : List Sig) (ks : List Key), seqMatch ok ss ks = true → seqMatch ok ss.reverse ks.reverse = true := by
    intro ss ks h
    obtain ⟨ks', hsub, hp⟩ := matching_of_seqMatch ok ks ss h
    exact seqMatch_of_matching ok _ _ ks'.reverse (List.reverse_sublist.mpr hsub) (pairwiseOk_reverse ok _ _ hp)
  cases h : seqMatch ok sigs keys with
  | true => exact key _ _ h
  | false =>
    cases h' : seqMatch ok sigs.reverse keys.reverse with
    | false => rfl
    | true =>
      have := key _ _ h'
      simp only [List.reverse_reverse] at this
      rw [h] at this; exact absurd this (by simp)

theorem seqMatch_snoc (ok : Sig → Key → Bool) (ss : List Sig) (s : Sig) (ks : List Key) (k : Key) :
    seqMatch ok (ss ++ [s]) (ks ++ [k]) = if ok s k then seqMatch ok ss ks else seqMatch ok (ss ++ [s]) ks := by
  rw [← seqMatch_reverse]
  simp only [List.reverse_append, List.reverse_cons, List.reverse_nil, List.nil_append, List.cons_append, seqMatch]
  split
  · rw [seqMatch_reverse]
  · have := seqMatch_reverse ok (ss ++ [s]) ks
    simp only [List.reverse_append, List.reverse_cons, List.reverse_nil, List.nil_append, List.cons_append] at this
    exact this

theorem seqMatch_too_many (ok : Sig → Key → Bool) : ∀ (ks : List Key) (ss : List Sig), ks.length < ss.length → seqMatch ok ss ks = false := by
  intro ks
  induction ks with
  | nil => intro ss h; cases ss with
    | nil => simp at h
    | cons _ _ => rfl
  | cons k ks ih =>
    intro ss h
    cases ss with
    | nil => simp at h
    | cons s ss =>
      simp only [seqMatch]
      split
      · exact ih ss (by simp at h; omega)
      · exact ih (s :: ss) (by simp at h ⊢; omega)

theorem seqMatch_single_of_last (ok : Sig → Key → Bool) (s : Sig) (ks : List Key) (k : Key) (h : ok s k = true) :
    seqMatch ok [s] (ks ++ [k]) = true := by
  have := seqMatch_snoc ok [] s ks k
  simp only [List.nil_append] at this
  rw [this, h]; simp [seqMatch]


/-! ### windows of a list -/

/-- the elements with indices `a..b` inclusive. -/
def win {α : Type} (l : List α) (a b : Nat) : List α := (l.drop a).take (b + 1 - a)

theorem win_length {α : Type} (l : List α) (a b : Nat) (hb : b < l.length) :
    (win l a b).length = b + 1 - a := by
  simp only [win, List.length_take, List.length_drop]; omega

theorem win_cons {α : Type} (l : List α) (a b : Nat) (hab : a ≤ b) (hb : b < l.length) :
    ∃ x, l[a]? = some x ∧ win l a b = x :: win l (a + 1) b := by
  have ha : a < l.length := by omega
  refine ⟨l[a], List.getElem?_eq_getElem ha, ?_⟩
  simp only [win]
  rw [List.drop_eq_getElem_cons ha]
  have : b + 1 - a = (b + 1 - (a + 1)) + 1 := by omega
  rw [this, List.take_succ_cons]

theorem win_snoc {α : Type} (l : List α) (a b : Nat) (hab : a < b) (hb : b < l.length) :
    ∃ y, l[b]? = some y ∧ win l a b = win l a (b - 1) ++ [y] := by
  refine ⟨l[b], List.getElem?_eq_getElem hb, ?_⟩
  simp only [win]
  have e1 : b + 1 - a = (b - 1 + 1 - a) + 1 := by omega
  have hlt : b - 1 + 1 - a < (l.drop a).length := by simp only [List.length_drop]; omega
  rw [e1, List.take_succ_eq_append_getElem hlt]
  congr 2
  simp only [List.getElem_drop]
  congr 1; omega

theorem win_self {α : Type} (l : List α) (a : Nat) (ha : a < l.length) :
    ∃ x, l[a]? = some x ∧ win l a a = [x] := by
  obtain ⟨x, hx, hw⟩ := win_cons l a a (Nat.le_refl _) ha
  refine ⟨x, hx, ?_⟩
  rw [hw]; simp [win]

theorem win_full {α : Type} (l : List α) (hl : 0 < l.length) : win l 0 (l.length - 1) = l := by
  simp only [win, List.drop_zero]
  have : l.length - 1 + 1 - 0 = l.length := by omega
  rw [this, List.take_length]


theorem win_empty {α : Type} (l : List α) (a b : Nat) (h : b < a) : win l a b = [] := by
  simp only [win]
  have : b + 1 - a = 0 := by omega
  rw [this]; rfl

/-! ### small windows -/

theorem seqMatch_two_keys (ok : Sig → Key → Bool) (a b : Sig) (ss : List Sig) (ka kb : Key) :
    seqMatch ok (a :: b :: ss) [ka, kb] = (ok a ka && ok b kb && ss.isEmpty) := by
  simp only [seqMatch]
  cases h1 : ok a ka <;> cases h2 : ok b kb <;> cases h3 : ok a kb <;> cases ss <;> simp [seqMatch]

/-! ### the invariant of the result loop -/

def measure (st : PState) : Nat := (st.k2 - st.k1) + st.out.length

structure Inv (ok : Sig → Key → Bool) (sigs : List Sig) (keys : List Key) (st : PState) : Prop where
  hk : st.k1 < st.k2
  hkn : st.k2 < keys.length
  hs : st.s1 < st.s2
  hsn : st.s2 < sigs.length
  hok : st.sigok = true
  ans : seqMatch ok sigs keys = seqMatch ok (win sigs st.s1 st.s2) (win keys st.k1 st.k2)
  shape :
    (st.out = [(st.k1, st.s1), (st.k2, st.s2)] ∨ st.out = [(st.k2, st.s2), (st.k1, st.s1)])
    ∨ (st.out = [(st.k2, st.s2)] ∧ st.s1 + 1 = st.s2 ∧
        ∃ a ka, sigs[st.s1]? = some a ∧ keys[st.k1]? = some ka ∧ ok a ka = true)
    ∨ (st.out = [(st.k1, st.s1)] ∧ st.s1 + 1 = st.s2 ∧
        ∃ b kb, sigs[st.s2]? = some b ∧ keys[st.k2]? = some kb ∧ ok b kb = true)

/-- what a step must deliver: the final answer, or a state that keeps the invariant and is smaller. -/
def Good (ok : Sig → Key → Bool) (sigs : List Sig) (keys : List Key) (μ : Nat) : StepRes → Prop
  | .done r => r = MRes.ofBool (seqMatch ok sigs keys)
  | .next st' => Inv ok sigs keys st' ∧ measure st' < μ


theorem fwd_deliver (ok : Sig → Key → Bool) (sigs : List Sig) (keys : List Key) (st : PState)
    (rest : List (Nat × Nat))
    (hk : st.k1 < st.k2) (hkn : st.k2 < keys.length) (hs : st.s1 < st.s2) (hsn : st.s2 < sigs.length)
    (hok : st.sigok = true)
    (ans : seqMatch ok sigs keys = seqMatch ok (win sigs st.s1 st.s2) (win keys st.k1 st.k2))
    (hrest : rest = [(st.k2, st.s2)] ∨ (rest = [] ∧ st.s1 + 1 = st.s2 ∧
        ∃ b kb, sigs[st.s2]? = some b ∧ keys[st.k2]? = some kb ∧ ok b kb = true)) :
    Good ok sigs keys ((st.k2 - st.k1) + rest.length + 1) (parDeliver ok sigs keys st st.k1 st.s1 rest) := by
  obtain ⟨k1, k2, s1, s2, sigok, out⟩ := st
  simp only at hk hkn hs hsn hok ans hrest ⊢
  subst hok
  obtain ⟨a, ha, hwa⟩ := win_cons sigs s1 s2 (Nat.le_of_lt hs) hsn
  obtain ⟨ka, hka, hwk⟩ := win_cons keys k1 k2 (Nat.le_of_lt hk) hkn
  obtain ⟨b, hb, hwb⟩ := win_cons sigs (s1 + 1) s2 (by omega) hsn
  have hne : (s1 == s2) = false := by simp; omega
  unfold parDeliver
  simp only [ha, hka, hne, Bool.not_false, Bool.and_true, if_true]
  by_cases hk1 : k1 + 1 = k2
  · -- the keys have met: the window has exactly two keys
    obtain ⟨kb, hkb, hwkb⟩ := win_self keys k2 hkn
    have hkw : win keys k1 k2 = [ka, kb] := by rw [hwk, hk1, hwkb]
    have hval : seqMatch ok sigs keys = (ok a ka && ok b kb && (win sigs (s1 + 1 + 1) s2).isEmpty) := by
      rw [ans, hwa, hwb, hkw, seqMatch_two_keys]
    have hk1' : (k1 + 1 == k2) = true := by simp [hk1]
    simp only [hk1', if_true]
    by_cases hadj : s1 + 1 = s2
    · have hadj' : (s1 + 1 == s2) = true := by simp [hadj]
      have hemp : (win sigs (s1 + 1 + 1) s2).isEmpty = true := by rw [win_empty _ _ _ (by omega)]; rfl
      simp only [hadj', Bool.and_true]
      rcases hrest with hr | ⟨hr, _, b', kb', hb', hkb', hokb⟩
      · subst hr
        cases hr : ok a ka
        · simp only [List.length_cons, List.length_nil, Bool.and_false, Bool.false_eq_true, if_false, Good]
          rw [hval, hr]; rfl
        · simp only [List.length_cons, List.length_nil, Bool.and_true, Good]
          refine ⟨⟨hk, hkn, hs, hsn, rfl, ans, Or.inr (Or.inl ⟨rfl, hadj, a, ka, ha, hka, hr⟩)⟩, ?_⟩
          simp [measure]
      · subst hr
        have e1 : b' = b := by rw [← hadj] at hb'; rw [hb] at hb'; exact (Option.some.inj hb').symm
        have e2 : kb' = kb := by rw [hkb] at hkb'; exact (Option.some.inj hkb').symm
        subst e1 e2
        simp only [List.length_nil, bne_self_eq_false, Bool.false_and, Bool.false_eq_true, if_false, Good]
        rw [hval, hokb, hemp]; simp
    · have hadj' : (s1 + 1 == s2) = false := by simp [hadj]
      have hlen : (win sigs (s1 + 1 + 1) s2).length = s2 + 1 - (s1 + 1 + 1) := win_length _ _ _ hsn
      have hemp : (win sigs (s1 + 1 + 1) s2).isEmpty = false := by
        cases hw : win sigs (s1 + 1 + 1) s2 with
        | nil => rw [hw] at hlen; simp at hlen; omega
        | cons _ _ => rfl
      simp only [hadj', Bool.and_false, Bool.false_eq_true, if_false, Good]
      rw [hval, hemp]; simp
  · have hk1' : (k1 + 1 == k2) = false := by simp [hk1]
    simp only [hk1', Bool.false_eq_true, if_false]
    have hk1n : k1 + 1 < keys.length := by omega
    have hkn1 : keys[k1 + 1]? = some keys[k1 + 1] := List.getElem?_eq_getElem hk1n
    simp only [hkn1, Bool.not_true, Bool.and_false, Bool.false_eq_true, if_false]
    by_cases hadj : s1 + 1 = s2
    · have hadj' : (s1 + 1 == s2) = true := by simp [hadj]
      simp only [hadj', Bool.and_true]
      cases hr : ok a ka
      · -- the signature did not verify: next key, same signature
        simp only [Bool.false_eq_true, if_false, Good]
        have hans : seqMatch ok sigs keys = seqMatch ok (win sigs s1 s2) (win keys (k1 + 1) k2) := by
          rw [ans, hwk, hwa, seqMatch, hr]; simp
        rcases hrest with hrr | ⟨hrr, _, hdone⟩
        · subst hrr
          refine ⟨⟨by dsimp only; omega, hkn, hs, hsn, rfl, hans, Or.inl (Or.inr rfl)⟩, ?_⟩
          simp [measure]; omega
        · subst hrr
          refine ⟨⟨by dsimp only; omega, hkn, hs, hsn, rfl, hans, Or.inr (Or.inr ⟨rfl, hadj, hdone⟩)⟩, ?_⟩
          simp [measure]; omega
      · -- verified and the signatures are adjacent: this direction is finished
        simp only [if_true]
        rcases hrest with hrr | ⟨hrr, _, b', kb', hb', hkb', hokb⟩
        · subst hrr
          simp only [List.length_cons, List.length_nil, Good]
          refine ⟨⟨hk, hkn, hs, hsn, rfl, ans, Or.inr (Or.inl ⟨rfl, hadj, a, ka, ha, hka, hr⟩)⟩, ?_⟩
          simp [measure]
        · subst hrr
          simp only [List.length_nil, bne_self_eq_false, Bool.false_eq_true, if_false, Good]
          -- both ends verified: the window is [a, b] against ka :: … ++ [kb]
          have e1 : b' = b := by rw [← hadj] at hb'; rw [hb] at hb'; exact (Option.some.inj hb').symm
          subst e1
          obtain ⟨kb, hkb, hwkb⟩ := win_snoc keys (k1 + 1) k2 (by omega) hkn
          have e2 : kb' = kb := by rw [hkb] at hkb'; exact (Option.some.inj hkb').symm
          subst e2
          have hemp : win sigs (s1 + 1 + 1) s2 = [] := win_empty _ _ _ (by omega)
          rw [ans, hwa, hwb, hemp, hwk, hwkb, seqMatch, hr]
          simp only [if_true]
          rw [seqMatch_single_of_last ok _ _ _ hokb]
    · have hadj' : (s1 + 1 == s2) = false := by simp [hadj]
      simp only [hadj', Bool.and_false, Bool.false_eq_true, if_false, Good]
      have hrr : rest = [(k2, s2)] := by
        rcases hrest with h | ⟨_, h, _⟩
        · exact h
        · exact absurd h hadj
      subst hrr
      cases hr : ok a ka
      · simp only [Bool.false_eq_true, if_false]
        have hans : seqMatch ok sigs keys = seqMatch ok (win sigs s1 s2) (win keys (k1 + 1) k2) := by
          rw [ans, hwk, hwa, seqMatch, hr]; simp
        refine ⟨⟨by dsimp only; omega, hkn, hs, hsn, rfl, hans, Or.inl (Or.inr rfl)⟩, ?_⟩
        simp [measure]; omega
      · simp only [if_true]
        have hans : seqMatch ok sigs keys = seqMatch ok (win sigs (s1 + 1) s2) (win keys (k1 + 1) k2) := by
          rw [ans, hwk, hwa, seqMatch, hr]; simp
        refine ⟨⟨by dsimp only; omega, hkn, by dsimp only; omega, hsn, rfl, hans, Or.inl (Or.inr rfl)⟩, ?_⟩
        simp [measure]; omega


theorem bwd_deliver (ok : Sig → Key → Bool) (sigs : List Sig) (keys : List Key) (st : PState)
    (rest : List (Nat × Nat))
    (hk : st.k1 < st.k2) (hkn : st.k2 < keys.length) (hs : st.s1 < st.s2) (hsn : st.s2 < sigs.length)
    (hok : st.sigok = true)
    (ans : seqMatch ok sigs keys = seqMatch ok (win sigs st.s1 st.s2) (win keys st.k1 st.k2))
    (hrest : rest = [(st.k1, st.s1)] ∨ (rest = [] ∧ st.s1 + 1 = st.s2 ∧
        ∃ a ka, sigs[st.s1]? = some a ∧ keys[st.k1]? = some ka ∧ ok a ka = true)) :
    Good ok sigs keys ((st.k2 - st.k1) + rest.length + 1) (parDeliver ok sigs keys st st.k2 st.s2 rest) := by
  obtain ⟨k1, k2, s1, s2, sigok, out⟩ := st
  simp only at hk hkn hs hsn hok ans hrest ⊢
  subst hok
  obtain ⟨a, ha, hwa⟩ := win_cons sigs s1 s2 (Nat.le_of_lt hs) hsn
  obtain ⟨ka, hka, hwk⟩ := win_cons keys k1 k2 (Nat.le_of_lt hk) hkn
  obtain ⟨b, hb, hws⟩ := win_snoc sigs s1 s2 hs hsn
  obtain ⟨kb, hkb, hwks⟩ := win_snoc keys k1 k2 hk hkn
  have hne : (s2 == s2) = true := by simp
  unfold parDeliver
  simp only [hb, hkb, hne, Bool.not_true, Bool.and_true, Bool.and_false, Bool.false_eq_true, if_false]
  by_cases hk1 : k1 + 1 = k2
  · obtain ⟨b', hb', hwb⟩ := win_cons sigs (s1 + 1) s2 (by omega) hsn
    obtain ⟨kb2, hkb2, hwkb⟩ := win_self keys k2 hkn
    have ekb : kb2 = kb := by rw [hkb] at hkb2; exact (Option.some.inj hkb2).symm
    subst ekb
    have hkw : win keys k1 k2 = [ka, kb2] := by rw [hwk, hk1, hwkb]
    have hval : seqMatch ok sigs keys = (ok a ka && ok b' kb2 && (win sigs (s1 + 1 + 1) s2).isEmpty) := by
      rw [ans, hwa, hwb, hkw, seqMatch_two_keys]
    have hk1' : (k1 + 1 == k2) = true := by simp [hk1]
    simp only [hk1', if_true]
    by_cases hadj : s1 + 1 = s2
    · have hadj' : (s1 + 1 == s2) = true := by simp [hadj]
      have hemp : (win sigs (s1 + 1 + 1) s2).isEmpty = true := by rw [win_empty _ _ _ (by omega)]; rfl
      have eb : b' = b := by rw [hadj, hb] at hb'; exact (Option.some.inj hb').symm
      subst eb
      simp only [hadj', Bool.and_true]
      rcases hrest with hr | ⟨hr, _, a', ka', ha', hka', hoka⟩
      · subst hr
        cases hr : ok b' kb2
        · simp only [List.length_cons, List.length_nil, Bool.and_false, Bool.false_eq_true, if_false, Good]
          rw [hval, hr]; simp
        · simp only [List.length_cons, List.length_nil, Bool.and_true, Good]
          refine ⟨⟨hk, hkn, hs, hsn, rfl, ans, Or.inr (Or.inr ⟨rfl, hadj, b', kb2, hb, hkb, hr⟩)⟩, ?_⟩
          simp [measure]
      · subst hr
        have e1 : a' = a := by rw [ha] at ha'; exact (Option.some.inj ha').symm
        have e2 : ka' = ka := by rw [hka] at hka'; exact (Option.some.inj hka').symm
        subst e1 e2
        simp only [List.length_nil, bne_self_eq_false, Bool.false_and, Bool.false_eq_true, if_false, Good]
        rw [hval, hoka, hemp]; simp
    · have hadj' : (s1 + 1 == s2) = false := by simp [hadj]
      have hlen : (win sigs (s1 + 1 + 1) s2).length = s2 + 1 - (s1 + 1 + 1) := win_length _ _ _ hsn
      have hemp : (win sigs (s1 + 1 + 1) s2).isEmpty = false := by
        cases hw : win sigs (s1 + 1 + 1) s2 with
        | nil => rw [hw] at hlen; simp at hlen; omega
        | cons _ _ => rfl
      simp only [hadj', Bool.and_false, Bool.false_eq_true, if_false, Good]
      rw [hval, hemp]; simp
  · have hk1' : (k1 + 1 == k2) = false := by simp [hk1]
    simp only [hk1', Bool.false_eq_true, if_false]
    have hk2n : k2 - 1 < keys.length := by omega
    have hkn1 : keys[k2 - 1]? = some keys[k2 - 1] := List.getElem?_eq_getElem hk2n
    simp only [hkn1]
    by_cases hadj : s1 + 1 = s2
    · have hadj' : (s1 + 1 == s2) = true := by simp [hadj]
      simp only [hadj', Bool.and_true]
      cases hr : ok b kb
      · simp only [Bool.false_eq_true, if_false, Good]
        have hans : seqMatch ok sigs keys = seqMatch ok (win sigs s1 s2) (win keys k1 (k2 - 1)) := by
          rw [ans, hwks]; conv => lhs; rw [hws, seqMatch_snoc, hr]
          simp [hws]
        rcases hrest with hrr | ⟨hrr, _, hdone⟩
        · subst hrr
          refine ⟨⟨by dsimp only; omega, by dsimp only; omega, hs, hsn, rfl, hans, Or.inl (Or.inl rfl)⟩, ?_⟩
          simp [measure]; omega
        · subst hrr
          refine ⟨⟨by dsimp only; omega, by dsimp only; omega, hs, hsn, rfl, hans, Or.inr (Or.inl ⟨rfl, hadj, hdone⟩)⟩, ?_⟩
          simp [measure]; omega
      · simp only [if_true]
        rcases hrest with hrr | ⟨hrr, _, a', ka', ha', hka', hoka⟩
        · subst hrr
          simp only [List.length_cons, List.length_nil, Good]
          refine ⟨⟨hk, hkn, hs, hsn, rfl, ans, Or.inr (Or.inr ⟨rfl, hadj, b, kb, hb, hkb, hr⟩)⟩, ?_⟩
          simp [measure]
        · subst hrr
          simp only [List.length_nil, bne_self_eq_false, Bool.false_eq_true, if_false, Good]
          have e1 : a' = a := by rw [ha] at ha'; exact (Option.some.inj ha').symm
          have e2 : ka' = ka := by rw [hka] at hka'; exact (Option.some.inj hka').symm
          subst e1 e2
          obtain ⟨b', hb', hwb⟩ := win_cons sigs (s1 + 1) s2 (by omega) hsn
          have eb : b' = b := by rw [hadj, hb] at hb'; exact (Option.some.inj hb').symm
          subst eb
          obtain ⟨kb', hkb', hwkb⟩ := win_snoc keys (k1 + 1) k2 (by omega) hkn
          have e3 : kb' = kb := by rw [hkb] at hkb'; exact (Option.some.inj hkb').symm
          subst e3
          have hemp : win sigs (s1 + 1 + 1) s2 = [] := win_empty _ _ _ (by omega)
          rw [ans, hwa, hwb, hemp, hwk, hwkb, seqMatch, hoka]
          simp only [if_true]
          rw [seqMatch_single_of_last ok _ _ _ hr]
    · have hadj' : (s1 + 1 == s2) = false := by simp [hadj]
      simp only [hadj', Bool.and_false, Bool.false_eq_true, if_false, Good]
      have hrr : rest = [(k1, s1)] := by
        rcases hrest with h | ⟨_, h, _⟩
        · exact h
        · exact absurd h hadj
      subst hrr
      cases hr : ok b kb
      · have hans : seqMatch ok sigs keys = seqMatch ok (win sigs s1 s2) (win keys k1 (k2 - 1)) := by
          rw [ans, hwks]; conv => lhs; rw [hws, seqMatch_snoc, hr]
          simp [hws]
        refine ⟨⟨by dsimp only; omega, by dsimp only; omega, hs, hsn, rfl, hans, Or.inl (Or.inl rfl)⟩, ?_⟩
        simp [measure]; omega
      · simp only [Bool.not_false, Bool.and_self, if_true]
        have hans : seqMatch ok sigs keys = seqMatch ok (win sigs s1 (s2 - 1)) (win keys k1 (k2 - 1)) := by
          rw [ans, hwks, hws, seqMatch_snoc, hr]; simp
        refine ⟨⟨by dsimp only; omega, by dsimp only; omega, by dsimp only; omega, by dsimp only; omega, rfl, hans, Or.inl (Or.inl rfl)⟩, ?_⟩
        simp [measure]; omega


/-- one iteration of the loop, whatever result the scheduler lets arrive, keeps the invariant and
makes progress, or returns the sequential answer. -/
theorem step_good (ok : Sig → Key → Bool) (sigs : List Sig) (keys : List Key) (st : PState)
    (inv : Inv ok sigs keys st) (c : Bool) :
    Good ok sigs keys (measure st) (parStep ok sigs keys c st) := by
  obtain ⟨hk, hkn, hs, hsn, hok, ans, shape⟩ := inv
  unfold parStep
  rcases shape with (h | h) | ⟨h, hadj, hd⟩ | ⟨h, hadj, hd⟩
  · -- both pending, forward task first in the list
    cases c
    · have := bwd_deliver ok sigs keys st [(st.k1, st.s1)] hk hkn hs hsn hok ans (Or.inl rfl)
      simpa [h, pick, measure] using this
    · have := fwd_deliver ok sigs keys st [(st.k2, st.s2)] hk hkn hs hsn hok ans (Or.inl rfl)
      simpa [h, pick, measure] using this
  · cases c
    · have := fwd_deliver ok sigs keys st [(st.k2, st.s2)] hk hkn hs hsn hok ans (Or.inl rfl)
      simpa [h, pick, measure] using this
    · have := bwd_deliver ok sigs keys st [(st.k1, st.s1)] hk hkn hs hsn hok ans (Or.inl rfl)
      simpa [h, pick, measure] using this
  · -- forward direction finished, only the backward task is outstanding
    have := bwd_deliver ok sigs keys st [] hk hkn hs hsn hok ans (Or.inr ⟨rfl, hadj, hd⟩)
    simpa [h, pick, measure] using this
  · have := fwd_deliver ok sigs keys st [] hk hkn hs hsn hok ans (Or.inr ⟨rfl, hadj, hd⟩)
    simpa [h, pick, measure] using this

theorem parLoop_eq (ok : Sig → Key → Bool) (sigs : List Sig) (keys : List Key) :
    ∀ (fuel : Nat) (σ : Nat → Bool) (st : PState), Inv ok sigs keys st → measure st ≤ fuel →
      parLoop ok sigs keys fuel σ st = MRes.ofBool (seqMatch ok sigs keys) := by
  intro fuel
  induction fuel with
  | zero =>
    intro σ st inv hm
    have := inv.hk
    simp only [measure] at hm; omega
  | succ fuel ih =>
    intro σ st inv hm
    have hg := step_good ok sigs keys st inv (σ 0)
    unfold parLoop
    cases hstep : parStep ok sigs keys (σ 0) st with
    | done r => rw [hstep] at hg; exact hg
    | next st' =>
      rw [hstep] at hg
      exact ih _ st' hg.1 (by have := hg.2; omega)

theorem single_eq (ok : Sig → Key → Bool) (bad : Key → Bool) (s : Sig) :
    ∀ keys : List Key, keys.any bad = false → single ok bad s keys = MRes.ofBool (seqMatch ok [s] keys) := by
  intro keys
  induction keys with
  | nil => intro _; rfl
  | cons k ks ih =>
    intro hb
    simp only [List.any_cons, Bool.or_eq_false_iff] at hb
    simp only [single, hb.1, Bool.false_eq_true, if_false, seqMatch]
    cases h : ok s k
    · simp only [Bool.false_eq_true, if_false]; exact ih hb.2
    · simp only [if_true]; cases ks <;> rfl

theorem parInit_inv (ok : Sig → Key → Bool) (bad : Key → Bool) (sigs : List Sig) (keys : List Key)
    (hm : 2 ≤ sigs.length) (hn : sigs.length ≤ keys.length) (hb : keys.any bad = false) :
    ∃ st, parInit bad sigs keys = .next st ∧ Inv ok sigs keys st ∧ measure st ≤ keys.length + 2 := by
  have h0 : keys[0]? = some keys[0] := List.getElem?_eq_getElem (by omega)
  have h1 : keys[keys.length - 1]? = some keys[keys.length - 1] := List.getElem?_eq_getElem (by omega)
  refine ⟨{ k1 := 0, k2 := keys.length - 1, s1 := 0, s2 := sigs.length - 1, sigok := true,
            out := [(0, 0), (keys.length - 1, sigs.length - 1)] }, ?_, ?_, ?_⟩
  · simp [parInit, hb, h0, h1]
  · refine ⟨by dsimp only; omega, by dsimp only; omega, by dsimp only; omega, by dsimp only; omega, rfl, ?_, Or.inl (Or.inl rfl)⟩
    dsimp only
    rw [win_full sigs (by omega), win_full keys (by omega)]
  · simp [measure]


theorem par_eq_seq_aux (ok : Sig → Key → Bool) (bad : Key → Bool) (sigs : List Sig) (keys : List Key)
    (hm : 1 ≤ sigs.length) (hn : sigs.length ≤ keys.length) (hb : keys.any bad = false) (σ : Nat → Bool) :
    checkMultisigPar ok bad σ sigs keys = MRes.ofBool (seqMatch ok sigs keys) := by
  unfold checkMultisigPar
  have hg : (sigs.isEmpty || decide (keys.length < sigs.length)) = false := by
    cases sigs with
    | nil => simp at hm
    | cons _ _ => simp; omega
  simp only [hg, Bool.false_eq_true, if_false]
  match sigs, hm, hn with
  | [s], _, _ => exact single_eq ok bad s keys hb
  | s :: t :: r, _, hn =>
    obtain ⟨st, hinit, inv, hmeas⟩ := parInit_inv ok bad (s :: t :: r) keys (by simp) hn hb
    simp only [hinit]
    exact parLoop_eq ok _ keys _ σ st inv hmeas

theorem par_bad_aux (ok : Sig → Key → Bool) (bad : Key → Bool) (sigs : List Sig) (keys : List Key)
    (hm : 2 ≤ sigs.length) (hn : sigs.length ≤ keys.length) (hb : keys.any bad = true) (σ : Nat → Bool) :
    checkMultisigPar ok bad σ sigs keys = MRes.panic := by
  unfold checkMultisigPar
  have hg : (sigs.isEmpty || decide (keys.length < sigs.length)) = false := by
    cases sigs with
    | nil => simp at hm
    | cons _ _ => simp; omega
  simp only [hg, Bool.false_eq_true, if_false]
  match sigs, hm with
  | [s], hm => simp at hm
  | s :: t :: r, _ => simp [parInit, hb]

theorem par_independent_aux (ok : Sig → Key → Bool) (bad : Key → Bool) (sigs : List Sig) (keys : List Key)
    (σ σ' : Nat → Bool) :
    checkMultisigPar ok bad σ sigs keys = checkMultisigPar ok bad σ' sigs keys := by
  by_cases hg : (sigs.isEmpty || decide (keys.length < sigs.length)) = true
  · unfold checkMultisigPar; simp only [hg, if_true]
  · have hg' : (sigs.isEmpty || decide (keys.length < sigs.length)) = false := by simpa using hg
    have hm : 1 ≤ sigs.length := by
      cases sigs with
      | nil => simp at hg'
      | cons _ _ => simp
    have hn : sigs.length ≤ keys.length := by
      simp only [Bool.or_eq_false_iff, decide_eq_false_iff_not] at hg'; omega
    match sigs, hm, hn, hg' with
    | [s], _, _, hg' => unfold checkMultisigPar; simp only [hg', Bool.false_eq_true, if_false]
    | s :: t :: r, _, hn, _ =>
      cases hb : keys.any bad
      · rw [par_eq_seq_aux ok bad _ keys (by simp) hn hb σ, par_eq_seq_aux ok bad _ keys (by simp) hn hb σ']
      · rw [par_bad_aux ok bad _ keys (by simp) hn hb σ, par_bad_aux ok bad _ keys (by simp) hn hb σ']

end NeoModel.Codec
