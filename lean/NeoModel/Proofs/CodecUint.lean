/-
Helper lemmas for C18 / Uint160, Uint256 codecs: hex encoding round trip.
-/
import NeoModel.Model.Codec.Uint
namespace NeoModel.Codec

theorem hexVal_hexDigit : ∀ n : Fin 16, hexValB (hexDigitB n.val) = some n.val := by decide

theorem hexEncB_length (b : Bytes) : (hexEncB b).length = 2 * b.length := by
  induction b with
  | nil => rfl
  | cons x xs ih => simp only [hexEncB, List.length_cons, ih]; omega

theorem hexDec_hexEnc (b : Bytes) : hexDecB (hexEncB b) = some b := by
  induction b with
  | nil => rfl
  | cons x xs ih =>
    have hx := x.toNat_lt
    have h1 := hexVal_hexDigit ⟨x.toNat / 16, by omega⟩
    have h2 := hexVal_hexDigit ⟨x.toNat % 16, by omega⟩
    simp only at h1 h2
    simp only [hexEncB, hexDecB, h1, h2, ih]
    have : x.toNat / 16 * 16 + x.toNat % 16 = x.toNat := by omega
    rw [this]
    simp

theorem uDecodeStringBE_stringBE (size : Nat) (u : Bytes) (h : u.length = size) :
    uDecodeStringBE size (uStringBE u) = some u := by
  simp [uDecodeStringBE, uStringBE, uBytesBE, hexEncB_length, hexDec_hexEnc, uDecodeBytesBE, h, Nat.mul_comm]

theorem uDecodeStringLE_stringLE (size : Nat) (u : Bytes) (h : u.length = size) :
    uDecodeStringLE size (uStringLE u) = some u := by
  simp [uDecodeStringLE, uStringLE, uBytesLE, hexEncB_length, hexDec_hexEnc, uDecodeBytesLE, h, Nat.mul_comm]

theorem uDecodeBytes_roundtrip (size : Nat) (u : Bytes) (h : u.length = size) :
    uDecodeBytesBE size (uBytesBE u) = some u ∧ uDecodeBytesLE size (uBytesLE u) = some u := by
  simp [uDecodeBytesBE, uDecodeBytesLE, uBytesBE, uBytesLE, h]

theorem uDecode_wrong_length (size : Nat) (b : Bytes) (h : b.length ≠ size) :
    uDecodeBytesBE size b = none ∧ uDecodeBytesLE size b = none := by
  simp [uDecodeBytesBE, uDecodeBytesLE, h]

end NeoModel.Codec
