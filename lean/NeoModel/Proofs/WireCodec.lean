/-
C17 — lawfulness of the codec combinators (proved once per combinator). Core Lean only.
-/
import NeoModel.Model.Wire.Codec
import NeoModel.Proofs.WireVarUint
namespace NeoModel.Wire

namespace Codec
variable {α β : Type}

/-! ### generic consequences (proved once) -/

theorem Lawful.reencode_stable {c : Codec α} (h : c.Lawful) {b : Bytes} {v : α} {r : Bytes}
    (hd : c.dec b = some (v, r)) : c.wf v ∧ c.dec (c.enc v) = some (v, []) := by
  have hw := h.dec_wf b v r hd
  refine ⟨hw, ?_⟩
  have := h.roundtrip v [] hw
  simpa using this

theorem Lawful.dec_len {c : Codec α} (h : c.Lawful) {b : Bytes} {v : α} {r : Bytes}
    (hd : c.dec b = some (v, r)) : r.length ≤ b.length := by
  obtain ⟨p, hp⟩ := h.dec_suffix b v r hd
  subst hp; simp

theorem Lawful.alloc_le {c : Codec α} (h : c.Lawful) (b : Bytes) :
    c.alloc b ≤ c.allocK * b.length + c.allocC := by
  cases hd : c.dec b with
  | none => exact h.alloc_fail b hd
  | some p =>
    obtain ⟨v, r⟩ := p
    have h1 := h.alloc_ok b v r hd
    have : c.allocK * (b.length - r.length) ≤ c.allocK * b.length := Nat.mul_le_mul_left _ (Nat.sub_le _ _)
    omega

/-- the encoding of a well-formed value determines it (so comparing encodings compares values). -/
theorem Lawful.enc_inj {c : Codec α} (h : c.Lawful) {v w : α} (hv : c.wf v) (hw : c.wf w)
    (he : c.enc v = c.enc w) : v = w := by
  have h1 := h.roundtrip v [] hv
  have h2 := h.roundtrip w [] hw
  rw [he] at h1
  rw [h1] at h2
  cases h2; rfl

/-! ### primitives -/

theorem byte_lawful : byte.Lawful where
  roundtrip v r _ := rfl
  dec_wf _ _ _ _ := trivial
  dec_suffix b v r h := by
    cases b with
    | nil => simp [byte] at h
    | cons x xs => simp [byte] at h; exact ⟨[x], by simp [h.1.symm, h.2.symm]⟩
  size_eq _ _ := rfl
  alloc_ok _ _ _ _ := by simp [byte]
  alloc_fail _ _ := by simp [byte]

theorem byte_strict : byte.Strict := by
  intro b v r h
  cases b with
  | nil => simp [byte] at h
  | cons x xs => simp [byte] at h; simp [← h.2]

theorem takeN_append (v r : Bytes) : takeN v.length (v ++ r) = some (v, r) := by
  simp [takeN]

theorem takeN_some {n : Nat} {b x r : Bytes} (h : takeN n b = some (x, r)) :
    x.length = n ∧ b = x ++ r := by
  simp only [takeN] at h
  split at h
  · rename_i hl
    simp at h
    obtain ⟨h1, h2⟩ := h
    subst h1 h2
    exact ⟨hl, by simp⟩
  · simp at h

theorem fixed_lawful (n : Nat) : (fixed n).Lawful where
  roundtrip v r h := by
    simp only [fixed] at h ⊢
    rw [← h]; exact takeN_append v r
  dec_wf b v r h := (takeN_some h).1
  dec_suffix b v r h := ⟨v, (takeN_some h).2⟩
  size_eq v h := by simp only [fixed] at h ⊢; exact h.symm
  alloc_ok _ _ _ _ := by simp [fixed]
  alloc_fail _ _ := by simp [fixed]

theorem fixed_strict (n : Nat) (hn : 0 < n) : (fixed n).Strict := by
  intro b v r h
  obtain ⟨h1, h2⟩ := takeN_some h
  subst h2; simp; omega

theorem uintLE_lawful (n : Nat) : (uintLE n).Lawful where
  roundtrip v r h := by
    simp only [uintLE] at h ⊢
    have hl : (leBytes n v).length = n := leBytes_length n v
    have := takeN_append (leBytes n v) r
    rw [hl] at this
    simp [this, leVal_leBytes n v h]
  dec_wf b v r h := by
    simp only [uintLE, Option.map_eq_some_iff] at h ⊢
    obtain ⟨⟨x, r'⟩, hx, he⟩ := h
    simp at he
    obtain ⟨h1, h2⟩ := takeN_some hx
    rw [← he.1, ← h1]; exact leVal_lt x
  dec_suffix b v r h := by
    simp only [uintLE, Option.map_eq_some_iff] at h
    obtain ⟨⟨x, r'⟩, hx, he⟩ := h
    simp at he
    exact ⟨x, by rw [← he.2]; exact (takeN_some hx).2⟩
  size_eq v _ := by simp [uintLE, leBytes_length]
  alloc_ok _ _ _ _ := by simp [uintLE]
  alloc_fail _ _ := by simp [uintLE]

theorem uintLE_strict (n : Nat) (hn : 0 < n) : (uintLE n).Strict := by
  intro b v r h
  simp only [uintLE, Option.map_eq_some_iff] at h
  obtain ⟨⟨x, r'⟩, hx, he⟩ := h
  simp at he
  obtain ⟨h1, h2⟩ := takeN_some hx
  subst h2; rw [← he.2]; simp; omega


/-! ### var-uint and var-bytes -/

theorem readVarUint_suffix {b : Bytes} {v : Nat} {r : Bytes} (h : readVarUint b = some (v, r)) :
    (∃ p, b = p ++ r) ∧ r.length < b.length ∧ v < 2 ^ 64 := by
  cases b with
  | nil => simp [readVarUint] at h
  | cons x xs =>
    simp only [readVarUint] at h
    split at h
    · simp only [Option.map_eq_some_iff] at h
      obtain ⟨⟨y, r'⟩, hy, he⟩ := h
      simp at he
      obtain ⟨h1, h2⟩ := takeN_some hy
      have := leVal_lt y
      rw [h1] at this
      subst h2
      refine ⟨⟨x :: y, by simp [he.2]⟩, by rw [← he.2]; simp; omega, by rw [← he.1]; omega⟩
    · split at h
      · simp only [Option.map_eq_some_iff] at h
        obtain ⟨⟨y, r'⟩, hy, he⟩ := h
        simp at he
        obtain ⟨h1, h2⟩ := takeN_some hy
        have := leVal_lt y
        rw [h1] at this
        subst h2
        refine ⟨⟨x :: y, by simp [he.2]⟩, by rw [← he.2]; simp; omega, by rw [← he.1]; omega⟩
      · split at h
        · simp only [Option.map_eq_some_iff] at h
          obtain ⟨⟨y, r'⟩, hy, he⟩ := h
          simp at he
          obtain ⟨h1, h2⟩ := takeN_some hy
          have := leVal_lt y
          rw [h1] at this
          subst h2
          refine ⟨⟨x :: y, by simp [he.2]⟩, by rw [← he.2]; simp; omega, by rw [← he.1]; omega⟩
        · simp at h
          have := x.toNat_lt
          refine ⟨⟨[x], by simp [h.2]⟩, by rw [← h.2]; simp, by rw [← h.1]; omega⟩

theorem varUint_lawful : varUint.Lawful where
  roundtrip v r h := readVarUint_putVarUint v r h
  dec_wf b v r h := (readVarUint_suffix h).2.2
  dec_suffix b v r h := (readVarUint_suffix h).1
  size_eq _ _ := rfl
  alloc_ok _ _ _ _ := by simp [varUint]
  alloc_fail _ _ := by simp [varUint]

theorem varUint_strict : varUint.Strict := fun _ _ _ h => (readVarUint_suffix h).2.1

theorem varBytes_lawful (max : Nat) : (varBytes max).Lawful where
  roundtrip v r h := by
    simp only [varBytes] at h ⊢
    rw [List.append_assoc, readVarUint_putVarUint _ _ h.2]
    simp only [show ¬ v.length > max by omega, if_false]
    exact takeN_append v r
  dec_wf b v r h := by
    simp only [varBytes] at h ⊢
    split at h
    · simp at h
    · rename_i n r' hr
      split at h
      · simp at h
      · obtain ⟨h1, h2⟩ := takeN_some h
        have := (readVarUint_suffix hr).2.2
        omega
  dec_suffix b v r h := by
    simp only [varBytes] at h
    split at h
    · simp at h
    · rename_i n r' hr
      split at h
      · simp at h
      · obtain ⟨h1, h2⟩ := takeN_some h
        obtain ⟨p, hp⟩ := (readVarUint_suffix hr).1
        exact ⟨p ++ v, by rw [hp, h2]; simp⟩
  size_eq v _ := by simp [varBytes]
  alloc_ok b v r h := by
    simp only [varBytes] at h ⊢
    split at h
    · simp at h
    · rename_i n r' hr
      split at h
      · simp at h
      · rename_i hn
        simp only [hn, if_false]
        obtain ⟨h1, h2⟩ := takeN_some h
        have := (readVarUint_suffix hr).2.1
        subst h2
        simp at this ⊢
        omega
  alloc_fail b h := by
    simp only [varBytes] at h ⊢
    split
    · omega
    · split <;> omega

theorem varBytes_strict (max : Nat) : (varBytes max).Strict := by
  intro b v r h
  simp only [varBytes] at h
  split at h
  · simp at h
  · rename_i n r' hr
    split at h
    · simp at h
    · obtain ⟨h1, h2⟩ := takeN_some h
      have := (readVarUint_suffix hr).2.1
      subst h2
      simp at this
      omega

/-! ### structure: constant, failure, dependent pair, map, refinement -/

theorem const_lawful (d : α) : (const d).Lawful where
  roundtrip v r h := by simp only [const] at h ⊢; simp [h]
  dec_wf b v r h := by simp only [const] at h ⊢; simp at h; exact h.1.symm
  dec_suffix b v r h := by simp only [const] at h; simp at h; exact ⟨[], by simp [h.2]⟩
  size_eq _ _ := rfl
  alloc_ok _ _ _ _ := by simp [const]
  alloc_fail _ _ := by simp [const]

theorem fail_lawful (d : α) : (fail d).Lawful where
  roundtrip _ _ h := h.elim
  dec_wf _ _ _ h := by simp [fail] at h
  dec_suffix _ _ _ h := by simp [fail] at h
  size_eq _ h := h.elim
  alloc_ok _ _ _ _ := by simp [fail]
  alloc_fail _ _ := by simp [fail]

theorem alloc_add {K₁ K₂ a b c x y : Nat} (hx : x ≤ K₁ * (a - b)) (hy : y ≤ K₂ * (b - c))
    (hcb : c ≤ b) (hba : b ≤ a) : x + y ≤ Nat.max K₁ K₂ * (a - c) := by
  have h1 : K₁ * (a - b) ≤ Nat.max K₁ K₂ * (a - b) := Nat.mul_le_mul_right _ (Nat.le_max_left _ _)
  have h2 : K₂ * (b - c) ≤ Nat.max K₁ K₂ * (b - c) := Nat.mul_le_mul_right _ (Nat.le_max_right _ _)
  have h3 : Nat.max K₁ K₂ * (a - b) + Nat.max K₁ K₂ * (b - c) = Nat.max K₁ K₂ * (a - c) := by
    rw [← Nat.left_distrib]; congr 1; omega
  omega

theorem bind_lawful {c₁ : Codec α} {f : α → Codec β} {K C : Nat} (h₁ : c₁.Lawful)
    (h₂ : ∀ a, (f a).Lawful) (hK : ∀ a, (f a).allocK ≤ K) (hC : ∀ a, (f a).allocC ≤ C) :
    (bind c₁ f K C).Lawful where
  roundtrip p r h := by
    obtain ⟨a, x⟩ := p
    simp only [bind] at h ⊢
    rw [List.append_assoc, h₁.roundtrip a _ h.1]
    simp only
    rw [(h₂ a).roundtrip x r h.2]
  dec_wf b p r h := by
    simp only [bind] at h ⊢
    split at h
    · simp at h
    · rename_i a r₁ h1
      split at h
      · simp at h
      · rename_i x r₂ h2
        simp at h
        obtain ⟨hp, hr⟩ := h
        subst hp
        exact ⟨h₁.dec_wf _ _ _ h1, (h₂ a).dec_wf _ _ _ h2⟩
  dec_suffix b p r h := by
    simp only [bind] at h
    split at h
    · simp at h
    · rename_i a r₁ h1
      split at h
      · simp at h
      · rename_i x r₂ h2
        simp at h
        obtain ⟨hp, hr⟩ := h
        subst hr
        obtain ⟨p₁, e₁⟩ := h₁.dec_suffix _ _ _ h1
        obtain ⟨p₂, e₂⟩ := (h₂ a).dec_suffix _ _ _ h2
        exact ⟨p₁ ++ p₂, by rw [e₁, e₂]; simp⟩
  size_eq p h := by
    simp only [bind] at h ⊢
    rw [h₁.size_eq _ h.1, (h₂ _).size_eq _ h.2]; simp
  alloc_ok b p r h := by
    simp only [bind] at h ⊢
    split at h
    · simp at h
    · rename_i a r₁ h1
      split at h
      · simp at h
      · rename_i x r₂ h2
        simp at h
        obtain ⟨hp, hr⟩ := h
        subst hr
        have a1 := h₁.alloc_ok _ _ _ h1
        have a2 := (h₂ a).alloc_ok _ _ _ h2
        have l1 := h₁.dec_len h1
        have l2 := (h₂ a).dec_len h2
        have a2' : (f a).alloc r₁ ≤ K * (r₁.length - r₂.length) :=
          Nat.le_trans a2 (Nat.mul_le_mul_right _ (hK a))
        exact alloc_add a1 a2' l2 l1
  alloc_fail b h := by
    simp only [bind] at h ⊢
    cases h1 : c₁.dec b with
    | none =>
      simp only [Nat.add_zero]
      have := h₁.alloc_fail b h1
      have hk : c₁.allocK * b.length ≤ Nat.max c₁.allocK K * b.length :=
        Nat.mul_le_mul_right _ (Nat.le_max_left _ _)
      have hc : c₁.allocC ≤ Nat.max c₁.allocC C := Nat.le_max_left _ _
      omega
    | some q =>
      obtain ⟨a, r₁⟩ := q
      rw [h1] at h
      simp only at h ⊢
      have h2 : (f a).dec r₁ = none := by
        cases hx : (f a).dec r₁ with
        | none => rfl
        | some y => rw [hx] at h; simp at h
      have a1 := h₁.alloc_ok _ _ _ h1
      have a2 := (h₂ a).alloc_fail _ h2
      have l1 := h₁.dec_len h1
      have a2' : (f a).alloc r₁ ≤ K * (r₁.length - 0) + C := by
        have := Nat.mul_le_mul_right r₁.length (hK a)
        have := hC a
        simp; omega
      have hc : C ≤ Nat.max c₁.allocC C := Nat.le_max_right _ _
      have a3 : (f a).alloc r₁ ≤ K * r₁.length + C := by simpa using a2'
      have hk : K * r₁.length ≤ Nat.max c₁.allocK K * r₁.length :=
        Nat.mul_le_mul_right _ (Nat.le_max_right _ _)
      have hk1 : c₁.allocK * (b.length - r₁.length) ≤ Nat.max c₁.allocK K * (b.length - r₁.length) :=
        Nat.mul_le_mul_right _ (Nat.le_max_left _ _)
      have hsum : Nat.max c₁.allocK K * (b.length - r₁.length) + Nat.max c₁.allocK K * r₁.length
          = Nat.max c₁.allocK K * b.length := by
        rw [← Nat.left_distrib]; congr 1; omega
      omega

theorem seq_lawful {c₁ : Codec α} {c₂ : Codec β} (h₁ : c₁.Lawful) (h₂ : c₂.Lawful) : (seq c₁ c₂).Lawful :=
  bind_lawful h₁ (fun _ => h₂) (fun _ => Nat.le_refl _) (fun _ => Nat.le_refl _)

theorem bind_strict_left {c₁ : Codec α} {f : α → Codec β} {K C : Nat} (s₁ : c₁.Strict)
    (h₂ : ∀ a, (f a).Lawful) : (bind c₁ f K C).Strict := by
  intro b p r h
  simp only [bind] at h
  split at h
  · simp at h
  · rename_i a r₁ h1
    split at h
    · simp at h
    · rename_i x r₂ h2
      simp at h
      have := s₁ _ _ _ h1
      have := (h₂ a).dec_len h2
      rw [← h.2]; omega

theorem seq_strict_left {c₁ : Codec α} {c₂ : Codec β} (s₁ : c₁.Strict) (h₂ : c₂.Lawful) :
    (seq c₁ c₂).Strict := bind_strict_left s₁ (fun _ => h₂)

theorem map_lawful {c : Codec α} {f : α → β} {g : β → α} (h : c.Lawful)
    (hgf : ∀ a, c.wf a → g (f a) = a) : (map c f g).Lawful where
  roundtrip v r hw := by
    simp only [map] at hw ⊢
    rw [h.roundtrip _ r hw.1]; simp [hw.2]
  dec_wf b v r hd := by
    simp only [map, Option.map_eq_some_iff] at hd ⊢
    obtain ⟨⟨a, r'⟩, ha, he⟩ := hd
    simp at he
    have hw := h.dec_wf _ _ _ ha
    rw [← he.1, hgf a hw]; exact ⟨hw, rfl⟩
  dec_suffix b v r hd := by
    simp only [map, Option.map_eq_some_iff] at hd
    obtain ⟨⟨a, r'⟩, ha, he⟩ := hd
    simp at he
    rw [← he.2]; exact h.dec_suffix _ _ _ ha
  size_eq v hw := h.size_eq _ hw.1
  alloc_ok b v r hd := by
    simp only [map, Option.map_eq_some_iff] at hd ⊢
    obtain ⟨⟨a, r'⟩, ha, he⟩ := hd
    simp at he
    rw [← he.2]; exact h.alloc_ok _ _ _ ha
  alloc_fail b hd := by
    simp only [map, Option.map_eq_none_iff] at hd ⊢
    exact h.alloc_fail b hd

theorem map_strict {c : Codec α} {f : α → β} {g : β → α} (s : c.Strict) : (map c f g).Strict := by
  intro b v r hd
  simp only [map, Option.map_eq_some_iff] at hd
  obtain ⟨⟨a, r'⟩, ha, he⟩ := hd
  simp at he
  rw [← he.2]; exact s _ _ _ ha

theorem refine_lawful {c : Codec α} {p : α → Bool} (h : c.Lawful) : (refine c p).Lawful where
  roundtrip v r hw := by
    simp only [refine] at hw ⊢
    rw [h.roundtrip _ r hw.1]; simp [hw.2]
  dec_wf b v r hd := by
    simp only [refine] at hd ⊢
    split at hd
    · simp at hd
    · rename_i v' r' h1
      split at hd
      · rename_i hp
        simp at hd
        rw [← hd.1]; exact ⟨h.dec_wf _ _ _ h1, hp⟩
      · simp at hd
  dec_suffix b v r hd := by
    simp only [refine] at hd
    split at hd
    · simp at hd
    · rename_i v' r' h1
      split at hd
      · simp at hd
        rw [← hd.2]; exact h.dec_suffix _ _ _ h1
      · simp at hd
  size_eq v hw := h.size_eq _ hw.1
  alloc_ok b v r hd := by
    simp only [refine] at hd ⊢
    split at hd
    · simp at hd
    · rename_i v' r' h1
      split at hd
      · simp at hd
        rw [← hd.2]; exact h.alloc_ok _ _ _ h1
      · simp at hd
  alloc_fail b hd := by
    simp only [refine] at hd ⊢
    cases h1 : c.dec b with
    | none => exact h.alloc_fail b h1
    | some q =>
      obtain ⟨v, r⟩ := q
      have := h.alloc_ok _ _ _ h1
      have : c.allocK * (b.length - r.length) ≤ c.allocK * b.length :=
        Nat.mul_le_mul_left _ (Nat.sub_le _ _)
      omega

theorem refine_strict {c : Codec α} {p : α → Bool} (s : c.Strict) : (refine c p).Strict := by
  intro b v r hd
  simp only [refine] at hd
  split at hd
  · simp at hd
  · rename_i v' r' h1
    split at hd
    · simp at hd
      rw [← hd.2]; exact s _ _ _ h1
    · simp at hd


/-! ### sum types: a tag byte selects the codec of the body -/

theorem tagged_lawful {tag : α → UInt8} {br : UInt8 → Codec α} {K C : Nat}
    (h : ∀ t, (br t).Lawful) (hK : ∀ t, (br t).allocK ≤ K) (hC : ∀ t, (br t).allocC ≤ C) :
    (tagged tag br K C).Lawful where
  roundtrip v r hw := by
    simp only [tagged] at hw ⊢
    simp only [List.cons_append]
    rw [(h _).roundtrip v r hw]; simp
  dec_wf b v r hd := by
    simp only [tagged] at hd ⊢
    split at hd
    · simp at hd
    · rename_i t r₀
      split at hd
      · simp at hd
      · rename_i v' r' h1
        split at hd
        · rename_i ht
          simp at hd
          rw [← hd.1, ht]; exact (h t).dec_wf _ _ _ h1
        · simp at hd
  dec_suffix b v r hd := by
    simp only [tagged] at hd
    split at hd
    · simp at hd
    · rename_i t r₀
      split at hd
      · simp at hd
      · rename_i v' r' h1
        split at hd
        · simp at hd
          obtain ⟨p, hp⟩ := (h t).dec_suffix _ _ _ h1
          exact ⟨t :: p, by rw [hp, ← hd.2]; simp⟩
        · simp at hd
  size_eq v hw := by
    simp only [tagged] at hw ⊢
    rw [(h _).size_eq v hw]; simp; omega
  alloc_ok b v r hd := by
    simp only [tagged] at hd ⊢
    split at hd
    · simp at hd
    · rename_i t r₀
      split at hd
      · simp at hd
      · rename_i v' r' h1
        split at hd
        · simp at hd
          have a1 := (h t).alloc_ok _ _ _ h1
          have l1 := (h t).dec_len h1
          have := Nat.mul_le_mul_right (r₀.length - r'.length) (hK t)
          have : K * (r₀.length - r'.length) ≤ K * ((t :: r₀).length - r.length) := by
            apply Nat.mul_le_mul_left; rw [← hd.2]; simp; omega
          omega
        · simp at hd
  alloc_fail b hd := by
    simp only [tagged] at hd ⊢
    split
    · omega
    · rename_i t r₀
      have := (h t).alloc_le r₀
      have := Nat.mul_le_mul_right r₀.length (hK t)
      have := hC t
      have : K * r₀.length ≤ K * (t :: r₀).length := by apply Nat.mul_le_mul_left; simp
      omega

theorem tagged_strict {tag : α → UInt8} {br : UInt8 → Codec α} {K C : Nat}
    (h : ∀ t, (br t).Lawful) : (tagged tag br K C).Strict := by
  intro b v r hd
  simp only [tagged] at hd
  split at hd
  · simp at hd
  · rename_i t r₀
    split at hd
    · simp at hd
    · rename_i v' r' h1
      split at hd
      · simp at hd
        have := (h t).dec_len h1
        rw [← hd.2]; simp; omega
      · simp at hd

/-! ### arrays -/

theorem decN_encL {c : Codec α} (h : c.Lawful) (l : List α) (r : Bytes) (hw : ∀ x ∈ l, c.wf x) :
    decN c l.length (encL c l ++ r) = some (l, r) := by
  induction l with
  | nil => simp [decN, encL]
  | cons a as ih =>
    simp only [List.length_cons, decN, encL, List.append_assoc]
    rw [h.roundtrip a _ (hw a (by simp))]
    simp only
    rw [ih (fun x hx => hw x (by simp [hx]))]

theorem decN_spec {c : Codec α} (h : c.Lawful) : ∀ (n : Nat) (b : Bytes) (l : List α) (r : Bytes),
    decN c n b = some (l, r) → l.length = n ∧ (∀ x ∈ l, c.wf x) ∧ (∃ p, b = p ++ r) ∧ r.length ≤ b.length := by
  intro n
  induction n with
  | zero =>
    intro b l r hd
    simp [decN] at hd
    obtain ⟨h1, h2⟩ := hd
    subst h1 h2
    exact ⟨rfl, by simp, ⟨[], by simp⟩, Nat.le_refl _⟩
  | succ n ih =>
    intro b l r hd
    simp only [decN] at hd
    split at hd
    · simp at hd
    · rename_i a r₁ h1
      split at hd
      · simp at hd
      · rename_i as r₂ h2
        simp at hd
        obtain ⟨hl, hr⟩ := hd
        subst hl hr
        obtain ⟨i1, i2, ⟨p₂, e₂⟩, i4⟩ := ih _ _ _ h2
        obtain ⟨p₁, e₁⟩ := h.dec_suffix _ _ _ h1
        have l1 := h.dec_len h1
        refine ⟨by simp [i1], ?_, ⟨p₁ ++ p₂, by rw [e₁, e₂]; simp⟩, by omega⟩
        intro x hx
        simp at hx
        rcases hx with hx | hx
        · rw [hx]; exact h.dec_wf _ _ _ h1
        · exact i2 x hx

theorem decN_strict {c : Codec α} (s : c.Strict) : ∀ (n : Nat) (b : Bytes) (l : List α) (r : Bytes),
    decN c n b = some (l, r) → n + r.length ≤ b.length := by
  intro n
  induction n with
  | zero =>
    intro b l r hd
    simp [decN] at hd
    rw [hd.2]; omega
  | succ n ih =>
    intro b l r hd
    simp only [decN] at hd
    split at hd
    · simp at hd
    · rename_i a r₁ h1
      split at hd
      · simp at hd
      · rename_i as r₂ h2
        simp at hd
        have := s _ _ _ h1
        have := ih _ _ _ h2
        rw [← hd.2]; omega

theorem sizeL_eq {c : Codec α} (h : c.Lawful) (l : List α) (hw : ∀ x ∈ l, c.wf x) :
    sizeL c l = (encL c l).length := by
  induction l with
  | nil => rfl
  | cons a as ih =>
    simp only [sizeL, encL, List.length_append]
    rw [h.size_eq a (hw a (by simp)), ih (fun x hx => hw x (by simp [hx]))]

theorem allocN_ok {c : Codec α} (h : c.Lawful) : ∀ (n : Nat) (b : Bytes) (l : List α) (r : Bytes),
    decN c n b = some (l, r) → allocN c n b ≤ c.allocK * (b.length - r.length) := by
  intro n
  induction n with
  | zero => intro b l r _; simp [allocN]
  | succ n ih =>
    intro b l r hd
    simp only [decN] at hd
    split at hd
    · simp at hd
    · rename_i a r₁ h1
      split at hd
      · simp at hd
      · rename_i as r₂ h2
        simp at hd
        simp only [allocN, h1]
        have a1 := h.alloc_ok _ _ _ h1
        have a2 := ih _ _ _ h2
        have l1 := h.dec_len h1
        have l2 := (decN_spec h _ _ _ _ h2).2.2.2
        have := alloc_add a1 a2 l2 l1
        have hm : Nat.max c.allocK c.allocK = c.allocK := Nat.max_self _
        rw [hm] at this
        rw [← hd.2]; exact this

theorem allocN_le {c : Codec α} (h : c.Lawful) : ∀ (n : Nat) (b : Bytes),
    allocN c n b ≤ c.allocK * b.length + c.allocC := by
  intro n
  induction n with
  | zero => intro b; simp [allocN]
  | succ n ih =>
    intro b
    simp only [allocN]
    cases h1 : c.dec b with
    | none =>
      have := h.alloc_fail b h1
      simpa using this
    | some q =>
      obtain ⟨a, r₁⟩ := q
      simp only
      have a1 := h.alloc_ok _ _ _ h1
      have a2 := ih r₁
      have l1 := h.dec_len h1
      have hsum : c.allocK * (b.length - r₁.length) + c.allocK * r₁.length = c.allocK * b.length := by
        rw [← Nat.left_distrib]; congr 1; omega
      omega

theorem array_lawful {max slot : Nat} {c : Codec α} (h : c.Lawful) (s : c.Strict) :
    (array max slot c).Lawful where
  roundtrip l r hw := by
    simp only [array] at hw ⊢
    rw [List.append_assoc, readVarUint_putVarUint _ _ hw.2.1]
    simp only [show ¬ l.length > max by omega, if_false]
    exact decN_encL h l r hw.2.2
  dec_wf b l r hd := by
    simp only [array] at hd ⊢
    split at hd
    · simp at hd
    · rename_i n r₀ hr
      split at hd
      · simp at hd
      · obtain ⟨i1, i2, _, _⟩ := decN_spec h _ _ _ _ hd
        have := (readVarUint_suffix hr).2.2
        exact ⟨by omega, by omega, i2⟩
  dec_suffix b l r hd := by
    simp only [array] at hd
    split at hd
    · simp at hd
    · rename_i n r₀ hr
      split at hd
      · simp at hd
      · obtain ⟨_, _, ⟨p₂, e₂⟩, _⟩ := decN_spec h _ _ _ _ hd
        obtain ⟨p₁, e₁⟩ := (readVarUint_suffix hr).1
        exact ⟨p₁ ++ p₂, by rw [e₁, e₂]; simp⟩
  size_eq l hw := by
    simp only [array] at hw ⊢
    rw [sizeL_eq h l hw.2.2]; simp
  alloc_ok b l r hd := by
    simp only [array] at hd ⊢
    split at hd
    · simp at hd
    · rename_i n r₀ hr
      split at hd
      · simp at hd
      · rename_i hn
        simp only [hn, if_false]
        have a1 := allocN_ok h _ _ _ _ hd
        have l1 := decN_strict s _ _ _ _ hd
        have l0 := (readVarUint_suffix hr).2.1
        have e1 : n * slot ≤ slot * (b.length - r.length) := by
          rw [Nat.mul_comm]; apply Nat.mul_le_mul_left; omega
        have e2 : c.allocK * (r₀.length - r.length) ≤ c.allocK * (b.length - r.length) := by
          apply Nat.mul_le_mul_left; omega
        rw [Nat.right_distrib]; omega
  alloc_fail b hd := by
    simp only [array] at hd ⊢
    split
    · omega
    · rename_i n r₀ hr
      split
      · omega
      · rename_i hn
        have a1 := allocN_le h n r₀
        have l0 := (readVarUint_suffix hr).2.1
        have e1 : n * slot ≤ max * slot := Nat.mul_le_mul_right _ (by omega)
        have e2 : c.allocK * r₀.length ≤ c.allocK * b.length := by
          apply Nat.mul_le_mul_left; omega
        rw [Nat.right_distrib]; omega

theorem array_strict {max slot : Nat} {c : Codec α} (h : c.Lawful) : (array max slot c).Strict := by
  intro b l r hd
  simp only [array] at hd
  split at hd
  · simp at hd
  · rename_i n r₀ hr
    split at hd
    · simp at hd
    · have := (decN_spec h _ _ _ _ hd).2.2.2
      have := (readVarUint_suffix hr).2.1
      omega

end Codec
end NeoModel.Wire

