/-
C11: the tie of the collection index to the TRANSLATED Go code. `tryRunGC` (Model/MptRc/GcIndex.lean) is
Generated.GoFuncs.tryRunGC, re-translated from /repo's blockchain.go on every check run. Here:
  * it equals the hand-written reading `tryRunGCSpec` for all arguments, so the hypothesis-free bound
    of Proofs/MptRcGcIndex.lean holds for the translated code;
  * the coordinator's theorem `GoFuncsTie.tryRunGC_within_window` (Proofs/GoFuncs/C11.lean), proved
    directly on the translated code, is composed with the node model: every index is a multiple of the
    period above one period.
-/
import NeoModel.Generated.GoFuncs
import NeoModel.Proofs.GoFuncs.C11
import NeoModel.Proofs.MptRcGcIndex
import NeoModel.Model.MptRc.Layered
namespace NeoModel.MptRc
open NeoModel.Generated

theorem ite_some_none_eq {p q : Prop} [Decidable p] [Decidable q] (h : p ↔ q) (a b : Nat) (hab : a = b) :
    (match (if p then some [(a : Int)] else none : Option (List Int)) with
      | some (t :: _) => some t.toNat
      | _ => none) = (if q then some b else none) := by
  by_cases hp : p
  · rw [if_pos hp, if_pos (h.mp hp)]; simp [hab]
  · rw [if_neg hp, if_neg (fun hq => hp (h.mpr hq))]

/-- the translation of blockchain.go `tryRunGC` (regenerated from /repo on every check) is the
hand-written reading `tryRunGCSpec`, for ALL arguments — with and without the P2P extensions, any
period (0 included), any heights. -/
theorem tryRunGC_eq_spec (c : GcCfg) (mtb oldH newH : Nat) : tryRunGC c mtb oldH newH = tryRunGCSpec c mtb oldH newH := by
  have hdiv : ∀ a b : Nat, ((a : Int) / (b : Int)) = ((a / b : Nat) : Int) := fun a b => (Int.natCast_ediv a b).symm
  have hne : ∀ a b : Nat, ((a : Int) ≠ (b : Int)) ↔ a ≠ b := fun a b => by omega
  have hmod : ∀ x : Int, x % 4294967296 = (((x % 4294967296).toNat : Nat) : Int) := fun x => by omega
  have hssi : ((c.ssi : Int) % 4294967296) = ((c.ssi % 4294967296 : Nat) : Int) := by omega
  unfold tryRunGC GoFuncs.tryRunGC tryRunGCSpec gcTarget roundGcp u32
  simp only []
  cases hp : c.p2p
  · simp only [Bool.false_eq_true, if_false, hdiv]
    rw [hmod]
    exact ite_some_none_eq (by rw [hne]) _ _ rfl
  · simp only [if_true, hssi, hdiv]
    simp only [← hmod]
    rw [hmod (Int.tdiv _ _ * _)]
    exact ite_some_none_eq (by rw [hne]) _ _ (by rw [Int.toNat_natCast])

/-- whenever the (translated) `tryRunGC` collects: `g + MaxTraceableBlocks ≤ persisted height`. No
hypothesis on the configuration or the heights. -/
theorem tryRunGC_bound (c : GcCfg) (mtb oldH newH g : Nat) (h : tryRunGC c mtb oldH newH = some g) :
    g + mtb ≤ newH := by
  rw [tryRunGC_eq_spec] at h; exact tryRunGCSpec_bound c mtb oldH newH g h

theorem tryRunGC_newH_pos (c : GcCfg) (mtb oldH newH g : Nat) (h : tryRunGC c mtb oldH newH = some g) :
    0 < newH := by
  rw [tryRunGC_eq_spec] at h
  unfold tryRunGCSpec at h
  simp only at h
  by_cases hc : (c.gcp : Int) < roundGcp c (gcTarget c mtb newH) ∧ newH / c.gcp ≠ oldH / c.gcp
  · have hle := gcTarget_le c mtb newH
    obtain ⟨hpos, _, _, _⟩ := roundGcp_spec c _ hc.1
    omega
  · rw [if_neg hc] at h; cases h

theorem tryRunGC_plain (c : GcCfg) (hp : c.p2p = false) (mtb oldH newH : Nat) (h32 : newH < 4294967296) :
    tryRunGC c mtb oldH newH =
      if c.gcp < (newH - mtb) / c.gcp * c.gcp ∧ newH / c.gcp ≠ oldH / c.gcp
      then some ((newH - mtb) / c.gcp * c.gcp) else none := by
  rw [tryRunGC_eq_spec]; exact tryRunGCSpec_plain c hp mtb oldH newH h32

/-- composition with `GoFuncsTie.tryRunGC_within_window` (proved on the translated code): with a
positive period and a persisted height that fits 32 bits, the index is above one period, a multiple
of the period, and MaxTraceableBlocks below the persisted height. -/
theorem tryRunGC_window (c : GcCfg) (hg : 0 < c.gcp) (mtb oldH newH g : Nat) (h32 : newH < 2 ^ 32)
    (h : tryRunGC c mtb oldH newH = some g) : c.gcp < g ∧ g + mtb ≤ newH ∧ g % c.gcp = 0 := by
  unfold tryRunGC at h
  cases hr : GoFuncs.tryRunGC (oldH : Int) (newH : Int) (mtb : Int) c.p2p (c.ssi : Int) (c.gcp : Int) 0 with
  | none => rw [hr] at h; cases h
  | some l =>
    rw [hr] at h
    cases l with
    | nil => cases h
    | cons t tl =>
      simp only [Option.some.injEq] at h
      have htl : tl = [] := by
        unfold GoFuncs.tryRunGC at hr
        simp only [] at hr
        split at hr <;> split at hr <;> simp_all
      subst htl
      obtain ⟨h1, h2, h3⟩ := GoFuncsTie.tryRunGC_within_window oldH newH mtb c.ssi c.gcp c.p2p 0 t h32 hg hr
      have ht : (t.toNat : Int) = t := Int.toNat_of_nonneg (by omega)
      subst h
      refine ⟨by omega, by omega, ?_⟩
      have : ((t.toNat % c.gcp : Nat) : Int) = 0 := by rw [Int.natCast_emod, ht]; exact h3
      omega

/-- MaxTraceableBlocks only goes down: whatever the TRANSLATED `Policy.setMaxTraceableBlocks`
(native/policy.go:816-837, Generated.GoFuncs.policySetMaxTraceableBlocks) stores — `some [id, value]`
= `setIntWithKey(p.ID, …, value)` reached — is what the node model's `newMtbOf` makes of the request,
and it is positive and not above the old value; a rejected request (`none`) stores nothing, which is
the model's `newMtb = none`. -/
theorem policy_setter_is_newMtbOf (v old vub : Nat) (committee : Bool) (id : Int) (l : List Int)
    (h : GoFuncs.policySetMaxTraceableBlocks (v : Int) (old : Int) (vub : Int) committee id = some l) :
    l = [id, ((newMtbOf old (some v) : Nat) : Int)] ∧ newMtbOf old (some v) = v ∧ 0 < v ∧ v ≤ old := by
  unfold GoFuncs.policySetMaxTraceableBlocks at h
  simp only [] at h
  split at h
  · cases h
  · rename_i h1
    split at h
    · cases h
    · rename_i h2
      split at h
      · cases h
      · split at h
        · cases h
        · simp only [Option.some.injEq] at h
          have hv : 0 < v ∧ v ≤ old := by omega
          have : newMtbOf old (some v) = v := by simp [newMtbOf, hv.1, hv.2]
          exact ⟨by rw [← h, this], this, hv.1, hv.2⟩

end NeoModel.MptRc
