/-
C20 (b): defineSyncStage's traversal over a fresh billet (Model/Billet.lean `rebuildB`): it leaves the pool of
the pool-level reconstruction (Model/StateSync.lean `rebuild`) and a billet that represents the restored set
again, so a restart puts the module over the billet back into the state of the uninterrupted one.
-/
import NeoModel.Proofs.BilletRefine
namespace NeoModel.StateSync

variable (db : Hash → Option SNode) (root : Hash)

theorem poolProc_eq (P : Pool) (p : Path) (h : Hash) (n : SNode) :
    poolProc P p h n = (if (pathsOf P h).isEmpty then P
             else addAll (removeHash P h) ((pathsOf P h).flatMap (fun q => childrenPaths q n))) := rfl

theorem traverseB_hash_succ {σ : Type} (refs : Hash → Nat) (ignore : Bool) (proc : σ → Path → Hash → SNode → σ)
    (fuel : Nat) (st : σ) (h : Hash) (c : Bool) (path : Path) :
    traverseB db refs ignore proc (fuel + 1) st (.hash h c) path =
      if refs h = 0 then (if ignore then some (st, .hash h c, .ok ()) else some (st, .hash h c, .err .notFound))
      else
        match db h with
        | none => some (st, .hash h c, .err .notFound)
        | some n =>
          if n.val.isSome then some (proc st path h n, .hash h true, .ok ())
          else
            match traverseKids (traverseB db refs ignore proc fuel) (proc st path h n)
                (n.kids.map (fun k => (k.1, BN.hash k.2 false))) path with
            | some (st2, kids', .ok ()) => some (st2, tryCollapse h (kindOf n) kids', .ok ())
            | some (st2, _, res) => some (st2, .hash h c, res)
            | none => none := by
  rfl

/-- The traversal from a HashNode whose position is the root or the child of a restored position. -/
theorem traverseB_fresh (_wf : WF db root) (rk : Hash → Nat) (hrk : Ranked db rk) (sh : Shaped db)
    (refs : Hash → Nat) (D : List (Hash × Path)) (_hd : DOK db root D)
    (hstore : ∀ h, 0 < refs h → ∃ n, db h = some n)
    (hiff : ∀ x, Pos db root x.1 x.2 → (x = (root, []) ∨ ∃ y ∈ D, IsKidOf db x y) → (x ∈ D ↔ 0 < refs x.1)) :
    ∀ (fuel : Nat) (h : Hash) (p : Path) (pool : Pool), rk h < fuel → Pos db root h p →
      ((h, p) = (root, []) ∨ ∃ y ∈ D, IsKidOf db (h, p) y) →
      ∃ t, traverseB db refs true poolProc fuel pool (.hash h false) p =
          some (traverse db refs fuel pool h p, t, .ok ()) ∧ Rep db D t h p := by
  intro fuel
  induction fuel with
  | zero => intro h p pool hf; omega
  | succ f ih =>
    intro h p pool hf hpos hpar
    rw [traverseB_hash_succ, traverse_succ]
    by_cases h0 : refs h = 0
    · refine ⟨.hash h false, by simp [h0], ?_⟩
      simp only [Rep, Bool.false_eq_true, if_false, true_and]
      intro hin
      have := (hiff (h, p) hpos hpar).1 hin
      simp only at this; omega
    · have hin : (h, p) ∈ D := (hiff (h, p) hpos hpar).2 (by simp only; omega)
      obtain ⟨n, hn⟩ := hstore h (by omega)
      simp only [h0, if_false, hn]
      by_cases hl : n.val.isSome = true
      · refine ⟨.hash h true, ?_, ?_⟩
        · simp only [hl, if_true]
          rw [sh.leaf h n hn hl]
          simp [poolProc_eq]
        · simp only [Rep, if_true, true_and]
          intro y hy
          rcases Below.cases_head db hy with rfl | ⟨k, ⟨n', k', hn', hk', _⟩, _⟩
          · exact hin
          · simp only at hn'
            rw [hn] at hn'; cases hn'
            rw [sh.leaf _ _ hn hl] at hk'; cases hk'
      · have hval : n.val = none := by
          cases hv : n.val with
          | none => rfl
          | some v => simp [hv] at hl
        simp only [hl, Bool.false_eq_true, if_false]
        -- the children, one after the other
        have hkids : ∀ (nk : List (Path × Hash)) (P : Pool), (∀ k ∈ nk, k ∈ n.kids) →
            ∃ kids', traverseKids (traverseB db refs true poolProc f) P
                (nk.map (fun k => (k.1, BN.hash k.2 false))) p =
              some (nk.foldl (fun q k => traverse db refs f q k.2 (p ++ k.1)) P, kids', .ok ()) ∧
              RepKids db D kids' nk p := by
          intro nk
          induction nk with
          | nil => intro P _; exact ⟨[], by simp [traverseKids], by simp [RepKids]⟩
          | cons k r ihk =>
            intro P hsub
            have hk : k ∈ n.kids := hsub k (by simp)
            have hrkk := hrk h n k hn hk
            obtain ⟨t1, h1, hrep1⟩ := ih k.2 (p ++ k.1) P (by omega) (Pos.kid hpos hn hk)
              (.inr ⟨(h, p), hin, n, k, hn, hk, rfl⟩)
            obtain ⟨kids2, h2, hrep2⟩ := ihk (traverse db refs f P k.2 (p ++ k.1)) (fun k' hk' => hsub k' (by simp [hk']))
            refine ⟨(k.1, t1) :: kids2, ?_, ?_⟩
            · simp only [List.map_cons, traverseKids, h1, h2, List.foldl_cons]
            · rw [repKids_cons]; exact ⟨rfl, hrep1, hrep2⟩
        obtain ⟨kids', h1, hrep1⟩ := hkids n.kids (poolProc pool p h n) (fun k hk => hk)
        refine ⟨tryCollapse h (kindOf n) kids', ?_, rep_collapse db D h p n kids' hin hn hval hrep1⟩
        rw [h1]
        simp [poolProc_eq]

/-- Clean invariant states: a position that is the root or the child of a restored one is restored iff its
node is in the store. -/
theorem done_iff_stored (s : MS) (hi : Inv db root s) (hcl : Clean s) (x : Hash × Path)
    (hpar : x = (root, []) ∨ ∃ y ∈ s.done, IsKidOf db x y) : x ∈ s.done ↔ 0 < s.refs x.1 := by
  constructor
  · intro hx
    rw [hi.refsEq]
    exact List.length_pos_of_mem (a := x) (by simp [hx])
  · intro hr
    have : x ∈ s.pool ∨ x ∈ s.done := by
      rcases hpar with rfl | ⟨y, hy, hk⟩
      · exact hi.rootIn
      · exact hi.closed y hy x hk
    rcases this with h1 | h1
    · have := hcl x h1; omega
    · exact h1

/-- A restart of the module over the billet. -/
theorem rebuildB_refines (wf : WF db root) (rk : Hash → Nat) (hrk : Ranked db rk) (sh : Shaped db) (fuel : Nat)
    (hf : ∀ h m, db h = some m → rk h < fuel) (hroot : ∃ n, db root = some n) (s : BS) (hi : Inv db root s.ms)
    (hcl : Clean s.ms) :
    ∃ b, rebuildB db fuel root s = some ({ billet := b, ms := rebuild db fuel root s.ms }, .ok ()) ∧
      Rep db s.ms.done b root [] := by
  obtain ⟨n, hn⟩ := hroot
  obtain ⟨t, h1, hrep⟩ := traverseB_fresh db root wf rk hrk sh s.ms.refs s.ms.done (dok_of_inv db root _ hi)
    (stored_in_db db root wf s.ms hi)
    (fun x _ hpar => done_iff_stored db root s.ms hi hcl x hpar)
    fuel root [] [(root, [])] (hf root n hn) Pos.root (.inl rfl)
  exact ⟨t, by simp only [rebuildB, h1, rebuild], hrep⟩

end NeoModel.StateSync
