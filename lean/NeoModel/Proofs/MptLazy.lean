/-
Refinement between the in-memory representation with HashNodes (Model/Mpt/Lazy.lean) and the
expanded trie: basic facts about `LRep`, encodings/hashes, and Get.
-/
import NeoModel.Model.Mpt.Lazy
import NeoModel.Proofs.MptDecode
import NeoModel.Proofs.MptLookup
namespace NeoModel.Mpt

variable {H : Bytes → Bytes} {S : LStore}

/-! ### basic facts -/

theorem height_kid (cs : Nib → Node) (v : Option Val) (i : Nib) : height (cs i) < height (.branch cs v) := by
  have : ∀ (l : List Nib), i ∈ l → height (cs i) ≤ (l.map fun i => height (cs i)).foldr max 0 := by
    intro l
    induction l with
    | nil => intro h; cases h
    | cons a l ih =>
      intro h
      simp only [List.map_cons, List.foldr_cons]
      rcases List.mem_cons.mp h with rfl | h
      · omega
      · have := ih h; omega
  have := this (List.finRange 16) (List.mem_finRange i)
  simp only [height]; omega

theorem slotNode_isEmpty (v : Option Val) : (slotNode v).isEmpty = v.isNone := by
  cases v <;> rfl

theorem height_slot (v : Option Val) : height (slotNode v) = 0 := by cases v <;> rfl

theorem stored_slot (cs : Nib → Node) (v : Option Val) (h : Stored H S (.branch cs v)) : Stored H S (slotNode v) := by
  cases v with
  | none => trivial
  | some w => exact h.2.2 w rfl

theorem stored_at (t : Node) (hne : t.isEmpty = false) (h : Stored H S t) : StoredAt H S t := by
  cases t with
  | empty => simp [Node.isEmpty] at hne
  | leaf v => exact h
  | ext k n => exact h.1
  | branch cs v => exact h.1

theorem rep_lref (t : Node) (h : Stored H S t) : LRep H S (lref H t) t := by
  unfold lref
  cases ht : t.isEmpty with
  | true => simp [LRep, isEmpty_iff.mp ht]
  | false => simp [LRep, ht, h]

theorem rep_lshallow (t : Node) (h : Stored H S t) : LRep H S (lshallow H t) t := by
  cases t with
  | empty => simp [lshallow, LRep]
  | leaf v => simp [lshallow, LRep]
  | ext k n => exact ⟨n, rfl, rep_lref n h.2⟩
  | branch cs v => exact ⟨cs, v, rfl, fun i => rep_lref _ (h.2.1 i), rep_lref _ (stored_slot cs v h)⟩

theorem lshallow_isHash (t : Node) : (lshallow H t).isHash = false := by
  cases t <;> rfl

/-- loading a HashNode that represents `t` gives `t` with its children as HashNodes. -/
theorem rep_hash {h : Bytes} {t : Node} (hr : LRep H S (.hash h) t) :
    resolve S h = some (lshallow H t) ∧ LRep H S (lshallow H t) t := by
  obtain ⟨hne, rfl, hs⟩ := hr
  exact ⟨stored_at t hne hs, rep_lshallow t hs⟩

theorem rep_isEmpty {l : LNode} {t : Node} (h : LRep H S l t) : l.isEmpty = t.isEmpty := by
  cases l with
  | empty => simp [LRep] at h; subst h; rfl
  | hash x => simp [LRep] at h; simp [LNode.isEmpty, h.1]
  | leaf v => simp [LRep] at h; subst h; rfl
  | ext k n => obtain ⟨n, rfl, _⟩ := h; rfl
  | branch ls lv => obtain ⟨cs, v, rfl, _⟩ := h; rfl

theorem rep_emb (t : Node) : LRep H S (emb t) t := by
  induction t with
  | empty => simp [emb, LRep]
  | leaf v => simp [emb, LRep]
  | ext k n ih => exact ⟨n, rfl, ih⟩
  | branch cs v ih =>
    refine ⟨cs, v, rfl, ih, ?_⟩
    cases v <;> simp [slotNode, LRep]

/-! ### encodings and hashes agree -/

theorem lenc_rep : ∀ (l : LNode) (t : Node), LRep H S l t →
    lchildRef H l (lenc H l) = childRef H t (enc H t) ∧ (l.isHash = false → lenc H l = enc H t) := by
  intro l
  induction l with
  | empty => intro t h; simp [LRep] at h; subst h; simp [lchildRef, childRef, Node.isEmpty, lenc, enc]
  | hash x =>
    intro t h
    obtain ⟨hne, rfl, _⟩ := h
    simp [lchildRef, childRef, hne, hash, LNode.isHash]
  | leaf v => intro t h; simp [LRep] at h; subst h; simp [lchildRef, childRef, Node.isEmpty, lenc, enc]
  | ext k n ih =>
    intro t h
    obtain ⟨m, rfl, hm⟩ := h
    have e : lenc H (.ext k n) = enc H (.ext k m) := by simp [lenc, enc, (ih m hm).1]
    simp [lchildRef, childRef, Node.isEmpty, e]
  | branch ls lv ihc ihv =>
    intro t h
    obtain ⟨cs, v, rfl, hc, hv⟩ := h
    have e1 : (List.finRange 16).flatMap (fun i => lchildRef H (ls i) (lenc H (ls i))) =
        (List.finRange 16).flatMap (fun i => childRef H (cs i) (enc H (cs i))) := by
      congr 1; funext i; exact (ihc i (cs i) (hc i)).1
    have e2 : lchildRef H lv (lenc H lv) = slotRef H v := by
      rw [(ihv _ hv).1]; cases v <;> simp [slotNode, childRef, Node.isEmpty, slotRef, enc]
    have e : lenc H (.branch ls lv) = enc H (.branch cs v) := by simp [lenc, enc, e1, e2]
    simp [lchildRef, childRef, Node.isEmpty, e]

/-- the in-memory trie has the hash of the trie it represents … -/
theorem lhash_rep {l : LNode} {t : Node} (h : LRep H S l t) : lhash H l = hash H t := by
  cases l with
  | hash x => exact h.2.1
  | empty => simp [lhash, hash, (lenc_rep _ _ h).2 rfl]
  | leaf v => simp [lhash, hash, (lenc_rep _ _ h).2 rfl]
  | ext k n => simp [lhash, hash, (lenc_rep _ _ h).2 rfl]
  | branch ls lv => simp [lhash, hash, (lenc_rep _ _ h).2 rfl]

/-- … and the same state root. -/
theorem lrootHash_rep {l : LNode} {t : Node} (h : LRep H S l t) : lrootHash H l = rootHash H t := by
  simp [lrootHash, rootHash, rep_isEmpty h, lhash_rep h]



theorem need_hash {h : Bytes} {t : Node} {f : Nat} (hf : need (.hash h) t ≤ f + 1) : need (lshallow H t) t ≤ f := by
  unfold need at hf ⊢
  rw [lshallow_isHash]
  simp only [LNode.isHash] at hf
  simp at hf ⊢; omega

theorem need_le (l : LNode) (t : Node) : need l t ≤ 2 * height t + 3 := by
  unfold need; split <;> omega

theorem need_ext {k : Path} {n : LNode} {m : Node} {f : Nat} (hf : need (.ext k n) (.ext k m) ≤ f + 1) : need n m ≤ f := by
  have := need_le n m
  simp [need, LNode.isHash, height] at hf; omega

theorem need_kid {ls : Nib → LNode} {lv : LNode} {cs : Nib → Node} {v : Option Val} {f : Nat}
    (hf : need (.branch ls lv) (.branch cs v) ≤ f + 1) (i : Nib) : need (ls i) (cs i) ≤ f := by
  have := need_le (ls i) (cs i)
  have := height_kid cs v i
  simp [need, LNode.isHash] at hf; omega

theorem need_slot {ls : Nib → LNode} {lv : LNode} {cs : Nib → Node} {v : Option Val} {f : Nat}
    (hf : need (.branch ls lv) (.branch cs v) ≤ f + 1) : need lv (slotNode v) ≤ f := by
  have h1 := need_le lv (slotNode v)
  have := height_kid cs v 0
  rw [height_slot] at h1
  simp [need, LNode.isHash] at hf; omega

theorem need_pos (l : LNode) (t : Node) : 2 ≤ need l t := by unfold need; split <;> omega

theorem lookup_slot (v : Option Val) : lookup (slotNode v) [] = v := by cases v <;> rfl

/-- Get on the in-memory trie reads what the represented trie holds, and the root it leaves behind
(HashNodes on the path loaded) represents the same trie. -/
theorem lget_rep : ∀ (f : Nat) (l : LNode) (t : Node) (p : Path), LRep H S l t → need l t ≤ f →
    (∀ v, lookup t p = some v → ∃ l', lget S f l p = some (l', v) ∧ LRep H S l' t) ∧
    (lookup t p = none → lget S f l p = none) := by
  intro f
  induction f with
  | zero => intro l t _ _ hf; have := need_pos l t; omega
  | succ f ih =>
    intro l t p hr hf
    cases l with
    | empty => simp [LRep] at hr; subst hr; simp [lookup, lget]
    | hash h =>
      obtain ⟨hres, hr'⟩ := rep_hash hr
      simp only [lget, hres]
      exact ih _ t p hr' (need_hash hf)
    | leaf w =>
      simp [LRep] at hr; subst hr
      cases p with
      | nil => simp [lookup, lget, LRep]
      | cons a p => simp [lookup, lget]
    | ext k n =>
      obtain ⟨m, rfl, hm⟩ := hr
      simp only [lookup, lget]
      cases hs : stripPre k p with
      | none => simp
      | some r =>
        obtain ⟨h1, h2⟩ := ih n m r hm (need_ext hf)
        refine ⟨fun v hv => ?_, fun hn => ?_⟩
        · obtain ⟨n', hg, hn'⟩ := h1 v hv
          exact ⟨.ext k n', by simp [hg], ⟨m, rfl, hn'⟩⟩
        · simp [h2 hn]
    | branch ls lv =>
      obtain ⟨cs, v, rfl, hc, hv⟩ := hr
      cases p with
      | nil =>
        obtain ⟨h1, h2⟩ := ih lv (slotNode v) [] hv (need_slot hf)
        rw [lookup_slot] at h1 h2
        simp only [lookup, lget]
        refine ⟨fun x hx => ?_, fun hn => ?_⟩
        · obtain ⟨lv', hg, hlv'⟩ := h1 x hx
          exact ⟨.branch ls lv', by simp [hg], ⟨cs, v, rfl, hc, hlv'⟩⟩
        · simp [h2 hn]
      | cons i r =>
        obtain ⟨h1, h2⟩ := ih (ls i) (cs i) r (hc i) (need_kid hf i)
        simp only [lookup, lget]
        refine ⟨fun x hx => ?_, fun hn => ?_⟩
        · obtain ⟨c', hg, hc'⟩ := h1 x hx
          refine ⟨.branch (lupd ls i c') lv, by simp [hg], ⟨cs, v, rfl, fun j => ?_, hv⟩⟩
          unfold lupd; split
          · next e => subst e; exact hc'
          · exact hc j
        · simp [h2 hn]

theorem getProof_slot (v : Option Val) : getProof H (slotNode v) [] = v.map fun w => [encLeaf w] := by
  cases v <;> rfl

/-- GetProof on the in-memory trie returns exactly the proof of the represented trie (the same byte
strings: a loaded node encodes as the node it stands for), and the root it leaves behind represents
the same trie. -/
theorem lgetProof_rep : ∀ (f : Nat) (l : LNode) (t : Node) (p : Path), LRep H S l t → need l t ≤ f →
    (∀ ps, getProof H t p = some ps → ∃ l', lgetProof H S f l p = some (l', ps) ∧ LRep H S l' t) ∧
    (getProof H t p = none → lgetProof H S f l p = none) := by
  intro f
  induction f with
  | zero => intro l t _ _ hf; have := need_pos l t; omega
  | succ f ih =>
    intro l t p hr hf
    cases l with
    | empty => simp [LRep] at hr; subst hr; simp [getProof, lgetProof]
    | hash h =>
      obtain ⟨hres, hr'⟩ := rep_hash hr
      simp only [lgetProof, hres]
      exact ih _ t p hr' (need_hash hf)
    | leaf w =>
      simp [LRep] at hr; subst hr
      cases p with
      | nil => simp [getProof, lgetProof, LRep]
      | cons a p => simp [getProof, lgetProof]
    | ext k n =>
      have he := (lenc_rep _ _ hr).2 rfl
      obtain ⟨m, rfl, hm⟩ := hr
      simp only [getProof, lgetProof]
      cases hs : stripPre k p with
      | none => simp
      | some r =>
        obtain ⟨h1, h2⟩ := ih n m r hm (need_ext hf)
        refine ⟨fun ps hps => ?_, fun hn => ?_⟩
        · cases hg : getProof H m r with
          | none => simp [hg] at hps
          | some qs =>
            simp [hg] at hps; subst hps
            obtain ⟨n', hg', hn'⟩ := h1 qs hg
            exact ⟨.ext k n', by simp [hg', he], ⟨m, rfl, hn'⟩⟩
        · cases hg : getProof H m r with
          | none => simp [h2 hg]
          | some qs => simp [hg] at hn
    | branch ls lv =>
      have he := (lenc_rep _ _ hr).2 rfl
      obtain ⟨cs, v, rfl, hc, hv⟩ := hr
      cases p with
      | nil =>
        obtain ⟨h1, h2⟩ := ih lv (slotNode v) [] hv (need_slot hf)
        rw [getProof_slot] at h1 h2
        simp only [lgetProof]
        cases v with
        | none => simp [getProof, h2 rfl]
        | some w =>
          obtain ⟨lv', hg, hlv'⟩ := h1 [encLeaf w] rfl
          simp only [getProof]
          exact ⟨fun ps hps => by
            injection hps with hps; subst hps
            exact ⟨.branch ls lv', by simp [hg, he], ⟨cs, some w, rfl, hc, hlv'⟩⟩, fun hn => by cases hn⟩
      | cons i r =>
        obtain ⟨h1, h2⟩ := ih (ls i) (cs i) r (hc i) (need_kid hf i)
        simp only [getProof, lgetProof]
        refine ⟨fun ps hps => ?_, fun hn => ?_⟩
        · cases hg : getProof H (cs i) r with
          | none => simp [hg] at hps
          | some qs =>
            simp [hg] at hps; subst hps
            obtain ⟨c', hg', hc'⟩ := h1 qs hg
            refine ⟨.branch (lupd ls i c') lv, by simp [hg', he], ⟨cs, v, rfl, fun j => ?_, hv⟩⟩
            unfold lupd; split
            · next e => subst e; exact hc'
            · exact hc j
        · cases hg : getProof H (cs i) r with
          | none => simp [h2 hg]
          | some qs => simp [hg] at hn


end NeoModel.Mpt
