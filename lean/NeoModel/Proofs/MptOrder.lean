/-
Helper lemmas for C10: lexicographic order on nibble paths and the range selected by a start position.
-/
import NeoModel.Model.Mpt.Traverse
import NeoModel.Proofs.MptLookup
set_option linter.unusedSimpArgs false
namespace NeoModel.Mpt

/-! ### lexicographic order on paths -/

theorem fin_not_lt {x y : Nib} (h : y < x) : ¬ x < y := by
  simp only [Fin.lt_def] at *; omega

theorem fin_lt_of_ne {x y : Nib} (hne : x ≠ y) (h : ¬ x < y) : y < x := by
  have : x.val ≠ y.val := fun e => hne (Fin.ext e)
  simp only [Fin.lt_def] at *; omega

theorem pathLt_irrefl (a : Path) : pathLt a a = false := by
  induction a with
  | nil => rfl
  | cons x a ih => simp [pathLt, ih]

theorem pathLt_nil_right (a : Path) : pathLt a [] = false := by cases a <;> rfl

theorem pathLt_nil_left (a : Path) : pathLt [] a = !a.isEmpty := by cases a <;> rfl

theorem pathLt_append_left (c a b : Path) : pathLt (c ++ a) (c ++ b) = pathLt a b := by
  induction c with
  | nil => rfl
  | cons x c ih => simp [pathLt, ih]

theorem pathLt_cons_same (x : Nib) (a b : Path) : pathLt (x :: a) (x :: b) = pathLt a b := by
  simp [pathLt]

theorem pathLt_cons_lt {x y : Nib} (h : x < y) (a b : Path) : pathLt (x :: a) (y :: b) = true := by
  simp [pathLt, h]

theorem pathLt_cons_gt {x y : Nib} (h : y < x) (a b : Path) : pathLt (x :: a) (y :: b) = false := by
  have : ¬ x < y := fin_not_lt h
  simp [pathLt, h, this]

theorem isPre_iff {a b : Path} : isPre a b = true ↔ ∃ r, b = a ++ r := by
  unfold isPre
  constructor
  · intro h
    cases hs : stripPre a b with
    | none => simp [hs] at h
    | some r => exact ⟨r, stripPre_eq_some.mp hs⟩
  · rintro ⟨r, rfl⟩; simp [stripPre_append]

theorem isPre_nil (a : Path) : isPre [] a = true := by simp [isPre, stripPre]

theorem isPre_append_left (c a b : Path) : isPre (c ++ a) (c ++ b) = isPre a b := by
  simp [isPre, stripPre_append_left]

theorem isPre_cons (x y : Nib) (a b : Path) : isPre (x :: a) (y :: b) = (decide (x = y) && isPre a b) := by
  simp only [isPre, stripPre]
  by_cases h : x = y <;> simp [h]

theorem isPre_cons_nil (x : Nib) (a : Path) : isPre (x :: a) [] = false := by simp [isPre, stripPre]

/-- if `a` is a prefix of `b` then `b` is not below `a`. -/
theorem pathLt_of_isPre {a b : Path} (h : isPre a b = true) : pathLt b a = false := by
  obtain ⟨r, rfl⟩ := isPre_iff.mp h
  have := pathLt_append_left a r []
  simp only [List.append_nil] at this
  rw [this, pathLt_nil_right]

/-- two paths neither of which is a prefix of the other diverge at some nibble. -/
theorem diverge {a b : Path} (h1 : isPre a b = false) (h2 : isPre b a = false) :
    ∃ c x y s t, a = c ++ x :: s ∧ b = c ++ y :: t ∧ x ≠ y := by
  obtain ⟨e1, e2, e3⟩ := lcpSplit_spec a b
  rcases hsp : lcpSplit a b with ⟨c, ra, rb⟩
  rw [hsp] at e1 e2 e3
  simp only at e1 e2 e3
  cases ra with
  | nil =>
    exfalso
    have : isPre a b = true := isPre_iff.mpr ⟨rb, by rw [e2, e1]; simp⟩
    rw [h1] at this; cases this
  | cons x s =>
    cases rb with
    | nil =>
      exfalso
      have : isPre b a = true := isPre_iff.mpr ⟨x :: s, by rw [e1, e2]; simp⟩
      rw [h2] at this; cases this
    | cons y t => exact ⟨c, x, y, s, t, e1, e2, e3 x y s t rfl rfl⟩

theorem pathLt_diverge (c : Path) {x y : Nib} (hne : x ≠ y) (s t : Path) :
    pathLt (c ++ x :: s) (c ++ y :: t) = decide (x < y) := by
  rw [pathLt_append_left]
  by_cases h : x < y
  · simp [pathLt, h]
  · have : y < x := fin_lt_of_ne hne h
    simp [pathLt, h, this]

theorem isPre_diverge (c : Path) {x y : Nib} (hne : x ≠ y) (s t : Path) :
    isPre (c ++ x :: s) (c ++ y :: t) = false := by
  rw [isPre_append_left, isPre_cons]; simp [hne]

/-! ### inRange -/

theorem inRange_nil (back : Bool) (q : Path) : inRange back [] q = true := by
  cases back <;> simp [inRange, pathLt_nil_right, isPre_nil]

theorem inRange_append (back : Bool) (c f q : Path) : inRange back (c ++ f) (c ++ q) = inRange back f q := by
  simp [inRange, pathLt_append_left, isPre_append_left]

theorem inRange_nil_right (back : Bool) (f : Path) : inRange back f [] = (decide (f = []) || back) := by
  cases back <;> cases f <;> simp [inRange, pathLt, isPre_nil, isPre_cons_nil]

theorem inRange_cons (back : Bool) (s i : Nib) (f q : Path) :
    inRange back (s :: f) (i :: q) =
      if i = s then inRange back f q else (if back then decide (i < s) else decide (s < i)) := by
  by_cases h : i = s
  · subst h; simp [inRange, pathLt_cons_same, isPre_cons]
  · cases back
    · by_cases hlt : s < i
      · simp [inRange, h, hlt, pathLt_cons_gt hlt]
      · have : i < s := fin_lt_of_ne (fun e => h e.symm) hlt
        simp [inRange, h, hlt, pathLt_cons_lt this]
    · have hne : ¬ s = i := fun e => h e.symm
      by_cases hlt : i < s
      · simp [inRange, h, hlt, pathLt_cons_gt hlt, isPre_cons, hne]
      · have : s < i := fin_lt_of_ne h hlt
        simp [inRange, h, hlt, pathLt_cons_lt this, isPre_cons, hne]

end NeoModel.Mpt
