/-
CompileStmt — forward simulation for call-free, loop-free statements and for whole functions built from them:
scope/slot relation under declaration and assignment, structural facts about `compS` (counter monotone, scope depth,
only the innermost scope grows, well-formedness), and the induction on the fuel of the big-step semantics.
-/
import NeoModel.Proofs.CompileExpr
namespace NeoModel.CompileProofs
open NeoModel.MiniVm NeoModel.MiniVm.Asm NeoModel.MiniGo NeoModel.Compile

/-- all slots mentioned in the scopes. -/
def slotsOf (sc : Scopes) : List Nat := (sc.flatten).map Prod.snd

theorem frameRel_set_other {locals : List Val} {fr : MiniGo.Frame} {sf : List (String × Nat)} {i : Nat} {v : Val}
    (h : FrameRel locals fr sf) (hi : ∀ p ∈ sf, p.2 ≠ i) : FrameRel (locals.set i v) fr sf := by
  induction fr generalizing sf with
  | nil => cases sf <;> simp_all [FrameRel]
  | cons p fr ih =>
    obtain ⟨y, w⟩ := p
    cases sf with
    | nil => simp [FrameRel] at h
    | cons q sf =>
      obtain ⟨z, j⟩ := q
      simp only [FrameRel] at h ⊢
      obtain ⟨h1, h2, h3⟩ := h
      refine ⟨h1, ?_, ih h3 (fun p hp => hi p (List.mem_cons_of_mem _ hp))⟩
      have : j ≠ i := hi (z, j) (by simp)
      rw [List.getElem?_set_ne (Ne.symm this)]
      exact h2

theorem framesRel_set_other {locals : List Val} {fs : List MiniGo.Frame} {sc : Scopes} {i : Nat} {v : Val}
    (h : FramesRel locals fs sc) (hi : i ∉ slotsOf sc) : FramesRel (locals.set i v) fs sc := by
  induction fs generalizing sc with
  | nil => cases sc <;> simp_all [FramesRel]
  | cons f fs ih =>
    cases sc with
    | nil => simp [FramesRel] at h
    | cons s ss =>
      simp only [FramesRel] at h ⊢
      simp only [slotsOf, List.flatten_cons, List.map_append, List.mem_append, not_or] at hi
      refine ⟨frameRel_set_other h.1 ?_, ih h.2 (by simpa [slotsOf] using hi.2)⟩
      intro p hp heq
      exact hi.1 (by simp only [List.mem_map]; exact ⟨p, hp, heq⟩)

/-- declaring a new variable in the innermost frame / scope with a fresh slot. -/
theorem framesRel_declare {locals : List Val} {f : MiniGo.Frame} {fs : List MiniGo.Frame} {s : List (String × Nat)} {ss : Scopes}
    {x : String} {v : Val} {i : Nat}
    (h : FramesRel locals (f :: fs) (s :: ss)) (hi : i ∉ slotsOf (s :: ss)) (hlen : i < locals.length) :
    FramesRel (locals.set i v) (((x, v) :: f) :: fs) (((x, i) :: s) :: ss) := by
  have h' := framesRel_set_other (v := v) h hi
  simp only [FramesRel] at h' ⊢
  refine ⟨?_, h'.2⟩
  simp only [FrameRel, true_and]
  exact ⟨by simp [hlen], h'.1⟩

end NeoModel.CompileProofs

namespace NeoModel.CompileProofs
open NeoModel.MiniVm NeoModel.MiniVm.Asm NeoModel.MiniGo NeoModel.Compile

theorem lookup_mem_snd {sf : List (String × Nat)} {x : String} {i : Nat} (h : sf.lookup x = some i) :
    i ∈ sf.map Prod.snd := by
  induction sf with
  | nil => simp [List.lookup] at h
  | cons q sf ih =>
    obtain ⟨z, j⟩ := q
    simp only [List.lookup] at h
    cases hxz : x == z with
    | true => simp [hxz] at h; simp [h]
    | false => simp [hxz] at h; simp [ih h]

theorem setFrame_none {fr : MiniGo.Frame} {x : String} {v : Val} :
    setFrame fr x v = none ↔ fr.lookup x = none := by
  induction fr with
  | nil => simp [setFrame, List.lookup]
  | cons p fr ih =>
    obtain ⟨y, w⟩ := p
    simp only [setFrame, List.lookup]
    by_cases hyx : y = x
    · subst hyx; simp
    · have h1 : (y == x) = false := by simpa using hyx
      have h2 : (x == y) = false := by simpa using fun h => hyx h.symm
      simp [h1, h2, ih]

theorem frameRel_setFrame {locals : List Val} {fr fr' : MiniGo.Frame} {sf : List (String × Nat)} {x : String} {v : Val}
    (h : FrameRel locals fr sf) (hs : setFrame fr x v = some fr') (hnd : (sf.map Prod.snd).Nodup) :
    ∃ i, sf.lookup x = some i ∧ FrameRel (locals.set i v) fr' sf := by
  induction fr generalizing sf fr' with
  | nil => simp [setFrame] at hs
  | cons p fr ih =>
    obtain ⟨y, w⟩ := p
    cases sf with
    | nil => simp [FrameRel] at h
    | cons q sf =>
      obtain ⟨z, j⟩ := q
      simp only [FrameRel] at h
      obtain ⟨hyz, hj, hr⟩ := h
      subst hyz
      simp only [List.map_cons, List.nodup_cons] at hnd
      simp only [setFrame] at hs
      by_cases hyx : y = x
      · subst hyx
        simp at hs
        subst hs
        refine ⟨j, by simp [List.lookup], ?_⟩
        simp only [FrameRel, true_and]
        have hlt : j < locals.length := by
          rcases Nat.lt_or_ge j locals.length with h | h
          · exact h
          · simp [List.getElem?_eq_none h] at hj
        refine ⟨by simp [hlt], frameRel_set_other hr ?_⟩
        intro p hp heq
        exact hnd.1 (by simp only [List.mem_map]; exact ⟨p, hp, heq⟩)
      · have h1 : (y == x) = false := by simpa using hyx
        simp only [h1, Bool.false_eq_true, if_false] at hs
        cases hrec : setFrame fr x v with
        | none => simp [hrec] at hs
        | some r' =>
          simp [hrec] at hs
          subst hs
          obtain ⟨i, hi, hrel⟩ := ih hr hrec hnd.2
          have h2 : (x == y) = false := by simpa using fun h => hyx h.symm
          refine ⟨i, by simp [List.lookup, h2, hi], ?_⟩
          simp only [FrameRel, true_and]
          refine ⟨?_, hrel⟩
          have hne : i ≠ j := by
            intro e
            subst e
            exact hnd.1 (lookup_mem_snd hi)
          rw [List.getElem?_set_ne hne]
          exact hj

theorem nodup_slots_cons {s : List (String × Nat)} {ss : Scopes} (h : (slotsOf (s :: ss)).Nodup) :
    (s.map Prod.snd).Nodup ∧ (slotsOf ss).Nodup ∧ ∀ i ∈ s.map Prod.snd, i ∉ slotsOf ss := by
  simp only [slotsOf, List.flatten_cons, List.map_append] at h
  have := List.nodup_append.mp h
  exact ⟨this.1, this.2.1, fun i hi hj => this.2.2 i hi i hj rfl⟩

theorem lookupSlot_mem {sc : Scopes} {x : String} {i : Nat} (h : lookupSlot sc x = some i) : i ∈ slotsOf sc := by
  induction sc with
  | nil => simp [lookupSlot] at h
  | cons t ts ih =>
    simp only [lookupSlot] at h
    simp only [slotsOf, List.flatten_cons, List.map_append, List.mem_append]
    cases ht : t.lookup x with
    | some k => simp [ht] at h; subst h; exact Or.inl (lookup_mem_snd ht)
    | none => simp [ht] at h; exact Or.inr (ih h)

/-- assignment to the innermost visible local `x`. -/
theorem framesRel_setFrames {locals : List Val} {fs fs' : List MiniGo.Frame} {sc : Scopes} {x : String} {v : Val}
    (h : FramesRel locals fs sc) (hs : setFrames fs x v = some fs') (hnd : (slotsOf sc).Nodup) :
    ∃ i, lookupSlot sc x = some i ∧ FramesRel (locals.set i v) fs' sc := by
  induction fs generalizing sc fs' with
  | nil => simp [setFrames] at hs
  | cons f fs ih =>
    cases sc with
    | nil => simp [FramesRel] at h
    | cons s ss =>
      simp only [FramesRel] at h
      obtain ⟨hf, hr⟩ := h
      obtain ⟨hn1, hn2, hn3⟩ := nodup_slots_cons hnd
      simp only [setFrames] at hs
      cases hsf : setFrame f x v with
      | some f' =>
        simp [hsf] at hs
        subst hs
        obtain ⟨i, hi, hrel⟩ := frameRel_setFrame hf hsf hn1
        refine ⟨i, by simp [lookupSlot, hi], ?_⟩
        simp only [FramesRel]
        exact ⟨hrel, framesRel_set_other hr (hn3 i (lookup_mem_snd hi))⟩
      | none =>
        simp only [hsf] at hs
        cases hrec : setFrames fs x v with
        | none => simp [hrec] at hs
        | some r' =>
          simp [hrec] at hs
          subst hs
          obtain ⟨i, hi, hrel⟩ := ih hr hrec hn2
          have hfl : f.lookup x = none := setFrame_none.mp hsf
          have hsl : s.lookup x = none := (frame_lookup hf x).2 hfl
          refine ⟨i, by simp [lookupSlot, hsl, hi], ?_⟩
          simp only [FramesRel]
          refine ⟨frameRel_set_other hf ?_, hrel⟩
          intro p hp heq
          -- i is a slot of ss, p.2 a slot of s
          have hi' : i ∈ slotsOf ss := lookupSlot_mem hi
          exact hn3 p.2 (by simp only [List.mem_map]; exact ⟨p, hp, rfl⟩) (heq ▸ hi')

end NeoModel.CompileProofs

namespace NeoModel.CompileProofs
open NeoModel.MiniVm NeoModel.MiniVm.Asm NeoModel.MiniGo NeoModel.Compile

theorem args_setFrame {fr fr' : MiniGo.Frame} {x : String} {v : Val} (hs : setFrame fr x v = some fr') :
    ∃ j, indexOf (fr.map Prod.fst) x = some j ∧ fr'.map Prod.fst = fr.map Prod.fst ∧
      fr'.map Prod.snd = (fr.map Prod.snd).set j v ∧ j < (fr.map Prod.snd).length := by
  induction fr generalizing fr' with
  | nil => simp [setFrame] at hs
  | cons p fr ih =>
    obtain ⟨y, w⟩ := p
    simp only [setFrame] at hs
    by_cases hyx : y = x
    · subst hyx
      simp at hs
      subst hs
      exact ⟨0, by simp [indexOf], by simp, by simp, by simp⟩
    · have h1 : (y == x) = false := by simpa using hyx
      simp only [h1, Bool.false_eq_true, if_false] at hs
      cases hrec : setFrame fr x v with
      | none => simp [hrec] at hs
      | some r' =>
        simp [hrec] at hs
        subst hs
        obtain ⟨j, hj, hn, hv, hl⟩ := ih hrec
        exact ⟨j + 1, by simp [indexOf, h1, hj], by simp [hn], by simp [hv], by simpa using hl⟩

/-- well-formedness of the compile-time state: slots are distinct and below the counter. -/
structure Wf (st : St) : Prop where
  nodup : (slotsOf st.scopes).Nodup
  bound : ∀ i ∈ slotsOf st.scopes, i < st.cnt
  nonempty : st.scopes ≠ []

/-- storing into an existing variable: emitStoreVar finds the slot that holds it. -/
theorem store_correct {cx : Ctx} {sc : Scopes} {env env' : Env} {locals args : List Val} {x : String} {v : Val}
    (h : VarsRel cx sc env locals args) (hnd : (slotsOf sc).Nodup) (hs : env.set x v = some env') :
    ∃ op : Op Nat, storeVar cx sc x = [.ins op] ∧ isData op = true ∧
      ∃ loc' ar', (∀ stk, stepData op (v :: stk) locals args = some (stk, loc', ar')) ∧
        VarsRel cx sc env' loc' ar' ∧ loc'.length = locals.length := by
  unfold Env.set at hs
  cases hf : setFrames env.frames x v with
  | some fs' =>
    simp [hf] at hs
    subst hs
    obtain ⟨i, hi, hrel⟩ := framesRel_setFrames h.frames hf hnd
    have hlt : i < locals.length := by
      -- the slot holds the old value
      have hx : lookupFrames env.frames x ≠ none := by
        intro hnone
        have := (frames_lookup h.frames x).2 hnone
        simp [hi] at this
      cases hl : lookupFrames env.frames x with
      | none => exact absurd hl hx
      | some w =>
        obtain ⟨i', hi', hv⟩ := (frames_lookup h.frames x).1 w hl
        rw [hi] at hi'
        cases hi'
        rcases Nat.lt_or_ge i locals.length with h | h
        · exact h
        · simp [List.getElem?_eq_none h] at hv
    refine ⟨.stloc i, by simp [storeVar, hi], rfl, locals.set i v, args, ?_, ⟨hrel, h.argNames, h.argVals⟩, by simp⟩
    intro stk
    simp [stepData, setAt, hlt]
  | none =>
    simp [hf] at hs
    cases ha : setFrame env.args x v with
    | none => simp [ha] at hs
    | some a' =>
      simp [ha] at hs
      subst hs
      obtain ⟨j, hj, hn, hv, hl⟩ := args_setFrame ha
      have hnone : lookupSlot sc x = none := by
        apply (frames_lookup h.frames x).2
        -- setFrames = none → lookupFrames = none
        clear hj hn hv hl ha
        generalize env.frames = fs at hf
        induction fs with
        | nil => simp [lookupFrames]
        | cons f fs ih =>
          simp only [setFrames] at hf
          cases hsf : setFrame f x v with
          | some f' => simp [hsf] at hf
          | none =>
            simp only [hsf] at hf
            cases hr : setFrames fs x v with
            | some r => simp [hr] at hf
            | none =>
              simp only [lookupFrames, setFrame_none.mp hsf]
              exact ih hr
      rw [h.argNames] at hj
      rw [h.argVals] at hv hl
      refine ⟨.starg j, by simp [storeVar, hnone, hj], rfl, locals, args.set j v, ?_, ⟨h.frames, by simp [hn, h.argNames], hv⟩, rfl⟩
      intro stk
      simp [stepData, setAt, hl]

end NeoModel.CompileProofs

namespace NeoModel.CompileProofs
open NeoModel.MiniVm NeoModel.MiniVm.Asm NeoModel.MiniGo NeoModel.Compile

/-! named pieces of `compS` for `if` and `for` -/
def ifSt0 (st : St) : St := { st with nl := st.nl + 3 }.push
def ifCond (cx : Ctx) (c : Expr) (st : St) : Code × Nat :=
  compE cx (ifSt0 st).scopes c (.jump false (st.nl + 1)) (ifSt0 st).nl
/-- the state in which the `then` body is compiled (inside the if scope and the block scope). -/
def ifStT (cx : Ctx) (c : Expr) (st : St) : St := { ifSt0 st with nl := (ifCond cx c st).2 }.push
/-- the state after the `then` block. -/
def ifSt1 (cx : Ctx) (lp : LoopCtx) (c : Expr) (thn : Stmt) (st : St) : St := (compS cx lp thn (ifStT cx c st)).2.pop

theorem compS_ite_none (cx : Ctx) (lp : LoopCtx) (c : Expr) (thn els : Stmt) (st : St) :
    compS cx lp (.ite c thn .none els) st =
      ((ifCond cx c st).1 ++ [.lbl st.nl] ++ (compS cx lp thn (ifStT cx c st)).1 ++ [.lbl (st.nl + 1), .lbl (st.nl + 2)],
       (ifSt1 cx lp c thn st).pop) := rfl

theorem compS_ite_block (cx : Ctx) (lp : LoopCtx) (c : Expr) (thn els : Stmt) (st : St) :
    compS cx lp (.ite c thn .block els) st =
      ((ifCond cx c st).1 ++ [.lbl st.nl] ++ (compS cx lp thn (ifStT cx c st)).1 ++ [.ins (.jmp (st.nl + 2)), .lbl (st.nl + 1)] ++
        (compS cx lp els (ifSt1 cx lp c thn st).push).1 ++ [.lbl (st.nl + 2)],
       (compS cx lp els (ifSt1 cx lp c thn st).push).2.pop.pop) := rfl

theorem compS_ite_elif (cx : Ctx) (lp : LoopCtx) (c : Expr) (thn els : Stmt) (st : St) :
    compS cx lp (.ite c thn .elif els) st =
      ((ifCond cx c st).1 ++ [.lbl st.nl] ++ (compS cx lp thn (ifStT cx c st)).1 ++ [.ins (.jmp (st.nl + 2)), .lbl (st.nl + 1)] ++
        (compS cx lp els (ifSt1 cx lp c thn st)).1 ++ [.lbl (st.nl + 2)],
       (compS cx lp els (ifSt1 cx lp c thn st)).2.pop) := rfl

theorem compS_block (cx : Ctx) (lp : LoopCtx) (body : Stmt) (st : St) :
    compS cx lp (.block body) st = ((compS cx lp body st.push).1, (compS cx lp body st.push).2.pop) := rfl

/-- the labelList entry of a `for` statement compiled in state `st`. -/
def forEnt (st : St) : LEntry :=
  { name := st.nextLabel, isFor := true, endL := st.nl + 1, postL := st.nl + 2, scLen := st.scopes.length + 1 }
def forSt0 (st : St) : St := { st with nl := st.nl + 3, nextLabel := none }.push
def forSt1 (cx : Ctx) (lp : LoopCtx) (init : Stmt) (st : St) : St := (compS cx lp init (forSt0 st)).2
def forCond (cx : Ctx) (lp : LoopCtx) (init : Stmt) (cond : Option Expr) (st : St) : Code × Nat :=
  match cond with
  | none => ([], (forSt1 cx lp init st).nl)
  | some c => ((compE cx (forSt1 cx lp init st).scopes c .val (forSt1 cx lp init st).nl).1 ++ [Item.ins (.jmpIfNot (st.nl + 1))],
               (compE cx (forSt1 cx lp init st).scopes c .val (forSt1 cx lp init st).nl).2)
def forStB (cx : Ctx) (lp : LoopCtx) (init : Stmt) (cond : Option Expr) (st : St) : St :=
  { forSt1 cx lp init st with nl := (forCond cx lp init cond st).2 }.push
def forSt3 (cx : Ctx) (lp : LoopCtx) (init : Stmt) (cond : Option Expr) (body : Stmt) (st : St) : St :=
  (compS cx (forEnt st :: lp) body (forStB cx lp init cond st)).2.pop

theorem compS_loop (cx : Ctx) (lp : LoopCtx) (init : Stmt) (cond : Option Expr) (post body : Stmt) (st : St) :
    compS cx lp (.loop init cond post body) st =
      ((compS cx lp init (forSt0 st)).1 ++ [Item.lbl st.nl] ++ (forCond cx lp init cond st).1 ++
        (compS cx (forEnt st :: lp) body (forStB cx lp init cond st)).1 ++ [Item.lbl (st.nl + 2)] ++
        (compS cx lp post (forSt3 cx lp init cond body st)).1 ++ [Item.ins (.jmp st.nl), Item.lbl (st.nl + 1)],
       (compS cx lp post (forSt3 cx lp init cond body st)).2.pop) := by
  cases cond <;> rfl

/-! named pieces of `compS` for `switch` and its clauses -/
def swTag (cx : Ctx) (tag : Option Expr) (st : St) : Code × Nat :=
  match tag with
  | some e => compE cx st.push.scopes e .val st.nl
  | none => ([.ins .pushT], st.nl)
/-- the labelList entry of a `switch` statement compiled in state `st`. -/
def swEnt (cx : Ctx) (tag : Option Expr) (ti : Bool) (st : St) : LEntry :=
  { name := st.nextLabel, isFor := false, endL := (swTag cx tag st).2, postL := 0, scLen := st.scopes.length + 1, eqNum := ti }
/-- the state in which the clause chain is compiled. -/
def swSt1 (cx : Ctx) (tag : Option Expr) (cl : Stmt) (st : St) : St :=
  { st.push with nl := (swTag cx tag st).2 + 1 + clauseCount cl, nextLabel := none, sb := (swTag cx tag st).2 + 1 }

theorem compS_switch (cx : Ctx) (lp : LoopCtx) (tag : Option Expr) (ti : Bool) (cl : Stmt) (st : St) :
    compS cx lp (.switchS tag ti cl) st =
      ((swTag cx tag st).1 ++ (compS cx (swEnt cx tag ti st :: lp) cl (swSt1 cx tag cl st)).1 ++
        [.lbl (swTag cx tag st).2, .ins .drop],
       { (compS cx (swEnt cx tag ti st :: lp) cl (swSt1 cx tag cl st)).2.pop with sb := st.sb }) := by
  cases tag <;> rfl

def csEndL (lp : LoopCtx) : Nat := match lp with | e :: _ => e.endL | [] => 0
def csEq (lp : LoopCtx) : Op Nat := match lp with | e :: _ => (if e.eqNum then .numEq else .equal) | [] => .equal
/-- the tests of a clause: DUP, case expression, comparison, jump. -/
def csTests (cx : Ctx) (lp : LoopCtx) (e1 : Expr) (e2 : Option Expr) (st : St) : Code × Nat :=
  match e2 with
  | none => ([Item.ins .dup] ++ (compE cx st.scopes e1 .val (st.nl + 1)).1 ++ [.ins (csEq lp), .ins (.jmpIfNot st.nl)],
             (compE cx st.scopes e1 .val (st.nl + 1)).2)
  | some e2 =>
    ([Item.ins .dup] ++ (compE cx st.scopes e1 .val (st.nl + 1)).1 ++ [.ins (csEq lp), .ins (.jmpIf st.sb)] ++ [Item.ins .dup] ++
      (compE cx st.scopes e2 .val (compE cx st.scopes e1 .val (st.nl + 1)).2).1 ++ [.ins (csEq lp), .ins (.jmpIfNot st.nl)],
     (compE cx st.scopes e2 .val (compE cx st.scopes e1 .val (st.nl + 1)).2).2)
/-- the state in which the body of a clause is compiled (its own scope). -/
def csStB (cx : Ctx) (lp : LoopCtx) (e1 : Expr) (e2 : Option Expr) (st : St) : St := { st with nl := (csTests cx lp e1 e2 st).2 }.push
/-- the state in which the remaining clauses are compiled. -/
def csStR (cx : Ctx) (lp : LoopCtx) (e1 : Expr) (e2 : Option Expr) (body : Stmt) (st : St) : St :=
  { (compS cx lp body (csStB cx lp e1 e2 st)).2.pop with sb := st.sb + 1 }

theorem compS_case (cx : Ctx) (lp : LoopCtx) (e1 : Expr) (e2 : Option Expr) (body : Stmt) (ft : Bool) (rest : Stmt) (st : St) :
    compS cx lp (.caseS e1 e2 body ft rest) st =
      ((csTests cx lp e1 e2 st).1 ++ [.lbl st.sb] ++ (compS cx lp body (csStB cx lp e1 e2 st)).1 ++
        (if ft then [.ins (.jmp (st.sb + 1))] else []) ++ [.ins (.jmp (csEndL lp)), .lbl st.nl] ++
        (compS cx lp rest (csStR cx lp e1 e2 body st)).1,
       (compS cx lp rest (csStR cx lp e1 e2 body st)).2) := by
  cases e2 <;> cases lp <;> rfl

def dfStB (st : St) : St := { st with nl := st.nl + 1 }.push

theorem compS_default (cx : Ctx) (lp : LoopCtx) (body : Stmt) (st : St) :
    compS cx lp (.defaultS body) st =
      ([.lbl st.sb] ++ (compS cx lp body (dfStB st)).1 ++ [.ins (.jmp (csEndL lp)), .lbl st.nl],
       (compS cx lp body (dfStB st)).2.pop) := by
  cases lp <;> rfl

theorem compS_labeled (cx : Ctx) (lp : LoopCtx) (l : String) (s : Stmt) (st : St) :
    compS cx lp (.labeled l s) st = compS cx lp s { st with nextLabel := some l } := rfl

end NeoModel.CompileProofs

namespace NeoModel.CompileProofs
open NeoModel.MiniVm NeoModel.MiniVm.Asm NeoModel.MiniGo NeoModel.Compile

@[simp] theorem swSt1_cnt (cx : Ctx) (tag : Option Expr) (cl : Stmt) (st : St) : (swSt1 cx tag cl st).cnt = st.cnt := rfl
@[simp] theorem swSt1_scopes (cx : Ctx) (tag : Option Expr) (cl : Stmt) (st : St) : (swSt1 cx tag cl st).scopes = [] :: st.scopes := rfl
@[simp] theorem csStB_cnt (cx : Ctx) (lp : LoopCtx) (e1 : Expr) (e2 : Option Expr) (st : St) : (csStB cx lp e1 e2 st).cnt = st.cnt := rfl
@[simp] theorem csStB_scopes (cx : Ctx) (lp : LoopCtx) (e1 : Expr) (e2 : Option Expr) (st : St) : (csStB cx lp e1 e2 st).scopes = [] :: st.scopes := rfl
@[simp] theorem dfStB_cnt (st : St) : (dfStB st).cnt = st.cnt := rfl
@[simp] theorem dfStB_scopes (st : St) : (dfStB st).scopes = [] :: st.scopes := rfl
@[simp] theorem sb_cnt (st : St) (n : Nat) : ({ st with sb := n } : St).cnt = st.cnt := rfl
@[simp] theorem sb_scopes (st : St) (n : Nat) : ({ st with sb := n } : St).scopes = st.scopes := rfl
@[simp] theorem nextLabel_cnt (st : St) (l : Option String) : ({ st with nextLabel := l } : St).cnt = st.cnt := rfl
@[simp] theorem nextLabel_scopes (st : St) (l : Option String) : ({ st with nextLabel := l } : St).scopes = st.scopes := rfl

theorem phantom_cases (cx : Ctx) (st : St) (l : String) : st.phantom cx l = st ∨ st.phantom cx l = st.newLocal l := by
  unfold St.phantom
  cases lookupSlot st.scopes l <;> cases indexOf cx.args l <;> simp

@[simp] theorem push_cnt (st : St) : st.push.cnt = st.cnt := rfl
@[simp] theorem pop_cnt (st : St) : st.pop.cnt = st.cnt := rfl
@[simp] theorem push_scopes (st : St) : st.push.scopes = [] :: st.scopes := rfl
@[simp] theorem pop_scopes (st : St) : st.pop.scopes = st.scopes.tail := rfl
@[simp] theorem ifStT_cnt (cx : Ctx) (c : Expr) (st : St) : (ifStT cx c st).cnt = st.cnt := rfl
@[simp] theorem ifStT_scopes (cx : Ctx) (c : Expr) (st : St) : (ifStT cx c st).scopes = [] :: [] :: st.scopes := rfl
@[simp] theorem forSt0_cnt (st : St) : (forSt0 st).cnt = st.cnt := rfl
@[simp] theorem forSt0_scopes (st : St) : (forSt0 st).scopes = [] :: st.scopes := rfl
@[simp] theorem forStB_cnt (cx : Ctx) (lp : LoopCtx) (init : Stmt) (cond : Option Expr) (st : St) :
    (forStB cx lp init cond st).cnt = (forSt1 cx lp init st).cnt := rfl
@[simp] theorem forStB_scopes (cx : Ctx) (lp : LoopCtx) (init : Stmt) (cond : Option Expr) (st : St) :
    (forStB cx lp init cond st).scopes = [] :: (forSt1 cx lp init st).scopes := rfl

theorem newLocal_cnt (st : St) (x : String) : (st.newLocal x).cnt = st.cnt + 1 := by
  unfold St.newLocal; cases st.scopes <;> rfl

theorem newLocal_len (st : St) (x : String) (h : st.scopes ≠ []) : (st.newLocal x).scopes.length = st.scopes.length := by
  unfold St.newLocal
  cases hs : st.scopes with
  | nil => exact absurd hs h
  | cons a b => simp

theorem ne_nil_of_length {α : Type} {l m : List α} (h : l.length = m.length) (hm : m ≠ []) : l ≠ [] := by
  intro e; subst e; simp at h; exact hm (List.length_eq_zero_iff.mp h.symm)

theorem newLocal_ne (st : St) (x : String) : (st.newLocal x).scopes ≠ [] := by
  unfold St.newLocal; cases st.scopes <;> simp

/-- the local counter never decreases, the scope stack keeps its depth. -/
theorem compS_mono (cx : Ctx) : ∀ (s : Stmt) (lp : LoopCtx) (st : St), st.scopes ≠ [] →
    st.cnt ≤ (compS cx lp s st).2.cnt ∧ (compS cx lp s st).2.scopes.length = st.scopes.length := by
  intro s
  induction s with
  | skip => intro lp st _; simp [compS]
  | seq a b iha ihb =>
    intro lp st hne
    simp only [compS]
    have h1 := iha lp st hne
    have h2 := ihb lp (compS cx lp a st).2 (ne_nil_of_length h1.2 hne)
    exact ⟨Nat.le_trans h1.1 h2.1, by rw [h2.2, h1.2]⟩
  | define x e =>
    intro lp st hne
    simp only [compS]
    exact ⟨by simp [newLocal_cnt], newLocal_len _ x hne⟩
  | assign x e => intro lp st _; simp [compS]
  | opAssign x op e => intro lp st _; simp [compS]
  | inc x => intro lp st _; simp [compS]
  | dec x => intro lp st _; simp [compS]
  | varDecl x b init =>
    intro lp st hne
    cases init with
    | none => simp only [compS]; exact ⟨by simp [newLocal_cnt], newLocal_len _ _ hne⟩
    | some e => simp only [compS]; exact ⟨by simp [newLocal_cnt], newLocal_len _ _ hne⟩
  | exprStmt e => intro lp st _; simp [compS]
  | discard e => intro lp st _; simp [compS]
  | panicS e => intro lp st _; simp [compS]
  | ite c thn k els iht ihe =>
    intro lp st hne
    have ht := iht lp (ifStT cx c st) (by simp)
    simp only [ifStT_cnt, ifStT_scopes, List.length_cons] at ht
    have h1c : st.cnt ≤ (ifSt1 cx lp c thn st).cnt := by simpa [ifSt1] using ht.1
    have h1l : (ifSt1 cx lp c thn st).scopes.length = st.scopes.length + 1 := by
      simp [ifSt1, ht.2]
    cases k with
    | none =>
      rw [compS_ite_none]
      exact ⟨by simpa using h1c, by simp [h1l]⟩
    | block =>
      rw [compS_ite_block]
      have he := ihe lp (ifSt1 cx lp c thn st).push (by simp)
      simp only [push_cnt, push_scopes, List.length_cons] at he
      exact ⟨by simp; omega, by simp [he.2, h1l]⟩
    | elif =>
      rw [compS_ite_elif]
      have hne1 : (ifSt1 cx lp c thn st).scopes ≠ [] := by
        intro e; rw [e] at h1l; simp at h1l
      have he := ihe lp (ifSt1 cx lp c thn st) hne1
      exact ⟨by simp; omega, by simp [he.2, h1l]⟩
  | loop init cond post body ihi ihp ihb =>
    intro lp st hne
    rw [compS_loop]
    have h0 := ihi lp (forSt0 st) (by simp)
    simp only [forSt0_cnt, forSt0_scopes, List.length_cons] at h0
    have hb := ihb (forEnt st :: lp) (forStB cx lp init cond st) (by simp)
    simp only [forStB_cnt, forStB_scopes, List.length_cons] at hb
    have h3c : st.cnt ≤ (forSt3 cx lp init cond body st).cnt := by
      simp only [forSt3, pop_cnt]; exact Nat.le_trans h0.1 hb.1
    have h3l : (forSt3 cx lp init cond body st).scopes.length = st.scopes.length + 1 := by
      simp only [forSt3, pop_scopes, List.length_tail, hb.2]; simp [forSt1, h0.2]
    have hne3 : (forSt3 cx lp init cond body st).scopes ≠ [] := by
      intro e; rw [e] at h3l; simp at h3l
    have hp := ihp lp (forSt3 cx lp init cond body st) hne3
    exact ⟨by simp; omega, by simp [hp.2, h3l]⟩
  | ret e => intro lp st _; cases e <;> simp [compS]
  | ret2 e1 e2 => intro lp st _; simp [compS]
  | define2 x y e =>
    intro lp st hne
    simp only [compS]
    refine ⟨by simp [newLocal_cnt]; omega, ?_⟩
    rw [newLocal_len _ x (newLocal_ne _ y)]; exact newLocal_len _ y hne
  | brk => intro lp st _; simp [compS]
  | cont => intro lp st _; simp [compS]
  | block body ih =>
    intro lp st hne
    rw [compS_block]
    have h := ih lp st.push (by simp)
    exact ⟨by simpa using h.1, by simp [h.2]⟩
  | labeled l s ih =>
    intro lp st hne
    rw [compS_labeled]
    simpa using ih lp { st with nextLabel := some l } hne
  | brkL l =>
    intro lp st hne
    simp only [compS]
    rcases phantom_cases cx st l with h | h <;> rw [h]
    · exact ⟨Nat.le_refl _, rfl⟩
    · exact ⟨by simp [newLocal_cnt], newLocal_len _ _ hne⟩
  | contL l =>
    intro lp st hne
    simp only [compS]
    rcases phantom_cases cx st l with h | h <;> rw [h]
    · exact ⟨Nat.le_refl _, rfl⟩
    · exact ⟨by simp [newLocal_cnt], newLocal_len _ _ hne⟩
  | switchS tag ti cl ih =>
    intro lp st hne
    rw [compS_switch]
    have h := ih (swEnt cx tag ti st :: lp) (swSt1 cx tag cl st) (by simp)
    simp only [swSt1_cnt, swSt1_scopes, List.length_cons] at h
    exact ⟨by simpa using h.1, by simp [h.2]⟩
  | caseS e1 e2 body ft rest ihb ihr =>
    intro lp st hne
    rw [compS_case]
    have hb := ihb lp (csStB cx lp e1 e2 st) (by simp)
    simp only [csStB_cnt, csStB_scopes, List.length_cons] at hb
    have hlR : (csStR cx lp e1 e2 body st).scopes.length = st.scopes.length := by simp [csStR, hb.2]
    have hr := ihr lp (csStR cx lp e1 e2 body st) (ne_nil_of_length hlR hne)
    have hcR : (csStR cx lp e1 e2 body st).cnt = (compS cx lp body (csStB cx lp e1 e2 st)).2.cnt := rfl
    exact ⟨by simp only; omega, by simp only; omega⟩
  | defaultS body ih =>
    intro lp st hne
    rw [compS_default]
    have h := ih lp (dfStB st) (by simp)
    simp only [dfStB_cnt, dfStB_scopes, List.length_cons] at h
    exact ⟨by simpa using h.1, by simp [h.2]⟩

end NeoModel.CompileProofs

namespace NeoModel.CompileProofs
open NeoModel.MiniVm NeoModel.MiniVm.Asm NeoModel.MiniGo NeoModel.Compile

/-- statements covered by the statement-level theorem: no calls, no loops, no break/continue,
    no `var x T = e` (whose compiled scoping differs from Go's, see C14.varDecl_shadow_witness). -/
def Simple : Stmt → Prop
  | .skip | .inc _ | .dec _ => True
  | .seq a b => Simple a ∧ Simple b
  | .define _ e | .assign _ e | .discard e => NoCall e
  | .opAssign _ op e => NoCall e ∧ Strict op
  | .varDecl _ _ none => True
  | .varDecl _ _ (some _) => False
  | .exprStmt _ => False
  | .panicS _ => False
  | .ite c t _ e => NoCall c ∧ Simple t ∧ Simple e
  | .loop _ _ _ _ => False
  | .ret none => True
  | .ret (some e) => NoCall e
  | .brk | .cont => False
  | .ret2 _ _ | .define2 _ _ _ => False
  | .block b => Simple b
  | .labeled _ _ | .brkL _ | .contL _ | .switchS _ _ _ | .caseS _ _ _ _ _ | .defaultS _ => False

theorem slotsOf_newLocal (st : St) (x : String) (hne : st.scopes ≠ []) :
    slotsOf (st.newLocal x).scopes = st.cnt :: slotsOf st.scopes := by
  unfold St.newLocal
  cases hs : st.scopes with
  | nil => exact absurd hs hne
  | cons a b => simp [slotsOf]

theorem wf_newLocal {st : St} (h : Wf st) (x : String) : Wf (st.newLocal x) := by
  have hs := slotsOf_newLocal st x h.nonempty
  refine ⟨?_, ?_, ?_⟩
  · rw [hs]; exact List.nodup_cons.mpr ⟨fun hm => Nat.lt_irrefl _ (h.bound _ hm), h.nodup⟩
  · rw [hs, newLocal_cnt]
    intro i hi
    rcases List.mem_cons.mp hi with rfl | hi
    · omega
    · have := h.bound i hi; omega
  · exact ne_nil_of_length (newLocal_len st x h.nonempty) h.nonempty

theorem wf_push {st : St} (h : Wf st) : Wf st.push :=
  ⟨by simpa [slotsOf] using h.nodup, by simpa [slotsOf] using h.bound, by simp⟩

theorem slotsOf_tail_sub (sc : Scopes) : ∀ i ∈ slotsOf sc.tail, i ∈ slotsOf sc := by
  cases sc with
  | nil => simp
  | cons a b => intro i hi; simp [slotsOf] at hi ⊢; exact Or.inr hi

theorem wf_pop {st : St} (h : Wf st) (hlen : 2 ≤ st.scopes.length) : Wf st.pop := by
  refine ⟨?_, ?_, ?_⟩
  · cases hs : st.scopes with
    | nil => simp [slotsOf, hs]
    | cons a b =>
      have := h.nodup
      rw [hs] at this
      simp only [pop_scopes, hs, List.tail_cons]
      exact (nodup_slots_cons this).2.1
  · intro i hi
    exact h.bound i (slotsOf_tail_sub _ i hi)
  · intro e
    simp only [pop_scopes] at e
    cases hs : st.scopes with
    | nil => rw [hs] at hlen; simp at hlen
    | cons a b => rw [hs] at e hlen; simp at e hlen; subst e; simp at hlen

/-- a weaker counter keeps the state well-formed. -/
theorem wf_mono {st st' : St} (h : Wf st) (hs : st'.scopes = st.scopes) (hc : st.cnt ≤ st'.cnt) : Wf st' :=
  ⟨by rw [hs]; exact h.nodup, by rw [hs]; intro i hi; exact Nat.lt_of_lt_of_le (h.bound i hi) hc, by rw [hs]; exact h.nonempty⟩

end NeoModel.CompileProofs

namespace NeoModel.CompileProofs
open NeoModel.MiniVm NeoModel.MiniVm.Asm NeoModel.MiniGo NeoModel.Compile

theorem wf_nl {st : St} (h : Wf st) (n : Nat) : Wf { st with nl := n } := ⟨h.nodup, h.bound, h.nonempty⟩

/-- compilation keeps the compile-time state well-formed. -/
theorem compS_wf (cx : Ctx) : ∀ (s : Stmt) (lp : LoopCtx) (st : St), Wf st → Wf (compS cx lp s st).2 := by
  intro s
  induction s with
  | skip => intro lp st h; simpa [compS] using h
  | seq a b iha ihb => intro lp st h; simp only [compS]; exact ihb lp _ (iha lp st h)
  | define x e => intro lp st h; simp only [compS]; exact wf_newLocal (wf_nl h _) x
  | assign x e => intro lp st h; simp only [compS]; exact wf_nl h _
  | opAssign x op e => intro lp st h; simp only [compS]; exact wf_nl h _
  | inc x => intro lp st h; simpa [compS] using h
  | dec x => intro lp st h; simpa [compS] using h
  | varDecl x b init =>
    intro lp st h
    cases init with
    | none => simp only [compS]; exact wf_newLocal h x
    | some e => simp only [compS]; exact wf_newLocal (wf_nl h _) x
  | exprStmt e => intro lp st h; simp only [compS]; exact wf_nl h _
  | discard e => intro lp st h; simp only [compS]; exact wf_nl h _
  | panicS e => intro lp st h; simp only [compS]; exact wf_nl h _
  | ite c thn k els iht ihe =>
    intro lp st h
    have hT : Wf (ifStT cx c st) := wf_push (wf_nl (wf_push (wf_nl h _)) _)
    have ht := iht lp _ hT
    have hlT := (compS_mono cx thn lp (ifStT cx c st) (by simp)).2
    simp only [ifStT_scopes, List.length_cons] at hlT
    have h1 : Wf (ifSt1 cx lp c thn st) := wf_pop ht (by omega)
    have hl1 : (ifSt1 cx lp c thn st).scopes.length = st.scopes.length + 1 := by simp [ifSt1, hlT]
    have hpos : 1 ≤ st.scopes.length := by
      cases hs : st.scopes with
      | nil => exact absurd hs h.nonempty
      | cons a b => simp
    cases k with
    | none => rw [compS_ite_none]; exact wf_pop h1 (by omega)
    | block =>
      rw [compS_ite_block]
      have he := ihe lp _ (wf_push h1)
      have hle := (compS_mono cx els lp (ifSt1 cx lp c thn st).push (by simp)).2
      simp only [push_scopes, List.length_cons] at hle
      have h2 : Wf (compS cx lp els (ifSt1 cx lp c thn st).push).2.pop := wf_pop he (by omega)
      exact wf_pop h2 (by simp [hle]; omega)
    | elif =>
      rw [compS_ite_elif]
      have he := ihe lp _ h1
      have hle := (compS_mono cx els lp (ifSt1 cx lp c thn st) h1.nonempty).2
      exact wf_pop he (by omega)
  | loop init cond post body ihi ihp ihb =>
    intro lp st h
    rw [compS_loop]
    have hpos : 1 ≤ st.scopes.length := by
      cases hs : st.scopes with
      | nil => exact absurd hs h.nonempty
      | cons a b => simp
    have h0 : Wf (forSt0 st) := wf_push (wf_mono (st' := { st with nl := st.nl + 3, nextLabel := none }) h rfl (Nat.le_refl _))
    have h1 : Wf (forSt1 cx lp init st) := ihi lp _ h0
    have hl1 := (compS_mono cx init lp (forSt0 st) (by simp)).2
    simp only [forSt0_scopes, List.length_cons] at hl1
    have hB : Wf (forStB cx lp init cond st) := wf_push (wf_nl h1 _)
    have hb := ihb (forEnt st :: lp) _ hB
    have hlb := (compS_mono cx body (forEnt st :: lp) (forStB cx lp init cond st) (by simp)).2
    simp only [forStB_scopes, List.length_cons] at hlb
    have hl1' : (forSt1 cx lp init st).scopes.length = st.scopes.length + 1 := hl1
    have h3 : Wf (forSt3 cx lp init cond body st) := wf_pop hb (by omega)
    have hl3 : (forSt3 cx lp init cond body st).scopes.length = st.scopes.length + 1 := by
      simp [forSt3, hlb, hl1']
    have hp := ihp lp _ h3
    have hlp := (compS_mono cx post lp (forSt3 cx lp init cond body st) h3.nonempty).2
    exact wf_pop hp (by omega)
  | ret e => intro lp st h; cases e <;> simp only [compS] <;> first | exact h | exact wf_nl h _
  | ret2 e1 e2 => intro lp st h; simp only [compS]; exact wf_nl h _
  | define2 x y e => intro lp st h; simp only [compS]; exact wf_newLocal (wf_newLocal (wf_nl h _) y) x
  | brk => intro lp st h; simpa [compS] using h
  | cont => intro lp st h; simpa [compS] using h
  | block body ih =>
    intro lp st h
    rw [compS_block]
    have hb := ih lp _ (wf_push h)
    have hl := (compS_mono cx body lp st.push (by simp)).2
    simp only [push_scopes, List.length_cons] at hl
    have hpos : 1 ≤ st.scopes.length := by
      cases hs : st.scopes with
      | nil => exact absurd hs h.nonempty
      | cons a b => simp
    exact wf_pop hb (by omega)
  | labeled l s ih => intro lp st h; rw [compS_labeled]; exact ih lp _ (wf_mono h rfl (Nat.le_refl _))
  | brkL l =>
    intro lp st h
    simp only [compS]
    rcases phantom_cases cx st l with h' | h' <;> rw [h']
    · exact h
    · exact wf_newLocal h l
  | contL l =>
    intro lp st h
    simp only [compS]
    rcases phantom_cases cx st l with h' | h' <;> rw [h']
    · exact h
    · exact wf_newLocal h l
  | switchS tag ti cl ih =>
    intro lp st h
    rw [compS_switch]
    have hpos : 1 ≤ st.scopes.length := by
      cases hs : st.scopes with
      | nil => exact absurd hs h.nonempty
      | cons a b => simp
    have h1 : Wf (swSt1 cx tag cl st) := wf_mono (wf_push h) rfl (Nat.le_refl _)
    have hc := ih (swEnt cx tag ti st :: lp) _ h1
    have hl := (compS_mono cx cl (swEnt cx tag ti st :: lp) (swSt1 cx tag cl st) (by simp)).2
    simp only [swSt1_scopes, List.length_cons] at hl
    exact wf_mono (wf_pop hc (by omega)) rfl (Nat.le_refl _)
  | caseS e1 e2 body ft rest ihb ihr =>
    intro lp st h
    rw [compS_case]
    have hpos : 1 ≤ st.scopes.length := by
      cases hs : st.scopes with
      | nil => exact absurd hs h.nonempty
      | cons a b => simp
    have hB : Wf (csStB cx lp e1 e2 st) := wf_push (wf_nl h _)
    have hb := ihb lp _ hB
    have hl := (compS_mono cx body lp (csStB cx lp e1 e2 st) (by simp)).2
    simp only [csStB_scopes, List.length_cons] at hl
    have hR : Wf (csStR cx lp e1 e2 body st) := wf_mono (wf_pop hb (by omega)) rfl (Nat.le_refl _)
    exact ihr lp _ hR
  | defaultS body ih =>
    intro lp st h
    rw [compS_default]
    have hpos : 1 ≤ st.scopes.length := by
      cases hs : st.scopes with
      | nil => exact absurd hs h.nonempty
      | cons a b => simp
    have hb := ih lp _ (wf_push (wf_nl h _) : Wf (dfStB st))
    have hl := (compS_mono cx body lp (dfStB st) (by simp)).2
    simp only [dfStB_scopes, List.length_cons] at hl
    exact wf_pop hb (by omega)

end NeoModel.CompileProofs

namespace NeoModel.CompileProofs
open NeoModel.MiniVm NeoModel.MiniVm.Asm NeoModel.MiniGo NeoModel.Compile

/-- what the code of a statement achieves. -/
def StmtPost (cx : Ctx) (C : Code) (σ : State) (len : Nat) (st' : St) : SOut → Prop
  | .norm env' => ∃ σ', Reach C σ σ' ∧ σ'.pc = σ.pc + len ∧ σ'.stack = σ.stack ∧ σ'.frames = σ.frames ∧
      σ'.inited = σ.inited ∧ σ'.locals.length = σ.locals.length ∧ VarsRel cx st'.scopes env' σ'.locals σ'.args
  | .ret v => ∃ σ', Reach C σ σ' ∧ C[σ'.pc]? = some (.ins .ret) ∧ σ'.stack = v ++ σ.stack ∧ σ'.frames = σ.frames
  | .brk _ _ => False
  | .cont _ _ => False

def StmtOK (P : Prog) (cx : Ctx) (fuel : Nat) : Prop :=
  ∀ (s : Stmt) (lp : LoopCtx), totalSz lp = 0 → ∀ (st : St) (env : Env) (C : Code) (σ : State) (out : SOut),
    Simple s → exec fuel P env s = .ok out →
    Placed C σ.pc (compS cx lp s st).1 → (labelsOf C).Nodup →
    VarsRel cx st.scopes env σ.locals σ.args → Wf st →
    (compS cx lp s st).2.cnt ≤ σ.locals.length →
    StmtPost cx C σ (compS cx lp s st).1.length (compS cx lp s st).2 out

theorem stmtOK_zero (P : Prog) (cx : Ctx) : StmtOK P cx 0 := by
  intro s lp _ st env C σ out _ hex
  simp [exec] at hex

/-- run the code of an expression in value mode. -/
theorem run_expr {P : Prog} {cx : Ctx} {sc : Scopes} {env : Env} {fuel : Nat} {e : Expr} {nl : Nat} {C : Code} {σ : State} {v : Val}
    (hnc : NoCall e) (hev : evalE fuel P env e = .ok v) (hp : Placed C σ.pc (compE cx sc e .val nl).1)
    (hn : (labelsOf C).Nodup) (hrel : VarsRel cx sc env σ.locals σ.args) :
    Reach C σ { σ with pc := σ.pc + (compE cx sc e .val nl).1.length, stack := v :: σ.stack } :=
  exprOK P cx sc env fuel e .val nl C σ v hnc hev hp hn hrel

/-- one data instruction at the current position. -/
theorem run_data {C : Code} {σ : State} {op : Op Nat} {stk loc ar : List Val}
    (hf : C[σ.pc]? = some (.ins op)) (hd : isData op = true)
    (hs : stepData op σ.stack σ.locals σ.args = some (stk, loc, ar)) :
    Reach C σ { σ with pc := σ.pc + 1, stack := stk, locals := loc, args := ar } :=
  Reach.step (step_data hf hd hs)

theorem res_ok_inj {α : Type} {a b : α} (h : (Res.ok a : Res α) = .ok b) : a = b := by cases h; rfl

end NeoModel.CompileProofs

namespace NeoModel.CompileProofs
open NeoModel.MiniVm NeoModel.MiniVm.Asm NeoModel.MiniGo NeoModel.Compile

theorem framesRel_ne {locals : List Val} {fs : List MiniGo.Frame} {sc : Scopes} (h : FramesRel locals fs sc) (hne : sc ≠ []) :
    ∃ f fr s sr, fs = f :: fr ∧ sc = s :: sr := by
  cases fs with
  | nil => cases sc with
    | nil => exact absurd rfl hne
    | cons s sr => simp [FramesRel] at h
  | cons f fr => cases sc with
    | nil => simp [FramesRel] at h
    | cons s sr => exact ⟨f, fr, s, sr, rfl, rfl⟩

/-- declaring `x` with value `v` on top of the stack: STLOC into the fresh slot. -/
theorem declare_step {cx : Ctx} {st : St} {env : Env} {C : Code} {σ : State} {x : String} {v : Val} {rest : List Val}
    (hrel : VarsRel cx st.scopes env σ.locals σ.args) (hwf : Wf st) (hlen : st.cnt < σ.locals.length)
    (hp : Placed C σ.pc (storeVar cx (st.newLocal x).scopes x)) (hstk : σ.stack = v :: rest) :
    ∃ σ', Reach C σ σ' ∧ σ'.pc = σ.pc + (storeVar cx (st.newLocal x).scopes x).length ∧ σ'.stack = rest ∧
      σ'.frames = σ.frames ∧ σ'.inited = σ.inited ∧ σ'.locals.length = σ.locals.length ∧
      VarsRel cx (st.newLocal x).scopes (env.declare x v) σ'.locals σ'.args := by
  obtain ⟨f, fr, s, sr, hfs, hsc⟩ := framesRel_ne hrel.frames hwf.nonempty
  have hnew : (st.newLocal x).scopes = ((x, st.cnt) :: s) :: sr := by simp [St.newLocal, hsc]
  have hstore : storeVar cx (st.newLocal x).scopes x = [.ins (.stloc st.cnt)] := by
    simp [storeVar, hnew, lookupSlot, List.lookup]
  rw [hstore] at hp ⊢
  have hfresh : st.cnt ∉ slotsOf st.scopes := fun hm => Nat.lt_irrefl _ (hwf.bound _ hm)
  refine ⟨{ σ with pc := σ.pc + 1, stack := rest, locals := σ.locals.set st.cnt v }, ?_, by simp, rfl, rfl, rfl, by simp, ?_⟩
  · apply run_data hp.head rfl
    simp [stepData, hstk, setAt, hlen]
  · have hfr := hrel.frames
    rw [hfs, hsc] at hfr
    rw [hsc] at hfresh
    have := framesRel_declare (x := x) (v := v) hfr hfresh hlen
    have hdecl : env.declare x v = { env with frames := ((x, v) :: f) :: fr } := by simp [Env.declare, hfs]
    rw [hdecl, hnew]
    exact ⟨this, hrel.argNames, hrel.argVals⟩

/-- assigning `v` (on top of the stack) to the existing variable `x`. -/
theorem assign_step {cx : Ctx} {sc : Scopes} {env env' : Env} {C : Code} {σ : State} {x : String} {v : Val} {rest : List Val}
    (hrel : VarsRel cx sc env σ.locals σ.args) (hnd : (slotsOf sc).Nodup) (hs : env.set x v = some env')
    (hp : Placed C σ.pc (storeVar cx sc x)) (hstk : σ.stack = v :: rest) :
    ∃ σ', Reach C σ σ' ∧ σ'.pc = σ.pc + (storeVar cx sc x).length ∧ σ'.stack = rest ∧
      σ'.frames = σ.frames ∧ σ'.inited = σ.inited ∧ σ'.locals.length = σ.locals.length ∧
      VarsRel cx sc env' σ'.locals σ'.args := by
  obtain ⟨op, hop, hd, loc', ar', hstep, hrel', hl⟩ := store_correct hrel hnd hs
  rw [hop] at hp ⊢
  refine ⟨{ σ with pc := σ.pc + 1, stack := rest, locals := loc', args := ar' }, ?_, by simp, rfl, rfl, rfl, hl, hrel'⟩
  apply run_data hp.head hd
  rw [hstk]
  exact hstep rest

end NeoModel.CompileProofs

namespace NeoModel.CompileProofs
open NeoModel.MiniVm NeoModel.MiniVm.Asm NeoModel.MiniGo NeoModel.Compile

theorem newLocal_tail (st : St) (x : String) (h : st.scopes ≠ []) : (st.newLocal x).scopes.tail = st.scopes.tail := by
  unfold St.newLocal
  cases hs : st.scopes with
  | nil => exact absurd hs h
  | cons a b => simp

/-- statements declare into the innermost scope only. -/
theorem compS_tail (cx : Ctx) : ∀ (s : Stmt) (lp : LoopCtx) (st : St), st.scopes ≠ [] →
    (compS cx lp s st).2.scopes.tail = st.scopes.tail := by
  intro s
  induction s with
  | skip => intro lp st _; simp [compS]
  | seq a b iha ihb =>
    intro lp st hne
    simp only [compS]
    have h1 := (compS_mono cx a lp st hne).2
    rw [ihb lp _ (ne_nil_of_length h1 hne), iha lp st hne]
  | define x e => intro lp st hne; simp only [compS]; exact newLocal_tail _ x hne
  | assign x e => intro lp st _; simp [compS]
  | opAssign x op e => intro lp st _; simp [compS]
  | inc x => intro lp st _; simp [compS]
  | dec x => intro lp st _; simp [compS]
  | varDecl x b init =>
    intro lp st hne
    cases init with
    | none => simp only [compS]; exact newLocal_tail _ x hne
    | some e => simp only [compS]; exact newLocal_tail _ x hne
  | exprStmt e => intro lp st _; simp [compS]
  | discard e => intro lp st _; simp [compS]
  | panicS e => intro lp st _; simp [compS]
  | ite c thn k els iht ihe =>
    intro lp st hne
    have ht := iht lp (ifStT cx c st) (by simp)
    simp only [ifStT_scopes, List.tail_cons] at ht
    have h1 : (ifSt1 cx lp c thn st).scopes = [] :: st.scopes := by simp [ifSt1, ht]
    cases k with
    | none => rw [compS_ite_none]; simp [h1]
    | block =>
      rw [compS_ite_block]
      have he := ihe lp (ifSt1 cx lp c thn st).push (by simp)
      simp only [push_scopes, List.tail_cons] at he
      simp [he, h1]
    | elif =>
      rw [compS_ite_elif]
      have he := ihe lp (ifSt1 cx lp c thn st) (by simp [h1])
      simp [he, h1]
  | loop init cond post body ihi ihp ihb =>
    intro lp st hne
    rw [compS_loop]
    have h0 := ihi lp (forSt0 st) (by simp)
    simp only [forSt0_scopes, List.tail_cons] at h0
    have hl1 := (compS_mono cx init lp (forSt0 st) (by simp)).2
    have hne1 : (forSt1 cx lp init st).scopes ≠ [] := ne_nil_of_length hl1 (by simp)
    have hb := ihb (forEnt st :: lp) (forStB cx lp init cond st) (by simp)
    simp only [forStB_scopes, List.tail_cons] at hb
    have h3 : (forSt3 cx lp init cond body st).scopes = (forSt1 cx lp init st).scopes := by simp [forSt3, hb]
    have hp := ihp lp (forSt3 cx lp init cond body st) (by rw [h3]; exact hne1)
    simp only [pop_scopes, hp, h3]
    show (forSt1 cx lp init st).scopes.tail.tail = st.scopes.tail
    rw [show (forSt1 cx lp init st).scopes.tail = st.scopes from h0]
  | ret e => intro lp st _; cases e <;> simp [compS]
  | ret2 e1 e2 => intro lp st _; simp [compS]
  | define2 x y e =>
    intro lp st hne; simp only [compS]
    rw [newLocal_tail _ x (newLocal_ne _ y)]; exact newLocal_tail _ y hne
  | brk => intro lp st _; simp [compS]
  | cont => intro lp st _; simp [compS]
  | block body ih =>
    intro lp st hne
    rw [compS_block]
    have h := ih lp st.push (by simp)
    simp only [push_scopes, List.tail_cons] at h
    simp [h]
  | labeled l s ih => intro lp st hne; rw [compS_labeled]; exact ih lp _ hne
  | brkL l =>
    intro lp st hne
    simp only [compS]
    rcases phantom_cases cx st l with h | h <;> rw [h]
    exact newLocal_tail _ l hne
  | contL l =>
    intro lp st hne
    simp only [compS]
    rcases phantom_cases cx st l with h | h <;> rw [h]
    exact newLocal_tail _ l hne
  | switchS tag ti cl ih =>
    intro lp st hne
    rw [compS_switch]
    have h := ih (swEnt cx tag ti st :: lp) (swSt1 cx tag cl st) (by simp)
    simp only [swSt1_scopes, List.tail_cons] at h
    simp [h]
  | caseS e1 e2 body ft rest ihb ihr =>
    intro lp st hne
    rw [compS_case]
    have hb := ihb lp (csStB cx lp e1 e2 st) (by simp)
    simp only [csStB_scopes, List.tail_cons] at hb
    have hR : (csStR cx lp e1 e2 body st).scopes = st.scopes := by simp [csStR, hb]
    have hr := ihr lp (csStR cx lp e1 e2 body st) (by rw [hR]; exact hne)
    simp only [hr, hR]
  | defaultS body ih =>
    intro lp st hne
    rw [compS_default]
    have h := ih lp (dfStB st) (by simp)
    simp only [dfStB_scopes, List.tail_cons] at h
    simp [h]

end NeoModel.CompileProofs

namespace NeoModel.CompileProofs
open NeoModel.MiniVm NeoModel.MiniVm.Asm NeoModel.MiniGo NeoModel.Compile

theorem varsRel_pop {cx : Ctx} {sc : Scopes} {env : Env} {locals args : List Val}
    (h : VarsRel cx sc env locals args) : VarsRel cx sc.tail env.pop locals args := by
  refine ⟨?_, h.argNames, h.argVals⟩
  have hfr := h.frames
  simp only [Env.pop]
  cases hf : env.frames with
  | nil =>
    rw [hf] at hfr
    cases sc with
    | nil => simp [FramesRel]
    | cons a b => simp [FramesRel] at hfr
  | cons f fr =>
    rw [hf] at hfr
    cases sc with
    | nil => simp [FramesRel] at hfr
    | cons a b => simp only [FramesRel] at hfr; simpa using hfr.2

theorem varsRel_push {cx : Ctx} {sc : Scopes} {env : Env} {locals args : List Val}
    (h : VarsRel cx sc env locals args) : VarsRel cx ([] :: sc) env.push locals args :=
  ⟨by simp [Env.push, FramesRel, FrameRel]; exact h.frames, h.argNames, h.argVals⟩

end NeoModel.CompileProofs

namespace NeoModel.CompileProofs
open NeoModel.MiniVm NeoModel.MiniVm.Asm NeoModel.MiniGo NeoModel.Compile

theorem Placed.cast {C : Code} {pc pc' : Nat} {c : Code} (h : Placed C pc c) (e : pc = pc') : Placed C pc' c := e ▸ h

theorem skip_lbl {C : Code} {σ : State} {l : Nat} {r : Code} (hp : Placed C σ.pc (.lbl l :: r)) :
    Reach C σ { σ with pc := σ.pc + 1 } := Reach.step (step_lbl hp.head)

theorem ifSt1_scopes (cx : Ctx) (lp : LoopCtx) (c : Expr) (thn : Stmt) (st : St) :
    (ifSt1 cx lp c thn st).scopes = [] :: st.scopes := by
  have ht := compS_tail cx thn lp (ifStT cx c st) (by simp)
  simp only [ifStT_scopes, List.tail_cons] at ht
  simp [ifSt1, ht]

theorem stmtOK_succ (P : Prog) (cx : Ctx) (fuel : Nat) (ih : StmtOK P cx fuel) : StmtOK P cx (fuel + 1) := by
  intro s lp hz st env C σ out hsimp hex hp hn hrel hwf hcnt
  cases s with
  | skip =>
    simp only [exec] at hex
    cases hex
    simp only [compS, StmtPost]
    exact ⟨σ, Reach.refl _ _, by simp, rfl, rfl, rfl, rfl, hrel⟩
  | seq a b =>
    simp only [Simple] at hsimp
    simp only [exec] at hex
    simp only [compS] at hp hcnt ⊢
    have hmb := compS_mono cx b lp (compS cx lp a st).2 (compS_wf cx a lp st hwf).nonempty
    cases ha : exec fuel P env a with
    | ok oa =>
      rw [ha] at hex
      have hpa := ih a lp hz st env C σ oa hsimp.1 ha hp.left hn hrel hwf (Nat.le_trans hmb.1 hcnt)
      cases oa with
      | norm env1 =>
        simp only at hex
        obtain ⟨σ1, hr1, hpc1, hst1, hfr1, hin1, hl1, hrel1⟩ := hpa
        have hpb : Placed C σ1.pc (compS cx lp b (compS cx lp a st).2).1 := by rw [hpc1]; exact hp.right
        have hpost := ih b lp hz _ env1 C σ1 out hsimp.2 hex hpb hn hrel1 (compS_wf cx a lp st hwf) (by rw [hl1]; exact hcnt)
        cases out with
        | norm env2 =>
          obtain ⟨σ2, hr2, hpc2, hst2, hfr2, hin2, hl2, hrel2⟩ := hpost
          exact ⟨σ2, hr1.trans hr2, by rw [hpc2, hpc1]; simp [Nat.add_assoc], by rw [hst2, hst1], by rw [hfr2, hfr1],
            by rw [hin2, hin1], by rw [hl2, hl1], hrel2⟩
        | ret v =>
          obtain ⟨σ2, hr2, hret, hst2, hfr2⟩ := hpost
          exact ⟨σ2, hr1.trans hr2, hret, by rw [hst2, hst1], by rw [hfr2, hfr1]⟩
        | brk e => exact hpost
        | cont e => exact hpost
      | ret v =>
        simp only at hex
        cases hex
        obtain ⟨σ1, hr1, hret, hst1, hfr1⟩ := hpa
        exact ⟨σ1, hr1, hret, hst1, hfr1⟩
      | brk e => exact hpa.elim
      | cont e => exact hpa.elim
    | panic => rw [ha] at hex; simp at hex
    | overflow => rw [ha] at hex; simp at hex
    | stuck => rw [ha] at hex; simp at hex
    | timeout => rw [ha] at hex; simp at hex
  | define x e =>
    simp only [Simple] at hsimp
    simp only [exec] at hex
    simp only [compS] at hp hcnt ⊢
    cases hv : evalE fuel P env e with
    | ok v =>
      rw [hv] at hex
      simp only at hex
      cases hex
      have hr1 := run_expr hsimp hv hp.left hn hrel
      have hwf' : Wf { st with nl := (compE cx st.scopes e .val st.nl).2 } := wf_nl hwf _
      have hcnt' : st.cnt < σ.locals.length := by
        rw [newLocal_cnt] at hcnt
        exact hcnt
      obtain ⟨σ2, hr2, hpc2, hst2, hfr2, hin2, hl2, hrel2⟩ := declare_step (cx := cx)
        (st := { st with nl := (compE cx st.scopes e .val st.nl).2 }) (env := env) (C := C)
        (σ := { σ with pc := σ.pc + (compE cx st.scopes e .val st.nl).1.length, stack := v :: σ.stack })
        (x := x) (v := v) (rest := σ.stack) hrel hwf' hcnt' hp.right rfl
      exact ⟨σ2, hr1.trans hr2, by rw [hpc2]; simp [Nat.add_assoc], hst2, hfr2, hin2, hl2, hrel2⟩
    | panic => rw [hv] at hex; simp at hex
    | overflow => rw [hv] at hex; simp at hex
    | stuck => rw [hv] at hex; simp at hex
    | timeout => rw [hv] at hex; simp at hex
  | assign x e =>
    simp only [Simple] at hsimp
    simp only [exec] at hex
    simp only [compS] at hp hcnt ⊢
    cases hv : evalE fuel P env e with
    | ok v =>
      rw [hv] at hex
      simp only at hex
      cases hset : env.set x v with
      | none => rw [hset] at hex; simp at hex
      | some env' =>
        rw [hset] at hex
        simp only at hex
        cases hex
        have hr1 := run_expr hsimp hv hp.left hn hrel
        obtain ⟨σ2, hr2, hpc2, hst2, hfr2, hin2, hl2, hrel2⟩ := assign_step (cx := cx) (sc := st.scopes) (C := C)
          (σ := { σ with pc := σ.pc + (compE cx st.scopes e .val st.nl).1.length, stack := v :: σ.stack })
          (rest := σ.stack) hrel hwf.nodup hset hp.right rfl
        exact ⟨σ2, hr1.trans hr2, by rw [hpc2]; simp [Nat.add_assoc], hst2, hfr2, hin2, hl2, hrel2⟩
    | panic => rw [hv] at hex; simp at hex
    | overflow => rw [hv] at hex; simp at hex
    | stuck => rw [hv] at hex; simp at hex
    | timeout => rw [hv] at hex; simp at hex
  | discard e =>
    simp only [Simple] at hsimp
    simp only [exec] at hex
    simp only [compS] at hp hcnt ⊢
    cases hv : evalE fuel P env e with
    | ok v =>
      rw [hv] at hex
      simp only at hex
      cases hex
      have hr1 := run_expr hsimp hv hp.left hn hrel
      have hr2 := run_data (C := C)
        (σ := { σ with pc := σ.pc + (compE cx st.scopes e .val st.nl).1.length, stack := v :: σ.stack })
        (op := .drop) (stk := σ.stack) (loc := σ.locals) (ar := σ.args) hp.right.head rfl (by simp [stepData])
      exact ⟨_, hr1.trans hr2, by simp [Nat.add_assoc], rfl, rfl, rfl, rfl, hrel⟩
    | panic => rw [hv] at hex; simp at hex
    | overflow => rw [hv] at hex; simp at hex
    | stuck => rw [hv] at hex; simp at hex
    | timeout => rw [hv] at hex; simp at hex
  | ret e =>
    have hd0 : dropItems (totalSz lp) = [] := by rw [hz]; rfl
    cases e with
    | none =>
      simp only [exec] at hex
      cases hex
      simp only [compS, hd0, List.nil_append] at hp ⊢
      exact ⟨σ, Reach.refl _ _, hp.head, by simp, rfl⟩
    | some e =>
      simp only [Simple] at hsimp
      simp only [exec] at hex
      simp only [compS, hd0, List.nil_append] at hp ⊢
      cases hv : evalE fuel P env e with
      | ok v =>
        rw [hv] at hex
        simp only at hex
        cases hex
        have hr1 := run_expr hsimp hv hp.left hn hrel
        exact ⟨_, hr1, hp.right.head, by simp, rfl⟩
      | panic => rw [hv] at hex; simp at hex
      | overflow => rw [hv] at hex; simp at hex
      | stuck => rw [hv] at hex; simp at hex
      | timeout => rw [hv] at hex; simp at hex
  | exprStmt e => simp [Simple] at hsimp
  | panicS e => simp [Simple] at hsimp
  | ret2 e1 e2 => simp [Simple] at hsimp
  | define2 x y e => simp [Simple] at hsimp
  | loop a b c d => simp [Simple] at hsimp
  | brk => simp [Simple] at hsimp
  | cont => simp [Simple] at hsimp
  | labeled l s => simp [Simple] at hsimp
  | brkL l => simp [Simple] at hsimp
  | contL l => simp [Simple] at hsimp
  | switchS a b c => simp [Simple] at hsimp
  | caseS a b c d e => simp [Simple] at hsimp
  | defaultS a => simp [Simple] at hsimp
  | varDecl x isBool init =>
    cases init with
    | some e => simp [Simple] at hsimp
    | none =>
      simp only [exec] at hex
      cases hex
      simp only [compS] at hp hcnt ⊢
      have hcnt' : st.cnt < σ.locals.length := by
        rw [newLocal_cnt] at hcnt
        exact hcnt
      have hd : isData (if isBool then (Op.pushF : Op Nat) else Op.pushInt 0) = true := by cases isBool <;> rfl
      have hr1 := run_data (C := C) (σ := σ) (op := if isBool then Op.pushF else Op.pushInt 0)
        (stk := (if isBool then Val.bool false else Val.int 0) :: σ.stack) (loc := σ.locals) (ar := σ.args)
        hp.left.head hd (by cases isBool <;> simp [stepData])
      obtain ⟨σ2, hr2, hpc2, hst2, hfr2, hin2, hl2, hrel2⟩ := declare_step (cx := cx) (st := st) (env := env) (C := C)
        (σ := { σ with pc := σ.pc + 1, stack := (if isBool then Val.bool false else Val.int 0) :: σ.stack })
        (x := x) (v := if isBool then Val.bool false else Val.int 0) (rest := σ.stack) hrel hwf hcnt'
        (by simpa using hp.right) rfl
      exact ⟨σ2, hr1.trans hr2, by rw [hpc2]; simp [Nat.add_assoc]; omega, hst2, hfr2, hin2, hl2, hrel2⟩
  | block body =>
    simp only [Simple] at hsimp
    simp only [exec] at hex
    rw [compS_block] at hp hcnt ⊢
    have hrel' : VarsRel cx st.push.scopes env.push σ.locals σ.args :=
      ⟨by simp [Env.push, FramesRel, FrameRel]; exact hrel.frames, hrel.argNames, hrel.argVals⟩
    cases hb : exec fuel P env.push body with
    | ok ob =>
      rw [hb] at hex
      have hpost := ih body lp hz st.push env.push C σ ob hsimp hb hp hn hrel' (wf_push hwf) (by simpa using hcnt)
      cases ob with
      | norm e' =>
        simp only at hex
        cases hex
        obtain ⟨σ2, hr2, hpc2, hst2, hfr2, hin2, hl2, hrel2⟩ := hpost
        refine ⟨σ2, hr2, hpc2, hst2, hfr2, hin2, hl2, ?_⟩
        -- drop the innermost frame / scope
        have hfr := hrel2.frames
        refine ⟨?_, hrel2.argNames, hrel2.argVals⟩
        simp only [pop_scopes, Env.pop]
        cases hf : e'.frames with
        | nil =>
          rw [hf] at hfr
          cases hsc : (compS cx lp body st.push).2.scopes with
          | nil => simp [FramesRel]
          | cons a b => rw [hsc] at hfr; simp [FramesRel] at hfr
        | cons f fr =>
          rw [hf] at hfr
          cases hsc : (compS cx lp body st.push).2.scopes with
          | nil => rw [hsc] at hfr; simp [FramesRel] at hfr
          | cons a b => rw [hsc] at hfr; simp only [FramesRel] at hfr; simpa using hfr.2
      | ret v =>
        simp only at hex
        cases hex
        exact hpost
      | brk e => exact hpost.elim
      | cont e => exact hpost.elim
    | panic => rw [hb] at hex; simp at hex
    | overflow => rw [hb] at hex; simp at hex
    | stuck => rw [hb] at hex; simp at hex
    | timeout => rw [hb] at hex; simp at hex
  | inc x =>
    simp only [exec] at hex
    simp only [compS] at hp hcnt ⊢
    cases hg : env.get x with
    | none => rw [hg] at hex; simp at hex
    | some old =>
      rw [hg] at hex
      cases old with
      | bool b => simp at hex
      | null => simp at hex
      | int n =>
        simp only at hex
        cases hc : chk (n + 1) with
        | ok r =>
          rw [hc] at hex
          simp only at hex
          obtain ⟨rfl, hfit⟩ := chk_ok hc
          cases hset : env.set x (.int (n + 1)) with
          | none => rw [hset] at hex; simp at hex
          | some env' =>
            rw [hset] at hex
            simp only at hex
            cases hex
            obtain ⟨op, hop, hkind, hstep⟩ := load_correct hrel hg
            rw [hop] at hp ⊢
            have hdl : isData op = true := by rcases hkind with h | ⟨j, h⟩ <;> subst h <;> rfl
            have hr1 := run_data (C := C) (σ := σ) hp.left.left.head hdl (hstep σ.stack)
            have hr2 := run_data (C := C) (σ := { σ with pc := σ.pc + 1, stack := .int n :: σ.stack })
              (op := .inc) (stk := .int (n + 1) :: σ.stack) (loc := σ.locals) (ar := σ.args)
              (by simpa using hp.left.right.head) rfl (by simp [stepData, Val.toInt?, mkInt, hfit])
            obtain ⟨σ3, hr3, hpc3, hst3, hfr3, hin3, hl3, hrel3⟩ := assign_step (cx := cx) (sc := st.scopes) (C := C)
              (σ := { σ with pc := σ.pc + 1 + 1, stack := .int (n + 1) :: σ.stack })
              (rest := σ.stack) hrel hwf.nodup hset (by simpa [Nat.add_assoc] using hp.right) rfl
            exact ⟨σ3, hr1.trans (hr2.trans hr3), by rw [hpc3]; simp [Nat.add_assoc]; omega, hst3, hfr3, hin3, hl3, hrel3⟩
        | panic => rw [hc] at hex; simp at hex
        | overflow => rw [hc] at hex; simp at hex
        | stuck => rw [hc] at hex; simp at hex
        | timeout => rw [hc] at hex; simp at hex
  | dec x =>
    simp only [exec] at hex
    simp only [compS] at hp hcnt ⊢
    cases hg : env.get x with
    | none => rw [hg] at hex; simp at hex
    | some old =>
      rw [hg] at hex
      cases old with
      | bool b => simp at hex
      | null => simp at hex
      | int n =>
        simp only at hex
        cases hc : chk (n - 1) with
        | ok r =>
          rw [hc] at hex
          simp only at hex
          obtain ⟨rfl, hfit⟩ := chk_ok hc
          cases hset : env.set x (.int (n - 1)) with
          | none => rw [hset] at hex; simp at hex
          | some env' =>
            rw [hset] at hex
            simp only at hex
            cases hex
            obtain ⟨op, hop, hkind, hstep⟩ := load_correct hrel hg
            rw [hop] at hp ⊢
            have hdl : isData op = true := by rcases hkind with h | ⟨j, h⟩ <;> subst h <;> rfl
            have hr1 := run_data (C := C) (σ := σ) hp.left.left.head hdl (hstep σ.stack)
            have hr2 := run_data (C := C) (σ := { σ with pc := σ.pc + 1, stack := .int n :: σ.stack })
              (op := .dec) (stk := .int (n - 1) :: σ.stack) (loc := σ.locals) (ar := σ.args)
              (by simpa using hp.left.right.head) rfl (by simp [stepData, Val.toInt?, mkInt, hfit])
            obtain ⟨σ3, hr3, hpc3, hst3, hfr3, hin3, hl3, hrel3⟩ := assign_step (cx := cx) (sc := st.scopes) (C := C)
              (σ := { σ with pc := σ.pc + 1 + 1, stack := .int (n - 1) :: σ.stack })
              (rest := σ.stack) hrel hwf.nodup hset (by simpa [Nat.add_assoc] using hp.right) rfl
            exact ⟨σ3, hr1.trans (hr2.trans hr3), by rw [hpc3]; simp [Nat.add_assoc]; omega, hst3, hfr3, hin3, hl3, hrel3⟩
        | panic => rw [hc] at hex; simp at hex
        | overflow => rw [hc] at hex; simp at hex
        | stuck => rw [hc] at hex; simp at hex
        | timeout => rw [hc] at hex; simp at hex
  | opAssign x op e =>
    simp only [Simple] at hsimp
    simp only [exec] at hex
    simp only [compS] at hp hcnt ⊢
    cases hg : env.get x with
    | none => rw [hg] at hex; simp at hex
    | some old =>
      rw [hg] at hex
      simp only at hex
      cases hv : evalE fuel P env e with
      | ok v =>
        rw [hv] at hex
        simp only at hex
        cases hb : evalBin op old v with
        | ok r =>
          rw [hb] at hex
          simp only at hex
          cases hset : env.set x r with
          | none => rw [hset] at hex; simp at hex
          | some env' =>
            rw [hset] at hex
            simp only at hex
            cases hex
            obtain ⟨lop, hop, hkind, hstep⟩ := load_correct hrel hg
            rw [hop] at hp ⊢
            have hdl : isData lop = true := by rcases hkind with h | ⟨j, h⟩ <;> subst h <;> rfl
            have hr1 := run_data (C := C) (σ := σ) hp.left.left.left.head hdl (hstep σ.stack)
            have hr2 := run_expr (C := C) (σ := { σ with pc := σ.pc + 1, stack := old :: σ.stack }) hsimp.1 hv
              (by simpa using hp.left.left.right) hn hrel
            have hdt : isData (tokenOp op) = true := by cases op <;> rfl
            have hr3 := run_data (C := C)
              (σ := { σ with pc := σ.pc + 1 + (compE cx st.scopes e .val st.nl).1.length, stack := v :: old :: σ.stack })
              (op := tokenOp op) (stk := r :: σ.stack) (loc := σ.locals) (ar := σ.args)
              ((hp.left.right.cast (by simp; omega)).head) hdt (evalBin_token hsimp.2 hb _ _ _)
            obtain ⟨σ4, hr4, hpc4, hst4, hfr4, hin4, hl4, hrel4⟩ := assign_step (cx := cx) (sc := st.scopes) (C := C)
              (σ := { σ with pc := σ.pc + 1 + (compE cx st.scopes e .val st.nl).1.length + 1, stack := r :: σ.stack })
              (rest := σ.stack) hrel hwf.nodup hset (hp.right.cast (by simp; omega)) rfl
            exact ⟨σ4, hr1.trans (hr2.trans (hr3.trans hr4)), by rw [hpc4]; simp [Nat.add_assoc]; omega, hst4, hfr4, hin4, hl4, hrel4⟩
        | panic => rw [hb] at hex; simp at hex
        | overflow => rw [hb] at hex; simp at hex
        | stuck => rw [hb] at hex; simp at hex
        | timeout => rw [hb] at hex; simp at hex
      | panic => rw [hv] at hex; simp at hex
      | overflow => rw [hv] at hex; simp at hex
      | stuck => rw [hv] at hex; simp at hex
      | timeout => rw [hv] at hex; simp at hex
  | ite c thn k els =>
    simp only [Simple] at hsimp
    simp only [exec] at hex
    have hrelP : VarsRel cx (ifSt0 st).scopes env.push σ.locals σ.args := varsRel_push hrel
    have hwfC : Wf { ifSt0 st with nl := (ifCond cx c st).2 } := wf_nl (wf_push (wf_nl hwf _)) _
    have hwf1 : Wf (ifSt1 cx lp c thn st) := by
      have := compS_wf cx (.block thn) lp _ hwfC
      rwa [compS_block] at this
    cases k with
    | none =>
      rw [compS_ite_none] at hp hcnt ⊢
      simp only at hp hcnt ⊢
      have hpc : Placed C σ.pc (ifCond cx c st).1 := hp.left.left.left
      have hpl : Placed C (σ.pc + (ifCond cx c st).1.length) [Item.lbl st.nl] := hp.left.left.right
      have hpt : Placed C (σ.pc + (ifCond cx c st).1.length + 1) (compS cx lp thn (ifStT cx c st)).1 :=
        hp.left.right.cast (by simp [Nat.add_assoc])
      have hpe : Placed C (σ.pc + (ifCond cx c st).1.length + 1 + (compS cx lp thn (ifStT cx c st)).1.length)
          [Item.lbl (st.nl + 1), Item.lbl (st.nl + 2)] := hp.right.cast (by simp [Nat.add_assoc]; omega)
      have hlElse := hpe.label hn
      -- the two marks at the end
      have hend : ∀ τ : State, τ.pc = σ.pc + (ifCond cx c st).1.length + 1 + (compS cx lp thn (ifStT cx c st)).1.length →
          Reach C τ { τ with pc := τ.pc + 1 + 1 } := by
        intro τ hτ
        have h1 := skip_lbl (σ := τ) (hτ ▸ hpe)
        have h2 := skip_lbl (σ := { τ with pc := τ.pc + 1 }) (by simpa [hτ] using hpe.tail)
        exact h1.trans h2
      cases hcv : evalE fuel P env.push c with
      | ok cv =>
        rw [hcv] at hex
        have hpost := exprOK P cx (ifSt0 st).scopes env.push fuel c (.jump false (st.nl + 1)) (ifSt0 st).nl C σ cv hsimp.1 hcv hpc hn hrelP
        simp only [Post] at hpost
        have hjmp := hpost _ hlElse
        cases cv with
        | bool b =>
          cases b with
          | true =>
            simp only at hex
            simp only [Val.toBool, Bool.true_eq_false, beq_iff_eq, if_false] at hjmp
            have h1 := skip_lbl (σ := { σ with pc := σ.pc + (ifCond cx c st).1.length }) hpl
            cases hb : exec fuel P env.push (.block thn) with
            | ok ob =>
              rw [hb] at hex
              have hpostB := ih (.block thn) lp hz { ifSt0 st with nl := (ifCond cx c st).2 } env.push C
                { σ with pc := σ.pc + (ifCond cx c st).1.length + 1 } ob hsimp.2.1 hb
                (by rw [compS_block]; exact hpt) hn hrelP hwfC
                (by rw [compS_block]; show (compS cx lp thn (ifStT cx c st)).2.pop.cnt ≤ _; simpa [ifSt1] using hcnt)
              rw [compS_block] at hpostB
              cases ob with
              | norm e' =>
                simp only at hex
                cases hex
                obtain ⟨σ2, hr2, hpc2, hst2, hfr2, hin2, hl2, hrel2⟩ := hpostB
                have h3 := hend σ2 (by rw [hpc2]; rfl)
                refine ⟨_, hjmp.trans (h1.trans (hr2.trans h3)), ?_, hst2, hfr2, hin2, hl2, ?_⟩
                · have : σ2.pc = σ.pc + (ifCond cx c st).1.length + 1 + (compS cx lp thn (ifStT cx c st)).1.length := by
                    rw [hpc2]; rfl
                  simp [this, Nat.add_assoc]; omega
                · exact varsRel_pop hrel2
              | ret v =>
                simp only at hex
                cases hex
                obtain ⟨σ2, hr2, hret, hst2, hfr2⟩ := hpostB
                exact ⟨σ2, hjmp.trans (h1.trans hr2), hret, hst2, hfr2⟩
              | brk e => exact hpostB.elim
              | cont e => exact hpostB.elim
            | panic => rw [hb] at hex; simp at hex
            | overflow => rw [hb] at hex; simp at hex
            | stuck => rw [hb] at hex; simp at hex
            | timeout => rw [hb] at hex; simp at hex
          | false =>
            simp only at hex
            cases hex
            simp only [Val.toBool, beq_self_eq_true, if_true] at hjmp
            have h3 := hend { σ with pc := σ.pc + (ifCond cx c st).1.length + 1 + (compS cx lp thn (ifStT cx c st)).1.length } rfl
            refine ⟨_, hjmp.trans h3, ?_, rfl, rfl, rfl, rfl, ?_⟩
            · simp [Nat.add_assoc]; omega
            · simpa [ifSt1_scopes] using hrel
        | int n => simp at hex
        | null => simp at hex
      | panic => rw [hcv] at hex; simp at hex
      | overflow => rw [hcv] at hex; simp at hex
      | stuck => rw [hcv] at hex; simp at hex
      | timeout => rw [hcv] at hex; simp at hex
    | block =>
      rw [compS_ite_block] at hp hcnt ⊢
      simp only at hp hcnt ⊢
      have hscF : ((compS cx lp els (ifSt1 cx lp c thn st).push).2.pop.pop).scopes = st.scopes := by
        have ht := compS_tail cx els lp ((ifSt1 cx lp c thn st).push) (by simp [ifSt1_scopes])
        simp [ht, ifSt1_scopes]
      have hcntE : (ifSt1 cx lp c thn st).cnt ≤ ((compS cx lp els (ifSt1 cx lp c thn st).push).2.pop.pop).cnt := by
        have := (compS_mono cx els lp ((ifSt1 cx lp c thn st).push) (by simp [ifSt1_scopes])).1
        simpa using this
      have hpc : Placed C σ.pc (ifCond cx c st).1 := hp.left.left.left.left.left
      have hpl : Placed C (σ.pc + (ifCond cx c st).1.length) [Item.lbl st.nl] := hp.left.left.left.left.right
      have hpt : Placed C (σ.pc + (ifCond cx c st).1.length + 1) (compS cx lp thn (ifStT cx c st)).1 :=
        hp.left.left.left.right.cast (by simp [Nat.add_assoc])
      have hpj : Placed C (σ.pc + (ifCond cx c st).1.length + 1 + (compS cx lp thn (ifStT cx c st)).1.length)
          [Item.ins (.jmp (st.nl + 2)), Item.lbl (st.nl + 1)] := hp.left.left.right.cast (by simp [Nat.add_assoc]; omega)
      have hpe : Placed C (σ.pc + (ifCond cx c st).1.length + 1 + (compS cx lp thn (ifStT cx c st)).1.length + 1 + 1)
          (compS cx lp els ((ifSt1 cx lp c thn st).push)).1 := hp.left.right.cast (by simp [Nat.add_assoc]; omega)
      have hpz : Placed C (σ.pc + (ifCond cx c st).1.length + 1 + (compS cx lp thn (ifStT cx c st)).1.length + 1 + 1 +
          (compS cx lp els ((ifSt1 cx lp c thn st).push)).1.length) [Item.lbl (st.nl + 2)] := hp.right.cast (by simp [Nat.add_assoc]; omega)
      have hlElse := hpj.tail.label hn
      have hlEnd := hpz.label hn
      have hend : ∀ τ : State, τ.pc = σ.pc + (ifCond cx c st).1.length + 1 + (compS cx lp thn (ifStT cx c st)).1.length + 1 + 1 +
          (compS cx lp els ((ifSt1 cx lp c thn st).push)).1.length → Reach C τ { τ with pc := τ.pc + 1 } := by
        intro τ hτ
        exact skip_lbl (σ := τ) (hτ ▸ hpz)
      cases hcv : evalE fuel P env.push c with
      | ok cv =>
        rw [hcv] at hex
        have hpost := exprOK P cx (ifSt0 st).scopes env.push fuel c (.jump false (st.nl + 1)) (ifSt0 st).nl C σ cv hsimp.1 hcv hpc hn hrelP
        simp only [Post] at hpost
        have hjmp := hpost _ hlElse
        cases cv with
        | bool b =>
          cases b with
          | true =>
            simp only at hex
            simp only [Val.toBool, Bool.true_eq_false, beq_iff_eq, if_false] at hjmp
            have h1 := skip_lbl (σ := { σ with pc := σ.pc + (ifCond cx c st).1.length }) hpl
            cases hb : exec fuel P env.push (.block thn) with
            | ok ob =>
              rw [hb] at hex
              have hpostB := ih (.block thn) lp hz { ifSt0 st with nl := (ifCond cx c st).2 } env.push C
                { σ with pc := σ.pc + (ifCond cx c st).1.length + 1 } ob hsimp.2.1 hb
                (by rw [compS_block]; exact hpt) hn hrelP hwfC
                (by rw [compS_block]; show (compS cx lp thn (ifStT cx c st)).2.pop.cnt ≤ _
                    exact Nat.le_trans hcntE (by simpa using hcnt))
              rw [compS_block] at hpostB
              cases ob with
              | norm e' =>
                simp only at hex
                cases hex
                obtain ⟨σ2, hr2, hpc2, hst2, hfr2, hin2, hl2, hrel2⟩ := hpostB
                have hpc2' : σ2.pc = σ.pc + (ifCond cx c st).1.length + 1 + (compS cx lp thn (ifStT cx c st)).1.length := by
                  rw [hpc2]; rfl
                have hj := step_jmp (s := σ2) (hpc2' ▸ hpj.head) hlEnd
                have h3 := hend { σ2 with pc := σ.pc + (ifCond cx c st).1.length + 1 + (compS cx lp thn (ifStT cx c st)).1.length + 1 + 1 +
                  (compS cx lp els ((ifSt1 cx lp c thn st).push)).1.length } rfl
                refine ⟨_, hjmp.trans (h1.trans (hr2.trans ((Reach.step hj).trans h3))), ?_, hst2, hfr2, hin2, hl2, ?_⟩
                · simp [Nat.add_assoc]; omega
                · rw [hscF]
                  change VarsRel cx (ifSt1 cx lp c thn st).scopes e' _ _ at hrel2
                  rw [ifSt1_scopes] at hrel2
                  exact varsRel_pop hrel2
              | ret v =>
                simp only at hex
                cases hex
                obtain ⟨σ2, hr2, hret, hst2, hfr2⟩ := hpostB
                exact ⟨σ2, hjmp.trans (h1.trans hr2), hret, hst2, hfr2⟩
              | brk e => exact hpostB.elim
              | cont e => exact hpostB.elim
            | panic => rw [hb] at hex; simp at hex
            | overflow => rw [hb] at hex; simp at hex
            | stuck => rw [hb] at hex; simp at hex
            | timeout => rw [hb] at hex; simp at hex
          | false =>
            simp only at hex
            simp only [Val.toBool, beq_self_eq_true, if_true] at hjmp
            have h1 := skip_lbl (σ := { σ with pc := σ.pc + (ifCond cx c st).1.length + 1 + (compS cx lp thn (ifStT cx c st)).1.length + 1 }) hpj.tail
            have hrelE : VarsRel cx (ifSt1 cx lp c thn st).scopes env.push σ.locals σ.args := by
              rw [ifSt1_scopes]; exact varsRel_push hrel
            cases hb : exec fuel P env.push (.block els) with
            | ok ob =>
              rw [hb] at hex
              have hpostB := ih (.block els) lp hz (ifSt1 cx lp c thn st) env.push C
                { σ with pc := σ.pc + (ifCond cx c st).1.length + 1 + (compS cx lp thn (ifStT cx c st)).1.length + 1 + 1 } ob hsimp.2.2 hb
                (by rw [compS_block]; exact hpe) hn hrelE hwf1
                (by rw [compS_block]; show (compS cx lp els (ifSt1 cx lp c thn st).push).2.pop.cnt ≤ _; simpa using hcnt)
              rw [compS_block] at hpostB
              cases ob with
              | norm e' =>
                simp only at hex
                cases hex
                obtain ⟨σ2, hr2, hpc2, hst2, hfr2, hin2, hl2, hrel2⟩ := hpostB
                have hpc2' : σ2.pc = σ.pc + (ifCond cx c st).1.length + 1 + (compS cx lp thn (ifStT cx c st)).1.length + 1 + 1 +
                    (compS cx lp els ((ifSt1 cx lp c thn st).push)).1.length := by rw [hpc2] <;> rfl
                have h3 := hend σ2 hpc2'
                refine ⟨_, hjmp.trans (h1.trans (hr2.trans h3)), ?_, hst2, hfr2, hin2, hl2, ?_⟩
                · simp [hpc2', Nat.add_assoc]; omega
                · exact varsRel_pop hrel2
              | ret v =>
                simp only at hex
                cases hex
                obtain ⟨σ2, hr2, hret, hst2, hfr2⟩ := hpostB
                exact ⟨σ2, hjmp.trans (h1.trans hr2), hret, hst2, hfr2⟩
              | brk e => exact hpostB.elim
              | cont e => exact hpostB.elim
            | panic => rw [hb] at hex; simp at hex
            | overflow => rw [hb] at hex; simp at hex
            | stuck => rw [hb] at hex; simp at hex
            | timeout => rw [hb] at hex; simp at hex
        | int n => simp at hex
        | null => simp at hex
      | panic => rw [hcv] at hex; simp at hex
      | overflow => rw [hcv] at hex; simp at hex
      | stuck => rw [hcv] at hex; simp at hex
      | timeout => rw [hcv] at hex; simp at hex
    | elif =>
      rw [compS_ite_elif] at hp hcnt ⊢
      simp only at hp hcnt ⊢
      have hscF : ((compS cx lp els (ifSt1 cx lp c thn st)).2.pop).scopes = st.scopes := by
        have ht := compS_tail cx els lp (ifSt1 cx lp c thn st) (by simp [ifSt1_scopes])
        simp [ht, ifSt1_scopes]
      have hcntE : (ifSt1 cx lp c thn st).cnt ≤ ((compS cx lp els (ifSt1 cx lp c thn st)).2.pop).cnt := by
        have := (compS_mono cx els lp (ifSt1 cx lp c thn st) (by simp [ifSt1_scopes])).1
        simpa using this
      have hpc : Placed C σ.pc (ifCond cx c st).1 := hp.left.left.left.left.left
      have hpl : Placed C (σ.pc + (ifCond cx c st).1.length) [Item.lbl st.nl] := hp.left.left.left.left.right
      have hpt : Placed C (σ.pc + (ifCond cx c st).1.length + 1) (compS cx lp thn (ifStT cx c st)).1 :=
        hp.left.left.left.right.cast (by simp [Nat.add_assoc])
      have hpj : Placed C (σ.pc + (ifCond cx c st).1.length + 1 + (compS cx lp thn (ifStT cx c st)).1.length)
          [Item.ins (.jmp (st.nl + 2)), Item.lbl (st.nl + 1)] := hp.left.left.right.cast (by simp [Nat.add_assoc]; omega)
      have hpe : Placed C (σ.pc + (ifCond cx c st).1.length + 1 + (compS cx lp thn (ifStT cx c st)).1.length + 1 + 1)
          (compS cx lp els (ifSt1 cx lp c thn st)).1 := hp.left.right.cast (by simp [Nat.add_assoc]; omega)
      have hpz : Placed C (σ.pc + (ifCond cx c st).1.length + 1 + (compS cx lp thn (ifStT cx c st)).1.length + 1 + 1 +
          (compS cx lp els (ifSt1 cx lp c thn st)).1.length) [Item.lbl (st.nl + 2)] := hp.right.cast (by simp [Nat.add_assoc]; omega)
      have hlElse := hpj.tail.label hn
      have hlEnd := hpz.label hn
      have hend : ∀ τ : State, τ.pc = σ.pc + (ifCond cx c st).1.length + 1 + (compS cx lp thn (ifStT cx c st)).1.length + 1 + 1 +
          (compS cx lp els (ifSt1 cx lp c thn st)).1.length → Reach C τ { τ with pc := τ.pc + 1 } := by
        intro τ hτ
        exact skip_lbl (σ := τ) (hτ ▸ hpz)
      cases hcv : evalE fuel P env.push c with
      | ok cv =>
        rw [hcv] at hex
        have hpost := exprOK P cx (ifSt0 st).scopes env.push fuel c (.jump false (st.nl + 1)) (ifSt0 st).nl C σ cv hsimp.1 hcv hpc hn hrelP
        simp only [Post] at hpost
        have hjmp := hpost _ hlElse
        cases cv with
        | bool b =>
          cases b with
          | true =>
            simp only at hex
            simp only [Val.toBool, Bool.true_eq_false, beq_iff_eq, if_false] at hjmp
            have h1 := skip_lbl (σ := { σ with pc := σ.pc + (ifCond cx c st).1.length }) hpl
            cases hb : exec fuel P env.push (.block thn) with
            | ok ob =>
              rw [hb] at hex
              have hpostB := ih (.block thn) lp hz { ifSt0 st with nl := (ifCond cx c st).2 } env.push C
                { σ with pc := σ.pc + (ifCond cx c st).1.length + 1 } ob hsimp.2.1 hb
                (by rw [compS_block]; exact hpt) hn hrelP hwfC
                (by rw [compS_block]; show (compS cx lp thn (ifStT cx c st)).2.pop.cnt ≤ _
                    exact Nat.le_trans hcntE (by simpa using hcnt))
              rw [compS_block] at hpostB
              cases ob with
              | norm e' =>
                simp only at hex
                cases hex
                obtain ⟨σ2, hr2, hpc2, hst2, hfr2, hin2, hl2, hrel2⟩ := hpostB
                have hpc2' : σ2.pc = σ.pc + (ifCond cx c st).1.length + 1 + (compS cx lp thn (ifStT cx c st)).1.length := by
                  rw [hpc2]; rfl
                have hj := step_jmp (s := σ2) (hpc2' ▸ hpj.head) hlEnd
                have h3 := hend { σ2 with pc := σ.pc + (ifCond cx c st).1.length + 1 + (compS cx lp thn (ifStT cx c st)).1.length + 1 + 1 +
                  (compS cx lp els (ifSt1 cx lp c thn st)).1.length } rfl
                refine ⟨_, hjmp.trans (h1.trans (hr2.trans ((Reach.step hj).trans h3))), ?_, hst2, hfr2, hin2, hl2, ?_⟩
                · simp [Nat.add_assoc]; omega
                · rw [hscF]
                  change VarsRel cx (ifSt1 cx lp c thn st).scopes e' _ _ at hrel2
                  rw [ifSt1_scopes] at hrel2
                  exact varsRel_pop hrel2
              | ret v =>
                simp only at hex
                cases hex
                obtain ⟨σ2, hr2, hret, hst2, hfr2⟩ := hpostB
                exact ⟨σ2, hjmp.trans (h1.trans hr2), hret, hst2, hfr2⟩
              | brk e => exact hpostB.elim
              | cont e => exact hpostB.elim
            | panic => rw [hb] at hex; simp at hex
            | overflow => rw [hb] at hex; simp at hex
            | stuck => rw [hb] at hex; simp at hex
            | timeout => rw [hb] at hex; simp at hex
          | false =>
            simp only at hex
            simp only [Val.toBool, beq_self_eq_true, if_true] at hjmp
            have h1 := skip_lbl (σ := { σ with pc := σ.pc + (ifCond cx c st).1.length + 1 + (compS cx lp thn (ifStT cx c st)).1.length + 1 }) hpj.tail
            have hrelE : VarsRel cx (ifSt1 cx lp c thn st).scopes env.push σ.locals σ.args := by
              rw [ifSt1_scopes]; exact varsRel_push hrel
            cases hb : exec fuel P env.push (els) with
            | ok ob =>
              rw [hb] at hex
              have hpostB := ih (els) lp hz (ifSt1 cx lp c thn st) env.push C
                { σ with pc := σ.pc + (ifCond cx c st).1.length + 1 + (compS cx lp thn (ifStT cx c st)).1.length + 1 + 1 } ob hsimp.2.2 hb
                (by exact hpe) hn hrelE hwf1
                (by simpa using hcnt)
              skip
              cases ob with
              | norm e' =>
                simp only at hex
                cases hex
                obtain ⟨σ2, hr2, hpc2, hst2, hfr2, hin2, hl2, hrel2⟩ := hpostB
                have hpc2' : σ2.pc = σ.pc + (ifCond cx c st).1.length + 1 + (compS cx lp thn (ifStT cx c st)).1.length + 1 + 1 +
                    (compS cx lp els (ifSt1 cx lp c thn st)).1.length := by rw [hpc2] <;> rfl
                have h3 := hend σ2 hpc2'
                refine ⟨_, hjmp.trans (h1.trans (hr2.trans h3)), ?_, hst2, hfr2, hin2, hl2, ?_⟩
                · simp [hpc2', Nat.add_assoc]; omega
                · exact varsRel_pop hrel2
              | ret v =>
                simp only at hex
                cases hex
                obtain ⟨σ2, hr2, hret, hst2, hfr2⟩ := hpostB
                exact ⟨σ2, hjmp.trans (h1.trans hr2), hret, hst2, hfr2⟩
              | brk e => exact hpostB.elim
              | cont e => exact hpostB.elim
            | panic => rw [hb] at hex; simp at hex
            | overflow => rw [hb] at hex; simp at hex
            | stuck => rw [hb] at hex; simp at hex
            | timeout => rw [hb] at hex; simp at hex
        | int n => simp at hex
        | null => simp at hex
      | panic => rw [hcv] at hex; simp at hex
      | overflow => rw [hcv] at hex; simp at hex
      | stuck => rw [hcv] at hex; simp at hex
      | timeout => rw [hcv] at hex; simp at hex


end NeoModel.CompileProofs

namespace NeoModel.CompileProofs
open NeoModel.MiniVm NeoModel.MiniVm.Asm NeoModel.MiniGo NeoModel.Compile

theorem stmtOK (P : Prog) (cx : Ctx) : ∀ fuel, StmtOK P cx fuel := by
  intro fuel
  induction fuel with
  | zero => exact stmtOK_zero P cx
  | succ n ih => exact stmtOK_succ P cx n ih

theorem run_halt {C : Code} {σ σ' : State} {stk : List Val} (h : Reach C σ σ') (hs : Asm.step C σ' = .halt stk) :
    ∃ n, Asm.run C n σ = .halt stk := by
  obtain ⟨n, hn⟩ := h
  refine ⟨n + 1, ?_⟩
  rw [run_add C n 1 σ σ' hn]
  simp [Asm.run, hs]

theorem zip_fst {α β : Type} (a : List α) (b : List β) (h : a.length = b.length) : (a.zip b).map Prod.fst = a := by
  induction a generalizing b with
  | nil => simp
  | cons x r ih => cases b with
    | nil => simp at h
    | cons y s => simp at h; simp [ih s h]

theorem zip_snd {α β : Type} (a : List α) (b : List β) (h : a.length = b.length) : (a.zip b).map Prod.snd = b := by
  induction a generalizing b with
  | nil => cases b with
    | nil => rfl
    | cons y s => simp at h
  | cons x r ih => cases b with
    | nil => simp at h
    | cons y s => simp at h; simp [ih s h]

/-- INITSLOT (or the NOP that stands for a removed INITSLOT 0,0) at the function entry. -/
theorem initSlot_step {C : Code} {pc N : Nat} {vs rest : List Val} {np : Nat} (hnp : np = vs.length)
    (hf : C[pc]? = some (initSlotItem N np)) :
    ∃ b, Reach C { pc := pc, stack := vs ++ rest, locals := [], args := [], frames := [] }
      { pc := pc + 1, stack := rest, locals := List.replicate N .null, args := vs, frames := [], inited := b } := by
  by_cases hz : (N == 0 && np == 0) = true
  · have hN : N = 0 := by simp at hz; exact hz.1
    have hA : vs = [] := by
      have : np = 0 := by simp at hz; exact hz.2
      rw [this] at hnp
      exact List.length_eq_zero_iff.mp hnp.symm
    simp only [initSlotItem, hz, if_true] at hf
    subst hN; subst hA
    refine ⟨false, Reach.step ?_⟩
    simp [Asm.step, hf, stepOp, stepData]
  · have hz' : (N == 0 && np == 0) = false := by simpa using hz
    simp only [initSlotItem, hz', Bool.false_eq_true, if_false] at hf
    refine ⟨true, Reach.step ?_⟩
    simp [Asm.step, hf, stepOp, hnp]
    intro h0 hv
    subst h0; subst hv
    simp at hnp
    subst hnp
    simp at hz

/-- a whole function whose body is call-free and loop-free: called with its arguments on the stack it halts with
    the value the Go semantics returns, on top of the rest of the stack. -/
theorem func_correct (P : Prog) (tbl : List (String × Nat × Nat)) (d : FuncDecl) (label nl : Nat) (C : Code) (pc0 : Nat)
    (vs rest : List Val) (v : Val) (fuel : Nat)
    (hsimple : Simple d.body) (hlen : d.params.length = vs.length)
    (hex : exec fuel P { frames := [[]], args := d.params.zip vs } (.block d.body) = .ok (.ret [v]))
    (hp : Placed C pc0 (compFunc tbl d label nl).1) (hn : (labelsOf C).Nodup) :
    ∃ n, Asm.run C n { pc := pc0, stack := vs ++ rest, locals := [], args := [], frames := [] } = .halt (v :: rest) := by
  have hcode : (compFunc tbl d label nl).1 =
      [Item.lbl label, initSlotItem (compS { funcs := tbl, args := d.params } [] (.block d.body) { nl := nl, cnt := 0, scopes := [[]] }).2.cnt d.params.length] ++
        (compS { funcs := tbl, args := d.params } [] (.block d.body) { nl := nl, cnt := 0, scopes := [[]] }).1 ++
        (if lastIsRet d.body then [] else [Item.ins .ret]) := rfl
  rw [hcode] at hp
  generalize hN : (compS { funcs := tbl, args := d.params } [] (.block d.body) { nl := nl, cnt := 0, scopes := [[]] }).2.cnt = N at hp
  -- the label mark
  have h1 := skip_lbl (σ := { pc := pc0, stack := vs ++ rest, locals := [], args := [], frames := [] }) hp.left.left
  -- INITSLOT (or its removed form)
  obtain ⟨b, h2⟩ := initSlot_step (C := C) (pc := pc0 + 1) (N := N) (vs := vs) (rest := rest) hlen hp.left.left.tail.head
  -- the body
  have hrel : VarsRel { funcs := tbl, args := d.params } [[]] { frames := [[]], args := d.params.zip vs } (List.replicate N .null) vs :=
    ⟨by simp [FramesRel, FrameRel], zip_fst _ _ hlen, zip_snd _ _ hlen⟩
  have hwf : Wf { nl := nl, cnt := 0, scopes := [[]] } := ⟨by simp [slotsOf], by simp [slotsOf], by simp⟩
  have hbody := stmtOK P { funcs := tbl, args := d.params } fuel (.block d.body) [] rfl { nl := nl, cnt := 0, scopes := [[]] } _ C
    { pc := pc0 + 1 + 1, stack := rest, locals := List.replicate N .null, args := vs, frames := [], inited := b } _
    (by simpa [Simple] using hsimple) hex (hp.left.right.cast (by simp)) hn hrel hwf (by simp [hN])
  obtain ⟨σ3, hr3, hret, hst3, hfr3⟩ := hbody
  apply run_halt (h1.trans (h2.trans hr3))
  simp only at hst3 hfr3
  simp [Asm.step, hret, stepOp, hfr3, hst3]

end NeoModel.CompileProofs

