import NeoModel.Proofs.VmAcctSpecGas
namespace NeoModel.Vm

/-! ### try nesting depth -/

def callsOk (cs : List CallCtx) : Prop := ∀ c ∈ cs, c.tries.length ≤ maxTryNestingDepth
def framesOk (fs : List Frame) : Prop := ∀ f ∈ fs, callsOk f.calls

theorem callsOk_cons {c : CallCtx} {cs : List CallCtx} : callsOk (c :: cs) ↔ c.tries.length ≤ maxTryNestingDepth ∧ callsOk cs := by
  simp [callsOk]
theorem framesOk_cons {f : Frame} {fs : List Frame} : framesOk (f :: fs) ↔ callsOk f.calls ∧ framesOk fs := by
  simp [framesOk]

theorem callsOk_nil : callsOk [] := by intro c hc; cases hc
theorem framesOk_nil : framesOk [] := by intro c hc; cases hc

theorem dropFinished_len (ts : List TryCtx) : (dropFinished ts).length ≤ ts.length := by
  induction ts with
  | nil => simp [dropFinished]
  | cons e es ih => simp only [dropFinished]; split <;> simp <;> omega

theorem unwindCalls_ok : ∀ (cs cs' : List CallCtx) (d : Bool) (t : Nat), unwindCalls cs = some (cs', d, t) → callsOk cs → callsOk cs' := by
  intro cs
  induction cs with
  | nil => intro cs' d t h; simp [unwindCalls] at h
  | cons c t ih =>
    intro cs' d tt h hok
    have ⟨hc, ht⟩ := callsOk_cons.1 hok
    simp only [unwindCalls] at h
    split at h
    · exact ih cs' d tt h ht
    · rename_i e es hdf
      have hl := dropFinished_len c.tries
      rw [hdf] at hl
      simp only [List.length_cons] at hl
      split at h <;> (simp only [Option.some.injEq, Prod.mk.injEq] at h; rw [← h.1]; exact callsOk_cons.2 ⟨by simp; omega, ht⟩)

theorem unwindFrames_ok (ex : Item) : ∀ (fs fs' : List Frame) (d : Bool), unwindFrames ex fs = .ok (fs', d) → framesOk fs → framesOk fs' := by
  intro fs
  induction fs with
  | nil => intro fs' d h; simp [unwindFrames] at h
  | cons f t ih =>
    intro fs' d h hok
    have ⟨hf, ht⟩ := framesOk_cons.1 hok
    simp only [unwindFrames] at h
    split at h
    · exact ih fs' d h ht
    · rename_i calls deliver target hu
      split at h
      · cases h
      · simp only [Except.ok.injEq, Prod.mk.injEq] at h
        rw [← h.1]
        exact framesOk_cons.2 ⟨unwindCalls_ok _ _ _ _ hu hf, ht⟩

theorem raise_ok (v v' : Vm) (ex : Item) (h : v.raise ex = .ok v') (hok : framesOk v.frames) : framesOk v'.frames := by
  simp only [Vm.raise, bind, Except.bind, pure, Except.pure] at h
  split at h
  · cases h
  · rename_i p hu
    obtain ⟨fs', d⟩ := p
    simp only [Except.ok.injEq] at h
    subst h
    exact unwindFrames_ok ex v.frames fs' d hu hok

set_option maxHeartbeats 1600000 in
/-- no instruction lets a try stack grow beyond MaxTryNestingDepth -/
theorem exec_tries (v : Vm) (ins : Instr) (v' : Vm) (h : exec v ins = .ok v') (hok : framesOk v.frames) : framesOk v'.frames := by
  unfold exec at h
  split at h
  · cases h
  · rename_i f fs hf
    split at h
    · cases h
    · rename_i c cs hc
      rw [hf] at hok
      obtain ⟨hfo, hfs⟩ := framesOk_cons.1 hok
      rw [hc] at hfo
      obtain ⟨hco, hcs⟩ := callsOk_cons.1 hfo
      simp only [bind, Except.bind, pure, Except.pure, throw, throwThe, MonadExceptOf.throw] at h
      repeat' split at h
      all_goals first
        | (cases h; done)
        | (refine raise_ok _ v' _ h ?_
           first
             | (rw [hf]; exact hok)
             | exact framesOk_cons.2 ⟨by rw [hc]; exact hfo, hfs⟩)
        | (simp only [Except.ok.injEq] at h
           subst h
           simp only [framesOk_cons, callsOk_cons, List.length_cons, List.length_nil] at *
           first
             | exact framesOk_nil
             | (and_intros
                all_goals first
                  | assumption
                  | exact hfs.1
                  | exact hfs.2
                  | exact hcs.1
                  | exact hcs.2
                  | exact callsOk_nil
                  | (have hlen := congrArg List.length ‹c.tries = _ :: _›
                     simp only [List.length_cons, maxTryNestingDepth] at *
                     omega)
                  | exact hok.1
                  | (simp only [maxTryNestingDepth] at *; omega)))

end NeoModel.Vm

namespace NeoModel.Vm

/-- the VM limits that hold in every state that has not faulted -/
structure Lim (v : Vm) : Prop where
  depth : v.state ≠ .fault → v.depth ≤ maxInvocationStackSize
  tries : v.state ≠ .fault → framesOk v.frames
  reach : v.state ≠ .fault → reach v ≤ maxStackSize

theorem lim_fault (v : Vm) (msg : String) : Lim (v.fault msg) :=
  ⟨fun h => absurd rfl h, fun h => absurd rfl h, fun h => absurd rfl h⟩

theorem setIp_frames (v : Vm) (ip : Nat) (h : framesOk v.frames) : framesOk (v.setIp ip).frames := by
  unfold Vm.setIp
  split
  · rename_i f fs hf
    split
    · rename_i c cs hc
      rw [hf] at h
      obtain ⟨h1, h2⟩ := framesOk_cons.1 h
      rw [hc] at h1
      obtain ⟨h3, h4⟩ := callsOk_cons.1 h1
      exact framesOk_cons.2 ⟨callsOk_cons.2 ⟨h3, h4⟩, h2⟩
    · exact h
  · exact h

theorem tail_lim (v2 : Vm) (ins : Instr) (over : Bool) (hd : v2.depth ≤ maxInvocationStackSize) (ht : framesOk v2.frames) :
    Lim (if over = true then v2.fault "GAS limit exceeded" else
      match exec v2 ins with
      | .error e => v2.fault e
      | .ok v' => if reach v' > maxStackSize then v'.fault "stack is too big" else v') := by
  cases over with
  | true => exact lim_fault _ _
  | false =>
    simp only [Bool.false_eq_true, if_false]
    cases he : exec v2 ins with
    | error e => exact lim_fault _ _
    | ok v' =>
      simp only
      split
      · exact lim_fault _ _
      · rename_i hr
        have e := exec_eff v2 ins v' he
        refine ⟨fun _ => ?_, fun _ => exec_tries v2 ins v' he ht, fun _ => Nat.le_of_not_lt hr⟩
        have h5 := e.depth
        rcases Nat.lt_or_ge v2.depth maxInvocationStackSize with hl | hl
        · omega
        · have := e.depthMax hl; omega

/-- **limits, one step**: whatever the price getter and the gas limit are -/
theorem step_lim (cfg : Cfg) (v : Vm) (h : Lim v) : Lim (step cfg v) := by
  unfold step
  by_cases hrun : v.state = .none
  · simp only [hrun, ne_eq, not_true_eq_false, if_false]
    have hnf : v.state ≠ .fault := by rw [hrun]; decide
    split
    · exact lim_fault _ _
    · split
      · exact lim_fault _ _
      · split
        · exact lim_fault _ _
        · rename_i ins hdec
          obtain ⟨s1, _, _, _⟩ := setIp_props v ins.next
          have hfr := setIp_frames v ins.next (h.tries hnf)
          refine tail_lim _ ins _ ?_ ?_
          · split
            · split
              · show (v.setIp ins.next).depth ≤ _; rw [s1]; exact h.depth hnf
              · rw [s1]; exact h.depth hnf
            · rw [s1]; exact h.depth hnf
          · split
            · split
              · exact hfr
              · exact hfr
            · exact hfr
  · simp only [ne_eq, hrun, not_false_eq_true, if_true]; exact h

theorem run_lim (cfg : Cfg) : ∀ (n : Nat) (v : Vm), Lim v → Lim (run cfg n v) := by
  intro n
  induction n with
  | zero => intro v h; exact h
  | succ n ih =>
    intro v h
    simp only [run]
    split
    · exact h
    · exact ih _ (step_lim cfg v h)

end NeoModel.Vm
