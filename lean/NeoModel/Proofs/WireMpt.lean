/-
C17 — MPT node wire format: the encoder only depends on the references of the children (flattening preserves
bytes and hash), the encoding of a node within the caps decodes to its flat form, and whatever the decoder accepts
respects the caps and consumed input. Core Lean only.
-/
import NeoModel.Model.Wire.Mpt
import NeoModel.Proofs.WireCodec
namespace NeoModel.Wire
namespace Node
open NeoModel.Generated
open Codec

theorem ref_asRef (H : Bytes → Bytes) (c : Node) : ref H (asRef H c) = ref H c := by
  cases c <;> simp [asRef, ref, enc]

theorem refs_map_asRef (H : Bytes → Bytes) (cs : List Node) : refs H (cs.map (asRef H)) = refs H cs := by
  induction cs with
  | nil => rfl
  | cons c cs ih => simp only [List.map_cons, refs, ref_asRef, ih]

/-- the encoder only looks at the references of the children: flattening does not change the bytes. -/
theorem enc_flatten (H : Bytes → Bytes) (v : Node) : enc H (flatten H v) = enc H v := by
  cases v <;> simp [flatten, enc, refs_map_asRef, ref_asRef]

theorem hashOf_flatten (H : Bytes → Bytes) (v : Node) : hashOf H (flatten H v) = hashOf H v := by
  cases v <;> simp [flatten, hashOf, enc, refs_map_asRef, ref_asRef]

theorem tagNat (n : Nat) (h : n < 256) : (UInt8.ofNat n).toNat = n := by
  simp [UInt8.toNat_ofNat']; omega

theorem decNode_cons (fuel depth : Nat) (t : UInt8) (r : Bytes) :
    decNode (fuel + 1) depth (t :: r) =
      if depth > WireLimits.mptMaxPathLength then none else
      if t.toNat = WireLimits.mptBranchT then
        (decListWith (decNode fuel (depth + 1)) WireLimits.mptChildrenCount r).map fun (cs, r') => (.branch cs, r')
      else if t.toNat = WireLimits.mptExtensionT then
        match readVarBytes WireLimits.mptMaxPathLength r with
        | none => none
        | some (k, r') => (decNode fuel (depth + 1) r').map fun (n, r'') => (.ext k n, r'')
      else if t.toNat = WireLimits.mptLeafT then
        (readVarBytes WireLimits.mptMaxValueLength r).map fun (v, r') => (.leaf v, r')
      else if t.toNat = WireLimits.mptHashT then
        (takeN 32 r).map fun (h, r') => (.hash h, r')
      else if t.toNat = WireLimits.mptEmptyT then some (.empty, r)
      else none := rfl

/-- a child reference is read back as the hash / empty node it denotes. -/
theorem decNode_ref (H : Bytes → Bytes) (h32 : ∀ x, (H x).length = 32) (fuel depth : Nat)
    (hd : depth ≤ WireLimits.mptMaxPathLength) (c : Node) (hc : childOK c) (r : Bytes) :
    decNode (fuel + 1) depth (ref H c ++ r) = some (asRef H c, r) := by
  have hdep : ¬ depth > WireLimits.mptMaxPathLength := by omega
  have tH : (UInt8.ofNat WireLimits.mptHashT).toNat = WireLimits.mptHashT := by decide
  have tE : (UInt8.ofNat WireLimits.mptEmptyT).toNat = WireLimits.mptEmptyT := by decide
  have n1 : ¬ WireLimits.mptHashT = WireLimits.mptBranchT := by decide
  have n2 : ¬ WireLimits.mptHashT = WireLimits.mptExtensionT := by decide
  have n3 : ¬ WireLimits.mptHashT = WireLimits.mptLeafT := by decide
  have m1 : ¬ WireLimits.mptEmptyT = WireLimits.mptBranchT := by decide
  have m2 : ¬ WireLimits.mptEmptyT = WireLimits.mptExtensionT := by decide
  have m3 : ¬ WireLimits.mptEmptyT = WireLimits.mptLeafT := by decide
  have m4 : ¬ WireLimits.mptEmptyT = WireLimits.mptHashT := by decide
  have hash32 : ∀ (x : Bytes), x.length = 32 → takeN 32 (x ++ r) = some (x, r) := by
    intro x hx; have := takeN_append x r; rw [hx] at this; exact this
  cases c with
  | empty => simp only [ref, asRef, List.cons_append, List.nil_append, decNode_cons]; simp [hdep, tE, m1, m2, m3, m4]
  | hash h =>
    simp only [childOK] at hc
    simp only [ref, asRef, List.cons_append, decNode_cons]; simp [hdep, tH, n1, n2, n3, hash32 h hc]
  | branch cs => simp only [ref, asRef, enc, List.cons_append, decNode_cons]; simp [hdep, tH, n1, n2, n3, hash32 _ (h32 _)]
  | ext k n => simp only [ref, asRef, enc, List.cons_append, decNode_cons]; simp [hdep, tH, n1, n2, n3, hash32 _ (h32 _)]
  | leaf v => simp only [ref, asRef, enc, List.cons_append, decNode_cons]; simp [hdep, tH, n1, n2, n3, hash32 _ (h32 _)]

theorem decList_refs (H : Bytes → Bytes) (h32 : ∀ x, (H x).length = 32) (fuel depth : Nat)
    (hd : depth ≤ WireLimits.mptMaxPathLength) (cs : List Node) (hc : ∀ c ∈ cs, childOK c) (r : Bytes) :
    decListWith (decNode (fuel + 1) depth) cs.length (refs H cs ++ r) = some (cs.map (asRef H), r) := by
  induction cs with
  | nil => simp [decListWith, refs]
  | cons c cs ih =>
    simp only [List.length_cons, decListWith, refs, List.append_assoc]
    rw [decNode_ref H h32 fuel depth hd c (hc c (by simp))]
    simp only
    rw [ih (fun x hx => hc x (by simp [hx]))]
    simp

theorem readVarBytes_put (max : Nat) (d r : Bytes) (h1 : d.length ≤ max) (h2 : d.length < 2 ^ 64) :
    readVarBytes max (putVarUint d.length ++ d ++ r) = some (d, r) :=
  (varBytes_lawful max).roundtrip d r ⟨h1, h2⟩

/-- the encoding of a node within the caps decodes to its flat form. -/
theorem decode_enc (H : Bytes → Bytes) (h32 : ∀ x, (H x).length = 32) (v : Node) (hw : WF v) (r : Bytes) :
    decode (enc H v ++ r) = some (flatten H v, r) := by
  have hdep : ¬ 0 > WireLimits.mptMaxPathLength := by decide
  have h1 : (1 : Nat) ≤ WireLimits.mptMaxPathLength := by decide
  have tB : (UInt8.ofNat WireLimits.mptBranchT).toNat = WireLimits.mptBranchT := by decide
  have tX : (UInt8.ofNat WireLimits.mptExtensionT).toNat = WireLimits.mptExtensionT := by decide
  have tL : (UInt8.ofNat WireLimits.mptLeafT).toNat = WireLimits.mptLeafT := by decide
  have tH : (UInt8.ofNat WireLimits.mptHashT).toNat = WireLimits.mptHashT := by decide
  have tE : (UInt8.ofNat WireLimits.mptEmptyT).toNat = WireLimits.mptEmptyT := by decide
  have hf : WireLimits.mptMaxPathLength + 2 = (WireLimits.mptMaxPathLength + 1) + 1 := rfl
  cases v with
  | branch cs =>
    obtain ⟨hl, hc⟩ := hw
    have := decList_refs H h32 WireLimits.mptMaxPathLength 1 h1 cs hc r
    rw [hl] at this
    simp only [decode, hf, enc, List.cons_append, decNode_cons, hdep, if_false, tB, if_true, Nat.zero_add, this,
      Option.map_some, flatten]
  | ext k n =>
    obtain ⟨hk, hn⟩ := hw
    have n1 : ¬ WireLimits.mptExtensionT = WireLimits.mptBranchT := by decide
    have hk64 : k.length < 2 ^ 64 := by
      have : WireLimits.mptMaxPathLength < 2 ^ 64 := by decide
      omega
    have hr := readVarBytes_put WireLimits.mptMaxPathLength k (ref H n ++ r) hk hk64
    have hc := decNode_ref H h32 WireLimits.mptMaxPathLength 1 h1 n hn r
    simp only [List.append_assoc] at hr
    simp only [decode, hf, enc, List.cons_append, List.append_assoc, decNode_cons, hdep, if_false, tX, n1, if_true,
      Nat.zero_add, hr, hc, Option.map_some, flatten]
  | leaf x =>
    simp only [WF] at hw
    have n1 : ¬ WireLimits.mptLeafT = WireLimits.mptBranchT := by decide
    have n2 : ¬ WireLimits.mptLeafT = WireLimits.mptExtensionT := by decide
    have hx64 : x.length < 2 ^ 64 := by
      have : WireLimits.mptMaxValueLength < 2 ^ 64 := by decide
      omega
    have hr := readVarBytes_put WireLimits.mptMaxValueLength x r hw hx64
    simp only [decode, hf, enc, List.cons_append, decNode_cons, hdep, if_false, tL, n1, n2, if_true, hr,
      Option.map_some, flatten]
  | hash h =>
    simp only [WF] at hw
    have n1 : ¬ WireLimits.mptHashT = WireLimits.mptBranchT := by decide
    have n2 : ¬ WireLimits.mptHashT = WireLimits.mptExtensionT := by decide
    have n3 : ¬ WireLimits.mptHashT = WireLimits.mptLeafT := by decide
    have ht : takeN 32 (h ++ r) = some (h, r) := by have := takeN_append h r; rw [hw] at this; exact this
    simp only [decode, hf, enc, List.cons_append, decNode_cons, hdep, if_false, tH, n1, n2, n3, if_true, ht,
      Option.map_some, flatten]
  | empty =>
    have m1 : ¬ WireLimits.mptEmptyT = WireLimits.mptBranchT := by decide
    have m2 : ¬ WireLimits.mptEmptyT = WireLimits.mptExtensionT := by decide
    have m3 : ¬ WireLimits.mptEmptyT = WireLimits.mptLeafT := by decide
    have m4 : ¬ WireLimits.mptEmptyT = WireLimits.mptHashT := by decide
    simp only [decode, hf, enc, List.cons_append, List.nil_append, decNode_cons]; simp [hdep, tE, m1, m2, m3, m4, flatten]


theorem decListWith_spec {f : Bytes → Option (Node × Bytes)}
    (hf : ∀ b v r, f b = some (v, r) → r.length < b.length ∧ childOK v) :
    ∀ n b cs r, decListWith f n b = some (cs, r) →
      cs.length = n ∧ n + r.length ≤ b.length ∧ ∀ c ∈ cs, childOK c := by
  intro n
  induction n with
  | zero =>
    intro b cs r h
    simp [decListWith] at h
    obtain ⟨h1, h2⟩ := h
    subst h1 h2
    simp
  | succ n ih =>
    intro b cs r h
    simp only [decListWith] at h
    split at h
    · simp at h
    · rename_i x r₁ h1
      split at h
      · simp at h
      · rename_i xs r₂ h2
        simp at h
        obtain ⟨e1, e2⟩ := h
        subst e1 e2
        obtain ⟨a1, a2⟩ := hf _ _ _ h1
        obtain ⟨b1, b2, b3⟩ := ih _ _ _ h2
        refine ⟨by simp [b1], by omega, ?_⟩
        intro c hc
        simp at hc
        rcases hc with hc | hc
        · subst hc; exact a2
        · exact b3 c hc

/-- whatever the decoder accepts respects the caps, and decoding consumed input. -/
theorem decNode_spec : ∀ fuel depth b v r, decNode fuel depth b = some (v, r) →
    r.length < b.length ∧ WF v ∧ childOK v := by
  intro fuel
  induction fuel with
  | zero => intro depth b v r h; simp [decNode] at h
  | succ fuel ih =>
    intro depth b v r h
    cases b with
    | nil => simp [decNode] at h
    | cons t rest =>
      rw [decNode_cons] at h
      split at h
      · simp at h
      · split at h
        · simp only [Option.map_eq_some_iff] at h
          obtain ⟨⟨cs, r'⟩, hl, he⟩ := h
          simp at he
          obtain ⟨e1, e2⟩ := he
          subst e1 e2
          obtain ⟨c1, c2, c3⟩ := decListWith_spec (fun b v r hd => ⟨(ih _ b v r hd).1, (ih _ b v r hd).2.2⟩) _ _ _ _ hl
          exact ⟨by simp; omega, ⟨c1, c3⟩, trivial⟩
        · split at h
          · split at h
            · simp at h
            · rename_i k r' hk
              simp only [Option.map_eq_some_iff] at h
              obtain ⟨⟨n, r''⟩, hn, he⟩ := h
              simp at he
              obtain ⟨e1, e2⟩ := he
              subst e1 e2
              have hs := (varBytes_strict WireLimits.mptMaxPathLength) rest k r' hk
              have hw := (varBytes_lawful WireLimits.mptMaxPathLength).dec_wf rest k r' hk
              obtain ⟨a1, _, a3⟩ := ih _ _ _ _ hn
              exact ⟨by simp; omega, ⟨hw.1, a3⟩, trivial⟩
          · split at h
            · simp only [Option.map_eq_some_iff] at h
              obtain ⟨⟨x, r'⟩, hx, he⟩ := h
              simp at he
              obtain ⟨e1, e2⟩ := he
              subst e1 e2
              have hs := (varBytes_strict WireLimits.mptMaxValueLength) rest x r' hx
              have hw := (varBytes_lawful WireLimits.mptMaxValueLength).dec_wf rest x r' hx
              exact ⟨by simp; omega, hw.1, trivial⟩
            · split at h
              · simp only [Option.map_eq_some_iff] at h
                obtain ⟨⟨x, r'⟩, hx, he⟩ := h
                simp at he
                obtain ⟨e1, e2⟩ := he
                subst e1 e2
                obtain ⟨l1, l2⟩ := takeN_some hx
                subst l2
                exact ⟨by simp; omega, l1, l1⟩
              · split at h
                · simp at h
                  obtain ⟨e1, e2⟩ := h
                  subst e1 e2
                  exact ⟨by simp, trivial, trivial⟩
                · simp at h

end Node
end NeoModel.Wire
