/-
C12 proofs, part 11: gas inside the accounting machine, and the refinement to the abstract priced
machine.

`gasStep` (Model/VmAcct/GasMachine.lean) is the accounting machine with the real VM's gas counter; it
is tied to the real VM instruction by instruction (the FAULT "gas limit exceeded" is predicted, the
consumed gas is an observation). This file proves
  * `acct_gas_bound`: in every state reached under a limit the consumed gas is ≤ the limit;
  * `acct_sim`: projected to (gas, depth, status), one `gasStep` IS one `gstep` of the abstract priced
    machine with an explicit effect `effOf`, and that effect satisfies `Eff.okFor` when the opcode
    byte fits the instruction and a SYSCALL handler charges ≥ 1 (`acct_eff_okFor`);
  * `acct_total`: hence the termination bound of the abstract machine holds for the tied machine:
    no sequence of successful instructions is longer than (limit+1)·(MaxInvocationStackSize+1)+1.
-/
import NeoModel.Model.VmAcct.GasMachine
import NeoModel.Proofs.VmAcctDepth
namespace NeoModel.VmAcct
open NeoModel.VmGas

def GSt.proj (g : GSt) : G := { gas := g.gas, depth := g.s.depth, status := if g.s.halted then .halt else .running }

/-- the effect of the abstract machine that an instruction of the accounting machine amounts to -/
def effOf (op : Op) (b : Nat) (burn : Nat) (g' : GSt) : Eff :=
  if op.isRet then .ret else if b = opSYSCALL then .sys burn g'.s.depth else .cont g'.s.depth

/-- the opcode byte fits the instruction; a SYSCALL handler charges at least 1 -/
structure Compat (b : Nat) (op : Op) (burn : Nat) : Prop where
  valid : isValidOp b = true
  ret : op.isRet = true ↔ b = opRET
  sys : b = opSYSCALL → 1 ≤ burn
  burn : burn ≠ 0 → b = opSYSCALL

theorem gasStep_some {g g' : GSt} {b : Nat} {op : Op} {burn : Nat} {unw : Option (Nat × Bool)} {ext : Bool}
    (h : gasStep g b op burn unw ext = some g') :
    overLimit g.limit (g.gas + g.base * coeff b) = false ∧ isAbortOp b = false ∧
    ∃ s', step g.s op unw ext = some s' ∧ overLimit g.limit (g.gas + g.base * coeff b + burn) = false ∧
      g' = { g with s := s', gas := g.gas + g.base * coeff b + burn } := by
  simp only [gasStep] at h
  split at h
  · cases h
  · rename_i h1
    split at h
    · cases h
    · rename_i h2
      split at h
      · cases h
      · rename_i s' hs
        split at h
        · cases h
        · rename_i h3
          simp only [Option.some.injEq] at h
          exact ⟨by simpa using h1, by simpa using h2, s', hs, by simpa using h3, h.symm⟩

/-- the exact effect of RET on the depth -/
theorem ret_depth {s : St} {r : Res} (h : exec .ret s = some r) :
    r.raised = none ∧ ((r.s.halted = true ∧ r.s.frames = []) ∨ (r.s.halted = s.halted ∧ r.s.frames.length + 1 = s.frames.length)) := by
  simp only [exec] at h
  cases hf : s.frames with
  | nil => simp [hf] at h
  | cons f rest =>
    simp only [hf] at h
    split at h
    · simp only [ok, Option.some.injEq] at h; subst h; exact ⟨rfl, Or.inl ⟨rfl, rfl⟩⟩
    · have fin : ∀ (s1 : St) (b : Bool) (m : Nat), s1.frames.length = rest.length → s1.halted = s.halted → ∀ r,
          (if b then (if m = 0 then ok (s1.setW (s1.w.push .prim)) else if m > 1 then none else ok s1) else ok s1) = some r →
          r.raised = none ∧ r.s.halted = s.halted ∧ r.s.frames.length + 1 = (f :: rest).length := by
        intro s1 b m hl hh r h
        split at h
        · split at h
          · simp only [ok, Option.some.injEq] at h; subst h; exact ⟨rfl, by simp [hh], by simp [hl]⟩
          · split at h
            · cases h
            · simp only [ok, Option.some.injEq] at h; subst h; exact ⟨rfl, hh, by simp [hl]⟩
        · simp only [ok, Option.some.injEq] at h; subst h; exact ⟨rfl, hh, by simp [hl]⟩
      cases ho : f.own with
      | some st =>
        simp only [ho] at h
        split at h
        · cases h
        · obtain ⟨a, b, c⟩ := fin _ _ st.length (by simp) (by simp) r h
          exact ⟨a, Or.inr ⟨b, c⟩⟩
      | none =>
        simp only [ho] at h
        obtain ⟨a, b, c⟩ := fin ({ s with frames := rest, c := unloadSlots f s.c } : St) _ _ rfl rfl r h
        exact ⟨a, Or.inr ⟨b, c⟩⟩

theorem step_ret {s s' : St} {unw : Option (Nat × Bool)} {ext : Bool} (h : step s .ret unw ext = some s') :
    (s'.halted = true ∧ s'.depth = 0) ∨ (s'.halted = false ∧ s'.depth + 1 = s.depth) := by
  have hnh := step_not_halted h
  simp only [step] at h
  split at h
  · cases h
  · cases he : exec .ret s with
    | none => simp [he] at h
    | some r =>
      simp only [he] at h
      obtain ⟨hr, hd⟩ := ret_depth he
      simp only [hr] at h
      split at h
      · cases h
      · simp only [Option.some.injEq] at h
        subst h
        rcases hd with ⟨h1, h2⟩ | ⟨h1, h2⟩
        · exact Or.inl ⟨h1, by simp [St.depth, h2]⟩
        · exact Or.inr ⟨by rw [h1]; exact hnh, h2⟩

/-- **simulation**: projected to (gas, depth, status), a successful `gasStep` under a limit is the
`gstep` of the abstract priced machine with the effect `effOf` -/
theorem acct_sim {g g' : GSt} {L b burn : Nat} {op : Op} {unw : Option (Nat × Bool)} {ext : Bool} (hr : Run g.s)
    (hL : g.limit = some L) (hc : Compat b op burn) (h : gasStep g b op burn unw ext = some g') :
    gstep { limit := L, base := g.base } g.proj b (effOf op b burn g') = g'.proj ∧ g'.limit = g.limit ∧ g'.base = g.base := by
  obtain ⟨h1, _, s', hs, h3, rfl⟩ := gasStep_some h
  refine ⟨?_, rfl, rfl⟩
  have hnh := step_not_halted hs
  simp only [hL, overLimit, decide_eq_false_iff_not] at h1 h3
  obtain ⟨e1, e2, e3⟩ := acct_eff_ok hr hs
  simp only [gstep, GSt.proj, hnh, Bool.false_eq_true, if_false, h1, effOf]
  by_cases hret : op.isRet = true
  · have hop : op = .ret := by cases op <;> simp [Op.isRet] at hret; rfl
    subst hop
    have hbr : b = opRET := hc.ret.1 hret
    have hb0 : burn = 0 := by
      apply Classical.byContradiction; intro hne
      have := hc.burn hne
      rw [hbr] at this; exact absurd this (by decide)
    subst hb0
    simp only [hret, if_true, Nat.add_zero]
    rcases step_ret hs with ⟨ha, hd⟩ | ⟨ha, hd⟩
    · have := (e2 ha).2
      simp [ha, hd, this]
    · have : ¬ g.s.depth ≤ 1 := by
        have := (e1 ha).1; omega
      simp only [this, if_false, ha, Bool.false_eq_true]
      congr 1
      omega
  · simp only [hret, Bool.false_eq_true, if_false]
    have hh : s'.halted = false := by
      cases hx : s'.halted with
      | false => rfl
      | true => have := (e2 hx).1; subst this; simp [Op.isRet] at hret
    by_cases hsys : b = opSYSCALL
    · simp only [hsys, if_true]
      have : ¬ g.gas + g.base * coeff opSYSCALL + burn > L := by rw [← hsys]; exact h3
      simp [this, hh, hsys]
    · have hb0 : burn = 0 := by
        apply Classical.byContradiction; intro hne; exact hsys (hc.burn hne)
      subst hb0
      simp [hsys, hh]

/-- the effect satisfies what the abstract machine's theorems assume -/
theorem acct_eff_okFor {g g' : GSt} {b burn : Nat} {op : Op} {unw : Option (Nat × Bool)} {ext : Bool} (hr : Run g.s)
    (hc : Compat b op burn) (h : gasStep g b op burn unw ext = some g') : (effOf op b burn g').okFor b := by
  obtain ⟨_, habort, s', hs, _, rfl⟩ := gasStep_some h
  obtain ⟨e1, e2, _⟩ := acct_eff_ok hr hs
  simp only [effOf]
  by_cases hret : op.isRet = true
  · simp only [hret, if_true]; exact hc.ret.1 hret
  · simp only [hret, Bool.false_eq_true, if_false]
    have hh : s'.halted = false := by
      cases hx : s'.halted with
      | false => rfl
      | true => have := (e2 hx).1; subst this; simp [Op.isRet] at hret
    obtain ⟨d1, d2⟩ := e1 hh
    by_cases hsys : b = opSYSCALL
    · simp only [hsys, if_true]; exact ⟨rfl, hc.sys hsys, d1, d2⟩
    · simp only [hsys, if_false]
      have hnr : b ≠ opRET := fun e => hret (hc.ret.2 e)
      simp only [isAbortOp, Bool.or_eq_false_iff, beq_eq_false_iff_ne, ne_eq] at habort
      exact ⟨hc.valid, hnr, hsys, habort.1, habort.2, d1, d2⟩

/-- runs of the accounting machine with gas under the limit `L` and price base `base`; every
instruction is compatible with its opcode byte -/
inductive GRun (L base : Nat) : GSt → Nat → Prop where
  | init : GRun L base { limit := some L, base := base } 0
  | step {g g' : GSt} {n : Nat} (b : Nat) (op : Op) (burn : Nat) (unw : Option (Nat × Bool)) (ext : Bool) :
      GRun L base g n → Compat b op burn → gasStep g b op burn unw ext = some g' → GRun L base g' (n + 1)

theorem gRun_inv {L base : Nat} {g : GSt} {n : Nat} (h : GRun L base g n) :
    Run g.s ∧ g.limit = some L ∧ g.base = base ∧ g.gas ≤ L := by
  induction h with
  | init => exact ⟨Run.init, rfl, rfl, Nat.zero_le _⟩
  | step b op burn unw ext _ _ hs ih =>
    obtain ⟨hr, hl, hb, _⟩ := ih
    obtain ⟨_, _, s', hst, h3, rfl⟩ := gasStep_some hs
    refine ⟨Run.step op unw ext hr hst, hl, hb, ?_⟩
    simp only [hl, overLimit, decide_eq_false_iff_not] at h3
    exact Nat.le_of_not_lt h3

/-- **gas_bound for the tied machine**: whatever was executed, the consumed gas never exceeds the
limit in a state the machine reaches (HALT included) -/
theorem acct_gas_bound {L base : Nat} {g : GSt} {n : Nat} (h : GRun L base g n) : g.gas ≤ L := (gRun_inv h).2.2.2

theorem proj_ok {L base : Nat} {g : GSt} {n : Nat} (h : GRun L base g n) : Ok { limit := L, base := base } g.proj := by
  obtain ⟨hr, _, _, hg⟩ := gRun_inv h
  obtain ⟨d1, d2⟩ := run_depth hr
  refine ⟨fun _ => hg, fun hrun => ?_⟩
  have hh : g.s.halted = false := by
    cases hx : g.s.halted with
    | false => rfl
    | true => simp [GSt.proj, hx] at hrun
  have hm : VmGas.maxDepth = maxInvocationStackSize := by decide
  rcases d2 with d2 | d2
  · rw [hh] at d2; cases d2
  · exact ⟨d2, by rw [hm]; exact d1⟩

/-- **total for the tied machine**: with a price base ≥ 1, the number of instructions executed
successfully so far plus the termination measure of the current state never exceeds the measure of
the initial state; so no run is longer than (L+1)·(MaxInvocationStackSize+1)+1 instructions -/
theorem acct_total {L base : Nat} (hb : 1 ≤ base) {g : GSt} {n : Nat} (h : GRun L base g n) :
    n ≤ (L + 1) * (VmGas.maxDepth + 1) + 1 ∧
    (g.s.halted = false → n + mu { limit := L, base := base } g.proj ≤ (L + 1) * (VmGas.maxDepth + 1) + 1) := by
  induction h with
  | init => exact ⟨Nat.zero_le _, fun _ => by simp [mu, GSt.proj, St.init, St.depth]⟩
  | @step g g' n b op burn unw ext hrun hc hs ih =>
    obtain ⟨hr, hl, hbase, _⟩ := gRun_inv hrun
    obtain ⟨hsim, _, _⟩ := acct_sim hr hl hc hs
    have hok := acct_eff_okFor hr hc hs
    obtain ⟨_, _, s', hst, _, _⟩ := gasStep_some hs
    have hnh := step_not_halted hst
    have hrunning : g.proj.status = .running := by simp [GSt.proj, hnh]
    rw [hbase] at hsim
    obtain ⟨_, hdec⟩ := gstep_ok { limit := L, base := base } hb g.proj b _ hok (proj_ok hrun) hrunning
    rw [hsim] at hdec
    have ih2 := ih.2 hnh
    constructor
    · have : 1 ≤ mu { limit := L, base := base } g.proj := by
        have := (proj_ok hrun).depth hrunning
        simp only [mu]; omega
      omega
    · intro hh
      have := hdec (by simp [GSt.proj, hh])
      omega

end NeoModel.VmAcct
