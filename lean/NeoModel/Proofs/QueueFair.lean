/-
C20 (a) helper lemmas: a progress measure for Run under interference (fair progress).
-/
import NeoModel.Proofs.QueueReach
namespace NeoModel.Queue

/-- Steps `Run` still needs, in the worst case, before its next successful `AddItem`. -/
def cost (s : State) : Nat :=
  match s.pc with
  | .init => 6
  | .wait => 5
  | .top => 4
  | .haveH _ => 3
  | .holding b _ => if accepts s.height b then 2 else 6
  | .added _ _ => 5
  | .done => 0

/-- The progress measure: five `Run` steps per missing block plus the steps of the current round. -/
def pot (s : State) (m : Nat) : Nat := 5 * (m - s.height) + cost s

theorem cost_le (s : State) : cost s ≤ 6 := by
  unfold cost; split <;> try omega
  split <;> omega

theorem pot_step (s : State) (m : Nat) (a : Act) (g : Good s m) (hlt : s.height < m)
    (hr : racy s a = false) (hd : a ≠ .disc) :
    m ≤ (apply s a).height ∨ pot (apply s a) m + (if a = .run then 1 else 0) ≤ pot s m := by
  obtain ⟨hfill, hact⟩ := g.go hlt
  cases a with
  | disc => exact absurd rfl hd
  | notify =>
    right
    have hnd := g.nd
    simp only [apply, notify, hnd, Bool.false_eq_true, if_false, pot, cost, reduceCtorEq, Nat.add_zero]
    exact Nat.le_refl _
  | put e hr' =>
    right
    obtain ⟨h1, h2, _, _⟩ := put_frame s e (min hr' s.height)
    simp only [apply, pot, cost, h1, h2, reduceCtorEq, if_false, Nat.add_zero]
    exact Nat.le_refl _
  | adv =>
    by_cases hm : m ≤ s.height + 1
    · left; exact hm
    · right
      simp only [apply, chainAdvance, pot, cost, reduceCtorEq, if_false, Nat.add_zero]
      have h5 : 5 * (m - (s.height + 1)) + 5 = 5 * (m - s.height) := by omega
      split <;> try omega
      · rename_i b _ _
        by_cases h1 : accepts (s.height + 1) b = true <;> by_cases h2 : accepts s.height b = true <;>
          simp [h1, h2] <;> omega
  | run =>
    simp only [if_true]
    cases hpc : s.pc with
    | init =>
      right; simp only [apply, runStep, hpc, start, pot, cost]; omega
    | wait =>
      have hs : s.signal = true := by
        rcases hact with h | h | ⟨_, h⟩ | ⟨_, _, h⟩ | ⟨_, _, h⟩
        · exact h.1
        all_goals (rw [hpc] at h; cases h)
      right; simp only [apply, runStep, hpc, wake, hs, if_true, pot, cost]; omega
    | top =>
      right; simp only [apply, runStep, hpc, readH, pot, cost]; omega
    | haveH h =>
      have hhe := g.fresh.haveH h hpc
      obtain ⟨x, hx1, hx2, hx3⟩ := hfill (s.height + 1) (by omega) (by omega)
      right
      simp only [apply, runStep, hpc, lockSection, hhe, hx1, pot, cost, accepts, hx2, hx3, beq_self_eq_true,
        Bool.and_self, if_true, gt_iff_lt, Nat.lt_irrefl, if_false]
      omega
    | holding b p =>
      simp only [apply, runStep, hpc, addItem]
      by_cases hacc : accepts s.height b = true
      · simp only [hacc, if_true]
        by_cases hm : m ≤ s.height + 1
        · left; exact hm
        · right; simp only [pot, cost, hpc, hacc, if_true]; omega
      · simp only [Bool.not_eq_true] at hacc
        right; simp only [hacc, pot, cost, hpc]; simp
    | added b p =>
      right; simp only [apply, runStep, hpc, finish, pot, cost]; omega
    | done =>
      exfalso
      rcases hact with h | h | ⟨_, h⟩ | ⟨_, _, h⟩ | ⟨_, _, h⟩
      · exact h.2 hpc
      all_goals (rw [hpc] at h; cases h)

theorem exec_height_mono (s : State) (as : List Act) : s.height ≤ (exec s as).height := by
  induction as generalizing s with
  | nil => exact Nat.le_refl _
  | cons a r ih => exact Nat.le_trans (height_mono s a) (ih _)

theorem pot_exec (s : State) (m : Nat) (as : List Act) (g : Good s m) (hc : Calm s as) :
    m ≤ (exec s as).height ∨ pot (exec s as) m + as.count .run ≤ pot s m := by
  induction as generalizing s with
  | nil => right; simp [exec]
  | cons a r ih =>
    simp only [exec]
    by_cases hlt : s.height < m
    · have g' := good_apply s m a hc.1 hc.2.1 g
      rcases pot_step s m a g hlt hc.1 hc.2.1 with h | h
      · left; exact Nat.le_trans h (exec_height_mono _ r)
      · rcases ih _ g' hc.2.2 with h2 | h2
        · exact .inl h2
        · right
          rw [List.count_cons]
          by_cases ha : a = .run
          · subst ha; simp only [if_true, beq_self_eq_true] at h ⊢; omega
          · have : (a == Act.run) = false := by simpa using ha
            simp only [ha, if_false, this, Bool.false_eq_true] at h ⊢; omega
    · left
      exact Nat.le_trans (by omega) (Nat.le_trans (height_mono s a) (exec_height_mono _ r))

/-- Fair progress: under any calm interference, `5·(m − height) + 7` steps of `Run` suffice. -/
theorem reaches_fair (s : State) (m : Nat) (as : List Act) (g : Good s m) (hc : Calm s as)
    (hn : 5 * (m - s.height) + 7 ≤ as.count .run) : m ≤ (exec s as).height := by
  rcases pot_exec s m as g hc with h | h
  · exact h
  · have := cost_le s
    simp only [pot] at h
    omega

end NeoModel.Queue
