/-
C20 (a) helper lemmas: the chain-side invariant of the queue model.
-/
import NeoModel.Model.Queue
namespace NeoModel.Queue

theorem applied_append (l1 l2 : List Ev) : applied (l1 ++ l2) = applied l1 ++ applied l2 := by
  induction l1 with
  | nil => rfl
  | cons e r ih =>
    cases e with
    | add b ok => cases ok <;> simp [applied, ih]
    | ext i => simp [applied, ih]

/-- the chain-side invariant: applied indices are exactly h0+1 … height -/
def ChainInv (h0 : Nat) (s : State) : Prop :=
  h0 ≤ s.height ∧ applied s.log = List.range' (h0 + 1) (s.height - h0)

theorem put_chain (s : State) (e : Elem) (hr : Nat) :
    (put s e hr).height = s.height ∧ (put s e hr).log = s.log := by
  unfold put insert
  split; · exact ⟨rfl, rfl⟩
  split; · exact ⟨rfl, rfl⟩
  split; · exact ⟨rfl, rfl⟩
  split <;> exact ⟨rfl, rfl⟩

theorem range'_snoc (a n : Nat) : List.range' a (n + 1) = List.range' a n ++ [a + n] := by
  rw [List.range'_concat]; simp

theorem chainInv_apply (h0 : Nat) (s : State) (a : Act) (h : ChainInv h0 s) : ChainInv h0 (apply s a) := by
  obtain ⟨h1, h2⟩ := h
  cases a with
  | put e hr =>
    have := put_chain s e (min hr s.height)
    simp only [apply, ChainInv, this.1, this.2]; exact ⟨h1, h2⟩
  | adv =>
    simp only [apply, chainAdvance, ChainInv, applied_append, applied, h2]
    refine ⟨by omega, ?_⟩
    have : s.height + 1 - h0 = (s.height - h0) + 1 := by omega
    rw [this, range'_snoc]; congr 2; omega
  | disc =>
    simp only [apply, discard, ChainInv]
    split <;> exact ⟨h1, h2⟩
  | notify =>
    simp only [apply, notify, ChainInv]
    split <;> exact ⟨h1, h2⟩
  | run =>
    simp only [apply, runStep]
    split
    · exact ⟨h1, h2⟩
    · unfold wake; split
      · exact ⟨h1, h2⟩
      · split <;> exact ⟨h1, h2⟩
    · exact ⟨h1, h2⟩
    · exact ⟨h1, h2⟩
    · rename_i b pos _
      unfold addItem
      by_cases hacc : accepts s.height b = true
      · simp only [hacc, if_true, ChainInv, applied_append, applied, h2]
        simp only [accepts, Bool.and_eq_true, beq_iff_eq] at hacc
        refine ⟨by omega, ?_⟩
        have : s.height + 1 - h0 = (s.height - h0) + 1 := by omega
        rw [this, range'_snoc, hacc.2]; congr 2; omega
      · simp only [Bool.not_eq_true] at hacc
        simp only [hacc, ChainInv, applied_append, applied, h2, List.append_nil]
        exact ⟨h1, by simp⟩
    · exact ⟨h1, h2⟩
    · exact ⟨h1, h2⟩

theorem chainInv_exec (h0 : Nat) (s : State) (as : List Act) (h : ChainInv h0 s) : ChainInv h0 (exec s as) := by
  induction as generalizing s with
  | nil => exact h
  | cons a r ih => exact ih _ (chainInv_apply h0 s a h)

end NeoModel.Queue
