/-
`vote` preserves the invariant (and its error branches after the first state change are unreachable).
-/
import NeoModel.Proofs.TokensOps
namespace NeoModel.Tokens

/-- a voting account makes its candidate's record exist. -/
theorem cand_exists_of_vote {neo : AL NeoAcc} {cands : AL Cand} {voters : Int} (hv : VotesOK neo cands voters)
    (h : Nat) (acc : NeoAcc) (c : Nat) (hg : get neo h = some acc) (hc : acc.vote = some c) :
    get cands c ≠ none := by
  intro hnone
  have h1 := hv.votes c
  have h2 : at0 (voteW c) neo h ≤ sumBy (voteW c) neo :=
    at0_le_sumBy _ _ _ (fun p hp => by have := hv.neoPos p hp; simp only [voteW]; split <;> omega)
  have h3 : at0 (voteW c) neo h = acc.bal := by simp [at0, hg, voteW, hc]
  have h4 := hv.neoPos _ (get_mem _ _ _ hg)
  simp [at0, hnone] at h1
  simp at h4
  omega

theorem votePre_inv {nt : Nat} {dn dg k : Int} (e : Env) (l : Ledger) (h : Nat) (pub : Option Nat) (wit : Bool)
    (hi : InvG nt dn dg k l) :
    InvG nt dn dg k (votePre e l h pub wit).1 ∧ (votePre e l h pub wit).1.events = l.events ∧
    (votePre e l h pub wit).1.gas = l.gas ∧ ∀ a, at0 (·.bal) (votePre e l h pub wit).1.neo a = at0 (·.bal) l.neo a := by
  have hv := hi.votes
  unfold votePre
  split
  · exact ⟨hi, rfl, rfl, fun _ => rfl⟩
  · cases hg : get l.neo h with
    | none => exact ⟨hi, rfl, rfl, fun _ => rfl⟩
    | some acc =>
      simp only []
      have hpos : 0 < acc.bal := hv.neoPos _ (get_mem _ _ _ hg)
      by_cases hcand : candOk l pub = true
      case neg => simp [hcand]; exact hi
      case pos =>
        rw [if_neg (by simp [hcand])]
        -- the ledger after the voters count adjustment
        generalize hl1 : (if (acc.vote.isNone != pub.isNone) = true then
            { l with voters := l.voters + (if pub.isNone = true then -acc.bal else acc.bal) } else l) = l1
        have a1 : l1.neo = l.neo := by subst hl1; split <;> rfl
        have a2 : l1.cands = l.cands := by subst hl1; split <;> rfl
        have a3 : l1.neoSupply = l.neoSupply := by subst hl1; split <;> rfl
        have a4 : l1.gas = l.gas := by subst hl1; split <;> rfl
        have a5 : l1.gasSupply = l.gasSupply := by subst hl1; split <;> rfl
        have a6 : l1.deps = l.deps := by subst hl1; split <;> rfl
        have a8 : l1.events = l.events := by subst hl1; split <;> rfl
        have a7 : l1.voters = l.voters + (if (acc.vote.isNone != pub.isNone) = true then (if pub.isNone = true then -acc.bal else acc.bal) else 0) := by
          subst hl1; split <;> simp
        have hds := distributeGas_isSome e l1 acc (by omega)
        obtain ⟨r, hd⟩ := Option.isSome_iff_exists.mp hds
        obtain ⟨acc1, g⟩ := r
        obtain ⟨hb1, hv1⟩ := distributeGas_some e l1 acc acc1 g hd
        simp only [hd]
        cases hm1 : modVotes l1 acc1 (-acc1.bal) false with
        | mk l2 b1 =>
          cases b1 with
          | false =>
            exfalso
            obtain ⟨_, _, c, hc, hnone⟩ := modVotes_false l1 acc1 _ false l2 hm1
            rw [hv1] at hc; rw [a2] at hnone
            exact cand_exists_of_vote hv h acc c hg hc hnone
          | true =>
            simp only []
            obtain ⟨m1, m2, m3, m4, m5, m6, m7, cu1, nz1⟩ := modVotes_spec l1 acc1 (-acc1.bal) false l2 hm1
            generalize hacc3 : voteNewAcc l2 acc1 pub = acc3
            have hb3 : acc3.bal = acc.bal := by subst hacc3; cases pub <;> simp [voteNewAcc, hb1]
            have hv3 : acc3.vote = pub := by subst hacc3; cases pub <;> simp [voteNewAcc]
            cases hm2 : modVotes l2 acc3 acc3.bal true with
            | mk l3 b2 =>
              cases b2 with
              | false =>
                exfalso
                obtain ⟨_, _, c, hc, hnone⟩ := modVotes_false l2 acc3 _ true l3 hm2
                rw [hv3] at hc
                -- the new candidate was checked to be registered, and a registered candidate keeps its record
                subst hc
                unfold candOk at hcand
                simp only [] at hcand
                cases hgc : get l.cands c with
                | none => simp [hgc] at hcand
                | some cd =>
                  simp [hgc] at hcand
                  obtain ⟨cd', hk, _⟩ := cu1.keep c cd (by rw [a2]; exact hgc) hcand
                  rw [hk] at hnone; cases hnone
              | true =>
                try simp only [] at hcand
                obtain ⟨n1, n2, n3, n4, n5, n6, n7, cu2, _⟩ := modVotes_spec l2 acc3 acc3.bal true l3 hm2
                have hb4 := hb3
                have hv4 := hv3
                show InvG nt dn dg k { l3 with neo := put l3.neo h acc3 } ∧ l3.events = l.events ∧ l3.gas = l.gas ∧
                  ∀ a, at0 (·.bal) (put l3.neo h acc3) a = at0 (·.bal) l.neo a
                refine ⟨?_, by rw [n7, m7, a8], by rw [n3, m3, a4], ?_⟩
                case refine_2 =>
                  intro a
                  rw [n1, m1, a1]
                  unfold at0
                  by_cases ha : a = h
                  · subst ha; rw [get_put_eq, hg]; simp [hb3]
                  · rw [get_put_ne _ _ _ _ ha]
                have en : l3.neo = l.neo := by rw [n1, m1, a1]
                have hnodup2 := cu1.nodup (by rw [a2]; exact hv.candNodup)
                -- votes of every candidate after the two updates
                have hvotes : ∀ c, at0 (·.votes) l3.cands c =
                    at0 (·.votes) l.cands c + (if acc.vote = some c then -acc.bal else 0) + (if pub = some c then acc.bal else 0) := by
                  intro c
                  rw [cu2.votes hnodup2 c, cu1.votes (by rw [a2]; exact hv.candNodup) c, a2, hv3, hb3, hv1, hb1]
                have hW : ∀ f : NeoAcc → Int, sumBy f (put l.neo h acc3) = sumBy f l.neo - f acc + f acc3 := by
                  intro f; rw [sumBy_put]; simp [at0, hg]
                have hle : ∀ c, at0 (voteW c) l.neo h ≤ sumBy (voteW c) l.neo := fun c =>
                  at0_le_sumBy _ _ _ (fun p hp => by have := hv.neoPos p hp; simp only [voteW]; split <;> omega)
                refine ⟨?_, by rw [n2, m2, a3]; exact hi.neoSupply, ?_, by rw [n3, m3, a4, n4, m4, a5]; exact hi.gas,
                  by rw [n3, m3, a4, n6, m6, a6]; exact hi.notary⟩
                · show VotesOK (put l3.neo h acc3) l3.cands l3.voters
                  rw [en]
                  refine ⟨nodup_put _ _ _ hv.neoNodup, cu2.nodup hnodup2, ?_, ?_, ?_, ?_⟩
                  · intro p hp
                    rcases mem_put _ _ _ _ hp with hh | hh
                    · exact hv.neoPos p hh
                    · subst hh; simp; omega
                  · intro c
                    rw [hvotes c, hW (voteW c), hv.votes c]
                    simp only [voteW, hv4, hb4]
                    split <;> split <;> omega
                  · rw [n5, m5, a7, hW voterW, hv.voters]
                    simp only [voterW, hv4, hb4]
                    cases acc.vote <;> cases pub <;> simp <;> omega
                  · intro p hp
                    rcases cu2.mem p hp with hh | ⟨c, cd, hc, hgc, rfl⟩
                    · rcases nz1 rfl p hh with hh' | hh'
                      · exact hv.nozombie p (by rw [← a2]; exact hh')
                      · exact hh'
                    · -- the candidate just voted for: its votes are at least the voter's balance
                      right
                      rw [hv3] at hc
                      have hcd : cd.votes = at0 (·.votes) l2.cands c := by simp [at0, hgc]
                      have hA := cu1.votes (by rw [a2]; exact hv.candNodup) c
                      rw [a2, hv.votes c, hv1, hb1] at hA
                      have h3 : at0 (voteW c) l.neo h = if acc.vote = some c then acc.bal else 0 := by
                        simp [at0, hg, voteW]
                      have hL := hle c
                      rw [h3] at hL
                      show cd.votes + acc3.bal ≠ 0
                      rw [hb3]
                      by_cases hq : acc.vote = some c
                      · rw [if_pos hq] at hA hL; omega
                      · rw [if_neg hq] at hA hL; omega
                · show sumBy (·.bal) (put l3.neo h acc3) = _
                  rw [en, hW (·.bal), hb4, n2, m2, a3]
                  have := hi.neoSum
                  omega

end NeoModel.Tokens
