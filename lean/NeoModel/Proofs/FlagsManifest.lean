/-
Helper lemmas for C16, part 2 (Model/Flags/Manifest.lean): the stack-item round trip of every component,
the duplicate check of `sliceHasDups`, order-independence of the permission check.
-/
import NeoModel.Model.Flags.Manifest
namespace NeoModel.Flags.MF

/-! ## mapOpt -/

theorem mapOpt_map {α β : Type} (enc : α → β) (dec : β → Option α) (xs : List α)
    (h : ∀ x ∈ xs, dec (enc x) = some x) : mapOpt dec (xs.map enc) = some xs := by
  induction xs with
  | nil => rfl
  | cons x xs ih =>
    simp only [List.map_cons, mapOpt, h x List.mem_cons_self,
      ih (fun y hy => h y (List.mem_cons_of_mem _ hy))]
    rfl

/-! ## Well-formedness: what Go's types guarantee about a manifest value (not checked by IsValid) -/

/-- `int(x.Int64())` is the identity on what a Go `int` holds. -/
theorem int64Of_of_range (i : Int) (h1 : -(2 ^ 63) ≤ i) (h2 : i < 2 ^ 63) : int64Of i = i := by
  unfold int64Of
  simp only
  split <;> split <;> (try split) <;> omega

def Param.WF (d : Dec) (p : Param) : Prop := d.utf8 p.name = true ∧ p.typ ∈ d.validTypes ∧ p.typ < 2 ^ 63

def Method.WF (d : Dec) (m : Method) : Prop :=
  d.utf8 m.name = true ∧ m.ret ∈ d.validTypes ∧ (∀ p ∈ m.params, p.WF d) ∧
  m.ret < 2 ^ 63 ∧ -(2 ^ 63) ≤ m.offset ∧ m.offset < 2 ^ 63

def Event.WF (d : Dec) (e : Event) : Prop := d.utf8 e.name = true ∧ ∀ p ∈ e.params, p.WF d

/-- a group holds a decodable key in canonical form and a 64-byte signature (Group.UnmarshalJSON / FromStackItem
establish both). -/
def Group.WF (d : Dec) (g : Group) : Prop := d.decodeKey g.key = some g.key ∧ g.sig.length = 64

/-- a hash is 20 bytes, a group key 33 bytes in canonical form. -/
def Desc.WF (d : Dec) : Desc → Prop
  | .wildcard => True
  | .hash h => h.length = 20
  | .group k => k.length = 33 ∧ d.decodeKey k = some k

def Perm.WF (d : Dec) (p : Perm) : Prop :=
  p.contract.WF d ∧ ∀ ms, p.methods = some ms → ∀ m ∈ ms, d.utf8 m = true

def Man.WF (d : Dec) (m : Man) : Prop :=
  d.utf8 m.name = true ∧ (∀ g ∈ m.groups.getD [], g.WF d) ∧ (∀ s ∈ m.standards, d.utf8 s = true) ∧
  (∀ x ∈ m.methods, x.WF d) ∧ (∀ e ∈ m.events, e.WF d) ∧ (∀ p ∈ m.perms, p.WF d) ∧
  (∀ t ∈ m.trusts.value.getD [], t.WF d)

/-! ## Round trips -/

theorem param_roundtrip (d : Dec) (p : Param) (h : p.WF d) : d.param p.toItem = some p := by
  obtain ⟨h1, h2, h3⟩ := h
  have h4 : int64Of (p.typ : Int) = p.typ := int64Of_of_range _ (by omega) (by omega)
  simp [Param.toItem, Dec.param, Dec.toStr, Dec.toType, tryBytes, tryInt, h1, h2, h4]

theorem params_roundtrip (d : Dec) (ps : List Param) (h : ∀ p ∈ ps, p.WF d) :
    mapOpt d.param (ps.map Param.toItem) = some ps :=
  mapOpt_map _ _ _ (fun p hp => param_roundtrip d p (h p hp))

theorem method_roundtrip (d : Dec) (m : Method) (h : m.WF d) : d.method m.toItem = some m := by
  obtain ⟨h1, h2, h3, h5, h6, h7⟩ := h
  have h4 : int64Of (m.ret : Int) = m.ret := int64Of_of_range _ (by omega) (by omega)
  have h8 : int64Of m.offset = m.offset := int64Of_of_range _ h6 h7
  simp [Method.toItem, Dec.method, Dec.toStr, Dec.toType, tryBytes, tryInt, tryBool, h1, h2, h4, h8, params_roundtrip d m.params h3]

theorem event_roundtrip (d : Dec) (e : Event) (h : e.WF d) : d.event e.toItem = some e := by
  obtain ⟨h1, h3⟩ := h
  simp [Event.toItem, Dec.event, Dec.toStr, tryBytes, h1, params_roundtrip d e.params h3]

theorem group_roundtrip (d : Dec) (g : Group) (h : g.WF d) : d.group g.toItem = some g := by
  obtain ⟨h1, h2⟩ := h
  simp [Group.toItem, Dec.group, tryBytes, h1, h2]

theorem desc_roundtrip (d : Dec) (x : Desc) (h : x.WF d) : d.desc x.toItem = some x := by
  cases x with
  | wildcard => rfl
  | hash hh => simp [Desc.WF] at h; simp [Desc.toItem, Dec.desc, h]
  | group k => simp [Desc.WF] at h; simp [Desc.toItem, Dec.desc, h.1, h.2]

theorem strs_roundtrip (d : Dec) (ss : List Bytes) (h : ∀ s ∈ ss, d.utf8 s = true) :
    mapOpt d.toStr (ss.map Item.bytes) = some ss :=
  mapOpt_map _ _ _ (fun s hs => by simp [Dec.toStr, tryBytes, h s hs])

theorem perm_roundtrip (d : Dec) (p : Perm) (h : p.WF d) : d.perm p.toItem = some p := by
  obtain ⟨c, ms⟩ := p
  obtain ⟨h1, h2⟩ := h
  cases ms with
  | none => simp [Perm.toItem, Dec.perm, desc_roundtrip d c h1]
  | some ms =>
    simp [Perm.toItem, Dec.perm, desc_roundtrip d c h1, strs_roundtrip d ms (h2 ms rfl)]

/-- `fromItem_toItem`: every manifest value survives ToStackItem ∘ FromStackItem up to `normalize`. -/
theorem man_roundtrip (d : Dec) (compact : Bytes → Bytes) (m : Man) (h : m.WF d) :
    d.man (m.toItem compact) = some (m.normalize compact) := by
  obtain ⟨h1, h2, h3, h4, h5, h6, h7⟩ := h
  have hg := mapOpt_map Group.toItem d.group (m.groups.getD []) (fun g hg => group_roundtrip d g (h2 g hg))
  have hs := strs_roundtrip d m.standards h3
  have hm := mapOpt_map Method.toItem d.method m.methods (fun x hx => method_roundtrip d x (h4 x hx))
  have he := mapOpt_map Event.toItem d.event m.events (fun x hx => event_roundtrip d x (h5 x hx))
  have hp := mapOpt_map Perm.toItem d.perm m.perms (fun x hx => perm_roundtrip d x (h6 x hx))
  have ht := mapOpt_map Desc.toItem d.desc (m.trusts.value.getD []) (fun x hx => desc_roundtrip d x (h7 x hx))
  cases hw : m.trusts.wildcard <;>
    simp [Man.toItem, Dec.man, Dec.toStr, tryBytes, h1, hg, hs, hm, he, hp, ht, hw, Man.normalize]

/-! ## sliceHasDups: sort, then compare neighbours -/

/-- the loop of `sliceHasDups` (parameter.go:114-121) over the (sorted) slice. -/
def adjDup {α : Type} (eqv : α → α → Bool) : List α → Bool
  | a :: b :: rest => eqv a b || adjDup eqv (b :: rest)
  | _ => false

/-- a total preorder `le` with `eqv a b ↔ le a b ∧ le b a` (what `cmp(a,b) ≤ 0` / `cmp(a,b) == 0` are for the
comparison functions used: `cmp.Compare` on strings and integers, lexicographic pairs, `PermissionDesc.Compare`,
`PublicKey.Cmp`). -/
structure Preorder' {α : Type} (le : α → α → Prop) (eqv : α → α → Bool) : Prop where
  trans : ∀ a b c, le a b → le b c → le a c
  eqv_iff : ∀ a b, eqv a b = true ↔ le a b ∧ le b a

theorem hasDupBy_cons {α : Type} (eqv : α → α → Bool) (x : α) (xs : List α) :
    hasDupBy eqv (x :: xs) = (xs.any (eqv x) || hasDupBy eqv xs) := rfl

/-- in a sorted list, an element equivalent to the head makes the head's neighbour equivalent to it. -/
theorem adjDup_of_any {α : Type} {le : α → α → Prop} {eqv : α → α → Bool} (P : Preorder' le eqv)
    (x : α) (xs : List α) (hs : (x :: xs).Pairwise le) (h : xs.any (eqv x) = true) : adjDup eqv (x :: xs) = true := by
  cases xs with
  | nil => simp at h
  | cons y ys =>
    obtain ⟨z, hz, hxz⟩ := List.any_eq_true.1 h
    have hxy : le x y := (List.pairwise_cons.1 hs).1 y List.mem_cons_self
    have hyz : le y z := by
      rcases List.mem_cons.1 hz with rfl | hz
      · exact ((P.eqv_iff _ _).1 hxz).2 |> fun _ => ((P.eqv_iff x z).1 hxz).2 |> fun h2 => P.trans _ _ _ h2 hxy
      · exact (List.pairwise_cons.1 (List.pairwise_cons.1 hs).2).1 z hz
    have hzx : le z x := ((P.eqv_iff x z).1 hxz).2
    have : eqv x y = true := (P.eqv_iff x y).2 ⟨hxy, P.trans _ _ _ hyz hzx⟩
    simp [adjDup, this]

theorem adjDup_sorted_eq_hasDupBy {α : Type} {le : α → α → Prop} {eqv : α → α → Bool} (P : Preorder' le eqv)
    (xs : List α) (hs : xs.Pairwise le) : adjDup eqv xs = hasDupBy eqv xs := by
  induction xs with
  | nil => rfl
  | cons x xs ih =>
    have ih' := ih (List.pairwise_cons.1 hs).2
    rw [hasDupBy_cons]
    cases hany : xs.any (eqv x) with
    | true => simp [adjDup_of_any P x xs hs hany]
    | false =>
      cases xs with
      | nil => rfl
      | cons y ys =>
        have : eqv x y = false := by
          cases hxy : eqv x y with
          | false => rfl
          | true => simp [hxy] at hany
        simp only [adjDup, this, Bool.false_or]
        exact ih'

theorem hasDupBy_iff {α : Type} (eqv : α → α → Bool) (xs : List α) :
    hasDupBy eqv xs = true ↔ ¬ xs.Pairwise (fun a b => eqv a b = false) := by
  induction xs with
  | nil => simp [hasDupBy]
  | cons x xs ih =>
    rw [hasDupBy_cons, List.pairwise_cons, Bool.or_eq_true, ih, List.any_eq_true]
    constructor
    · rintro (⟨y, hy, hxy⟩ | h) ⟨h1, h2⟩
      · rw [h1 y hy] at hxy; cases hxy
      · exact h h2
    · intro h
      cases hany : xs.any (eqv x) with
      | true =>
        obtain ⟨y, hy, hxy⟩ := List.any_eq_true.1 hany
        exact Or.inl ⟨y, hy, hxy⟩
      | false =>
        right
        intro h2
        apply h
        refine ⟨fun y hy => ?_, h2⟩
        cases hxy : eqv x y with
        | false => rfl
        | true =>
          have : xs.any (eqv x) = true := List.any_eq_true.2 ⟨y, hy, hxy⟩
          rw [hany] at this; cases this

/-- the duplicate verdict does not depend on the order of the slice (for a symmetric `eqv`). -/
theorem hasDupBy_perm {α : Type} (eqv : α → α → Bool) (hsymm : ∀ a b, eqv a b = eqv b a) {xs ys : List α}
    (h : xs.Perm ys) : hasDupBy eqv xs = hasDupBy eqv ys := by
  have key : ∀ {xs ys : List α}, xs.Perm ys → hasDupBy eqv xs = true → hasDupBy eqv ys = true := by
    intro xs ys h
    rw [hasDupBy_iff, hasDupBy_iff]
    intro hx hy
    exact hx (h.symm.pairwise hy (fun {a b} hab => by rw [hsymm]; exact hab))
  cases hx : hasDupBy eqv xs with
  | true => exact (key h hx).symm
  | false =>
    cases hy : hasDupBy eqv ys with
    | false => rfl
    | true => rw [key h.symm hy] at hx; cases hx

/-- `sliceHasDups` is what the model uses: whatever correct sorting function `sort` is plugged in (its result is
a permutation of its input, sorted by `le`), `sliceHasDups(x, cmp)` = `hasDupBy eqv x`. -/
theorem sliceHasDups_spec {α : Type} {le : α → α → Prop} {eqv : α → α → Bool} (P : Preorder' le eqv)
    (sort : List α → List α) (hperm : ∀ l, (sort l).Perm l) (hsorted : ∀ l, (sort l).Pairwise le) (x : List α) :
    (if x.length < 2 then false else adjDup eqv (if x.length > 2 then sort x else x)) = hasDupBy eqv x := by
  have hsymm : ∀ a b, eqv a b = eqv b a := by
    intro a b
    cases h1 : eqv a b <;> cases h2 : eqv b a <;> try rfl
    · have := (P.eqv_iff b a).1 h2
      rw [(P.eqv_iff a b).2 ⟨this.2, this.1⟩] at h1; cases h1
    · have := (P.eqv_iff a b).1 h1
      rw [(P.eqv_iff b a).2 ⟨this.2, this.1⟩] at h2; cases h2
  match x with
  | [] => rfl
  | [a] => simp [hasDupBy]
  | [a, b] => simp [adjDup, hasDupBy]
  | a :: b :: c :: rest =>
    have : ¬ (a :: b :: c :: rest).length < 2 := by simp
    have h3 : (a :: b :: c :: rest).length > 2 := by simp
    rw [if_neg this, if_pos h3, adjDup_sorted_eq_hasDupBy P _ (hsorted _)]
    exact hasDupBy_perm eqv hsymm (hperm _)

/-! ## The permission check depends on the set of permissions only -/

theorem canCall_iff_exists (m : Man) (hash : Bytes) (callee : Man) (method : Bytes) :
    m.canCall hash callee method = true ↔ ∃ p ∈ m.perms, p.isAllowed hash callee method = true := by
  simp [Man.canCall, List.any_eq_true]

theorem canCall_congr (m m' : Man) (h : ∀ p, p ∈ m.perms ↔ p ∈ m'.perms) (hash : Bytes) (callee : Man) (method : Bytes) :
    m.canCall hash callee method = m'.canCall hash callee method := by
  have : m.canCall hash callee method = true ↔ m'.canCall hash callee method = true := by
    rw [canCall_iff_exists, canCall_iff_exists]
    exact ⟨fun ⟨p, hp, ha⟩ => ⟨p, (h p).1 hp, ha⟩, fun ⟨p, hp, ha⟩ => ⟨p, (h p).2 hp, ha⟩⟩
  cases h1 : m.canCall hash callee method <;> cases h2 : m'.canCall hash callee method <;> simp_all

end NeoModel.Flags.MF
