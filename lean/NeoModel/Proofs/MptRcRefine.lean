/-
C11 helper lemmas: refinement between a history run on a partly loaded trie (loads interleaved with
the events, cached counts refreshed from the store) and the same history on the fully expanded trie.
-/
import NeoModel.Model.MptRc
import NeoModel.Proofs.MptRcLazy
set_option linter.unusedSimpArgs false
namespace NeoModel.MptRc
open NeoModel.Mpt

/-! ### the partly loaded trie refines the fully expanded one -/

/-- forget the loads: the block on the fully expanded trie. -/
def stripOp : Op → Op
  | .blockL idx ops _ => .block idx ops
  | o => o

/-- the same records up to their bytes: same keys, same active flags, same counts / heights. -/
def TagEq (a b : Store) : Prop := ∀ k, ctag (sget a k) = ctag (sget b k)

theorem ctag_gc (g : Nat) (s : Store) (hn : StoreND s) (k : Bytes) :
    ctag (sget (gc g s) k) =
      match ctag (sget s k) with
      | some (false, n) => if g < n then some (false, n) else none
      | t => t := by
  rw [sget_gc g s hn k]
  cases hc : sget s k with
  | none => rfl
  | some c =>
    cases c with
    | plain b => rfl
    | rc b a n =>
      cases a with
      | true => rfl
      | false => by_cases hg : g < n <;> simp [hg, ctag]

theorem heights_strip (ops : List Op) : ∀ top, Heights top ops → Heights top (ops.map stripOp) := by
  induction ops with
  | nil => intro top h; exact h
  | cons o r ih =>
    intro top h
    cases o with
    | block idx b => simp only [List.map_cons, stripOp, Heights] at h ⊢; exact ⟨h.1, ih _ h.2⟩
    | blockL idx b ld => simp only [List.map_cons, stripOp, Heights] at h ⊢; exact ⟨h.1, ih _ h.2⟩
    | gc g => simp only [List.map_cons, stripOp, Heights] at h ⊢; exact ih _ h
    | reset => simp only [List.map_cons, stripOp, Heights] at h ⊢; exact ih _ h
    | jump idx t => simp only [List.map_cons, stripOp, Heights] at h ⊢; exact ih _ h

/-- two states that differ only in the refcount-map caches and the bytes of the records. -/
structure Twin (H : Bytes → Bytes) (mode : Mode) (top : Option Nat) (s s2 : St) : Prop where
  inv1 : Inv H mode top s
  inv2 : Inv H mode top s2
  root : s.root = s2.root
  hist : s.hist = s2.hist
  gcAt : s.gcAt = s2.gcAt
  tags : TagEq s.store s2.store

/-- refinement: a history run with any loads interleaved (partly loaded trie) and the same history
run on the fully expanded trie go through the same roots and leave, under every hash, records with
the same active flag and the same count / deactivation height. -/
theorem refine_run (H : Bytes → Bytes) (mode : Mode) (hrc : mode.rc = true) (ops : List Op) :
    ∀ (top : Option Nat) (s s2 : St), Twin H mode top s s2 → Heights top ops →
      ∃ s' s2' top', runOps H s ops = some s' ∧ runOps H s2 (ops.map stripOp) = some s2' ∧
        Twin H mode top' s' s2' := by
  induction ops with
  | nil => intro top s s2 ht _; exact ⟨s, s2, top, rfl, rfl, ht⟩
  | cons o r ih =>
    intro top s s2 ht hh
    have blockCase : ∀ (idx : Nat) (bops : List SubOp) (s1 : St),
        (∀ h, top = some h → h < idx) → Heights (some idx) r →
        Inv H mode (some idx) s1 → s1.root = trieAfter s.root bops →
        s1.hist = (idx, trieAfter s.root bops) :: s.hist → s1.gcAt = s.gcAt →
        (∀ k, ctag (sget s1.store k) = if net (hP H k) (blockEvs s.root bops) = 0 then ctag (sget s.store k)
          else tagAfter mode idx (occH H (trieAfter s.root bops) k)) →
        ∃ s' s2' top', runOps H s1 r = some s' ∧ runOps H s2 (stripOp (.block idx bops) :: r.map stripOp) = some s2' ∧
          Twin H mode top' s' s2' := by
      intro idx bops s1 hlt hhr hinv1 hroot1 hhist1 hgc1 htag1
      obtain ⟨s3, hc3, hinv3, hroot3, hhist3, hgc3, _, htag3⟩ := commit_inv H mode hrc top s2 idx bops ht.inv2 hlt
      have htw : Twin H mode (some idx) s1 s3 := {
        inv1 := hinv1
        inv2 := hinv3
        root := by rw [hroot1, hroot3, ht.root]
        hist := by rw [hhist1, hhist3, ht.root, ht.hist]
        gcAt := by rw [hgc1, hgc3, ht.gcAt]
        tags := fun k => by rw [htag1 k, htag3 k, ← ht.root, ht.tags k] }
      obtain ⟨s', s2', top', hr1, hr2, htw'⟩ := ih (some idx) s1 s3 htw hhr
      exact ⟨s', s2', top', hr1, by simp only [stripOp, runOps, stepOp, hc3, hr2], htw'⟩
    cases o with
    | block idx bops =>
      simp only [Heights] at hh
      obtain ⟨s1, hc1, hinv1, hroot1, hhist1, hgc1, _, htag1⟩ := commit_inv H mode hrc top s idx bops ht.inv1 hh.1
      obtain ⟨s', s2', top', hr1, hr2, htw'⟩ := blockCase idx bops s1 hh.1 hh.2 hinv1 hroot1 hhist1 hgc1 htag1
      exact ⟨s', s2', top', by simp only [runOps, stepOp, hc1, hr1], by simpa only [List.map_cons] using hr2, htw'⟩
    | blockL idx bops ld =>
      simp only [Heights] at hh
      obtain ⟨s1, hc1, hinv1, hroot1, hhist1, hgc1, _, htag1⟩ := commitL_inv H mode hrc top s idx bops ld ht.inv1 hh.1
      obtain ⟨s', s2', top', hr1, hr2, htw'⟩ := blockCase idx bops s1 hh.1 hh.2 hinv1 hroot1 hhist1 hgc1 htag1
      exact ⟨s', s2', top', by simp only [runOps, stepOp, hc1, hr1], by simpa only [List.map_cons, stripOp] using hr2, htw'⟩
    | gc g =>
      simp only [Heights] at hh
      have htw : Twin H mode top (gcSt s g) (gcSt s2 g) := {
        inv1 := gc_inv H mode top s g ht.inv1
        inv2 := gc_inv H mode top s2 g ht.inv2
        root := ht.root
        hist := ht.hist
        gcAt := by show max s.gcAt g = max s2.gcAt g; rw [ht.gcAt]
        tags := fun k => by
          show ctag (sget (gc g s.store) k) = ctag (sget (gc g s2.store) k)
          rw [ctag_gc g _ ht.inv1.nd, ctag_gc g _ ht.inv2.nd, ht.tags k] }
      obtain ⟨s', s2', top', hr1, hr2, htw'⟩ := ih top _ _ htw hh
      exact ⟨s', s2', top', by simp only [runOps, stepOp, hr1], by simp only [List.map_cons, stripOp, runOps, stepOp, hr2], htw'⟩
    | reset =>
      simp only [Heights] at hh
      have htw : Twin H mode top (reset s) (reset s2) := {
        inv1 := reset_inv H mode top s ht.inv1
        inv2 := reset_inv H mode top s2 ht.inv2
        root := ht.root
        hist := ht.hist
        gcAt := ht.gcAt
        tags := ht.tags }
      obtain ⟨s', s2', top', hr1, hr2, htw'⟩ := ih top _ _ htw hh
      exact ⟨s', s2', top', by simp only [runOps, stepOp, hr1], by simp only [List.map_cons, stripOp, runOps, stepOp, hr2], htw'⟩
    | jump idx t =>
      simp only [Heights] at hh
      have hm : s.mode = s2.mode := by rw [ht.inv1.mode_eq, ht.inv2.mode_eq]
      have htw : Twin H mode (some idx) (jumpSt H s idx t) (jumpSt H s2 idx t) := {
        inv1 := jump_inv H mode hrc top s ht.inv1 idx t
        inv2 := jump_inv H mode hrc top s2 ht.inv2 idx t
        root := rfl
        hist := rfl
        gcAt := ht.gcAt
        tags := fun k => by show ctag (sget (restoreAll H s.mode [] t) k) = ctag (sget (restoreAll H s2.mode [] t) k); rw [hm] }
      obtain ⟨s', s2', top', hr1, hr2, htw'⟩ := ih (some idx) _ _ htw hh
      exact ⟨s', s2', top', by simp only [runOps, stepOp, hr1], by simp only [List.map_cons, stripOp, runOps, stepOp, hr2], htw'⟩

end NeoModel.MptRc
