/-
C01 — the guards of the hand-written guarded components (Model/Ledger/Guarded.lean) and of the natives model's own
setters (Model/Ledger/Natives.lean) EQUAL the guards translated from the Go source on every check run
(Generated/GoFuncs.lean: policySet…, notarySetMaxNotValidBeforeDelta, oracleSetPrice, neoSetRegisterPrice,
neoSetGASPerBlock, managementSetMinimumDeploymentFee). A generated setter returns `some [contract id, value]` iff it reaches its storage write.

The translated functions start AFTER the argument conversion (their leaf `toUint32(args[0])` is a parameter): each
equality is stated for arguments the conversion accepts, and a companion lemma says the model faults when it does not.
The leaves that are answers of other code are instantiated with what the model uses for them:
  p.NEO.CheckCommittee(ic)                          committeeOk env.committee witness   (cached committee of the block)
  p.GetMaxTraceableBlocksInternal(ic.DAO)           cval cache kMTB                     (the CACHED value)
  p.GetMaxValidUntilBlockIncrementFromCache(ic.DAO) cval cache kVUB
  transaction.IsValidAttrType(reserved=false, t)    validAttr t
  cfg.GetNumOfCNs(..)                               env.validators
  price.Sign() / IsInt64() / Int64()                Int.sign v / isInt64 v / v
A change of a guard in policy.go / notary.go / oracle.go / native_neo.go changes the generated definition and the
corresponding theorem stops checking (before any test is run).
-/
import NeoModel.Model.Ledger.Guarded
import NeoModel.Model.Ledger.Recover
import NeoModel.Generated.GoFuncs
namespace NeoModel.Ledger.Guarded
open NeoModel.Generated NeoModel.Ledger.Natives NeoModel.Ledger.Components

/-- what a guarded settings call is about to write: all checks incl. the committee witness -/
def guardedWrite (e : Env) (c : List (Nat × Int)) (o : GSetOp) (wit : Witness) : Option (Nat × Int) :=
  match gsetCheck e c o with
  | none => none
  | some kv => if !committeeOk e.committee wit then none else some kv

/-- `gsettings` writes exactly `guardedWrite` to storage and cache -/
theorem gsettings_exec_eq (e : Env) (s c : List (Nat × Int)) (h : Nat) (o : GCall GSetOp) :
    (gsettings.fix e).exec s c h o = (guardedWrite e c o.op o.wit).map fun kv => (aput s kv.1 kv.2, aput c kv.1 kv.2) := by
  simp only [EComp.fix, gsettings, guardedWrite]
  cases gsetCheck e c o.op with
  | none => rfl
  | some kv =>
    obtain ⟨k, v⟩ := kv
    cases committeeOk e.committee o.wit <;> rfl

private theorem u32 {v : Int} (h : isUint32 v = true) : 0 ≤ v ∧ v ≤ 4294967295 := by
  simpa [isUint32] using h

theorem maxVUB_eq_generated (e : Env) (c : List (Nat × Int)) (v : Int) (wit : Witness) (id : Int) (hv : isUint32 v = true) :
    (guardedWrite e c (.maxVUB v) wit).map (fun kv => [id, kv.2]) =
      GoFuncs.policySetMaxVUBIncrement v (cval c kMTB) (committeeOk e.committee wit) id := by
  unfold GoFuncs.policySetMaxVUBIncrement guardedWrite gsetCheck
  simp only [hv]
  by_cases hc : committeeOk e.committee wit = true <;> by_cases h1 : v ≤ 0 <;> by_cases h2 : 86400 < v <;>
    by_cases h3 : v ≥ cval c kMTB <;> simp [*]

theorem maxTraceable_eq_generated (e : Env) (c : List (Nat × Int)) (v : Int) (wit : Witness) (id : Int) (hv : isUint32 v = true) :
    (guardedWrite e c (.maxTraceable v) wit).map (fun kv => [id, kv.2]) =
      GoFuncs.policySetMaxTraceableBlocks v (cval c kMTB) (cval c kVUB) (committeeOk e.committee wit) id := by
  unfold GoFuncs.policySetMaxTraceableBlocks guardedWrite gsetCheck
  simp only [hv]
  by_cases hc : committeeOk e.committee wit = true <;> by_cases h1 : v ≤ 0 <;> by_cases h2 : 2102400 < v <;>
    by_cases h3 : v > cval c kMTB <;> by_cases h4 : v ≤ cval c kVUB <;> simp [*]

theorem msPerBlock_eq_generated (e : Env) (c : List (Nat × Int)) (v : Int) (wit : Witness) (id : Int) (hv : isUint32 v = true) :
    (guardedWrite e c (.msPerBlock v) wit).map (fun kv => [id, kv.2]) =
      GoFuncs.policySetMillisecondsPerBlock v (committeeOk e.committee wit) id := by
  unfold GoFuncs.policySetMillisecondsPerBlock guardedWrite gsetCheck
  simp only [hv]
  by_cases hc : committeeOk e.committee wit = true <;> by_cases h1 : v ≤ 0 <;> by_cases h2 : 30000 < v <;> simp [*]

theorem attrFee_eq_generated (e : Env) (c : List (Nat × Int)) (t v : Int) (wit : Witness) (id : Int)
    (ht : isUint8 t = true) (hv : isUint32 v = true) :
    (guardedWrite e c (.attrFee t v) wit).map (fun kv => [id, kv.2]) =
      GoFuncs.policySetAttributeFee true t v (validAttr t) (committeeOk e.committee wit) id := by
  unfold GoFuncs.policySetAttributeFee guardedWrite gsetCheck
  simp only [ht, hv]
  by_cases hc : committeeOk e.committee wit = true <;> by_cases h1 : validAttr t = true <;>
    by_cases h2 : v > 1000000000 <;> simp [*]

theorem nvbDelta_eq_generated (e : Env) (c : List (Nat × Int)) (v : Int) (wit : Witness) (id cfg : Int)
    (hv : isUint32 v = true) (hn : e.validators < 4294967296) :
    (guardedWrite e c (.nvbDelta v) wit).map (fun kv => [id, kv.2]) =
      GoFuncs.notarySetMaxNotValidBeforeDelta v cfg (cval c kVUB) e.validators (committeeOk e.committee wit) id := by
  unfold GoFuncs.notarySetMaxNotValidBeforeDelta guardedWrite gsetCheck
  have hm : ((e.validators : Int) % 4294967296) = e.validators := by omega
  simp only [hv, hm]
  by_cases hc : committeeOk e.committee wit = true <;> by_cases h1 : v > cval c kVUB / 2 <;>
    by_cases h2 : v < (e.validators : Int) <;> simp [*]

theorem sign_nonpos_iff (v : Int) : Int.sign v ≤ 0 ↔ v ≤ 0 := by
  rcases Int.lt_trichotomy v 0 with h | h | h
  · rw [Int.sign_eq_neg_one_of_neg h]; omega
  · subst h; simp
  · rw [Int.sign_eq_one_of_pos h]; omega

theorem oraclePrice_eq_generated (e : Env) (c : List (Nat × Int)) (v : Int) (wit : Witness) (id : Int) :
    (guardedWrite e c (.oraclePrice v) wit).map (fun kv => [id, kv.2]) =
      GoFuncs.oracleSetPrice v (Int.sign v) (isInt64 v) (committeeOk e.committee wit) id v := by
  unfold GoFuncs.oracleSetPrice guardedWrite gsetCheck
  simp only [sign_nonpos_iff]
  by_cases hc : committeeOk e.committee wit = true <;> by_cases h1 : v ≤ 0 <;> by_cases h2 : isInt64 v = true <;> simp [*]

theorem registerPrice_eq_generated (e : Env) (c : List (Nat × Int)) (v : Int) (wit : Witness) (id : Int) :
    (guardedWrite e c (.registerPrice v) wit).map (fun kv => [id, kv.2]) =
      GoFuncs.neoSetRegisterPrice v (Int.sign v) (isInt64 v) (committeeOk e.committee wit) id v := by
  unfold GoFuncs.neoSetRegisterPrice guardedWrite gsetCheck
  simp only [sign_nonpos_iff]
  by_cases hc : committeeOk e.committee wit = true <;> by_cases h1 : v ≤ 0 <;> by_cases h2 : isInt64 v = true <;> simp [*]

/-- when the argument conversion panics (toUint8 / toUint32) the model faults too -/
theorem conversion_faults (e : Env) (c : List (Nat × Int)) (wit : Witness) (t v : Int) :
    (isUint32 v = false → guardedWrite e c (.maxVUB v) wit = none ∧ guardedWrite e c (.maxTraceable v) wit = none ∧
      guardedWrite e c (.msPerBlock v) wit = none ∧ guardedWrite e c (.nvbDelta v) wit = none ∧
      guardedWrite e c (.attrFee t v) wit = none) ∧
    (isUint8 t = false → guardedWrite e c (.attrFee t v) wit = none) := by
  refine ⟨fun h => ?_, fun h => ?_⟩ <;> simp [guardedWrite, gsetCheck, h]

/-- big.Int.Cmp as the translated leaf sees it -/
def cmpCode (a b : Int) : Int := if a < b then -1 else if a = b then 0 else 1

theorem gpb_eq_generated (e : Env) (s c : List (Nat × Int)) (h : Nat) (v : Int) (wit : Witness) :
    ((gpb.fix e).exec s c h ⟨v, wit⟩).map (fun _ => [((h : Int) + 1)]) =
      GoFuncs.neoSetGASPerBlock ((h : Int) + 1) (Int.sign v) (cmpCode v 1000000000) (committeeOk e.committee wit) := by
  unfold GoFuncs.neoSetGASPerBlock cmpCode
  simp only [EComp.fix, gpb]
  have hs : Int.sign v = -1 ↔ v < 0 := by
    rcases Int.lt_trichotomy v 0 with h | h | h
    · rw [Int.sign_eq_neg_one_of_neg h]; omega
    · subst h; simp
    · rw [Int.sign_eq_one_of_pos h]; omega
  cases committeeOk e.committee wit <;> simp <;> split <;> simp_all <;> omega

theorem minDeploy_eq_generated (e : Env) (s : Int) (c : Unit) (h : Nat) (v : Int) (wit : Witness) (id : Int) :
    ((gmindeploy.fix e).exec s c h ⟨v, wit⟩).map (fun _ => [id]) =
      GoFuncs.managementSetMinimumDeploymentFee v (Int.sign v) (committeeOk e.committee wit) id := by
  unfold GoFuncs.managementSetMinimumDeploymentFee
  simp only [EComp.fix, gmindeploy]
  have hs : Int.sign v < 0 ↔ v < 0 := by
    rcases Int.lt_trichotomy v 0 with h | h | h
    · rw [Int.sign_eq_neg_one_of_neg h]; omega
    · subst h; simp
    · rw [Int.sign_eq_one_of_pos h]; omega
  simp only [hs]
  by_cases hc : committeeOk e.committee wit = true <;> by_cases h1 : v < 0 <;> simp [*]

/-- stackitem BigInteger.IsUint64 -/
def isUint64 (v : Int) : Bool := decide (0 ≤ v) && decide (v ≤ 18446744073709551615)

/-- the role check of designateAsRole in the model (first guard of `gdesignate`) = Designate.getRole translated from
    designate.go (leaves: TryInteger succeeded, IsUint64 / Uint64 of the argument, noderoles.IsValid of the truncated role) -/
theorem getRole_eq_generated (r : Int) :
    (GoFuncs.designateGetRole r false (isUint64 r) r (roleList.contains (r % 256).toNat)).2 =
      !(decide (r < 0) || decide (r > 255) || !roleList.contains r.toNat) := by
  unfold GoFuncs.designateGetRole isUint64
  by_cases h0 : r < 0
  · have : ¬ (0 ≤ r) := by omega
    simp [h0, this]
  · by_cases h1 : r > 255
    · by_cases h2 : r ≤ 18446744073709551615 <;> simp [h0, h1, h2] <;> omega
    · have hm : r % 256 = r := by omega
      have h2 : r ≤ 18446744073709551615 := by omega
      have h3 : 0 ≤ r := by omega
      have h4 : r ≤ 255 := by omega
      simp [h0, h1, h2, h3, h4, hm]

/-- the signature count of NEO.CheckAlmostFullCommittee in the model (Model/Ledger/Recover.lean) = the argument the
    translated function passes to CreateMultiSigRedeemScript, for every committee size -/
theorem almostFullM_eq_generated (x : Int) (n : Nat) :
    GoFuncs.neoCheckAlmostFullCommittee x n = some [(Recover.almostFullM n : Int)] := by
  unfold GoFuncs.neoCheckAlmostFullCommittee Recover.almostFullM
  cases n with
  | zero => decide
  | succ k =>
    have h : Int.tdiv (((k + 1 : Nat) : Int) - 1) 2 = (((k + 1 : Nat) : Int) - 1) / 2 := by
      apply Int.tdiv_eq_ediv_of_nonneg; omega
    simp only [h]
    congr 2
    omega

-- the natives model's own setters ------------------------------------------------------------------------------------

theorem setFeePerByte_eq_generated (w : TxView) (tx : Tx) (v id : Int) (h : tx.op = .setFeePerByte v) :
    GoFuncs.policySetFeePerByte (int64Wrap v) (checkCommittee w tx) id =
      if (execOp w tx).2 = Res.halt then some [id, (execOp w tx).1.pol.feePerByte] else none := by
  unfold GoFuncs.policySetFeePerByte
  simp only [execOp, h]
  cases checkCommittee w tx <;> simp <;> split <;> simp_all <;> omega

theorem setExecFeeFactor_eq_generated (w : TxView) (tx : Tx) (v id : Int) (h : tx.op = .setExecFeeFactor v) :
    GoFuncs.policySetExecFeeFactor v true (checkCommittee w tx) id =
      if (execOp w tx).2 = Res.halt then some [id, (execOp w tx).1.pol.execFeeFactor] else none := by
  unfold GoFuncs.policySetExecFeeFactor
  simp only [execOp, h]
  cases checkCommittee w tx <;> simp <;> split <;> simp_all <;> omega

theorem setStoragePrice_eq_generated (w : TxView) (tx : Tx) (v id : Int) (h : tx.op = .setStoragePrice v) :
    GoFuncs.policySetStoragePrice v (checkCommittee w tx) id =
      if (execOp w tx).2 = Res.halt then some [id, (execOp w tx).1.pol.storagePrice] else none := by
  unfold GoFuncs.policySetStoragePrice
  simp only [execOp, h]
  cases checkCommittee w tx <;> simp <;> split <;> simp_all <;> omega

-- non-vacuity
example : guardedWrite { committee := [(0, 0), (1, 0)], validators := 1 } (genesisSettings 20 5 1000) (.maxVUB 19) (some (2, [0, 1])) = some (kVUB, 19) ∧
    guardedWrite { committee := [(0, 0), (1, 0)], validators := 1 } (genesisSettings 20 5 1000) (.maxVUB 20) (some (2, [0, 1])) = none ∧
    GoFuncs.policySetMaxVUBIncrement 19 20 true (-7) = some [-7, 19] := by decide

end NeoModel.Ledger.Guarded
