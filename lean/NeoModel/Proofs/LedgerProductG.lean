/-
C01 — the product of ALL modelled natives with the guards of the committee setters inside the model:
Policy fees + blocked list + NEO governance (Model/Ledger/Natives.lean) supply the environment (cached committee after
OnPersist, validators count) in which the guarded settings, RoleManagement and gasPerBlock components run; the
whitelisted fees and ContractManagement ride along.
-/
import NeoModel.Proofs.LedgerGuarded
import NeoModel.Proofs.LedgerGpb
import NeoModel.Proofs.LedgerMgmt
namespace NeoModel.Ledger.Natives
open NeoModel.Ledger Components Guarded

abbrev GStore := Storage × List (Nat × Int) × List (WKey × Int) × RoleStore × Mgmt.MStore × Recs × Int
abbrev GCache := Caches × List (Nat × Int) × List (WKey × Int) × RoleCache × Mgmt.MCache × Recs × Unit
abbrev GBlock := List Tx × List (CTx (GCall GSetOp)) × List (CTx WlOp) × List (CTx (GCall DesOp)) × List (CTx Mgmt.MOp) × List (CTx (GCall Int)) × List (CTx (GCall Int))
abbrev GRes := List Res × List Bool × Unit × List Bool × List Bool × List Bool × List Bool
abbrev GGet := Getters × List (Nat × Int) × List (WKey × Int) × RoleCache × (Nat → Option (Int × Nat × Flags.MF.Item)) × (Nat → Option Int) × Unit

/-- the components that run in the environment the natives part supplies -/
def compsE (P : Mgmt.Params) : EUSys Env (List (Nat × Int) × List (WKey × Int) × RoleStore × Mgmt.MStore × Recs × Int)
    (List (Nat × Int) × List (WKey × Int) × RoleCache × Mgmt.MCache × Recs × Unit)
    (List (CTx (GCall GSetOp)) × List (CTx WlOp) × List (CTx (GCall DesOp)) × List (CTx Mgmt.MOp) × List (CTx (GCall Int)) × List (CTx (GCall Int)))
    (List Bool × Unit × List Bool × List Bool × List Bool × List Bool)
    (List (Nat × Int) × List (WKey × Int) × RoleCache × (Nat → Option (Int × Nat × Flags.MF.Item)) × (Nat → Option Int) × Unit) :=
  gsettings.toEUSys.prod ((whitelist.toUSys.toE Env).prod (gdesignate.toEUSys.prod (((Mgmt.mgmtU P).toE Env).prod
    (gpbU.prod gmindeploy.toEUSys))))

/-- all modelled natives in one single-state system -/
def allUG (cfg : Cfg) (P : Mgmt.Params) : USys GStore GCache GBlock GRes GGet := (natU cfg).dprod (envOf cfg) (compsE P)

def AllGoodG (cfg : Cfg) (P : Mgmt.Params) : GStore → GCache → Nat → Prop :=
  fun v c h => NatGood cfg v.1 c.1 h ∧ (c.2.1 = gsettings.init v.2.1 ∧ (c.2.2.1 = whitelist.init v.2.2.1 ∧
    (c.2.2.2.1 = gdesignate.init v.2.2.2.1 ∧ (Mgmt.MgmtJ P v.2.2.2.2.1 c.2.2.2.2.1 ∧
      (GpbGood v.2.2.2.2.2.1 c.2.2.2.2.2.1 h ∧ c.2.2.2.2.2.2 = gmindeploy.init v.2.2.2.2.2.2)))))

theorem allUG_adequate (cfg : Cfg) (P : Mgmt.Params) (hy : Mgmt.Hyp P) : UAdequate (allUG cfg P) (AllGoodG cfg P) :=
  (natU_adequate cfg).dprod
    (EUSys.prod_adequate (EComp.uadequate gsettings gsettings_exact)
      (EUSys.prod_adequate (USys.toE_adequate whitelist_exact.uadequate)
        (EUSys.prod_adequate (EComp.uadequate gdesignate gdesignate_exact)
          (EUSys.prod_adequate (USys.toE_adequate (Mgmt.mgmtU_adequate P hy))
            (EUSys.prod_adequate gpbU_adequate (EComp.uadequate gmindeploy gmindeploy_exact))))))
    (fun v c₁ c₂ h g1 g2 => envOf_det cfg v c₁ c₂ h g1 g2)

def allDefaultG : GCache := (emptyCaches, [], [], [], fun _ => none, [], ())

def allSysG (cfg : Cfg) (P : Mgmt.Params) := (allUG cfg P).toSys allDefaultG

/-- the node right after the genesis block: natives part at genesis; settings as Initialize of Policy / Notary / Oracle /
    NEO leaves them for the protocol configuration (mtb, vubi, mspb); one gasPerBlock record; the default minimum
    deployment fee (10 GAS, management.go:816); no deployed contract; the other components
    with the given initial storage and the caches InitializeCache builds from it -/
def allGenesisNodeG (cfg : Cfg) (P : Mgmt.Params) (holder : Acct) (mtb vubi mspb : Int) (w0 : List (WKey × Int)) (r0 : RoleStore) :
    Node Unit GStore GCache GRes Unit :=
  { db := fun _ => some (genesisStorage cfg holder, genesisSettings mtb vubi mspb, w0, r0, Mgmt.emptyStore, [(0, 500000000)], 1000000000), mem := [],
    cache := (genesisCaches cfg holder, gsettings.init (genesisSettings mtb vubi mspb), whitelist.init w0, gdesignate.init r0,
              Mgmt.init P Mgmt.emptyStore, [(0, 500000000)], ()),
    height := 0, pool := [], last := ([], [], (), [], [], [], []) }

theorem allGenesisG_good (cfg : Cfg) (P : Mgmt.Params) (holder : Acct) (mtb vubi mspb : Int) w0 r0 :
    UGood (AllGoodG cfg P) (allGenesisNodeG cfg P holder mtb vubi mspb w0 r0).read
      (allGenesisNodeG cfg P holder mtb vubi mspb w0 r0).cache 0 := by
  refine ⟨(genesisStorage cfg holder, genesisSettings mtb vubi mspb, w0, r0, Mgmt.emptyStore, [(0, 500000000)], 1000000000), rfl, ?_, rfl, rfl, rfl,
    Mgmt.mgmt_empty_good P, gpb_genesis_good _, rfl⟩
  obtain ⟨st, hst, hp, hn⟩ := genesis_good cfg holder
  have : st = genesisStorage cfg holder := by
    have : (genesisNode cfg holder).read () = some (genesisStorage cfg holder) := rfl
    rw [this] at hst; exact (Option.some.inj hst).symm
  subst this
  exact ⟨hp, hn⟩

end NeoModel.Ledger.Natives
