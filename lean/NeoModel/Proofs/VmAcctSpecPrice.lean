import NeoModel.Proofs.VmAcctSpecLim
import NeoModel.Generated.Opcodes
namespace NeoModel.Vm

/-- the price getter of the node: `fee.Opcode(base, op)` over the regenerated coefficient table -/
def tablePrice (base : Nat) (b : UInt8) : Nat := base * Generated.Opcodes.prices.getD b.toNat 0

set_option maxRecDepth 100000 in
theorem table_pos_all : (List.range 256).all (fun n =>
    !(Op.ofByte (UInt8.ofNat n)).isSome || n == 0x40 || n == 0x41 || n == 0x38 || n == 0xE0 ||
      decide (1 ≤ Generated.Opcodes.prices.getD n 0)) = true := by decide

theorem tablePrice_ok (base : Nat) (hb : 1 ≤ base) : PriceOk (tablePrice base) := by
  refine ⟨fun b hv h1 h2 h3 h4 => ?_⟩
  have hlt : b.toNat < 256 := b.toNat_lt
  have := List.all_eq_true.1 table_pos_all b.toNat (List.mem_range.2 hlt)
  have hb' : UInt8.ofNat b.toNat = b := by simp
  rw [hb'] at this
  have n1 : ¬ b.toNat = 0x40 := fun e => h1 (by rw [← hb', e]; rfl)
  have n2 : ¬ b.toNat = 0x41 := fun e => h2 (by rw [← hb', e]; rfl)
  have n3 : ¬ b.toNat = 0x38 := fun e => h3 (by rw [← hb', e]; rfl)
  have n4 : ¬ b.toNat = 0xE0 := fun e => h4 (by rw [← hb', e]; rfl)
  simp only [hv, Bool.not_true, Bool.false_or, Bool.or_eq_true, beq_iff_eq, decide_eq_true_eq, n1, n2, n3, n4, false_or] at this
  exact Nat.mul_le_mul hb this

end NeoModel.Vm
