/-
C11 helper lemmas: reading a root through the node store.
-/
import NeoModel.Model.MptRc
import NeoModel.Proofs.MptRcRun
import NeoModel.Proofs.MptProofs
set_option linter.unusedSimpArgs false
namespace NeoModel.MptRc
open NeoModel.Mpt

/-- the node bytes held by the store (what `getFromStore` hands to the decoder). -/
def storeBytes (s : Store) : List Bytes := s.map (·.2.bytes)

theorem mem_of_sget {s : Store} {k : Bytes} {c : Cell} (h : sget s k = some c) : (k, c) ∈ s := by
  induction s with
  | nil => simp [sget] at h
  | cons e s ih =>
    obtain ⟨a, c'⟩ := e
    simp only [sget] at h
    by_cases ha : a = k
    · simp only [ha, if_true, Option.some.injEq] at h
      subst ha; subst h; simp
    · simp only [ha, if_false] at h
      exact List.mem_cons_of_mem _ (ih h)

theorem sget_of_mem {s : Store} (hn : StoreND s) {k : Bytes} {c : Cell} (h : (k, c) ∈ s) : sget s k = some c := by
  induction s with
  | nil => simp at h
  | cons e s ih =>
    obtain ⟨a, c'⟩ := e
    have hn' := List.nodup_cons.mp hn
    simp only [List.mem_cons, Prod.mk.injEq] at h
    rcases h with ⟨rfl, rfl⟩ | h
    · simp [sget]
    · have : a ≠ k := by
        intro e; subst e
        exact hn'.1 (List.mem_map.mpr ⟨(a, c), h, rfl⟩)
      simp only [sget, this, if_false]
      exact ih hn'.2 h

theorem bytes_mem_of_sget {s : Store} {k : Bytes} {c : Cell} (h : sget s k = some c) : c.bytes ∈ storeBytes s :=
  List.mem_map.mpr ⟨(k, c), mem_of_sget h, rfl⟩

theorem le_ksum (P : Node → Bool) (cs : Nib → Node) (i : Nib) : occ P (cs i) ≤ ksum P cs := by
  simp only [ksum]
  have hm : i ∈ List.finRange 16 := List.mem_finRange i
  generalize List.finRange 16 = l at hm
  induction l with
  | nil => simp at hm
  | cons a l ih =>
    simp only [List.mem_cons] at hm
    simp only [List.map_cons, List.sum_cons]
    rcases hm with rfl | hm
    · omega
    · have := ih hm; omega

/-- every node encoding of a trie belongs to a node that occurs in it. -/
theorem occH_pos_of_mem_nodeEncs (H : Bytes → Bytes) (t : Node) : ∀ e, e ∈ nodeEncs H t → 0 < occH H t (H e) := by
  induction t with
  | empty => intro e he; simp [nodeEncs] at he
  | leaf v =>
    intro e he
    simp only [nodeEncs, List.mem_singleton] at he
    subst he
    have : hP H (H (encLeaf v)) (.leaf v) = true := by simp [hP, Mpt.hash, enc]
    simp [occH, occ, this, b2n]
  | ext k n ih =>
    intro e he
    simp only [nodeEncs, List.mem_cons] at he
    rcases he with rfl | he
    · simp only [occH, occ_ext]
      have : hP H (H (enc H (.ext k n))) (.ext k n) = true := by simp [hP, Mpt.hash]
      simp only [this, b2n, if_true]; omega
    · have := ih e he
      simp only [occH, occ_ext] at this ⊢
      omega
  | branch cs v ih =>
    intro e he
    simp only [nodeEncs, List.mem_cons, List.mem_append, List.mem_flatMap] at he
    rcases he with rfl | ⟨i, _, hi⟩ | hs
    · simp only [occH, occ_branch]
      have : hP H (H (enc H (.branch cs v))) (.branch cs v) = true := by simp [hP, Mpt.hash]
      simp only [this, b2n, if_true]; omega
    · have h1 := ih i e hi
      have h2 := le_ksum (hP H (H e)) cs i
      simp only [occH, occ_branch] at h1 ⊢
      omega
    · cases v with
      | none => simp at hs
      | some w =>
        simp only [List.mem_singleton] at hs
        subst hs
        simp only [occH, occ_branch, occSlot]
        have : hP H (H (encLeaf w)) (.leaf w) = true := by simp [hP, Mpt.hash, enc]
        simp only [this, b2n, if_true]; omega

/-- a retained trie is entirely in the store, byte for byte. -/
theorem nodeEncs_in_store {H : Bytes → Bytes} {s : Store} {t : Node} {hi : Nat}
    (hk : Kept H s t hi) (hb : ∀ h c, sget s h = some c → H c.bytes = h)
    (hcf : CollFree H (storeBytes s ++ nodeEncs H t)) :
    ∀ e ∈ nodeEncs H t, e ∈ storeBytes s := by
  intro e he
  have hpos := occH_pos_of_mem_nodeEncs H t e he
  have hc := hk (H e) hpos
  cases hs : sget s (H e) with
  | none => rw [hs] at hc; exact hc.elim
  | some c =>
    have hmem := bytes_mem_of_sget hs
    have heq : c.bytes = e :=
      hcf _ (List.mem_append_left _ hmem) _ (List.mem_append_right _ he) (hb _ _ hs)
    rw [← heq]; exact hmem

/-! ### the keyed walk of the driver is the walk of C10 over the stored bytes -/

theorem fetch_eq_sget {H : Bytes → Bytes} {s : Store} (hn : StoreND s)
    (hb : ∀ h c, sget s h = some c → H c.bytes = h) (h : Bytes) :
    fetch H (storeBytes s) h = (sget s h).map (·.bytes) := by
  cases hs : sget s h with
  | some c =>
    simp only [Option.map_some]
    have hmem := bytes_mem_of_sget hs
    cases hf : fetch H (storeBytes s) h with
    | none =>
      simp only [fetch, List.find?_eq_none] at hf
      have := hf c.bytes (by simpa using hmem)
      simp [hb _ _ hs] at this
    | some p =>
      simp only [fetch] at hf
      have hp := List.find?_some hf
      have hpm : p ∈ storeBytes s := by simpa using List.mem_of_find?_eq_some hf
      obtain ⟨⟨k', c'⟩, hm, hbytes⟩ := List.mem_map.mp hpm
      have hs' := sget_of_mem hn hm
      have hk' : H c'.bytes = k' := hb _ _ hs'
      simp only at hbytes
      have : k' = h := by rw [← hk', hbytes]; simpa using hp
      subst this
      rw [hs] at hs'
      cases hs'
      rw [← hbytes]
  | none =>
    simp only [Option.map_none]
    simp only [fetch, List.find?_eq_none]
    intro p hp
    have hpm : p ∈ storeBytes s := by simpa using hp
    obtain ⟨⟨k', c'⟩, hm, hbytes⟩ := List.mem_map.mp hpm
    have hs' := sget_of_mem hn hm
    have hk' : H c'.bytes = k' := hb _ _ hs'
    simp only at hbytes
    intro hh
    have : k' = h := by rw [← hk', hbytes]; simpa using hh
    subst this
    rw [hs] at hs'; cases hs'

theorem swalk_eq_walk {H : Bytes → Bytes} {s : Store} (hn : StoreND s)
    (hb : ∀ h c, sget s h = some c → H c.bytes = h) :
    ∀ (f : Nat) (h : Bytes) (p : Path), swalk s f h p = walk H (storeBytes s) f h p := by
  intro f
  induction f with
  | zero => intro h p; rfl
  | succ f ih =>
    intro h p
    simp only [swalk, walk, fetch_eq_sget hn hb h]
    cases hs : sget s h with
    | none => rfl
    | some c =>
      simp only [Option.map_some]
      have : swalk s f = walk H (storeBytes s) f := by funext h' p'; exact ih h' p'
      rw [this]
      cases decodeTop c.bytes with
      | none => rfl
      | some n => cases n <;> rfl

end NeoModel.MptRc
