/-
C06 helper lemmas: the post-block mempool filter (IsTxStillRelevant) is strong enough to keep only
transactions that pass the stand-alone verification at the new state.
-/
import NeoModel.Proofs.AddBlockTxVerify
namespace NeoModel.AddBlock

theorem sum_stdCost (ws : List Witness) (hs : ∀ w ∈ ws, w.isScript = true) :
    ((ws.map Witness.stdCost).filterMap id).sum = sumCost ws ∧ (ws.map Witness.stdCost).all Option.isSome = true := by
  induction ws with
  | nil => exact ⟨rfl, rfl⟩
  | cons w rest ih =>
    have hw := hs w (by simp)
    obtain ⟨i1, i2⟩ := ih (fun x hx => hs x (by simp [hx]))
    cases w with
    | contract f => cases hw
    | script a b c d cost =>
      simp only [List.map_cons, Witness.stdCost, List.filterMap_cons, id, List.sum_cons, List.all_cons, Option.isSome, Bool.true_and]
      refine ⟨?_, i2⟩
      rw [i1]; simp [sumCost, Witness.cost]

/-- C06 / mempool soundness step: a pooled transaction that `IsTxStillRelevant` keeps after a block passes
the stand-alone verification at the new state — given what does not depend on the state (its script is
well-formed, its size is within the limit, its script witnesses are sound and each costs no more than
MaxVerificationGas: all established when it was pooled) and given that the conflict test covers the
on-chain records (`hrec`: no conflict reported ⇒ no transaction and no traceable conflict record of a
signer under its hash at the new state). This is the inductive step that turns the mempool-soundness
hypothesis of `accept_only_valid` into an invariant; the three defects 397b691, 0375dbe, 4f45775 were
missing conjuncts of exactly this implication. -/
theorem stillRelevant_sound (c : Chain) (t : VTx) (conf : Bool)
    (hscript : t.scriptOk = true) (hsize : t.size ≤ maxTransactionSize)
    (hw : ∀ w ∈ t.wits, w.isScript = true → w.sound = true ∧ w.cost ≤ c.maxVerGas)
    (hrec : conf = false → c.lookup t.id ≠ .tx ∧ stubHits (c.lookup t.id) t.accounts c.height c.mtb = false)
    (h : stillRelevant c t conf (t.wits.map Witness.stdCost) = true) : verifyTx c t = none := by
  unfold stillRelevant at h
  split at h; · cases h
  rename_i h1
  split at h; · cases h
  rename_i h2
  split at h; · cases h
  rename_i h3
  split at h; · cases h
  rename_i h4
  split at h; · cases h
  rename_i h5
  split at h; · cases h
  rename_i h6
  have hc : conf = false := by
    cases conf
    · rfl
    · exact absurd rfl h3
  obtain ⟨r1, r2⟩ := hrec hc
  have hwit : ∃ left, verifyWitnesses c (t.netFee - needFee c t) t.wits = some left := by
    split at h
    · rename_i hall
      have hs : ∀ w ∈ t.wits, w.isScript = true := by
        intro w hwm
        rw [List.all_eq_true] at hall
        have := hall (w.stdCost) (List.mem_map.mpr ⟨w, hwm, rfl⟩)
        cases w <;> simp [Witness.stdCost, Witness.isScript] at this ⊢
      have hsum := (sum_stdCost t.wits hs).1
      rw [hsum] at h
      have hle : needFee c t + sumCost t.wits ≤ t.netFee := by simpa using h
      refine ⟨t.netFee - needFee c t - sumCost t.wits, ?_⟩
      rw [verifyWitnesses_scripts c _ t.wits hs]
      exact ⟨fun w hwm => hw w hwm (hs w hwm), by omega, rfl⟩
    · exact Option.isSome_iff_exists.mp h
  apply (verifyTx_none_iff c t).mpr
  refine ⟨hscript, by omega, by omega, ?_, hsize, by omega, r1, r2, hwit, ?_⟩
  · intro a ha
    have : t.accounts.any c.blocked = false := by simpa using h4
    rw [List.any_eq_false] at this
    simpa using this a ha
  · have : verifyAttrs c t = true := by simpa using h6
    unfold verifyAttrs at this
    rw [List.all_eq_true] at this
    exact this

/-- the indices recorded in a conflict record are not above `h` -/
def recIndicesLe (r : Rec) (h : Nat) : Prop :=
  match r with
  | .stub i sg => i ≤ h ∧ ∀ p ∈ sg, p.2 ≤ h
  | _ => True

theorem isTraceable_mono (i h mtb : Nat) (hi : i ≤ h) (ht : isTraceable i (h + 1) mtb = true) : isTraceable i h mtb = true := by
  unfold isTraceable at ht ⊢
  simp only [Bool.and_eq_true, decide_eq_true_eq] at ht ⊢
  omega

/-- a conflict record that does not count at height `h` does not count at `h+1` either (it only ages) -/
theorem stubHits_mono (r : Rec) (sg : List Nat) (h mtb : Nat) (hle : recIndicesLe r h)
    (hn : stubHits r sg h mtb = false) : stubHits r sg (h + 1) mtb = false := by
  cases r with
  | stub i recs =>
    obtain ⟨hi, hp⟩ := hle
    unfold stubHits at hn ⊢
    simp only [Bool.or_eq_false_iff] at hn ⊢
    refine ⟨hn.1, ?_⟩
    cases ht : isTraceable i (h + 1) mtb
    · simp
    · have h0 := isTraceable_mono i h mtb hi ht
      rw [h0, Bool.true_and] at hn
      rw [Bool.true_and, List.any_eq_false]
      intro a ha
      have h1 := List.any_eq_false.mp hn.2 a ha
      intro hc
      apply h1
      rw [List.any_eq_true] at hc ⊢
      obtain ⟨p, hpm, hpt⟩ := hc
      refine ⟨p, hpm, ?_⟩
      simp only [Bool.and_eq_true] at hpt ⊢
      exact ⟨hpt.1, isTraceable_mono p.2 h mtb (hp p hpm) hpt.2⟩
  | _ => rfl

/-- C06 / mempool soundness, the complete step over one block: a transaction that was valid at height
`h`, is not in conflict with the block's transactions (`blockConflict` = the scratch pool's HasConflicts)
and is kept by IsTxStillRelevant at the state after the block, is valid at height `h+1` — where the state
after the block has the records the block's transactions leave (`lookupAfter`) and the same
MaxTraceableBlocks / MaxVerificationGas. -/
theorem survivor_valid_after_block (c c' : Chain) (t : VTx) (txs : List VTx) (stub : Nat → Rec)
    (hv : TxValid c t)
    (hh : c'.height = c.height + 1) (hm : c'.mtb = c.mtb) (hg : c'.maxVerGas = c.maxVerGas)
    (hl : c'.lookup = lookupAfter c.lookup txs stub)
    (hidx : recIndicesLe (c.lookup t.id) c.height)
    (hs : ∀ w ∈ t.wits, w.isScript = true → w.sound = true ∧ w.cost ≤ c.maxVerGas)
    (h : stillRelevant c' t (blockConflict txs t) (t.wits.map Witness.stdCost) = true) : TxValid c' t := by
  apply (verifyTx_none_iff c' t).mp
  apply stillRelevant_sound c' t (blockConflict txs t) hv.script hv.size (by rw [hg]; exact hs) ?_ h
  intro hc
  unfold blockConflict at hc
  simp only [Bool.or_eq_false_iff] at hc
  have hsame : c'.lookup t.id = c.lookup t.id := by
    rw [hl]; unfold lookupAfter
    rw [hc.1.1, hc.1.2]; rfl
  rw [hsame, hh, hm]
  exact ⟨hv.notOnChain, stubHits_mono _ _ _ _ hidx hv.noConflictRecord⟩

end NeoModel.AddBlock
