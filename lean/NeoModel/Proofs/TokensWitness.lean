/-
Witnesses: what `witOf` (runtime.CheckHashedWitness + checkScope) accepts, and that a call whose witness check
fails changes nothing.
-/
import NeoModel.Model.Tokens
namespace NeoModel.Tokens

/-- `witOf` accepts exactly: the calling contract itself, or the first signer with that account when its scope is
Global, or CalledByEntry and the call is made by the entry script, or CustomContracts and the called native is in
its list, or Rules and the first witness rule whose condition matches allows. -/
theorem witOf_iff (e : Env) (acc : Nat) (caller : Option Nat) (cur : Nat) :
    witOf e acc caller cur = true ↔
      (caller = some acc ∨ ∃ sg, e.signers.find? (fun sg => sg.acc == acc) = some sg ∧ caller ≠ some acc ∧
        (sg.scopes = 128 ∨ (sg.scopes &&& 1 ≠ 0 ∧ caller = none) ∨ (sg.scopes &&& 16 ≠ 0 ∧ cur ∈ sg.allowed) ∨
          (sg.scopes &&& 64 ≠ 0 ∧ rulesAllow caller cur sg.rules = true))) := by
  unfold witOf
  by_cases hc : caller = some acc
  · simp [hc]
  · simp only [hc, if_false, false_or]
    cases hf : e.signers.find? (fun sg => sg.acc == acc) with
    | none => simp
    | some sg =>
      simp only [Option.some.injEq, exists_eq_left', ne_eq]
      simp only [Bool.or_eq_true, Bool.and_eq_true, beq_iff_eq, bne_iff_ne, ne_eq, Option.isNone_iff_eq_none,
        List.contains_iff_mem]
      constructor
      · rintro (((h | h) | h) | h)
        · exact ⟨hc, Or.inl h⟩
        · exact ⟨hc, Or.inr (Or.inl h)⟩
        · exact ⟨hc, Or.inr (Or.inr (Or.inl h))⟩
        · exact ⟨hc, Or.inr (Or.inr (Or.inr h))⟩
      · rintro ⟨_, h | h | h | h⟩
        · exact Or.inl (Or.inl (Or.inl h))
        · exact Or.inl (Or.inl (Or.inr h))
        · exact Or.inl (Or.inr h)
        · exact Or.inr h

/-- the first matching rule decides: a matching Deny rule stops the search even if an Allow rule follows. -/
theorem rulesAllow_first (caller : Option Nat) (cur : Nat) (allow : Bool) (c : Cond) (rest : List (Bool × Cond))
    (h : c.holds caller cur = true) : rulesAllow caller cur ((allow, c) :: rest) = allow := by
  simp [rulesAllow, h]

theorem rulesAllow_skip (caller : Option Nat) (cur : Nat) (allow : Bool) (c : Cond) (rest : List (Bool × Cond))
    (h : c.holds caller cur = false) : rulesAllow caller cur ((allow, c) :: rest) = rulesAllow caller cur rest := by
  simp [rulesAllow, h]

/-- a signer with scope None (fee only) never witnesses; without a signer for the account only the calling contract
itself passes. -/
theorem witOf_none_scope (e : Env) (acc : Nat) (caller : Option Nat) (cur : Nat) (sg : Signer)
    (hf : e.signers.find? (fun sg => sg.acc == acc) = some sg) (h0 : sg.scopes = 0) (hc : caller ≠ some acc) :
    witOf e acc caller cur = false := by
  unfold witOf
  simp [hc, hf, h0]

theorem witOf_no_signer (e : Env) (acc : Nat) (caller : Option Nat) (cur : Nat)
    (hf : e.signers.find? (fun sg => sg.acc == acc) = none) (hc : caller ≠ some acc) :
    witOf e acc caller cur = false := by
  unfold witOf
  simp [hc, hf]

/-- the witness a call needs (`none`: the call needs none, or is not a call). -/
def Op.witness (s : St) : Op → Option Bool
  | .transfer t src _ _ caller _ _ => some (witOf s.env src caller (tokC s.env t))
  | .vote acc _ caller _ => some (witOf s.env acc caller s.env.neoC)
  | .unregister pub caller => some (witOf s.env (acctOf s.env pub) caller s.env.neoC)
  | .lock acc _ caller => some (witOf s.env acc caller s.env.notary)
  | .withdraw src _ caller => some (witOf s.env src caller s.env.notary)
  | .setGpb _ caller => some (witCommittee s.env s.cur caller s.env.neoC)
  | .setRegPrice _ caller => some (witCommittee s.env s.cur caller s.env.neoC)
  | .blockAcc _ caller => some (witCommittee s.env s.cur caller s.env.policyC)
  | .unblockAcc _ caller => some (witCommittee s.env s.cur caller s.env.policyC)
  | .designate _ caller => some (witCommittee s.env s.cur caller s.env.desigC)
  | _ => none

/-- `unwitnessed_call_no_effect`: a native call whose witness check fails leaves the ledger as it was (it returns
false) or faults the transaction (the ledger of the transaction's start is restored) — it never changes a balance,
a vote, a deposit, a candidate record or a setting. -/
theorem unwitnessed_no_effect (s : St) (op : Op) (h : op.witness s = some false) :
    (exec s op).cur = s.cur ∨ (exec s op).cur = s.snap := by
  cases op with
  | transfer t src dst amt caller dk data =>
    simp only [Op.witness, Option.some.injEq] at h
    simp only [exec]
    split
    · exact Or.inl rfl
    · rw [h]
      simp only [Bool.false_and]
      have hp : transferPre t s.env s.cur src dst amt false = .thr ∨ transferPre t s.env s.cur src dst amt false = .ret s.cur false := by
        unfold transferPre
        split
        · exact Or.inl rfl
        · exact Or.inr rfl
      rcases hp with hp | hp
      · rw [hp]; exact Or.inr rfl
      · rw [hp]
        simp only []
        unfold St.done
        split <;> split <;> exact Or.inl rfl
  | vote acc pub caller cb =>
    simp only [Op.witness, Option.some.injEq] at h
    simp only [exec]
    split
    · exact Or.inl rfl
    · rw [h]
      unfold votePre
      simp only [Bool.not_false, if_true]
      unfold St.done; (repeat' split) <;> exact Or.inl rfl
  | unregister pub caller =>
    simp only [Op.witness, Option.some.injEq] at h
    simp only [exec]
    split
    · exact Or.inl rfl
    · rw [h]
      unfold unregister
      simp only [Bool.not_false, if_true]
      unfold St.done; split <;> exact Or.inl rfl
  | lock acc till caller =>
    simp only [Op.witness, Option.some.injEq] at h
    simp only [exec]
    split
    · exact Or.inl rfl
    · rw [h]
      unfold lockDeposit
      simp only [Bool.not_false, if_true]
      unfold St.done; split <;> exact Or.inl rfl
  | withdraw src dst caller =>
    simp only [Op.witness, Option.some.injEq] at h
    simp only [exec]
    split
    · exact Or.inl rfl
    · rw [h]
      unfold withdrawPre
      simp only [Bool.not_false, if_true]
      unfold St.done; split <;> exact Or.inl rfl
  | setGpb gas caller =>
    simp only [Op.witness, Option.some.injEq] at h
    simp only [exec]
    split
    · exact Or.inl rfl
    · rw [h]
      have : setGasPerBlock s.env s.cur gas false = none := by unfold setGasPerBlock; split <;> rfl
      rw [this]; exact Or.inr rfl
  | setRegPrice price caller =>
    simp only [Op.witness, Option.some.injEq] at h
    simp only [exec]
    split
    · exact Or.inl rfl
    · rw [h]
      have : setRegisterPrice s.cur price false = none := by unfold setRegisterPrice; split <;> rfl
      rw [this]; exact Or.inr rfl
  | blockAcc acc caller =>
    simp only [Op.witness, Option.some.injEq] at h
    simp only [exec]
    split
    · exact Or.inl rfl
    · rw [h]; exact Or.inr rfl
  | unblockAcc acc caller =>
    simp only [Op.witness, Option.some.injEq] at h
    simp only [exec]
    split
    · exact Or.inl rfl
    · rw [h]; exact Or.inr rfl
  | designate nodes caller =>
    simp only [Op.witness, Option.some.injEq] at h
    simp only [exec]
    split
    · exact Or.inl rfl
    · rw [h]
      have : designateNotary s.env s.cur nodes false = none := by
        unfold designateNotary; split <;> (try split) <;> rfl
      rw [this]; exact Or.inr rfl
  | block _ => simp [Op.witness] at h
  | onPersist _ _ _ => simp [Op.witness] at h
  | txBegin _ _ => simp [Op.witness] at h
  | register _ _ => simp [Op.witness] at h
  | endCb => simp [Op.witness] at h
  | txEnd _ => simp [Op.witness] at h
  | postPersist => simp [Op.witness] at h

end NeoModel.Tokens
