/-
C08 helper: what `checkTxConflicts` establishes on a pool that satisfies the invariant
(the conflict scan, the expected fee sum of step 3, the balance check).
-/
import NeoModel.Proofs.MempoolRemove
namespace NeoModel.Mempool

theorem U256_pos : 0 < U256 := by unfold U256; exact Nat.two_pow_pos _

/-- what `getPayerFee` returns satisfies the fee-entry invariant -/
theorem addW_eq (a b : Nat) (h : a + b < U256) : addW a b = a + b := by
  unfold addW; exact Nat.mod_eq_of_lt h

theorem getPayerFee_entry {L : List Tx} {fees : Payer → Option Fee} (hf : FeesOk L fees) (p : Payer) (feer : Feer)
    (hF : FeerOk feer) :
    FeeEntry L p (some (getPayerFee p fees feer).1) ∧
      (((getPayerFee p fees feer).2 = true ∧ fees p = some (getPayerFee p fees feer).1) ∨
       ((getPayerFee p fees feer).2 = false ∧ fees p = none ∧
          (getPayerFee p fees feer).1 = { balance := feer.balance p.1 p.2 % U256, feeSum := 0 })) := by
  have h := hf p
  unfold getPayerFee
  cases hp : fees p with
  | some f => rw [hp] at h; exact ⟨h, Or.inl ⟨rfl, rfl⟩⟩
  | none =>
    rw [hp] at h; simp only [FeeEntry] at h
    refine ⟨?_, Or.inr ⟨rfl, rfl, rfl⟩⟩
    simp only [FeeEntry]
    exact ⟨h.symm, Nat.zero_le _, hF p.1 p.2⟩

theorem feesOk_upd {L : List Tx} {fees : Payer → Option Fee} (hf : FeesOk L fees) (p : Payer) (f : Fee)
    (h : FeeEntry L p (some f)) : FeesOk L (upd fees p (some f)) := by
  intro q
  by_cases e : q = p
  · subst e; rw [upd_same]; exact h
  · rw [upd_other _ _ e]; exact hf q

theorem upd_self_eq {κ ν : Type} [DecidableEq κ] (m : κ → Option ν) (k : κ) (v : Option ν) (h : m k = v) :
    upd m k v = m := by
  funext x; unfold upd; split
  · rename_i e; rw [e, h]
  · rfl

theorem scanStep1_spec {L : List Tx} {vmap : Nat → Option Tx} (hv : VmapOk L vmap) (author : Acct) :
    ∀ (hs : List Nat) (s : Scan), (∀ h ∈ hs, ∃ e ∈ L, e.id = h) →
      ∃ es : List Tx, (scanStep1 vmap author hs s).rm = s.rm ++ es ∧
        (scanStep1 vmap author hs s).panicked = s.panicked ∧ es.map (·.id) = hs ∧ ∀ e ∈ es, e ∈ L := by
  intro hs
  induction hs with
  | nil => intro s _; exact ⟨[], by simp [scanStep1], rfl, rfl, by simp⟩
  | cons h hs ih =>
    intro s hall
    obtain ⟨e, he1, he2⟩ := hall h List.mem_cons_self
    have hve : vmap h = some e := (hv h e).mpr ⟨he1, he2⟩
    obtain ⟨es, h1, h2, h3, h4⟩ := ih
      { s with fee := if e.hasSigner author then s.fee + e.netFee else s.fee, rm := s.rm ++ [e] }
      (fun h' hh' => hall h' (List.mem_cons_of_mem _ hh'))
    refine ⟨e :: es, ?_, ?_, ?_, ?_⟩
    · simp only [scanStep1, hve]; rw [h1]; simp
    · simp only [scanStep1, hve]; rw [h2]
    · simp [h3, he2]
    · intro x hx
      rcases List.mem_cons.mp hx with rfl | hx
      · exact he1
      · exact h4 x hx

theorem scanStep2_spec {L : List Tx} {vmap : Nat → Option Tx} (hv : VmapOk L vmap) (t : Tx) :
    ∀ (hs : List Nat) (s s' : Scan), scanStep2 vmap t hs s = some s' →
      ∃ es : List Tx, s'.rm = s.rm ++ es ∧ s'.panicked = s.panicked ∧ (es.map (·.id)).Sublist hs ∧
        (∀ e ∈ es, e ∈ L) ∧ (∀ e ∈ L, e.id ∈ hs → e ∈ es) := by
  intro hs
  induction hs with
  | nil =>
    intro s s' h
    simp only [scanStep2, Option.some.injEq] at h
    subst h
    exact ⟨[], by simp, rfl, by simp, by simp, by simp⟩
  | cons h hs ih =>
    intro s s' hres
    cases hve : vmap h with
    | none =>
      simp only [scanStep2, hve] at hres
      obtain ⟨es, h1, h2, h3, h4, h5⟩ := ih s s' hres
      refine ⟨es, h1, h2, List.Sublist.cons _ h3, h4, ?_⟩
      intro e he hid
      rcases List.mem_cons.mp hid with hid | hid
      · have := (hv h e).mpr ⟨he, hid⟩
        rw [hve] at this; cases this
      · exact h5 e he hid
    | some e0 =>
      simp only [scanStep2, hve] at hres
      split at hres
      · obtain ⟨es, h1, h2, h3, h4, h5⟩ := ih _ s' hres
        obtain ⟨he1, he2⟩ := (hv h e0).mp hve
        refine ⟨e0 :: es, ?_, ?_, ?_, ?_, ?_⟩
        · rw [h1]; simp
        · rw [h2]
        · simp only [List.map_cons, he2]; exact List.Sublist.cons_cons _ h3
        · intro x hx
          rcases List.mem_cons.mp hx with rfl | hx
          · exact he1
          · exact h4 x hx
        · intro e he hid
          rcases List.mem_cons.mp hid with hid | hid
          · have := (hv h e).mpr ⟨he, hid⟩
            rw [hve] at this
            exact List.mem_cons.mpr (Or.inl (Option.some.inj this).symm)
          · exact List.mem_cons_of_mem _ (h5 e he hid)
      · cases hres

theorem sumFees_sublist (q : Payer) {l' l : List Tx} (h : l'.Sublist l) : sumFees q l' ≤ sumFees q l := by
  induction h with
  | slnil => exact Nat.le_refl _
  | cons a _ ih => simp only [sumFees]; omega
  | cons_cons a _ ih => simp only [sumFees]; omega

theorem filter_notin_cons (L : List Tx) (c : Tx) (cs : List Tx) :
    (L.filter (fun t => t.id != c.id)).filter (fun t => !(cs.map (·.id)).contains t.id)
      = L.filter (fun t => !((c :: cs).map (·.id)).contains t.id) := by
  rw [List.filter_filter]
  congr 1
  funext t
  simp only [List.map_cons, List.contains_cons, Bool.not_or, bne]
  rw [Bool.and_comm]

/-- step 3 of `checkTxConflicts` computes the payer's fee sum after the removals. -/
theorem expectedFeeSum_eq (p : Payer) : ∀ (rm L : List Tx), (L.map (·.id)).Nodup → (∀ c ∈ rm, c ∈ L) →
    (rm.map (·.id)).Nodup → sumFees p L < U256 →
    expectedFeeSum p rm (sumFees p L) = sumFees p (L.filter (fun t => !(rm.map (·.id)).contains t.id)) := by
  intro rm
  induction rm with
  | nil =>
    intro L _ _ _ _
    simp only [expectedFeeSum]
    congr 1
    exact (List.filter_eq_self.mpr (by intro a _; simp)).symm
  | cons c cs ih =>
    intro L hnd hsub hrm hlt
    rw [List.map_cons, List.nodup_cons] at hrm
    have hc : c ∈ L := hsub c List.mem_cons_self
    have hsum := sumFees_filter_ne p L c hnd hc
    have hstep : (if payerOf c = p then subW (sumFees p L) c.fee else sumFees p L)
        = sumFees p (L.filter (fun t => t.id != c.id)) := by
      by_cases e : payerOf c = p
      · simp only [e, if_true] at hsum ⊢
        rw [subW_eq _ _ (by omega) hlt]; omega
      · simp only [e, if_false] at hsum ⊢
        omega
    simp only [expectedFeeSum]
    rw [hstep, ← filter_notin_cons]
    apply ih
    · exact hnd.sublist (List.filter_sublist.map _)
    · intro c' hc'
      refine mem_filter_ne.mpr ⟨hsub c' (List.mem_cons_of_mem _ hc'), ?_⟩
      intro e; apply hrm.1; rw [← e]; exact List.mem_map_of_mem hc'
    · exact hrm.2
    · exact Nat.lt_of_le_of_lt (sumFees_sublist p List.filter_sublist) hlt

end NeoModel.Mempool

namespace NeoModel.Mempool

theorem scan1_spec {U : Tx → Prop} (hw : WF U) {mp : Pool} (hi : Inv U mp) (t : Tx) (author : Acct) :
    (scan1 mp t author).panicked = false ∧
      (((scan1 mp t author).rm).map (·.id)).Nodup ∧
      (∀ e ∈ (scan1 mp t author).rm, e ∈ mp.txs ∧ t.id ∈ e.conflicts) ∧
      (∀ e ∈ mp.txs, t.id ∈ e.conflicts → e ∈ (scan1 mp t author).rm) := by
  unfold scan1
  have hc := hi.conf t.id
  cases hcf : mp.conflicts t.id with
  | none =>
    rw [hcf] at hc; simp only [ConfEntry] at hc
    exact ⟨rfl, by simp, by simp, fun e he h => absurd h (hc e he)⟩
  | some hs =>
    rw [hcf] at hc; simp only [ConfEntry] at hc
    obtain ⟨_, hnd, hmem⟩ := hc
    have hall : ∀ h ∈ hs, ∃ e ∈ mp.txs, e.id = h := by
      intro h hh
      obtain ⟨e, he, h1, _⟩ := (hmem h).mp hh
      exact ⟨e, he, h1⟩
    obtain ⟨es, h1, h2, h3, h4⟩ := scanStep1_spec hi.vmap author hs { fee := 0, rm := [], panicked := false } hall
    simp only [List.nil_append] at h1
    simp only
    rw [h1]
    refine ⟨h2, by rw [h3]; exact hnd, ?_, ?_⟩
    · intro e he
      refine ⟨h4 e he, ?_⟩
      have : e.id ∈ hs := by rw [← h3]; exact List.mem_map_of_mem he
      obtain ⟨e', he', h1', h2'⟩ := (hmem e.id).mp this
      have : e' = e := hi.list.idEq hw he' (h4 e he) h1'
      subst this; exact h2'
    · intro e he hne
      have : e.id ∈ es.map (·.id) := by rw [h3]; exact (hmem e.id).mpr ⟨e, he, rfl, hne⟩
      obtain ⟨e', he', hid⟩ := List.mem_map.mp this
      have : e' = e := hi.list.idEq hw (h4 e' he') he hid
      subst this; exact he'

/-- `checkTxConflicts` on a pool satisfying the invariant: a failure changes nothing. -/
theorem checkTxConflicts_err {U : Tx → Prop} (hw : WF U) {mp : Pool} (hi : Inv U mp) (t : Tx) (feer : Feer)
    {mp1 : Pool} {e : Err} (h : checkTxConflicts mp t feer = (mp1, .error e)) : mp1 = mp := by
  unfold checkTxConflicts at h
  simp only [(scan1_spec hw hi t _).1, Bool.false_eq_true, if_false] at h
  split at h
  · exact (Prod.mk.inj h).1.symm
  · split at h
    · exact (Prod.mk.inj h).1.symm
    · split at h
      · exact (Prod.mk.inj h).1.symm
      · have := (Prod.mk.inj h).2; cases this

/-- `checkTxConflicts` on a pool satisfying the invariant: what success means. -/
theorem checkTxConflicts_ok {U : Tx → Prop} (hw : WF U) {mp : Pool} (hi : Inv U mp) {t : Tx} (ht : U t) (feer : Feer)
    (hF : FeerOk feer) {mp1 : Pool} {rm : List Tx} (h : checkTxConflicts mp t feer = (mp1, .ok rm)) :
    ∃ actual : Fee,
      mp1 = { mp with fees := upd mp.fees (payerOf t) (some actual) } ∧
      FeeEntry mp.txs (payerOf t) (some actual) ∧
      (mp.fees (payerOf t) = some actual ∨
        (mp.fees (payerOf t) = none ∧
          actual = { balance := feer.balance (payerOf t).1 (payerOf t).2 % U256, feeSum := 0 })) ∧
      (∀ c ∈ rm, c ∈ mp.txs) ∧ (∀ c ∈ rm, t.id ∈ c.conflicts ∨ c.id ∈ t.conflicts) ∧ (rm.map (·.id)).Nodup ∧
      (∀ e ∈ mp.txs, t.id ∈ e.conflicts → e ∈ rm) ∧ (∀ e ∈ mp.txs, e.id ∈ t.conflicts → e ∈ rm) ∧
      t.fee + sumFees (payerOf t) (mp.txs.filter (fun x => !(rm.map (·.id)).contains x.id)) ≤ actual.balance := by
  unfold checkTxConflicts at h
  obtain ⟨s1a, s1b, s1c, s1d⟩ := scan1_spec hw hi t (if (getPayer t).2 then (payerOf t).2 else (payerOf t).1)
  simp only [s1a, Bool.false_eq_true, if_false] at h
  obtain ⟨hent, hcase⟩ := getPayerFee_entry hi.fees (payerOf t) feer hF
  split at h
  · cases (Prod.mk.inj h).2
  · rename_i s hs2
    obtain ⟨es, e1, _, e3, e4, e5⟩ := scanStep2_spec hi.vmap t t.conflicts _ s hs2
    split at h
    · cases (Prod.mk.inj h).2
    · split at h
      · cases (Prod.mk.inj h).2
      · rename_i hcb
        obtain ⟨hmp, hrm⟩ := Prod.mk.inj h
        have hrm : s.rm = rm := by injection hrm
        refine ⟨(getPayerFee (payerOf t) mp.fees feer).1, ?_, hent, ?_, ?_, ?_, ?_, ?_, ?_, ?_⟩
        · rw [← hmp]
          rcases hcase with ⟨h1, h2⟩ | ⟨h1, _, _⟩
          · simp only [h1, Bool.not_true, Bool.false_eq_true, if_false]
            rw [upd_self_eq _ _ _ h2]
          · simp only [h1, Bool.not_false, if_true]
        · rcases hcase with ⟨_, h2⟩ | ⟨_, h2, h3⟩
          · exact Or.inl h2
          · exact Or.inr ⟨h2, h3⟩
        · intro c hc
          rw [← hrm, e1] at hc
          rcases List.mem_append.mp hc with hc | hc
          · exact (s1c c hc).1
          · exact e4 c hc
        · intro c hc
          rw [← hrm, e1] at hc
          rcases List.mem_append.mp hc with hc | hc
          · exact Or.inl (s1c c hc).2
          · exact Or.inr (e3.subset (List.mem_map_of_mem hc))
        · rw [← hrm, e1, List.map_append, List.nodup_append]
          refine ⟨s1b, (hw.confNodup t ht).sublist e3, ?_⟩
          intro a ha b hb hab
          obtain ⟨a', ha', rfl⟩ := List.mem_map.mp ha
          obtain ⟨b', hb', hb2⟩ := List.mem_map.mp hb
          have hbid : b'.id ∈ t.conflicts := e3.subset (List.mem_map_of_mem hb')
          have : a' = b' := hi.list.idEq hw (s1c a' ha').1 (e4 b' hb') (by rw [hb2]; exact hab)
          subst this
          exact hw.acyclic a' t (hi.list.inU a' (s1c a' ha').1) ht hbid (s1c a' ha').2
        · intro e he hne
          rw [← hrm, e1]
          exact List.mem_append.mpr (Or.inl (s1d e he hne))
        · intro e he hid
          rw [← hrm, e1]
          exact List.mem_append.mpr (Or.inr (e5 e he hid))
        · -- the balance check
          have hnd : (rm.map (·.id)).Nodup := by
            rw [← hrm, e1, List.map_append, List.nodup_append]
            refine ⟨s1b, (hw.confNodup t ht).sublist e3, ?_⟩
            intro a ha b hb hab
            obtain ⟨a', ha', rfl⟩ := List.mem_map.mp ha
            obtain ⟨b', hb', hb2⟩ := List.mem_map.mp hb
            have hbid : b'.id ∈ t.conflicts := e3.subset (List.mem_map_of_mem hb')
            have : a' = b' := hi.list.idEq hw (s1c a' ha').1 (e4 b' hb') (by rw [hb2]; exact hab)
            subst this
            exact hw.acyclic a' t (hi.list.inU a' (s1c a' ha').1) ht hbid (s1c a' ha').2
          have hsub : ∀ c ∈ rm, c ∈ mp.txs := by
            intro c hc
            rw [← hrm, e1] at hc
            rcases List.mem_append.mp hc with hc | hc
            · exact (s1c c hc).1
            · exact e4 c hc
          simp only [FeeEntry] at hent
          obtain ⟨f1, f2, f3⟩ := hent
          have hexp := expectedFeeSum_eq (payerOf t) rm mp.txs hi.list.nodup hsub hnd (by have := two_H256; omega)
          have hS : sumFees (payerOf t) (mp.txs.filter (fun x => !(rm.map (·.id)).contains x.id))
              ≤ (getPayerFee (payerOf t) mp.fees feer).1.feeSum := by
            rw [f1]; exact sumFees_sublist _ List.filter_sublist
          rw [← f1, ← hrm] at hexp
          unfold checkBalance at hcb
          simp only at hcb
          rw [hexp] at hcb
          rw [hrm] at hcb
          split at hcb
          · cases hcb
          · rename_i h1
            rw [addW_eq _ _ (by have := two_H256; omega)] at hcb
            split at hcb
            · cases hcb
            · rename_i h2
              omega

end NeoModel.Mempool
