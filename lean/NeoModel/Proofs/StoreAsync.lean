/-
C09 helper lemmas: SeekAsync is pinned to the moment of the call (Model/Store/Async.lean): whatever the
caller writes to the same store between the call, the start of the seeking goroutine and the consumer's
reads, the consumer receives the answer of the ordered map as of the call.
-/
import NeoModel.Proofs.StoreSeekSpec
import NeoModel.Model.Store.Async
set_option linter.unusedSimpArgs false
namespace NeoModel.Store

/-- the answer as of the call. -/
def answerAtCall (L : Layer) (ps : Store) (rng : SeekRange) (cut : Bool) : List KV :=
  (Store.cached L ps).seekObs rng cut 0

/-- invariant of an eager scan: the snapshot is the one of the call, the lower store is the one of the
call, and received ++ pending is the call-time answer. -/
def APinned (L : Layer) (ps : Store) (rng : SeekRange) (cut : Bool) (a : AScan) : Prop :=
  a.ps = ps ∧ a.snap = some (snapshot L rng) ∧
    (match a.queue with
     | none => a.got = []
     | some q => a.got ++ q = answerAtCall L ps rng cut)

theorem apinned_call (L : Layer) (ps : Store) (rng : SeekRange) (cut : Bool) :
    APinned L ps rng cut (asyncCall false L ps rng) := by
  simp [APinned, asyncCall]

theorem apinned_step {L : Layer} {ps : Store} {rng : SeekRange} {cut : Bool} {a : AScan}
    (h : APinned L ps rng cut a) (e : AEv) : APinned L ps rng cut (asyncStep false rng cut a e) := by
  obtain ⟨h1, h2, h3⟩ := h
  cases e with
  | write k v => exact ⟨h1, h2, h3⟩
  | batch p st => exact ⟨h1, h2, h3⟩
  | start =>
    unfold asyncStep
    cases hq : a.queue with
    | some q => simp only []; exact ⟨h1, h2, by rw [hq] at h3; simpa [hq] using h3⟩
    | none =>
      rw [hq] at h3
      simp only [h2]
      refine ⟨h1, rfl, ?_⟩
      simp only [h3, List.nil_append, h1]
      rfl
  | recv =>
    unfold asyncStep
    cases hq : a.queue with
    | none => simp only []; exact ⟨h1, h2, by simpa [hq] using h3⟩
    | some q =>
      cases q with
      | nil => simp only []; exact ⟨h1, h2, by rw [hq] at h3; simpa [hq] using h3⟩
      | cons x q =>
        rw [hq] at h3
        simp only []
        refine ⟨h1, h2, ?_⟩
        simp only [List.append_assoc, List.singleton_append]
        exact h3

theorem apinned_run {L : Layer} {ps : Store} {rng : SeekRange} {cut : Bool} {a : AScan}
    (h : APinned L ps rng cut a) (es : List AEv) : APinned L ps rng cut (asyncRun false rng cut a es) := by
  unfold asyncRun
  induction es generalizing a with
  | nil => exact h
  | cons e es ih => exact ih (apinned_step h e)

/-- SeekAsync is pinned to the call: for EVERY interleaving of the caller's writes (Put / Delete /
PutChangeSet to the same store) with the start of the seeking goroutine and the consumer's reads, what
the consumer has received is a prefix of the answer of the ordered map as of the call, and what is still
to come completes exactly that answer. -/
theorem seekAsync_pinned (L : Layer) (ps : Store) (rng : SeekRange) (cut : Bool) (es : List AEv) :
    (asyncRun false rng cut (asyncCall false L ps rng) es).got <+: answerAtCall L ps rng cut ∧
    (∀ q, (asyncRun false rng cut (asyncCall false L ps rng) es).queue = some q →
      (asyncRun false rng cut (asyncCall false L ps rng) es).got ++ q = answerAtCall L ps rng cut) := by
  have h := apinned_run (apinned_call L ps rng cut) es
  obtain ⟨_, _, h3⟩ := h
  constructor
  · cases hq : (asyncRun false rng cut (asyncCall false L ps rng) es).queue with
    | none => rw [hq] at h3; rw [h3]; exact List.nil_prefix
    | some q => rw [hq] at h3; exact ⟨q, h3⟩
  · intro q hq; rw [hq] at h3; exact h3

theorem recv_n (rng : SeekRange) (cut : Bool) (n : Nat) (a : AScan) (q : List KV) (hq : a.queue = some q) :
    (asyncRun false rng cut a (List.replicate n .recv)).got = a.got ++ q.take n ∧
    (asyncRun false rng cut a (List.replicate n .recv)).top = a.top := by
  unfold asyncRun
  induction n generalizing a q with
  | zero => simp
  | succ n ih =>
    simp only [List.replicate_succ, List.foldl_cons]
    cases q with
    | nil =>
      have e : asyncStep false rng cut a .recv = a := by simp [asyncStep, hq]
      rw [e]
      have := ih a [] hq
      simpa using this
    | cons x q =>
      have e : asyncStep false rng cut a .recv = { a with queue := some q, got := a.got ++ [x] } := by simp [asyncStep, hq]
      rw [e]
      have := ih { a with queue := some q, got := a.got ++ [x] } q rfl
      simpa [List.append_assoc] using this

theorem writes_top (rng : SeekRange) (cut : Bool) (a : AScan) (ws : List KVE) :
    (asyncRun false rng cut a (ws.map fun w => AEv.write w.1 w.2)).top = ws.foldl (fun l w => l.set w.1 w.2) a.top := by
  unfold asyncRun
  induction ws generalizing a with
  | nil => rfl
  | cons w ws ih => simp only [List.map_cons, List.foldl_cons]; exact ih _

theorem seekObs_lim (L : Layer) (ps : Store) (rng : SeekRange) (cut : Bool) (lim : Nat) :
    (Store.cached L ps).seekObs rng cut lim =
      if lim == 0 then answerAtCall L ps rng cut else (answerAtCall L ps rng cut).take lim := by
  unfold answerAtCall
  rw [seekObs_eq, seekObs_eq]
  simp only [specObs]
  split <;> simp

theorem writes_keep (rng : SeekRange) (cut : Bool) (a : AScan) (ws : List KVE) :
    (asyncRun false rng cut a (ws.map fun w => AEv.write w.1 w.2)).queue = a.queue ∧
    (asyncRun false rng cut a (ws.map fun w => AEv.write w.1 w.2)).got = a.got := by
  unfold asyncRun
  induction ws generalizing a with
  | nil => exact ⟨rfl, rfl⟩
  | cons w ws ih => simp only [List.map_cons, List.foldl_cons]; exact ih _

/-- the stream's `seekaw` line: SeekAsync, then the caller's writes to the same store, then the reads —
the consumer gets the ordered map's answer AS OF THE CALL (the first `lim` items of it), and the store
ends up with the writes applied. -/
theorem seekaw_spec (L : Layer) (ps : Store) (rng : SeekRange) (cut : Bool) (lim : Nat) (ws : List KVE) :
    (seekAsyncThenWrites L ps rng cut lim ws).1 = (Store.cached L ps).seekObs rng cut lim ∧
    (seekAsyncThenWrites L ps rng cut lim ws).2 = ws.foldl (fun l w => l.set w.1 w.2) L := by
  unfold seekAsyncThenWrites
  simp only []
  have h1 := apinned_run (apinned_call L ps rng cut) (ws.map fun w => AEv.write w.1 w.2)
  have htop1 := writes_top rng cut (asyncCall false L ps rng) ws
  obtain ⟨hq1, hg1⟩ := writes_keep rng cut (asyncCall false L ps rng) ws
  generalize asyncRun false rng cut (asyncCall false L ps rng) (ws.map fun w => AEv.write w.1 w.2) = a1 at h1 htop1 hq1 hg1
  have hq1' : a1.queue = none := hq1
  have hg1' : a1.got = [] := hg1
  have h2 := apinned_step h1 .start
  obtain ⟨p1, p2, _⟩ := h1
  have ha2 : asyncStep false rng cut a1 .start =
      { a1 with snap := some (snapshot L rng), queue := some (performSeek (a1.ps.seek (lowerRange rng)) (snapshot L rng) rng cut 0) } := by
    simp [asyncStep, hq1', p2]
  rw [ha2] at h2 ⊢
  obtain ⟨_, _, h3⟩ := h2
  simp only [hg1', List.nil_append] at h3
  have hrec := recv_n rng cut (if (lim == 0) = true then (performSeek (a1.ps.seek (lowerRange rng)) (snapshot L rng) rng cut 0).length else lim)
    { a1 with snap := some (snapshot L rng), queue := some (performSeek (a1.ps.seek (lowerRange rng)) (snapshot L rng) rng cut 0) } _ rfl
  simp only [Option.getD_some]
  refine ⟨?_, ?_⟩
  · rw [hrec.1, seekObs_lim, hg1', List.nil_append, h3]
    split <;> simp
  · rw [hrec.2]; exact htop1

/-- regression example, the rule of seeded change C09-m7 (`lazy`): the snapshot taken when the goroutine
gets to run sees the caller's later Put — an item the ordered map did not hold at the call. -/
theorem lazy_snapshot_leaks :
    let L : Layer := { priv := true, mem := [], stor := [([0x70, 1], some [1])] }
    let rng : SeekRange := { pfx := [0x70], start := [], bw := false, depth := 0 }
    let es := [AEv.write [0x70, 2] (some [2]), .write [0x70, 1] none, .start, .recv, .recv]
    (asyncRun true rng false (asyncCall true L (.memB [] []) rng) es).got = [([0x70, 2], [2])] ∧
    (asyncRun false rng false (asyncCall false L (.memB [] []) rng) es).got = [([0x70, 1], [1])] := by
  simp [asyncRun, asyncCall, asyncStep, snapshot, Layer.choose, Layer.set, isStor, isKeyOK, mapSet, List.isPrefixOf,
    performSeek, Store.seek, memorySeek, sortKV, sortKVE, List.mergeSort, List.MergeSort.Internal.splitInTwo, List.merge,
    leDir, ltDir, lexLt, lexLe, lowerRange, flushLoop, emit, contOK, cutKey, mergeFunc, mergeLoop]

end NeoModel.Store
