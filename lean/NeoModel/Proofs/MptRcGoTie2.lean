/-
C11: more ties by translation (harness/cmd/extract/gofuncs_c11.go, gofuncs_c06.go): the traceability test,
Blockchain.GetMaxTraceableBlocks (hardfork switch included) and mpt.IsActiveValue, as re-translated from
/repo on every check run, against the definitions the C11 model uses.
-/
import NeoModel.Generated.GoFuncs
import NeoModel.Proofs.MptRcGoTie
namespace NeoModel.MptRc
open NeoModel.Generated

/-! ### more ties by translation (harness/cmd/extract/gofuncs_c11.go) -/

/-- `traceable` (Model/MptRc/GcIndex.lean) is the translated dao.go `isTraceableBlock` and the
translated native/ledger.go `Ledger.isTraceableBlock` (with or without Echidna, the value of
MaxTraceableBlocks being the one the branch picks), for heights where `index + mtb` fits 32 bits. -/
theorem traceable_is_translated (index height mtb : Nat) (h32 : index + mtb < 4294967296) :
    GoFuncs.isTraceableBlock (height : Int) (mtb : Int) (index : Int) = traceable index height mtb ∧
    (∀ cfgMtb : Int, GoFuncs.ledgerIsTraceableBlock (index : Int) (height : Int) cfgMtb true (mtb : Int) = traceable index height mtb) ∧
    (∀ polMtb : Int, GoFuncs.ledgerIsTraceableBlock (index : Int) (height : Int) (mtb : Int) false polMtb = traceable index height mtb) := by
  have e : (((index : Int) + (mtb : Int)) % 4294967296) = (index : Int) + mtb := by omega
  refine ⟨?_, fun _ => ?_, fun _ => ?_⟩ <;>
  · unfold traceable
    simp only [GoFuncs.isTraceableBlock, GoFuncs.ledgerIsTraceableBlock, e, if_true, Bool.false_eq_true, if_false]
    by_cases h1 : index ≤ height <;> by_cases h2 : height < index + mtb <;> simp [h1, h2] <;> omega

/-- the value `tryRunGC` and the ledger use for MaxTraceableBlocks: the translated
`Blockchain.GetMaxTraceableBlocks` (config value before Echidna, Genesis value at height 0, else the
Policy's). -/
def getMtb (cfgMtb genMtb : Nat) (echidna : Option Nat) (policy : Nat) (h : Nat) : Nat :=
  (GoFuncs.bcGetMaxTraceableBlocks (h : Int)
    (match echidna with | some e => decide (e ≤ h) | none => false) (genMtb : Int) (policy : Int) (cfgMtb : Int)).toNat

/-- along the chain `GetMaxTraceableBlocks` never grows — so every change of it, the hardfork switch
included, is an instance of the node model's `newMtbOf` lowering — PROVIDED Genesis.MaxTraceableBlocks
is positive and not above MaxTraceableBlocks (NewBlockchain does not check that) and the Policy value
only went down from its initial value, Genesis.MaxTraceableBlocks (native/policy.go:337, 823-837). -/
theorem getMtb_only_lowers (cfgMtb genMtb : Nat) (echidna : Option Nat) (h h' : Nat) (p p' : Nat)
    (hh : h ≤ h') (h32 : h' < 4294967296) (hg0 : 0 < genMtb) (hg : genMtb ≤ cfgMtb)
    (hp0 : 0 < p') (hp : p' ≤ p) (hpg : p ≤ genMtb) :
    newMtbOf (getMtb cfgMtb genMtb echidna p h) (some (getMtb cfgMtb genMtb echidna p' h')) =
      getMtb cfgMtb genMtb echidna p' h' ∧
    getMtb cfgMtb genMtb echidna p' h' ≤ getMtb cfgMtb genMtb echidna p h := by
  have key : 0 < getMtb cfgMtb genMtb echidna p' h' ∧
      getMtb cfgMtb genMtb echidna p' h' ≤ getMtb cfgMtb genMtb echidna p h := by
    unfold getMtb GoFuncs.bcGetMaxTraceableBlocks
    have e1 : ((h : Int) % 4294967296) = h := by omega
    have e2 : ((h' : Int) % 4294967296) = h' := by omega
    simp only [e1, e2]
    cases echidna with
    | none => simp; omega
    | some e =>
      simp only
      by_cases c1 : e ≤ h <;> by_cases c2 : e ≤ h' <;> by_cases z1 : (h : Int) = 0 <;> by_cases z2 : (h' : Int) = 0 <;>
        simp [c1, c2, z1, z2] <;> omega
  refine ⟨?_, key.2⟩
  simp [newMtbOf, key.1, key.2]

/-- without that proviso the window can grow at the hardfork: MaxTraceableBlocks 2, Genesis value 5,
Echidna at height 10: the node collected at 7 (height 9), at height 10 height 6 is traceable again. -/
theorem getMtb_can_grow_at_hardfork :
    getMtb 2 5 (some 10) 5 9 = 2 ∧ getMtb 2 5 (some 10) 5 10 = 5 ∧
    tryRunGC { gcp := 1 } 2 8 9 = some 7 ∧ traceable 6 10 (getMtb 2 5 (some 10) 5 10) = true := by decide

/-- a stored record `bytes ‖ flag ‖ counter(4)` is active for the translated `mpt.IsActiveValue`
(`len(v) > 4 && v[len(v)-5] == 1`) iff the flag byte is 1. -/
theorem isActiveValue_flag (b : List UInt8) (flag : UInt8) (c0 c1 c2 c3 : UInt8) :
    let v := b ++ [flag, c0, c1, c2, c3]
    GoFuncs.mptIsActiveValue (v.length : Int) ((v.getD (v.length - 5) 0).toNat : Int) = decide (flag = 1) := by
  simp only [GoFuncs.mptIsActiveValue, List.length_append, List.length_cons, List.length_nil]
  have : (b ++ [flag, c0, c1, c2, c3]).getD (b.length + 5 - 5) 0 = flag := by
    simp [List.getD_eq_getElem?_getD]
  rw [this]
  have h1 : ((b.length + 5 : Nat) : Int) > 4 := by omega
  by_cases hf : flag = 1
  · subst hf; simp; omega
  · have : ¬ ((flag.toNat : Int) = 1) := by
      intro h; apply hf; apply UInt8.toNat_inj.mp; have : flag.toNat = 1 := by omega
      simpa using this
    simp [hf, this]

end NeoModel.MptRc
