/-
CompileDebug — the debug-info / manifest clause of C14 for parameter counts: the entry that the model's `debugInfo`
lists for a method carries the method's Go parameter count, and the script at the listed offset begins with
`INITSLOT <locals> <that count>` — the number of arguments the bytecode takes from the stack.
-/
import NeoModel.Proofs.CompileAsm
namespace NeoModel.CompileProofs
open NeoModel.MiniVm NeoModel.MiniVm.Asm NeoModel.MiniGo NeoModel.Compile

/-- the first instruction of a method with parameters is `INITSLOT <locals> <number of parameters>`, at exactly the
    offset of the method's mark: the parameter count the bytecode implements. -/
theorem initslot_at_offset (P : Prog) (hw : ∀ d ∈ P, WfS false d.body) (hl : layoutOK (compProg P) = true)
    (i : Nat) (d : FuncDecl) (hi : P[i]? = some d) (hpar : d.params ≠ []) :
    ∃ off l sz, labelOffset (compProg P) i = some off ∧
      Byte.decode ((compile P).drop off) = some (.initSlot l d.params.length, sz) := by
  have hpc := progCode_compProg P hw
  obtain ⟨pc, nl, hp⟩ := hpc.funcs i d hi
  have hcode : (compFunc (funcTable P) d i nl).1 =
      [Item.lbl i, initSlotItem (compS { funcs := funcTable P, args := d.params } [] (.block d.body) { nl := nl, cnt := 0, scopes := [[]] }).2.cnt d.params.length] ++
        (compS { funcs := funcTable P, args := d.params } [] (.block d.body) { nl := nl, cnt := 0, scopes := [[]] }).1 ++
        (if lastIsRet d.body then [] else [Item.ins .ret]) := rfl
  rw [hcode] at hp
  generalize (compS { funcs := funcTable P, args := d.params } [] (.block d.body) { nl := nl, cnt := 0, scopes := [[]] }).2.cnt = N at hp
  have hlbl : findLabel (compProg P) i = some pc := hp.left.left.label hpc.nodup
  have h0 : (compProg P)[pc]? = some (.lbl i) := hp.left.left.head
  have h1 : (compProg P)[pc + 1]? = some (initSlotItem N d.params.length) := hp.left.left.tail.head
  have hnz : (d.params.length == 0) = false := by
    cases hd : d.params with
    | nil => exact absurd hd hpar
    | cons a b => simp
  have hinit : initSlotItem N d.params.length = .ins (.initSlot N d.params.length) := by
    simp [initSlotItem, hnz]
  rw [hinit] at h1
  have hk0 := itemOK_of_layoutOK _ hl pc
  have hk1 := itemOK_of_layoutOK _ hl (pc + 1)
  unfold itemOK at hk0 hk1
  rw [h0] at hk0
  rw [h1] at hk1
  simp only [beq_iff_eq] at hk0
  simp only [] at hk1
  have hoff := labelOffset_of_findLabel _ _ _ hlbl
  by_cases hq : (fposAt (compProg P) (pc + 1 + 1) == fposAt (compProg P) (pc + 1)) = true
  · rw [if_pos hq] at hk1; simp at hk1
  · rw [if_neg hq] at hk1
    simp only [Bool.and_eq_true, decide_eq_true_eq, Op.target?, beq_iff_eq] at hk1
    refine ⟨fposAt (compProg P) pc, N, fposAt (compProg P) (pc + 1 + 1) - fposAt (compProg P) (pc + 1), hoff, ?_⟩
    rw [← hk0]
    exact hk1.2

theorem debugInfo_get (P : Prog) (i : Nat) (d : FuncDecl) (hi : P[i]? = some d) :
    (debugInfo P)[i]? = some (d.name, labelOffset (compProg P) i, d.params.length) := by
  have hlt : i < P.length := by
    rcases Nat.lt_or_ge i P.length with h | h
    · exact h
    · rw [List.getElem?_eq_none h] at hi; cases hi
  have hz : ((List.range P.length).zip P)[i]? = some (i, d) :=
    List.getElem?_zip_eq_some.mpr ⟨List.getElem?_range hlt, hi⟩
  simp [debugInfo, List.getElem?_map, hz]

end NeoModel.CompileProofs
