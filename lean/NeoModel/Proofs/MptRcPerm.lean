/-
C11 helper lemmas: the iteration order of the refcount map (a Go map) does not matter for Flush.
-/
import NeoModel.Model.MptRc
import NeoModel.Proofs.MptRcFlush
set_option linter.unusedSimpArgs false
namespace NeoModel.MptRc
open NeoModel.Mpt

theorem mget_of_mem {m : RcMap} (hn : (mkeys m).Nodup) {k : Bytes} {e : RcEntry} (h : (k, e) ∈ m) :
    mget m k = some e := by
  induction m with
  | nil => simp at h
  | cons x m ih =>
    obtain ⟨a, e'⟩ := x
    have hn' := List.nodup_cons.mp hn
    simp only [List.mem_cons, Prod.mk.injEq] at h
    rcases h with ⟨rfl, rfl⟩ | h
    · simp [mget]
    · have : a ≠ k := by
        intro e; subst e
        exact hn'.1 (List.mem_map.mpr ⟨(a, _), h, rfl⟩)
      simp only [mget, this, if_false]
      exact ih hn'.2 h

theorem mem_of_mget {m : RcMap} {k : Bytes} {e : RcEntry} (h : mget m k = some e) : (k, e) ∈ m := by
  induction m with
  | nil => simp [mget] at h
  | cons x m ih =>
    obtain ⟨a, e'⟩ := x
    simp only [mget] at h
    by_cases ha : a = k
    · simp only [ha, if_true, Option.some.injEq] at h
      subst ha; subst h; simp
    · simp only [ha, if_false] at h
      exact List.mem_cons_of_mem _ (ih h)

theorem mget_perm {m1 m2 : RcMap} (hp : m1.Perm m2) (hn : (mkeys m1).Nodup) (k : Bytes) : mget m1 k = mget m2 k := by
  have hn2 : (mkeys m2).Nodup := (List.Perm.nodup_iff (List.Perm.map (fun x : Bytes × RcEntry => x.1) hp)).mp hn
  cases h1 : mget m1 k with
  | some e => exact (mget_of_mem hn2 (hp.mem_iff.mp (mem_of_mget h1))).symm
  | none =>
    cases h2 : mget m2 k with
    | none => rfl
    | some e =>
      have := mget_of_mem hn (hp.mem_iff.mpr (mem_of_mget h2))
      rw [h1] at this; cases this

/-- trie.go:416 `for h, node := range t.refcount`: whatever order the Go map is iterated in, `Flush`
leaves the same record under every hash and the same map entry for every hash. -/
theorem flush_order_irrelevant (mode : Mode) (idx : Nat) (m1 m2 : RcMap) (hp : m1.Perm m2)
    (hn : (mkeys m1).Nodup) (s : Store)
    (hok : ∀ k e, mget m1 k = some e → estep mode idx (sget s k) e ≠ none) :
    ∃ r1 r2, flush mode idx m1 s = some r1 ∧ flush mode idx m2 s = some r2 ∧
      ∀ k, sget r1.2 k = sget r2.2 k ∧ mget r1.1 k = mget r2.1 k := by
  have hn2 : (mkeys m2).Nodup := (List.Perm.nodup_iff (List.Perm.map (fun x : Bytes × RcEntry => x.1) hp)).mp hn
  obtain ⟨m1', s1', hf1, hc1, he1, _⟩ := flush_spec mode idx m1 s hn hok
  obtain ⟨m2', s2', hf2, hc2, he2, _⟩ := flush_spec mode idx m2 s hn2 (by
    intro k e h; exact hok k e (by rw [mget_perm hp hn k]; exact h))
  refine ⟨(m1', s1'), (m2', s2'), hf1, hf2, fun k => ?_⟩
  simp only [hc1 k, hc2 k, he1 k, he2 k, mget_perm hp hn k, and_self]

end NeoModel.MptRc
