/-
C08 helper: the fee-per-byte policy of the pool (`loadPolicy` / `checkPolicy`, mem_pool.go:483-498).
`mp.feePerByte` is a ratchet: `RemoveStale` raises it to the value the `Feer` reports when that is higher and
never lowers it; only a raising `RemoveStale` filters the list.
-/
import NeoModel.Proofs.MempoolRun
namespace NeoModel.Mempool

/-- every pooled transaction pays the pool's fee-per-byte policy -/
def PolicyOk (mp : Pool) : Prop := ∀ t ∈ mp.txs, mp.feePerByte ≤ t.feePerByte

theorem tryAdd_fpb (mp : Pool) (t : Tx) (feer : Feer) (b : Bool) :
    (tryAddSendersFee mp t feer b).1.feePerByte = mp.feePerByte := by
  unfold tryAddSendersFee
  simp only
  repeat' split
  all_goals rfl

/-- the loop of `RemoveStale` keeps only items of the old list, with a changed policy only those that pay it,
and does not touch the policy value -/
theorem staleLoop_policy (isOK : Tx → Bool) (feer : Feer) (pc : Bool) :
    ∀ (rest : List Tx) (mp : Pool) (acc : List Tx),
      (staleLoop isOK feer pc rest mp acc).1.feePerByte = mp.feePerByte ∧
      ∀ t ∈ (staleLoop isOK feer pc rest mp acc).2,
        t ∈ acc ∨ (t ∈ rest ∧ isOK t = true ∧ (pc = true → mp.feePerByte ≤ t.feePerByte)) := by
  intro rest
  induction rest with
  | nil => intro mp acc; unfold staleLoop; exact ⟨rfl, fun t h => Or.inl h⟩
  | cons itm rest ih =>
    intro mp acc
    have hdrop : (dropEntry mp itm).feePerByte = mp.feePerByte := rfl
    have lift : ∀ (mp' : Pool) (acc' : List Tx), mp'.feePerByte = mp.feePerByte →
        (∀ t ∈ acc', t ∈ acc ∨ (t = itm ∧ isOK t = true ∧ (pc = true → mp.feePerByte ≤ t.feePerByte))) →
        (staleLoop isOK feer pc rest mp' acc').1.feePerByte = mp.feePerByte ∧
        ∀ t ∈ (staleLoop isOK feer pc rest mp' acc').2,
          t ∈ acc ∨ (t ∈ itm :: rest ∧ isOK t = true ∧ (pc = true → mp.feePerByte ≤ t.feePerByte)) := by
      intro mp' acc' hf hacc
      obtain ⟨r1, r2⟩ := ih mp' acc'
      refine ⟨r1.trans hf, ?_⟩
      intro t ht
      rcases r2 t ht with h | ⟨h1, h2, h3⟩
      · rcases hacc t h with h' | ⟨h1, h2, h3⟩
        · exact Or.inl h'
        · exact Or.inr ⟨by rw [h1]; exact List.mem_cons_self, h2, h3⟩
      · exact Or.inr ⟨List.mem_cons_of_mem _ h1, h2, by rw [hf] at h3; exact h3⟩
    simp only [staleLoop]
    by_cases hk : (isOK itm && checkPolicy mp itm pc) = true
    · rw [if_pos hk]
      have hfp := tryAdd_fpb mp itm feer true
      cases hres : tryAddSendersFee mp itm feer true with
      | mk mp' b =>
        rw [hres] at hfp
        cases b with
        | true =>
          simp only
          refine lift _ _ ?_ ?_
          · exact hfp
          intro t ht
          rcases List.mem_append.mp ht with h | h
          · exact Or.inl h
          · have e := List.mem_singleton.mp h
            subst e
            rw [Bool.and_eq_true] at hk
            refine Or.inr ⟨rfl, hk.1, ?_⟩
            intro hpc
            have := hk.2
            unfold checkPolicy at this
            rw [hpc] at this
            simpa using this
        | false =>
          simp only
          refine lift _ _ ?_ (fun t ht => Or.inl ht)
          exact hfp
    · rw [if_neg hk]
      exact lift _ _ hdrop (fun t ht => Or.inl ht)

/-- `RemoveStale`: the policy value becomes the maximum of the old value and the `Feer`'s; the new list is part of
the old one; and when the policy was raised, every kept transaction pays it. -/
theorem removeStale_policy (mp : Pool) (isOK : Tx → Bool) (feer : Feer) :
    (removeStale mp isOK feer).feePerByte = max mp.feePerByte feer.feePerByte ∧
    (∀ t ∈ (removeStale mp isOK feer).txs, t ∈ mp.txs ∧ isOK t = true) ∧
    (mp.feePerByte < feer.feePerByte → PolicyOk (removeStale mp isOK feer)) := by
  unfold removeStale
  simp only
  by_cases hr : feer.feePerByte > mp.feePerByte
  · have hl : loadPolicy mp feer = ({ mp with feePerByte := feer.feePerByte }, true) := by
      unfold loadPolicy; rw [if_pos hr]
    rw [hl]
    obtain ⟨r1, r2⟩ := staleLoop_policy isOK feer true mp.txs
      { mp with feePerByte := feer.feePerByte, fees := fun _ => none, conflicts := fun _ => none, resent := [] } []
    refine ⟨?_, ?_, ?_⟩
    · show (staleLoop _ _ _ _ _ _).1.feePerByte = _
      rw [r1]; show feer.feePerByte = _; omega
    · intro t ht
      rcases r2 t ht with h | ⟨h1, h2, _⟩
      · cases h
      · exact ⟨h1, h2⟩
    · intro _ t ht
      show (staleLoop _ _ _ _ _ _).1.feePerByte ≤ _
      rw [r1]
      rcases r2 t ht with h | ⟨_, _, h3⟩
      · cases h
      · exact h3 rfl
  · have hl : loadPolicy mp feer = (mp, false) := by
      unfold loadPolicy; rw [if_neg hr]
    rw [hl]
    obtain ⟨r1, r2⟩ := staleLoop_policy isOK feer false mp.txs
      { mp with fees := fun _ => none, conflicts := fun _ => none, resent := [] } []
    refine ⟨?_, ?_, fun h => absurd h hr⟩
    · show (staleLoop _ _ _ _ _ _).1.feePerByte = _
      rw [r1]; show mp.feePerByte = _; omega
    · intro t ht
      rcases r2 t ht with h | ⟨h1, h2, _⟩
      · cases h
      · exact ⟨h1, h2⟩

theorem policyOk_removeStale (mp : Pool) (isOK : Tx → Bool) (feer : Feer) (h : PolicyOk mp) :
    PolicyOk (removeStale mp isOK feer) := by
  obtain ⟨h1, h2, h3⟩ := removeStale_policy mp isOK feer
  by_cases hr : mp.feePerByte < feer.feePerByte
  · exact h3 hr
  · intro t ht
    rw [h1]
    have := h t (h2 t ht).1
    omega

/-- the policy value and the list of every operation but `RemoveStale` -/
theorem policy_applyOp {U : Tx → Prop} (hw : WF U) {mp : Pool} (hi : Inv U mp) (op : Op) (hop : OpOk U op) :
    (∀ isOK f, op ≠ .removeStale isOK f) →
    (applyOp mp op).feePerByte = mp.feePerByte ∧
    ∀ x ∈ (applyOp mp op).txs, x ∈ mp.txs ∨ ∃ f d, op = .add x f d := by
  intro hne
  cases op with
  | add t feer d =>
    obtain ⟨h1, h2⟩ := add_spec hw hi hop.1 feer hop.2 d
    show (add mp t feer d).1.feePerByte = mp.feePerByte ∧ ∀ x ∈ (add mp t feer d).1.txs, _
    cases hr : add mp t feer d with
    | mk mp' r =>
      cases r with
      | none =>
        obtain ⟨_, _, a3, _, a5, _⟩ := h2 mp' hr
        refine ⟨a3, ?_⟩
        intro x hx
        rcases a5 x hx with e | e
        · exact Or.inr ⟨feer, d, by rw [e]⟩
        · exact Or.inl e
      | some e =>
        obtain ⟨⟨c1, _, _, _, _, c6, _⟩, _⟩ := h1 mp' e hr
        exact ⟨c6, fun x hx => Or.inl (by rw [← c1]; exact hx)⟩
  | remove h =>
    obtain ⟨_, a2, _, a4⟩ := inv_removeInternal hw hi h
    refine ⟨a4, ?_⟩
    intro x hx
    have hx' : x ∈ (removeInternal mp h).txs := hx
    rw [a2] at hx'
    exact Or.inl (List.mem_filter.mp hx').1
  | removeStale isOK f => exact absurd rfl (hne isOK f)
  | verify t feer =>
    obtain ⟨⟨c1, _, _, _, _, c6, _⟩, _⟩ := verify_spec hw hi hop.1 feer hop.2
    exact ⟨c6, fun x hx => Or.inl (by rw [← c1]; exact hx)⟩
  | setResendThreshold h => exact ⟨rfl, fun x hx => Or.inl hx⟩
  | setSubs on => exact ⟨rfl, fun x hx => Or.inl hx⟩

/-- The chain's fee-per-byte policy along a sequence of operations, as the pool's callers guarantee it:
`lo` is the value reported last; the values the `Feer`s report never decrease, and every `Add` offers a
transaction that pays the value reported at that moment (blockchain.go:3025-3029, checked before `Pool.Add`). -/
def PolicyAdmissible : Nat → List Op → Prop
  | _, [] => True
  | lo, .add t f _ :: ops => lo ≤ f.feePerByte ∧ f.feePerByte ≤ t.feePerByte ∧ PolicyAdmissible f.feePerByte ops
  | lo, .removeStale _ f :: ops => lo ≤ f.feePerByte ∧ PolicyAdmissible f.feePerByte ops
  | lo, _ :: ops => PolicyAdmissible lo ops

theorem policyOk_foldl {U : Tx → Prop} (hw : WF U) : ∀ (ops : List Op) (mp : Pool) (lo : Nat), Inv U mp → OpsIn U ops →
    PolicyOk mp → mp.feePerByte ≤ lo → PolicyAdmissible lo ops →
    PolicyOk (ops.foldl applyOp mp) := by
  intro ops
  induction ops with
  | nil => intro mp lo _ _ h _ _; exact h
  | cons op ops ih =>
    intro mp lo hi ho hp hlo ha
    rw [List.foldl_cons]
    have hop := ho op List.mem_cons_self
    have ho' : OpsIn U ops := fun o h => ho o (List.mem_cons_of_mem _ h)
    have hi' := inv_applyOp hw hi op hop
    cases op with
    | removeStale isOK f =>
      obtain ⟨a1, a2⟩ := ha
      apply ih _ f.feePerByte hi' ho' (policyOk_removeStale mp isOK f hp) _ a2
      show (removeStale mp isOK f).feePerByte ≤ _
      rw [(removeStale_policy mp isOK f).1]; omega
    | add t f d =>
      obtain ⟨a1, a2, a3⟩ := ha
      obtain ⟨p1, p2⟩ := policy_applyOp hw hi (.add t f d) hop (fun _ _ h => Op.noConfusion h)
      apply ih _ f.feePerByte hi' ho' _ (by rw [p1]; omega) a3
      intro x hx
      rw [p1]
      rcases p2 x hx with h | ⟨f', d', h⟩
      · exact hp x h
      · have : x = t := by injection h with h1; exact h1.symm
        rw [this]; omega
    | remove h =>
      obtain ⟨p1, p2⟩ := policy_applyOp hw hi (.remove h) hop (fun _ _ h => Op.noConfusion h)
      apply ih _ lo hi' ho' _ (by rw [p1]; exact hlo) ha
      intro x hx
      rw [p1]
      rcases p2 x hx with h' | ⟨f', d', h'⟩
      · exact hp x h'
      · cases h'
    | verify t f =>
      obtain ⟨p1, p2⟩ := policy_applyOp hw hi (.verify t f) hop (fun _ _ h => Op.noConfusion h)
      apply ih _ lo hi' ho' _ (by rw [p1]; exact hlo) ha
      intro x hx
      rw [p1]
      rcases p2 x hx with h' | ⟨f', d', h'⟩
      · exact hp x h'
      · cases h'
    | setResendThreshold h => exact ih _ lo hi' ho' hp hlo ha
    | setSubs on => exact ih _ lo hi' ho' hp hlo ha

/-- the pool's policy value after a run: the maximum of the values seen by `RemoveStale` -/
def policySeen : List Op → Nat → Nat
  | [], m => m
  | .removeStale _ f :: ops, m => policySeen ops (max m f.feePerByte)
  | _ :: ops, m => policySeen ops m

theorem policy_value_foldl {U : Tx → Prop} (hw : WF U) : ∀ (ops : List Op) (mp : Pool), Inv U mp → OpsIn U ops →
    (ops.foldl applyOp mp).feePerByte = policySeen ops mp.feePerByte := by
  intro ops
  induction ops with
  | nil => intro mp _ _; rfl
  | cons op ops ih =>
    intro mp hi ho
    rw [List.foldl_cons]
    have hop := ho op List.mem_cons_self
    have ho' : OpsIn U ops := fun o h => ho o (List.mem_cons_of_mem _ h)
    rw [ih _ (inv_applyOp hw hi op hop) ho']
    cases op with
    | removeStale isOK f =>
      show policySeen ops (removeStale mp isOK f).feePerByte = _
      rw [(removeStale_policy mp isOK f).1]; rfl
    | add t f d =>
      rw [(policy_applyOp hw hi (.add t f d) hop (fun _ _ h => Op.noConfusion h)).1]; rfl
    | remove h =>
      rw [(policy_applyOp hw hi (.remove h) hop (fun _ _ h => Op.noConfusion h)).1]; rfl
    | verify t f =>
      rw [(policy_applyOp hw hi (.verify t f) hop (fun _ _ h => Op.noConfusion h)).1]; rfl
    | setResendThreshold h => rfl
    | setSubs on => rfl

end NeoModel.Mempool
