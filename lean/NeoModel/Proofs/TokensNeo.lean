/-
NEO side of the token model: increaseBalance / ModifyAccountVotes / updateAccBalance and the vote bookkeeping.
-/
import NeoModel.Proofs.TokensInv
namespace NeoModel.Tokens

/-! ### distributeGas only touches the height and the last-gas-per-vote fields -/

theorem distributeGas_some (e : Env) (l : Ledger) (acc acc1 : NeoAcc) (g : Option Int)
    (h : distributeGas e l acc = some (acc1, g)) : acc1.bal = acc.bal ∧ acc1.vote = acc.vote := by
  unfold distributeGas at h
  split at h
  · injection h with h; injection h with h1 _; subst h1; exact ⟨rfl, rfl⟩
  · split at h
    · simp at h
    · split at h
      · injection h with h; injection h with h1 _; subst h1; exact ⟨rfl, rfl⟩
      · injection h with h; injection h with h1 _; subst h1; exact ⟨rfl, rfl⟩

theorem holderReward_some (l : Ledger) (v : Int) (s e : Nat) (hv : 0 ≤ v) : (holderReward l v s e).isSome = true := by
  unfold holderReward
  split
  · rfl
  · split
    · omega
    · rfl

theorem distributeGas_isSome (e : Env) (l : Ledger) (acc : NeoAcc) (hv : 0 ≤ acc.bal) :
    (distributeGas e l acc).isSome = true := by
  unfold distributeGas
  split
  · rfl
  · unfold calcBonus
    have := holderReward_some l acc.bal acc.height e.index hv
    cases hr : holderReward l acc.bal acc.height e.index with
    | none => simp [hr] at this
    | some r =>
      simp only []
      cases acc.vote <;> simp

/-! ### ModifyAccountVotes -/

/-- effect of a successful ModifyAccountVotes on the candidate table. -/
structure CandUpd (cands cands' : AL Cand) (v : Option Nat) (d : Int) : Prop where
  nodup : (keys cands).Nodup → (keys cands').Nodup
  votes : (keys cands).Nodup → ∀ c, at0 (·.votes) cands' c = at0 (·.votes) cands c + (if v = some c then d else 0)
  mem : ∀ p ∈ cands', p ∈ cands ∨ (∃ c cd, v = some c ∧ get cands c = some cd ∧ p = (c, { cd with votes := cd.votes + d }))
  /-- a registered candidate keeps its record -/
  keep : ∀ c cd, get cands c = some cd → cd.reg = true → ∃ cd', get cands' c = some cd' ∧ cd'.reg = true

theorem at0_votes_put (cands : AL Cand) (c c' : Nat) (cd : Cand) :
    at0 (·.votes) (put cands c cd) c' = if c' = c then cd.votes else at0 (·.votes) cands c' := by
  unfold at0
  by_cases h : c' = c
  · subst h; simp [get_put_eq]
  · simp [get_put_ne _ _ _ _ h, h]

theorem candUpd_put (cands : AL Cand) (c : Nat) (cd : Cand) (d : Int) (hg : get cands c = some cd) :
    CandUpd cands (put cands c { cd with votes := cd.votes + d }) (some c) d := by
  refine ⟨nodup_put _ _ _, fun _ c' => ?_, fun p hp => ?_, fun c' cd' hg' hr' => ?_⟩
  · rw [at0_votes_put]
    by_cases h : c' = c
    · subst h; simp [at0, hg]
    · have h' : ¬ c = c' := fun e => h e.symm
      simp [h, h']
  · rcases mem_put _ _ _ _ hp with h | h
    · exact Or.inl h
    · exact Or.inr ⟨c, cd, rfl, hg, h⟩
  · by_cases h : c' = c
    · subst h; rw [hg] at hg'; injection hg' with hg'; subst hg'
      exact ⟨_, get_put_eq _ _ _, hr'⟩
    · exact ⟨cd', by rw [get_put_ne _ _ _ _ h]; exact hg', hr'⟩

theorem candUpd_del (cands : AL Cand) (c : Nat) (cd : Cand) (d : Int) (hg : get cands c = some cd)
    (hz : cd.votes + d = 0) (hreg : cd.reg = false) : CandUpd cands (del cands c) (some c) d := by
  refine ⟨nodup_del _ _, fun hn c' => ?_, fun p hp => Or.inl (mem_del _ _ _ hp), fun c' cd' hg' hr' => ?_⟩
  · unfold at0
    by_cases h : c' = c
    · subst h; rw [get_del_eq _ _ hn, hg]; simp; omega
    · have h' : ¬ c = c' := fun e => h e.symm
      rw [get_del_ne _ _ _ h]; simp [h']
  · by_cases h : c' = c
    · subst h; rw [hg] at hg'; injection hg' with hg'; subst hg'; rw [hreg] at hr'; cases hr'
    · exact ⟨cd', by rw [get_del_ne _ _ _ h]; exact hg', hr'⟩

theorem modVotes_spec (l : Ledger) (acc : NeoAcc) (value : Int) (isNew : Bool) (l1 : Ledger)
    (h : modVotes l acc value isNew = (l1, true)) :
    l1.neo = l.neo ∧ l1.neoSupply = l.neoSupply ∧ l1.gas = l.gas ∧ l1.gasSupply = l.gasSupply ∧
    l1.voters = l.voters ∧ l1.deps = l.deps ∧ l1.events = l.events ∧
    CandUpd l.cands l1.cands acc.vote value ∧
    (isNew = false → ∀ p ∈ l1.cands, p ∈ l.cands ∨ p.2.reg = true ∨ p.2.votes ≠ 0) := by
  unfold modVotes at h
  simp only [] at h
  split at h
  · rename_i hv
    injection h with h1 _; subst h1
    refine ⟨rfl, rfl, rfl, rfl, rfl, rfl, rfl, ⟨id, fun _ c => by simp [hv], fun p hp => Or.inl hp, fun c cd hg hr => ⟨cd, hg, hr⟩⟩, fun _ p hp => Or.inl hp⟩
  · rename_i c hv
    split at h
    · injection h with _ h2; simp at h2
    · rename_i cd hg
      try simp only [] at hg
      split at h
      · injection h with h1 _; subst h1
        rename_i hn0 _
        refine ⟨rfl, rfl, rfl, rfl, rfl, rfl, rfl, ?_, fun hf => by rw [hf] at hn0; cases hn0⟩
        rw [hv]; exact candUpd_put _ _ _ _ hg
      · split at h
        · rename_i l' hd
          injection h with h1 _; subst h1
          unfold dropIfZero at hd
          split at hd
          · simp at hd
          · rename_i hz
            injection hd with hd; subst hd
            have hz' : cd.votes + value = 0 := by
              simp at hz; exact hz.2
            have hz'' : cd.reg = false := by
              simp at hz; exact hz.1
            refine ⟨rfl, rfl, rfl, rfl, rfl, rfl, rfl, ?_, fun _ p hp => Or.inl (mem_del _ _ _ hp)⟩
            rw [hv]; exact candUpd_del _ _ _ _ hg hz' hz''
        · rename_i hd
          injection h with h1 _; subst h1
          refine ⟨rfl, rfl, rfl, rfl, rfl, rfl, rfl, ?_, fun _ p hp => ?_⟩
          · rw [hv]; exact candUpd_put _ _ _ _ hg
          · rcases mem_put _ _ _ _ hp with h | h
            · exact Or.inl h
            · subst h
              unfold dropIfZero at hd
              split at hd
              · rename_i hz; simp at hz ⊢
                rcases hz with hz | hz
                · exact Or.inr (Or.inl hz)
                · exact Or.inr (Or.inr hz)
              · simp at hd

/-- ModifyAccountVotes fails only when the voted candidate has no record; every other field but
`votesChanged` is untouched. -/
theorem modVotes_false (l : Ledger) (acc : NeoAcc) (value : Int) (isNew : Bool) (l1 : Ledger)
    (h : modVotes l acc value isNew = (l1, false)) :
    sameCore l l1 ∧ l1.events = l.events ∧ ∃ c, acc.vote = some c ∧ get l.cands c = none := by
  unfold modVotes at h
  simp only [] at h
  split at h
  · injection h with _ h2; simp at h2
  · rename_i c hv
    split at h
    · rename_i hg
      injection h with h1 _; subst h1
      exact ⟨⟨rfl, rfl, rfl, rfl, rfl, rfl, rfl⟩, rfl, c, hv, hg⟩
    · split at h
      · injection h with _ h2; simp at h2
      · split at h
        · injection h with _ h2; simp at h2
        · injection h with _ h2; simp at h2

end NeoModel.Tokens

namespace NeoModel.Tokens

/-! ### NEO.increaseBalance followed by the store of updateAccBalance / addTokens -/

theorem at0_default (f : NeoAcc → Int) (hf : f {} = 0) (m : AL NeoAcc) (a : Nat) :
    at0 f m a = f ((get m a).getD {}) := by
  unfold at0; cases get m a <;> simp [hf]

theorem voteW_default (c : Nat) : voteW c {} = 0 := by simp [voteW]
theorem voterW_default : voterW {} = 0 := by simp [voterW]

/-- the result of a successful `neoInc` on the stored item of `a`, stored back. -/
structure NeoUpd (l l' : Ledger) (a : Nat) (amt : Int) : Prop where
  neoSupply : l'.neoSupply = l.neoSupply
  gas : l'.gas = l.gas
  gasSupply : l'.gasSupply = l.gasSupply
  deps : l'.deps = l.deps
  events : l'.events = l.events
  votes : VotesOK l'.neo l'.cands l'.voters
  sum : sumBy (·.bal) l'.neo = sumBy (·.bal) l.neo + amt
  bal : ∀ k, at0 (·.bal) l'.neo k = at0 (·.bal) l.neo k + if k = a then amt else 0

theorem bal_store (m : AL NeoAcc) (a k : Nat) (o : Option NeoAcc) (hn : (keys m).Nodup) :
    at0 (·.bal) (store m a o) k = if k = a then (match o with | some v => v.bal | none => 0) else at0 (·.bal) m k := by
  unfold at0
  by_cases h : k = a
  · subst h; rw [get_store_eq _ _ _ hn]; cases o <;> simp
  · rw [get_store_ne _ _ _ _ h]; simp [h]

/-- the guard of NEO.increaseBalance (599-602). -/
def neoGuard (bal amt : Int) (cb : Option Int) : Prop :=
  (amt < 0 ∧ bal.natAbs < amt.natAbs) ∨ (amt = 0 ∧ belowOpt bal cb = true)

theorem neoInc_zero (e : Env) (l : Ledger) (si : Option NeoAcc) (cb : Option Int) (acc1 : NeoAcc) (g : Option Int)
    (hg : ¬ neoGuard (si.getD {}).bal 0 cb) (hd : distributeGas e l (si.getD {}) = some (acc1, g)) :
    neoInc e l si 0 cb = ⟨l, true, some acc1, g⟩ := by
  unfold neoInc; simp only []
  rw [if_neg (by simpa [neoGuard] using hg), hd]; simp

theorem neoInc_nonzero (e : Env) (l : Ledger) (si : Option NeoAcc) (amt : Int) (cb : Option Int) (acc1 : NeoAcc)
    (g : Option Int) (l1 : Ledger) (h0 : amt ≠ 0)
    (hg : ¬ neoGuard (si.getD {}).bal amt cb) (hd : distributeGas e l (si.getD {}) = some (acc1, g))
    (hm : modVotes l acc1 amt false = (l1, true)) :
    neoInc e l si amt cb =
      ⟨if acc1.vote.isSome then { l1 with voters := l1.voters + amt } else l1, true,
       if acc1.bal + amt ≠ 0 then some { acc1 with bal := acc1.bal + amt } else none, g⟩ := by
  unfold neoInc; simp only []
  rw [if_neg (by simpa [neoGuard] using hg), hd]; simp only [h0, if_false, hm]

theorem neoInc_ok (e : Env) (l : Ledger) (si : Option NeoAcc) (amt : Int) (cb : Option Int)
    (hok : (neoInc e l si amt cb).ok = true) :
    ¬ neoGuard (si.getD {}).bal amt cb ∧ ∃ acc1 g, distributeGas e l (si.getD {}) = some (acc1, g) ∧
      (amt = 0 ∨ ∃ l1, modVotes l acc1 amt false = (l1, true)) := by
  unfold neoInc at hok; simp only [] at hok
  split at hok
  · simp at hok
  · rename_i hguard
    refine ⟨by simpa [neoGuard] using hguard, ?_⟩
    cases hd : distributeGas e l (si.getD {}) with
    | none => simp [hd] at hok
    | some r =>
      obtain ⟨acc1, g⟩ := r
      refine ⟨acc1, g, rfl, ?_⟩
      simp only [hd] at hok
      by_cases h0 : amt = 0
      · exact Or.inl h0
      · simp only [h0, if_false] at hok
        cases hm : modVotes l acc1 amt false with
        | mk l1 b =>
          cases b with
          | false => simp [hm] at hok
          | true => exact Or.inr ⟨l1, rfl⟩

/-- a failing NEO.increaseBalance leaves everything the invariant reads untouched. -/
theorem neoInc_fail (e : Env) (l : Ledger) (si : Option NeoAcc) (amt : Int) (cb : Option Int)
    (hok : (neoInc e l si amt cb).ok = false) :
    sameCore l (neoInc e l si amt cb).l ∧ (neoInc e l si amt cb).l.events = l.events := by
  by_cases hguard : neoGuard (si.getD {}).bal amt cb
  · have : neoInc e l si amt cb = ⟨l, false, si, none⟩ := by
      unfold neoInc; simp only []
      rw [if_pos (by simpa [neoGuard] using hguard)]
    rw [this]; exact ⟨sameCore.rfl' l, rfl⟩
  · cases hd : distributeGas e l (si.getD {}) with
    | none =>
      have : neoInc e l si amt cb = ⟨l, false, si, none⟩ := by
        unfold neoInc; simp only []
        rw [if_neg (by simpa [neoGuard] using hguard), hd]
      rw [this]; exact ⟨sameCore.rfl' l, rfl⟩
    | some r =>
      obtain ⟨acc1, g⟩ := r
      by_cases h0 : amt = 0
      · subst h0; rw [neoInc_zero e l si cb acc1 g hguard hd] at hok; simp at hok
      · cases hm : modVotes l acc1 amt false with
        | mk l1 b =>
          cases b with
          | true => rw [neoInc_nonzero e l si amt cb acc1 g l1 h0 hguard hd hm] at hok; simp at hok
          | false =>
            have : neoInc e l si amt cb = ⟨l1, false, si, none⟩ := by
              unfold neoInc; simp only []
              rw [if_neg (by simpa [neoGuard] using hguard), hd]; simp only [h0, if_false, hm]
            rw [this]; exact ⟨(modVotes_false l acc1 amt false l1 hm).1, (modVotes_false l acc1 amt false l1 hm).2.1⟩

theorem neoInc_store (e : Env) (l : Ledger) (a : Nat) (amt : Int) (cb : Option Int)
    (hv : VotesOK l.neo l.cands l.voters) (hz : amt = 0 → (get l.neo a).isSome = true)
    (hok : (neoInc e l (get l.neo a) amt cb).ok = true) :
    NeoUpd l { (neoInc e l (get l.neo a) amt cb).l with
                neo := store (neoInc e l (get l.neo a) amt cb).l.neo a (neoInc e l (get l.neo a) amt cb).si } a amt := by
  have hbal0 : 0 ≤ ((get l.neo a).getD {}).bal := by
    cases hg : get l.neo a with
    | none => simp
    | some acc => have := hv.neoPos _ (get_mem _ _ _ hg); simp at this ⊢; omega
  obtain ⟨hguard, acc1, g, hd, hcase⟩ := neoInc_ok e l _ amt cb hok
  obtain ⟨hb1, hv1⟩ := distributeGas_some e l _ acc1 g hd
  by_cases h0 : amt = 0
  · -- nothing moves: the item is rewritten with the new height
    subst h0
    rw [neoInc_zero e l _ cb acc1 g hguard hd]
    obtain ⟨acc, hg⟩ := Option.isSome_iff_exists.mp (hz rfl)
    have hacc : (get l.neo a).getD {} = acc := by simp [hg]
    rw [hacc] at hb1 hv1
    have hW : ∀ f : NeoAcc → Int, (f acc1 = f acc) → sumBy f (store l.neo a (some acc1)) = sumBy f l.neo := by
      intro f hf
      rw [sumBy_store]; simp [at0, hg, hf]
    show NeoUpd l { l with neo := store l.neo a (some acc1) } a 0
    refine ⟨rfl, rfl, rfl, rfl, rfl, ?_, ?_, ?_⟩
    · show VotesOK (store l.neo a (some acc1)) l.cands l.voters
      refine ⟨nodup_store _ _ _ hv.neoNodup, hv.candNodup, ?_, ?_, ?_, hv.nozombie⟩
      · intro p hp
        rcases mem_store _ _ _ _ hp with h | ⟨v, hv', rfl⟩
        · exact hv.neoPos p h
        · injection hv' with hv'; subst hv'
          have := hv.neoPos _ (get_mem _ _ _ hg); simp at this ⊢; omega
      · intro c; show _ = sumBy (voteW c) (store l.neo a (some acc1))
        rw [hW (voteW c) (by simp [voteW, hb1, hv1])]; exact hv.votes c
      · show _ = sumBy voterW (store l.neo a (some acc1))
        rw [hW voterW (by simp [voterW, hb1, hv1])]; exact hv.voters
    · show sumBy (·.bal) (store l.neo a (some acc1)) = _
      rw [hW (·.bal) hb1]; simp
    · intro k
      show at0 (·.bal) (store l.neo a (some acc1)) k = _
      rw [bal_store _ _ _ _ hv.neoNodup]
      by_cases hk : k = a
      · subst hk; simp [at0, hg, hb1]
      · simp [hk]
  · rcases hcase with hc | ⟨l1, hm⟩
    · exact absurd hc h0
    rw [neoInc_nonzero e l _ amt cb acc1 g l1 h0 hguard hd hm]
    obtain ⟨m1, m2, m3, m4, m5, m6, m7, cu, nz⟩ := modVotes_spec l acc1 amt false l1 hm
    have hge : 0 ≤ acc1.bal + amt := by
      rw [hb1]
      have : ¬ (amt < 0 ∧ ((get l.neo a).getD {}).bal.natAbs < amt.natAbs) := fun hh => hguard (Or.inl hh)
      omega
    have hW : ∀ f : NeoAcc → Int, f {} = 0 → ∀ w : Int, (acc1.bal + amt ≠ 0 → f { acc1 with bal := acc1.bal + amt } = f ((get l.neo a).getD {}) + w) →
        (acc1.bal + amt = 0 → 0 = f ((get l.neo a).getD {}) + w) →
        sumBy f (store l.neo a (if acc1.bal + amt ≠ 0 then some { acc1 with bal := acc1.bal + amt } else none)) = sumBy f l.neo + w := by
      intro f hf w h1 h2
      rw [sumBy_store, at0_default f hf]
      by_cases hz0 : acc1.bal + amt = 0
      · simp [hz0]; have := h2 hz0; omega
      · simp [hz0]; have := h1 hz0; omega
    -- the ledger after the voters update
    generalize hl2 : (if acc1.vote.isSome = true then { l1 with voters := l1.voters + amt } else l1) = l2
    have e1 : l2.neo = l.neo := by subst hl2; split <;> simp [m1]
    have e2 : l2.neoSupply = l.neoSupply := by subst hl2; split <;> simp [m2]
    have e3 : l2.gas = l.gas := by subst hl2; split <;> simp [m3]
    have e4 : l2.gasSupply = l.gasSupply := by subst hl2; split <;> simp [m4]
    have e5 : l2.cands = l1.cands := by subst hl2; split <;> rfl
    have e6 : l2.voters = l.voters + (if acc1.vote.isSome = true then amt else 0) := by subst hl2; split <;> simp [m5]
    have e7 : l2.deps = l.deps := by subst hl2; split <;> simp [m6]
    have e8 : l2.events = l.events := by subst hl2; split <;> simp [m7]
    refine ⟨e2, e3, e4, e7, e8, ?_, ?_, ?_⟩
    · show VotesOK (store l2.neo a _) l2.cands l2.voters
      rw [e1, e5, e6]
      refine ⟨nodup_store _ _ _ hv.neoNodup, cu.nodup hv.candNodup, ?_, ?_, ?_, ?_⟩
      · intro p hp
        rcases mem_store _ _ _ _ hp with h | ⟨v, hv', rfl⟩
        · exact hv.neoPos p h
        · split at hv'
          · injection hv' with hv'; subst hv'; simp; omega
          · simp at hv'
      · intro c
        rw [cu.votes hv.candNodup c, hv.votes c]
        rw [hW (voteW c) (voteW_default c) (if acc1.vote = some c then amt else 0)]
        · intro _; simp only [voteW, ← hv1, ← hb1]; split <;> omega
        · intro hz0; simp only [voteW, ← hv1, ← hb1]; split <;> omega
      · rw [hv.voters]
        rw [hW voterW voterW_default (if acc1.vote.isSome = true then amt else 0)]
        · intro _; simp only [voterW, ← hv1, ← hb1]; split <;> omega
        · intro hz0; simp only [voterW, ← hv1, ← hb1]; split <;> omega
      · intro p hp
        rcases nz rfl p hp with h | h
        · exact hv.nozombie p h
        · exact h
    · show sumBy (·.bal) (store l2.neo a _) = _
      rw [e1, hW (·.bal) rfl amt]
      · intro _; simp [hb1]
      · intro hz0; simp [← hb1]; omega
    · intro k
      show at0 (·.bal) (store l2.neo a _) k = _
      rw [e1, bal_store _ _ _ _ hv.neoNodup]
      by_cases hk : k = a
      · subst hk
        rw [at0_default (·.bal) rfl]
        by_cases hz0 : acc1.bal + amt = 0
        · simp [hz0]; omega
        · have hz1 : acc1.bal + amt ≠ 0 := hz0
          rw [if_pos hz1]; simp [hb1]
      · simp [hk]

end NeoModel.Tokens
