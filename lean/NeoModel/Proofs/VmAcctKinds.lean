/-
C12 proofs, part 8a: the shape invariant of Maps.

Every compound has one kind for its whole life (`km id` = "cell `id` is a Map"; an id is never
referenced both as a Map and as an Array/Struct), every reference points at an existing cell, and
the children of every Map come in key/value pairs whose keys are primitives. The real VM keeps this
by faulting on any other key (`validateMapKey`, vm.go:2195; `Map.Add`, item.go:875); the model does
the same (Machine.lean: `setitemTail`, `packMapLoop`), and this file proves that every stack/heap
instruction preserves it. It replaces the former side conditions `SOp.okFor` of the accounting
proofs, which become consequences (`okFor_of_good`).
-/
import NeoModel.Proofs.VmAcctLen
namespace NeoModel.VmAcct

/-- key, value, key, value … with primitive keys -/
def PairsOk (ch : List Item) : Prop := ch.length % 2 = 0 ∧ ∀ x ∈ evens ch, x.cid = none

/-- the reference `x` points at an existing cell of the kind `km` says -/
def Good (km : Nat → Bool) (n : Nat) : Item → Prop
  | .prim => True
  | .arr id => id < n ∧ km id = false
  | .str id => id < n ∧ km id = false
  | .map id => id < n ∧ km id = true

def GoodL (km : Nat → Bool) (n : Nat) (xs : List Item) : Prop := ∀ x ∈ xs, Good km n x

structure GoodH (km : Nat → Bool) (h : Heap) : Prop where
  ch : ∀ j, GoodL km h.length (chOf h j)
  pairs : ∀ id, km id = true → PairsOk (chOf h id)

structure GoodW (km : Nat → Bool) (w : W) : Prop where
  h : GoodH km w.c.heap
  st : GoodL km w.c.heap.length w.st

/-- the kind assignment after an instruction that allocates cells of one kind -/
def extK (km : Nat → Bool) (n : Nat) (b : Bool) : Nat → Bool := fun j => if j < n then km j else b

theorem extK_lt (km : Nat → Bool) (n : Nat) (b : Bool) (j : Nat) (h : j < n) : extK km n b j = km j := by
  simp [extK, h]

theorem pairsOk_nil : PairsOk [] := ⟨rfl, by intro x hx; simp [evens] at hx⟩

theorem Good.mono {km km' : Nat → Bool} {n n' : Nat} {x : Item} (g : Good km n x)
    (hk : ∀ j, j < n → km' j = km j) (hn : n ≤ n') : Good km' n' x := by
  cases x with
  | prim => trivial
  | arr id => exact ⟨Nat.lt_of_lt_of_le g.1 hn, by rw [hk id g.1]; exact g.2⟩
  | str id => exact ⟨Nat.lt_of_lt_of_le g.1 hn, by rw [hk id g.1]; exact g.2⟩
  | map id => exact ⟨Nat.lt_of_lt_of_le g.1 hn, by rw [hk id g.1]; exact g.2⟩

theorem GoodL.mono {km km' : Nat → Bool} {n n' : Nat} {xs : List Item} (g : GoodL km n xs)
    (hk : ∀ j, j < n → km' j = km j) (hn : n ≤ n') : GoodL km' n' xs :=
  fun x hx => (g x hx).mono hk hn

theorem good_prim (km : Nat → Bool) (n : Nat) : Good km n .prim := trivial

theorem Good.lt {km : Nat → Bool} {n : Nat} {x : Item} (g : Good km n x) {d : Nat} (hd : x.cid = some d) : d < n := by
  cases x <;> simp [Item.cid] at hd <;> subst hd <;> exact g.1

theorem GoodL.nil (km : Nat → Bool) (n : Nat) : GoodL km n [] := by intro x hx; cases hx
theorem GoodL.cons {km : Nat → Bool} {n : Nat} {x : Item} {xs : List Item} (gx : Good km n x) (g : GoodL km n xs) :
    GoodL km n (x :: xs) := by
  intro y hy
  rcases List.mem_cons.1 hy with rfl | hy
  · exact gx
  · exact g y hy
theorem GoodL.head {km : Nat → Bool} {n : Nat} {x : Item} {xs : List Item} (g : GoodL km n (x :: xs)) : Good km n x :=
  g x (List.mem_cons_self ..)
theorem GoodL.tail {km : Nat → Bool} {n : Nat} {x : Item} {xs : List Item} (g : GoodL km n (x :: xs)) : GoodL km n xs :=
  fun y hy => g y (List.mem_cons_of_mem _ hy)
theorem GoodL.append {km : Nat → Bool} {n : Nat} {xs ys : List Item} (g1 : GoodL km n xs) (g2 : GoodL km n ys) :
    GoodL km n (xs ++ ys) := by
  intro y hy
  rcases List.mem_append.1 hy with h | h
  · exact g1 y h
  · exact g2 y h
theorem GoodL.sub {km : Nat → Bool} {n : Nat} {xs ys : List Item} (g : GoodL km n ys) (h : ∀ x ∈ xs, x ∈ ys) : GoodL km n xs :=
  fun x hx => g x (h x hx)
theorem GoodL.take {km : Nat → Bool} {n : Nat} {xs : List Item} (g : GoodL km n xs) (k : Nat) : GoodL km n (xs.take k) :=
  g.sub (fun _ hx => List.mem_of_mem_take hx)
theorem GoodL.drop {km : Nat → Bool} {n : Nat} {xs : List Item} (g : GoodL km n xs) (k : Nat) : GoodL km n (xs.drop k) :=
  g.sub (fun _ hx => List.mem_of_mem_drop hx)
theorem GoodL.reverse {km : Nat → Bool} {n : Nat} {xs : List Item} (g : GoodL km n xs) : GoodL km n xs.reverse :=
  g.sub (fun _ hx => List.mem_reverse.1 hx)
theorem GoodL.eraseIdx {km : Nat → Bool} {n : Nat} {xs : List Item} (g : GoodL km n xs) (k : Nat) : GoodL km n (xs.eraseIdx k) :=
  g.sub (fun _ hx => List.mem_of_mem_eraseIdx hx)
theorem GoodL.get {km : Nat → Bool} {n : Nat} {xs : List Item} (g : GoodL km n xs) {k : Nat} {x : Item} (h : xs[k]? = some x) :
    Good km n x := g x (mem_of_getElem? h)
theorem GoodL.set {km : Nat → Bool} {n : Nat} {xs : List Item} (g : GoodL km n xs) (k : Nat) {x : Item} (gx : Good km n x) :
    GoodL km n (xs.set k x) := by
  intro y hy
  rcases List.mem_or_eq_of_mem_set hy with h | h
  · exact g y h
  · rw [h]; exact gx
theorem GoodL.replicate_prim (km : Nat → Bool) (n k : Nat) : GoodL km n (List.replicate k .prim) := by
  intro x hx; rw [(List.mem_replicate.1 hx).2]; trivial
theorem GoodL.dropLast {km : Nat → Bool} {n : Nat} {xs : List Item} (g : GoodL km n xs) : GoodL km n xs.dropLast :=
  g.sub (fun _ hx => List.dropLast_subset _ hx)

/-! ### the counter operations do not touch the shape -/

theorem sameShape_addW (w : List Item) (c : Ctr) : SameShape c.heap (addW w c).heap := by
  fun_induction addW w c with
  | case1 c => exact SameShape.refl _
  | case2 x w c hx ih => exact ih
  | case3 x w c id hx hz hl ih => exact (sameShape_incRC _ _).trans ih
  | case4 x w c id hx hz hl ih => exact (sameShape_incRC _ _).trans ih
  | case5 x w c id hx hnz ih => exact (sameShape_incRC _ _).trans ih

theorem sameShape_remW (w : List Item) (c : Ctr) : SameShape c.heap (remW w c).heap := by
  fun_induction remW w c with
  | case1 c => exact SameShape.refl _
  | case2 x w c hx ih => exact ih
  | case3 x w c id hx hz ih => exact ih
  | case4 x w c id hx hnz h1 ih => exact (sameShape_decRC _ _).trans ih
  | case5 x w c id hx hnz h1 ih => exact (sameShape_decRC _ _).trans ih

@[simp] theorem chOf_add (c : Ctr) (x : Item) (j : Nat) : chOf (c.add x).heap j = chOf c.heap j := (sameShape_addW _ _).2 j
@[simp] theorem chOf_rem (c : Ctr) (x : Item) (j : Nat) : chOf (c.rem x).heap j = chOf c.heap j := (sameShape_remW _ _).2 j
@[simp] theorem chOf_addAll (c : Ctr) (xs : List Item) (j : Nat) : chOf (c.addAll xs).heap j = chOf c.heap j := (sameShape_addW _ _).2 j
@[simp] theorem chOf_remAll (c : Ctr) (xs : List Item) (j : Nat) : chOf (c.remAll xs).heap j = chOf c.heap j := (sameShape_remW _ _).2 j

theorem goodH_congr {km : Nat → Bool} {h h' : Heap} (hl : h'.length = h.length) (hc : ∀ j, chOf h' j = chOf h j) :
    GoodH km h' ↔ GoodH km h := by
  constructor
  · intro g; exact ⟨fun j => by have := g.ch j; rwa [hl, hc] at this, fun id hk => by have := g.pairs id hk; rwa [hc] at this⟩
  · intro g; exact ⟨fun j => by rw [hl, hc]; exact g.ch j, fun id hk => by rw [hc]; exact g.pairs id hk⟩

@[simp] theorem goodH_add (km : Nat → Bool) (c : Ctr) (x : Item) : GoodH km (c.add x).heap ↔ GoodH km c.heap :=
  goodH_congr (by simp) (by simp)
@[simp] theorem goodH_rem (km : Nat → Bool) (c : Ctr) (x : Item) : GoodH km (c.rem x).heap ↔ GoodH km c.heap :=
  goodH_congr (by simp) (by simp)
@[simp] theorem goodH_addAll (km : Nat → Bool) (c : Ctr) (xs : List Item) : GoodH km (c.addAll xs).heap ↔ GoodH km c.heap :=
  goodH_congr (by simp) (by simp)
@[simp] theorem goodH_remAll (km : Nat → Bool) (c : Ctr) (xs : List Item) : GoodH km (c.remAll xs).heap ↔ GoodH km c.heap :=
  goodH_congr (by simp) (by simp)
@[simp] theorem goodH_incRC (km : Nat → Bool) (h : Heap) (id : Nat) : GoodH km (incRC h id) ↔ GoodH km h :=
  goodH_congr (by simp) (by simp)
@[simp] theorem goodH_decRC (km : Nat → Bool) (h : Heap) (id : Nat) : GoodH km (decRC h id) ↔ GoodH km h :=
  goodH_congr (by simp) (by simp)

/-! ### child-list mutation, allocation -/

theorem goodH_setCh {km : Nat → Bool} {h : Heap} (g : GoodH km h) (id : Nat) {xs : List Item} (hx : GoodL km h.length xs)
    (hp : km id = true → PairsOk xs) : GoodH km (setCh h id xs) := by
  refine ⟨fun j => ?_, fun j hk => ?_⟩
  · rw [length_setCh, chOf_setCh]
    split
    · exact hx
    · exact g.ch j
  · rw [chOf_setCh]
    split
    · rename_i hj; rw [hj.1] at hk; exact hp hk
    · exact g.pairs j hk

theorem GoodH.ext {km : Nat → Bool} {h : Heap} (g : GoodH km h) (b : Bool) : GoodH (extK km h.length b) h := by
  refine ⟨fun j => (g.ch j).mono (fun i hi => extK_lt _ _ _ _ hi) (Nat.le_refl _), fun id hk => ?_⟩
  by_cases hl : id < h.length
  · rw [extK_lt _ _ _ _ hl] at hk; exact g.pairs id hk
  · rw [chOf_eq_nil_of_ge h id (Nat.le_of_not_lt hl)]; exact pairsOk_nil

theorem goodH_alloc {km : Nat → Bool} {h : Heap} (g : GoodH km h) (b : Bool) (rc : Nat) {ch : List Item}
    (hx : GoodL (extK km h.length b) (h.length + 1) ch) (hp : b = true → PairsOk ch) :
    GoodH (extK km h.length b) (h ++ [{ rc := rc, ch := ch }]) := by
  refine ⟨fun j => ?_, fun id hk => ?_⟩
  · rw [chOf_append, List.length_append, List.length_singleton]
    split
    · exact hx
    · exact (g.ch j).mono (fun i hi => extK_lt _ _ _ _ hi) (Nat.le_succ _)
  · rw [chOf_append]
    split
    · rename_i hj
      have : extK km h.length b id = b := by simp [extK, hj]
      rw [this] at hk; exact hp hk
    · exact (g.ext b).pairs id hk

theorem good_new_map (km : Nat → Bool) (n : Nat) : Good (extK km n true) (n + 1) (.map n) :=
  ⟨Nat.lt_succ_self _, by simp [extK]⟩
theorem good_new_arr (km : Nat → Bool) (n : Nat) : Good (extK km n false) (n + 1) (.arr n) :=
  ⟨Nat.lt_succ_self _, by simp [extK]⟩
theorem good_new_str (km : Nat → Bool) (n : Nat) : Good (extK km n false) (n + 1) (.str n) :=
  ⟨Nat.lt_succ_self _, by simp [extK]⟩

theorem GoodL.ext {km : Nat → Bool} {n : Nat} {xs : List Item} (g : GoodL km n xs) (b : Bool) (n' : Nat) (hn : n ≤ n') :
    GoodL (extK km n b) n' xs := g.mono (fun i hi => extK_lt _ _ _ _ hi) hn

/-! ### pop / push -/

theorem GoodW.pop {km : Nat → Bool} {w w' : W} {x : Item} (g : GoodW km w) (h : w.pop = some (x, w')) :
    GoodW km w' ∧ Good km w.c.heap.length x ∧ w'.c.heap.length = w.c.heap.length ∧ w.st = x :: w'.st := by
  unfold W.pop at h
  split at h
  · cases h
  · rename_i y r hst
    simp only [Option.some.injEq, Prod.mk.injEq] at h
    obtain ⟨rfl, rfl⟩ := h
    have gst := g.st; rw [hst] at gst
    exact ⟨⟨by simpa using g.h, by simpa using gst.tail⟩, gst.head, by simp, hst⟩

theorem GoodW.popNoRef {km : Nat → Bool} {w w' : W} {x : Item} (g : GoodW km w) (h : w.popNoRef = some (x, w')) :
    GoodW km w' ∧ Good km w.c.heap.length x ∧ w'.c = w.c ∧ w.st = x :: w'.st := by
  unfold W.popNoRef at h
  split at h
  · cases h
  · rename_i y r hst
    simp only [Option.some.injEq, Prod.mk.injEq] at h
    obtain ⟨rfl, rfl⟩ := h
    have gst := g.st; rw [hst] at gst
    exact ⟨⟨g.h, gst.tail⟩, gst.head, rfl, hst⟩

theorem GoodW.push {km : Nat → Bool} {w : W} {x : Item} (g : GoodW km w) (gx : Good km w.c.heap.length x) : GoodW km (w.push x) :=
  ⟨by simpa [W.push] using g.h, by simpa [W.push] using GoodL.cons gx g.st⟩

theorem GoodW.popN {km : Nat → Bool} : ∀ (k : Nat) {w w' : W}, GoodW km w → W.popN k w = some w' →
    GoodW km w' ∧ w'.c.heap.length = w.c.heap.length := by
  intro k
  induction k with
  | zero => intro w w' g h; simp [W.popN] at h; subst h; exact ⟨g, rfl⟩
  | succ k ih =>
    intro w w' g h
    simp only [W.popN] at h
    split at h
    · cases h
    · rename_i x w1 hp
      obtain ⟨g1, _, l1, _⟩ := g.pop hp
      obtain ⟨g2, l2⟩ := ih g1 h
      exact ⟨g2, by rw [l2, l1]⟩

theorem GoodW.pushPrims {km : Nat → Bool} : ∀ (k : Nat) {w : W}, GoodW km w → GoodW km (W.pushPrims k w) := by
  intro k
  induction k with
  | zero => intro w g; exact g
  | succ k ih => intro w g; exact ih (g.push (good_prim _ _))

end NeoModel.VmAcct
