/-
C09 helper lemmas: isKeyOK is the range predicate; sorting; one cache layer over a correct lower
enumeration is correct; MemoryStore.seek is correct.
-/
import NeoModel.Proofs.StoreMergeSpec
set_option linter.unusedSimpArgs false
set_option linter.unusedVariables false
namespace NeoModel.Store

/-! ### isKeyOK is the range predicate -/

theorem isKeyOK_iff (rng : SeekRange) (k : Key) : isKeyOK rng k = true ↔ inRange rng k := by
  unfold isKeyOK inRange
  rw [Bool.and_eq_true, List.isPrefixOf_iff_prefix]
  constructor
  · rintro ⟨hp, h⟩
    refine ⟨hp, ?_⟩
    obtain ⟨t, rfl⟩ := hp
    rw [Bool.or_eq_true] at h
    rcases h with h | h
    · left; simpa using h
    · right
      simp only [List.drop_left] at h
      cases hb : rng.bw with
      | false =>
        simp only [hb, Bool.false_eq_true, if_false] at h ⊢
        rw [lexLe_append_left]; exact h
      | true =>
        simp only [hb, if_true, Bool.or_eq_true, List.isPrefixOf_iff_prefix] at h ⊢
        rcases h with h | h
        · left; rw [lexLe_append_left]; exact h
        · right; exact (List.prefix_append_right_inj _).mpr h
  · rintro ⟨hp, h⟩
    refine ⟨hp, ?_⟩
    obtain ⟨t, rfl⟩ := hp
    rw [Bool.or_eq_true]
    rcases h with h | h
    · left; simpa using h
    · right
      simp only [List.drop_left]
      cases hb : rng.bw with
      | false =>
        simp only [hb, Bool.false_eq_true, if_false] at h ⊢
        rw [lexLe_append_left] at h; exact h
      | true =>
        simp only [hb, if_true, Bool.or_eq_true, List.isPrefixOf_iff_prefix] at h ⊢
        rcases h with h | h
        · left; rw [lexLe_append_left] at h; exact h
        · right; exact (List.prefix_append_right_inj _).mp h

/-! ### sorting -/

theorem leDir_trans {β : Type} (bw : Bool) (a b c : Key × β) :
    leDir bw a b = true → leDir bw b c = true → leDir bw a c = true := by
  simp only [leDir, Bool.not_eq_true']
  intro h1 h2
  rcases ltDir_tri bw c.1 a.1 with h | h | h
  · rcases ltDir_tri bw b.1 a.1 with h' | h' | h'
    · rw [h1] at h'; cases h'
    · rw [← h'] at h; rw [h2] at h; cases h
    · have := ltDir_trans h h'; rw [h2] at this; cases this
  · rw [h]; exact ltDir_irrefl bw a.1
  · exact ltDir_asymm h

theorem leDir_total {β : Type} (bw : Bool) (a b : Key × β) : (leDir bw a b || leDir bw b a) = true := by
  simp only [leDir]
  rcases ltDir_tri bw a.1 b.1 with h | h | h
  · simp [ltDir_asymm h]
  · rw [h]; simp [ltDir_irrefl]
  · simp [ltDir_asymm h]

theorem sorted_mergeSort {β : Type} (bw : Bool) (l : List (Key × β)) (hn : (l.map Prod.fst).Nodup) :
    SortedK bw (l.mergeSort (leDir bw)) := by
  have hp : (l.mergeSort (leDir bw)).Perm l := List.mergeSort_perm l _
  have hs := List.pairwise_mergeSort (le := leDir (β := β) bw) (leDir_trans bw) (leDir_total bw) l
  have hn' : ((l.mergeSort (leDir bw)).map Prod.fst).Nodup := (hp.map Prod.fst).nodup_iff.mpr hn
  have hne : (l.mergeSort (leDir bw)).Pairwise (fun a b => a.1 ≠ b.1) := by
    unfold List.Nodup at hn'
    rw [List.pairwise_map] at hn'
    exact hn'
  unfold SortedK
  refine (hs.and hne).imp ?_
  intro a b ⟨h1, h2⟩
  simp only [leDir, Bool.not_eq_true'] at h1
  rcases ltDir_tri bw a.1 b.1 with h | h | h
  · exact h
  · exact absurd h h2
  · rw [h1] at h; cases h

theorem mem_mergeSort {β : Type} (bw : Bool) (l : List (Key × β)) (x : Key × β) :
    x ∈ l.mergeSort (leDir bw) ↔ x ∈ l := (List.mergeSort_perm l _).mem_iff

/-! ### the cached items of one layer -/

theorem isStor_of_prefix {p k : Key} (hp : p ≠ []) (h : p <+: k) : isStor k = isStor p := by
  obtain ⟨t, rfl⟩ := h
  cases p with
  | nil => exact absurd rfl hp
  | cons a as => rfl

theorem keys_nodup_filter (m : GoMap) (p : Key × Option Val → Bool) (h : MapWF m) :
    ((m.filter p).map Prod.fst).Nodup := MapWF_filter m p h

theorem mem_snapshot (L : Layer) (hL : L.WF) (rng : SeekRange) (q : Key) (ov : Option Val) :
    (q, ov) ∈ snapshot L rng ↔ mapGet (L.choose rng.pfx) q = some ov ∧ inRange rng q := by
  unfold snapshot
  have hwf : MapWF (L.choose rng.pfx) := by
    unfold Layer.choose; split
    · exact hL.2.1
    · exact hL.1
  rw [List.mem_filter, mem_iff_mapGet _ hwf, isKeyOK_iff]

theorem snapshot_nodup (L : Layer) (hL : L.WF) (rng : SeekRange) : ((snapshot L rng).map Prod.fst).Nodup := by
  unfold snapshot
  apply keys_nodup_filter
  unfold Layer.choose; split
  · exact hL.2.1
  · exact hL.1

/-- one cache layer on top of a correct lower enumeration gives a correct enumeration. -/
theorem seek_layer (L : Layer) (hL : L.WF) (rng : SeekRange) (hp : rng.pfx ≠ []) (f : SpecMap) (psRes : List KV)
    (hps : IsSpecSeek f rng psRes) :
    IsSpecSeek (overlay L f) rng (mergeP rng.bw (sortKVE rng.bw (snapshot L rng)) psRes) := by
  have hsorted : SortedK rng.bw (sortKVE rng.bw (snapshot L rng)) := sorted_mergeSort rng.bw _ (snapshot_nodup L hL rng)
  refine ⟨sorted_mergeP rng.bw psRes _ hsorted hps.1, ?_⟩
  intro q w
  rw [mem_mergeP rng.bw psRes _ hsorted hps.1]
  unfold sortKVE
  simp only [mem_mergeSort, mem_snapshot L hL, hps.2]
  have hsay : inRange rng q → layerSays L q = mapGet (L.choose rng.pfx) q := by
    intro hr
    unfold layerSays Layer.choose
    rw [isStor_of_prefix hp hr.1]
  constructor
  · rintro (⟨h1, h2⟩ | ⟨⟨h1, h2⟩, h3⟩)
    · refine ⟨?_, h2⟩
      simp only [overlay, hsay h2, h1]
    · refine ⟨?_, h2⟩
      have hnone : mapGet (L.choose rng.pfx) q = none := by
        cases hg : mapGet (L.choose rng.pfx) q with
        | none => rfl
        | some ov =>
          have := h3 (q, ov) (by simp only [mem_snapshot L hL]; exact ⟨hg, h2⟩)
          exact absurd rfl this
      simp only [overlay, hsay h2, hnone, h1]
  · rintro ⟨h1, h2⟩
    simp only [overlay, hsay h2] at h1
    cases hg : mapGet (L.choose rng.pfx) q with
    | none =>
      right
      rw [hg] at h1
      refine ⟨⟨h1, h2⟩, ?_⟩
      intro m hm e
      obtain ⟨mk, mv⟩ := m
      simp only [mem_snapshot L hL] at hm
      simp only at e
      rw [e, hg] at hm
      cases hm.1
    | some ov =>
      rw [hg] at h1
      cases ov with
      | none => cases h1
      | some v =>
        simp only [Option.some.injEq] at h1
        left; rw [← h1]; exact ⟨rfl, h2⟩

/-- MemoryStore.seek. -/
theorem memorySeek_spec (m s : GoMap) (hm : MapWF m) (hs : MapWF s) (rng : SeekRange) (hp : rng.pfx ≠ []) :
    IsSpecSeek (Store.memB m s).flatten rng (memorySeek m s rng) := by
  have hwf : MapWF (if isStor rng.pfx = true then s else m) := by split <;> assumption
  have hflat : ∀ q, inRange rng q → (Store.memB m s).flatten q =
      match mapGet (if isStor rng.pfx = true then s else m) q with
      | some (some v) => some v
      | _ => none := by
    intro q hr
    simp only [Store.flatten, overlay, layerSays, Layer.choose, isStor_of_prefix hp hr.1, SpecMap.empty]
    cases mapGet (if isStor rng.pfx = true then s else m) q with
    | none => rfl
    | some ov => cases ov <;> rfl
  show IsSpecSeek (Store.memB m s).flatten rng
    (((if isStor rng.pfx = true then s else m).filterMap (fun e => match e.2 with
      | some v => if isKeyOK rng e.1 = true then some (e.1, v) else none
      | none => none)).mergeSort (leDir rng.bw))
  generalize (if isStor rng.pfx = true then s else m) = mp at hwf hflat
  generalize hl : mp.filterMap (fun e => match e.2 with
    | some v => if isKeyOK rng e.1 = true then some (e.1, v) else none
    | none => none) = l
  have hmem : ∀ q w, (q, w) ∈ l ↔ mapGet mp q = some (some w) ∧ inRange rng q := by
    intro q w
    rw [← hl, List.mem_filterMap]
    constructor
    · rintro ⟨⟨a, b⟩, hin, he⟩
      cases b with
      | none => simp at he
      | some v =>
        by_cases hk : isKeyOK rng a = true
        · simp [hk] at he
          obtain ⟨rfl, rfl⟩ := he
          exact ⟨(mem_iff_mapGet _ hwf _ _).mp hin, (isKeyOK_iff rng _).mp hk⟩
        · simp [hk] at he
    · rintro ⟨h1, h2⟩
      refine ⟨(q, some w), (mem_iff_mapGet _ hwf _ _).mpr h1, ?_⟩
      simp [(isKeyOK_iff rng q).mpr h2]
  have hnd : (l.map Prod.fst).Nodup := by
    rw [← hl]
    have hk : (mp.map Prod.fst).Nodup := hwf
    refine List.Nodup.sublist ?_ hk
    clear hmem hl hwf hflat hk
    induction mp with
    | nil => simp
    | cons e t ih =>
      rw [List.filterMap_cons]
      obtain ⟨a, b⟩ := e
      cases b with
      | none => simp only [List.map_cons]; exact List.Sublist.cons _ ih
      | some v =>
        by_cases hk : isKeyOK rng a = true
        · simp only [hk, if_true, List.map_cons]; exact List.Sublist.cons_cons _ ih
        · simp only [hk, Bool.false_eq_true, if_false, List.map_cons]; exact List.Sublist.cons _ ih
  refine ⟨sorted_mergeSort rng.bw l hnd, ?_⟩
  intro q w
  rw [mem_mergeSort, hmem]
  constructor
  · rintro ⟨h1, h2⟩
    exact ⟨by rw [hflat q h2, h1], h2⟩
  · rintro ⟨h1, h2⟩
    refine ⟨?_, h2⟩
    rw [hflat q h2] at h1
    cases hg : mapGet mp q with
    | none => rw [hg] at h1; cases h1
    | some ov =>
      rw [hg] at h1
      cases ov with
      | none => cases h1
      | some v => simp only [Option.some.injEq] at h1; rw [h1]

end NeoModel.Store
