/-
C19 simulation, part A: the guarded-command side. "Extensions" of a state of `NeoModel.Dbft`: runs of enabled
steps that never take a payload out of the network (a delivery is preceded by a duplication), so that
everything a validator ever broadcast can still be delivered to anybody.
-/
import NeoModel.Model.DbftMachNet
import NeoModel.Proofs.DbftRun
namespace NeoModel.Dbft

/-- some run of enabled steps leads from `s` to `s'` -/
def Steps (c : Cfg) (s s' : State) : Prop := ∃ as, run c s as = some s'

theorem Steps.refl (c : Cfg) (s : State) : Steps c s s := ⟨[], rfl⟩

theorem sim_run_append (c : Cfg) (s : State) (as bs : List Action) (s' s'' : State)
    (h1 : run c s as = some s') (h2 : run c s' bs = some s'') : run c s (as ++ bs) = some s'' := by
  induction as generalizing s with
  | nil => simp [run] at h1; subst h1; exact h2
  | cons a as ih =>
    simp only [run, List.cons_append] at h1 ⊢
    split at h1
    · rename_i hen; simp only [hen, if_true]; exact ih _ h1
    · cases h1

theorem Steps.trans {c : Cfg} {s1 s2 s3 : State} (a : Steps c s1 s2) (b : Steps c s2 s3) : Steps c s1 s3 := by
  obtain ⟨x, hx⟩ := a; obtain ⟨y, hy⟩ := b
  exact ⟨x ++ y, sim_run_append c s1 x y s2 s3 hx hy⟩

theorem Steps.one {c : Cfg} {s : State} (a : Action) (h : Enabled c s a) : Steps c s (apply c s a) :=
  ⟨[a], by simp [run, h]⟩

theorem Steps.reachable {c : Cfg} {s s' : State} (h : Steps c s s') (hr : Reachable c s) : Reachable c s' := by
  obtain ⟨as, has⟩ := h; exact run_reachable c s as s' hr has

/-- the payload item a preparation of `b` by `j` travels as -/
def prepItem (c : Cfg) (j : Nat) (b : Block) : Item :=
  if j = c.primary b.h b.v then .prepReq j b else .prepResp j b

/-- `it` was broadcast by `j`: a copy for everybody else is in the network -/
def Bcast (c : Cfg) (s : State) (j : Nat) (it : Item) : Prop :=
  ∀ i, i < c.n → i ≠ j → (i, Msg.item it) ∈ s.net

/-- everything prepared or signed is in the network for everybody -/
def SentAll (c : Cfg) (s : State) : Prop :=
  (∀ j b, b ∈ (s.nodes j).myPreps → Bcast c s j (prepItem c j b) ∧ prepItem c j b ∈ (s.nodes j).known) ∧
  (∀ j b, b ∈ (s.nodes j).myCommits → Bcast c s j (.commit j b) ∧ Item.commit j b ∈ (s.nodes j).known)

/-- an extension of `s` by steps of validator `i` only -/
structure SimExt (c : Cfg) (i : Nat) (s s' : State) : Prop where
  steps : Steps c s s'
  net : ∀ x, x ∈ s.net → x ∈ s'.net
  grows : Grows s s'
  sent : SentAll c s → SentAll c s'
  others : ∀ k, k ≠ i → s'.nodes k = s.nodes k
  known : ∀ k it, it ∈ (s.nodes k).known → it ∈ (s'.nodes k).known

theorem SimExt.refl (c : Cfg) (i : Nat) (s : State) : SimExt c i s s :=
  ⟨Steps.refl c s, fun _ h => h, ⟨fun _ _ h => h, fun _ _ h => h⟩, fun h => h, fun _ _ => rfl, fun _ _ h => h⟩

theorem SimExt.trans {c : Cfg} {i : Nat} {s1 s2 s3 : State} (a : SimExt c i s1 s2) (b : SimExt c i s2 s3) : SimExt c i s1 s3 :=
  ⟨a.steps.trans b.steps, fun x h => b.net x (a.net x h), a.grows.trans b.grows, fun h => b.sent (a.sent h),
   fun k hk => by rw [b.others k hk, a.others k hk], fun k it h => b.known k it (a.known k it h)⟩

theorem bcast_mem (c : Cfg) (i j : Nat) (m : Msg) (hj : j < c.n) (hne : j ≠ i) : (j, m) ∈ bcast c i m := by
  unfold bcast
  simp only [List.mem_map, List.mem_filter, List.mem_range]
  exact ⟨j, ⟨hj, by simpa using hne⟩, rfl⟩

theorem Bcast.mono {c : Cfg} {s s' : State} {j : Nat} {it : Item} (h : Bcast c s j it)
    (hn : ∀ x, x ∈ s.net → x ∈ s'.net) : Bcast c s' j it := fun i hi hne => hn _ (h i hi hne)

/-- a step that changes neither the prepared/signed sets nor removes anything from the network -/
theorem sentAll_frame {c : Cfg} {s s' : State} (h : SentAll c s)
    (hp : ∀ j, (s'.nodes j).myPreps = (s.nodes j).myPreps) (hc : ∀ j, (s'.nodes j).myCommits = (s.nodes j).myCommits)
    (hn : ∀ x, x ∈ s.net → x ∈ s'.net) (hk : ∀ k it, it ∈ (s.nodes k).known → it ∈ (s'.nodes k).known) : SentAll c s' :=
  ⟨fun j b hb => ⟨(h.1 j b (by rw [← hp]; exact hb)).1.mono hn, hk _ _ (h.1 j b (by rw [← hp]; exact hb)).2⟩,
   fun j b hb => ⟨(h.2 j b (by rw [← hc]; exact hb)).1.mono hn, hk _ _ (h.2 j b (by rw [← hc]; exact hb)).2⟩⟩

/-- learning: a broadcast item is delivered to `i` (a copy stays in flight) -/
theorem ext_learn (c : Cfg) (s : State) (i : Nat) (it : Item) (h : (i, Msg.item it) ∈ s.net) :
    ∃ s', SimExt c i s s' ∧ it ∈ (s'.nodes i).known ∧ s'.net = s.net ∧
      (s'.nodes i).height = (s.nodes i).height ∧ (s'.nodes i).view = (s.nodes i).view ∧
      (s'.nodes i).chain = (s.nodes i).chain ∧ (s'.nodes i).myPreps = (s.nodes i).myPreps ∧
      (s'.nodes i).myCommits = (s.nodes i).myCommits := by
  let s1 := apply c s (.dup i (.item it))
  have e1 : Enabled c s (.dup i (.item it)) := h
  have e2 : Enabled c s1 (.deliver i (.item it)) := by
    show (i, Msg.item it) ∈ ((i, Msg.item it) :: s.net); simp
  let s2 := apply c s1 (.deliver i (.item it))
  have hnet : s2.net = s.net := by
    show ((i, Msg.item it) :: s.net).erase (i, Msg.item it) = s.net
    simp
  have hnode : s2.nodes i = { s.nodes i with known := addAll (s.nodes i).known [it] } := by
    show upd s.nodes i _ i = _
    simp only [upd, if_true]
    rfl
  have hoth : ∀ k, k ≠ i → s2.nodes k = s.nodes k := by
    intro k hk; show upd s.nodes i _ k = _; simp [upd, hk]
  have hp : ∀ j, (s2.nodes j).myPreps = (s.nodes j).myPreps := by
    intro j; by_cases hj : j = i
    · subst hj; rw [hnode]
    · rw [hoth j hj]
  have hc : ∀ j, (s2.nodes j).myCommits = (s.nodes j).myCommits := by
    intro j; by_cases hj : j = i
    · subst hj; rw [hnode]
    · rw [hoth j hj]
  have hkn : ∀ k x, x ∈ (s.nodes k).known → x ∈ (s2.nodes k).known := by
    intro k x hx; by_cases hk : k = i
    · subst hk; rw [hnode]; simp only; rw [mem_addAll]; exact Or.inr hx
    · rw [hoth k hk]; exact hx
  refine ⟨s2, ⟨(Steps.one _ e1).trans (Steps.one _ e2), by intro x hx; rw [hnet]; exact hx,
    ⟨fun j b hb => by rw [hp]; exact hb, fun j b hb => by rw [hc]; exact hb⟩,
    fun hs => sentAll_frame hs hp hc (by intro x hx; rw [hnet]; exact hx) hkn, hoth, hkn⟩, ?_, hnet, ?_, ?_, ?_, ?_, ?_⟩
  · rw [hnode]; simp only; rw [mem_addAll]; exact Or.inl (by simp)
  all_goals rw [hnode]

/-- learning a list of broadcast items -/
theorem ext_learn_all (c : Cfg) (i : Nat) (its : List Item) (s : State) (h : ∀ it ∈ its, (i, Msg.item it) ∈ s.net) :
    ∃ s', SimExt c i s s' ∧ (∀ it ∈ its, it ∈ (s'.nodes i).known) ∧ s'.net = s.net ∧
      (s'.nodes i).height = (s.nodes i).height ∧ (s'.nodes i).view = (s.nodes i).view ∧
      (s'.nodes i).chain = (s.nodes i).chain ∧ (s'.nodes i).myPreps = (s.nodes i).myPreps ∧
      (s'.nodes i).myCommits = (s.nodes i).myCommits := by
  induction its generalizing s with
  | nil => exact ⟨s, SimExt.refl c i s, by simp, rfl, rfl, rfl, rfl, rfl, rfl⟩
  | cons a rest ih =>
    obtain ⟨s1, e1, k1, n1, h1, v1, c1, p1, m1⟩ := ext_learn c s i a (h a (by simp))
    obtain ⟨s2, e2, k2, n2, h2, v2, c2, p2, m2⟩ := ih s1 (by intro it hit; rw [n1]; exact h it (by simp [hit]))
    refine ⟨s2, e1.trans e2, ?_, by rw [n2, n1], by rw [h2, h1], by rw [v2, v1], by rw [c2, c1], by rw [p2, p1], by rw [m2, m1]⟩
    intro it hit
    rcases List.mem_cons.mp hit with rfl | hit
    · exact e2.known _ _ k1
    · exact k2 it hit

end NeoModel.Dbft
