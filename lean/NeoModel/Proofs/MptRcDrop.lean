/-
C11 helper lemmas: what a block that is computed and never committed leaves behind (DESIGN §6 item 11).
-/
import NeoModel.Model.MptRc
import NeoModel.Proofs.MptRcLazy
import NeoModel.Proofs.MptRcRefine
namespace NeoModel.MptRc
open NeoModel.Mpt

/-- what a dropped block leaves behind, exactly: the module goes on as if the block HAD been
committed (same live trie, same refcount map as after that commit) — only the node store, the root
records and the retained heights are those from before the block. -/
theorem dropBlockNoReload_eq_commit_minus_store (H : Bytes → Bytes) (s : St) (idx : Nat) (ops : List SubOp) :
    dropBlockNoReload H s idx ops =
      (commit H s idx ops).map fun c => { c with store := s.store, roots := s.roots, hist := s.hist } := by
  unfold dropBlockNoReload commit
  cases compute H s idx ops with
  | none => rfl
  | some r => obtain ⟨t', m', st'⟩ := r; rfl

/-- … and the phantom state `c` it continues from is a perfectly good one (history invariant: its
store exact for the dropped block's trie, its map clean with every cached count equal to the count
in THAT store), whose store differs from the real one exactly under the hashes the dropped block's
events touched with a non-zero net: there the real record still carries the old flag/count, the
phantom one the dropped block's. Every later oracle failure is a consequence of that difference. -/
theorem drop_phantom (H : Bytes → Bytes) (mode : Mode) (hrc : mode.rc = true) (top : Option Nat) (s : St)
    (idx : Nat) (ops : List SubOp) (hinv : Inv H mode top s) (hh : ∀ h, top = some h → h < idx) :
    ∃ c s', commit H s idx ops = some c ∧ dropBlockNoReload H s idx ops = some s' ∧
      Inv H mode (some idx) c ∧
      s'.root = c.root ∧ s'.rc = c.rc ∧ s'.store = s.store ∧ s'.roots = s.roots ∧ s'.hist = s.hist ∧
      c.root = trieAfter s.root ops ∧
      (∀ k, ctag (sget c.store k) = if net (hP H k) (blockEvs s.root ops) = 0 then ctag (sget s'.store k)
        else tagAfter mode idx (occH H c.root k)) ∧
      (∀ k e, mget s'.rc k = some e → e.delta = 0 ∧ (e.initial ≠ 0 → e.initial = occH H c.root k)) := by
  obtain ⟨c, hc, hinv', hroot, _, _, _, htag⟩ := commit_inv H mode hrc top s idx ops hinv hh
  refine ⟨c, { c with store := s.store, roots := s.roots, hist := s.hist }, hc,
    by rw [dropBlockNoReload_eq_commit_minus_store, hc]; rfl, hinv', rfl, rfl, rfl, rfl, rfl, hroot, ?_, ?_⟩
  · intro k; rw [htag k, hroot]
  · intro k e he
    refine ⟨hinv'.good.zero k e he, fun hne => ?_⟩
    have := hinv'.good.cache k e he hne
    rw [← this]; exact hinv'.exact.count k

/-! ### the rule of the code now: AddMPTBatch + DropMPTBatch -/

theorem twin_refl {H : Bytes → Bytes} {mode : Mode} {top : Option Nat} {s : St} (h : Inv H mode top s) :
    Twin H mode top s s := ⟨h, h, rfl, rfl, rfl, fun _ => rfl⟩

/-- the two post-states of one block run from twin states are twins. -/
theorem twin_after_block {H : Bytes → Bytes} {mode : Mode} {top : Option Nat} {s s2 s1 s3 : St} {idx : Nat}
    {bops : List SubOp} (ht : Twin H mode top s s2)
    (hinv1 : Inv H mode (some idx) s1) (hroot1 : s1.root = trieAfter s.root bops)
    (hhist1 : s1.hist = (idx, trieAfter s.root bops) :: s.hist) (hgc1 : s1.gcAt = s.gcAt)
    (htag1 : ∀ k, ctag (sget s1.store k) = if net (hP H k) (blockEvs s.root bops) = 0 then ctag (sget s.store k)
      else tagAfter mode idx (occH H (trieAfter s.root bops) k))
    (hinv3 : Inv H mode (some idx) s3) (hroot3 : s3.root = trieAfter s2.root bops)
    (hhist3 : s3.hist = (idx, trieAfter s2.root bops) :: s2.hist) (hgc3 : s3.gcAt = s2.gcAt)
    (htag3 : ∀ k, ctag (sget s3.store k) = if net (hP H k) (blockEvs s2.root bops) = 0 then ctag (sget s2.store k)
      else tagAfter mode idx (occH H (trieAfter s2.root bops) k)) :
    Twin H mode (some idx) s1 s3 where
  inv1 := hinv1
  inv2 := hinv3
  root := by rw [hroot1, hroot3, ht.root]
  hist := by rw [hhist1, hhist3, ht.root, ht.hist]
  gcAt := by rw [hgc1, hgc3, ht.gcAt]
  tags := fun k => by rw [htag1 k, htag3 k, ← ht.root, ht.tags k]

/-- two states that differ only in refcount-map caches and record bytes stay so under the SAME
history (blocks with the same loads, collections, restarts, jumps). -/
theorem twin_run_same (H : Bytes → Bytes) (mode : Mode) (hrc : mode.rc = true) (ops : List Op) :
    ∀ (top : Option Nat) (s s2 : St), Twin H mode top s s2 → Heights top ops →
      ∃ r r2 top', runOps H s ops = some r ∧ runOps H s2 ops = some r2 ∧ Twin H mode top' r r2 := by
  induction ops with
  | nil => intro top s s2 ht _; exact ⟨s, s2, top, rfl, rfl, ht⟩
  | cons o r ih =>
    intro top s s2 ht hh
    cases o with
    | block idx bops =>
      simp only [Heights] at hh
      obtain ⟨s1, hc1, hinv1, hroot1, hhist1, hgc1, _, htag1⟩ := commit_inv H mode hrc top s idx bops ht.inv1 hh.1
      obtain ⟨s3, hc3, hinv3, hroot3, hhist3, hgc3, _, htag3⟩ := commit_inv H mode hrc top s2 idx bops ht.inv2 hh.1
      obtain ⟨a, b, top', hr1, hr2, htw'⟩ := ih (some idx) s1 s3
        (twin_after_block ht hinv1 hroot1 hhist1 hgc1 htag1 hinv3 hroot3 hhist3 hgc3 htag3) hh.2
      exact ⟨a, b, top', by simp only [runOps, stepOp, hc1, hr1], by simp only [runOps, stepOp, hc3, hr2], htw'⟩
    | blockL idx bops ld =>
      simp only [Heights] at hh
      obtain ⟨s1, hc1, hinv1, hroot1, hhist1, hgc1, _, htag1⟩ := commitL_inv H mode hrc top s idx bops ld ht.inv1 hh.1
      obtain ⟨s3, hc3, hinv3, hroot3, hhist3, hgc3, _, htag3⟩ := commitL_inv H mode hrc top s2 idx bops ld ht.inv2 hh.1
      obtain ⟨a, b, top', hr1, hr2, htw'⟩ := ih (some idx) s1 s3
        (twin_after_block ht hinv1 hroot1 hhist1 hgc1 htag1 hinv3 hroot3 hhist3 hgc3 htag3) hh.2
      exact ⟨a, b, top', by simp only [runOps, stepOp, hc1, hr1], by simp only [runOps, stepOp, hc3, hr2], htw'⟩
    | gc g =>
      simp only [Heights] at hh
      have htw : Twin H mode top (gcSt s g) (gcSt s2 g) := {
        inv1 := gc_inv H mode top s g ht.inv1
        inv2 := gc_inv H mode top s2 g ht.inv2
        root := ht.root
        hist := ht.hist
        gcAt := by show max s.gcAt g = max s2.gcAt g; rw [ht.gcAt]
        tags := fun k => by
          show ctag (sget (gc g s.store) k) = ctag (sget (gc g s2.store) k)
          rw [ctag_gc g _ ht.inv1.nd, ctag_gc g _ ht.inv2.nd, ht.tags k] }
      obtain ⟨a, b, top', hr1, hr2, htw'⟩ := ih top _ _ htw hh
      exact ⟨a, b, top', by simp only [runOps, stepOp, hr1], by simp only [runOps, stepOp, hr2], htw'⟩
    | reset =>
      simp only [Heights] at hh
      have htw : Twin H mode top (reset s) (reset s2) :=
        ⟨reset_inv H mode top s ht.inv1, reset_inv H mode top s2 ht.inv2, ht.root, ht.hist, ht.gcAt, ht.tags⟩
      obtain ⟨a, b, top', hr1, hr2, htw'⟩ := ih top _ _ htw hh
      exact ⟨a, b, top', by simp only [runOps, stepOp, hr1], by simp only [runOps, stepOp, hr2], htw'⟩
    | jump idx t =>
      simp only [Heights] at hh
      have hm : s.mode = s2.mode := by rw [ht.inv1.mode_eq, ht.inv2.mode_eq]
      have htw : Twin H mode (some idx) (jumpSt H s idx t) (jumpSt H s2 idx t) := {
        inv1 := jump_inv H mode hrc top s ht.inv1 idx t
        inv2 := jump_inv H mode hrc top s2 ht.inv2 idx t
        root := rfl
        hist := rfl
        gcAt := ht.gcAt
        tags := fun k => by show ctag (sget (restoreAll H s.mode [] t) k) = ctag (sget (restoreAll H s2.mode [] t) k); rw [hm] }
      obtain ⟨a, b, top', hr1, hr2, htw'⟩ := ih (some idx) _ _ htw hh
      exact ⟨a, b, top', by simp only [runOps, stepOp, hr1], by simp only [runOps, stepOp, hr2], htw'⟩

/-- a dropped block (AddMPTBatch + DropMPTBatch) leaves no trace: it never panics on a state reached
by a history; the store, the root records, the retained heights, the live trie and the collection
index are those from before; and ANY later history runs from the state after the drop exactly as from
the state before it: same tries at every height, same collection index, and under every hash a
record with the same active flag and count / deactivation height — both final states satisfying the
history invariant (so reads of every retained root return that trie's contents in both). -/
theorem drop_no_trace (H : Bytes → Bytes) (mode : Mode) (hrc : mode.rc = true) (top : Option Nat) (s : St)
    (hinv : Inv H mode top s) (idx : Nat) (ops : List SubOp) (hh : ∀ h, top = some h → h < idx) :
    ∃ s', dropBlock H s idx ops = some s' ∧
      s'.store = s.store ∧ s'.roots = s.roots ∧ s'.hist = s.hist ∧ s'.root = s.root ∧ s'.gcAt = s.gcAt ∧
      s'.rc = [] ∧
      ∀ later, Heights top later →
        ∃ r r' top', runOps H s' later = some r ∧ runOps H s later = some r' ∧
          Inv H mode top' r ∧ Inv H mode top' r' ∧ r.root = r'.root ∧ r.hist = r'.hist ∧ r.gcAt = r'.gcAt ∧
          ∀ k, ctag (sget r.store k) = ctag (sget r'.store k) := by
  obtain ⟨c, hc, _⟩ := commit_inv H mode hrc top s idx ops hinv hh
  have hcomp : ∃ x, compute H s idx ops = some x := by
    simp only [commit] at hc
    cases h : compute H s idx ops with
    | none => simp [h] at hc
    | some x => exact ⟨x, rfl⟩
  obtain ⟨x, hx⟩ := hcomp
  refine ⟨reset s, by simp only [dropBlock, hx], rfl, rfl, rfl, rfl, rfl, rfl, fun later hl => ?_⟩
  have htw : Twin H mode top (reset s) s :=
    ⟨reset_inv H mode top s hinv, hinv, rfl, rfl, rfl, fun _ => rfl⟩
  obtain ⟨r, r', top', h1, h2, t⟩ := twin_run_same H mode hrc later top _ _ htw hl
  exact ⟨r, r', top', h1, h2, t.inv1, t.inv2, t.root, t.hist, t.gcAt, t.tags⟩

end NeoModel.MptRc
