/-
C11 helper lemmas: what a block that is computed and never committed leaves behind (DESIGN §6 item 11).
-/
import NeoModel.Model.MptRc
import NeoModel.Proofs.MptRcLazy
namespace NeoModel.MptRc
open NeoModel.Mpt

/-- what a dropped block leaves behind, exactly: the module goes on as if the block HAD been
committed (same live trie, same refcount map as after that commit) — only the node store, the root
records and the retained heights are those from before the block. -/
theorem dropBlock_eq_commit_minus_store (H : Bytes → Bytes) (s : St) (idx : Nat) (ops : List SubOp) :
    dropBlock H s idx ops =
      (commit H s idx ops).map fun c => { c with store := s.store, roots := s.roots, hist := s.hist } := by
  unfold dropBlock commit
  cases compute H s idx ops with
  | none => rfl
  | some r => obtain ⟨t', m', st'⟩ := r; rfl

/-- … and the phantom state `c` it continues from is a perfectly good one (history invariant: its
store exact for the dropped block's trie, its map clean with every cached count equal to the count
in THAT store), whose store differs from the real one exactly under the hashes the dropped block's
events touched with a non-zero net: there the real record still carries the old flag/count, the
phantom one the dropped block's. Every later oracle failure is a consequence of that difference. -/
theorem drop_phantom (H : Bytes → Bytes) (mode : Mode) (hrc : mode.rc = true) (top : Option Nat) (s : St)
    (idx : Nat) (ops : List SubOp) (hinv : Inv H mode top s) (hh : ∀ h, top = some h → h < idx) :
    ∃ c s', commit H s idx ops = some c ∧ dropBlock H s idx ops = some s' ∧
      Inv H mode (some idx) c ∧
      s'.root = c.root ∧ s'.rc = c.rc ∧ s'.store = s.store ∧ s'.roots = s.roots ∧ s'.hist = s.hist ∧
      c.root = trieAfter s.root ops ∧
      (∀ k, ctag (sget c.store k) = if net (hP H k) (blockEvs s.root ops) = 0 then ctag (sget s'.store k)
        else tagAfter mode idx (occH H c.root k)) ∧
      (∀ k e, mget s'.rc k = some e → e.delta = 0 ∧ (e.initial ≠ 0 → e.initial = occH H c.root k)) := by
  obtain ⟨c, hc, hinv', hroot, _, _, _, htag⟩ := commit_inv H mode hrc top s idx ops hinv hh
  refine ⟨c, { c with store := s.store, roots := s.roots, hist := s.hist }, hc,
    by rw [dropBlock_eq_commit_minus_store, hc]; rfl, hinv', rfl, rfl, rfl, rfl, rfl, hroot, ?_, ?_⟩
  · intro k; rw [htag k, hroot]
  · intro k e he
    refine ⟨hinv'.good.zero k e he, fun hne => ?_⟩
    have := hinv'.good.cache k e he hne
    rw [← this]; exact hinv'.exact.count k

end NeoModel.MptRc
