/- C07 helper lemmas: what the proposer takes from the pool. -/
import NeoModel.Proofs.FeesBlockPool
namespace NeoModel.Pack
open NeoModel NeoModel.Fees NeoModel.Admission
open NeoModel.Generated.FeeConsts
open NeoModel.Wire (varUintSize)

/-- `(tx.Size(), tx.SystemFee)`. -/
def pair (t : Tx) : Nat × Int := (t.size, (t.sysFee : Int))

/-- what the proposer puts into the block: `GetVerifiedTransactions` (pool order), then `ApplyPolicyToTxSet`
(consensus.go:707-731). -/
def pick (cfg : Cfg) (pool : List Tx) : List Tx := pool.take (applyPolicyM cfg (pool.map pair)).length

/-- a configuration in which the uint32 / int64 arithmetic of the loop cannot wrap for admitted transactions. -/
structure Sane (cfg : Cfg) : Prop where
  start : overheadOf cfg.stateRoot cfg.inv cfg.ver + 9 + maxTransactionSize < 2 ^ 32
  blk : cfg.maxBlockSize + maxTransactionSize < 2 ^ 32
  fee0 : 0 ≤ cfg.maxBlockSysFee
  fee : 2 * cfg.maxBlockSysFee < 2 ^ 63

theorem varUintSize_le (n : Nat) : varUintSize n ≤ 9 := by
  unfold varUintSize; repeat' split
  all_goals omega

theorem varUintSize_pos (n : Nat) : 1 ≤ varUintSize n := by
  unfold varUintSize; repeat' split
  all_goals omega

theorem capped_prefix (m : Nat) (l : List α) : capped m l <+: l := by
  unfold capped; split
  · exact List.take_prefix _ _
  · exact List.prefix_refl _

theorem capped_length (m : Nat) (l : List α) (h : m ≠ 0) : (capped m l).length ≤ m := by
  unfold capped; split
  · simp; omega
  · rename_i h'; simp only [not_and, Nat.not_lt] at h'; exact h' h

theorem capped_map (m : Nat) (f : α → β) (l : List α) : capped m (l.map f) = (capped m l).map f := by
  unfold capped; simp only [List.length_map]; split <;> simp [List.map_take]

theorem sizesM_pair (l : List Tx) : sizesM (l.map pair) = (l.map (·.size)).sum := by
  simp [sizesM, pair, List.map_map, Function.comp_def]

theorem feesM_pair (l : List Tx) : feesM (l.map pair) = (((l.map (·.sysFee)).sum : Nat) : Int) := by
  induction l with
  | nil => rfl
  | cons t ts ih =>
    simp only [feesM, pair, List.map_cons, List.sum_cons] at ih ⊢
    rw [ih]; omega

/-- within a sane configuration and on admitted transactions `ApplyPolicyToTxSet` computes with exact integers. -/
theorem applyPolicyM_exact (cfg : Cfg) (hs : Sane cfg) (ps : List (Nat × Int))
    (hb : ∀ t ∈ ps, t.1 ≤ maxTransactionSize ∧ 0 ≤ t.2 ∧ t.2 ≤ cfg.maxBlockSysFee) :
    applyPolicyM cfg ps = packLoopN cfg.maxBlockSize cfg.maxBlockSysFee
      (overheadOf cfg.stateRoot cfg.inv cfg.ver + varUintSize (capped cfg.maxTx ps).length) 0 (capped cfg.maxTx ps) := by
  have h9 := varUintSize_le (capped cfg.maxTx ps).length
  have hst := hs.start
  have hu : u32 (expectedSizeWithoutTx cfg.stateRoot cfg.inv cfg.ver (capped cfg.maxTx ps).length)
      = overheadOf cfg.stateRoot cfg.inv cfg.ver + varUintSize (capped cfg.maxTx ps).length := by
    apply u32_id
    simp only [expectedSizeWithoutTx]
    omega
  simp only [applyPolicyM, hu]
  exact packLoopM_eq cfg _ _ 0 (fun t ht => hb t ((capped_prefix _ _).subset ht)) hs.blk hs.fee (by omega) (by omega) hs.fee0


/-- everything the loop sees is bounded, by admission. -/
theorem pair_bounds (c : Chain) (cfg : Cfg) (hfee : cfg.maxBlockSysFee = c.maxBlockSysFee) (pool : List Tx)
    (hadm : ∀ t ∈ pool, admit c (freePool t) t = none) :
    ∀ q ∈ pool.map pair, q.1 ≤ maxTransactionSize ∧ 0 ≤ q.2 ∧ q.2 ≤ cfg.maxBlockSysFee := by
  intro q hq
  obtain ⟨t, ht, rfl⟩ := List.mem_map.mp hq
  have := admit_bounds c _ t (hadm t ht)
  simp only [pair, hfee]
  omega

/-- the proposer's selection, spelled out: with `k` = its length, it is the first `k` pool transactions,
every non-empty prefix of it is within both limits, and (unless the count limit cut) the next one breaks one. -/
theorem pick_spec (c : Chain) (cfg : Cfg) (hs : Sane cfg) (hfee : cfg.maxBlockSysFee = c.maxBlockSysFee) (pool : List Tx)
    (hadm : ∀ t ∈ pool, admit c (freePool t) t = none) :
    pick cfg pool <+: capped cfg.maxTx pool
    ∧ (∀ j, 0 < j → j ≤ (pick cfg pool).length →
        overheadOf cfg.stateRoot cfg.inv cfg.ver + varUintSize (capped cfg.maxTx pool).length
            + ((pool.take j).map (·.size)).sum ≤ cfg.maxBlockSize
        ∧ ((pool.take j).map (·.sysFee)).sum ≤ c.maxBlockSysFee)
    ∧ ((pick cfg pool).length < (capped cfg.maxTx pool).length →
        ∃ t, pool[(pick cfg pool).length]? = some t ∧
          (overheadOf cfg.stateRoot cfg.inv cfg.ver + varUintSize (capped cfg.maxTx pool).length
              + ((pick cfg pool).map (·.size)).sum + t.size > cfg.maxBlockSize
            ∨ ((pick cfg pool).map (·.sysFee)).sum + t.sysFee > c.maxBlockSysFee)) := by
  have hex := applyPolicyM_exact cfg hs (pool.map pair) (pair_bounds c cfg hfee pool hadm)
  rw [capped_map] at hex
  simp only [List.length_map] at hex
  -- abbreviations
  generalize hS : overheadOf cfg.stateRoot cfg.inv cfg.ver + varUintSize (capped cfg.maxTx pool).length = S at hex ⊢
  have hcp : capped cfg.maxTx pool <+: pool := capped_prefix _ _
  have hpre := packLoopN_prefix cfg.maxBlockSize cfg.maxBlockSysFee ((capped cfg.maxTx pool).map pair) S 0
  rw [← hex] at hpre
  have hlen : (applyPolicyM cfg (pool.map pair)).length ≤ (capped cfg.maxTx pool).length := by
    simpa using hpre.length_le
  have hlen2 : (capped cfg.maxTx pool).length ≤ pool.length := hcp.length_le
  -- pick = the first k of the capped list
  have htk : ∀ j, j ≤ (capped cfg.maxTx pool).length → pool.take j = (capped cfg.maxTx pool).take j := by
    intro j hj
    have hc := List.prefix_iff_eq_take.mp hcp
    conv => rhs; rw [hc, List.take_take]
    rw [Nat.min_eq_left hj]
  have hpk : pick cfg pool = (capped cfg.maxTx pool).take (applyPolicyM cfg (pool.map pair)).length := htk _ hlen
  have hpl : (pick cfg pool).length = (applyPolicyM cfg (pool.map pair)).length := by
    simp only [pick, List.length_take]; omega
  have hmap : (pick cfg pool).map pair = applyPolicyM cfg (pool.map pair) := by
    rw [hpk, List.map_take]
    exact (List.prefix_iff_eq_take.mp hpre).symm
  refine ⟨by rw [hpk]; exact List.take_prefix _ _, ?_, ?_⟩
  · intro j h0 hj
    rw [hpl] at hj
    have := packLoopN_fits cfg.maxBlockSize cfg.maxBlockSysFee ((capped cfg.maxTx pool).map pair) S 0 j h0 (by rw [← hex]; exact hj)
    rw [← List.map_take, sizesM_pair, feesM_pair, ← htk j (by omega)] at this
    omega
  · intro hlt
    rw [hpl] at hlt
    have := packLoopN_maximal cfg.maxBlockSize cfg.maxBlockSysFee ((capped cfg.maxTx pool).map pair) S 0
      (by rw [← hex]; simpa using hlt)
    rw [← hex, ← hmap, sizesM_pair, feesM_pair] at this
    obtain ⟨q, hq, hbr⟩ := this
    simp only [List.length_map, List.getElem?_map, Option.map_eq_some_iff] at hq
    obtain ⟨t, ht, rfl⟩ := hq
    refine ⟨t, ?_, ?_⟩
    · have hc := List.prefix_iff_eq_take.mp hcp
      rw [hc, List.getElem?_take] at ht
      split at ht
      · exact ht
      · contradiction
    · simp only [pair] at hbr
      omega


theorem take_pick_length (cfg : Cfg) (pool : List Tx) : pool.take (pick cfg pool).length = pick cfg pool := by
  simp only [pick, List.length_take, List.take_eq_take_iff]
  omega

/-- the selection goes through the backup's `verifyBlock` and through the transaction loop of `AddBlock`. -/
theorem pick_passes (c : Chain) (bal : Nat × Nat → Nat) (cfg : Cfg) (pool : List Tx) (inMain : Nat → Bool) (inv ver : Bytes)
    (hs : Sane cfg) (hfee : cfg.maxBlockSysFee = c.maxBlockSysFee)
    (hwit : (encodeWitness inv ver).length = (encodeWitness cfg.inv cfg.ver).length)
    (hcons : Consistent c.notary bal pool)
    (hadm : ∀ t ∈ pool, admit c (freePool t) t = none)
    (hne : pick cfg pool ≠ [] ∨ expectedSizeWithoutTx cfg.stateRoot inv ver 0 ≤ cfg.maxBlockSize) :
    verifyBlock c bal inMain cfg.maxBlockSize cfg.stateRoot inv ver (pick cfg pool) = none
    ∧ ledgerLoop c bal inMain 0 [] (pick cfg pool) = none := by
  obtain ⟨hpre, hfit, _⟩ := pick_spec c cfg hs hfee pool hadm
  have hpp : pick cfg pool <+: pool := List.take_prefix _ _
  obtain ⟨rest, hrest⟩ := hpp
  have hc2 : Consistent c.notary bal ([] ++ pick cfg pool) := by
    simp only [List.nil_append]
    exact consistent_prefix (b := rest) (by rw [hrest]; exact hcons)
  have ha2 : ∀ t ∈ pick cfg pool, admit c (freePool t) t = none := fun t ht => hadm t (by rw [← hrest]; simp [ht])
  have hov : overheadOf cfg.stateRoot inv ver = overheadOf cfg.stateRoot cfg.inv cfg.ver := by
    simp only [overheadOf, hwit]
  refine ⟨?_, ledgerLoop_consistent c bal inMain _ [] 0 hc2 ha2⟩
  have hsize : ¬ expectedBlockSize cfg.stateRoot inv ver ((pick cfg pool).map (·.size)) > cfg.maxBlockSize
      ∧ ¬ ((pick cfg pool).map (·.sysFee)).sum > c.maxBlockSysFee := by
    by_cases hnil : pick cfg pool = []
    · rw [hnil]
      rcases hne with h | h
      · exact absurd hnil h
      · simp only [expectedBlockSize, List.map_nil, List.length_nil, List.sum_nil]
        omega
    · have hpos : 0 < (pick cfg pool).length := List.length_pos_iff.mpr hnil
      have := hfit (pick cfg pool).length hpos (Nat.le_refl _)
      rw [take_pick_length] at this
      have hm := NeoModel.Admission.varUintSize_mono hpre.length_le
      simp only [expectedBlockSize, expectedSizeWithoutTx, List.length_map, hov]
      omega
  simp only [verifyBlock, hsize.1, hsize.2, if_false, backupLoop_consistent c bal inMain _ [] 0 hc2 ha2]

end NeoModel.Pack
