/-
C11 helper lemmas: a state-sync restore (billet.go) leaves an exact store.
-/
import NeoModel.Model.MptRc
import NeoModel.Proofs.MptRcExact
set_option linter.unusedSimpArgs false
namespace NeoModel.MptRc
open NeoModel.Mpt

theorem countP_flatMap' {α β} (p : β → Bool) (f : α → List β) (l : List α) :
    (l.flatMap f).countP p = (l.map fun a => (f a).countP p).sum := by
  induction l with
  | nil => rfl
  | cons a l ih => simp only [List.flatMap_cons, List.countP_append, ih, List.map_cons, List.sum_cons]

/-- `occ` counts the positions. -/
theorem occ_positions (P : Node → Bool) (t : Node) : occ P t = (positions t).countP P := by
  induction t with
  | empty => rfl
  | leaf v => simp [occ, positions, b2n, List.countP_cons]
  | ext k n ih =>
    simp only [occ, positions, List.countP_cons, ih, b2n, List.countP_nil]
    split <;> omega
  | branch cs v ih =>
    simp only [occ, positions, List.countP_cons, List.countP_append, countP_flatMap', b2n]
    have : ((List.finRange 16).map fun i => occ P (cs i)) = (List.finRange 16).map fun a => (positions (cs a)).countP P := by
      apply List.map_congr_left; intro i _; exact ih i
    rw [this]
    cases v with
    | none => simp [occSlot]; split <;> omega
    | some w => simp [occSlot, b2n, List.countP_cons]; split <;> split <;> omega

/-- all records are active counted records with positive count whose bytes hash to the key. -/
def AllAct (H : Bytes → Bytes) (s : Store) : Prop :=
  ∀ h c, sget s h = some c → ∃ b n, c = .rc b true n ∧ 0 < n ∧ H b = h

theorem incrRef_spec (H : Bytes → Bytes) (mode : Mode) (hrc : mode.rc = true) (s : Store) (n : Node)
    (ha : AllAct H s) :
    AllAct H (incrRef H mode s n) ∧
    ∀ h, activeCnt (incrRef H mode s n) h = activeCnt s h + (if hP H h n then 1 else 0) := by
  simp only [incrRef, hrc, if_true]
  cases hs : sget s (hash H n) with
  | none =>
    constructor
    · intro h c hc
      rw [sget_sput] at hc
      by_cases hh : h = hash H n
      · subst hh
        simp only [if_true, Option.some.injEq] at hc
        exact ⟨enc H n, 1, hc.symm, by omega, rfl⟩
      · rw [if_neg hh] at hc; exact ha h c hc
    · intro h
      simp only [activeCnt, sget_sput, hP]
      by_cases hh : h = hash H n
      · subst hh; simp [hs, actC]
      · have : (hash H n == h) = false := by simpa using fun e => hh e.symm
        simp [hh, this]
  | some c0 =>
    obtain ⟨b, k, rfl, hk, hb⟩ := ha _ _ hs
    constructor
    · intro h c hc
      rw [sget_sput] at hc
      by_cases hh : h = hash H n
      · subst hh
        simp only [if_true, Option.some.injEq] at hc
        exact ⟨b, k + 1, hc.symm, by omega, hb⟩
      · rw [if_neg hh] at hc; exact ha h c hc
    · intro h
      simp only [activeCnt, sget_sput, hP]
      by_cases hh : h = hash H n
      · subst hh; simp [hs, actC]
      · have : (hash H n == h) = false := by simpa using fun e => hh e.symm
        simp [hh, this]

theorem restore_fold (H : Bytes → Bytes) (mode : Mode) (hrc : mode.rc = true) (l : List Node) : ∀ (s : Store),
    AllAct H s →
    AllAct H (l.foldl (incrRef H mode) s) ∧
    ∀ h, activeCnt (l.foldl (incrRef H mode) s) h = activeCnt s h + l.countP (hP H h) := by
  induction l with
  | nil => intro s ha; exact ⟨ha, fun h => by simp⟩
  | cons n l ih =>
    intro s ha
    obtain ⟨ha1, hc1⟩ := incrRef_spec H mode hrc s n ha
    obtain ⟨ha2, hc2⟩ := ih _ ha1
    refine ⟨ha2, fun h => ?_⟩
    rw [List.foldl_cons, hc2 h, hc1 h, List.countP_cons]
    split <;> omega

/-- billet.go: restoring every position of `t` once into an empty store leaves the store exact for
`t` (count = occurrences, all records active, bytes hash to the key). -/
theorem restore_exact_store (H : Bytes → Bytes) (mode : Mode) (hrc : mode.rc = true) (t : Node) :
    Exact H mode (restoreAll H mode [] t) t := by
  obtain ⟨ha, hc⟩ := restore_fold H mode hrc (positions t) [] (fun h c hc => by simp [sget] at hc)
  refine ⟨fun h => ?_, fun h c hs => ?_, fun h c hs => ?_⟩
  · rw [restoreAll, hc h, occH, occ_positions]
    simp [activeCnt, sget, actC]
  · obtain ⟨b, n, rfl, hn, _⟩ := ha h c hs
    exact hn
  · obtain ⟨b, n, rfl, _, hb⟩ := ha h c hs
    exact hb

end NeoModel.MptRc
