/-
C09 helper lemmas: Go maps as association lists with distinct keys.
-/
import NeoModel.Proofs.StoreOrder
set_option linter.unusedSimpArgs false
namespace NeoModel.Store

theorem mapGet_nil (k : Key) : mapGet [] k = none := rfl

theorem mapGet_cons (e : Key × Option Val) (m : GoMap) (q : Key) :
    mapGet (e :: m) q = if q = e.1 then some e.2 else mapGet m q := by
  obtain ⟨a, b⟩ := e
  simp only [mapGet, List.lookup]
  by_cases h : q = a
  · subst h; simp
  · have : (q == a) = false := by simpa using h
    simp [this, h]

theorem mapGet_filter_ne (m : GoMap) (k q : Key) :
    mapGet (m.filter (fun e => e.1 != k)) q = if q = k then none else mapGet m q := by
  induction m with
  | nil => simp [mapGet_nil]
  | cons e m ih =>
    by_cases he : e.1 = k
    · have : (e.1 != k) = false := by simp [he]
      rw [List.filter_cons_of_neg (by simp [this])]
      rw [ih, mapGet_cons]
      by_cases hq : q = k
      · simp [hq]
      · simp [hq, he]
    · have : (e.1 != k) = true := by simp [he]
      rw [List.filter_cons_of_pos (by simp [this])]
      rw [mapGet_cons, mapGet_cons, ih]
      by_cases hq : q = k
      · subst hq
        have : ¬ q = e.1 := fun h => he h.symm
        simp [this]
      · simp [hq]

theorem mapGet_set (m : GoMap) (k : Key) (v : Option Val) (q : Key) :
    mapGet (mapSet m k v) q = if q = k then some v else mapGet m q := by
  unfold mapSet
  rw [mapGet_cons, mapGet_filter_ne]
  by_cases h : q = k <;> simp [h]

theorem mapGet_del (m : GoMap) (k q : Key) :
    mapGet (mapDel m k) q = if q = k then none else mapGet m q := mapGet_filter_ne m k q

theorem mapGet_none_iff (m : GoMap) (k : Key) : mapGet m k = none ↔ k ∉ m.map Prod.fst := by
  induction m with
  | nil => simp [mapGet_nil]
  | cons e m ih =>
    rw [mapGet_cons]
    by_cases h : k = e.1
    · simp [h]
    · simp [h, ih]

theorem keys_filter_sub (m : GoMap) (p : Key × Option Val → Bool) (k : Key)
    (h : k ∈ (m.filter p).map Prod.fst) : k ∈ m.map Prod.fst := by
  simp only [List.mem_map, List.mem_filter] at *
  obtain ⟨e, ⟨he, _⟩, rfl⟩ := h
  exact ⟨e, he, rfl⟩

theorem MapWF_filter (m : GoMap) (p : Key × Option Val → Bool) (h : MapWF m) : MapWF (m.filter p) := by
  unfold MapWF at *
  induction m with
  | nil => simp
  | cons e m ih =>
    simp only [List.map_cons, List.nodup_cons] at h
    by_cases hp : p e = true
    · rw [List.filter_cons_of_pos hp]
      simp only [List.map_cons, List.nodup_cons]
      exact ⟨fun hin => h.1 (keys_filter_sub m p _ hin), ih h.2⟩
    · rw [List.filter_cons_of_neg hp]; exact ih h.2

theorem MapWF_set (m : GoMap) (k : Key) (v : Option Val) (h : MapWF m) : MapWF (mapSet m k v) := by
  unfold mapSet MapWF
  simp only [List.map_cons, List.nodup_cons]
  refine ⟨?_, MapWF_filter m _ h⟩
  intro hin
  simp only [List.mem_map, List.mem_filter] at hin
  obtain ⟨e, ⟨_, hne⟩, he⟩ := hin
  simp [he] at hne

theorem MapWF_del (m : GoMap) (k : Key) (h : MapWF m) : MapWF (mapDel m k) := MapWF_filter m _ h

theorem MapWF_nil : MapWF [] := by simp [MapWF]

theorem mem_iff_mapGet (m : GoMap) (h : MapWF m) (k : Key) (v : Option Val) :
    (k, v) ∈ m ↔ mapGet m k = some v := by
  induction m with
  | nil => simp [mapGet_nil]
  | cons e m ih =>
    unfold MapWF at h
    simp only [List.map_cons, List.nodup_cons] at h
    rw [mapGet_cons, List.mem_cons]
    by_cases hk : k = e.1
    · subst hk
      simp only [if_true, Option.some.injEq]
      constructor
      · rintro (h1 | h1)
        · rw [← h1]
        · exact absurd (List.mem_map.mpr ⟨_, h1, rfl⟩) h.1
      · intro h1; left; rw [← h1]
    · simp only [hk, if_false]
      rw [← ih h.2]
      constructor
      · rintro (h1 | h1)
        · rw [← h1] at hk; simp at hk
        · exact h1
      · exact Or.inr

/-- `maps.Copy`: the source wins. -/
theorem mapGet_copy (dst src : GoMap) (hs : MapWF src) (q : Key) :
    mapGet (mapCopy dst src) q = match mapGet src q with | some v => some v | none => mapGet dst q := by
  unfold mapCopy
  induction src generalizing dst with
  | nil => simp [mapGet_nil]
  | cons e src ih =>
    unfold MapWF at hs
    simp only [List.map_cons, List.nodup_cons] at hs
    rw [List.foldl_cons, ih _ hs.2, mapGet_cons]
    by_cases hq : q = e.1
    · rw [hq]
      have : mapGet src e.1 = none := (mapGet_none_iff src e.1).mpr hs.1
      simp [this, mapGet_set]
    · simp only [hq, if_false]
      cases mapGet src q with
      | some v => rfl
      | none => simp [mapGet_set, hq]

theorem MapWF_copy (dst src : GoMap) (h : MapWF dst) : MapWF (mapCopy dst src) := by
  unfold mapCopy
  induction src generalizing dst with
  | nil => exact h
  | cons e src ih => rw [List.foldl_cons]; exact ih _ (MapWF_set dst _ _ h)

/-- the error branch's fill: the destination's values win, the source supplies the rest. -/
theorem mapGet_fill (dst src : GoMap) (q : Key) :
    mapGet (mapFill dst src) q = match mapGet dst q with | some v => some v | none => mapGet src q := by
  unfold mapFill
  induction src generalizing dst with
  | nil => simp [mapGet_nil]; cases mapGet dst q <;> rfl
  | cons e src ih =>
    rw [List.foldl_cons, ih, mapGet_cons]
    cases hd : mapGet dst e.1 with
    | none =>
      simp only [mapGet_set]
      by_cases hq : q = e.1
      · subst hq; simp [hd]
      · simp only [hq, if_false]
    | some x =>
      simp only []
      by_cases hq : q = e.1
      · subst hq; simp [hd]
      · simp only [hq, if_false]

theorem MapWF_fill (dst src : GoMap) (h : MapWF dst) : MapWF (mapFill dst src) := by
  unfold mapFill
  induction src generalizing dst with
  | nil => exact h
  | cons e src ih =>
    rw [List.foldl_cons]
    apply ih
    cases mapGet dst e.1 with
    | none => exact MapWF_set dst e.1 e.2 h
    | some x => exact h

theorem mem_mapFill {dst src : GoMap} {e : Key × Option Val} (h : e ∈ mapFill dst src) : e ∈ dst ∨ e ∈ src := by
  unfold mapFill at h
  induction src generalizing dst with
  | nil => exact Or.inl h
  | cons a src ih =>
    rw [List.foldl_cons] at h
    rcases ih h with h1 | h1
    · cases hg : mapGet dst a.1 with
      | none =>
        rw [hg] at h1
        simp only [mapSet, List.mem_cons, List.mem_filter] at h1
        rcases h1 with h2 | h2
        · right; rw [h2]; exact List.mem_cons_self
        · exact Or.inl h2.1
      | some x => rw [hg] at h1; exact Or.inl h1
    · exact Or.inr (List.mem_cons_of_mem _ h1)

end NeoModel.Store
