/-
C12 proofs, part 5g: VALUES (vm.go:1748-1782, cpValues 2229-2248) for containers without Struct
children (no cloning): the popped reference's count is handed over to the new array.
-/
import NeoModel.Proofs.VmAcctExecD
namespace NeoModel.VmAcct

variable {rest : Nat → Nat} {n : Nat}

/-- the counter is only ever moved by `Add`: a shift of `refs` commutes with it -/
theorem addW_refs_shift (w : List Item) (c : Ctr) (d : Int) :
    addW w { c with refs := c.refs + d } = { (addW w c) with refs := (addW w c).refs + d } := by
  fun_induction addW w c with
  | case1 c => simp [addW]
  | case2 x w c hx ih =>
    rw [addW]; simp only [hx]
    have : ({ heap := c.heap, refs := c.refs + d + 1 } : Ctr) = { ({ heap := c.heap, refs := c.refs + 1 } : Ctr) with refs := (c.refs + 1) + d } := by
      simp; omega
    rw [this]; exact ih
  | case3 x w c id hx hz hl ih =>
    rw [addW]; simp only [hx, hz, hl, if_true]
    have : ({ heap := incRC c.heap id, refs := c.refs + d + 1 } : Ctr) = { ({ heap := incRC c.heap id, refs := c.refs + 1 } : Ctr) with refs := (c.refs + 1) + d } := by
      simp; omega
    rw [this]; exact ih
  | case4 x w c id hx hz hl ih =>
    rw [addW]; simp only [hx, hz, hl, if_true, if_false]
    have : ({ heap := incRC c.heap id, refs := c.refs + d + 1 } : Ctr) = { ({ heap := incRC c.heap id, refs := c.refs + 1 } : Ctr) with refs := (c.refs + 1) + d } := by
      simp; omega
    rw [this]; exact ih
  | case5 x w c id hx hnz ih =>
    rw [addW]; simp only [hx, hnz, if_false]
    have : ({ heap := incRC c.heap id, refs := c.refs + d + 1 } : Ctr) = { ({ heap := incRC c.heap id, refs := c.refs + 1 } : Ctr) with refs := (c.refs + 1) + d } := by
      simp; omega
    rw [this]; exact ih

/-- adding the items of a list one after the other -/
def addSeq (c : Ctr) : List Item → Ctr
  | [] => c
  | x :: xs => addSeq (c.add x) xs

theorem addSeq_refs_shift (xs : List Item) : ∀ (c : Ctr) (d : Int),
    addSeq { c with refs := c.refs + d } xs = { (addSeq c xs) with refs := (addSeq c xs).refs + d } := by
  induction xs with
  | nil => intro c d; rfl
  | cons x t ih =>
    intro c d
    simp only [addSeq, Ctr.add]
    rw [addW_refs_shift [x] c d]
    exact ih _ d

theorem inv_addSeq (xs : List Item) : ∀ {c : Ctr} {f : Nat → Nat} {m : Nat}, (∀ x ∈ xs, WfItem c.heap x) → InvC c f m →
    InvC (addSeq c xs) (fun j => f j + cnt j xs) (m + xs.length) ∧ (addSeq c xs).heap.length = c.heap.length := by
  induction xs with
  | nil => intro c f m _ inv; exact ⟨inv.congr (by intro j; simp) (by simp), rfl⟩
  | cons x t ih =>
    intro c f m hv inv
    obtain ⟨i1, ss⟩ := inv_add x (hv x (List.mem_cons_self ..)) inv
    obtain ⟨i2, l2⟩ := ih (c := c.add x) (fun y hy => wfItem_of_len (hv y (List.mem_cons_of_mem _ hy)) (by rw [ss.1]; exact Nat.le_refl _)) i1
    refine ⟨i2.congr (by intro j; simp only [cnt_cons, cnt_nil]; omega) (by simp only [List.length_cons]; omega), ?_⟩
    simp only [addSeq]; rw [l2, ss.1]

/-- cpValues without Struct children -/
theorem cpValues_noclone : ∀ (xs : List Item) (isRef : Bool) (w : W), (∀ x ∈ xs, ∀ id, x ≠ .str id) →
    cpValues xs isRef w = some (xs, if isRef then { w with c := addSeq w.c xs } else w) := by
  intro xs
  induction xs with
  | nil => intro isRef w _; cases isRef <;> rfl
  | cons x t ih =>
    intro isRef w hns
    have hx := cloneIfStruct_of_not_str w x (hns x (List.mem_cons_self ..))
    have ht : ∀ y ∈ t, ∀ id, y ≠ .str id := fun y hy => hns y (List.mem_cons_of_mem _ hy)
    cases isRef with
    | true =>
      simp only [cpValues, hx]
      rw [ih true _ ht]
      simp [addSeq]
    | false =>
      simp only [cpValues, hx, Bool.false_eq_true, if_false]
      rw [ih false _ ht]
      simp

end NeoModel.VmAcct

namespace NeoModel.VmAcct

variable {rest : Nat → Nat} {n : Nat}

theorem cnt_evens_odds (j : Nat) : ∀ (xs : List Item), cnt j xs = cnt j (evens xs) + cnt j (odds xs) ∧
    xs.length = (evens xs).length + (odds xs).length ∧ (xs.length % 2 = 0 → xs.length / 2 = (evens xs).length) := by
  intro xs
  induction xs using evens.induct with
  | case1 => simp [evens, odds]
  | case2 k => simp [evens, odds]
  | case3 k v r ih =>
    obtain ⟨h1, h2, h3⟩ := ih
    simp only [evens, odds, cnt_cons, List.length_cons]
    refine ⟨by omega, by omega, fun he => ?_⟩
    have := h3 (by omega)
    omega

theorem odds_mem : ∀ (xs : List Item) (x : Item), x ∈ odds xs → x ∈ xs := by
  intro xs
  induction xs using odds.induct with
  | case1 => intro x hx; cases hx
  | case2 k => intro x hx; cases hx
  | case3 k v r ih =>
    intro x hx
    simp only [odds, List.mem_cons] at hx
    rcases hx with rfl | hx
    · simp
    · have := ih x hx; simp [this]

/-- VALUES, the container stays referenced after `DecRC`: its (copied) children are added, the
reference in hand hands its count over to the new array over `xs` -/
theorem values_ref {c : Ctr} {f : Nat → Nat} {m : Nat} (item : Item) (id : Nat) (he : item.cid = some id)
    (inv : InvC c (fun j => f j + cnt j [item]) (m + 1)) (xs : List Item) (hmem : ∀ x ∈ xs, x ∈ chOf c.heap id)
    (hr : rcOf (decRC c.heap id) id ≠ 0) :
    InvC { heap := (addSeq { heap := decRC c.heap id, refs := c.refs } xs).heap ++ [{ rc := 1, ch := xs }],
           refs := (addSeq { heap := decRC c.heap id, refs := c.refs } xs).refs }
      (fun j => f j + (if j = (addSeq { heap := decRC c.heap id, refs := c.refs } xs).heap.length then 1 else 0)) (m + 1) := by
  have i2 := (inv_decRC_direct item id he inv).1 hr
  have hvalid : ∀ x ∈ xs, WfItem (decRC c.heap id) x := by
    intro x hx d hd'
    simpa using inv.wf id x d (hmem x hx) hd'
  obtain ⟨i3, _⟩ := inv_addSeq xs (c := { heap := decRC c.heap id, refs := c.refs - 1 }) hvalid i2
  have i4 := inv_alloc1 xs i3
  have hshift := addSeq_refs_shift xs { heap := decRC c.heap id, refs := c.refs - 1 } 1
  have hc : ({ heap := decRC c.heap id, refs := c.refs - 1 + 1 } : Ctr) = { heap := decRC c.heap id, refs := c.refs } := by simp
  simp only [hc] at hshift
  rw [hshift]
  exact i4

/-- VALUES, the container is no longer referenced after `DecRC`: its children `xs` simply move into
the new array, `ndrop` primitive children (a map's keys) are discounted -/
theorem values_unref {c : Ctr} {f : Nat → Nat} {m : Nat} (item : Item) (id : Nat) (he : item.cid = some id)
    (inv : InvC c (fun j => f j + cnt j [item]) (m + 1)) (xs : List Item) (ndrop : Nat)
    (hxs : ∀ j, cnt j (chOf c.heap id) = cnt j xs) (hlen : (chOf c.heap id).length = xs.length + ndrop)
    (hr : rcOf (decRC c.heap id) id = 0) :
    InvC { heap := decRC c.heap id ++ [{ rc := 1, ch := xs }], refs := c.refs - ndrop }
      (fun j => f j + (if j = (decRC c.heap id).length then 1 else 0)) (m + 1) := by
  have i2 := (inv_decRC_direct item id he inv).2 hr
  have i3 : InvC ({ heap := decRC c.heap id, refs := c.refs - 1 - ndrop } : Ctr) (fun j => f j + cnt j xs) (m + xs.length) := by
    refine ⟨i2.wf, fun j => ?_, ?_⟩
    · have := i2.rc j; have := hxs j; dsimp only at *; omega
    · have := i2.refs; dsimp only at *; push_cast at *; omega
  have i4 := inv_alloc1 xs i3
  refine ⟨i4.wf, i4.rc, ?_⟩
  have := i4.refs
  dsimp only at this ⊢
  push_cast at this ⊢; omega

theorem cnt_arr_singleton (a j : Nat) : cnt j [Item.arr a] = if j = a then 1 else 0 := by
  simpa [Kind.mk] using cnt_mk Kind.arr a j

theorem values_inv {w w' : W} (inv : InvW w rest n)
    (hns : ∀ x r id, w.st = x :: r → x.cid = some id → ∀ y ∈ chOf w.c.heap id, ∀ k, y ≠ .str k)
    (hmap : ∀ id r, w.st = .map id :: r → (chOf w.c.heap id).length % 2 = 0 ∧ ∀ x ∈ evens (chOf w.c.heap id), x.cid = none)
    (h : execS .values w = some (.ok w')) : InvW w' rest n := by
  simp only [execS] at h
  cases hp : w.popNoRef with
  | none => simp [hp] at h
  | some r =>
    obtain ⟨item, w1⟩ := r
    simp only [hp] at h
    obtain ⟨i1, hc1, hst1⟩ := popNoRef_inv inv hp
    have i1' : InvC w1.c (fun j => (cnt j w1.st + rest j) + cnt j [item]) ((w1.st.length + n) + 1) :=
      i1.congr (by intro j; simp only []; omega) (by omega)
    have hchw : ∀ id, chOf w1.c.heap id = chOf w.c.heap id := by intro id; rw [hc1]
    -- turning the result of values_ref / values_unref into the invariant of the final working pair
    have fin : ∀ (c4 : Ctr) (a : Nat),
        InvC c4 (fun j => (cnt j w1.st + rest j) + (if j = a then 1 else 0)) ((w1.st.length + n) + 1) →
        InvW ({ c := c4, st := Item.arr a :: w1.st } : W) rest n := by
      intro c4 a i
      refine i.congr ?_ ?_
      · intro j; have := cnt_arr_singleton a j; simp only [cnt_cons, cnt_nil] at this ⊢; omega
      · simp only [List.length_cons]; omega
    have seqCase : ∀ id, item.cid = some id → (∀ y ∈ chOf w1.c.heap id, ∀ k, y ≠ .str k) →
        (match cpValues (chOf (w1.setHeap (decRC w1.c.heap id)).c.heap id) (decide (rcOf (w1.setHeap (decRC w1.c.heap id)).c.heap id ≠ 0))
            (w1.setHeap (decRC w1.c.heap id)) with
          | none => none
          | some (arr, w) => okW (((w.alloc { rc := 1, ch := arr }).2).pushNoRef (.arr (w.alloc { rc := 1, ch := arr }).1))) = some (Outcome.ok w') →
        InvW w' rest n := by
      intro id hcid hnoclone h
      have hch : chOf (w1.setHeap (decRC w1.c.heap id)).c.heap id = chOf w1.c.heap id := by simp [W.setHeap]
      rw [hch, cpValues_noclone _ _ _ hnoclone] at h
      simp only [okW, W.alloc, W.setHeap, W.pushNoRef, Option.some.injEq, Outcome.ok.injEq] at h
      rw [← h]
      by_cases hr : rcOf (decRC w1.c.heap id) id = 0
      · simp only [hr, ne_eq, not_true_eq_false, decide_false, Bool.false_eq_true, if_false]
        have i4 := values_unref item id hcid i1' (chOf w1.c.heap id) 0 (fun _ => rfl) (by simp) hr
        apply fin
        refine ⟨i4.wf, i4.rc, ?_⟩
        have := i4.refs
        dsimp only at this ⊢; push_cast at this ⊢; omega
      · simp only [ne_eq, hr, not_false_eq_true, decide_true, if_true]
        exact fin _ _ (values_ref item id hcid i1' (chOf w1.c.heap id) (fun x hx => hx) hr)
    cases item with
    | prim => simp at h
    | arr id => exact seqCase id rfl (by rw [hchw]; exact hns _ _ id hst1 rfl) h
    | str id => exact seqCase id rfl (by rw [hchw]; exact hns _ _ id hst1 rfl) h
    | map id =>
      simp only at h
      obtain ⟨hev, hkeys⟩ := hmap id w1.st hst1
      rw [← hchw] at hev hkeys
      have hnoclone : ∀ y ∈ odds (chOf w1.c.heap id), ∀ k, y ≠ .str k := by
        intro y hy; have := hns _ _ id hst1 rfl; rw [← hchw] at this; exact this y (odds_mem _ y hy)
      have hch : chOf (w1.setHeap (decRC w1.c.heap id)).c.heap id = chOf w1.c.heap id := by simp [W.setHeap]
      have eo := fun j => cnt_evens_odds j (chOf w1.c.heap id)
      have hkl : (chOf w1.c.heap id).length / 2 = (evens (chOf w1.c.heap id)).length := (eo 0).2.2 hev
      simp only [hch] at h
      by_cases hr : rcOf (decRC w1.c.heap id) id = 0
      · simp only [W.setHeap, hr, ne_eq, not_true_eq_false, decide_false, Bool.false_eq_true, if_false, W.addRefs] at h
        rw [cpValues_noclone _ _ _ hnoclone] at h
        simp only [Bool.false_eq_true, if_false, okW, W.alloc, W.setHeap, W.pushNoRef, Option.some.injEq, Outcome.ok.injEq] at h
        rw [← h]
        have i4 := values_unref (.map id) id rfl i1' (odds (chOf w1.c.heap id)) (evens (chOf w1.c.heap id)).length
          (fun j => by have := (eo j).1; rw [cnt_of_prims j _ hkeys] at this; omega) (by have := (eo 0).2.1; omega) hr
        apply fin
        refine ⟨i4.wf, i4.rc, ?_⟩
        have := i4.refs
        simp only [hkl, Int.ofNat_eq_natCast] at this ⊢
        push_cast at this ⊢; omega
      · simp only [W.setHeap, ne_eq, hr, not_false_eq_true, decide_true, if_true] at h
        rw [cpValues_noclone _ _ _ hnoclone] at h
        simp only [if_true, okW, W.alloc, W.setHeap, W.pushNoRef, Option.some.injEq, Outcome.ok.injEq] at h
        rw [← h]
        exact fin _ _ (values_ref (.map id) id rfl i1' (odds (chOf w1.c.heap id)) (fun x hx => odds_mem _ x hx) hr)

end NeoModel.VmAcct
