/-
Helper lemmas for C18 / multi-signature matching (sequential greedy matcher vs matchings).
-/
import NeoModel.Model.Codec.Multisig
namespace NeoModel.Codec
variable {Sig Key : Type}

/-- the signatures are verified, one to one and in this order, by the keys of the list. -/
def pairwiseOk (ok : Sig → Key → Bool) : List Sig → List Key → Prop
  | [], [] => True
  | s :: ss, k :: ks => ok s k = true ∧ pairwiseOk ok ss ks
  | _, _ => False

theorem seqMatch_of_matching (ok : Sig → Key → Bool) (keys : List Key) :
    ∀ (sigs : List Sig) (ks' : List Key), ks'.Sublist keys → pairwiseOk ok sigs ks' → seqMatch ok sigs keys = true := by
  induction keys with
  | nil =>
    intro sigs ks' hsub hp
    have : ks' = [] := List.sublist_nil.mp hsub
    subst this
    cases sigs with
    | nil => simp [seqMatch]
    | cons s ss => simp [pairwiseOk] at hp
  | cons k ks ih =>
    intro sigs ks' hsub hp
    cases sigs with
    | nil => simp [seqMatch]
    | cons s ss =>
      cases ks' with
      | nil => simp [pairwiseOk] at hp
      | cons k' ks'' =>
        simp only [pairwiseOk] at hp
        simp only [seqMatch]
        split
        · -- ok s k: continue with ss ks
          have hsub' : ks''.Sublist ks := by
            cases hsub with
            | cons _ h => exact (List.sublist_cons_self k' ks'').trans h
            | cons_cons _ h => exact h
          exact ih ss ks'' hsub' hp.2
        · rename_i hnok
          have hsub' : (k' :: ks'').Sublist ks := by
            cases hsub with
            | cons _ h => exact h
            | cons_cons _ h => exact absurd hp.1 hnok
          exact ih (s :: ss) (k' :: ks'') hsub' (by simp only [pairwiseOk]; exact hp)

theorem matching_of_seqMatch (ok : Sig → Key → Bool) (keys : List Key) :
    ∀ (sigs : List Sig), seqMatch ok sigs keys = true → ∃ ks', ks'.Sublist keys ∧ pairwiseOk ok sigs ks' := by
  induction keys with
  | nil =>
    intro sigs h
    cases sigs with
    | nil => exact ⟨[], List.Sublist.slnil, trivial⟩
    | cons s ss => simp [seqMatch] at h
  | cons k ks ih =>
    intro sigs h
    cases sigs with
    | nil => exact ⟨[], List.nil_sublist _, trivial⟩
    | cons s ss =>
      simp only [seqMatch] at h
      split at h
      · rename_i hok
        obtain ⟨ks', hs, hp⟩ := ih ss h
        exact ⟨k :: ks', hs.cons_cons k, by simp only [pairwiseOk]; exact ⟨hok, hp⟩⟩
      · obtain ⟨ks', hs, hp⟩ := ih (s :: ss) h
        exact ⟨ks', hs.cons k, hp⟩

end NeoModel.Codec
