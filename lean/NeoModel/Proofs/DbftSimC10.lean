/- C19 simulation, part C10: onChangeView, onPrepareResponse, onCommit. -/
import NeoModel.Proofs.DbftSimC9
namespace NeoModel.Dbft.Mach
open NeoModel.Dbft

theorem prog_foldk {e : Env} {i : Nat} {k : W → Pl → W} (hk : KOK e i k) {α : Type} (f : α → Pl) (l : List α) :
    ∀ (as : State) (w : W), Good e as i w → (∀ a ∈ l, Claims e as (f a)) →
      Prog e i as (l.foldl (fun w a => k w (f a)) w) := by
  induction l with
  | nil => intro as w h _; exact Prog.of_good h
  | cons a t ih =>
    intro as w h hc
    simp only [List.foldl_cons]
    obtain ⟨as1, x1, g1⟩ := hk as w (f a) h (hc a (by simp))
    obtain ⟨as2, x2, g2⟩ := ih as1 _ g1 (fun b hb => (hc b (by simp [hb])).ext x1)
    exact ⟨as2, x1.trans x2, g2⟩

/-- dbft.go:525-554 on the machine -/
theorem prog_onChangeView {e : Env} {as : State} {i : Nat} {k : W → Pl → W} {w : W} (hk : KOK e i k)
    (h : Good e as i w) (hbp : w.nd.blockProcessed = false) (x : Hd) (r : Nat) (hx : x.frm < e.n) (hxh : x.h = w.nd.bi)
    (hc : Claims e as (.cv x r)) : Prog e i as (onChangeView k e w (.cv x r)) := by
  unfold onChangeView
  have hhd : (Pl.cv x r).hd = x := rfl
  simp only [hhd]
  by_cases hle : x.v + 1 ≤ w.nd.view
  · rw [if_pos hle]; exact Prog.of_good (good_onRecoveryRequest h x)
  rw [if_neg hle]
  by_cases hcs : w.nd.commitSent = true
  · rw [if_pos hcs]; exact Prog.of_good (good_sendRecoveryMessage h)
  rw [if_neg hcs]
  have hnc : w.nd.commitSent = false := by simpa using hcs
  cases hs : slot w.nd.cv x.frm with
  | none => exact prog_checkChangeView hk (good_set_cv h x.frm x r hx rfl hxh hc) hbp hnc _
  | some m =>
    simp only
    by_cases hlt : x.v + 1 < m.hd.v + 1
    · rw [if_pos hlt]; exact Prog.of_good h
    · rw [if_neg hlt]; exact prog_checkChangeView hk (good_set_cv h x.frm x r hx rfl hxh hc) hbp hnc _

theorem list_set_none_self {α : Type} (l : List (Option α)) (j : Nat) (v : Option α) (h : slot l j = none) (hj : j < l.length) :
    (l.set j v).set j none = l := by
  rw [List.set_set]
  apply List.ext_getElem?
  intro k
  by_cases hk : k = j
  · subst hk
    rw [List.getElem?_set_self hj]
    unfold slot at h
    rw [List.getElem?_eq_getElem hj] at h ⊢
    cases hv : l[k] with
    | none => rfl
    | some a => rw [hv] at h; cases h
  · rw [List.getElem?_set_ne (Ne.symm hk)]

/-- storing a Prepare payload of another validator than the primary for the current view -/
theorem good_set_prep {e : Env} {as : State} {i : Nat} {w : W} (h : Good e as i w) (hbp : w.nd.blockProcessed = false)
    (x : Hd) (ph : Nat) (hx : x.frm < e.n) (hxh : x.h = w.nd.bi) (hxv : x.v = w.nd.view) (hnp : x.frm ≠ w.nd.pidx)
    (hempty : slot w.nd.prep x.frm = none) (hc : Claims e as (.prepResp x ph)) :
    Good e as i (w.upd fun nd => { nd with prep := nd.prep.set x.frm (some (.prepResp x ph)) }) := by
  have rn := h.rn
  have hlen : x.frm < w.nd.prep.length := by rw [rn.lens.1]; exact hx
  obtain ⟨hbi, hview, hgp, hgc⟩ := h.synced hbp
  have hxm : x.frm ≠ w.nd.my := by
    intro heq
    have hgpt : ∃ b ∈ (as.nodes i).myPreps, b.h = w.nd.bi ∧ b.v = w.nd.view := by
      obtain ⟨b, hb, hbh, hbv⟩ := hc
      rw [heq, rn.my] at hb
      exact ⟨b, hb, by rw [hbh, hxh], by rw [hbv, hxv]⟩
    have := (hgp hgpt).2
    unfold Node.responseSent at this
    rw [← heq, hempty] at this; cases this
  refine ⟨h.g, ⟨rn.my, by simpa [W.upd] using rn.lens, rn.chain, rn.height, ?_, rn.pidx, ?_, rn.commit, rn.cv, rn.lastCv,
    rn.cache, ?_⟩, h.outs, h.blk, h.st, h.lt⟩
  · left
    refine ⟨hbi, hview, ?_, hgc⟩
    intro hg
    obtain ⟨r1, r2⟩ := hgp hg
    constructor
    · show Node.requestSOR _ = true
      simp only [W.upd, Node.requestSOR, slot_set_other _ _ _ _ (Ne.symm hnp)]; exact r1
    · show Node.responseSent _ = true
      simp only [W.upd, Node.responseSent, slot_set_other _ _ _ _ (Ne.symm hxm)]; exact r2
  · intro j m hj
    by_cases hjm : j = x.frm
    · subst hjm
      simp only [W.upd, slot_set_self _ _ _ hlen, Option.some.injEq] at hj
      subst hj
      refine ⟨?_, hc, rfl, by intro hq; simp [isReq] at hq⟩
      show x = ⟨x.frm, w.nd.bi, w.nd.view⟩
      rw [← hxh, ← hxv]
    · simp only [W.upd, slot_set_other _ _ _ _ hjm] at hj
      exact rn.prep j m hj
  · intro y sb hj
    obtain ⟨a1, a2⟩ := rn.own y sb hj
    refine ⟨a1, ?_⟩
    show Node.header _ = some sb
    simp only [W.upd, Node.header, Node.curProp, slot_set_other _ _ _ _ (Ne.symm hnp)]
    exact a2

/-- dbft.go:469-523 on the machine -/
theorem prog_onPrepareResponse {e : Env} {as : State} {i : Nat} {w : W} (h : Good e as i w)
    (hbp : w.nd.blockProcessed = false) (x : Hd) (ph : Nat) (hx : x.frm < e.n) (hxh : x.h = w.nd.bi)
    (hc : Claims e as (.prepResp x ph)) : Prog e i as (onPrepareResponse e w (.prepResp x ph) ph) := by
  unfold onPrepareResponse
  dsimp only [Pl.hd]
  by_cases hv : (w.nd.view != x.v) = true
  · rw [if_pos hv]; exact Prog.of_good h
  rw [if_neg hv]
  by_cases hp : (x.frm == w.nd.pidx) = true
  · rw [if_pos hp]; exact Prog.of_good h
  rw [if_neg hp]
  by_cases hs : ((slot w.nd.prep x.frm).isSome || w.nd.notAccepting e) = true
  · rw [if_pos hs]; exact Prog.of_good h
  rw [if_neg hs]
  have hxv : x.v = w.nd.view := by
    simp only [bne_iff_ne, ne_eq, Decidable.not_not] at hv; exact hv.symm
  have hnp : x.frm ≠ w.nd.pidx := by simpa using hp
  have hempty : slot w.nd.prep x.frm = none := by
    simp only [Bool.or_eq_true, not_or] at hs
    cases hq : slot w.nd.prep x.frm with
    | none => rfl
    | some _ => simp [hq] at hs
  have g1 := good_set_prep h hbp x ph hx hxh hxv hnp hempty hc
  have hlen : x.frm < w.nd.prep.length := by rw [h.rn.lens.1]; exact hx
  have tail : ∀ w2 : W, Good e as i w2 → w2.nd.blockProcessed = false →
      Prog e i as (if (!(extendTimer e w2 2).nd.commitSent && (extendTimer e w2 2).nd.requestSOR) = true then
        checkPrepare e (extendTimer e w2 2) else extendTimer e w2 2) := by
    intro w2 g2 b2
    have g3 := good_extendTimer g2 2
    have b3 : (extendTimer e w2 2).nd.blockProcessed = false := by
      unfold extendTimer; split <;> exact b2
    split
    · exact prog_checkPrepare g3 b3
    · exact Prog.of_good g3
  split
  · split
    · -- the hash is not the request's: the slot is emptied again
      have : (w.upd fun nd => { nd with prep := nd.prep.set x.frm (some (.prepResp x ph)) }).upd
          (fun nd => { nd with prep := nd.prep.set x.frm none }) = w := by
        cases w with
        | mk nd out now fresh hints oof =>
          simp only [W.upd]
          congr
          cases nd
          simp only [Node.mk.injEq, true_and, and_true]
          exact list_set_none_self _ _ _ hempty hlen
      rw [this]; exact Prog.of_good h
    · exact tail _ g1 hbp
  · exact tail _ g1 hbp

end NeoModel.Dbft.Mach
