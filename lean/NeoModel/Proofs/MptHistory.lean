/-
Helper lemmas for C10: every history of operations yields a well-formed trie holding exactly the
history's contents; hence the trie (and its root) depends on the contents only.
-/
import NeoModel.Model.Mpt.Ops
import NeoModel.Proofs.MptBatch
import NeoModel.Proofs.MptCanonical
namespace NeoModel.Mpt

theorem wf_applyOp (t : Node) (o : Op) (h : WF t) : WF (applyOp t o) := by
  cases o with
  | put p v => exact wf_put t p v h
  | del p => exact wf_delete t p h
  | batch m => exact wf_putBatch t _ h

theorem lookup_applyOp (t : Node) (o : Op) (ho : o.ok) (q : Path) :
    lookup (applyOp t o) q = specOp (lookup t) o q := by
  cases o with
  | put p v => exact lookup_put t p v q
  | del p => exact lookup_delete t p q
  | batch m => exact lookup_putBatch_map t m ho q

theorem foldl_applyOp (ops : List Op) (hok : ∀ o ∈ ops, o.ok) (t : Node) (f : Path → Option Val)
    (hw : WF t) (hl : ∀ q, lookup t q = f q) :
    WF (ops.foldl applyOp t) ∧ ∀ q, lookup (ops.foldl applyOp t) q = ops.foldl specOp f q := by
  induction ops generalizing t f with
  | nil => exact ⟨hw, hl⟩
  | cons o ops ih =>
    simp only [List.foldl_cons]
    apply ih (fun o' ho' => hok o' (by simp [ho'])) _ _ (wf_applyOp t o hw)
    intro q
    rw [lookup_applyOp t o (hok o (by simp)) q]
    have : lookup t = f := funext hl
    rw [this]

theorem run_spec (ops : List Op) (hok : ∀ o ∈ ops, o.ok) :
    WF (run ops) ∧ ∀ q, lookup (run ops) q = contents ops q :=
  foldl_applyOp ops hok .empty _ (by simp [WF]) (by simp [lookup])

end NeoModel.Mpt
