/-
C20 (a) helper lemmas: `Put` never overwrites a live element; calm traces (no external addition between
`Run`'s height read and its lock section, no Discard); what `Run` holds is never ahead of the chain;
a valid element is retained until applied.
-/
import NeoModel.Proofs.QueueInv
namespace NeoModel.Queue

/-- `Put` never overwrites an element above the chain height (any stale height `hr ≤ height`). -/
theorem put_keeps (s : State) (h : Inv s) (e : Elem) (hr : Nat) (hhr : hr ≤ s.height) (p : Nat) (x : Elem)
    (hx : s.ring p = some x) (hlive : s.height < x.idx) : (put s e hr).ring p = some x := by
  rcases put_cases s e hr with h1 | h1 | ⟨_, _, h3, h4, h5⟩
  · rw [h1]; exact hx
  · rw [h1]; exact hx
  · rw [h5]
    simp only [insert, setSlot]
    split
    · rename_i hp
      exfalso
      rw [← hp, hx] at h4
      simp only [keepsOld, Bool.not_eq_false', decide_eq_true_eq] at h4
      have hs := h.slot p x hx
      have : posOf s.cap e.idx = posOf s.cap x.idx := by rw [hs, hp]
      have := mod_eq_lt_add this h4
      omega
    · exact hx

/-- An external addition between `Run`'s height read (queue.go:100) and its lock section (l.102). -/
def racy (s : State) : Act → Bool
  | .adv => match s.pc with
            | .haveH _ => true
            | _ => false
  | _ => false

/-- A trace without `Discard` and without an external addition inside the read-to-lock window of `Run`.
(In a node where every block, including the consensus ones, goes through `Put`, there is no external
addition at all.) -/
def Calm : State → List Act → Prop
  | _, [] => True
  | s, a :: r => racy s a = false ∧ a ≠ .disc ∧ Calm (apply s a) r

/-- `Calm` as a Boolean, for closed examples. -/
def calmB : State → List Act → Bool
  | _, [] => true
  | s, a :: r => !racy s a && decide (a ≠ .disc) && calmB (apply s a) r

theorem calm_iff (s : State) (as : List Act) : Calm s as ↔ calmB s as = true := by
  induction as generalizing s with
  | nil => simp [Calm, calmB]
  | cons a r ih => simp [Calm, calmB, ih, and_assoc]

/-- What `Run` holds is what the chain expects next, or something older. -/
structure Fresh (s : State) : Prop where
  haveH : ∀ h, s.pc = .haveH h → h = s.height
  holding : ∀ b pos, s.pc = .holding b pos → b.idx ≤ s.height + 1
  added : ∀ b pos, s.pc = .added b pos → b.ok = true → b.idx ≤ s.height

theorem put_frame (s : State) (e : Elem) (hr : Nat) :
    (put s e hr).pc = s.pc ∧ (put s e hr).height = s.height ∧ (put s e hr).cap = s.cap ∧
    (put s e hr).discarded = s.discarded := by
  rcases put_cases s e hr with h1 | h1 | ⟨_, _, _, _, h1⟩ <;> rw [h1] <;> simp [insert]

theorem fresh_apply (s : State) (a : Act) (hi : Inv s) (hf : Fresh s) (hr : racy s a = false) :
    Fresh (apply s a) := by
  cases a with
  | put e hr' =>
    obtain ⟨h1, h2, _, _⟩ := put_frame s e (min hr' s.height)
    refine ⟨?_, ?_, ?_⟩ <;> simp only [apply, h1, h2]
    · exact hf.haveH
    · exact hf.holding
    · exact hf.added
  | adv =>
    refine ⟨?_, ?_, ?_⟩
    · intro h hp
      simp only [apply, chainAdvance] at hp
      simp [racy, hp] at hr
    · intro b pos hp; have := hf.holding b pos hp; simp only [apply, chainAdvance]; omega
    · intro b pos hp hok; have := hf.added b pos hp hok; simp only [apply, chainAdvance]; omega
  | disc =>
    simp only [apply, discard]
    split
    · exact hf
    · exact ⟨hf.haveH, hf.holding, hf.added⟩
  | notify =>
    simp only [apply, notify]
    split
    · exact hf
    · exact ⟨hf.haveH, hf.holding, hf.added⟩
  | run =>
    simp only [apply, runStep]
    split
    · exact ⟨by intro _ hp; simp [start] at hp, by intro _ _ hp; simp [start] at hp, by intro _ _ hp; simp [start] at hp⟩
    · unfold wake
      split
      · exact ⟨by intro _ hp; simp at hp, by intro _ _ hp; simp at hp, by intro _ _ hp; simp at hp⟩
      · split
        · exact ⟨by intro _ hp; simp at hp, by intro _ _ hp; simp at hp, by intro _ _ hp; simp at hp⟩
        · exact hf
    · exact ⟨by intro _ hp; simp [readH] at hp; subst hp; rfl, by intro _ _ hp; simp [readH] at hp,
        by intro _ _ hp; simp [readH] at hp⟩
    · rename_i hh hpc
      have hhe := hi.pcH hh hpc
      refine ⟨?_, ?_, ?_⟩
      · intro h' hp; simp only [lockSection] at hp; split at hp
        · cases hp
        · split at hp <;> cases hp
      · intro b pos hp
        simp only [lockSection] at hp
        split at hp
        · cases hp
        · rename_i b' hb
          split at hp
          · cases hp
          · rename_i hle
            cases hp
            -- queue.go:117-119: an element above h+1 is not taken
            show b.idx ≤ s.height + 1
            omega
      · intro b pos hp; simp only [lockSection] at hp; split at hp
        · cases hp
        · split at hp <;> cases hp
    · rename_i b pos hpc
      have hb := hf.holding b pos hpc
      refine ⟨by intro _ hp; simp [addItem] at hp, by intro _ _ hp; simp [addItem] at hp, ?_⟩
      intro b' pos' hp hok
      simp only [addItem, Pc.added.injEq] at hp
      obtain ⟨rfl, rfl⟩ := hp
      simp only [addItem, accepts, hok, Bool.true_and, beq_iff_eq]
      split <;> omega
    · exact ⟨by intro _ hp; simp [finish] at hp, by intro _ _ hp; simp [finish] at hp, by intro _ _ hp; simp [finish] at hp⟩
    · exact hf

/-- What `Run` offers to the chain is never ahead of it — in EVERY reachable state (since the guard
`b.GetIndex() > h+1 → continue`, queue.go:117-119): the part of `Fresh` that needs no calmness. -/
structure Offer (s : State) : Prop where
  holding : ∀ b pos, s.pc = .holding b pos → b.idx ≤ s.height + 1
  added : ∀ b pos, s.pc = .added b pos → b.ok = true → b.idx ≤ s.height

theorem offer_init (cap h0 : Nat) : Offer (init cap h0) :=
  ⟨by intro _ _ hp; simp [init] at hp, by intro _ _ hp; simp [init] at hp⟩

theorem offer_apply (s : State) (a : Act) (hi : Inv s) (hf : Offer s) : Offer (apply s a) := by
  cases a with
  | put e hr' =>
    obtain ⟨h1, h2, _, _⟩ := put_frame s e (min hr' s.height)
    refine ⟨?_, ?_⟩ <;> simp only [apply, h1, h2]
    · exact hf.holding
    · exact hf.added
  | adv =>
    refine ⟨?_, ?_⟩
    · intro b pos hp; have := hf.holding b pos hp; simp only [apply, chainAdvance]; omega
    · intro b pos hp hok; have := hf.added b pos hp hok; simp only [apply, chainAdvance]; omega
  | disc =>
    simp only [apply, discard]
    split
    · exact hf
    · exact ⟨hf.holding, hf.added⟩
  | notify =>
    simp only [apply, notify]
    split
    · exact hf
    · exact ⟨hf.holding, hf.added⟩
  | run =>
    simp only [apply, runStep]
    split
    · exact ⟨by intro _ _ hp; simp [start] at hp, by intro _ _ hp; simp [start] at hp⟩
    · unfold wake
      split
      · exact ⟨by intro _ _ hp; simp at hp, by intro _ _ hp; simp at hp⟩
      · split
        · exact ⟨by intro _ _ hp; simp at hp, by intro _ _ hp; simp at hp⟩
        · exact hf
    · exact ⟨by intro _ _ hp; simp [readH] at hp, by intro _ _ hp; simp [readH] at hp⟩
    · rename_i hh hpc
      have hhe := hi.pcH hh hpc
      refine ⟨?_, ?_⟩
      · intro b pos hp
        simp only [lockSection] at hp
        split at hp
        · cases hp
        · split at hp
          · cases hp
          · cases hp
            show b.idx ≤ s.height + 1
            omega
      · intro b pos hp; simp only [lockSection] at hp; split at hp
        · cases hp
        · split at hp <;> cases hp
    · rename_i b pos hpc
      have hb := hf.holding b pos hpc
      refine ⟨by intro _ _ hp; simp [addItem] at hp, ?_⟩
      intro b' pos' hp hok
      simp only [addItem, Pc.added.injEq] at hp
      obtain ⟨rfl, rfl⟩ := hp
      simp only [addItem, accepts, hok, Bool.true_and, beq_iff_eq]
      split <;> omega
    · exact ⟨by intro _ _ hp; simp [finish] at hp, by intro _ _ hp; simp [finish] at hp⟩
    · exact hf

theorem offer_exec (s : State) (as : List Act) (hi : Inv s) (hf : Offer s) : Offer (exec s as) := by
  induction as generalizing s with
  | nil => exact hf
  | cons a r ih => exact ih _ (inv_apply s a hi) (offer_apply s a hi hf)

theorem fresh_init (cap h0 : Nat) : Fresh (init cap h0) :=
  ⟨by intro _ hp; simp [init] at hp, by intro _ _ hp; simp [init] at hp, by intro _ _ hp; simp [init] at hp⟩

theorem calm_append (s : State) (as bs : List Act) : Calm s (as ++ bs) ↔ Calm s as ∧ Calm (exec s as) bs := by
  induction as generalizing s with
  | nil => simp [Calm, exec]
  | cons a r ih => simp only [List.cons_append, Calm, exec, ih, and_assoc]

theorem fresh_exec (s : State) (as : List Act) (hi : Inv s) (hf : Fresh s) (hc : Calm s as) :
    Fresh (exec s as) := by
  induction as generalizing s with
  | nil => exact hf
  | cons a r ih => exact ih _ (inv_apply s a hi) (fresh_apply s a hi hf hc.1) hc.2.2

/-- `x` is applied (it or a block with its index), or still in its slot, or in `Run`'s hands on its way
to `AddItem`. -/
def Retained (s : State) (x : Elem) : Prop :=
  x.idx ≤ s.height ∨ s.ring (posOf s.cap x.idx) = some x ∨ ∃ pos, s.pc = .holding x pos

theorem retained_apply (s : State) (a : Act) (x : Elem) (hi : Inv s) (hf : Fresh s) (hok : x.ok = true)
    (hr : racy s a = false) (hd : a ≠ .disc) (h : Retained s x) : Retained (apply s a) x := by
  cases a with
  | disc => exact absurd rfl hd
  | notify =>
    simp only [apply, notify]
    split
    · exact h
    · exact h
  | put e hr' =>
    obtain ⟨h1, h2, h3, _⟩ := put_frame s e (min hr' s.height)
    simp only [apply, Retained, h1, h2, h3]
    rcases h with h | h | h
    · exact .inl h
    · by_cases hl : x.idx ≤ s.height
      · exact .inl hl
      · exact .inr (.inl (put_keeps s hi e _ (Nat.min_le_right _ _) _ x h (by omega)))
    · exact .inr (.inr h)
  | adv =>
    rcases h with h | h | h
    · exact .inl (by simp only [apply, chainAdvance]; omega)
    · exact .inr (.inl h)
    · exact .inr (.inr h)
  | run =>
    simp only [apply, runStep]
    split
    · rename_i hpc
      rcases h with h | h | ⟨_, h⟩
      · exact .inl h
      · exact .inr (.inl h)
      · rw [hpc] at h; cases h
    · rename_i hpc
      have hw : (wake s).height = s.height ∧ (wake s).ring = s.ring ∧ (wake s).cap = s.cap := by
        unfold wake; split
        · exact ⟨rfl, rfl, rfl⟩
        · split <;> exact ⟨rfl, rfl, rfl⟩
      rcases h with h | h | ⟨_, h⟩
      · exact .inl (by rw [hw.1]; exact h)
      · exact .inr (.inl (by rw [hw.2.1, hw.2.2]; exact h))
      · rw [hpc] at h; cases h
    · rename_i hpc
      rcases h with h | h | ⟨_, h⟩
      · exact .inl h
      · exact .inr (.inl h)
      · rw [hpc] at h; cases h
    · rename_i hh hpc
      have hhe := hf.haveH hh hpc
      rcases h with h | h | ⟨_, h⟩
      · exact .inl h
      · by_cases hl : x.idx ≤ s.height
        · exact .inl hl
        · refine .inr (.inl ?_)
          show (cleanup s.cap (hh - s.lastHeight) s.lastHeight s.ring s.len).1 (posOf s.cap x.idx) = some x
          by_cases hn : hh - s.lastHeight = 0
          · rw [hn]; exact h
          · exact cleanup_keeps _ _ _ _ _ _ _ h (by omega)
      · rw [hpc] at h; cases h
    · rename_i b pos hpc
      have hle : s.height ≤ (addItem s b pos).height := by simp only [addItem]; split <;> omega
      rcases h with h | h | ⟨pos', h⟩
      · exact .inl (by omega)
      · exact .inr (.inl h)
      · rw [hpc] at h
        simp only [Pc.holding.injEq] at h
        obtain ⟨rfl, rfl⟩ := h
        have hb := hf.holding b pos hpc
        left
        simp only [addItem, accepts, hok, Bool.true_and, beq_iff_eq]
        split <;> omega
    · rename_i b pos hpc
      rcases h with h | h | ⟨_, h⟩
      · exact .inl h
      · by_cases hl : x.idx ≤ s.height
        · exact .inl hl
        · refine .inr (.inl ?_)
          simp only [finish]
          split
          · rename_i hb
            simp only [setSlot]
            split
            · rename_i hp
              exfalso
              rw [hp, hb] at h
              cases h
              exact hl (hf.added _ _ hpc hok)
            · exact h
          · exact h
      · rw [hpc] at h; cases h
    · exact h

theorem retained_exec (s : State) (as : List Act) (x : Elem) (hi : Inv s) (hf : Fresh s) (hok : x.ok = true)
    (hc : Calm s as) (h : Retained s x) : Retained (exec s as) x := by
  induction as generalizing s with
  | nil => exact h
  | cons a r ih =>
    exact ih _ (inv_apply s a hi) (fresh_apply s a hi hf hc.1) hc.2.2
      (retained_apply s a x hi hf hok hc.1 hc.2.1 h)

/-- Retention for EVERY step but Discard, external additions at any moment included (needs only `Offer`). -/
theorem retained_apply_all (s : State) (a : Act) (x : Elem) (hi : Inv s) (hf : Offer s) (hok : x.ok = true)
    (hd : a ≠ .disc) (h : Retained s x) : Retained (apply s a) x := by
  cases a with
  | disc => exact absurd rfl hd
  | notify =>
    simp only [apply, notify]
    split
    · exact h
    · exact h
  | put e hr' =>
    obtain ⟨h1, h2, h3, _⟩ := put_frame s e (min hr' s.height)
    simp only [apply, Retained, h1, h2, h3]
    rcases h with h | h | h
    · exact .inl h
    · by_cases hl : x.idx ≤ s.height
      · exact .inl hl
      · exact .inr (.inl (put_keeps s hi e _ (Nat.min_le_right _ _) _ x h (by omega)))
    · exact .inr (.inr h)
  | adv =>
    rcases h with h | h | h
    · exact .inl (by simp only [apply, chainAdvance]; omega)
    · exact .inr (.inl h)
    · exact .inr (.inr h)
  | run =>
    simp only [apply, runStep]
    split
    · rename_i hpc
      rcases h with h | h | ⟨_, h⟩
      · exact .inl h
      · exact .inr (.inl h)
      · rw [hpc] at h; cases h
    · rename_i hpc
      have hw : (wake s).height = s.height ∧ (wake s).ring = s.ring ∧ (wake s).cap = s.cap := by
        unfold wake; split
        · exact ⟨rfl, rfl, rfl⟩
        · split <;> exact ⟨rfl, rfl, rfl⟩
      rcases h with h | h | ⟨_, h⟩
      · exact .inl (by rw [hw.1]; exact h)
      · exact .inr (.inl (by rw [hw.2.1, hw.2.2]; exact h))
      · rw [hpc] at h; cases h
    · rename_i hpc
      rcases h with h | h | ⟨_, h⟩
      · exact .inl h
      · exact .inr (.inl h)
      · rw [hpc] at h; cases h
    · rename_i hh hpc
      have hhe := hi.pcH hh hpc
      rcases h with h | h | ⟨_, h⟩
      · exact .inl h
      · by_cases hl : x.idx ≤ s.height
        · exact .inl hl
        · refine .inr (.inl ?_)
          show (cleanup s.cap (hh - s.lastHeight) s.lastHeight s.ring s.len).1 (posOf s.cap x.idx) = some x
          by_cases hn : hh - s.lastHeight = 0
          · rw [hn]; exact h
          · exact cleanup_keeps _ _ _ _ _ _ _ h (by omega)
      · rw [hpc] at h; cases h
    · rename_i b pos hpc
      have hle : s.height ≤ (addItem s b pos).height := by simp only [addItem]; split <;> omega
      rcases h with h | h | ⟨pos', h⟩
      · exact .inl (by omega)
      · exact .inr (.inl h)
      · rw [hpc] at h
        simp only [Pc.holding.injEq] at h
        obtain ⟨rfl, rfl⟩ := h
        have hb := hf.holding b pos hpc
        left
        simp only [addItem, accepts, hok, Bool.true_and, beq_iff_eq]
        split <;> omega
    · rename_i b pos hpc
      rcases h with h | h | ⟨_, h⟩
      · exact .inl h
      · by_cases hl : x.idx ≤ s.height
        · exact .inl hl
        · refine .inr (.inl ?_)
          simp only [finish]
          split
          · rename_i hb
            simp only [setSlot]
            split
            · rename_i hp
              exfalso
              rw [hp, hb] at h
              cases h
              exact hl (hf.added _ _ hpc hok)
            · exact h
          · exact h
      · rw [hpc] at h; cases h
    · exact h

theorem retained_exec_all (s : State) (as : List Act) (x : Elem) (hi : Inv s) (hf : Offer s) (hok : x.ok = true)
    (hnd : ∀ a ∈ as, a ≠ .disc) (h : Retained s x) : Retained (exec s as) x := by
  induction as generalizing s with
  | nil => exact h
  | cons a r ih =>
    exact ih _ (inv_apply s a hi) (offer_apply s a hi hf) (fun b hb => hnd b (by simp [hb]))
      (retained_apply_all s a x hi hf hok (hnd a (by simp)) h)

end NeoModel.Queue
