/- C19 simulation, part A2: the steps of one validator as extensions, with what each changes. -/
import NeoModel.Proofs.DbftSimA
namespace NeoModel.Dbft

theorem known_addKnown_mono {l : List Item} {it x : Item} (h : x ∈ l) : x ∈ addKnown l it := by
  rw [mem_addKnown]; exact Or.inr h

/-- a step of validator `i` that prepends broadcast copies of one item to the network and changes node `i` only -/
theorem ext_of_send (c : Cfg) (s : State) (i : Nat) (a : Action) (nd' : Node) (it : Item)
    (hen : Enabled c s a)
    (happ : apply c s a = { nodes := upd s.nodes i nd', net := bcast c i (.item it) ++ s.net })
    (hk : ∀ x, x ∈ (s.nodes i).known → x ∈ nd'.known)
    (hp : ∀ b, b ∈ (s.nodes i).myPreps → b ∈ nd'.myPreps) (hc : ∀ b, b ∈ (s.nodes i).myCommits → b ∈ nd'.myCommits)
    (hpn : ∀ b, b ∈ nd'.myPreps → b ∈ (s.nodes i).myPreps ∨ it = prepItem c i b)
    (hcn : ∀ b, b ∈ nd'.myCommits → b ∈ (s.nodes i).myCommits ∨ it = .commit i b) (hit : it ∈ nd'.known) :
    SimExt c i s (apply c s a) ∧ Bcast c (apply c s a) i it ∧ it ∈ ((apply c s a).nodes i).known := by
  have hnet : ∀ x, x ∈ s.net → x ∈ (apply c s a).net := by
    intro x hx; rw [happ]; exact List.mem_append_right _ hx
  have hb : Bcast c (apply c s a) i it := by
    intro j hj hne; rw [happ]; exact List.mem_append_left _ (bcast_mem c i j _ hj hne)
  have hkn : ∀ k x, x ∈ (s.nodes k).known → x ∈ ((apply c s a).nodes k).known := by
    intro k x hx; rw [happ]; by_cases hk' : k = i
    · subst hk'; simp only [upd, if_true]; exact hk x hx
    · simp only [upd, hk', if_false]; exact hx
  have hown : it ∈ ((apply c s a).nodes i).known := by rw [happ]; simpa [upd] using hit
  refine ⟨⟨Steps.one a hen, hnet, ⟨?_, ?_⟩, ?_, ?_, hkn⟩, hb, hown⟩
  · intro j b hb1; rw [happ]; by_cases hj : j = i
    · subst hj; simp only [upd, if_true]; exact hp b hb1
    · simp only [upd, hj, if_false]; exact hb1
  · intro j b hb1; rw [happ]; by_cases hj : j = i
    · subst hj; simp only [upd, if_true]; exact hc b hb1
    · simp only [upd, hj, if_false]; exact hb1
  · intro hs
    refine ⟨?_, ?_⟩
    · intro j b hb'
      by_cases hj : j = i
      · subst hj
        have : b ∈ nd'.myPreps := by rw [happ] at hb'; simpa [upd] using hb'
        rcases hpn b this with h | h
        · exact ⟨(hs.1 j b h).1.mono hnet, hkn _ _ (hs.1 j b h).2⟩
        · rw [← h]; exact ⟨hb, hown⟩
      · have : b ∈ (s.nodes j).myPreps := by rw [happ] at hb'; simpa [upd, hj] using hb'
        exact ⟨(hs.1 j b this).1.mono hnet, hkn _ _ (hs.1 j b this).2⟩
    · intro j b hb'
      by_cases hj : j = i
      · subst hj
        have : b ∈ nd'.myCommits := by rw [happ] at hb'; simpa [upd] using hb'
        rcases hcn b this with h | h
        · exact ⟨(hs.2 j b h).1.mono hnet, hkn _ _ (hs.2 j b h).2⟩
        · rw [← h]; exact ⟨hb, hown⟩
      · have : b ∈ (s.nodes j).myCommits := by rw [happ] at hb'; simpa [upd, hj] using hb'
        exact ⟨(hs.2 j b this).1.mono hnet, hkn _ _ (hs.2 j b this).2⟩
  · intro k hk'; rw [happ]; simp [upd, hk']

/-- a step of validator `i` that changes only node `i`'s height/view/chain -/
theorem ext_of_move (c : Cfg) (s : State) (i : Nat) (a : Action) (nd' : Node)
    (hen : Enabled c s a) (happ : apply c s a = { s with nodes := upd s.nodes i nd' })
    (hk : nd'.known = (s.nodes i).known) (hp : nd'.myPreps = (s.nodes i).myPreps)
    (hc : nd'.myCommits = (s.nodes i).myCommits) : SimExt c i s (apply c s a) := by
  have hnet : (apply c s a).net = s.net := by rw [happ]
  have hpp : ∀ j, ((apply c s a).nodes j).myPreps = (s.nodes j).myPreps := by
    intro j; rw [happ]; by_cases hj : j = i
    · subst hj; simp [upd, hp]
    · simp [upd, hj]
  have hcc : ∀ j, ((apply c s a).nodes j).myCommits = (s.nodes j).myCommits := by
    intro j; rw [happ]; by_cases hj : j = i
    · subst hj; simp [upd, hc]
    · simp [upd, hj]
  have hkn : ∀ k x, x ∈ (s.nodes k).known → x ∈ ((apply c s a).nodes k).known := by
    intro k x hx; rw [happ]; by_cases hk' : k = i
    · subst hk'; simp only [upd, if_true]; rw [hk]; exact hx
    · simp only [upd, hk', if_false]; exact hx
  refine ⟨Steps.one a hen, by intro x hx; rw [hnet]; exact hx, ⟨fun j b hb => by rw [hpp]; exact hb,
    fun j b hb => by rw [hcc]; exact hb⟩, fun hs => sentAll_frame hs hpp hcc (by intro x hx; rw [hnet]; exact hx) hkn, ?_, hkn⟩
  · intro k hk'; rw [happ]; simp [upd, hk']

theorem ext_sendPrepReq (c : Cfg) (s : State) (i p : Nat) (hen : Enabled c s (.sendPrepReq i p)) :
    let b : Block := ⟨(s.nodes i).height, (s.nodes i).view, p⟩
    let s' := apply c s (.sendPrepReq i p)
    SimExt c i s s' ∧ Bcast c s' i (.prepReq i b) ∧ (s'.nodes i).myPreps = b :: (s.nodes i).myPreps ∧
      (s'.nodes i).myCommits = (s.nodes i).myCommits ∧ (s'.nodes i).height = (s.nodes i).height ∧
      (s'.nodes i).view = (s.nodes i).view ∧ (s'.nodes i).chain = (s.nodes i).chain := by
  intro b s'
  have hprim : i = c.primary b.h b.v := hen.2.1
  obtain ⟨e, hb, _⟩ := ext_of_send c s i (.sendPrepReq i p) _ (.prepReq i b) hen rfl
    (fun x hx => known_addKnown_mono hx) (fun x hx => List.mem_cons_of_mem _ hx) (fun x hx => hx)
    (fun x hx => by
      rcases List.mem_cons.mp hx with rfl | hx
      · right; unfold prepItem; rw [if_pos hprim]
      · exact Or.inl hx)
    (fun x hx => Or.inl hx) (by rw [mem_addKnown]; exact Or.inl rfl)
  exact ⟨e, hb, by simp [s', apply, upd, b], by simp [s', apply, upd], by simp [s', apply, upd],
    by simp [s', apply, upd], by simp [s', apply, upd]⟩

theorem ext_sendPrepResp (c : Cfg) (s : State) (i : Nat) (b : Block) (hen : Enabled c s (.sendPrepResp i b)) :
    let s' := apply c s (.sendPrepResp i b)
    SimExt c i s s' ∧ Bcast c s' i (.prepResp i b) ∧ (s'.nodes i).myPreps = b :: (s.nodes i).myPreps ∧
      (s'.nodes i).myCommits = (s.nodes i).myCommits ∧ (s'.nodes i).height = (s.nodes i).height ∧
      (s'.nodes i).view = (s.nodes i).view ∧ (s'.nodes i).chain = (s.nodes i).chain := by
  intro s'
  have hprim : i ≠ c.primary b.h b.v := hen.2.2.2.1
  obtain ⟨e, hb, _⟩ := ext_of_send c s i (.sendPrepResp i b) _ (.prepResp i b) hen rfl
    (fun x hx => known_addKnown_mono hx) (fun x hx => List.mem_cons_of_mem _ hx) (fun x hx => hx)
    (fun x hx => by
      rcases List.mem_cons.mp hx with rfl | hx
      · right; unfold prepItem; rw [if_neg hprim]
      · exact Or.inl hx)
    (fun x hx => Or.inl hx) (by rw [mem_addKnown]; exact Or.inl rfl)
  exact ⟨e, hb, by simp [s', apply, upd], by simp [s', apply, upd], by simp [s', apply, upd],
    by simp [s', apply, upd], by simp [s', apply, upd]⟩

theorem ext_sendCommit (c : Cfg) (s : State) (i : Nat) (b : Block) (hen : Enabled c s (.sendCommit i b)) :
    let s' := apply c s (.sendCommit i b)
    SimExt c i s s' ∧ Bcast c s' i (.commit i b) ∧ (s'.nodes i).myCommits = b :: (s.nodes i).myCommits ∧
      (s'.nodes i).myPreps = (s.nodes i).myPreps ∧ (s'.nodes i).height = (s.nodes i).height ∧
      (s'.nodes i).view = (s.nodes i).view ∧ (s'.nodes i).chain = (s.nodes i).chain := by
  intro s'
  obtain ⟨e, hb, _⟩ := ext_of_send c s i (.sendCommit i b) _ (.commit i b) hen rfl
    (fun x hx => known_addKnown_mono hx) (fun x hx => hx) (fun x hx => List.mem_cons_of_mem _ hx)
    (fun x hx => Or.inl hx)
    (fun x hx => by
      rcases List.mem_cons.mp hx with rfl | hx
      · exact Or.inr rfl
      · exact Or.inl hx) (by rw [mem_addKnown]; exact Or.inl rfl)
  exact ⟨e, hb, by simp [s', apply, upd], by simp [s', apply, upd], by simp [s', apply, upd],
    by simp [s', apply, upd], by simp [s', apply, upd]⟩

theorem ext_sendChangeView (c : Cfg) (s : State) (i : Nat) (hen : Enabled c s (.sendChangeView i)) :
    let s' := apply c s (.sendChangeView i)
    SimExt c i s s' ∧ Bcast c s' i (.changeView i (s.nodes i).height (s.nodes i).view ((s.nodes i).view + 1)) ∧
      Item.changeView i (s.nodes i).height (s.nodes i).view ((s.nodes i).view + 1) ∈ (s'.nodes i).known ∧
      (s'.nodes i).myCommits = (s.nodes i).myCommits ∧
      (s'.nodes i).myPreps = (s.nodes i).myPreps ∧ (s'.nodes i).height = (s.nodes i).height ∧
      (s'.nodes i).view = (s.nodes i).view ∧ (s'.nodes i).chain = (s.nodes i).chain := by
  intro s'
  obtain ⟨e, hb, hkk⟩ := ext_of_send c s i (.sendChangeView i) _ _ hen rfl
    (fun x hx => known_addKnown_mono hx) (fun x hx => hx) (fun x hx => hx) (fun x hx => Or.inl hx) (fun x hx => Or.inl hx)
    (by rw [mem_addKnown]; exact Or.inl rfl)
  exact ⟨e, hb, hkk, by simp [s', apply, upd], by simp [s', apply, upd], by simp [s', apply, upd],
    by simp [s', apply, upd], by simp [s', apply, upd]⟩

theorem ext_changeView (c : Cfg) (s : State) (i nv : Nat) (hen : Enabled c s (.changeView i nv)) :
    let s' := apply c s (.changeView i nv)
    SimExt c i s s' ∧ (s'.nodes i).view = nv ∧ (s'.nodes i).height = (s.nodes i).height ∧
      (s'.nodes i).chain = (s.nodes i).chain ∧ (s'.nodes i).myPreps = (s.nodes i).myPreps ∧
      (s'.nodes i).myCommits = (s.nodes i).myCommits := by
  intro s'
  exact ⟨ext_of_move c s i _ _ hen rfl rfl rfl rfl, by simp [s', apply, upd], by simp [s', apply, upd],
    by simp [s', apply, upd], by simp [s', apply, upd], by simp [s', apply, upd]⟩

theorem ext_accept (c : Cfg) (s : State) (i : Nat) (b : Block) (hen : Enabled c s (.accept i b)) :
    let s' := apply c s (.accept i b)
    SimExt c i s s' ∧ (s'.nodes i).view = 0 ∧ (s'.nodes i).height = (s.nodes i).height + 1 ∧
      (s'.nodes i).chain = b :: (s.nodes i).chain ∧ (s'.nodes i).myPreps = (s.nodes i).myPreps ∧
      (s'.nodes i).myCommits = (s.nodes i).myCommits := by
  intro s'
  exact ⟨ext_of_move c s i _ _ hen rfl rfl rfl rfl, by simp [s', apply, upd, nextHeight], by simp [s', apply, upd, nextHeight],
    by simp [s', apply, upd, nextHeight], by simp [s', apply, upd, nextHeight], by simp [s', apply, upd, nextHeight]⟩

theorem ext_syncBlock (c : Cfg) (s : State) (i j : Nat) (b : Block) (hen : Enabled c s (.syncBlock i j))
    (hb : blockAt (s.nodes j) (s.nodes i).height = some b) :
    let s' := apply c s (.syncBlock i j)
    SimExt c i s s' ∧ (s'.nodes i).view = 0 ∧ (s'.nodes i).height = (s.nodes i).height + 1 ∧
      (s'.nodes i).chain = b :: (s.nodes i).chain ∧ (s'.nodes i).myPreps = (s.nodes i).myPreps ∧
      (s'.nodes i).myCommits = (s.nodes i).myCommits := by
  intro s'
  have happ : apply c s (.syncBlock i j) = { s with nodes := upd s.nodes i (nextHeight (s.nodes i) b) } := by
    simp only [apply, hb]
  exact ⟨ext_of_move c s i _ _ hen happ rfl rfl rfl, by simp [s', happ, upd, nextHeight], by simp [s', happ, upd, nextHeight],
    by simp [s', happ, upd, nextHeight], by simp [s', happ, upd, nextHeight], by simp [s', happ, upd, nextHeight]⟩

end NeoModel.Dbft
