/-
C08 helper: the event stream under real concurrency. `Pool.Add` sends the TransactionAdded event AFTER it has
released the lock (mem_pool.go:354-366), the TransactionRemoved events are sent inside the critical sections. So a
call of `Add` is two steps here: its critical section (the atomic `add` of the model, whose removed events are
delivered at once) and, later, the delivery of its added event; other clients may run critical sections in between.
For every schedule: the removed events are delivered in lock order, the delivered stream plus the added events
still in flight is a permutation of the atomic stream, every event in flight is an added event, and once nothing
is in flight the per-hash balance of `events_balance` holds for the delivered stream. Strict replay of the
delivered stream can fail (witness in Props/C08Deep.lean): a removed event can overtake the added event.
-/
import NeoModel.Proofs.MempoolEvents
namespace NeoModel.Mempool

/-- every call only appends to the events log; a successful `Add` appends its added event last -/
theorem applyOp_events_split {U : Tx → Prop} (hw : WF U) {mp : Pool} (hi : Inv U mp) (op : Op) (hop : OpOk U op)
    (hns : ∀ on, op ≠ .setSubs on) (hon : mp.subsOn = true) :
    (applyOp mp op).subsOn = true ∧ ∃ evs, (applyOp mp op).events = mp.events ++ evs ∧
      (∀ t f d, op = .add t f d → (add mp t f d).2 = none → ∃ E, evs = E ++ [{ added := true, id := t.id, data := d }]) ∧
      replay (content mp) evs = some (content (applyOp mp op)) := by
  cases op with
  | add t f d =>
    obtain ⟨evs, h, hl⟩ := evStep_add hw hi hop.1 f hop.2 d
    refine ⟨by show (add mp t f d).1.subsOn = true; rw [h.subs]; exact hon, evs, ?_, ?_, h.replay⟩
    · show (add mp t f d).1.events = _
      rw [h.events, if_pos hon]
    · intro t' f' d' e hs
      injection e with e1 e2 e3
      subst e1; subst e2; subst e3
      exact hl hs
  | remove h' =>
    obtain ⟨evs, h⟩ := evStep_applyOp hw hi (.remove h') hop hns
    exact ⟨by rw [h.subs]; exact hon, evs, by rw [h.events, if_pos hon], fun _ _ _ e => (by cases e), h.replay⟩
  | removeStale isOK f =>
    obtain ⟨evs, h⟩ := evStep_applyOp hw hi (.removeStale isOK f) hop hns
    exact ⟨by rw [h.subs]; exact hon, evs, by rw [h.events, if_pos hon], fun _ _ _ e => (by cases e), h.replay⟩
  | verify t f =>
    obtain ⟨evs, h⟩ := evStep_applyOp hw hi (.verify t f) hop hns
    exact ⟨by rw [h.subs]; exact hon, evs, by rw [h.events, if_pos hon], fun _ _ _ e => (by cases e), h.replay⟩
  | setResendThreshold h' =>
    exact ⟨hon, [], (List.append_nil _).symm, fun _ _ _ e => (by cases e), rfl⟩
  | setSubs on => exact absurd rfl (hns on)

/-- what a call's critical section delivers at once, and the added event it sends after the unlock -/
def splitAdded (mp : Pool) (op : Op) : List Event × Option Event :=
  let evs := (applyOp mp op).events.drop mp.events.length
  match op with
  | .add t f d => if (add mp t f d).2 = none ∧ mp.subsOn = true then (evs.dropLast, evs.getLast?) else (evs, none)
  | _ => (evs, none)

/-- the system: the pool (it evolves atomically, its `events` is the atomic stream), the programs, the added
events in flight (client, event), the stream delivered to the subscribers, the calls in lock order -/
structure AConf where
  pool : Pool
  progs : List (List Op)
  flight : List (Nat × Event)
  delivered : List Event
  hist : List Op

/-- client `i` moves: it delivers its added event if one is in flight, otherwise it runs the critical section of
its next call -/
def AConf.step (c : AConf) (i : Nat) : Option AConf :=
  match c.flight.find? (fun x => x.1 == i) with
  | some x => some { c with flight := c.flight.erase x, delivered := c.delivered ++ [x.2] }
  | none =>
    match c.progs[i]? with
    | some (op :: rest) =>
      let sp := splitAdded c.pool op
      some { pool := applyOp c.pool op, progs := c.progs.set i rest,
             flight := (match sp.2 with | some e => c.flight ++ [(i, e)] | none => c.flight),
             delivered := c.delivered ++ sp.1, hist := c.hist ++ [op] }
    | _ => none

def AConf.exec : AConf → List Nat → Option AConf
  | c, [] => some c
  | c, i :: s => (c.step i).bind (fun c' => c'.exec s)

def notAdded (e : Event) : Bool := !e.added

/-- the invariant of the asynchronous delivery -/
structure AInv (U : Tx → Prop) (c : AConf) : Prop where
  inv : Inv U c.pool
  on : c.pool.subsOn = true
  ok : ∀ p ∈ c.progs, ∀ op ∈ p, OpOk U op ∧ ∀ on, op ≠ .setSubs on
  removedOrder : c.delivered.filter notAdded = c.pool.events.filter notAdded
  perm : (c.delivered ++ c.flight.map (·.2)).Perm c.pool.events
  flightAdded : ∀ x ∈ c.flight, x.2.added = true
  replays : replay (fun _ => none) c.pool.events = some (content c.pool)

theorem ainv_step {U : Tx → Prop} (hw : WF U) {c c' : AConf} (i : Nat) (h : AInv U c) (hs : c.step i = some c') :
    AInv U c' ∧ (c'.hist.foldl applyOp (new 0) = c.hist.foldl applyOp (new 0) → True) := by
  refine ⟨?_, fun _ => trivial⟩
  unfold AConf.step at hs
  cases hf : c.flight.find? (fun x => x.1 == i) with
  | some x =>
    rw [hf] at hs
    simp only [Option.some.injEq] at hs
    subst hs
    have hx : x ∈ c.flight := List.mem_of_find?_eq_some hf
    have hxa := h.flightAdded x hx
    refine ⟨h.inv, h.on, h.ok, ?_, ?_, ?_, h.replays⟩
    · show (c.delivered ++ [x.2]).filter notAdded = _
      rw [List.filter_append, ← h.removedOrder]
      simp [notAdded, hxa]
    · show (c.delivered ++ [x.2] ++ (c.flight.erase x).map (·.2)).Perm c.pool.events
      refine List.Perm.trans ?_ h.perm
      rw [List.append_assoc]
      apply List.Perm.append_left
      have := (List.perm_cons_erase hx).map (·.2)
      simpa using this.symm
    · intro y hy
      exact h.flightAdded y (List.mem_of_mem_erase hy)
  | none =>
    rw [hf] at hs
    simp only at hs
    cases hp : c.progs[i]? with
    | none => rw [hp] at hs; cases hs
    | some prog =>
      cases prog with
      | nil => rw [hp] at hs; cases hs
      | cons op rest =>
        rw [hp] at hs
        simp only [Option.some.injEq] at hs
        subst hs
        have hmem : (op :: rest) ∈ c.progs := List.mem_of_getElem? hp
        obtain ⟨hop, hns⟩ := h.ok _ hmem op List.mem_cons_self
        obtain ⟨hsub, evs, hev, hlast, hrep⟩ := applyOp_events_split hw h.inv op hop hns h.on
        have hrep' : replay (fun _ => none) (applyOp c.pool op).events = some (content (applyOp c.pool op)) := by
          rw [hev, replay_append, h.replays]; exact hrep
        have hdrop : (applyOp c.pool op).events.drop c.pool.events.length = evs := by
          rw [hev, List.drop_left]
        have hok' : ∀ p ∈ c.progs.set i rest, ∀ o ∈ p, OpOk U o ∧ ∀ on, o ≠ .setSubs on := by
          intro p hp' o ho
          rcases List.mem_or_eq_of_mem_set hp' with h' | h'
          · exact h.ok p h' o ho
          · exact h.ok _ hmem o (by rw [h'] at ho; exact List.mem_cons_of_mem _ ho)
        -- the two shapes of the split
        have hcases : (splitAdded c.pool op = (evs, none)) ∨
            (∃ E e, evs = E ++ [e] ∧ e.added = true ∧ splitAdded c.pool op = (E, some e)) := by
          unfold splitAdded
          simp only [hdrop]
          cases op with
          | add t f d =>
            simp only
            by_cases hc : (add c.pool t f d).2 = none ∧ c.pool.subsOn = true
            · rw [if_pos hc]
              obtain ⟨E, hE⟩ := hlast t f d rfl hc.1
              right
              refine ⟨E, _, hE, rfl, ?_⟩
              rw [hE, List.dropLast_concat, List.getLast?_concat]
            · rw [if_neg hc]; exact Or.inl rfl
          | remove _ => exact Or.inl rfl
          | removeStale _ _ => exact Or.inl rfl
          | verify _ _ => exact Or.inl rfl
          | setResendThreshold _ => exact Or.inl rfl
          | setSubs _ => exact Or.inl rfl
        rcases hcases with hsp | ⟨E, e, hEe, hea, hsp⟩
        · rw [hsp]
          refine ⟨inv_applyOp hw h.inv op hop, hsub, hok', ?_, ?_, h.flightAdded, hrep'⟩
          · show (c.delivered ++ evs).filter notAdded = (applyOp c.pool op).events.filter notAdded
            rw [hev, List.filter_append, List.filter_append, h.removedOrder]
          · show (c.delivered ++ evs ++ c.flight.map (·.2)).Perm (applyOp c.pool op).events
            rw [hev]
            have : (c.delivered ++ evs ++ c.flight.map (·.2)).Perm (c.delivered ++ c.flight.map (·.2) ++ evs) := by
              rw [List.append_assoc, List.append_assoc]
              exact List.Perm.append_left _ List.perm_append_comm
            exact this.trans (h.perm.append_right evs)
        · rw [hsp]
          refine ⟨inv_applyOp hw h.inv op hop, hsub, hok', ?_, ?_, ?_, hrep'⟩
          · show (c.delivered ++ E).filter notAdded = (applyOp c.pool op).events.filter notAdded
            rw [hev, hEe, List.filter_append, List.filter_append, List.filter_append, h.removedOrder]
            simp [notAdded, hea]
          · show (c.delivered ++ E ++ (c.flight ++ [(i, e)]).map (·.2)).Perm (applyOp c.pool op).events
            rw [hev, hEe, List.map_append]
            have : (c.delivered ++ E ++ (c.flight.map (·.2) ++ [e])).Perm (c.delivered ++ c.flight.map (·.2) ++ (E ++ [e])) := by
              simp only [List.append_assoc]
              apply List.Perm.append_left
              rw [← List.append_assoc, ← List.append_assoc]
              exact List.Perm.append_right _ List.perm_append_comm
            simpa using this.trans (h.perm.append_right (E ++ [e]))
          · intro y hy
            rcases List.mem_append.mp hy with h' | h'
            · exact h.flightAdded y h'
            · rw [List.mem_singleton.mp h']; exact hea

theorem ainv_exec {U : Tx → Prop} (hw : WF U) : ∀ (s : List Nat) (c cf : AConf), AInv U c → c.exec s = some cf → AInv U cf := by
  intro s
  induction s with
  | nil => intro c cf h he; simp only [AConf.exec, Option.some.injEq] at he; subst he; exact h
  | cons i s ih =>
    intro c cf h he
    simp only [AConf.exec] at he
    cases hst : c.step i with
    | none => rw [hst] at he; cases he
    | some c' =>
      rw [hst] at he
      exact ih c' cf (ainv_step hw i h hst).1 he

/-- the pool of the asynchronous system is the atomic pool of the calls in lock order -/
theorem apool_exec : ∀ (s : List Nat) (c cf : AConf) (mp0 : Pool), c.pool = c.hist.foldl applyOp mp0 → c.exec s = some cf →
    cf.pool = cf.hist.foldl applyOp mp0 := by
  intro s
  induction s with
  | nil => intro c cf mp0 h he; simp only [AConf.exec, Option.some.injEq] at he; subst he; exact h
  | cons i s ih =>
    intro c cf mp0 h he
    simp only [AConf.exec] at he
    cases hst : c.step i with
    | none => rw [hst] at he; cases he
    | some c' =>
      rw [hst] at he
      apply ih c' cf mp0 _ he
      unfold AConf.step at hst
      cases hf : c.flight.find? (fun x => x.1 == i) with
      | some x => rw [hf] at hst; simp only [Option.some.injEq] at hst; subst hst; exact h
      | none =>
        rw [hf] at hst
        simp only at hst
        cases hp : c.progs[i]? with
        | none => rw [hp] at hst; cases hst
        | some prog =>
          cases prog with
          | nil => rw [hp] at hst; cases hst
          | cons op rest =>
            rw [hp] at hst
            simp only [Option.some.injEq] at hst
            subst hst
            show applyOp c.pool op = (c.hist ++ [op]).foldl applyOp mp0
            rw [List.foldl_append, ← h]; rfl

/-- the start: a fresh pool with subscriptions running -/
def AConf.init (cap : Nat) (progs : List (List Op)) : AConf :=
  { pool := setSubs (new cap) true, progs := progs, flight := [], delivered := [], hist := [] }

theorem ainv_init (U : Tx → Prop) (cap : Nat) (progs : List (List Op))
    (hok : ∀ p ∈ progs, ∀ op ∈ p, OpOk U op ∧ ∀ on, op ≠ .setSubs on) : AInv U (AConf.init cap progs) := by
  have h0 := inv_new U cap
  exact ⟨⟨h0.noPanic, h0.cap, h0.list, h0.vmap, h0.conf, h0.orc, h0.fees⟩, rfl, hok, rfl, List.Perm.refl _,
    fun x hx => (by cases hx), rfl⟩

theorem countEv_perm (b : Bool) (id : Nat) {l1 l2 : List Event} (h : l1.Perm l2) : countEv b id l1 = countEv b id l2 := by
  unfold countEv
  exact (h.filter _).length_eq

end NeoModel.Mempool
