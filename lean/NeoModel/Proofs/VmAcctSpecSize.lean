import NeoModel.Proofs.VmAcctSpecPrice
namespace NeoModel.Vm

theorem newBuf_spec (b : Bytes) (st : List Item) (h : Heap) (out : Outcome) (hn : newBuf b st h = .ok out) :
    ∃ h', out = .next (.buffer h.size :: st) h' ∧ h'.getBuf h.size = some b := by
  simp only [newBuf, Heap.alloc, Except.ok.injEq] at hn
  refine ⟨_, hn.symm, ?_⟩
  simp [Heap.getBuf]

/-- CAT and NEWBUFFER never make a buffer longer than MaxSize (vm.go:859-864, 889-899) -/
theorem cat_newbuffer_size (op : Op) (hop : op = .cat ∨ op = .newBuffer) (param : Bytes) (st : List Item) (h : Heap) (out : Outcome)
    (he : execPure op param st h = .ok out) :
    ∃ st' h' b, out = .next (.buffer h.size :: st') h' ∧ h'.getBuf h.size = some b ∧ b.length ≤ maxItemSize := by
  rcases hop with rfl | rfl
  · simp only [execPure, bind, Except.bind] at he
    repeat' split at he
    all_goals first
      | (cases he; done)
      | (rename_i hlen
         obtain ⟨h', e1, e2⟩ := newBuf_spec _ _ _ _ he
         exact ⟨_, h', _, e1, e2, by simp only [List.length_append]; omega⟩)
  · simp only [execPure, bind, Except.bind] at he
    repeat' split at he
    all_goals first
      | (cases he; done)
      | (rename_i hlen
         obtain ⟨h', e1, e2⟩ := newBuf_spec _ _ _ _ he
         refine ⟨_, h', _, e1, e2, ?_⟩
         simp only [List.length_replicate]
         omega)

theorem leNat_lt : ∀ (bs : Bytes), leNat bs < 256 ^ bs.length := by
  intro bs
  induction bs with
  | nil => simp [leNat]
  | cons b r ih =>
    simp only [leNat, List.length_cons, Nat.pow_succ]
    have := b.toNat_lt
    omega

set_option maxRecDepth 100000 in
theorem operand_shapes_all : (List.range 256).all (fun n =>
    match Op.ofByte (UInt8.ofNat n) with
    | none => true
    | some op => (op.operand.1 == 0 && decide (op.operand.2 ≤ 32)) || ((op.operand.1 == 1 || op.operand.1 == 2 || op.operand.1 == 4) && op.operand.2 == 0)) = true := by
  decide

theorem operand_shapes (b : UInt8) (op : Op) (h : Op.ofByte b = some op) :
    (op.operand.1 = 0 ∧ op.operand.2 ≤ 32) ∨ (((op.operand.1 = 1 ∨ op.operand.1 = 2) ∨ op.operand.1 = 4) ∧ op.operand.2 = 0) := by
  have := List.all_eq_true.1 operand_shapes_all b.toNat (List.mem_range.2 b.toNat_lt)
  have hb' : UInt8.ofNat b.toNat = b := by simp
  rw [hb', h] at this
  simp only [Bool.or_eq_true, Bool.and_eq_true, beq_iff_eq, decide_eq_true_eq] at this
  exact this

theorem slice_len (p : Array UInt8) (a n : Nat) : (slice p a n).length ≤ n := by
  simp only [slice, Array.length_toList, Array.size_extract]
  omega

/-- the operand of a decoded instruction is never longer than MaxSize -/
theorem decode_param_size (p : Array UInt8) (ip : Nat) (ins : Instr) (h : decode p ip = .ok ins) :
    ins.param.length ≤ maxItemSize := by
  unfold decode at h
  split at h
  · simp only [Except.ok.injEq] at h; subst h; simp
  · rename_i b hb
    split at h
    · cases h
    · rename_i op hop
      have hsh := operand_shapes b op hop
      simp only at h
      repeat' split at h
      all_goals first
        | (cases h; done)
        | (simp only [Except.ok.injEq] at h
           subst h
           refine Nat.le_trans (slice_len _ _ _) ?_
           have hl := leNat_lt (slice p (ip + 1) op.operand.1)
           have hs := slice_len p (ip + 1) op.operand.1
           rcases hsh with ⟨h0, h32⟩ | ⟨(h1 | h2) | h4, hz⟩
           · simp only [maxItemSize] at *; omega
           · rw [h1] at hs hl
             have : 256 ^ (slice p (ip + 1) 1).length ≤ 256 ^ 1 := Nat.pow_le_pow_right (by decide) hs
             simp only [h1, maxItemSize] at *; omega
           · rw [h2] at hs hl
             have : 256 ^ (slice p (ip + 1) 2).length ≤ 256 ^ 2 := Nat.pow_le_pow_right (by decide) hs
             simp only [h2, maxItemSize] at *; omega
           · simp only [h4, true_and, maxItemSize] at *; omega)

end NeoModel.Vm
