/-
C12 proofs, part 10: invocation depth of the accounting machine, and evaluation stacks shared between
contexts.

(a) The invocation depth is an invariant of the accounting machine itself: in every reachable state it
is at most MaxInvocationStackSize, and at least 1 until the machine halts; the machine halts only by a
RET at depth 1. These are exactly the constraints `Eff.okFor` puts on the effects of the abstract priced
machine (`1 ≤ d ≤ maxDepth` for a continuing instruction, HALT only through RET at depth ≤ 1), which
were assumptions about "what the data-dependent part does"; here they are proved for the machine that
is tied to the real VM instruction by instruction.

(b) loadScriptWithCallingHash (vm.go:490) gives the loaded script its OWN evaluation stack unless it is
loaded with rvcount = −1 while the caller's stack is empty; CALL* always shares. When an exception
crosses only contexts that share the handler's stack, nothing is dropped: the thrower's items stay on
the handler's stack, counted and reachable (no over-count) — the complement of the finding
`unwind-across-estack`.
-/
import NeoModel.Proofs.VmAcctBase
import NeoModel.Proofs.VmAcctGas
namespace NeoModel.VmAcct

@[simp] theorem length_setCurOf_frames (fs : List Frame) (b st : List Item) : (setCurOf fs b st).1.length = fs.length :=
  (setCurOf_shape fs b st).2.1

@[simp] theorem frames_setCur_length (s : St) (st : List Item) : (s.setCur st).frames.length = s.frames.length := by
  simp [St.setCur]

@[simp] theorem frames_setW_length (s : St) (w : W) : (s.setW w).frames.length = s.frames.length := by
  simp [St.setW, St.setCur]

@[simp] theorem halted_setW (s : St) (w : W) : (s.setW w).halted = s.halted := rfl

theorem length_setStatic : ∀ (fs : List Frame) (v : List Item), (setStatic fs v).length = fs.length := by
  intro fs
  induction fs with
  | nil => intro v; rfl
  | cons f t ih => intro v; simp only [setStatic]; split <;> simp [ih]

@[simp] theorem frames_slotSet_length (s : St) (k : SlotKind) (v : List Item) : (slotSet s k v).frames.length = s.frames.length := by
  cases k <;> cases hf : s.frames <;> simp [slotSet, hf, length_setStatic]

@[simp] theorem halted_slotSet (s : St) (k : SlotKind) (v : List Item) : (slotSet s k v).halted = s.halted := by
  cases k <;> cases hf : s.frames <;> simp [slotSet, hf]

/-- what one instruction does to the invocation depth -/
structure DepthStep (isRet : Bool) (s : St) (r : Res) : Prop where
  le : s.frames.length ≤ maxInvocationStackSize → r.s.frames.length ≤ maxInvocationStackSize
  pos : 1 ≤ s.frames.length → s.halted = false → (r.s.halted = false ∧ 1 ≤ r.s.frames.length) ∨
    (r.s.halted = true ∧ r.raised = none ∧ s.frames.length = 1)
  grow : r.s.frames.length ≤ s.frames.length + 1
  halt : r.s.halted = true → s.halted = false → isRet = true

theorem depthStep_same {b : Bool} {s s' : St} (hl : s'.frames.length = s.frames.length) (hh : s'.halted = s.halted) (x : Option Item) :
    DepthStep b s { s := s', raised := x } :=
  ⟨fun h => by show s'.frames.length ≤ _; rw [hl]; exact h,
   fun h1 h2 => Or.inl ⟨by show s'.halted = false; rw [hh]; exact h2, by show 1 ≤ s'.frames.length; rw [hl]; exact h1⟩,
   by show s'.frames.length ≤ _; rw [hl]; exact Nat.le_succ _,
   fun h1 h2 => by have : s'.halted = true := h1; rw [hh, h2] at this; cases this⟩

def Op.isRet : Op → Bool
  | .ret => true
  | _ => false

theorem exec_depth {s : St} (op : Op) (r : Res) (h : exec op s = some r) : DepthStep op.isRet s r := by
  cases op with
  | nop => simp only [exec, ok, Option.some.injEq] at h; subst h; exact depthStep_same (by rfl) (by rfl) _
  | s sop =>
    simp only [exec] at h
    split at h
    · cases h
    · simp only [ok, Option.some.injEq] at h; subst h; exact depthStep_same (by simp) (by rfl) _
    · simp only [Option.some.injEq] at h; subst h; exact depthStep_same (by simp) (by rfl) _
  | initsslot n =>
    simp only [exec] at h
    split at h
    · cases h
    · split at h
      · cases h
      · split at h
        · simp only [ok, Option.some.injEq] at h; subst h; exact depthStep_same (by simp) (by simp) _
        · cases h
  | initslot l a =>
    simp only [exec] at h
    cases hf : s.frames with
    | nil => simp [hf] at h
    | cons f fs =>
      simp only [hf] at h
      split at h
      · cases h
      · have key : ∀ s1 : St, s1.frames.length = s.frames.length → s1.halted = s.halted →
            (if a = 0 then ok s1 else if a ≤ s1.cur.length then ok ((slotSet s1 .arg (s1.cur.take a)).setCur (s1.cur.drop a)) else none) = some r →
            DepthStep false s r := by
          intro s1 hl hh h
          by_cases ha : a = 0
          · simp only [ha, if_true, ok, Option.some.injEq] at h
            subst h; exact depthStep_same hl hh _
          · simp only [ha, if_false] at h
            split at h
            · simp only [ok, Option.some.injEq] at h
              subst h; exact depthStep_same (by simp [hl]) (by simp [hh]) _
            · cases h
        by_cases hl : l > 0
        · simp only [hl, if_true] at h
          exact key _ (by simp) (by simp) h
        · simp only [hl, if_false] at h
          exact key s rfl rfl h
  | ld k i =>
    simp only [exec] at h
    split at h
    · cases h
    · split at h
      · cases h
      · simp only [ok, Option.some.injEq] at h; subst h; exact depthStep_same (by simp) (by rfl) _
  | st k i =>
    simp only [exec] at h
    split at h
    · cases h
    · split at h
      · simp only [ok, Option.some.injEq] at h; subst h; exact depthStep_same (by simp) (by simp) _
      · cases h
  | call pops =>
    simp only [exec] at h
    split at h
    · cases h
    · rename_i w hw
      split at h
      · cases h
      · rename_i hc
        simp only [ok, Option.some.injEq] at h
        subst h
        simp only [Bool.or_eq_true, List.isEmpty_iff, decide_eq_true_eq, not_or, Nat.not_le] at hc
        have hl : (s.setW w).frames.length = s.frames.length := by simp
        refine ⟨fun _ => ?_, fun h1 h2 => Or.inl ⟨h2, ?_⟩, ?_, fun h1 h2 => ?_⟩
        · show (s.setW w).frames.length + 1 ≤ _; omega
        · show 1 ≤ (s.setW w).frames.length + 1; omega
        · show (s.setW w).frames.length + 1 ≤ _; omega
        · have : s.halted = true := h1
          rw [h2] at this; cases this
  | load mode nargs =>
    simp only [exec] at h
    split at h
    · cases h
    · split at h
      · cases h
      · rename_i w hw
        split at h
        · cases h
        · rename_i hc
          simp only [ok, Option.some.injEq] at h
          subst h
          simp only [decide_eq_true_eq, Nat.not_le] at hc
          have hl : (s.setW w).frames.length = s.frames.length := by simp
          refine ⟨fun _ => ?_, fun h1 h2 => Or.inl ⟨h2, ?_⟩, ?_, fun h1 h2 => ?_⟩
          · simp only [frames_setW_length, List.length_cons]; omega
          · simp only [frames_setW_length, List.length_cons]; omega
          · simp only [frames_setW_length, List.length_cons]; omega
          · have : s.halted = true := h1
            rw [h2] at this; cases this
  | throw_ =>
    simp only [exec] at h
    split at h
    · cases h
    · simp only [Option.some.injEq] at h; subst h; exact depthStep_same (by simp) (by rfl) _
  | endfinally =>
    simp only [exec] at h
    split at h
    · simp only [Option.some.injEq] at h; subst h; exact depthStep_same (by rfl) (by rfl) _
    · simp only [ok, Option.some.injEq] at h; subst h; exact depthStep_same (by rfl) (by rfl) _
  | ret =>
    simp only [exec] at h
    cases hf : s.frames with
    | nil => simp [hf] at h
    | cons f rest =>
      simp only [hf] at h
      split at h
      · rename_i hre
        simp only [ok, Option.some.injEq] at h
        subst h
        have : rest = [] := by simpa using hre
        subst this
        exact ⟨fun _ => Nat.zero_le _, fun _ _ => Or.inr ⟨rfl, rfl, by simp [hf]⟩, Nat.zero_le _, fun _ _ => rfl⟩
      · rename_i hre
        have hne : 1 ≤ rest.length := by
          cases rest with
          | nil => simp at hre
          | cons a t => simp
        -- every continuation keeps `rest` as the frames (modulo the current-stack lens) and `halted`
        have fin : ∀ (s1 : St) (b : Bool) (m : Nat), s1.frames.length = rest.length → s1.halted = s.halted → ∀ r,
            (if b then (if m = 0 then ok (s1.setW (s1.w.push .prim)) else if m > 1 then none else ok s1) else ok s1) = some r →
            DepthStep true s r := by
          intro s1 b m hl hh r h
          have mk : ∀ s2 : St, s2.frames.length = rest.length → s2.halted = s.halted → DepthStep true s { s := s2 } := by
            intro s2 hl2 hh2
            refine ⟨fun hle => ?_, fun _ h2 => Or.inl ⟨by show s2.halted = false; rw [hh2]; exact h2, by show 1 ≤ s2.frames.length; rw [hl2]; exact hne⟩, ?_, ?_⟩
            · show s2.frames.length ≤ _; rw [hl2]; rw [hf] at hle; simp at hle; omega
            · show s2.frames.length ≤ _; rw [hl2, hf]; simp only [List.length_cons]; omega
            · intro _ _; rfl
          split at h
          · split at h
            · simp only [ok, Option.some.injEq] at h; subst h; exact mk _ (by simp [hl]) (by simp [hh])
            · split at h
              · cases h
              · simp only [ok, Option.some.injEq] at h; subst h; exact mk _ hl hh
          · simp only [ok, Option.some.injEq] at h; subst h; exact mk _ hl hh
        cases ho : f.own with
        | some st =>
          simp only [ho] at h
          split at h
          · cases h
          · exact fin _ _ st.length (by simp) (by simp) r h
        | none =>
          simp only [ho] at h
          exact fin ({ s with frames := rest, c := unloadSlots f s.c } : St) _ _ rfl rfl r h

theorem unwindFrames_length : ∀ (k : Nat) (fs fs' : List Frame) (c c' : Ctr), unwindFrames k fs c = some (fs', c') →
    fs'.length ≤ fs.length ∧ fs' = fs.drop k := by
  intro k
  induction k with
  | zero => intro fs fs' c c' h; simp only [unwindFrames, Option.some.injEq, Prod.mk.injEq] at h; rw [← h.1]; simp
  | succ k ih =>
    intro fs fs' c c' h
    cases fs with
    | nil => simp [unwindFrames] at h
    | cons f t =>
      simp only [unwindFrames] at h
      obtain ⟨h1, h2⟩ := ih t fs' _ c' h
      exact ⟨by simp; omega, by simpa using h2⟩

theorem unwind_depth {s s' : St} {x : Item} {k : Nat} {c : Bool} (h : unwind s x k c = some s') :
    s'.frames.length ≤ s.frames.length ∧ 1 ≤ s'.frames.length ∧ s'.halted = s.halted := by
  simp only [unwind] at h
  split at h
  · cases h
  · rename_i fs c1 hu
    obtain ⟨hl, _⟩ := unwindFrames_length k _ _ _ _ hu
    split at h
    · cases h
    · rename_i hne
      have h1 : 1 ≤ fs.length := by
        cases fs with
        | nil => simp at hne
        | cons a t => simp
      split at h <;> (simp only [Option.some.injEq] at h; subst h)
      · exact ⟨by simpa using hl, by simpa using h1, rfl⟩
      · exact ⟨hl, h1, rfl⟩

/-- one step of the accounting machine and the invocation depth -/
theorem step_depth {s s' : St} {op : Op} {unw : Option (Nat × Bool)} {ext : Bool} (h : step s op unw ext = some s')
    (hle : s.depth ≤ maxInvocationStackSize) (hpos : 1 ≤ s.depth) :
    s'.depth ≤ maxInvocationStackSize ∧ s'.depth ≤ s.depth + 1 ∧
      ((s'.halted = false ∧ 1 ≤ s'.depth) ∨ (s'.halted = true ∧ op = .ret ∧ s.depth = 1)) := by
  have hnh := step_not_halted h
  simp only [step] at h
  split at h
  · cases h
  · cases he : exec op s with
    | none => simp [he] at h
    | some r =>
      simp only [he] at h
      have d := exec_depth op r he
      cases hr : r.raised with
      | none =>
        simp only [hr] at h
        split at h
        · cases h
        · simp only [Option.some.injEq] at h
          subst h
          refine ⟨d.le hle, d.grow, ?_⟩
          rcases d.pos hpos hnh with h1 | ⟨h1, _, h3⟩
          · exact Or.inl h1
          · refine Or.inr ⟨h1, ?_, h3⟩
            -- only RET sets `halted`
            have := d.halt h1 hnh
            cases op <;> first | rfl | (simp [Op.isRet] at this)
      | some x =>
        cases hu : unw with
        | none => simp [hr, hu] at h
        | some p =>
          obtain ⟨k, c⟩ := p
          simp only [hr, hu] at h
          cases hw : unwind r.s x k c with
          | none => simp [hw] at h
          | some s2 =>
            simp only [hw] at h
            split at h
            · cases h
            · simp only [Option.some.injEq] at h
              subst h
              obtain ⟨u1, u2, u3⟩ := unwind_depth hw
              have g := d.grow
              refine ⟨Nat.le_trans u1 (d.le hle), by simp only [St.depth] at *; omega, Or.inl ⟨?_, u2⟩⟩
              rcases d.pos hpos hnh with h1 | ⟨_, h2, _⟩
              · rw [u3]; exact h1.1
              · rw [hr] at h2; cases h2

/-- **the invocation depth is an invariant of the accounting machine**: at most MaxInvocationStackSize
in every reachable state, at least 1 until the machine has halted -/
theorem run_depth {s : St} (h : Run s) : s.depth ≤ maxInvocationStackSize ∧ (s.halted = true ∨ 1 ≤ s.depth) := by
  induction h with
  | init => exact ⟨by decide, Or.inr (by decide)⟩
  | @step s0 s1 op unw ext _ hs ih =>
    have hnh := step_not_halted hs
    have hpos : 1 ≤ s0.depth := by
      rcases ih.2 with hh | hp
      · rw [hnh] at hh; cases hh
      · exact hp
    obtain ⟨h1, _, h3⟩ := step_depth hs ih.1 hpos
    refine ⟨h1, ?_⟩
    rcases h3 with ⟨_, hp⟩ | ⟨hh, _, _⟩
    · exact Or.inr hp
    · exact Or.inl hh

/-- what `Eff.okFor` ASSUMES about the effect of an instruction on the invocation depth holds for every
step of the accounting machine: a step that does not halt leaves `1 ≤ depth ≤ maxDepth` (`Eff.cont d`),
a step halts only as RET at depth 1 (`Eff.ret` with `depth ≤ 1`), and no instruction raises the depth
by more than one -/
theorem acct_eff_ok {s s' : St} {op : Op} {unw : Option (Nat × Bool)} {ext : Bool} (hr : Run s) (h : step s op unw ext = some s') :
    (s'.halted = false → 1 ≤ s'.depth ∧ s'.depth ≤ VmGas.maxDepth) ∧ (s'.halted = true → op = .ret ∧ s.depth = 1) ∧
      s'.depth ≤ s.depth + 1 := by
  have hnh := step_not_halted h
  have ih := run_depth hr
  have hpos : 1 ≤ s.depth := by
    rcases ih.2 with hh | hp
    · rw [hnh] at hh; cases hh
    · exact hp
  obtain ⟨h1, h2, h3⟩ := step_depth h ih.1 hpos
  have hm : VmGas.maxDepth = maxInvocationStackSize := by decide
  refine ⟨fun hf => ?_, fun ht => ?_, h2⟩
  · rcases h3 with ⟨_, hp⟩ | ⟨hh, _, _⟩
    · exact ⟨hp, by rw [hm]; exact h1⟩
    · rw [hf] at hh; cases hh
  · rcases h3 with ⟨hh, _⟩ | ⟨_, ho, hd⟩
    · rw [ht] at hh; cases hh
    · exact ⟨ho, hd⟩

/-! ### evaluation stacks shared between contexts -/

theorem popN_st : ∀ (n : Nat) {w w' : W}, W.popN n w = some w' → w'.st = w.st.drop n := by
  intro n
  induction n with
  | zero => intro w w' h; simp [W.popN] at h; rw [← h]; simp
  | succ n ih =>
    intro w w' h
    simp only [W.popN] at h
    split at h
    · cases h
    · rename_i x w1 hp
      unfold W.pop at hp
      split at hp
      · cases hp
      · rename_i y r hst
        simp only [Option.some.injEq, Prod.mk.injEq] at hp
        rw [ih h, ← hp.2, hst]; simp

/-- CALL* never gives the callee an evaluation stack of its own (vm.go `call`) -/
theorem call_shares {s : St} {pops : Nat} {r : Res} (h : exec (.call pops) s = some r) :
    ∃ f rest, r.s.frames = f :: rest ∧ f.own = none := by
  simp only [exec] at h
  split at h
  · cases h
  · split at h
    · cases h
    · simp only [ok, Option.some.injEq] at h
      subst h
      exact ⟨_, _, rfl, rfl⟩

theorem head_own_setCurOf (f : Frame) (fs : List Frame) (b st : List Item) :
    ∃ f' t', (setCurOf (f :: fs) b st).1 = f' :: t' ∧ (f'.own = none ↔ f.own = none) := by
  simp only [setCurOf]
  cases ho : f.own with
  | some o => exact ⟨_, _, rfl, by simp⟩
  | none => exact ⟨_, _, rfl, by simp [ho]⟩

theorem push_frame_head (s1 : St) (F : Frame) (w' : W) :
    ∃ f rest, (({ s1 with frames := F :: s1.frames } : St).setW w').frames = f :: rest ∧ (f.own = none ↔ F.own = none) := by
  simp only [St.setW, St.setCur]
  exact head_own_setCurOf F s1.frames s1.base w'.st

/-- loadScriptWithCallingHash (vm.go:490 `if rvcount != -1 || v.estack.Len() != 0 { v.estack = subStack(v.estack) }`):
the loaded script shares the caller's evaluation stack exactly when it is loaded with rvcount = −1
(modes 1, 2 of the harness SYSCALL) and the caller's stack is empty once the arguments are taken -/
theorem load_shares_iff {s : St} {mode nargs : Nat} {r : Res} (h : exec (.load mode nargs) s = some r) :
    ∃ f rest, r.s.frames = f :: rest ∧ (f.own = none ↔ (mode ≠ 0 ∧ s.cur.length = nargs)) := by
  simp only [exec] at h
  split at h
  · cases h
  · rename_i hn
    split at h
    · cases h
    · rename_i w hw
      split at h
      · cases h
      · simp only [ok, Option.some.injEq] at h
        subst h
        have hst := popN_st nargs hw
        have hcur : (s.setW w).cur = s.cur.drop nargs := by
          show (s.setCur w.st).cur = _
          rw [cur_setCur, hst]; rfl
        have hlen : (s.setW w).cur.length = s.cur.length - nargs := by rw [hcur]; simp
        refine Exists.elim (push_frame_head (s.setW w) _ _) fun f' h1 => Exists.elim h1 fun t' h2 => ⟨f', t', h2.1, ?_⟩
        rw [h2.2]
        simp only [gt_iff_lt, Nat.not_lt] at hn
        by_cases hm : mode = 0
        · simp [hm]
        · by_cases hl : s.cur.length = nargs
          · have h0 : (s.setW w).cur.length = 0 := by rw [hlen, hl]; simp
            simp [hm, hl, h0]
          · have h0 : (s.setW w).cur.length ≠ 0 := by rw [hlen]; omega
            simp [hl, h0]

theorem curOf_drop_shared : ∀ (k : Nat) (fs : List Frame) (base : List Item), (∀ f ∈ fs.take k, f.own = none) →
    curOf fs base = curOf (fs.drop k) base := by
  intro k
  induction k with
  | zero => intro fs base _; simp
  | succ k ih =>
    intro fs base h
    cases fs with
    | nil => simp
    | cons f t =>
      have hf : f.own = none := h f (by simp)
      simp only [curOf, hf, List.drop_succ_cons]
      exact ih t base (fun g hg => h g (by simp [hg]))

/-- **an exception that crosses only contexts sharing the handler's evaluation stack drops nothing**:
the handler continues on the thrower's stack — the items the callee left are still there, below the
exception (stacks OWNED by dropped contexts are cleared: `unwindFrames`) -/
theorem unwind_shared {s s' : St} {x : Item} {k : Nat} {c : Bool} (h : unwind s x k c = some s')
    (hs : ∀ f ∈ s.frames.take k, f.own = none) :
    s'.cur = (if c then x :: s.cur else s.cur) := by
  simp only [unwind] at h
  split at h
  · cases h
  · rename_i fs c1 hu
    obtain ⟨_, hfs⟩ := unwindFrames_length k _ _ _ _ hu
    have hcur : curOf fs s.base = s.cur := by rw [hfs]; exact (curOf_drop_shared k s.frames s.base hs).symm
    split at h
    · cases h
    · split at h <;> (simp only [Option.some.injEq] at h; subst h)
      · rename_i hc
        simp only [hc, if_true]
        show ((({ s with frames := fs, c := c1 } : St).setCur _)).cur = _
        rw [cur_setCur]
        show x :: curOf fs s.base = _
        rw [hcur]
      · rename_i hc
        have : c = false := by cases c <;> simp_all
        subst this
        simp only [Bool.false_eq_true, if_false]
        exact hcur

end NeoModel.VmAcct
