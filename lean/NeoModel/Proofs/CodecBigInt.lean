/-
Helper lemmas for C18 / VM integer codec (pkg/encoding/bigint): little-endian values, bit length,
sign byte / stripping / complement, the decoder on both sign forms, minimality.
-/
import NeoModel.Model.Codec.BigInt
namespace NeoModel.Codec

/-! ### little-endian values -/

theorem leBytes_length (n v : Nat) : (leBytes n v).length = n := by
  induction n generalizing v with
  | zero => rfl
  | succ n ih => simp [leBytes, ih]

theorem ofNat_mod_toNat (v : Nat) : (UInt8.ofNat (v % 256)).toNat = v % 256 := by
  simp [UInt8.toNat_ofNat']

theorem leVal_leBytes (n v : Nat) (h : v < 256 ^ n) : leVal (leBytes n v) = v := by
  induction n generalizing v with
  | zero => simp at h; simp [leBytes, leVal, h]
  | succ n ih =>
    have h2 : v / 256 < 256 ^ n := by
      rw [Nat.div_lt_iff_lt_mul (by decide)]; rw [Nat.pow_succ] at h; exact h
    simp only [leBytes, leVal, ih _ h2, ofNat_mod_toNat]
    omega

theorem leVal_lt (b : Bytes) : leVal b < 256 ^ b.length := by
  induction b with
  | nil => simp [leVal]
  | cons x xs ih =>
    simp only [leVal, List.length_cons, Nat.pow_succ]
    have := x.toNat_lt
    omega

theorem leBytes_leVal (b : Bytes) : leBytes b.length (leVal b) = b := by
  induction b with
  | nil => rfl
  | cons x xs ih =>
    simp only [List.length_cons, leBytes, leVal]
    have hx := x.toNat_lt
    have h1 : (x.toNat + 256 * leVal xs) % 256 = x.toNat := by omega
    have h2 : (x.toNat + 256 * leVal xs) / 256 = leVal xs := by omega
    rw [h1, h2, ih]
    simp

/-! ### bit length -/

theorem bitLen_le_iff (n k : Nat) : bitLen n ≤ k ↔ n < 2 ^ k := by
  unfold bitLen
  split
  · rename_i h; subst h; simp [Nat.two_pow_pos]
  · rename_i h
    rw [← Nat.log2_lt h]; omega

theorem lt_pow_bitLen (n : Nat) : n < 2 ^ bitLen n := (bitLen_le_iff n _).mp (Nat.le_refl _)

theorem pow_bitLen_le (n : Nat) (h : n ≠ 0) : 2 ^ (bitLen n - 1) ≤ n := by
  unfold bitLen
  simp only [h, if_false]
  exact Nat.log2_self_le h


/-! ### sign byte, stripping, complement -/

theorem isNegB_cons_cons (x y : UInt8) (r : Bytes) : isNegB (x :: y :: r) = isNegB (y :: r) := by
  simp [isNegB, List.getLast?_cons_cons]

theorem isNegB_single (x : UInt8) : isNegB [x] = decide (128 ≤ x.toNat) := by
  simp [isNegB]

/-- the top byte is below 0x80 iff the value is below half of the range. -/
theorem isNegB_false_iff (b : Bytes) (hne : b ≠ []) :
    isNegB b = false ↔ leVal b < 128 * 256 ^ (b.length - 1) := by
  induction b with
  | nil => exact absurd rfl hne
  | cons x xs ih =>
    cases xs with
    | nil => simp [isNegB_single, leVal]
    | cons y r =>
      rw [isNegB_cons_cons, ih (by simp)]
      simp only [List.length_cons, leVal, Nat.add_sub_cancel]
      have hx := x.toNat_lt
      have : 256 ^ (r.length + 1) = 256 * 256 ^ r.length := by rw [Nat.pow_succ]; omega
      rw [this]
      constructor <;> intro h <;> omega

theorem stripT_eq_nil_iff (p : UInt8) (l : Bytes) : stripT p l = [] ↔ ∀ x ∈ l, x = p := by
  induction l with
  | nil => simp [stripT]
  | cons x xs ih =>
    simp only [stripT, List.mem_cons, forall_eq_or_imp]
    by_cases h : stripT p xs = []
    · by_cases hx : x = p
      · simp [h, hx]; exact ih.mp h
      · simp [h, hx]
    · have : ¬ ∀ a ∈ xs, a = p := fun hh => h (ih.mpr hh)
      simp [h, this]

theorem leVal_stripT (l : Bytes) : leVal (stripT 0 l) = leVal l := by
  induction l with
  | nil => rfl
  | cons x xs ih =>
    simp only [stripT]
    by_cases h : stripT 0 xs = []
    · by_cases hx : x = 0
      · have h0 : leVal xs = 0 := by rw [← ih, h]; rfl
        simp [h, hx, leVal, h0]
      · simp [h, hx, leVal, ← ih]
    · simp [h, leVal, ih]

theorem leVal_eq_zero_iff (l : Bytes) : leVal l = 0 ↔ stripT 0 l = [] := by
  rw [stripT_eq_nil_iff]
  induction l with
  | nil => simp [leVal]
  | cons x xs ih =>
    simp only [leVal, List.mem_cons, forall_eq_or_imp]
    have hx : x = 0 ↔ x.toNat = 0 := by
      constructor
      · intro h; subst h; rfl
      · intro h; exact UInt8.toNat_inj.mp (by simpa using h)
    rw [hx, ← ih]
    omega

def cb (x : UInt8) : UInt8 := UInt8.ofNat (255 - x.toNat)

theorem cb_toNat (x : UInt8) : (cb x).toNat = 255 - x.toNat := by
  have := x.toNat_lt
  simp [cb, UInt8.toNat_ofNat']
  omega

theorem cb_cb (x : UInt8) : cb (cb x) = x := by
  apply UInt8.toNat_inj.mp
  rw [cb_toNat, cb_toNat]
  have := x.toNat_lt
  omega

theorem complB_eq (b : Bytes) : complB b = b.map cb := rfl

theorem complB_complB (b : Bytes) : complB (complB b) = b := by
  simp [complB_eq, List.map_map, Function.comp_def, cb_cb]

theorem complB_length (b : Bytes) : (complB b).length = b.length := by simp [complB_eq]

theorem cb_eq_ff_iff (x : UInt8) : cb x = 0xFF ↔ x = 0 := by
  constructor
  · intro h
    have := congrArg UInt8.toNat h
    rw [cb_toNat] at this
    apply UInt8.toNat_inj.mp
    have hx := x.toNat_lt
    simp at this ⊢
    omega
  · intro h; subst h; rfl

theorem stripT_complB (b : Bytes) : stripT 0xFF (complB b) = complB (stripT 0 b) := by
  induction b with
  | nil => rfl
  | cons x xs ih =>
    simp only [complB_eq, List.map_cons, stripT] at ih ⊢
    rw [ih]
    by_cases h : stripT 0 xs = []
    · by_cases hx : x = 0
      · simp [h, hx, (cb_eq_ff_iff _).mpr]
      · have : ¬ cb x = 0xFF := fun hh => hx ((cb_eq_ff_iff x).mp hh)
        simp [h, hx, this]
    · simp [h]

theorem isNegB_complB (b : Bytes) (hne : b ≠ []) : isNegB (complB b) = !isNegB b := by
  induction b with
  | nil => exact absurd rfl hne
  | cons x xs ih =>
    cases xs with
    | nil =>
      simp only [complB_eq, List.map_cons, List.map_nil, isNegB_single, cb_toNat]
      have := x.toNat_lt
      by_cases h : 128 ≤ x.toNat <;> simp [h] <;> omega
    | cons y r =>
      have := ih (by simp)
      simp only [complB_eq, List.map_cons] at this ⊢
      rw [isNegB_cons_cons, isNegB_cons_cons, this]


/-! ### the decoder on the two sign forms -/

theorem complB_eq_nil (b : Bytes) : complB b = [] ↔ b = [] := by simp [complB_eq]

theorem fromBytes_pos (b : Bytes) (hne : b ≠ []) (hs : isNegB b = false) :
    fromBytes b = ((leVal b : Nat) : Int) := by
  unfold fromBytes
  have h1 : b.isEmpty = false := by cases b <;> simp_all
  simp only [h1, hs, Bool.false_eq_true, if_false]
  by_cases he : stripT 0 b = []
  · have : leVal b = 0 := (leVal_eq_zero_iff b).mpr he
    simp [he, this]
  · have h2 : (stripT 0 b).isEmpty = false := by cases hh : stripT 0 b <;> simp_all
    simp [h2, leVal_stripT]

theorem fromBytes_neg (b : Bytes) (hne : b ≠ []) (hs : isNegB b = true) :
    fromBytes b = - ((leVal (complB b) : Nat) : Int) - 1 := by
  unfold fromBytes
  have h1 : b.isEmpty = false := by cases b <;> simp_all
  have hstrip : stripT 0xFF b = complB (stripT 0 (complB b)) := by
    rw [← stripT_complB, complB_complB]
  simp only [h1, hs, Bool.false_eq_true, if_false, if_true, hstrip]
  by_cases he : stripT 0 (complB b) = []
  · have : leVal (complB b) = 0 := (leVal_eq_zero_iff _).mpr he
    have he' : (complB (stripT 0 (complB b))).isEmpty = true := by rw [he]; rfl
    simp [he', this]
  · have h2 : (complB (stripT 0 (complB b))).isEmpty = false := by
      cases hh : complB (stripT 0 (complB b)) with
      | nil => exact absurd ((complB_eq_nil _).mp hh) he
      | cons _ _ => rfl
    simp [h2, complB_complB, leVal_stripT]

/-! ### length from the bit length -/

theorem pow_form (k : Nat) : 128 * 256 ^ k = 2 ^ (8 * k + 7) := by
  rw [show (256 : Nat) = 2 ^ 8 by rfl, ← Nat.pow_mul, show (128 : Nat) = 2 ^ 7 by rfl, ← Nat.pow_add]
  congr 1; omega

theorem bitLen_div8_upper (v : Nat) : v < 128 * 256 ^ (bitLen v / 8) := by
  rw [pow_form]
  exact Nat.lt_of_lt_of_le (lt_pow_bitLen v) (Nat.pow_le_pow_right (by decide) (by omega))

theorem bitLen_div8_lower (v : Nat) (hv : v ≠ 0) (h : 1 ≤ bitLen v / 8) :
    128 * 256 ^ (bitLen v / 8 - 1) ≤ v := by
  rw [pow_form]
  exact Nat.le_trans (Nat.pow_le_pow_right (by decide) (by omega)) (pow_bitLen_le v hv)

theorem bitLen_div8_eq (v k : Nat) (hu : v < 128 * 256 ^ k) (hl : 1 ≤ k → 128 * 256 ^ (k - 1) ≤ v) :
    bitLen v / 8 = k := by
  rw [pow_form] at hu
  have h1 : bitLen v ≤ 8 * k + 7 := (bitLen_le_iff _ _).mpr hu
  by_cases hk : 1 ≤ k
  · have h2 := hl hk
    rw [pow_form] at h2
    have h3 : ¬ bitLen v ≤ 8 * (k - 1) + 7 := fun hh => by
      have := (bitLen_le_iff _ _).mp hh; omega
    omega
  · omega

/-- the bytes of a positive `v` in the length the encoder chooses: top byte below 0x80, value `v`. -/
theorem posForm_spec (v : Nat) :
    let b := leBytes (bitLen v / 8 + 1) v
    b ≠ [] ∧ isNegB b = false ∧ leVal b = v := by
  intro b
  have hlen : b.length = bitLen v / 8 + 1 := leBytes_length _ _
  have hne : b ≠ [] := by intro h; rw [h] at hlen; simp at hlen
  have hup := bitLen_div8_upper v
  have hval : leVal b = v := by
    apply leVal_leBytes
    rw [Nat.pow_succ]; omega
  refine ⟨hne, ?_, hval⟩
  rw [isNegB_false_iff b hne, hval, hlen]
  simpa using hup

/-- C18 core: decoding the encoding gives the number back. -/
theorem fromBytes_toBytes (n : Int) : fromBytes (toBytes n) = n := by
  unfold toBytes
  split
  · rename_i h; subst h; rfl
  · split
    · rename_i h0 hpos
      obtain ⟨hne, hs, hv⟩ := posForm_spec n.toNat
      simp only []
      rw [fromBytes_pos _ hne hs, hv]
      exact Int.toNat_of_nonneg (by omega)
    · rename_i h0 hpos
      simp only []
      split
      · rename_i hm
        have : n = -1 := by omega
        subst this; decide
      · rename_i hm
        obtain ⟨hne, hs, hv⟩ := posForm_spec (-n - 1).toNat
        have hne' : complB (leBytes (bitLen (-n - 1).toNat / 8 + 1) (-n - 1).toNat) ≠ [] :=
          fun h => hne ((complB_eq_nil _).mp h)
        rw [fromBytes_neg _ hne' (by rw [isNegB_complB _ hne, hs]; rfl), complB_complB, hv]
        have : (((-n - 1).toNat : Nat) : Int) = -n - 1 := Int.toNat_of_nonneg (by omega)
        rw [this]; omega


theorem toBytes_length_le_32_iff (n : Int) :
    (toBytes n).length ≤ 32 ↔ (-(2:Int)^255 ≤ n ∧ n < (2:Int)^255) := by
  have hp : ((2 ^ 255 : Nat) : Int) = (2:Int) ^ 255 := by simp
  have hpos : (0:Int) < (2:Int)^255 := by rw [← hp]; exact Int.natCast_pos.mpr (Nat.two_pow_pos _)
  unfold toBytes
  split
  · rename_i h; subst h
    simp only [List.length_nil, Nat.zero_le, true_iff]
    omega
  · split
    · rename_i h0 hpos'
      simp only [leBytes_length]
      have hv : (n.toNat : Int) = n := Int.toNat_of_nonneg (by omega)
      have : bitLen n.toNat / 8 + 1 ≤ 32 ↔ bitLen n.toNat ≤ 255 := by omega
      rw [this, bitLen_le_iff]
      constructor
      · intro h
        have : (n.toNat : Int) < ((2 ^ 255 : Nat) : Int) := Int.ofNat_lt.mpr h
        omega
      · intro h
        have : (n.toNat : Int) < ((2 ^ 255 : Nat) : Int) := by omega
        exact Int.ofNat_lt.mp this
    · rename_i h0 hneg
      simp only []
      have hm : ((-n - 1).toNat : Int) = -n - 1 := Int.toNat_of_nonneg (by omega)
      split
      · rename_i hm0
        simp only [List.length_cons, List.length_nil]
        omega
      · simp only [complB_length, leBytes_length]
        have : bitLen (-n - 1).toNat / 8 + 1 ≤ 32 ↔ bitLen (-n - 1).toNat ≤ 255 := by omega
        rw [this, bitLen_le_iff]
        constructor
        · intro h
          have : ((-n - 1).toNat : Int) < ((2 ^ 255 : Nat) : Int) := Int.ofNat_lt.mpr h
          omega
        · intro h
          have : ((-n - 1).toNat : Int) < ((2 ^ 255 : Nat) : Int) := by omega
          exact Int.ofNat_lt.mp this


/-! ### minimality -/

theorem minimalB_cons3 (x y z : UInt8) (r : Bytes) : minimalB (x :: y :: z :: r) = minimalB (y :: z :: r) := by
  obtain ⟨t, u, w, hw⟩ : ∃ t u w, (y :: z :: r).reverse = t :: u :: w := by
    match h : (y :: z :: r).reverse with
    | [] => have := congrArg List.length h; simp at this
    | [a] => have := congrArg List.length h; simp at this
    | t :: u :: w => exact ⟨t, u, w, rfl⟩
  unfold minimalB
  rw [List.reverse_cons (a := x), hw]
  rfl

theorem u8_eq_zero_iff (x : UInt8) : x = 0 ↔ x.toNat = 0 := by
  constructor
  · intro h; subst h; rfl
  · intro h; exact UInt8.toNat_inj.mp (by simpa using h)

theorem u8_eq_ff_iff (x : UInt8) : x = 0xFF ↔ x.toNat = 255 := by
  constructor
  · intro h; subst h; rfl
  · intro h; exact UInt8.toNat_inj.mp (by simpa using h)

theorem minimalB_pair (u t : UInt8) :
    minimalB [u, t] = !((t == 0 && decide (u.toNat < 128)) || (t == 0xFF && decide (128 ≤ u.toNat))) := rfl

/-- for the non-negative form with at least two bytes: minimal iff the value needs all the bytes. -/
theorem minimal_pos_iff (b : Bytes) (hlen : 2 ≤ b.length) (hs : isNegB b = false) :
    minimalB b = true ↔ 128 * 256 ^ (b.length - 2) ≤ leVal b := by
  induction b with
  | nil => simp at hlen
  | cons x xs ih =>
    match xs, ih, hlen, hs with
    | [], _, hlen, _ => simp at hlen
    | [t], _, _, hs =>
      rw [isNegB_cons_cons, isNegB_single] at hs
      have ht : t.toNat < 128 := by simpa using hs
      have hx := x.toNat_lt
      simp only [minimalB_pair, leVal, List.length_cons, List.length_nil]
      have h0 := u8_eq_zero_iff t
      have hf := u8_eq_ff_iff t
      by_cases ht0 : t = 0
      · have : t.toNat = 0 := h0.mp ht0
        subst ht0
        by_cases hx1 : x.toNat < 128 <;> simp [hx1] <;> omega
      · have h1 : t.toNat ≠ 0 := fun h => ht0 (h0.mpr h)
        have h2 : t ≠ 0xFF := fun h => by have := hf.mp h; omega
        simp [ht0, h2]; omega
    | y :: z :: r, ih, _, hs =>
      rw [isNegB_cons_cons] at hs
      rw [minimalB_cons3, ih (by simp) hs]
      simp only [List.length_cons, leVal]
      have hx := x.toNat_lt
      have e : r.length + 1 + 1 + 1 - 2 = (r.length + 1 + 1 - 2) + 1 := by omega
      rw [e, Nat.pow_succ]
      constructor <;> intro h <;> omega

theorem minimalB_complB_iff (b : Bytes) (hlen : 2 ≤ b.length) (hs : isNegB b = false) :
    minimalB (complB b) = minimalB b := by
  induction b with
  | nil => simp at hlen
  | cons x xs ih =>
    match xs, ih, hlen, hs with
    | [], _, hlen, _ => simp at hlen
    | [t], _, _, hs =>
      rw [isNegB_cons_cons, isNegB_single] at hs
      have ht : t.toNat < 128 := by simpa using hs
      have hx := x.toNat_lt
      simp only [complB_eq, List.map_cons, List.map_nil, minimalB_pair, cb_toNat]
      have c0 : (cb t == 0) = false := by
        apply beq_false_of_ne; intro h
        have := (u8_eq_zero_iff _).mp h; rw [cb_toNat] at this; omega
      have t255 : (t == 0xFF) = false := by
        apply beq_false_of_ne; intro h
        have := (u8_eq_ff_iff _).mp h; omega
      have cff : (cb t == 0xFF) = (t == 0) := by
        by_cases h : t = 0
        · subst h; rfl
        · have h1 : cb t ≠ 0xFF := fun hh => h ((cb_eq_ff_iff t).mp hh)
          rw [beq_false_of_ne h1, beq_false_of_ne h]
      simp only [c0, t255, cff, Bool.false_and, Bool.false_or, Bool.or_false]
      congr 2
      rw [decide_eq_decide]
      omega
    | y :: z :: r, ih, _, hs =>
      rw [isNegB_cons_cons] at hs
      have := ih (by simp) hs
      simp only [complB_eq, List.map_cons] at this ⊢
      rw [minimalB_cons3, minimalB_cons3, this]

/-- a non-negative-form, non-zero, minimal byte string is what the encoder produces for its value. -/
theorem leBytes_of_posForm (b : Bytes) (hne : b ≠ []) (hs : isNegB b = false) (hv : leVal b ≠ 0)
    (hmin : 2 ≤ b.length → minimalB b = true) :
    leBytes (bitLen (leVal b) / 8 + 1) (leVal b) = b := by
  have hlen : 1 ≤ b.length := by cases b <;> simp_all
  have hk : bitLen (leVal b) / 8 = b.length - 1 := by
    apply bitLen_div8_eq
    · exact (isNegB_false_iff b hne).mp hs
    · intro h1
      have h2 : 2 ≤ b.length := by omega
      have := (minimal_pos_iff b h2 hs).mp (hmin h2)
      have e : b.length - 1 - 1 = b.length - 2 := by omega
      rw [e]; exact this
  rw [hk]
  have : b.length - 1 + 1 = b.length := by omega
  rw [this]
  exact leBytes_leVal b


theorem minimalB_single (x : UInt8) : minimalB [x] = (x != 0) := rfl

/-- the encoder's positive form is minimal. -/
theorem minimal_posForm (v : Nat) (hv : v ≠ 0) : minimalB (leBytes (bitLen v / 8 + 1) v) = true := by
  obtain ⟨hne, hs, hval⟩ := posForm_spec v
  have hlen : (leBytes (bitLen v / 8 + 1) v).length = bitLen v / 8 + 1 := leBytes_length _ _
  by_cases hk : 1 ≤ bitLen v / 8
  · rw [minimal_pos_iff _ (by omega) hs, hval, hlen]
    have := bitLen_div8_lower v hv hk
    have e : bitLen v / 8 + 1 - 2 = bitLen v / 8 - 1 := by omega
    rw [e]; exact this
  · have hk0 : bitLen v / 8 = 0 := by omega
    have hup := bitLen_div8_upper v
    rw [hk0] at hup ⊢
    simp only [leBytes, minimalB_single]
    have : v % 256 = v := by omega
    rw [this]
    simp only [bne_iff_ne, ne_eq, u8_eq_zero_iff]
    simp [UInt8.toNat_ofNat']
    omega

theorem minimal_toBytes (n : Int) : minimalB (toBytes n) = true := by
  unfold toBytes
  split
  · rfl
  · split
    · rename_i h0 hpos
      exact minimal_posForm _ (by omega)
    · rename_i h0 hneg
      simp only []
      split
      · rfl
      · rename_i hm
        obtain ⟨hne, hs, hval⟩ := posForm_spec (-n - 1).toNat
        have hlen : (leBytes (bitLen (-n - 1).toNat / 8 + 1) (-n - 1).toNat).length = bitLen (-n - 1).toNat / 8 + 1 :=
          leBytes_length _ _
        by_cases hk : 1 ≤ bitLen (-n - 1).toNat / 8
        · rw [minimalB_complB_iff _ (by omega) hs]
          exact minimal_posForm _ hm
        · have hk0 : bitLen (-n - 1).toNat / 8 = 0 := by omega
          have hup := bitLen_div8_upper (-n - 1).toNat
          rw [hk0] at hup ⊢
          simp only [leBytes, complB_eq, List.map_cons, List.map_nil, minimalB_single]
          simp only [bne_iff_ne, ne_eq, u8_eq_zero_iff, cb_toNat]
          simp [UInt8.toNat_ofNat']
          omega

theorem all_ff_of_complB_zero (b : Bytes) (h : leVal (complB b) = 0) : ∀ x ∈ b, x = 0xFF := by
  have h1 := (leVal_eq_zero_iff _).mp h
  rw [stripT_eq_nil_iff] at h1
  intro x hx
  have := h1 (cb x) (by simp only [complB_eq]; exact List.mem_map_of_mem hx)
  have h2 := congrArg cb this
  rw [cb_cb] at h2
  rw [h2]; rfl

/-- a minimal byte string is the encoding of the number it decodes to. -/
theorem toBytes_fromBytes (b : Bytes) (hmin : minimalB b = true) : toBytes (fromBytes b) = b := by
  by_cases hne : b = []
  · subst hne; rfl
  by_cases hs : isNegB b = false
  · -- non-negative form
    rw [fromBytes_pos b hne hs]
    have hv : leVal b ≠ 0 := by
      intro h0
      by_cases h2 : 2 ≤ b.length
      · have := (minimal_pos_iff b h2 hs).mp hmin
        have hp : 0 < 128 * 256 ^ (b.length - 2) := Nat.mul_pos (by decide) (Nat.pow_pos (by decide))
        omega
      · match b, hne, h2, hmin, h0 with
        | [x], _, _, hmin, h0 =>
          rw [minimalB_single] at hmin
          simp only [leVal] at h0
          have : x = 0 := (u8_eq_zero_iff x).mpr (by omega)
          simp [this] at hmin
        | _ :: _ :: _, _, h2, _, _ => simp at h2
    unfold toBytes
    have h1 : ¬ (((leVal b : Nat) : Int) = 0) := by omega
    have h2 : (0 : Int) < ((leVal b : Nat) : Int) := by omega
    simp only [h1, h2, if_false, if_true]
    have : ((leVal b : Nat) : Int).toNat = leVal b := rfl
    rw [this]
    exact leBytes_of_posForm b hne hs hv (fun _ => hmin)
  · -- negative form
    have hs' : isNegB b = true := by simpa using hs
    rw [fromBytes_neg b hne hs']
    have hcne : complB b ≠ [] := fun h => hne ((complB_eq_nil _).mp h)
    have hcs : isNegB (complB b) = false := by rw [isNegB_complB b hne, hs']; rfl
    unfold toBytes
    have h1 : ¬ (-((leVal (complB b) : Nat) : Int) - 1 = 0) := by omega
    have h2 : ¬ ((0 : Int) < -((leVal (complB b) : Nat) : Int) - 1) := by omega
    simp only [h1, h2, if_false]
    have hm : (-(-((leVal (complB b) : Nat) : Int) - 1) - 1).toNat = leVal (complB b) := by
      have : -(-((leVal (complB b) : Nat) : Int) - 1) - 1 = ((leVal (complB b) : Nat) : Int) := by omega
      rw [this]; rfl
    rw [hm]
    have hminc : 2 ≤ (complB b).length → minimalB (complB b) = true := by
      intro h2
      rw [← minimalB_complB_iff (complB b) h2 hcs, complB_complB]; exact hmin
    by_cases hm0 : leVal (complB b) = 0
    · simp only [hm0, if_true]
      have hall := all_ff_of_complB_zero b hm0
      match b, hne, hmin, hall, hminc, hcs with
      | [x], _, _, hall, _, _ => rw [hall x (by simp)]
      | x :: y :: r, _, _, _, hminc, hcs =>
        have h2 : 2 ≤ (complB (x :: y :: r)).length := by simp [complB_length]
        have := (minimal_pos_iff _ h2 hcs).mp (hminc h2)
        have hp : 0 < 128 * 256 ^ ((complB (x :: y :: r)).length - 2) :=
          Nat.mul_pos (by decide) (Nat.pow_pos (by decide))
        omega
    · simp only [hm0, if_false]
      rw [leBytes_of_posForm (complB b) hcne hcs hm0 hminc, complB_complB]

end NeoModel.Codec
