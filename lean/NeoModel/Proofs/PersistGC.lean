/-
Helper lemmas for C02, block and header-hash page garbage collection (Model/PersistGC.lean): the node invariant
with GC floors `GInv` (records are only guaranteed from a block floor on, pages from a page floor on, both floors
below what HeaderHashes.init reads), its preservation by every step of Model/Persist and by tryRunGC when
MaxTraceableBlocks ≥ headerBatchCount, `recover` on such a database, and the prefix lemma for schedules
whose steps commit several batches. Core Lean only.
-/
import NeoModel.Proofs.PersistReset
import NeoModel.Model.PersistGC
namespace NeoModel.Persist


/-- HeaderHashes.storedHeaderCount for header height h. -/
def storedCnt (B h : Nat) : Nat := ((h + 1) / B) * B

theorem storedCnt_mono (B : Nat) {a b : Nat} (h : a ≤ b) : storedCnt B a ≤ storedCnt B b :=
  Nat.mul_le_mul_right _ (Nat.div_le_div_right (by omega))

theorem storedCnt_le (B h : Nat) : storedCnt B h ≤ h + 1 := Nat.div_mul_le_self _ _

theorem lt_storedCnt {B : Nat} (hB : 0 < B) (h : Nat) : h + 1 < storedCnt B h + B := by
  unfold storedCnt
  have := Nat.div_add_mod (h + 1) B
  have hm := Nat.mod_lt (h + 1) hB
  rw [Nat.mul_comm] at this
  omega

theorem storedCnt_add (B t : Nat) (hB : 0 < B) : storedCnt B (t + B) = storedCnt B t + B := by
  unfold storedCnt
  have : t + B + 1 = t + 1 + B := by omega
  rw [this, Nat.add_div_right _ hB, Nat.add_mul]; simp

theorem storedCnt_mod (B h : Nat) : storedCnt B h % B = 0 := Nat.mul_mod_left _ _

/-- the node invariant with garbage-collection floors: block/header records are only guaranteed from height
`fb` on, header-hash pages from start index `fp` on; both floors stay below what HeaderHashes.init reads. -/
structure GInv (H : Hist) (B : Nat) (fb fp : Nat) (n : Node) : Prop where
  ver : n.view Key.version = some (Val.ver n.pfx)
  cb : n.view Key.curBlock = some (Val.ptr n.height)
  ch : n.view Key.curHeader = some (Val.ptr n.hdrHeight)
  le : n.height ≤ n.hdrHeight
  ex : ∀ i, fb ≤ i → i ≤ n.hdrHeight → (n.view (Key.exec i)).isSome
  st : n.view Key.stage = none
  rt : ∀ i, i ≤ n.height → n.view (Key.root i) = some (Val.rootv (H.hashOf (itemsAt H i)))
  tr : n.view (Key.trie n.height) = some (Val.snap n.items)
  it : n.items = itemsAt H n.height
  pg : ∀ q, q % B = 0 → fp ≤ q → q + B ≤ n.hdrHeight + 1 → n.view (Key.page q) = some Val.pagev
  rdy : n.mptReady = true
  ph : ∀ p, n.db Key.curBlock = some (Val.ptr p) → p ≤ n.height
  bfb : fb ≤ storedCnt B n.hdrHeight
  bfp : fp = 0 ∨ fp + B ≤ storedCnt B n.hdrHeight

theorem ginv_of_inv {H B n} (h : Inv H B n) : GInv H B 0 0 n :=
  ⟨h.ver, h.cb, h.ch, h.le, fun i _ hi => h.ex i hi, h.st, h.rt, h.tr, h.it, fun q hq _ hle => h.pg q hq hle, h.rdy, h.ph,
   Nat.zero_le _, Or.inl rfl⟩

theorem ginv_flush {H B fb fp n} (h : GInv H B fb fp n) : GInv H B fb fp { n with db := applyWrites n.cache n.db, cache := [] } := by
  have hv : Node.view { n with db := applyWrites n.cache n.db, cache := [] } = n.view := by simp [Node.view, applyWrites]
  refine ⟨by rw [hv]; exact h.ver, by rw [hv]; exact h.cb, by rw [hv]; exact h.ch, h.le, by rw [hv]; exact h.ex, by rw [hv]; exact h.st,
    by rw [hv]; exact h.rt, by rw [hv]; exact h.tr, h.it, by rw [hv]; exact h.pg, h.rdy, ?_, h.bfb, h.bfp⟩
  intro p hp
  have : n.view Key.curBlock = some (Val.ptr p) := hp
  rw [h.cb] at this
  simp at this
  exact Nat.le_of_eq this.symm

theorem ginv_headers {H B fb fp n} (hB : 0 < B) (h : GInv H B fb fp n) (upTo : Nat) (hgt : n.hdrHeight < upTo) :
    GInv H B fb fp { n with cache := n.cache ++ (headersRange B n.hdrHeight (upTo - n.hdrHeight) ++ [(Key.curHeader, some (Val.ptr upTo))]), hdrHeight := upTo } := by
  have hup : n.hdrHeight + (upTo - n.hdrHeight) = upTo := by omega
  have hv : Node.view { n with cache := n.cache ++ (headersRange B n.hdrHeight (upTo - n.hdrHeight) ++ [(Key.curHeader, some (Val.ptr upTo))]), hdrHeight := upTo }
      = (applyWrites (headersRange B n.hdrHeight (upTo - n.hdrHeight)) n.view).set Key.curHeader (some (Val.ptr upTo)) := by
    simp [Node.view, applyWrites_append, applyWrites]
  obtain ⟨e1, e2, e3, e4⟩ := hdr_effect hB (lo := n.hdrHeight) (hi := upTo) (headersRange B n.hdrHeight (upTo - n.hdrHeight))
    (fun p hp => by have := mem_headersRange hp; rwa [hup] at this)
    (fun i h1 h2 => headersRange_exec _ _ _ _ h1 (by omega))
    (fun i h1 h2 h3 => headersRange_page _ _ _ _ h1 (by omega) h3) n.view
  have hmono := storedCnt_mono B (Nat.le_of_lt hgt)
  refine ⟨?_, ?_, ?_, ?_, ?_, ?_, ?_, ?_, ?_, ?_, ?_, ?_, ?_, ?_⟩
  · rw [hv, Db.set_other _ _ (by simp), e1 _ (by simp) (by simp)]; exact h.ver
  · rw [hv, Db.set_other _ _ (by simp), e1 _ (by simp) (by simp)]; exact h.cb
  · rw [hv]; simp
  · show n.height ≤ upTo; have := h.le; omega
  · intro i hfb hi
    rw [hv, Db.set_other _ _ (by simp)]
    apply e3
    by_cases c : i ≤ n.hdrHeight
    · left; exact h.ex i hfb c
    · right; exact ⟨by omega, hi⟩
  · rw [hv, Db.set_other _ _ (by simp), e1 _ (by simp) (by simp)]; exact h.st
  · intro i hi; rw [hv, Db.set_other _ _ (by simp), e1 _ (by simp) (by simp)]; exact h.rt i hi
  · rw [hv, Db.set_other _ _ (by simp), e1 _ (by simp) (by simp)]; exact h.tr
  · exact h.it
  · intro q hq hfp hle
    rw [hv, Db.set_other _ _ (by simp)]
    apply e4
    by_cases c : q + B ≤ n.hdrHeight + 1
    · left; exact h.pg q hq hfp c
    · right; exact ⟨hq, by omega, hle⟩
  · exact h.rdy
  · exact h.ph
  · exact Nat.le_trans h.bfb hmono
  · rcases h.bfp with e | e
    · left; exact e
    · right; exact Nat.le_trans e hmono

theorem ginv_block {H B fb fp n} (hB : 0 < B) (h : GInv H B fb fp n) :
    GInv H B fb fp (step H B n .block).1 := by
  generalize hhw : (if n.height + 1 = n.hdrHeight + 1 then headerWrites B (n.height + 1) ++ [(Key.curHeader, some (Val.ptr (n.height + 1)))] else ([] : Writes)) = hw
  have hv : (step H B n .block).1.view
      = applyWrites (blockWrites H n.pfx (applyWrites hw n.view) (applyEff (H.eff (n.height + 1)) n.items) (n.height + 1)) (applyWrites hw n.view) := by
    rw [view_ext n (step H B n .block).1 (hw ++ blockWrites H n.pfx (applyWrites hw n.view) (applyEff (H.eff (n.height + 1)) n.items) (n.height + 1)) rfl (by subst hhw; rfl)]
    rw [applyWrites_append]
  have hh : (step H B n .block).1.height = n.height + 1 := rfl
  have hhd : (step H B n .block).1.hdrHeight = max n.hdrHeight (n.height + 1) := rfl
  have hit : (step H B n .block).1.items = applyEff (H.eff (n.height + 1)) n.items := rfl
  have hpf : (step H B n .block).1.pfx = n.pfx := rfl
  have hrd : (step H B n .block).1.mptReady = n.mptReady := rfl
  have hv1 : (applyWrites hw n.view) Key.version = n.view Key.version ∧ (applyWrites hw n.view) Key.stage = n.view Key.stage ∧
      (applyWrites hw n.view) Key.curHeader = some (Val.ptr (max n.hdrHeight (n.height + 1))) ∧
      (∀ i, fb ≤ i → i ≤ max n.hdrHeight (n.height + 1) → ((applyWrites hw n.view) (Key.exec i)).isSome) ∧
      (∀ i, (applyWrites hw n.view) (Key.root i) = n.view (Key.root i)) ∧
      (∀ q, q % B = 0 → fp ≤ q → q + B ≤ max n.hdrHeight (n.height + 1) + 1 → (applyWrites hw n.view) (Key.page q) = some Val.pagev) := by
    by_cases c : n.height + 1 = n.hdrHeight + 1
    · have hc : n.height = n.hdrHeight := by omega
      rw [if_pos c] at hhw
      subst hhw
      have hmax : max n.hdrHeight (n.height + 1) = n.hdrHeight + 1 := by omega
      rw [hmax, hc]
      obtain ⟨e1, e2, e3, e4⟩ := hdr_effect hB (lo := n.hdrHeight) (hi := n.hdrHeight + 1) (headerWrites B (n.hdrHeight + 1))
        (fun p hp => mem_headerWrites (by omega) hp)
        (fun i h1 h2 => by have : i = n.hdrHeight + 1 := by omega
                           subst this; exact headerWrites_exec _ _)
        (fun i h1 h2 h3 => by have : i = n.hdrHeight + 1 := by omega
                              subst this; exact headerWrites_page _ _ h3) n.view
      simp only [applyWrites_append, applyWrites]
      refine ⟨?_, ?_, ?_, ?_, ?_, ?_⟩
      · rw [Db.set_other _ _ (by simp), e1 _ (by simp) (by simp)]
      · rw [Db.set_other _ _ (by simp), e1 _ (by simp) (by simp)]
      · simp
      · intro i hfb hi
        rw [Db.set_other _ _ (by simp)]
        apply e3
        by_cases c' : i ≤ n.hdrHeight
        · left; exact h.ex i hfb c'
        · right; omega
      · intro i; rw [Db.set_other _ _ (by simp), e1 _ (by simp) (by simp)]
      · intro q hq hfp hle
        rw [Db.set_other _ _ (by simp)]
        apply e4
        by_cases c' : q + B ≤ n.hdrHeight + 1
        · left; exact h.pg q hq hfp c'
        · right; exact ⟨hq, by omega, hle⟩
    · rw [if_neg c] at hhw
      subst hhw
      have hle := h.le
      have hmax : max n.hdrHeight (n.height + 1) = n.hdrHeight := by omega
      rw [hmax]
      simp only [applyWrites]
      exact ⟨trivial, trivial, h.ch, h.ex, fun _ => trivial, h.pg⟩
  obtain ⟨a1, a2, a3, a4, a5, a6⟩ := hv1
  obtain ⟨b1, b2, b3, b4, b5, b6, b7, b8, b9⟩ := block_effect H n.pfx (applyWrites hw n.view) (applyEff (H.eff (n.height + 1)) n.items) (n.height + 1) (applyWrites hw n.view)
  have hmono : storedCnt B n.hdrHeight ≤ storedCnt B (max n.hdrHeight (n.height + 1)) := storedCnt_mono B (by omega)
  refine ⟨?_, ?_, ?_, ?_, ?_, ?_, ?_, ?_, ?_, ?_, ?_, ?_, ?_, ?_⟩
  · rw [hv, b4, a1, hpf]; exact h.ver
  · rw [hv, hh]; exact b1
  · rw [hv, b5, hhd]; exact a3
  · rw [hh, hhd]; omega
  · intro i hfb hi; rw [hv]; rw [hhd] at hi; exact b9 i (a4 i hfb hi)
  · rw [hv, b6, a2]; exact h.st
  · intro i hi
    rw [hv]
    rw [hh] at hi
    by_cases c : i = n.height + 1
    · subst c; rw [b2, itemsAt_succ, h.it]
    · rw [b8 i c, a5]; exact h.rt i (by omega)
  · rw [hv, hh, hit]; exact b3
  · rw [hit, hh, itemsAt_succ, h.it]
  · intro q hq hfp hle; rw [hv, b7]; rw [hhd] at hle; exact a6 q hq hfp hle
  · rw [hrd]; exact h.rdy
  · intro p hp; rw [hh]; exact Nat.le_succ_of_le (h.ph p hp)
  · rw [hhd]; exact Nat.le_trans h.bfb hmono
  · rw [hhd]
    rcases h.bfp with e | e
    · left; exact e
    · right; exact Nat.le_trans e hmono

/-- a transfer/MPT GC commit below the write cache. -/
theorem ginv_gcsel {H B fb fp n} (h : GInv H B fb fp n) (tgt : Nat) (g : Nat → Option Val → Option Val) (hlt : tgt < n.height) :
    GInv H B fb fp { n with db := gcSel tgt g n.db } := by
  have hv : ∀ k, (∀ i, k = Key.trie i → tgt < i) → (∀ a, k ≠ Key.xlog a) →
      Node.view { n with db := gcSel tgt g n.db } k = n.view k := by
    intro k h1 h2
    apply applyWrites_congr
    cases k <;> simp [gcSel] at h1 h2 ⊢
    · intro hle; have := h1; omega
  refine ⟨?_, ?_, ?_, h.le, ?_, ?_, ?_, ?_, h.it, ?_, h.rdy, ?_, h.bfb, h.bfp⟩
  · rw [hv _ (by simp) (by simp)]; exact h.ver
  · rw [hv _ (by simp) (by simp)]; exact h.cb
  · rw [hv _ (by simp) (by simp)]; exact h.ch
  · intro i hfb hi; rw [hv _ (by simp) (by simp)]; exact h.ex i hfb hi
  · rw [hv _ (by simp) (by simp)]; exact h.st
  · intro i hi; rw [hv _ (by simp) (by simp)]; exact h.rt i hi
  · rw [hv _ (by intro i e; simp at e; omega) (by simp)]; exact h.tr
  · intro q hq hfp hle; rw [hv _ (by simp) (by simp)]; exact h.pg q hq hfp hle
  · intro p hp; exact h.ph p (by simpa [gcSel] using hp)

theorem ginv_step_base {H : Hist} {B : Nat} (hB : 1 < B) {fb fp : Nat} {n : Node} (h : GInv H B fb fp n) (o : Op) :
    GInv H B fb fp (step H B n o).1 := by
  cases o with
  | headers upTo =>
    simp only [step]
    split
    · exact h
    · exact ginv_headers (by omega) h upTo (by omega)
  | block => exact ginv_block (by omega) h
  | flush =>
    simp only [step]
    split
    · exact h
    · exact ginv_flush h
  | gc tgt g =>
    simp only [step]
    split
    · rename_i ph hph
      split
      · exact ginv_gcsel h tgt g (by have := h.ph ph hph; omega)
      · exact h
    · exact h



/-- keys the block GC loop may delete: records and transactions of heights in [lo, hi). -/
def GcKey (lo hi : Nat) (k : Key) : Prop := ∃ i, lo ≤ i ∧ i < hi ∧ (k = Key.exec i ∨ ∃ j, k = Key.tx i j)

theorem GcKey.mono {lo hi hi' : Nat} {k : Key} (h : GcKey lo hi k) (hle : hi ≤ hi') : GcKey lo hi' k := by
  obtain ⟨i, h1, h2, h3⟩ := h; exact ⟨i, h1, by omega, h3⟩

theorem gcBlocksLoop_keys (H : Hist) (B hdr : Nat) (lo : Nat) (fuel : Nat) :
    ∀ (i : Nat) (v : Db) (acc : Writes) (l : List Nat), lo ≤ i → (∀ p ∈ acc, GcKey lo i p.1) →
      ∀ p ∈ (gcBlocksLoop H B hdr fuel i v acc l).2.1, GcKey lo (i + fuel) p.1 := by
  induction fuel with
  | zero => intro i v acc l _ hacc p hp; simpa [gcBlocksLoop] using hacc p hp
  | succ fuel ih =>
    intro i v acc l hi hacc p hp
    simp only [gcBlocksLoop] at hp
    have hacc' : ∀ p ∈ acc, GcKey lo (i + 1) p.1 := fun p hp => (hacc p hp).mono (by omega)
    have e : i + (fuel + 1) = i + 1 + fuel := by omega
    rw [e]
    split at hp
    · split at hp
      · rename_i v' w hd
        refine ih (i + 1) v' (acc ++ w) _ (by omega) ?_ p hp
        intro q hq
        rcases List.mem_append.mp hq with hq | hq
        · exact hacc' q hq
        · exact ⟨i, hi, by omega, deleteBlock_keys hd q hq⟩
      · exact ih (i + 1) v acc _ (by omega) hacc' p hp
    · exact ih (i + 1) v acc _ (by omega) hacc' p hp

/-- appending deletions of old block/transaction records to the write cache. -/
theorem ginv_gcwrites {H B fb fp n} (h : GInv H B fb fp n) (w : Writes) (hi : Nat) (hw : ∀ p ∈ w, GcKey 0 hi p.1)
    (hb : hi ≤ storedCnt B n.hdrHeight) :
    GInv H B (max fb hi) fp { n with cache := n.cache ++ w } := by
  have hv : ∀ k, ¬ GcKey 0 hi k → Node.view { n with cache := n.cache ++ w } k = n.view k := by
    intro k hk
    rw [view_append]
    exact applyWrites_notin _ _ _ (fun p hp e => hk (e ▸ hw p hp))
  have nk : ∀ k, (∀ i, k ≠ Key.exec i) → (∀ i j, k ≠ Key.tx i j) → ¬ GcKey 0 hi k := by
    intro k h1 h2 ⟨i, _, _, h3⟩
    rcases h3 with e | ⟨j, e⟩
    · exact h1 i e
    · exact h2 i j e
  refine ⟨?_, ?_, ?_, h.le, ?_, ?_, ?_, ?_, h.it, ?_, h.rdy, h.ph, ?_, h.bfp⟩
  · rw [hv _ (nk _ (by simp) (by simp))]; exact h.ver
  · rw [hv _ (nk _ (by simp) (by simp))]; exact h.cb
  · rw [hv _ (nk _ (by simp) (by simp))]; exact h.ch
  · intro i hfb hle
    rw [hv]
    · exact h.ex i (by omega) hle
    · intro ⟨j, _, h2, h3⟩
      rcases h3 with e | ⟨_, e⟩
      · simp at e; omega
      · simp at e
  · rw [hv _ (nk _ (by simp) (by simp))]; exact h.st
  · intro i hi'; rw [hv _ (nk _ (by simp) (by simp))]; exact h.rt i hi'
  · rw [hv _ (nk _ (by simp) (by simp))]; exact h.tr
  · intro q hq hfp hle; rw [hv _ (nk _ (by simp) (by simp))]; exact h.pg q hq hfp hle
  · exact Nat.max_le.mpr ⟨h.bfb, hb⟩

theorem gcBlocksTarget_le (B gcp new tgt : Nat) : gcBlocksTarget B gcp new tgt ≤ tgt := by
  unfold gcBlocksTarget
  split
  · calc (tgt / B - 1) * B ≤ (tgt / B) * B := Nat.mul_le_mul_right _ (Nat.sub_le _ _)
      _ ≤ tgt := Nat.div_mul_le_self _ _
  · exact Nat.le_refl _

/-- the "current page is not stored yet" rule of removeUntraceableBlocks keeps the removal below the stored header
count of any header height ≥ the persisted block height - whatever MaxTraceableBlocks is. -/
theorem gcBlocksTarget_le_stored {B gcp new tgt hdr : Nat} (hB : 0 < B) (ht : tgt ≤ new / gcp * gcp) (hh : new ≤ hdr) :
    gcBlocksTarget B gcp new tgt ≤ storedCnt B hdr := by
  have hP : new / gcp * gcp ≤ new := Nat.div_mul_le_self _ _
  have hS : new / gcp * gcp / B * B ≤ storedCnt B hdr :=
    Nat.mul_le_mul_right _ (Nat.div_le_div_right (by omega))
  unfold gcBlocksTarget
  split
  · rename_i e
    calc (tgt / B - 1) * B ≤ (tgt / B) * B := Nat.mul_le_mul_right _ (Nat.sub_le _ _)
      _ = new / gcp * gcp / B * B := by rw [e]
      _ ≤ storedCnt B hdr := hS
  · rename_i e
    have h1 : tgt / B ≤ new / gcp * gcp / B := Nat.div_le_div_right ht
    have h2 : tgt / B < new / gcp * gcp / B := Nat.lt_of_le_of_ne h1 (fun x => e x.symm)
    have h3 : tgt < (tgt / B + 1) * B := by
      have := Nat.div_add_mod tgt B
      have hm := Nat.mod_lt tgt hB
      rw [Nat.add_mul, Nat.mul_comm]; omega
    have h4 : (tgt / B + 1) * B ≤ new / gcp * gcp / B * B := Nat.mul_le_mul_right _ h2
    omega

/-- removeUntraceableBlocks keeps the invariant, the block floor rises to (at most) the GC target. -/
theorem ginv_gcBlocks {H B fb fp} {cfg : GcCfg} {g : GNode} (h : GInv H B fb fp g.n) (new tgt : Nat)
    (hb : gcBlocksTarget B cfg.gcp new tgt ≤ storedCnt B g.n.hdrHeight) :
    ∃ fb', GInv H B fb' fp (gcBlocks H B cfg g new tgt).n ∧ (gcBlocks H B cfg g new tgt).n.db = g.n.db ∧
      (gcBlocks H B cfg g new tgt).n.height = g.n.height ∧ (gcBlocks H B cfg g new tgt).n.hdrHeight = g.n.hdrHeight := by
  unfold gcBlocks
  simp only
  split
  · exact ⟨fb, h, rfl, rfl, rfl⟩
  · refine ⟨_, ginv_gcwrites h _ (gcBlocksTarget B cfg.gcp new tgt) ?_ hb, rfl, rfl, rfl⟩
    intro p hp
    by_cases c : g.gcLast ≤ gcBlocksTarget B cfg.gcp new tgt
    · have := gcBlocksLoop_keys H B g.n.hdrHeight 0 (gcBlocksTarget B cfg.gcp new tgt - g.gcLast) g.gcLast g.n.view [] g.lru (Nat.zero_le _) (by simp) p hp
      exact this.mono (by omega)
    · have e : gcBlocksTarget B cfg.gcp new tgt - g.gcLast = 0 := by omega
      rw [e] at hp
      simp [gcBlocksLoop] at hp

theorem dropPages_other (till : Nat) (db : Db) (k : Key) (h : ∀ q, k = Key.page q → till < q) : dropPages till db k = db k := by
  cases k <;> simp [dropPages] at h ⊢
  intro hle; omega

/-- the header-hash page GC commit below the write cache: the page floor rises to till + B. -/
theorem ginv_dropPages {H B fb fp n} (hB : 0 < B) (h : GInv H B fb fp n) (till : Nat)
    (hb : till + B + B ≤ storedCnt B n.hdrHeight) :
    GInv H B fb (max fp (till + B)) { n with db := dropPages till n.db } := by
  have hv : ∀ k, (∀ q, k = Key.page q → till < q) → Node.view { n with db := dropPages till n.db } k = n.view k := by
    intro k hk
    apply applyWrites_congr
    exact dropPages_other till n.db k hk
  refine ⟨?_, ?_, ?_, h.le, ?_, ?_, ?_, ?_, h.it, ?_, h.rdy, ?_, h.bfb, ?_⟩
  · rw [hv _ (by simp)]; exact h.ver
  · rw [hv _ (by simp)]; exact h.cb
  · rw [hv _ (by simp)]; exact h.ch
  · intro i hfb hi; rw [hv _ (by simp)]; exact h.ex i hfb hi
  · rw [hv _ (by simp)]; exact h.st
  · intro i hi; rw [hv _ (by simp)]; exact h.rt i hi
  · rw [hv _ (by simp)]; exact h.tr
  · intro q hq hfp hle
    have h1 : fp ≤ q := Nat.le_trans (Nat.le_max_left _ _) hfp
    have h2 : till + B ≤ q := Nat.le_trans (Nat.le_max_right _ _) hfp
    rw [hv _ (by intro q' e; simp at e; subst e; omega)]
    exact h.pg q hq h1 hle
  · intro p hp; exact h.ph p (by simpa [dropPages] using hp)
  · show max fp (till + B) = 0 ∨ max fp (till + B) + B ≤ storedCnt B n.hdrHeight
    right
    rcases h.bfp with e | e
    · subst e; rw [Nat.zero_max]; omega
    · rcases Nat.le_total fp (till + B) with c | c
      · rw [Nat.max_eq_right c]; omega
      · rw [Nat.max_eq_left c]; exact e

theorem initHeaders_of_floor {B : Nat} (db : Db) (hh fb fp : Nat)
    (ch : db Key.curHeader = some (Val.ptr hh))
    (ex : ∀ i, fb ≤ i → i ≤ hh → (db (Key.exec i)).isSome)
    (pg : ∀ q, q % B = 0 → fp ≤ q → q + B ≤ hh + 1 → db (Key.page q) = some Val.pagev)
    (bfb : fb ≤ storedCnt B hh) (bfp : fp = 0 ∨ fp + B ≤ storedCnt B hh) :
    initHeaders B db = .ok hh := by
  simp only [initHeaders, ch]
  have hle : (hh + 1) / B * B ≤ hh + 1 := Nat.div_mul_le_self _ _
  have hpage : ¬ ((hh + 1) / B * B ≥ B ∧ (db (Key.page ((hh + 1) / B * B - B))).isNone = true) := by
    intro ⟨h1, h2⟩
    have hm : ((hh + 1) / B * B - B) % B = 0 := by
      have : (hh + 1) / B * B - B = ((hh + 1) / B - 1) * B := by rw [Nat.sub_mul]; simp
      rw [this]; exact Nat.mul_mod_left _ _
    have := pg _ hm (by unfold storedCnt at bfp; omega) (by omega)
    simp [this] at h2
  rw [if_neg hpage]
  rw [firstMissing_none db _ _ (fun i h1 h2 => ex i (by unfold storedCnt at bfb; omega) (by omega))]

theorem recover_of_ginv {H : Hist} {B S fb fp : Nat} {n : Node} (h : GInv H B fb fp n) (hc : n.cache = []) :
    recover H B S n.db = .ok n := by
  have hv : n.view = n.db := by simp [Node.view, hc, applyWrites]
  have hver := h.ver; have hcb := h.cb; have hch := h.ch; have hst := h.st
  have hrt := h.rt n.height (Nat.le_refl _); have htr := h.tr
  rw [hv] at hver hcb hch hst hrt htr
  have hex := h.ex; have hpg := h.pg
  rw [hv] at hex hpg
  simp only [recover, hver, initHeaders_of_floor n.db n.hdrHeight fb fp hch hex hpg h.bfb h.bfp, hst, hcb, hrt, htr]
  obtain ⟨db, cache, height, hdrHeight, items, pfx, mptReady⟩ := n
  simp at hc
  have := h.rdy
  simp at this
  simp [hc, this]



/-- what is on disk alone is a consistent node not above height `hmax` (or nothing at all). -/
def DiskOK (H : Hist) (B : Nat) (hmax hdmax : Nat) (db : Db) : Prop :=
  db = Db.empty ∨ ∃ (m : Node) (fb fp : Nat), m.db = db ∧ m.cache = [] ∧ GInv H B fb fp m ∧ m.height ≤ hmax ∧ m.hdrHeight ≤ hdmax

theorem DiskOK.mono {H B a a' b b' db} (h : DiskOK H B a b db) (h1 : a ≤ a') (h2 : b ≤ b') : DiskOK H B a' b' db := by
  rcases h with h | ⟨m, fb, fp, e1, e2, e3, e4, e5⟩
  · left; exact h
  · right; exact ⟨m, fb, fp, e1, e2, e3, by omega, by omega⟩

/-- the running node is consistent and so is its backend alone. -/
structure GState (H : Hist) (B : Nat) (g : GNode) : Prop where
  run : ∃ fb fp, GInv H B fb fp g.n
  disk : DiskOK H B g.n.height g.n.hdrHeight g.n.db

theorem gstate_fresh (H : Hist) {B : Nat} (hB : 1 < B) : GState H B { n := fresh H, times := [0] } :=
  ⟨⟨0, 0, ginv_of_inv (inv_fresh H hB)⟩, Or.inl rfl⟩

/-- a recovered node (empty write cache) is a state to continue from. -/
theorem gstate_of_ginv {H B fb fp} {g : GNode} (h : GInv H B fb fp g.n) (hc : g.n.cache = []) : GState H B g :=
  ⟨⟨fb, fp, h⟩, Or.inr ⟨g.n, fb, fp, rfl, hc, h, Nat.le_refl _, Nat.le_refl _⟩⟩

/-- one step: the new state is consistent, its backend is the fold of the batches issued, and the backend after
EVERY prefix of these batches is consistent on its own. -/
def StepOK (H : Hist) (B : Nat) (g g' : GNode) (bs : List Batch) : Prop :=
  GState H B g' ∧ g'.n.db = foldBatches bs g.n.db ∧ g.n.height ≤ g'.n.height ∧ g.n.hdrHeight ≤ g'.n.hdrHeight ∧
  ∀ k, k ≤ bs.length → DiskOK H B g.n.height g.n.hdrHeight (foldBatches (bs.take k) g.n.db)

theorem stepok_nobatch {H B} {g g' : GNode} (hs : GState H B g) (hrun : ∃ fb fp, GInv H B fb fp g'.n) (hdb : g'.n.db = g.n.db)
    (h1 : g.n.height ≤ g'.n.height) (h2 : g.n.hdrHeight ≤ g'.n.hdrHeight) : StepOK H B g g' [] := by
  refine ⟨⟨hrun, ?_⟩, hdb, h1, h2, ?_⟩
  · rw [hdb]; exact hs.disk.mono h1 h2
  · intro k _; simp [foldBatches]; exact hs.disk

theorem gstep_base_ok {H : Hist} {B : Nat} (cfg : GcCfg) (hB : 1 < B) {g : GNode} (hs : GState H B g) (o : Op) :
    StepOK H B g (gstep H B cfg g (.base o)).1 (gstep H B cfg g (.base o)).2 := by
  obtain ⟨fb, fp, hi⟩ := hs.run
  have hrun : ∃ fb fp, GInv H B fb fp (step H B g.n o).1 := ⟨fb, fp, ginv_step_base hB hi o⟩
  simp only [gstep]
  cases o with
  | headers upTo =>
    simp only [step] at hrun ⊢
    split
    · exact stepok_nobatch hs ⟨fb, fp, hi⟩ rfl (Nat.le_refl _) (Nat.le_refl _)
    · rename_i hlt
      rw [if_neg hlt] at hrun
      exact stepok_nobatch hs hrun rfl (Nat.le_refl _) (by show g.n.hdrHeight ≤ upTo; omega)
  | block =>
    exact stepok_nobatch hs hrun rfl (Nat.le_succ _) (Nat.le_max_left _ _)
  | flush =>
    simp only [step] at hrun ⊢
    split
    · exact stepok_nobatch hs ⟨fb, fp, hi⟩ rfl (Nat.le_refl _) (Nat.le_refl _)
    · rename_i hne
      rw [if_neg hne] at hrun
      have hd : DiskOK H B g.n.height g.n.hdrHeight (applyWrites g.n.cache g.n.db) :=
        Or.inr ⟨_, fb, fp, rfl, rfl, ginv_flush hi, Nat.le_refl _, Nat.le_refl _⟩
      refine ⟨⟨hrun, hd⟩, by simp [foldBatches, applyBatch_ofWrites], Nat.le_refl _, Nat.le_refl _, ?_⟩
      intro k hk
      simp at hk
      rcases Nat.le_one_iff_eq_zero_or_eq_one.mp hk with rfl | rfl
      · simp [foldBatches]; exact hs.disk
      · simp [foldBatches, applyBatch_ofWrites]; exact hd
  | gc tgt gx =>
    simp only [step] at hrun ⊢
    split
    · rename_i ph hph
      split
      · rename_i hlt
        rw [hph] at hrun; simp only [if_pos hlt] at hrun
        have hd : DiskOK H B g.n.height g.n.hdrHeight (gcSel tgt gx g.n.db) := by
          rcases hs.disk with he | ⟨m, fbm, fpm, h1, h2, h3, h4, h5⟩
          · rw [he] at hph; simp [Db.empty] at hph
          · have hmv : m.view = m.db := by simp [Node.view, h2, applyWrites]
            have hmh : m.height = ph := by
              have := h3.cb; rw [hmv, h1, hph] at this; simp at this; exact this.symm
            exact Or.inr ⟨{ m with db := gcSel tgt gx m.db }, fbm, fpm, by simp [h1], h2, ginv_gcsel h3 tgt gx (by omega), h4, h5⟩
        refine ⟨⟨hrun, hd⟩, by simp [foldBatches, applyBatch, W.apply], Nat.le_refl _, Nat.le_refl _, ?_⟩
        intro k hk
        simp at hk
        rcases Nat.le_one_iff_eq_zero_or_eq_one.mp hk with rfl | rfl
        · simp [foldBatches]; exact hs.disk
        · simp [foldBatches, applyBatch, W.apply]; exact hd
      · exact stepok_nobatch hs ⟨fb, fp, hi⟩ rfl (Nat.le_refl _) (Nat.le_refl _)
    · exact stepok_nobatch hs ⟨fb, fp, hi⟩ rfl (Nat.le_refl _) (Nat.le_refl _)



theorem pagesTill_add {B tgt : Nat} (h : 0 < pagesTill B tgt) : pagesTill B tgt + B = storedCnt B tgt := by
  unfold pagesTill storedCnt at *
  have h1 : 0 < (tgt + 1) / B - 1 := Nat.pos_of_mul_pos_right h
  have : (tgt + 1) / B = ((tgt + 1) / B - 1) + 1 := by omega
  conv => rhs; rw [this]
  rw [Nat.add_mul]; simp

/-- the pages removed stay two pages below the stored header count of the persisted header height `hh`. -/
theorem gcPagesTill_bound {B : Nat} {db : Db} {hh tgt : Nat}
    (hch : db Key.curHeader = some (Val.ptr hh))
    (hpos : 0 < gcPagesTill B db tgt) : gcPagesTill B db tgt + B + B ≤ storedCnt B hh := by
  unfold gcPagesTill at hpos ⊢
  simp only [hch] at hpos ⊢
  have hl : 0 < ((hh + 1) / B - 2) * B := Nat.lt_of_lt_of_le hpos (Nat.min_le_right _ _)
  have h1 : 0 < (hh + 1) / B - 2 := Nat.pos_of_mul_pos_right hl
  have : ((hh + 1) / B - 2) * B + B + B = storedCnt B hh := by
    unfold storedCnt
    have e : (hh + 1) / B = ((hh + 1) / B - 2) + 1 + 1 := by omega
    conv => rhs; rw [e]
    simp [Nat.add_mul]
  have := Nat.min_le_right (pagesTill B tgt) (((hh + 1) / B - 2) * B)
  omega

theorem gcBase_le (cfg : GcCfg) (new : Nat) : gcBase cfg new ≤ new - cfg.mtb := by
  unfold gcBase
  simp only
  split
  · exact Nat.min_le_left _ _
  · exact Nat.le_refl _

/-- what tryRunGC commits is determined by `gcTarget` (the function tied to the Go source by translation,
Proofs/GoFuncs/C02.lean) and `gcPagesTill`. -/
theorem gcRun_batches (H : Hist) (B : Nat) (cfg : GcCfg) (g : GNode) (old new : Nat) (gx : Nat → Option Val → Option Val)
    (hnew : g.n.db Key.curBlock = some (Val.ptr new)) :
    (gcRun H B cfg g old gx).2 =
      match gcTarget cfg new old with
      | none => []
      | some tgt =>
        -- the transfer logs are only collected when the target's timestamp is still cached (gcBlockTimes)
        let gx' : Nat → Option Val → Option Val := if decide (tgt ∈ g.times) = true then gx else fun _ v => v
        if gcPagesTill B g.n.db tgt > 0 then [[W.trans (gcSel tgt gx')], [W.trans (dropPages (gcPagesTill B g.n.db tgt))]]
        else [[W.trans (gcSel tgt gx')]] := by
  unfold gcRun gcTarget
  simp only [hnew]
  by_cases h1 : new < cfg.mtb
  · simp [h1]
  · by_cases h2 : (gcBase cfg new / cfg.gcp * cfg.gcp > cfg.gcp ∧ new / cfg.gcp ≠ old / cfg.gcp)
    · by_cases h3 : gcPagesTill B g.n.db (gcBase cfg new / cfg.gcp * cfg.gcp) > 0
      · rw [if_neg h1, if_pos h2, if_pos h3, if_neg h1, if_pos h2]; simp only [if_pos h3]
      · rw [if_neg h1, if_pos h2, if_neg h3, if_neg h1, if_pos h2]; simp only [if_neg h3]
    · rw [if_neg h1, if_neg h2, if_neg h1, if_neg h2]

/-- tryRunGC keeps everything consistent (any positive MaxTraceableBlocks, any GCP): the state after it, and the backend after
each of its direct commits. -/
theorem gstep_gcRun_ok {H : Hist} {B : Nat} (cfg : GcCfg) (hB : 1 < B) (hm : 0 < cfg.mtb) {g : GNode} (hs : GState H B g)
    (old : Nat) (gx : Nat → Option Val → Option Val) :
    StepOK H B g (gcRun H B cfg g old gx).1 (gcRun H B cfg g old gx).2 := by
  obtain ⟨fb, fp, hi⟩ := hs.run
  have hsame : StepOK H B g g [] := stepok_nobatch hs ⟨fb, fp, hi⟩ rfl (Nat.le_refl _) (Nat.le_refl _)
  have hmpos := hm
  unfold gcRun
  split
  · rename_i new hnew
    split
    · exact hsame
    · rename_i hge
      simp only
      split
      · rename_i hcond
        -- the node on disk
        rcases hs.disk with he | ⟨m, fbm, fpm, m1, m2, m3, m4, m5⟩
        · rw [he] at hnew; simp [Db.empty] at hnew
        have hmv : m.view = m.db := by simp [Node.view, m2, applyWrites]
        have hmh : m.height = new := by
          have := m3.cb; rw [hmv, m1, hnew] at this; simp at this; exact this.symm
        have hmch : g.n.db Key.curHeader = some (Val.ptr m.hdrHeight) := by
          have := m3.ch; rwa [hmv, m1] at this
        have hmle := m3.le
        have hnh : new ≤ g.n.height := hi.ph new hnew
        have hbase : gcBase cfg new ≤ new - cfg.mtb := gcBase_le cfg new
        have htle : gcBase cfg new / cfg.gcp * cfg.gcp ≤ new - cfg.mtb := Nat.le_trans (Nat.div_mul_le_self _ _) hbase
        have htP : gcBase cfg new / cfg.gcp * cfg.gcp ≤ new / cfg.gcp * cfg.gcp :=
          Nat.mul_le_mul_right _ (Nat.div_le_div_right (Nat.le_trans hbase (Nat.sub_le _ _)))
        generalize gcBase cfg new / cfg.gcp * cfg.gcp = tgt at htle htP hcond ⊢
        have ht1 : tgt + cfg.mtb ≤ new := by omega
        generalize (if decide (tgt ∈ g.times) = true then gx else fun _ v => v) = gx'
        generalize (if decide (tgt ∈ g.times) = true then tgt :: g.times.erase tgt else g.times) = times'
        -- transfer / MPT GC on the backend
        have hi1 := ginv_gcsel hi tgt gx' (by omega)
        have hm1 := ginv_gcsel m3 tgt gx' (by omega)
        have hd1 : DiskOK H B g.n.height g.n.hdrHeight (gcSel tgt gx' g.n.db) :=
          Or.inr ⟨{ m with db := gcSel tgt gx' m.db }, fbm, fpm, by simp [m1], m2, hm1, m4, m5⟩
        -- block removal into the write cache
        have hb2 : gcBlocksTarget B cfg.gcp new tgt ≤ storedCnt B g.n.hdrHeight :=
          gcBlocksTarget_le_stored (by omega) htP (Nat.le_trans hnh hi.le)
        obtain ⟨fb2, hi2, hdb2, hh2, hhd2⟩ := ginv_gcBlocks (cfg := cfg) (g := { g with n := { g.n with db := gcSel tgt gx' g.n.db }, times := times' }) hi1 new tgt hb2
        generalize htl : gcPagesTill B g.n.db tgt = till
        split
        · rename_i htill
          -- header-hash page GC on the backend
          have hbm : till + B + B ≤ storedCnt B m.hdrHeight := by
            rw [← htl]; exact gcPagesTill_bound hmch (by rw [htl]; exact htill)
          have hbn : till + B + B ≤ storedCnt B g.n.hdrHeight := Nat.le_trans hbm (storedCnt_mono B m5)
          have hi3 := ginv_dropPages (by omega) hi2 till (by rw [hhd2]; exact hbn)
          have hm3 := ginv_dropPages (by omega) hm1 till hbm
          have hd3 : DiskOK H B g.n.height g.n.hdrHeight (dropPages till (gcSel tgt gx' g.n.db)) :=
            Or.inr ⟨{ m with db := dropPages till (gcSel tgt gx' m.db) }, fbm, _, by simp [m1], m2, hm3, m4, m5⟩
          refine ⟨⟨⟨_, _, hi3⟩, ?_⟩, ?_, ?_, ?_, ?_⟩
          · show DiskOK H B _ _ (dropPages till _)
            rw [hdb2, hh2, hhd2]; exact hd3
          · show dropPages till _ = _
            rw [hdb2]; simp [foldBatches, applyBatch, W.apply]
          · show g.n.height ≤ _; rw [hh2]; exact Nat.le_refl _
          · show g.n.hdrHeight ≤ _; rw [hhd2]; exact Nat.le_refl _
          · intro k hk
            simp at hk
            have : k = 0 ∨ k = 1 ∨ k = 2 := by omega
            rcases this with rfl | rfl | rfl
            · simp [foldBatches]; exact hs.disk
            · simp [foldBatches, applyBatch, W.apply]; exact hd1
            · simp [foldBatches, applyBatch, W.apply]; exact hd3
        · refine ⟨⟨⟨_, _, hi2⟩, ?_⟩, ?_, ?_, ?_, ?_⟩
          · rw [hdb2, hh2, hhd2]; exact hd1
          · rw [hdb2]; simp [foldBatches, applyBatch, W.apply]
          · rw [hh2]; exact Nat.le_refl _
          · rw [hhd2]; exact Nat.le_refl _
          · intro k hk
            simp at hk
            rcases Nat.le_one_iff_eq_zero_or_eq_one.mp hk with rfl | rfl
            · simp [foldBatches]; exact hs.disk
            · simp [foldBatches, applyBatch, W.apply]; exact hd1
      · exact hsame
  · exact hsame

/-- `StepOK` with the bound of the prefix nodes taken at the END state: this form composes. -/
def StepOKw (H : Hist) (B : Nat) (g g' : GNode) (bs : List Batch) : Prop :=
  GState H B g' ∧ g'.n.db = foldBatches bs g.n.db ∧ g.n.height ≤ g'.n.height ∧ g.n.hdrHeight ≤ g'.n.hdrHeight ∧
  ∀ k, k ≤ bs.length → DiskOK H B g'.n.height g'.n.hdrHeight (foldBatches (bs.take k) g.n.db)

theorem StepOK.weak {H B} {g g' : GNode} {bs : List Batch} (h : StepOK H B g g' bs) : StepOKw H B g g' bs :=
  ⟨h.1, h.2.1, h.2.2.1, h.2.2.2.1, fun k hk => (h.2.2.2.2 k hk).mono h.2.2.1 h.2.2.2.1⟩

theorem StepOKw.comp {H B} {g g' g'' : GNode} {a b : List Batch} (h1 : StepOKw H B g g' a) (h2 : StepOKw H B g' g'' b) :
    StepOKw H B g g'' (a ++ b) := by
  obtain ⟨_, a2, a3, a4, a5⟩ := h1
  obtain ⟨b1, b2, b3, b4, b5⟩ := h2
  refine ⟨b1, by rw [foldBatches_append, ← a2, b2], Nat.le_trans a3 b3, Nat.le_trans a4 b4, ?_⟩
  intro k hk
  by_cases c : k ≤ a.length
  · rw [List.take_append_of_le_length c]
    exact (a5 k c).mono b3 b4
  · obtain ⟨j, rfl⟩ : ∃ j, k = a.length + j := ⟨k - a.length, by omega⟩
    rw [List.take_append, List.take_of_length_le (by omega)]
    simp only [Nat.add_sub_cancel_left]
    rw [foldBatches_append, ← a2]
    apply b5
    simp at hk; omega

/-- AddBlock with a flush during its back-pressure wait is: the header (if new), the flush, the whole block. -/
theorem gstep_blockWait_eq (H : Hist) (B : Nat) (cfg : GcCfg) (g : GNode) :
    gstep H B cfg g .blockWait =
      ((gstep H B cfg (gstep H B cfg (gstep H B cfg g (.base (.headers (g.n.height + 1)))).1 (.base .flush)).1 (.base .block)).1,
       (gstep H B cfg g (.base (.headers (g.n.height + 1)))).2 ++
       ((gstep H B cfg (gstep H B cfg g (.base (.headers (g.n.height + 1)))).1 (.base .flush)).2 ++
        (gstep H B cfg (gstep H B cfg (gstep H B cfg g (.base (.headers (g.n.height + 1)))).1 (.base .flush)).1 (.base .block)).2)) := by
  have hh : (step H B g.n (.headers (g.n.height + 1))).2 = none := by simp only [step]; split <;> rfl
  have hb : ∀ n : Node, (step H B n .block).2 = none := fun _ => rfl
  simp only [gstep, blockWait, hh, hb, Option.toList, List.nil_append, List.append_nil]

theorem gstep_ok {H : Hist} {B : Nat} (cfg : GcCfg) (hB : 1 < B) (hm : 0 < cfg.mtb) {g : GNode} (hs : GState H B g) (o : GOp) :
    StepOKw H B g (gstep H B cfg g o).1 (gstep H B cfg g o).2 := by
  cases o with
  | base o => exact (gstep_base_ok cfg hB hs o).weak
  | gcRun old gx => exact (gstep_gcRun_ok cfg hB hm hs old gx).weak
  | blockWait =>
    rw [gstep_blockWait_eq]
    have s1 := (gstep_base_ok cfg hB hs (.headers (g.n.height + 1))).weak
    have s2 := (gstep_base_ok cfg hB s1.1 .flush).weak
    have s3 := (gstep_base_ok cfg hB s2.1 .block).weak
    exact s1.comp (s2.comp s3)

theorem gstate_grunFrom {H : Hist} {B : Nat} (cfg : GcCfg) (hB : 1 < B) (hm : 0 < cfg.mtb) {g : GNode} (hs : GState H B g) (ops : List GOp) :
    GState H B (grunFrom H B cfg g ops).1 := by
  induction ops generalizing g with
  | nil => exact hs
  | cons o r ih =>
    simp only [grunFrom]
    exact ih (gstep_ok cfg hB hm hs o).1

theorem gheight_mono {H : Hist} {B : Nat} (cfg : GcCfg) (hB : 1 < B) (hm : 0 < cfg.mtb) {g : GNode} (hs : GState H B g) (ops : List GOp) :
    g.n.height ≤ (grunFrom H B cfg g ops).1.n.height ∧ g.n.hdrHeight ≤ (grunFrom H B cfg g ops).1.n.hdrHeight := by
  induction ops generalizing g with
  | nil => exact ⟨Nat.le_refl _, Nat.le_refl _⟩
  | cons o r ih =>
    simp only [grunFrom]
    obtain ⟨s1, _, s3, s4, _⟩ := gstep_ok cfg hB hm hs o
    obtain ⟨a, b⟩ := ih s1
    exact ⟨Nat.le_trans s3 a, Nat.le_trans s4 b⟩

/-- the backend after every prefix of the batches of a whole schedule is consistent on its own. -/
theorem gprefix_ok {H : Hist} {B : Nat} (cfg : GcCfg) (hB : 1 < B) (hm : 0 < cfg.mtb) {g : GNode} (hs : GState H B g) (ops : List GOp)
    (k : Nat) (hk : k ≤ (grunFrom H B cfg g ops).2.length) :
    DiskOK H B (grunFrom H B cfg g ops).1.n.height (grunFrom H B cfg g ops).1.n.hdrHeight
      (foldBatches ((grunFrom H B cfg g ops).2.take k) g.n.db) := by
  induction ops generalizing g k with
  | nil =>
    simp [grunFrom] at hk ⊢
    exact hs.disk
  | cons o r ih =>
    simp only [grunFrom] at hk ⊢
    obtain ⟨s1, s2, s3, s4, s5⟩ := gstep_ok cfg hB hm hs o
    obtain ⟨m1, m2⟩ := gheight_mono cfg hB hm s1 r
    by_cases c : k ≤ (gstep H B cfg g o).2.length
    · rw [List.take_append_of_le_length c]
      exact (s5 k c).mono m1 m2
    · obtain ⟨j, rfl⟩ : ∃ j, k = (gstep H B cfg g o).2.length + j := ⟨k - (gstep H B cfg g o).2.length, by omega⟩
      rw [List.take_append, List.take_of_length_le (by omega)]
      simp only [Nat.add_sub_cancel_left]
      rw [foldBatches_append, ← s2]
      apply ih s1
      simp at hk; omega

/-! ### AddBlock with a flush during its back-pressure wait -/


theorem blockWait_batch (H : Hist) (B : Nat) (n : Node) :
    (blockWait H B n).2 = (if (n.cache ++ waitHeaderWrites B n).isEmpty then none else some (ofWrites (n.cache ++ waitHeaderWrites B n))) := by
  unfold blockWait waitHeaderWrites
  simp only [step]
  split
  · simp; split <;> rfl
  · simp

theorem waitHeaderWrites_not_block (B : Nat) (n : Node) :
    ∀ p ∈ waitHeaderWrites B n, ¬ BlockKey n.pfx (n.height + 1) p := by
  intro p hp hb
  unfold waitHeaderWrites at hp
  split at hp
  · simp at hp
  · rcases List.mem_append.mp hp with hp | hp
    · cases mem_headersRange hp with
      | exec i _ _ => cases hb
      | page i _ _ _ => cases hb
    · simp at hp; subst hp; cases hb

/-- nothing is lost or reordered: the block that waited, once flushed, leaves exactly the node that the same block
without any flush in between leaves after its flush. -/
theorem blockWait_then_flush (H : Hist) (B : Nat) (n : Node) (hle : n.height ≤ n.hdrHeight) :
    (step H B (blockWait H B n).1 .flush).1 = (step H B (step H B n .block).1 .flush).1 := by
  obtain ⟨db, cache, height, hdrHeight, items, pfx, mptReady⟩ := n
  simp only at hle
  by_cases c : height + 1 ≤ hdrHeight
  · have c2 : ¬ (height + 1 = hdrHeight + 1) := by omega
    have hmax : max hdrHeight (height + 1) = hdrHeight := by omega
    by_cases e : cache = []
    · subst e
      simp [blockWait, step, c, c2, Node.view, applyWrites]
    · simp [blockWait, step, c, c2, e, Node.view, applyWrites, applyWrites_append, blockWrites]
  · have e : hdrHeight = height := by omega
    subst e
    have h1 : hdrHeight + 1 - hdrHeight = 1 := by omega
    simp [blockWait, step, h1, c, headersRange, Node.view, applyWrites, applyWrites_append, blockWrites]

end NeoModel.Persist
