/-
C13 — the instruction theorems of Proofs/VmSpec*.lean are statements about `execPure`; this file lifts them
to the machine: for every instruction that is not a context-level one (jumps, calls, RET, TRY*, slots,
PUSHA, SYSCALL/CALLT), `exec` is `execPure` on the current evaluation stack and the heap — the result replaces
stack and heap, a catchable exception is raised through the try stacks, an error is the FAULT.
-/
import NeoModel.Model.Vm
open NeoModel NeoModel.Vm
namespace NeoModel.Vm.Spec

/-- instructions handled by `exec` itself (they touch the invocation stack, slots or the instruction pointer). -/
def ctxOp : Op → Bool
  | .pushA | .jmp _ _ | .call _ | .callA | .callT | .syscall | .ret | .try_ _ | .endTry _ | .endFinally
  | .initSSlot | .initSlot | .ld _ _ | .st _ _ => true
  | _ => false

/-- **exec_is_execPure.** For every other instruction, one machine step applies `execPure` to the current
evaluation stack and the heap. -/
theorem exec_is_execPure (v : Vm) (f : Frame) (fs : List Frame) (c : CallCtx) (cs : List CallCtx) (ins : Instr)
    (hv : v.frames = f :: fs) (hc : f.calls = c :: cs) (hop : ctxOp ins.op = false) :
    exec v ins =
      (match execPure ins.op ins.param f.estack v.heap with
       | .error e => .error e
       | .ok (.next st h) => .ok { v with frames := { f with estack := st } :: fs, heap := h }
       | .ok (.throw ex st h) => ({ v with frames := { f with estack := st } :: fs, heap := h } : Vm).raise ex) := by
  unfold exec
  simp only [hv, hc]
  split <;> rename_i heq <;> first
    | (rw [heq] at hop; simp [ctxOp] at hop; done)
    | (simp only [bind, Except.bind]
       cases execPure ins.op ins.param f.estack v.heap with
       | error e => rfl
       | ok o => cases o <;> rfl)

-- non-vacuity: ADD through `exec` on a loaded machine
example : (exec (Vm.load #[0x9e] [.int ⟨2, by decide⟩, .int ⟨3, by decide⟩] none)
      { op := .add, opByte := 0x9e, param := [], ip := 0, next := 1 }).toOption.map (·.estack) =
    some [.int ⟨5, by decide⟩] := by decide +kernel

end NeoModel.Vm.Spec
