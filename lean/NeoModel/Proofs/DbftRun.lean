/- C19 helper lemmas: monotonicity along runs, small counting facts. -/
import NeoModel.Proofs.DbftStep
namespace NeoModel.Dbft

/-- no step removes a signature or a preparation -/
theorem grows_step (c : Cfg) (s : State) (a : Action) : Grows s (apply c s a) := by
  cases a <;> simp only [apply]
  case deliver to m => exact grows_upd (fun _ h => h) (fun _ h => h)
  case drop => exact ⟨fun _ _ h => h, fun _ _ h => h⟩
  case dup => exact ⟨fun _ _ h => h, fun _ _ h => h⟩
  case timeout => exact ⟨fun _ _ h => h, fun _ _ h => h⟩
  case sendPrepReq i p => exact grows_upd (fun _ h => List.mem_cons_of_mem _ h) (fun _ h => h)
  case sendPrepResp i b => exact grows_upd (fun _ h => List.mem_cons_of_mem _ h) (fun _ h => h)
  case sendCommit i b => exact grows_upd (fun _ h => h) (fun _ h => List.mem_cons_of_mem _ h)
  case sendChangeView i => exact grows_upd (fun _ h => h) (fun _ h => h)
  case sendRecReq => exact ⟨fun _ _ h => h, fun _ _ h => h⟩
  case sendRecMsg => exact ⟨fun _ _ h => h, fun _ _ h => h⟩
  case changeView i nv => exact grows_upd (fun _ h => h) (fun _ h => h)
  case accept i b => exact grows_upd (fun _ h => h) (fun _ h => h)
  case syncBlock i j =>
    split
    · exact grows_upd (fun _ h => h) (fun _ h => h)
    · exact ⟨fun _ _ h => h, fun _ _ h => h⟩

theorem Grows.trans {s1 s2 s3 : State} (a : Grows s1 s2) (b : Grows s2 s3) : Grows s1 s3 :=
  ⟨fun j x h => b.preps j x (a.preps j x h), fun j x h => b.commits j x (a.commits j x h)⟩

theorem run_reachable (c : Cfg) (s : State) (as : List Action) (s' : State)
    (hr : Reachable c s) (h : run c s as = some s') : Reachable c s' := by
  induction as generalizing s with
  | nil => simp [run] at h; subst h; exact hr
  | cons a as ih =>
    simp only [run] at h
    split at h
    · next en => exact ih _ (Reachable.step a hr en) h
    · simp at h

theorem run_grows (c : Cfg) (s : State) (as : List Action) (s' : State)
    (h : run c s as = some s') : Grows s s' := by
  induction as generalizing s with
  | nil => simp [run] at h; subst h; exact ⟨fun _ _ h => h, fun _ _ h => h⟩
  | cons a as ih =>
    simp only [run] at h
    split at h
    · exact (grows_step c s a).trans (ih _ h)
    · simp at h

theorem countP_eq_le_one (n p : Nat) : countP n (fun j => j == p) ≤ 1 := by
  have : ∀ n, countP n (fun j => j == p) = if p < n then 1 else 0 := by
    intro n
    induction n with
    | zero => simp [countP]
    | succ n ih =>
      rw [countP_succ, ih]
      by_cases h1 : p < n
      · have : ¬ (n = p) := by omega
        simp [h1, this]; omega
      · by_cases h2 : n = p
        · subst h2; simp
        · have : ¬ (p < n + 1) := by omega
          simp [h1, h2, this]
  rw [this]; split <;> omega

theorem countP_other (n p : Nat) (P : Nat → Bool) (h : 2 ≤ countP n P) : ∃ j, j < n ∧ j ≠ p ∧ P j = true := by
  have h1 := countP_inter n P (fun j => !(j == p))
  have h2 := countP_compl n (fun j => j == p)
  have h3 := countP_eq_le_one n p
  have hpos : 0 < countP n (fun j => P j && !(j == p)) := by omega
  obtain ⟨j, hj, hpq⟩ := countP_pos n _ hpos
  simp at hpq
  exact ⟨j, hj, hpq.2, hpq.1⟩

theorem m_pos (c : Cfg) (hn : 0 < c.n) : 0 < c.m := by
  unfold Cfg.m Cfg.f; omega

end NeoModel.Dbft
